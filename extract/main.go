// extract re-reads constants, tables and comparison operators from /repo's Go sources and
// prints a Lean file (Generated/<Name>.lean). usage: extract <FactsName> <repo>
package main

import (
	"crypto/sha256"
	"fmt"
	"go/ast"
	"go/parser"
	"go/printer"
	"go/token"
	"os"
	"path/filepath"
	"strconv"
	"strings"
)

var fset = token.NewFileSet()

func parseFile(repo, rel string) *ast.File {
	f, err := parser.ParseFile(fset, filepath.Join(repo, rel), nil, 0)
	if err != nil {
		fmt.Fprintln(os.Stderr, err)
		os.Exit(1)
	}
	return f
}

func funcDecl(f *ast.File, name string) *ast.FuncDecl {
	for _, d := range f.Decls {
		if fd, ok := d.(*ast.FuncDecl); ok && fd.Name.Name == name {
			return fd
		}
	}
	fmt.Fprintf(os.Stderr, "function %s not found\n", name)
	os.Exit(1)
	return nil
}

func src(n ast.Node) string {
	var sb strings.Builder
	printer.Fprint(&sb, fset, n)
	return sb.String()
}

func fingerprint(nodes ...ast.Node) string {
	h := sha256.New()
	for _, n := range nodes {
		h.Write([]byte(src(n)))
	}
	return fmt.Sprintf("%x", h.Sum(nil))[:16]
}

func leanStr(s string) string { return strconv.Quote(s) }

func leanStrList(l []string) string {
	q := make([]string, len(l))
	for i, s := range l {
		q[i] = leanStr(s)
	}
	return "[" + strings.Join(q, ", ") + "]"
}

func intLit(e ast.Expr) (int, bool) {
	switch v := e.(type) {
	case *ast.BasicLit:
		if v.Kind == token.INT {
			n, err := strconv.Atoi(v.Value)
			return n, err == nil
		}
	case *ast.UnaryExpr:
		if v.Op == token.SUB {
			n, ok := intLit(v.X)
			return -n, ok
		}
	case *ast.ParenExpr:
		return intLit(v.X)
	}
	return 0, false
}

// offsetOf returns k for an expression of the form `exp`, `k+exp`, `exp+k`, `-k+exp`.
func offsetOf(e ast.Expr, v string) (int, bool) {
	switch x := e.(type) {
	case *ast.Ident:
		return 0, x.Name == v
	case *ast.BinaryExpr:
		if x.Op == token.ADD {
			if id, ok := x.Y.(*ast.Ident); ok && id.Name == v {
				return intLit(x.X)
			}
			if id, ok := x.X.(*ast.Ident); ok && id.Name == v {
				return intLit(x.Y)
			}
		}
		if x.Op == token.SUB {
			if id, ok := x.X.(*ast.Ident); ok && id.Name == v {
				n, ok := intLit(x.Y)
				return -n, ok
			}
		}
	}
	return 0, false
}

type tableFacts struct {
	prefixes []string
	expStart int
	expStep  int
	formats  []string
	offsets  []int
	base     string
}

func mkTable(fd *ast.FuncDecl) tableFacts {
	var t tableFacts
	gotStart := false
	ast.Inspect(fd.Body, func(n ast.Node) bool {
		switch x := n.(type) {
		case *ast.AssignStmt:
			if len(x.Lhs) == 1 && len(x.Rhs) == 1 {
				if id, ok := x.Lhs[0].(*ast.Ident); ok && id.Name == "exp" {
					if v, ok := intLit(x.Rhs[0]); ok {
						switch x.Tok {
						case token.DEFINE, token.ASSIGN:
							if !gotStart {
								t.expStart, gotStart = v, true
							}
						case token.SUB_ASSIGN:
							t.expStep = v
						case token.ADD_ASSIGN:
							t.expStep = -v
						}
					}
				}
			}
		case *ast.RangeStmt:
			if cl, ok := x.X.(*ast.CompositeLit); ok {
				for _, e := range cl.Elts {
					if bl, ok := e.(*ast.BasicLit); ok && bl.Kind == token.STRING {
						s, _ := strconv.Unquote(bl.Value)
						t.prefixes = append(t.prefixes, s)
					}
				}
			}
		case *ast.CallExpr:
			if sel, ok := x.Fun.(*ast.SelectorExpr); ok {
				if sel.Sel.Name == "Sprintf" && len(x.Args) == 2 {
					if bl, ok := x.Args[0].(*ast.BasicLit); ok {
						s, _ := strconv.Unquote(bl.Value)
						off, ok := offsetOf(x.Args[1], "exp")
						if !ok {
							fmt.Fprintf(os.Stderr, "unrecognised Sprintf argument %s\n", src(x.Args[1]))
							os.Exit(1)
						}
						t.formats = append(t.formats, s)
						t.offsets = append(t.offsets, off)
					}
				}
				if sel.Sel.Name == "Pow" && len(x.Args) == 2 {
					t.base = src(x.Args[0])
				}
			}
		}
		return true
	})
	return t
}

// numForm parses a threshold format ("99.995e%d", ".99995e%d", "0x1.8ffae147ae148p%d") into
// (mantissa, exponent offset, isHex): value = mantissa * base^(offset + <the %d argument>).
func numForm(format string) (mant string, off int, hex bool) {
	body := strings.TrimSuffix(strings.TrimSuffix(format, "e%d"), "p%d")
	if body == format {
		fmt.Fprintf(os.Stderr, "unrecognised threshold format %q\n", format)
		os.Exit(1)
	}
	digitsPerUnit := 1
	if strings.HasPrefix(body, "0x") {
		hex = true
		body = body[2:]
		digitsPerUnit = 4
	}
	ip, fp := body, ""
	if i := strings.IndexByte(body, '.'); i >= 0 {
		ip, fp = body[:i], body[i+1:]
	}
	mant = strings.TrimLeft(ip+fp, "0")
	if mant == "" {
		mant = "0"
	}
	if hex {
		mant = "0x" + mant
	}
	return mant, -len(fp) * digitsPerUnit, hex
}

func numForms(formats []string, offsets []int) string {
	var out []string
	for i, f := range formats {
		m, off, _ := numForm(f)
		out = append(out, fmt.Sprintf("(%s, (%d : Int))", m, off+offsets[i]))
	}
	return "[" + strings.Join(out, ", ") + "]"
}

func intList(l []int) string {
	s := make([]string, len(l))
	for i, v := range l {
		s[i] = fmt.Sprintf("(%d : Int)", v)
	}
	return "[" + strings.Join(s, ", ") + "]"
}

func opCode(op string) int {
	switch op {
	case ">=":
		return 0
	case ">":
		return 1
	case "<=":
		return 2
	case "<":
		return 3
	}
	return 9
}

func fieldIdx(f string) int {
	switch f {
	case "t100":
		return 0
	case "t10":
		return 1
	case "t1":
		return 2
	}
	return 9
}

func scaleFacts(repo string) {
	f := parseFile(repo, "benchunit/scale.go")
	si := mkTable(funcDecl(f, "mkSIFactors"))
	iec := mkTable(funcDecl(f, "mkIECFactors"))
	// mkSigfigs: for exp := -1; exp > -9; exp--
	sf := funcDecl(f, "mkSigfigs")
	var sfStart, sfEnd, sfBase int
	var sfFormat, sfCond string
	ast.Inspect(sf.Body, func(n ast.Node) bool {
		switch x := n.(type) {
		case *ast.ForStmt:
			if as, ok := x.Init.(*ast.AssignStmt); ok {
				sfStart, _ = intLit(as.Rhs[0])
			}
			if be, ok := x.Cond.(*ast.BinaryExpr); ok {
				sfCond = be.Op.String()
				sfEnd, _ = intLit(be.Y)
			}
		case *ast.CallExpr:
			if sel, ok := x.Fun.(*ast.SelectorExpr); ok && sel.Sel.Name == "Sprintf" {
				if bl, ok := x.Args[0].(*ast.BasicLit); ok {
					sfFormat, _ = strconv.Unquote(bl.Value)
				}
			}
		case *ast.ReturnStmt:
			if len(x.Results) == 2 {
				sfBase, _ = intLit(x.Results[1])
			}
		}
		return true
	})
	// CommonScale: the threshold cascade
	cs := funcDecl(f, "CommonScale")
	var cascade, cascadeN []string
	var defaultScaler string
	var fallbackCmp string
	ast.Inspect(cs.Body, func(n ast.Node) bool {
		switch x := n.(type) {
		case *ast.CaseClause:
			if len(x.List) == 1 {
				if be, ok := x.List[0].(*ast.BinaryExpr); ok {
					if sel, ok := be.Y.(*ast.SelectorExpr); ok {
						if len(x.Body) == 1 {
							if rs, ok := x.Body[0].(*ast.ReturnStmt); ok {
								if cl, ok := rs.Results[0].(*ast.CompositeLit); ok {
									p, _ := intLit(cl.Elts[0])
									cascade = append(cascade, fmt.Sprintf("(%s, %s, %d)", leanStr(be.Op.String()), leanStr(sel.Sel.Name), p))
									cascadeN = append(cascadeN, fmt.Sprintf("(%d, %d, %d)", opCode(be.Op.String()), fieldIdx(sel.Sel.Name), p))
								}
							}
						}
					}
				}
			}
		case *ast.IfStmt:
			if be, ok := x.Cond.(*ast.BinaryExpr); ok {
				if id, ok := be.X.(*ast.Ident); ok && id.Name == "min" && be.Op == token.EQL {
					if rs, ok := x.Body.List[0].(*ast.ReturnStmt); ok {
						defaultScaler = src(rs.Results[0])
					}
				}
				if be.Op == token.LOR {
					if l, ok := be.X.(*ast.BinaryExpr); ok {
						fallbackCmp = l.Op.String()
					}
				}
			}
		}
		return true
	})
	format := funcDecl(f, "Format")
	fmt.Println("-- GENERATED by /verif/extract from /repo/benchunit/scale.go on every check run. Do not edit.")
	fmt.Println("namespace Generated.ScaleFacts")
	fmt.Printf("def siPrefixes : List String := %s\n", leanStrList(si.prefixes))
	fmt.Printf("def siExpStart : Int := %d\ndef siExpStep : Int := %d\n", si.expStart, si.expStep)
	fmt.Printf("def siFormats : List String := %s\n", leanStrList(si.formats))
	fmt.Printf("def siOffsets : List Int := %s\n", intList(si.offsets))
	fmt.Printf("/-- thresholds in numeric form: (mantissa, offset): value = mantissa * 10^(exp + offset) -/\n")
	fmt.Printf("def siThresh : List (Nat × Int) := %s\n", numForms(si.formats, si.offsets))
	fmt.Printf("def siBase : String := %s\n", leanStr(si.base))
	fmt.Printf("def iecPrefixes : List String := %s\n", leanStrList(iec.prefixes))
	fmt.Printf("def iecExpStart : Int := %d\ndef iecExpStep : Int := %d\n", iec.expStart, iec.expStep)
	fmt.Printf("def iecFormats : List String := %s\n", leanStrList(iec.formats))
	fmt.Printf("def iecOffsets : List Int := %s\n", intList(iec.offsets))
	fmt.Printf("/-- value = mantissa * 2^(exp + offset) -/\n")
	fmt.Printf("def iecThresh : List (Nat × Int) := %s\n", numForms(iec.formats, iec.offsets))
	fmt.Printf("def iecBase : String := %s\n", leanStr(iec.base))
	fmt.Printf("def sigfigsFormat : String := %s\n", leanStr(sfFormat))
	fmt.Printf("def sigfigsThresh : Nat × Int := %s\n", strings.Trim(numForms([]string{sfFormat}, []int{0}), "[]"))
	fmt.Printf("def sigfigsExpStart : Int := %d\ndef sigfigsExpEnd : Int := %d\ndef sigfigsCond : String := %s\ndef sigfigsBase : Nat := %d\n", sfStart, sfEnd, leanStr(sfCond), sfBase)
	fmt.Printf("/-- (comparison operator, threshold field, precision) of the cascade in CommonScale -/\n")
	fmt.Printf("def cascade : List (String × String × Nat) := [%s]\n", strings.Join(cascade, ", "))
	fmt.Printf("/-- numeric form: (operator code 0:>= 1:> 2:<= 3:<, threshold index 0:t100 1:t10 2:t1, precision) -/\n")
	fmt.Printf("def cascadeN : List (Nat × Nat × Nat) := [%s]\n", strings.Join(cascadeN, ", "))
	fmt.Printf("def fallbackCmp : String := %s\n", leanStr(fallbackCmp))
	fmt.Printf("def fallbackCmpN : Nat := %d\n", opCode(fallbackCmp))
	fmt.Printf("def siBaseIsTwo : Bool := %v\ndef iecBaseIsTwo : Bool := %v\n", si.base == "2", iec.base == "2")
	fmt.Printf("def defaultScaler : String := %s\n", leanStr(defaultScaler))
	fmt.Printf("def fingerprint : String := %s\n", leanStr(fingerprint(cs, format, funcDecl(f, "mkSIFactors"), funcDecl(f, "mkIECFactors"), sf)))
	fmt.Println("end Generated.ScaleFacts")
}

// ---------------------------------------------------------------- shared helpers (facts other than ScaleFacts)

func die(format string, a ...any) {
	fmt.Fprintf(os.Stderr, "extract: "+format+"\n", a...)
	os.Exit(1)
}

func pf(format string, a ...any) { fmt.Printf(format, a...) }

func header(name string, files ...string) {
	pf("-- GENERATED by /verif/extract from %s on every check run. Do not edit.\n", "/repo/"+strings.Join(files, ", /repo/"))
	pf("namespace Generated.%s\n", name)
}

func footer(name string, nodes ...ast.Node) {
	pf("def fingerprint : String := %s\n", leanStr(fingerprint(nodes...)))
	pf("end Generated.%s\n", name)
}

// bytesOf renders the UTF-8 bytes of a Go string as a Lean `List Nat`.
func bytesOf(s string) string {
	b := []byte(s)
	out := make([]string, len(b))
	for i, c := range b {
		out[i] = strconv.Itoa(int(c))
	}
	return "[" + strings.Join(out, ", ") + "]"
}

func strLit(e ast.Expr) (string, bool) {
	if p, ok := e.(*ast.ParenExpr); ok {
		return strLit(p.X)
	}
	if bl, ok := e.(*ast.BasicLit); ok && bl.Kind == token.STRING {
		s, err := strconv.Unquote(bl.Value)
		return s, err == nil
	}
	return "", false
}

// decForm gives the exact decimal value of a Go decimal INT/FLOAT literal text:
// value = mant * 10^exp (mant a decimal digit string without leading zeros).
func decForm(lit string) (mant string, exp int, ok bool) {
	t := strings.ReplaceAll(lit, "_", "")
	if strings.HasPrefix(t, "0x") || strings.HasPrefix(t, "0X") || strings.HasPrefix(t, "0b") || strings.HasPrefix(t, "0o") {
		return "", 0, false
	}
	if i := strings.IndexAny(t, "eE"); i >= 0 {
		v, err := strconv.Atoi(strings.TrimPrefix(t[i+1:], "+"))
		if err != nil {
			return "", 0, false
		}
		exp, t = v, t[:i]
	}
	ip, fp := t, ""
	if i := strings.IndexByte(t, '.'); i >= 0 {
		ip, fp = t[:i], t[i+1:]
	}
	digits := ip + fp
	if digits == "" {
		return "", 0, false
	}
	for _, c := range digits {
		if c < '0' || c > '9' {
			return "", 0, false
		}
	}
	exp -= len(fp)
	mant = strings.TrimLeft(digits, "0")
	if mant == "" {
		mant = "0"
	}
	return mant, exp, true
}

// num is a numeric literal, possibly signed: source text and exact decimal.
type num struct {
	text string
	neg  bool
	mant string
	exp  int
}

func numLit(e ast.Expr) (num, bool) {
	switch v := e.(type) {
	case *ast.ParenExpr:
		return numLit(v.X)
	case *ast.UnaryExpr:
		if v.Op == token.SUB || v.Op == token.ADD {
			n, ok := numLit(v.X)
			if ok && v.Op == token.SUB {
				n.neg = !n.neg
				n.text = "-" + n.text
			}
			return n, ok
		}
	case *ast.BasicLit:
		if v.Kind == token.INT || v.Kind == token.FLOAT {
			m, x, ok := decForm(v.Value)
			return num{v.Value, false, m, x}, ok
		}
	}
	return num{}, false
}

func mustNum(e ast.Expr, what string) num {
	n, ok := numLit(e)
	if !ok {
		die("%s: %s is not a decimal numeric literal", what, src(e))
	}
	return n
}

// lean renders (negative, mantissa, decimal exponent) : Bool × Nat × Int
func (n num) lean() string {
	return fmt.Sprintf("(%v, %s, (%d : Int))", n.neg, n.mant, n.exp)
}

// natVal is the value of a non-negative integer literal.
func (n num) natVal(what string) string {
	if n.neg || n.exp < 0 {
		die("%s: %s is not a natural number", what, n.text)
	}
	return n.mant + strings.Repeat("0", n.exp)
}

func joinS(l []string) string { return "[" + strings.Join(l, ", ") + "]" }

// opN: comparison / boolean operator codes shared by all generated files
// 0:>= 1:> 2:<= 3:< 4:== 5:!= 6:|| 7:&&
func opN(op token.Token) int {
	switch op {
	case token.GEQ:
		return 0
	case token.GTR:
		return 1
	case token.LEQ:
		return 2
	case token.LSS:
		return 3
	case token.EQL:
		return 4
	case token.NEQ:
		return 5
	case token.LOR:
		return 6
	case token.LAND:
		return 7
	}
	return 9
}

func unparen(e ast.Expr) ast.Expr {
	for {
		p, ok := e.(*ast.ParenExpr)
		if !ok {
			return e
		}
		e = p.X
	}
}

func isSel(e ast.Expr, x, sel string) bool {
	s, ok := unparen(e).(*ast.SelectorExpr)
	if !ok || s.Sel.Name != sel {
		return false
	}
	id, ok := s.X.(*ast.Ident)
	return ok && id.Name == x
}

func isIdent(e ast.Expr, name string) bool {
	id, ok := unparen(e).(*ast.Ident)
	return ok && id.Name == name
}

func callOf(e ast.Expr) (fun string, args []ast.Expr, ok bool) {
	c, ok := unparen(e).(*ast.CallExpr)
	if !ok {
		return "", nil, false
	}
	return src(c.Fun), c.Args, true
}

// ---------------------------------------------------------------- C04: benchunit/tidy.go

func tidyFacts(repo string) {
	f := parseFile(repo, "benchunit/tidy.go")
	tu := funcDecl(f, "tidyUnit")
	tuu := funcDecl(f, "tidyUnitUncached")
	ty := funcDecl(f, "Tidy")

	// tidyUnit: `switch unit { case …: return …, … }` then `if !(Contains || Contains) { return unit, 1 }`
	var fastS, fastN []string
	var pre []string
	preNeg, preOp, preFound := false, token.ILLEGAL, false
	var preRet num
	preRetUnit := false
	for _, st := range tu.Body.List {
		switch x := st.(type) {
		case *ast.SwitchStmt:
			if !isIdent(x.Tag, "unit") {
				continue
			}
			for _, c := range x.Body.List {
				cc := c.(*ast.CaseClause)
				if len(cc.Body) != 1 {
					die("tidyUnit: fast-path case with %d statements", len(cc.Body))
				}
				rs, ok := cc.Body[0].(*ast.ReturnStmt)
				if !ok || len(rs.Results) != 2 {
					die("tidyUnit: fast-path case does not return two values")
				}
				factor := mustNum(rs.Results[1], "tidyUnit fast-path factor")
				for _, l := range cc.List {
					label, ok := strLit(l)
					if !ok {
						die("tidyUnit: case label %s is not a string literal", src(l))
					}
					tidied, ok := strLit(rs.Results[0])
					if !ok {
						if !isIdent(rs.Results[0], "unit") {
							die("tidyUnit: unrecognised fast-path result %s", src(rs.Results[0]))
						}
						tidied = label
					}
					fastS = append(fastS, fmt.Sprintf("(%s, %s, %s)", leanStr(label), leanStr(tidied), leanStr(factor.text)))
					fastN = append(fastN, fmt.Sprintf("(%s, %s, %s)", bytesOf(label), bytesOf(tidied), factor.lean()))
				}
			}
		case *ast.IfStmt:
			if preFound {
				continue
			}
			cond := unparen(x.Cond)
			neg := false
			for {
				u, ok := cond.(*ast.UnaryExpr)
				if !ok || u.Op != token.NOT {
					break
				}
				neg = !neg
				cond = unparen(u.X)
			}
			var subs []string
			op := token.ILLEGAL
			good := true
			var walk func(e ast.Expr)
			walk = func(e ast.Expr) {
				e = unparen(e)
				if be, ok := e.(*ast.BinaryExpr); ok && (be.Op == token.LOR || be.Op == token.LAND) {
					if op != token.ILLEGAL && op != be.Op {
						good = false
					}
					op = be.Op
					walk(be.X)
					walk(be.Y)
					return
				}
				fun, args, ok := callOf(e)
				if ok && fun == "strings.Contains" && len(args) == 2 && isIdent(args[0], "unit") {
					if s, ok := strLit(args[1]); ok {
						subs = append(subs, s)
						return
					}
				}
				good = false
			}
			walk(cond)
			if !good || len(subs) == 0 {
				continue
			}
			if len(x.Body.List) != 1 {
				die("tidyUnit: pre-filter body has %d statements", len(x.Body.List))
			}
			rs, ok := x.Body.List[0].(*ast.ReturnStmt)
			if !ok || len(rs.Results) != 2 {
				die("tidyUnit: pre-filter body does not return two values")
			}
			pre, preNeg, preOp, preFound = subs, neg, op, true
			preRetUnit = isIdent(rs.Results[0], "unit")
			preRet = mustNum(rs.Results[1], "tidyUnit pre-filter factor")
		}
	}
	if len(fastS) == 0 {
		die("tidyUnit: fast-path switch not found")
	}
	if !preFound {
		die("tidyUnit: strings.Contains pre-filter not found")
	}

	// tidyUnitUncached
	var initFactor *num
	denomSkipped := false
	var editS, editN []string
	reverse := false
	applyExpr := ""
	ast.Inspect(tuu.Body, func(n ast.Node) bool {
		switch x := n.(type) {
		case *ast.AssignStmt:
			if len(x.Lhs) == 1 && len(x.Rhs) == 1 && isIdent(x.Lhs[0], "factor") && x.Tok == token.ASSIGN && initFactor == nil {
				v := mustNum(x.Rhs[0], "tidyUnitUncached initial factor")
				initFactor = &v
			}
			if len(x.Lhs) == 1 && len(x.Rhs) == 1 && isIdent(x.Lhs[0], "unit") && x.Tok == token.ASSIGN {
				applyExpr = src(x.Rhs[0])
			}
		case *ast.IfStmt:
			if isSel(x.Cond, "p", "denom") && len(x.Body.List) == 1 {
				if b, ok := x.Body.List[0].(*ast.BranchStmt); ok && b.Tok == token.CONTINUE {
					denomSkipped = true
				}
			}
		case *ast.SwitchStmt:
			if !isSel(x.Tag, "p", "tok") {
				return true
			}
			for _, c := range x.Body.List {
				cc := c.(*ast.CaseClause)
				if len(cc.List) != 1 {
					die("tidyUnitUncached: case with %d labels", len(cc.List))
				}
				tok, ok := strLit(cc.List[0])
				if !ok {
					die("tidyUnitUncached: case label %s", src(cc.List[0]))
				}
				var pos, lenArg, repl string
				var fop token.Token
				var fnum num
				gotEdit, gotFactor := false, false
				for _, st := range cc.Body {
					as, ok := st.(*ast.AssignStmt)
					if !ok || len(as.Lhs) != 1 || len(as.Rhs) != 1 {
						die("tidyUnitUncached: unexpected statement %s", src(st))
					}
					if isIdent(as.Lhs[0], "edits") {
						fun, args, ok := callOf(as.Rhs[0])
						if !ok || fun != "append" || len(args) != 2 {
							die("tidyUnitUncached: %s", src(as.Rhs[0]))
						}
						cl, ok := args[1].(*ast.CompositeLit)
						if !ok || len(cl.Elts) != 3 {
							die("tidyUnitUncached: edit literal %s", src(args[1]))
						}
						pos = src(cl.Elts[0])
						lf, largs, ok := callOf(cl.Elts[1])
						if !ok || lf != "len" || len(largs) != 1 {
							die("tidyUnitUncached: edit length %s", src(cl.Elts[1]))
						}
						if lenArg, ok = strLit(largs[0]); !ok {
							die("tidyUnitUncached: edit length %s", src(cl.Elts[1]))
						}
						if repl, ok = strLit(cl.Elts[2]); !ok {
							die("tidyUnitUncached: edit replacement %s", src(cl.Elts[2]))
						}
						gotEdit = true
					} else if isIdent(as.Lhs[0], "factor") {
						fop = as.Tok
						if fop != token.QUO_ASSIGN && fop != token.MUL_ASSIGN {
							die("tidyUnitUncached: factor operator %s", fop)
						}
						fnum = mustNum(as.Rhs[0], "tidyUnitUncached factor")
						gotFactor = true
					} else {
						die("tidyUnitUncached: unexpected statement %s", src(st))
					}
				}
				if !gotEdit || !gotFactor {
					die("tidyUnitUncached: case %q lacks edit or factor", tok)
				}
				opc := 0
				if fop == token.MUL_ASSIGN {
					opc = 1
				}
				editS = append(editS, fmt.Sprintf("(%s, %s, %s, %s, %s, %s)", leanStr(tok), leanStr(pos), leanStr(lenArg), leanStr(repl), leanStr(fop.String()), leanStr(fnum.text)))
				editN = append(editN, fmt.Sprintf("(%s, %d, %s, %d, %s)", bytesOf(tok), len(lenArg), bytesOf(repl), opc, fnum.lean()))
			}
		case *ast.ForStmt:
			// for i := len(edits) - 1; i >= 0; i--
			if x.Init != nil && x.Cond != nil && x.Post != nil &&
				src(x.Init) == "i := len(edits) - 1" && src(x.Cond) == "i >= 0" && src(x.Post) == "i--" {
				reverse = true
			}
		}
		return true
	})
	if initFactor == nil || len(editS) == 0 || applyExpr == "" {
		die("tidyUnitUncached: structure not recognised")
	}
	// Tidy: return value * factor, newUnit
	var tidyExpr string
	tidyMul := false
	for _, st := range ty.Body.List {
		if rs, ok := st.(*ast.ReturnStmt); ok && len(rs.Results) == 2 {
			tidyExpr = src(rs.Results[0])
			if be, ok := rs.Results[0].(*ast.BinaryExpr); ok && be.Op == token.MUL {
				tidyMul = (isIdent(be.X, "value") && isIdent(be.Y, "factor")) || (isIdent(be.X, "factor") && isIdent(be.Y, "value"))
			}
		}
	}

	header("TidyFacts", "benchunit/tidy.go")
	pf("/-- fast-path `switch unit` of tidyUnit, source text: (case label, returned unit, factor literal) -/\n")
	pf("def fastTableS : List (String × String × String) := %s\n", joinS(fastS))
	pf("/-- numeric form: (label bytes, returned-unit bytes, factor as (negative, mantissa, decimal exponent)) -/\n")
	pf("def fastTable : List (List Nat × List Nat × (Bool × Nat × Int)) := %s\n", joinS(fastN))
	pf("/-- substrings of the `strings.Contains(unit, …)` pre-filter, in source order -/\n")
	pf("def prefilterS : List String := %s\n", leanStrList(pre))
	b := make([]string, len(pre))
	for i, s := range pre {
		b[i] = bytesOf(s)
	}
	pf("def prefilter : List (List Nat) := %s\n", joinS(b))
	pf("/-- the pre-filter condition is `!(… op …)`: negated?, op code (6:|| 7:&& 9:single call) -/\n")
	pf("def prefilterNegated : Bool := %v\ndef prefilterOpN : Nat := %d\n", preNeg, opN(preOp))
	pf("/-- what the pre-filter returns: the unit unchanged?, and the factor -/\n")
	pf("def prefilterReturnsUnit : Bool := %v\ndef prefilterFactor : Bool × Nat × Int := %s\n", preRetUnit, preRet.lean())
	pf("/-- tidyUnitUncached `switch p.tok`, source text: (token, position expr, len argument, replacement, factor operator, factor literal) -/\n")
	pf("def editsS : List (String × String × String × String × String × String) := %s\n", joinS(editS))
	pf("/-- numeric form: (token bytes, edit length, replacement bytes, 0:`/=` 1:`*=`, factor literal) -/\n")
	pf("def edits : List (List Nat × Nat × List Nat × Nat × (Bool × Nat × Int)) := %s\n", joinS(editN))
	pf("def initFactor : Bool × Nat × Int := %s\n", initFactor.lean())
	pf("/-- `if p.denom { continue }` present -/\ndef denomSkipped : Bool := %v\n", denomSkipped)
	pf("/-- edits applied by `for i := len(edits) - 1; i >= 0; i--` -/\ndef editsAppliedLastFirst : Bool := %v\n", reverse)
	pf("def applyExpr : String := %s\n", leanStr(applyExpr))
	pf("def tidyValueExpr : String := %s\ndef tidyValueIsMul : Bool := %v\n", leanStr(tidyExpr), tidyMul)
	footer("TidyFacts", ty, tu, tuu)
}

func main() {
	if len(os.Args) != 3 {
		fmt.Fprintln(os.Stderr, "usage: extract <FactsName> <repo>")
		os.Exit(2)
	}
	switch os.Args[1] {
	case "ScaleFacts":
		scaleFacts(os.Args[2])
	case "TidyFacts":
		tidyFacts(os.Args[2])
	default:
		fmt.Fprintln(os.Stderr, "unknown facts", os.Args[1])
		os.Exit(2)
	}
}
