// extract re-reads constants, tables and comparison operators from /repo's Go sources and
// prints a Lean file (Generated/<Name>.lean). usage: extract <FactsName> <repo>
//
// Facts: ScaleFacts (C10, benchunit/scale.go), TidyFacts (C04, benchunit/tidy.go), UTestFacts (C11,
// internal/stats/utest.go), DistFacts (C12, internal/stats numeric constants), NothingFacts (C13,
// benchmath/anone.go + sample.go), CmdFacts (C14, cmd/benchstat/main.go), LegacyFacts (C17,
// benchstat/{data,table,scaler}.go), SeriesFacts (C18, benchseries/benchseries.go), DbFacts
// (C19/C20, storage/db/db.go), NumFacts (C03, benchfmt/internal/bytesconv + reader.go atof),
// ReadFacts (C02, benchfmt/reader.go + files.go), ParseFacts (C06/C07/C09, benchproc parse, special
// keys, orders, sort.go), TabFacts (C16, benchtab/texttab table.go), WriteFacts (C01,
// benchfmt/writer.go). Conventions of the output: /verif/notes/FACTS.md.
package main

import (
	"bufio"
	"crypto/sha256"
	"fmt"
	"go/ast"
	"go/parser"
	"go/printer"
	"go/token"
	"math/big"
	"os"
	"path/filepath"
	"regexp"
	"strconv"
	"strings"
	"time"
)

var fset = token.NewFileSet()

func parseFile(repo, rel string) *ast.File {
	f, err := parser.ParseFile(fset, filepath.Join(repo, rel), nil, 0)
	if err != nil {
		fmt.Fprintln(os.Stderr, err)
		os.Exit(1)
	}
	return f
}

func funcDecl(f *ast.File, name string) *ast.FuncDecl {
	for _, d := range f.Decls {
		if fd, ok := d.(*ast.FuncDecl); ok && fd.Name.Name == name {
			return fd
		}
	}
	fmt.Fprintf(os.Stderr, "function %s not found\n", name)
	os.Exit(1)
	return nil
}

func src(n ast.Node) string {
	var sb strings.Builder
	printer.Fprint(&sb, fset, n)
	return sb.String()
}

func fingerprint(nodes ...ast.Node) string {
	h := sha256.New()
	for _, n := range nodes {
		h.Write([]byte(src(n)))
	}
	return fmt.Sprintf("%x", h.Sum(nil))[:16]
}

func leanStr(s string) string { return strconv.Quote(s) }

func leanStrList(l []string) string {
	q := make([]string, len(l))
	for i, s := range l {
		q[i] = leanStr(s)
	}
	return "[" + strings.Join(q, ", ") + "]"
}

func intLit(e ast.Expr) (int, bool) {
	switch v := e.(type) {
	case *ast.BasicLit:
		if v.Kind == token.INT {
			n, err := strconv.Atoi(v.Value)
			return n, err == nil
		}
	case *ast.UnaryExpr:
		if v.Op == token.SUB {
			n, ok := intLit(v.X)
			return -n, ok
		}
	case *ast.ParenExpr:
		return intLit(v.X)
	}
	return 0, false
}

// offsetOf returns k for an expression of the form `exp`, `k+exp`, `exp+k`, `-k+exp`.
func offsetOf(e ast.Expr, v string) (int, bool) {
	switch x := e.(type) {
	case *ast.Ident:
		return 0, x.Name == v
	case *ast.BinaryExpr:
		if x.Op == token.ADD {
			if id, ok := x.Y.(*ast.Ident); ok && id.Name == v {
				return intLit(x.X)
			}
			if id, ok := x.X.(*ast.Ident); ok && id.Name == v {
				return intLit(x.Y)
			}
		}
		if x.Op == token.SUB {
			if id, ok := x.X.(*ast.Ident); ok && id.Name == v {
				n, ok := intLit(x.Y)
				return -n, ok
			}
		}
	}
	return 0, false
}

type tableFacts struct {
	prefixes []string
	expStart int
	expStep  int
	formats  []string
	offsets  []int
	base     string
}

func mkTable(fd *ast.FuncDecl) tableFacts {
	var t tableFacts
	gotStart := false
	ast.Inspect(fd.Body, func(n ast.Node) bool {
		switch x := n.(type) {
		case *ast.AssignStmt:
			if len(x.Lhs) == 1 && len(x.Rhs) == 1 {
				if id, ok := x.Lhs[0].(*ast.Ident); ok && id.Name == "exp" {
					if v, ok := intLit(x.Rhs[0]); ok {
						switch x.Tok {
						case token.DEFINE, token.ASSIGN:
							if !gotStart {
								t.expStart, gotStart = v, true
							}
						case token.SUB_ASSIGN:
							t.expStep = v
						case token.ADD_ASSIGN:
							t.expStep = -v
						}
					}
				}
			}
		case *ast.RangeStmt:
			if cl, ok := x.X.(*ast.CompositeLit); ok {
				for _, e := range cl.Elts {
					if bl, ok := e.(*ast.BasicLit); ok && bl.Kind == token.STRING {
						s, _ := strconv.Unquote(bl.Value)
						t.prefixes = append(t.prefixes, s)
					}
				}
			}
		case *ast.CallExpr:
			if sel, ok := x.Fun.(*ast.SelectorExpr); ok {
				if sel.Sel.Name == "Sprintf" && len(x.Args) == 2 {
					if bl, ok := x.Args[0].(*ast.BasicLit); ok {
						s, _ := strconv.Unquote(bl.Value)
						off, ok := offsetOf(x.Args[1], "exp")
						if !ok {
							fmt.Fprintf(os.Stderr, "unrecognised Sprintf argument %s\n", src(x.Args[1]))
							os.Exit(1)
						}
						t.formats = append(t.formats, s)
						t.offsets = append(t.offsets, off)
					}
				}
				if sel.Sel.Name == "Pow" && len(x.Args) == 2 {
					t.base = src(x.Args[0])
				}
			}
		}
		return true
	})
	return t
}

// numForm parses a threshold format ("99.995e%d", ".99995e%d", "0x1.8ffae147ae148p%d") into
// (mantissa, exponent offset, isHex): value = mantissa * base^(offset + <the %d argument>).
func numForm(format string) (mant string, off int, hex bool) {
	body := strings.TrimSuffix(strings.TrimSuffix(format, "e%d"), "p%d")
	if body == format {
		fmt.Fprintf(os.Stderr, "unrecognised threshold format %q\n", format)
		os.Exit(1)
	}
	digitsPerUnit := 1
	if strings.HasPrefix(body, "0x") {
		hex = true
		body = body[2:]
		digitsPerUnit = 4
	}
	ip, fp := body, ""
	if i := strings.IndexByte(body, '.'); i >= 0 {
		ip, fp = body[:i], body[i+1:]
	}
	mant = strings.TrimLeft(ip+fp, "0")
	if mant == "" {
		mant = "0"
	}
	if hex {
		mant = "0x" + mant
	}
	return mant, -len(fp) * digitsPerUnit, hex
}

func numForms(formats []string, offsets []int) string {
	var out []string
	for i, f := range formats {
		m, off, _ := numForm(f)
		out = append(out, fmt.Sprintf("(%s, (%d : Int))", m, off+offsets[i]))
	}
	return "[" + strings.Join(out, ", ") + "]"
}

func intList(l []int) string {
	s := make([]string, len(l))
	for i, v := range l {
		s[i] = fmt.Sprintf("(%d : Int)", v)
	}
	return "[" + strings.Join(s, ", ") + "]"
}

func opCode(op string) int {
	switch op {
	case ">=":
		return 0
	case ">":
		return 1
	case "<=":
		return 2
	case "<":
		return 3
	}
	return 9
}

func fieldIdx(f string) int {
	switch f {
	case "t100":
		return 0
	case "t10":
		return 1
	case "t1":
		return 2
	}
	return 9
}

func scaleFacts(repo string) {
	f := parseFile(repo, "benchunit/scale.go")
	si := mkTable(funcDecl(f, "mkSIFactors"))
	iec := mkTable(funcDecl(f, "mkIECFactors"))
	// mkSigfigs: for exp := -1; exp > -9; exp--
	sf := funcDecl(f, "mkSigfigs")
	var sfStart, sfEnd, sfBase int
	var sfFormat, sfCond string
	ast.Inspect(sf.Body, func(n ast.Node) bool {
		switch x := n.(type) {
		case *ast.ForStmt:
			if as, ok := x.Init.(*ast.AssignStmt); ok {
				sfStart, _ = intLit(as.Rhs[0])
			}
			if be, ok := x.Cond.(*ast.BinaryExpr); ok {
				sfCond = be.Op.String()
				sfEnd, _ = intLit(be.Y)
			}
		case *ast.CallExpr:
			if sel, ok := x.Fun.(*ast.SelectorExpr); ok && sel.Sel.Name == "Sprintf" {
				if bl, ok := x.Args[0].(*ast.BasicLit); ok {
					sfFormat, _ = strconv.Unquote(bl.Value)
				}
			}
		case *ast.ReturnStmt:
			if len(x.Results) == 2 {
				sfBase, _ = intLit(x.Results[1])
			}
		}
		return true
	})
	// CommonScale: the threshold cascade
	cs := funcDecl(f, "CommonScale")
	var cascade, cascadeN []string
	var defaultScaler string
	var fallbackCmp string
	ast.Inspect(cs.Body, func(n ast.Node) bool {
		switch x := n.(type) {
		case *ast.CaseClause:
			if len(x.List) == 1 {
				if be, ok := x.List[0].(*ast.BinaryExpr); ok {
					if sel, ok := be.Y.(*ast.SelectorExpr); ok {
						if len(x.Body) == 1 {
							if rs, ok := x.Body[0].(*ast.ReturnStmt); ok {
								if cl, ok := rs.Results[0].(*ast.CompositeLit); ok {
									p, _ := intLit(cl.Elts[0])
									cascade = append(cascade, fmt.Sprintf("(%s, %s, %d)", leanStr(be.Op.String()), leanStr(sel.Sel.Name), p))
									cascadeN = append(cascadeN, fmt.Sprintf("(%d, %d, %d)", opCode(be.Op.String()), fieldIdx(sel.Sel.Name), p))
								}
							}
						}
					}
				}
			}
		case *ast.IfStmt:
			if be, ok := x.Cond.(*ast.BinaryExpr); ok {
				if id, ok := be.X.(*ast.Ident); ok && id.Name == "min" && be.Op == token.EQL {
					if rs, ok := x.Body.List[0].(*ast.ReturnStmt); ok {
						defaultScaler = src(rs.Results[0])
					}
				}
				if be.Op == token.LOR {
					if l, ok := be.X.(*ast.BinaryExpr); ok {
						fallbackCmp = l.Op.String()
					}
				}
			}
		}
		return true
	})
	format := funcDecl(f, "Format")
	fmt.Println("-- GENERATED by /verif/extract from /repo/benchunit/scale.go on every check run. Do not edit.")
	fmt.Println("namespace Generated.ScaleFacts")
	fmt.Printf("def siPrefixes : List String := %s\n", leanStrList(si.prefixes))
	fmt.Printf("def siExpStart : Int := %d\ndef siExpStep : Int := %d\n", si.expStart, si.expStep)
	fmt.Printf("def siFormats : List String := %s\n", leanStrList(si.formats))
	fmt.Printf("def siOffsets : List Int := %s\n", intList(si.offsets))
	fmt.Printf("/-- thresholds in numeric form: (mantissa, offset): value = mantissa * 10^(exp + offset) -/\n")
	fmt.Printf("def siThresh : List (Nat × Int) := %s\n", numForms(si.formats, si.offsets))
	fmt.Printf("def siBase : String := %s\n", leanStr(si.base))
	fmt.Printf("def iecPrefixes : List String := %s\n", leanStrList(iec.prefixes))
	fmt.Printf("def iecExpStart : Int := %d\ndef iecExpStep : Int := %d\n", iec.expStart, iec.expStep)
	fmt.Printf("def iecFormats : List String := %s\n", leanStrList(iec.formats))
	fmt.Printf("def iecOffsets : List Int := %s\n", intList(iec.offsets))
	fmt.Printf("/-- value = mantissa * 2^(exp + offset) -/\n")
	fmt.Printf("def iecThresh : List (Nat × Int) := %s\n", numForms(iec.formats, iec.offsets))
	fmt.Printf("def iecBase : String := %s\n", leanStr(iec.base))
	fmt.Printf("def sigfigsFormat : String := %s\n", leanStr(sfFormat))
	fmt.Printf("def sigfigsThresh : Nat × Int := %s\n", strings.Trim(numForms([]string{sfFormat}, []int{0}), "[]"))
	fmt.Printf("def sigfigsExpStart : Int := %d\ndef sigfigsExpEnd : Int := %d\ndef sigfigsCond : String := %s\ndef sigfigsBase : Nat := %d\n", sfStart, sfEnd, leanStr(sfCond), sfBase)
	fmt.Printf("/-- (comparison operator, threshold field, precision) of the cascade in CommonScale -/\n")
	fmt.Printf("def cascade : List (String × String × Nat) := [%s]\n", strings.Join(cascade, ", "))
	fmt.Printf("/-- numeric form: (operator code 0:>= 1:> 2:<= 3:<, threshold index 0:t100 1:t10 2:t1, precision) -/\n")
	fmt.Printf("def cascadeN : List (Nat × Nat × Nat) := [%s]\n", strings.Join(cascadeN, ", "))
	fmt.Printf("def fallbackCmp : String := %s\n", leanStr(fallbackCmp))
	fmt.Printf("def fallbackCmpN : Nat := %d\n", opCode(fallbackCmp))
	fmt.Printf("def siBaseIsTwo : Bool := %v\ndef iecBaseIsTwo : Bool := %v\n", si.base == "2", iec.base == "2")
	fmt.Printf("def defaultScaler : String := %s\n", leanStr(defaultScaler))
	fmt.Printf("def fingerprint : String := %s\n", leanStr(fingerprint(cs, format, funcDecl(f, "mkSIFactors"), funcDecl(f, "mkIECFactors"), sf)))
	fmt.Println("end Generated.ScaleFacts")
}

// ---------------------------------------------------------------- shared helpers (facts other than ScaleFacts)

func die(format string, a ...any) {
	fmt.Fprintf(os.Stderr, "extract: "+format+"\n", a...)
	os.Exit(1)
}

func pf(format string, a ...any) { fmt.Printf(format, a...) }

func header(name string, files ...string) {
	pf("-- GENERATED by /verif/extract from %s on every check run. Do not edit.\n", "/repo/"+strings.Join(files, ", /repo/"))
	pf("namespace Generated.%s\n", name)
}

func footer(name string, nodes ...ast.Node) {
	pf("def fingerprint : String := %s\n", leanStr(fingerprint(nodes...)))
	pf("end Generated.%s\n", name)
}

// bytesOf renders the UTF-8 bytes of a Go string as a Lean `List Nat`.
func bytesOf(s string) string {
	b := []byte(s)
	out := make([]string, len(b))
	for i, c := range b {
		out[i] = strconv.Itoa(int(c))
	}
	return "[" + strings.Join(out, ", ") + "]"
}

func strLit(e ast.Expr) (string, bool) {
	if p, ok := e.(*ast.ParenExpr); ok {
		return strLit(p.X)
	}
	if bl, ok := e.(*ast.BasicLit); ok && bl.Kind == token.STRING {
		s, err := strconv.Unquote(bl.Value)
		return s, err == nil
	}
	return "", false
}

// decForm gives the exact decimal value of a Go decimal INT/FLOAT literal text:
// value = mant * 10^exp (mant a decimal digit string without leading zeros).
func decForm(lit string) (mant string, exp int, ok bool) {
	t := strings.ReplaceAll(lit, "_", "")
	if strings.HasPrefix(t, "0x") || strings.HasPrefix(t, "0X") || strings.HasPrefix(t, "0b") || strings.HasPrefix(t, "0o") {
		return "", 0, false
	}
	if i := strings.IndexAny(t, "eE"); i >= 0 {
		v, err := strconv.Atoi(strings.TrimPrefix(t[i+1:], "+"))
		if err != nil {
			return "", 0, false
		}
		exp, t = v, t[:i]
	}
	ip, fp := t, ""
	if i := strings.IndexByte(t, '.'); i >= 0 {
		ip, fp = t[:i], t[i+1:]
	}
	digits := ip + fp
	if digits == "" {
		return "", 0, false
	}
	for _, c := range digits {
		if c < '0' || c > '9' {
			return "", 0, false
		}
	}
	exp -= len(fp)
	mant = strings.TrimLeft(digits, "0")
	if mant == "" {
		mant = "0"
	}
	return mant, exp, true
}

// num is a numeric literal, possibly signed: source text and exact decimal.
type num struct {
	text string
	neg  bool
	mant string
	exp  int
}

func numLit(e ast.Expr) (num, bool) {
	switch v := e.(type) {
	case *ast.ParenExpr:
		return numLit(v.X)
	case *ast.UnaryExpr:
		if v.Op == token.SUB || v.Op == token.ADD {
			n, ok := numLit(v.X)
			if ok && v.Op == token.SUB {
				n.neg = !n.neg
				n.text = "-" + n.text
			}
			return n, ok
		}
	case *ast.BasicLit:
		if v.Kind == token.INT || v.Kind == token.FLOAT {
			m, x, ok := decForm(v.Value)
			return num{v.Value, false, m, x}, ok
		}
	}
	return num{}, false
}

func mustNum(e ast.Expr, what string) num {
	n, ok := numLit(e)
	if !ok {
		die("%s: %s is not a decimal numeric literal", what, src(e))
	}
	return n
}

// lean renders (negative, mantissa, decimal exponent) : Bool × Nat × Int
func (n num) lean() string {
	return fmt.Sprintf("(%v, %s, (%d : Int))", n.neg, n.mant, n.exp)
}

// natVal is the value of a non-negative integer literal.
func (n num) natVal(what string) string {
	if n.neg || n.exp < 0 {
		die("%s: %s is not a natural number", what, n.text)
	}
	return n.mant + strings.Repeat("0", n.exp)
}

func joinS(l []string) string { return "[" + strings.Join(l, ", ") + "]" }

// opN: comparison / boolean operator codes shared by all generated files
// 0:>= 1:> 2:<= 3:< 4:== 5:!= 6:|| 7:&&
func opN(op token.Token) int {
	switch op {
	case token.GEQ:
		return 0
	case token.GTR:
		return 1
	case token.LEQ:
		return 2
	case token.LSS:
		return 3
	case token.EQL:
		return 4
	case token.NEQ:
		return 5
	case token.LOR:
		return 6
	case token.LAND:
		return 7
	}
	return 9
}

func unparen(e ast.Expr) ast.Expr {
	for {
		p, ok := e.(*ast.ParenExpr)
		if !ok {
			return e
		}
		e = p.X
	}
}

func isSel(e ast.Expr, x, sel string) bool {
	s, ok := unparen(e).(*ast.SelectorExpr)
	if !ok || s.Sel.Name != sel {
		return false
	}
	id, ok := s.X.(*ast.Ident)
	return ok && id.Name == x
}

func isIdent(e ast.Expr, name string) bool {
	id, ok := unparen(e).(*ast.Ident)
	return ok && id.Name == name
}

func callOf(e ast.Expr) (fun string, args []ast.Expr, ok bool) {
	c, ok := unparen(e).(*ast.CallExpr)
	if !ok {
		return "", nil, false
	}
	return src(c.Fun), c.Args, true
}

// ---------------------------------------------------------------- C04: benchunit/tidy.go

func tidyFacts(repo string) {
	f := parseFile(repo, "benchunit/tidy.go")
	tu := funcDecl(f, "tidyUnit")
	tuu := funcDecl(f, "tidyUnitUncached")
	ty := funcDecl(f, "Tidy")

	// tidyUnit: `switch unit { case …: return …, … }` then `if !(Contains || Contains) { return unit, 1 }`
	var fastS, fastN []string
	var pre []string
	preNeg, preOp, preFound := false, token.ILLEGAL, false
	var preRet num
	preRetUnit := false
	for _, st := range tu.Body.List {
		switch x := st.(type) {
		case *ast.SwitchStmt:
			if !isIdent(x.Tag, "unit") {
				continue
			}
			for _, c := range x.Body.List {
				cc := c.(*ast.CaseClause)
				if len(cc.Body) != 1 {
					die("tidyUnit: fast-path case with %d statements", len(cc.Body))
				}
				rs, ok := cc.Body[0].(*ast.ReturnStmt)
				if !ok || len(rs.Results) != 2 {
					die("tidyUnit: fast-path case does not return two values")
				}
				factor := mustNum(rs.Results[1], "tidyUnit fast-path factor")
				for _, l := range cc.List {
					label, ok := strLit(l)
					if !ok {
						die("tidyUnit: case label %s is not a string literal", src(l))
					}
					tidied, ok := strLit(rs.Results[0])
					if !ok {
						if !isIdent(rs.Results[0], "unit") {
							die("tidyUnit: unrecognised fast-path result %s", src(rs.Results[0]))
						}
						tidied = label
					}
					fastS = append(fastS, fmt.Sprintf("(%s, %s, %s)", leanStr(label), leanStr(tidied), leanStr(factor.text)))
					fastN = append(fastN, fmt.Sprintf("(%s, %s, %s)", bytesOf(label), bytesOf(tidied), factor.lean()))
				}
			}
		case *ast.IfStmt:
			if preFound {
				continue
			}
			cond := unparen(x.Cond)
			neg := false
			for {
				u, ok := cond.(*ast.UnaryExpr)
				if !ok || u.Op != token.NOT {
					break
				}
				neg = !neg
				cond = unparen(u.X)
			}
			var subs []string
			op := token.ILLEGAL
			good := true
			var walk func(e ast.Expr)
			walk = func(e ast.Expr) {
				e = unparen(e)
				if be, ok := e.(*ast.BinaryExpr); ok && (be.Op == token.LOR || be.Op == token.LAND) {
					if op != token.ILLEGAL && op != be.Op {
						good = false
					}
					op = be.Op
					walk(be.X)
					walk(be.Y)
					return
				}
				fun, args, ok := callOf(e)
				if ok && fun == "strings.Contains" && len(args) == 2 && isIdent(args[0], "unit") {
					if s, ok := strLit(args[1]); ok {
						subs = append(subs, s)
						return
					}
				}
				good = false
			}
			walk(cond)
			if !good || len(subs) == 0 {
				continue
			}
			if len(x.Body.List) != 1 {
				die("tidyUnit: pre-filter body has %d statements", len(x.Body.List))
			}
			rs, ok := x.Body.List[0].(*ast.ReturnStmt)
			if !ok || len(rs.Results) != 2 {
				die("tidyUnit: pre-filter body does not return two values")
			}
			pre, preNeg, preOp, preFound = subs, neg, op, true
			preRetUnit = isIdent(rs.Results[0], "unit")
			preRet = mustNum(rs.Results[1], "tidyUnit pre-filter factor")
		}
	}
	if len(fastS) == 0 {
		die("tidyUnit: fast-path switch not found")
	}
	if !preFound {
		die("tidyUnit: strings.Contains pre-filter not found")
	}

	// tidyUnitUncached
	var initFactor *num
	denomSkipped := false
	var editS, editN []string
	reverse := false
	applyExpr := ""
	ast.Inspect(tuu.Body, func(n ast.Node) bool {
		switch x := n.(type) {
		case *ast.AssignStmt:
			if len(x.Lhs) == 1 && len(x.Rhs) == 1 && isIdent(x.Lhs[0], "factor") && x.Tok == token.ASSIGN && initFactor == nil {
				v := mustNum(x.Rhs[0], "tidyUnitUncached initial factor")
				initFactor = &v
			}
			if len(x.Lhs) == 1 && len(x.Rhs) == 1 && isIdent(x.Lhs[0], "unit") && x.Tok == token.ASSIGN {
				applyExpr = src(x.Rhs[0])
			}
		case *ast.IfStmt:
			if isSel(x.Cond, "p", "denom") && len(x.Body.List) == 1 {
				if b, ok := x.Body.List[0].(*ast.BranchStmt); ok && b.Tok == token.CONTINUE {
					denomSkipped = true
				}
			}
		case *ast.SwitchStmt:
			if !isSel(x.Tag, "p", "tok") {
				return true
			}
			for _, c := range x.Body.List {
				cc := c.(*ast.CaseClause)
				if len(cc.List) != 1 {
					die("tidyUnitUncached: case with %d labels", len(cc.List))
				}
				tok, ok := strLit(cc.List[0])
				if !ok {
					die("tidyUnitUncached: case label %s", src(cc.List[0]))
				}
				var pos, lenArg, repl string
				var fop token.Token
				var fnum num
				gotEdit, gotFactor := false, false
				for _, st := range cc.Body {
					as, ok := st.(*ast.AssignStmt)
					if !ok || len(as.Lhs) != 1 || len(as.Rhs) != 1 {
						die("tidyUnitUncached: unexpected statement %s", src(st))
					}
					if isIdent(as.Lhs[0], "edits") {
						fun, args, ok := callOf(as.Rhs[0])
						if !ok || fun != "append" || len(args) != 2 {
							die("tidyUnitUncached: %s", src(as.Rhs[0]))
						}
						cl, ok := args[1].(*ast.CompositeLit)
						if !ok || len(cl.Elts) != 3 {
							die("tidyUnitUncached: edit literal %s", src(args[1]))
						}
						pos = src(cl.Elts[0])
						lf, largs, ok := callOf(cl.Elts[1])
						if !ok || lf != "len" || len(largs) != 1 {
							die("tidyUnitUncached: edit length %s", src(cl.Elts[1]))
						}
						if lenArg, ok = strLit(largs[0]); !ok {
							die("tidyUnitUncached: edit length %s", src(cl.Elts[1]))
						}
						if repl, ok = strLit(cl.Elts[2]); !ok {
							die("tidyUnitUncached: edit replacement %s", src(cl.Elts[2]))
						}
						gotEdit = true
					} else if isIdent(as.Lhs[0], "factor") {
						fop = as.Tok
						if fop != token.QUO_ASSIGN && fop != token.MUL_ASSIGN {
							die("tidyUnitUncached: factor operator %s", fop)
						}
						fnum = mustNum(as.Rhs[0], "tidyUnitUncached factor")
						gotFactor = true
					} else {
						die("tidyUnitUncached: unexpected statement %s", src(st))
					}
				}
				if !gotEdit || !gotFactor {
					die("tidyUnitUncached: case %q lacks edit or factor", tok)
				}
				opc := 0
				if fop == token.MUL_ASSIGN {
					opc = 1
				}
				editS = append(editS, fmt.Sprintf("(%s, %s, %s, %s, %s, %s)", leanStr(tok), leanStr(pos), leanStr(lenArg), leanStr(repl), leanStr(fop.String()), leanStr(fnum.text)))
				editN = append(editN, fmt.Sprintf("(%s, %d, %s, %d, %s)", bytesOf(tok), len(lenArg), bytesOf(repl), opc, fnum.lean()))
			}
		case *ast.ForStmt:
			// for i := len(edits) - 1; i >= 0; i--
			if x.Init != nil && x.Cond != nil && x.Post != nil &&
				src(x.Init) == "i := len(edits) - 1" && src(x.Cond) == "i >= 0" && src(x.Post) == "i--" {
				reverse = true
			}
		}
		return true
	})
	if initFactor == nil || len(editS) == 0 || applyExpr == "" {
		die("tidyUnitUncached: structure not recognised")
	}
	// Tidy: return value * factor, newUnit
	var tidyExpr string
	tidyMul := false
	for _, st := range ty.Body.List {
		if rs, ok := st.(*ast.ReturnStmt); ok && len(rs.Results) == 2 {
			tidyExpr = src(rs.Results[0])
			if be, ok := rs.Results[0].(*ast.BinaryExpr); ok && be.Op == token.MUL {
				tidyMul = (isIdent(be.X, "value") && isIdent(be.Y, "factor")) || (isIdent(be.X, "factor") && isIdent(be.Y, "value"))
			}
		}
	}

	header("TidyFacts", "benchunit/tidy.go")
	pf("/-- fast-path `switch unit` of tidyUnit, source text: (case label, returned unit, factor literal) -/\n")
	pf("def fastTableS : List (String × String × String) := %s\n", joinS(fastS))
	pf("/-- numeric form: (label bytes, returned-unit bytes, factor as (negative, mantissa, decimal exponent)) -/\n")
	pf("def fastTable : List (List Nat × List Nat × (Bool × Nat × Int)) := %s\n", joinS(fastN))
	pf("/-- substrings of the `strings.Contains(unit, …)` pre-filter, in source order -/\n")
	pf("def prefilterS : List String := %s\n", leanStrList(pre))
	b := make([]string, len(pre))
	for i, s := range pre {
		b[i] = bytesOf(s)
	}
	pf("def prefilter : List (List Nat) := %s\n", joinS(b))
	pf("/-- the pre-filter condition is `!(… op …)`: negated?, op code (6:|| 7:&& 9:single call) -/\n")
	pf("def prefilterNegated : Bool := %v\ndef prefilterOpN : Nat := %d\n", preNeg, opN(preOp))
	pf("/-- what the pre-filter returns: the unit unchanged?, and the factor -/\n")
	pf("def prefilterReturnsUnit : Bool := %v\ndef prefilterFactor : Bool × Nat × Int := %s\n", preRetUnit, preRet.lean())
	pf("/-- tidyUnitUncached `switch p.tok`, source text: (token, position expr, len argument, replacement, factor operator, factor literal) -/\n")
	pf("def editsS : List (String × String × String × String × String × String) := %s\n", joinS(editS))
	pf("/-- numeric form: (token bytes, edit length, replacement bytes, 0:`/=` 1:`*=`, factor literal) -/\n")
	pf("def edits : List (List Nat × Nat × List Nat × Nat × (Bool × Nat × Int)) := %s\n", joinS(editN))
	pf("def initFactor : Bool × Nat × Int := %s\n", initFactor.lean())
	pf("/-- `if p.denom { continue }` present -/\ndef denomSkipped : Bool := %v\n", denomSkipped)
	pf("/-- edits applied by `for i := len(edits) - 1; i >= 0; i--` -/\ndef editsAppliedLastFirst : Bool := %v\n", reverse)
	pf("def applyExpr : String := %s\n", leanStr(applyExpr))
	pf("def tidyValueExpr : String := %s\ndef tidyValueIsMul : Bool := %v\n", leanStr(tidyExpr), tidyMul)
	footer("TidyFacts", ty, tu, tuu)
}

// ---------------------------------------------------------------- conditions in numeric form

// A condition is rendered in disjunctive normal form, `List (List (Bool × Nat × Nat × Nat))`:
// outer list = operands of `||`, inner list = operands of `&&`, atom = (negated, lhs code,
// operator code, rhs code). Operator codes: opN (0:>= 1:> 2:<= 3:< 4:== 5:!=) and 8 for a bare
// boolean operand (rhs 0). Operand codes: from the caller's table (source text -> code);
// the integer literal n (0 <= n < 1000) is 1000+n, the literal -n is 2000+n.
type atomT struct {
	neg          bool
	lhs, op, rhs int
}

func operandCode(e ast.Expr, codes map[string]int, what string) int {
	e = unparen(e)
	if n, ok := numLit(e); ok && n.exp >= 0 {
		neg := n.neg
		n.neg = false
		v, err := strconv.Atoi(n.natVal(what))
		if err == nil && v < 1000 {
			if neg {
				return 2000 + v
			}
			return 1000 + v
		}
	}
	if c, ok := codes[src(e)]; ok {
		return c
	}
	die("%s: unknown operand %s", what, src(e))
	return 0
}

func atomOf(e ast.Expr, codes map[string]int, what string) atomT {
	e = unparen(e)
	neg := false
	for {
		u, ok := e.(*ast.UnaryExpr)
		if !ok || u.Op != token.NOT {
			break
		}
		neg = !neg
		e = unparen(u.X)
	}
	if be, ok := e.(*ast.BinaryExpr); ok {
		if o := opN(be.Op); o <= 5 {
			return atomT{neg, operandCode(be.X, codes, what), o, operandCode(be.Y, codes, what)}
		}
		die("%s: operator %s inside an atom (%s)", what, be.Op, src(e))
	}
	return atomT{neg, operandCode(e, codes, what), 8, 0}
}

func dnf(e ast.Expr, codes map[string]int, what string) [][]atomT {
	var ors []ast.Expr
	var splitOr func(e ast.Expr)
	splitOr = func(e ast.Expr) {
		e = unparen(e)
		if be, ok := e.(*ast.BinaryExpr); ok && be.Op == token.LOR {
			splitOr(be.X)
			splitOr(be.Y)
			return
		}
		ors = append(ors, e)
	}
	splitOr(e)
	var out [][]atomT
	for _, o := range ors {
		var ands []atomT
		var splitAnd func(e ast.Expr)
		splitAnd = func(e ast.Expr) {
			e = unparen(e)
			if be, ok := e.(*ast.BinaryExpr); ok && be.Op == token.LAND {
				splitAnd(be.X)
				splitAnd(be.Y)
				return
			}
			ands = append(ands, atomOf(e, codes, what))
		}
		splitAnd(o)
		out = append(out, ands)
	}
	return out
}

func leanDNF(d [][]atomT) string {
	var ors []string
	for _, c := range d {
		var as []string
		for _, a := range c {
			as = append(as, fmt.Sprintf("(%v, %d, %d, %d)", a.neg, a.lhs, a.op, a.rhs))
		}
		ors = append(ors, joinS(as))
	}
	return joinS(ors)
}

func emitCond(name, doc string, e ast.Expr, codes map[string]int) {
	pf("/-- %s; source: `%s` -/\n", doc, strings.Join(strings.Fields(src(e)), " "))
	pf("def %s : List (List (Bool × Nat × Nat × Nat)) := %s\n", name, leanDNF(dnf(e, codes, name)))
}

func codeDoc(codes map[string]int) string {
	inv := map[int]string{}
	max := 0
	for k, v := range codes {
		inv[v] = k
		if v > max {
			max = v
		}
	}
	var l []string
	for i := 0; i <= max; i++ {
		if k, ok := inv[i]; ok {
			l = append(l, fmt.Sprintf("%d:%s", i, k))
		}
	}
	return strings.Join(l, " ")
}

// varInit returns the initialiser of a package-level `var name = <expr>` / `const`.
func varInit(f *ast.File, name string) ast.Expr {
	for _, d := range f.Decls {
		gd, ok := d.(*ast.GenDecl)
		if !ok {
			continue
		}
		for _, sp := range gd.Specs {
			vs, ok := sp.(*ast.ValueSpec)
			if !ok {
				continue
			}
			for i, n := range vs.Names {
				if n.Name == name && i < len(vs.Values) {
					return vs.Values[i]
				}
			}
		}
	}
	die("package-level %s not found", name)
	return nil
}

// firstIf finds the first `if` (in source order) in body whose condition satisfies pred.
func firstIf(body ast.Node, pred func(cond string) bool) *ast.IfStmt {
	var found *ast.IfStmt
	ast.Inspect(body, func(n ast.Node) bool {
		if found != nil {
			return false
		}
		if x, ok := n.(*ast.IfStmt); ok && pred(src(x.Cond)) {
			found = x
			return false
		}
		return true
	})
	return found
}

func mustIf(body ast.Node, what string, pred func(cond string) bool) *ast.IfStmt {
	x := firstIf(body, pred)
	if x == nil {
		die("%s: if statement not found", what)
	}
	return x
}

// ---------------------------------------------------------------- C11: internal/stats/utest.go

func utestFacts(repo string) {
	f := parseFile(repo, "internal/stats/utest.go")
	mw := funcDecl(f, "MannWhitneyUTest")
	lm := funcDecl(f, "labeledMerge")
	lim := mustNum(varInit(f, "MannWhitneyExactLimit"), "MannWhitneyExactLimit")
	tlim := mustNum(varInit(f, "MannWhitneyTiesExactLimit"), "MannWhitneyTiesExactLimit")
	codes := map[string]int{"hasTies": 0, "n1": 1, "n2": 2, "MannWhitneyExactLimit": 3, "MannWhitneyTiesExactLimit": 4,
		"len(T)": 5, "U1": 6, "U2": 7, "σ_U": 8, "i": 9, "rank1": 10, "nx1": 11, "x1[i]": 12, "x2[j]": 13, "merged[i]": 14, "v1": 15, "labels[i]": 16}

	header("UTestFacts", "internal/stats/utest.go")
	pf("def exactLimit : Nat := %s\ndef tiesExactLimit : Nat := %s\n", lim.natVal("MannWhitneyExactLimit"), tlim.natVal("MannWhitneyTiesExactLimit"))
	pf("/-- operand codes of the conditions below: %s; 1000+n: the integer literal n -/\n", codeDoc(codes))
	pf("def operandCodes : Unit := ()\n")
	has := func(sub string) func(string) bool { return func(c string) bool { return strings.Contains(c, sub) } }
	emitCond("sizeCond", "empty-sample check (ErrSampleSize)", mustIf(mw.Body, "sizeCond", has("n1 == 0")).Cond, codes)
	method := mustIf(mw.Body, "methodCond", has("MannWhitneyExactLimit"))
	emitCond("methodCond", "exact distribution vs normal approximation", method.Cond, codes)
	emitCond("allEqualExactCond", "exact branch: ErrSamplesEqual", mustIf(method.Body, "allEqualExactCond", has("len(T)")).Cond, codes)
	emitCond("symmetricCond", "exact two-sided: p = 1", mustIf(method.Body, "symmetricCond", has("U1 ==")).Cond, codes)
	if method.Else == nil {
		die("methodCond: no else branch")
	}
	emitCond("sigmaZeroCond", "normal branch: ErrSamplesEqual", mustIf(method.Else, "sigmaZeroCond", has("σ_U")).Cond, codes)
	emitCond("hasTiesCond", "rank loop: a tie group has more than one element", mustIf(mw.Body, "hasTiesCond", has("rank1")).Cond, codes)
	emitCond("nx1Cond", "rank loop: the tie group has members of sample 1", mustIf(mw.Body, "nx1Cond", has("nx1")).Cond, codes)
	emitCond("mergeCond", "labeledMerge: take from x1", mustIf(lm.Body, "mergeCond", has("x1[i]")).Cond, codes)
	var tieRun ast.Expr
	ast.Inspect(mw.Body, func(n ast.Node) bool {
		if fs, ok := n.(*ast.ForStmt); ok && fs.Cond != nil && strings.Contains(src(fs.Cond), "v1") {
			if be, ok := fs.Cond.(*ast.BinaryExpr); ok && be.Op == token.LAND {
				tieRun = be.Y
			}
		}
		return true
	})
	if tieRun == nil {
		die("tie-run loop not found")
	}
	emitCond("tieRunCond", "rank loop: the element ties the head of the group", tieRun, codes)

	// continuity correction: switch alt { case X: numer op= [mathSign(numer) *] lit }
	altCode := map[string]int{"LocationLess": 0, "LocationDiffers": 1, "LocationGreater": 2}
	var cont []string
	var exactTwoSidedFactor *num
	greaterStep := ""
	var sigmaDiv, meanDiv *num
	ast.Inspect(mw.Body, func(n ast.Node) bool {
		switch x := n.(type) {
		case *ast.CaseClause:
			if len(x.List) != 1 || len(x.Body) != 1 {
				return true
			}
			ac, ok := altCode[src(x.List[0])]
			if !ok {
				return true
			}
			as, ok := x.Body[0].(*ast.AssignStmt)
			if !ok || len(as.Lhs) != 1 {
				return true
			}
			if isIdent(as.Lhs[0], "numer") {
				add := 0
				switch as.Tok {
				case token.ADD_ASSIGN:
					add = 1
				case token.SUB_ASSIGN:
					add = 0
				default:
					die("continuity correction: operator %s", as.Tok)
				}
				sign := false
				rhs := unparen(as.Rhs[0])
				if be, ok := rhs.(*ast.BinaryExpr); ok && be.Op == token.MUL {
					if fun, _, ok := callOf(be.X); ok && fun == "mathSign" {
						sign = true
						rhs = be.Y
					}
				}
				v := mustNum(rhs, "continuity correction")
				cont = append(cont, fmt.Sprintf("(%d, %d, %v, %s)", ac, add, sign, v.lean()))
			}
			if isIdent(as.Lhs[0], "p") && ac == 2 && strings.Contains(src(as.Rhs[0]), "dist.CDF") {
				greaterStep = strings.Join(strings.Fields(src(as.Rhs[0])), " ")
			}
		case *ast.AssignStmt:
			if len(x.Lhs) == 1 && len(x.Rhs) == 1 {
				r := unparen(x.Rhs[0])
				if isIdent(x.Lhs[0], "p") {
					if be, ok := r.(*ast.BinaryExpr); ok && be.Op == token.MUL && strings.Contains(src(be.X), "dist.CDF(Usmall)") {
						v := mustNum(be.Y, "two-sided factor")
						exactTwoSidedFactor = &v
					}
				}
				if isIdent(x.Lhs[0], "μ_U") {
					if be, ok := r.(*ast.BinaryExpr); ok && be.Op == token.QUO {
						v := mustNum(be.Y, "μ_U divisor")
						meanDiv = &v
					}
				}
				if isIdent(x.Lhs[0], "σ_U") {
					if _, args, ok := callOf(r); ok && len(args) == 1 {
						if be, ok := unparen(args[0]).(*ast.BinaryExpr); ok && be.Op == token.QUO {
							v := mustNum(be.Y, "σ_U divisor")
							sigmaDiv = &v
						}
					}
				}
			}
		}
		return true
	})
	if len(cont) != 3 || exactTwoSidedFactor == nil || meanDiv == nil || sigmaDiv == nil || greaterStep == "" {
		die("MannWhitneyUTest: formulas not recognised (cont=%d)", len(cont))
	}
	pf("/-- continuity correction `numer op= [mathSign(numer) *] c`: (alternative 0:Less 1:Differs 2:Greater, 0:`-=` 1:`+=`, multiplied by mathSign(numer)?, c as (negative, mantissa, decimal exponent)) -/\n")
	pf("def continuity : List (Nat × Nat × Bool × (Bool × Nat × Int)) := %s\n", joinS(cont))
	pf("def exactTwoSidedFactor : Nat := %s\ndef meanDivisor : Nat := %s\ndef sigmaDivisor : Nat := %s\n", exactTwoSidedFactor.natVal("factor"), meanDiv.natVal("divisor"), sigmaDiv.natVal("divisor"))
	pf("def greaterExactExpr : String := %s\n", leanStr(greaterStep))
	footer("UTestFacts", mw, lm)
}

// ---------------------------------------------------------------- C17: benchstat/{data,table,scaler}.go

func methodDecl(f *ast.File, recv, name string) *ast.FuncDecl {
	for _, d := range f.Decls {
		fd, ok := d.(*ast.FuncDecl)
		if !ok || fd.Name.Name != name || fd.Recv == nil || len(fd.Recv.List) != 1 {
			continue
		}
		if strings.TrimPrefix(src(fd.Recv.List[0].Type), "*") == recv {
			return fd
		}
	}
	die("method %s.%s not found", recv, name)
	return nil
}

var fmtRe = regexp.MustCompile(`^%\.(\d+)f(.*)$`)

// fmtPrec parses "%.Nf<suffix>".
func fmtPrec(e ast.Expr, what string) (int, string) {
	s, ok := strLit(e)
	if !ok {
		die("%s: format %s is not a string literal", what, src(e))
	}
	m := fmtRe.FindStringSubmatch(s)
	if m == nil {
		die("%s: format %q not of the form %%.Nf<suffix>", what, s)
	}
	n, _ := strconv.Atoi(m[1])
	return n, m[2]
}

// natProduct evaluates a product of non-negative integer literals (`1000*1000`).
func natProduct(e ast.Expr, what string) *big.Int {
	e = unparen(e)
	if be, ok := e.(*ast.BinaryExpr); ok && be.Op == token.MUL {
		return new(big.Int).Mul(natProduct(be.X, what), natProduct(be.Y, what))
	}
	n := mustNum(e, what)
	v, ok := new(big.Int).SetString(n.natVal(what), 10)
	if !ok {
		die("%s: %s", what, src(e))
	}
	return v
}

// scalerRows reads `switch x := …; { case x >= T: format, scale[, suffix] = … ; default: … }`.
// Row: (operator code, threshold, precision, scale, suffix); the default row has operator 9.
func scalerRows(sw *ast.SwitchStmt, what string, timeForm bool) []string {
	var rows []string
	for _, c := range sw.Body.List {
		cc := c.(*ast.CaseClause)
		op, thr := 9, num{"0", false, "0", 0}
		if len(cc.List) == 1 {
			be, ok := unparen(cc.List[0]).(*ast.BinaryExpr)
			if !ok || !isIdent(be.X, "x") || opN(be.Op) > 3 {
				die("%s: case %s", what, src(cc.List[0]))
			}
			op, thr = opN(be.Op), mustNum(be.Y, what+" threshold")
		} else if len(cc.List) != 0 {
			die("%s: case with %d expressions", what, len(cc.List))
		}
		if len(cc.Body) != 1 {
			die("%s: case body with %d statements", what, len(cc.Body))
		}
		as, ok := cc.Body[0].(*ast.AssignStmt)
		want := 3
		if timeForm {
			want = 2
		}
		if !ok || len(as.Rhs) != want || len(as.Lhs) != want || !isIdent(as.Lhs[0], "format") || !isIdent(as.Lhs[1], "scale") {
			die("%s: case body %s", what, src(cc.Body[0]))
		}
		prec, fsuffix := fmtPrec(as.Rhs[0], what)
		if timeForm {
			rows = append(rows, fmt.Sprintf("(%d, %s, %d, %s, %s)", op, thr.lean(), prec, natProduct(as.Rhs[1], what+" scale").String(), leanStr(fsuffix)))
		} else {
			if fsuffix != "" {
				die("%s: format with a suffix", what)
			}
			suffix, ok := strLit(as.Rhs[2])
			if !ok {
				die("%s: suffix %s", what, src(as.Rhs[2]))
			}
			rows = append(rows, fmt.Sprintf("(%d, %s, %d, %s, %s)", op, thr.lean(), prec, mustNum(as.Rhs[1], what+" scale").lean(), leanStr(suffix)))
		}
	}
	return rows
}

// baseUnitArgs lists the unit literals of `hasBaseUnit(unit, "…") || …` in a condition.
func baseUnitArgs(cond ast.Expr, what string) []string {
	var out []string
	var walk func(e ast.Expr)
	walk = func(e ast.Expr) {
		e = unparen(e)
		if be, ok := e.(*ast.BinaryExpr); ok && be.Op == token.LOR {
			walk(be.X)
			walk(be.Y)
			return
		}
		fun, args, ok := callOf(e)
		if ok && fun == "hasBaseUnit" && len(args) == 2 && isIdent(args[0], "unit") {
			if s, ok := strLit(args[1]); ok {
				out = append(out, s)
				return
			}
		}
		die("%s: unexpected condition %s", what, src(e))
	}
	walk(cond)
	return out
}

func bytesList(l []string) string {
	b := make([]string, len(l))
	for i, s := range l {
		b[i] = bytesOf(s)
	}
	return joinS(b)
}

func legacyFacts(repo string) {
	data := parseFile(repo, "benchstat/data.go")
	table := parseFile(repo, "benchstat/table.go")
	scaler := parseFile(repo, "benchstat/scaler.go")
	cs := methodDecl(data, "Metrics", "computeStats")
	tb := methodDecl(table, "Collection", "Tables")
	mo := funcDecl(table, "metricOf")
	ns := funcDecl(scaler, "NewScaler")
	ts := funcDecl(scaler, "timeScaler")
	hb := funcDecl(scaler, "hasBaseUnit")
	has := func(sub string) func(string) bool { return func(c string) bool { return strings.Contains(c, sub) } }

	header("LegacyFacts", "benchstat/data.go", "benchstat/table.go", "benchstat/scaler.go")

	// ---- computeStats
	var pcts []string
	var loE, hiE ast.Expr
	ast.Inspect(cs.Body, func(n ast.Node) bool {
		if as, ok := n.(*ast.AssignStmt); ok {
			if len(as.Lhs) == 2 && isIdent(as.Lhs[0], "q1") && isIdent(as.Lhs[1], "q3") {
				for _, r := range as.Rhs {
					fun, args, ok := callOf(r)
					if !ok || fun != "values.Percentile" || len(args) != 1 {
						die("computeStats: quartiles %s", src(r))
					}
					pcts = append(pcts, mustNum(args[0], "computeStats percentile").lean())
				}
			}
			if len(as.Lhs) == 2 && isIdent(as.Lhs[0], "lo") && isIdent(as.Lhs[1], "hi") && len(as.Rhs) == 2 {
				loE, hiE = as.Rhs[0], as.Rhs[1]
			}
		}
		return true
	})
	if len(pcts) != 2 || loE == nil {
		die("computeStats: quartile/fence assignments not found")
	}
	// fence bound: q op k*(q3-q1)
	bound := func(e ast.Expr, q string) (int, num) {
		be, ok := unparen(e).(*ast.BinaryExpr)
		if !ok || !isIdent(be.X, q) || (be.Op != token.SUB && be.Op != token.ADD) {
			die("computeStats: fence bound %s", src(e))
		}
		m, ok := unparen(be.Y).(*ast.BinaryExpr)
		if !ok || m.Op != token.MUL || strings.Join(strings.Fields(src(unparen(m.Y))), "") != "q3-q1" {
			die("computeStats: fence bound %s", src(e))
		}
		op := 0
		if be.Op == token.ADD {
			op = 1
		}
		return op, mustNum(m.X, "fence factor")
	}
	loOp, loK := bound(loE, "q1")
	hiOp, hiK := bound(hiE, "q3")
	pf("/-- `values.Percentile(…)` arguments of q1, q3 -/\ndef quartiles : List (Bool × Nat × Int) := %s\n", joinS(pcts))
	pf("/-- fence bounds `q1 op k*(q3-q1)`, `q3 op k*(q3-q1)`: (0:`-` 1:`+`, k); source `%s`, `%s` -/\n", src(loE), src(hiE))
	pf("def fenceLo : Nat × (Bool × Nat × Int) := (%d, %s)\ndef fenceHi : Nat × (Bool × Nat × Int) := (%d, %s)\n", loOp, loK.lean(), hiOp, hiK.lean())
	pf("def fenceFactorText : List String := %s\n", leanStrList([]string{loK.text, hiK.text}))
	fcodes := map[string]int{"lo": 0, "value": 1, "hi": 2}
	pf("/-- operand codes: %s -/\ndef fenceCodes : Unit := ()\n", codeDoc(fcodes))
	emitCond("fenceCond", "a value is kept (not an outlier)", mustIf(cs.Body, "fenceCond", has("value")).Cond, fcodes)

	// ---- Tables
	tcodes := map[string]int{"alpha": 0, "pval": 1, "new.Mean": 2, "old.Mean": 3, "len(c.Configs)": 4, "pct": 5}
	pf("/-- operand codes of the table.go conditions: %s; 1000+n / 2000+n: the literals n / -n -/\ndef tableCodes : Unit := ()\n", codeDoc(tcodes))
	az := mustIf(tb.Body, "alphaZeroCond", has("alpha == 0"))
	emitCond("alphaZeroCond", "Alpha unset", az.Cond, tcodes)
	as0, ok := az.Body.List[0].(*ast.AssignStmt)
	if !ok || !isIdent(as0.Lhs[0], "alpha") {
		die("Tables: default alpha assignment")
	}
	da := mustNum(as0.Rhs[0], "default alpha")
	pf("def defaultAlpha : Bool × Nat × Int := %s\ndef defaultAlphaText : String := %s\n", da.lean(), leanStr(da.text))
	emitCond("significantCond", "the difference is significant", mustIf(tb.Body, "significantCond", has("pval <")).Cond, tcodes)
	emitCond("meanEqualCond", "significant but equal means", mustIf(tb.Body, "meanEqualCond", has("new.Mean ==")).Cond, tcodes)
	var pvalNote, ond ast.Expr
	var pctE ast.Expr
	ast.Inspect(tb.Body, func(n ast.Node) bool {
		switch x := n.(type) {
		case *ast.IfStmt:
			if be, ok := x.Cond.(*ast.BinaryExpr); ok && be.Op == token.LAND && strings.Contains(src(be.Y), "pval") && pvalNote == nil {
				pvalNote = be.Y
			}
		case *ast.AssignStmt:
			if len(x.Lhs) == 1 && src(x.Lhs[0]) == "table.OldNewDelta" {
				ond = x.Rhs[0]
			}
			if len(x.Lhs) == 1 && isIdent(x.Lhs[0], "pct") && x.Tok == token.DEFINE && pctE == nil {
				pctE = x.Rhs[0]
			}
		}
		return true
	})
	if pvalNote == nil || ond == nil || pctE == nil {
		die("Tables: note condition / OldNewDelta / pct not found")
	}
	emitCond("pvalNoteCond", "a p-value is available for the note", pvalNote, tcodes)
	emitCond("oldNewDeltaCond", "the table has a delta column", ond, tcodes)
	// pct := ((new.Mean / old.Mean) - 1.0) * 100.0
	pm, ok := unparen(pctE).(*ast.BinaryExpr)
	if !ok || pm.Op != token.MUL {
		die("Tables: pct expression %s", src(pctE))
	}
	psub, ok := unparen(pm.X).(*ast.BinaryExpr)
	if !ok || psub.Op != token.SUB || strings.Join(strings.Fields(src(unparen(psub.X))), "") != "new.Mean/old.Mean" {
		die("Tables: pct expression %s", src(pctE))
	}
	pf("/-- `pct := ((new.Mean / old.Mean) - a) * b` -/\ndef pctMinus : Bool × Nat × Int := %s\ndef pctTimes : Bool × Nat × Int := %s\n",
		mustNum(psub.Y, "pct").lean(), mustNum(pm.Y, "pct").lean())
	// if pct < 0 == (table.Metric != "speed") { row.Change = +1 } else { row.Change = -1 }
	ch := mustIf(tb.Body, "change", has("table.Metric"))
	cbe, ok := unparen(ch.Cond).(*ast.BinaryExpr)
	if !ok || opN(cbe.Op) > 5 {
		die("Tables: change condition %s", src(ch.Cond))
	}
	cl, ok1 := unparen(cbe.X).(*ast.BinaryExpr)
	cr, ok2 := unparen(cbe.Y).(*ast.BinaryExpr)
	if !ok1 || !ok2 || !isIdent(cl.X, "pct") || src(cr.X) != "table.Metric" {
		die("Tables: change condition %s", src(ch.Cond))
	}
	speedName, ok := strLit(cr.Y)
	if !ok {
		die("Tables: change condition %s", src(ch.Cond))
	}
	chVal := func(b *ast.BlockStmt) num {
		if len(b.List) == 1 {
			if as, ok := b.List[0].(*ast.AssignStmt); ok && src(as.Lhs[0]) == "row.Change" {
				return mustNum(as.Rhs[0], "row.Change")
			}
		}
		die("Tables: change branch")
		return num{}
	}
	elseB, ok := ch.Else.(*ast.BlockStmt)
	if !ok {
		die("Tables: change else branch")
	}
	thenV, elseV := chVal(ch.Body), chVal(elseB)
	sgn := func(n num) string {
		neg := n.neg
		n.neg = false
		if neg {
			return "-" + n.natVal("change")
		}
		return n.natVal("change")
	}
	pf("/-- `if (pct L z) M (table.Metric R name) { row.Change = a } else { row.Change = b }`: source `%s` -/\n", src(ch.Cond))
	pf("def changeLeftOp : Nat := %d\ndef changeLeftRhs : Bool × Nat × Int := %s\ndef changeMidOp : Nat := %d\ndef changeRightOp : Nat := %d\n",
		opN(cl.Op), mustNum(cl.Y, "change").lean(), opN(cbe.Op), opN(cr.Op))
	pf("def speedMetricS : String := %s\ndef speedMetric : List Nat := %s\n", leanStr(speedName), bytesOf(speedName))
	pf("def changeThen : Int := %s\ndef changeElse : Int := %s\n", sgn(thenV), sgn(elseV))

	// metricSuffix map literal, in source order
	msE, ok := varInit(table, "metricSuffix").(*ast.CompositeLit)
	if !ok {
		die("metricSuffix is not a composite literal")
	}
	var msS, msN []string
	for _, el := range msE.Elts {
		kv := el.(*ast.KeyValueExpr)
		k, ok1 := strLit(kv.Key)
		v, ok2 := strLit(kv.Value)
		if !ok1 || !ok2 {
			die("metricSuffix entry %s", src(el))
		}
		msS = append(msS, fmt.Sprintf("(%s, %s)", leanStr(k), leanStr(v)))
		msN = append(msN, fmt.Sprintf("(%s, %s)", bytesOf(k), bytesOf(v)))
	}
	pf("def metricSuffixS : List (String × String) := %s\ndef metricSuffix : List (List Nat × List Nat) := %s\n", joinS(msS), joinS(msN))

	// ---- scaler.go
	timeIf := mustIf(ns.Body, "NewScaler time units", has("ns/op"))
	timeUnits := baseUnitArgs(timeIf.Cond, "NewScaler time units")
	var prescaleDefault, prescale *num
	var prescaleUnits, byteUnits, rateUnits []string
	byteSuffix, rateSuffix := "", ""
	var nsSwitch *ast.SwitchStmt
	for _, st := range ns.Body.List {
		switch x := st.(type) {
		case *ast.AssignStmt:
			if len(x.Lhs) == 1 && isIdent(x.Lhs[0], "prescale") && x.Tok == token.DEFINE {
				v := mustNum(x.Rhs[0], "prescale")
				prescaleDefault = &v
			}
		case *ast.IfStmt:
			if len(x.Body.List) != 1 {
				continue
			}
			as, ok := x.Body.List[0].(*ast.AssignStmt)
			if !ok || len(as.Lhs) != 1 {
				continue
			}
			if isIdent(as.Lhs[0], "prescale") {
				v := mustNum(as.Rhs[0], "prescale")
				prescale = &v
				prescaleUnits = baseUnitArgs(x.Cond, "prescale units")
			}
			if isIdent(as.Lhs[0], "suffix") && as.Tok == token.ADD_ASSIGN {
				sfx, ok := strLit(as.Rhs[0])
				if !ok {
					die("NewScaler: suffix %s", src(as.Rhs[0]))
				}
				if byteSuffix == "" {
					byteSuffix, byteUnits = sfx, baseUnitArgs(x.Cond, "byte units")
				} else {
					rateSuffix, rateUnits = sfx, baseUnitArgs(x.Cond, "rate units")
				}
			}
		case *ast.SwitchStmt:
			nsSwitch = x
		}
	}
	if prescaleDefault == nil || prescale == nil || byteSuffix == "" || rateSuffix == "" || nsSwitch == nil {
		die("NewScaler: structure not recognised")
	}
	var tsSwitch *ast.SwitchStmt
	var tsDiv *num
	for _, st := range ts.Body.List {
		if x, ok := st.(*ast.SwitchStmt); ok {
			tsSwitch = x
			if as, ok := x.Init.(*ast.AssignStmt); ok {
				if be, ok := as.Rhs[0].(*ast.BinaryExpr); ok && be.Op == token.QUO && isIdent(be.X, "ns") {
					v := mustNum(be.Y, "timeScaler divisor")
					tsDiv = &v
				}
			}
		}
	}
	if tsSwitch == nil || tsDiv == nil {
		die("timeScaler: structure not recognised")
	}
	pf("def timeUnitsS : List String := %s\ndef timeUnits : List (List Nat) := %s\n", leanStrList(timeUnits), bytesList(timeUnits))
	pf("def prescaleUnitsS : List String := %s\ndef prescaleUnits : List (List Nat) := %s\n", leanStrList(prescaleUnits), bytesList(prescaleUnits))
	pf("def prescaleDefault : Bool × Nat × Int := %s\ndef prescale : Bool × Nat × Int := %s\n", prescaleDefault.lean(), prescale.lean())
	pf("def byteUnitsS : List String := %s\ndef byteUnits : List (List Nat) := %s\ndef byteSuffix : String := %s\n", leanStrList(byteUnits), bytesList(byteUnits), leanStr(byteSuffix))
	pf("def rateUnitsS : List String := %s\ndef rateUnits : List (List Nat) := %s\ndef rateSuffix : String := %s\n", leanStrList(rateUnits), bytesList(rateUnits), leanStr(rateSuffix))
	pf("/-- NewScaler `switch x := %s`: (operator code, threshold, precision of the format, scale, suffix); the `default` row has operator 9 -/\n", src(nsSwitch.Init.(*ast.AssignStmt).Rhs[0]))
	pf("def scalerRows : List (Nat × (Bool × Nat × Int) × Nat × (Bool × Nat × Int) × String) := %s\n", joinS(scalerRows(nsSwitch, "NewScaler", false)))
	pf("/-- timeScaler `switch x := ns / d`: (operator code, threshold, precision, scale (product evaluated), unit suffix of the format) -/\n")
	pf("def timeDivisor : Bool × Nat × Int := %s\n", tsDiv.lean())
	pf("def timeRows : List (Nat × (Bool × Nat × Int) × Nat × Nat × String) := %s\n", joinS(scalerRows(tsSwitch, "timeScaler", true)))
	pf("def hasBaseUnitExpr : String := %s\n", leanStr(src(hb.Body.List[0].(*ast.ReturnStmt).Results[0])))
	footer("LegacyFacts", cs, tb, mo, ns, ts, hb)
}

// ---------------------------------------------------------------- C13: benchmath/anone.go, sample.go

// retOp maps the ">=" / ">" strings the functions return to operator codes.
func retOp(e ast.Expr, what string) int {
	s, ok := strLit(e)
	if !ok {
		die("%s: %s is not a string literal", what, src(e))
	}
	switch s {
	case ">=":
		return 0
	case ">":
		return 1
	}
	die("%s: operator string %q", what, s)
	return 9
}

func nothingFacts(repo string) {
	f := parseFile(repo, "benchmath/anone.go")
	sf := parseFile(repo, "benchmath/sample.go")
	// since fix F25 the loop lives in medianSamplesAbove(confidence, have); medianSamples delegates
	ms := funcDecl(f, "medianSamplesAbove")
	msOuter := funcDecl(f, "medianSamples")
	mc := funcDecl(f, "medianCI")
	us := funcDecl(f, "uTestSamples")
	cmp := methodDecl(f, "assumeNothing", "Compare")
	sum := methodDecl(f, "assumeNothing", "Summary")
	has := func(sub string) func(string) bool { return func(c string) bool { return strings.Contains(c, sub) } }

	header("NothingFacts", "benchmath/anone.go", "benchmath/sample.go")

	// uTestMinP
	tab, ok := varInit(f, "uTestMinP").(*ast.CompositeLit)
	if !ok {
		die("uTestMinP is not a composite literal")
	}
	var rows, texts []string
	maxIdx := -1
	next := 0
	for _, el := range tab.Elts {
		idx, val := next, el
		if kv, ok := el.(*ast.KeyValueExpr); ok {
			k := mustNum(kv.Key, "uTestMinP index")
			idx, _ = strconv.Atoi(k.natVal("uTestMinP index"))
			val = kv.Value
		}
		v := mustNum(val, "uTestMinP value")
		rows = append(rows, fmt.Sprintf("(%d, %s)", idx, v.lean()))
		texts = append(texts, v.text)
		next = idx + 1
		if idx > maxIdx {
			maxIdx = idx
		}
	}
	pf("/-- `uTestMinP` entries (index, value); unlisted indices are 0 -/\n")
	pf("def uTestMinP : List (Nat × (Bool × Nat × Int)) := %s\n", joinS(rows))
	pf("def uTestMinPText : List String := %s\n", leanStrList(texts))
	pf("/-- `len(uTestMinP)` -/\ndef uTestMinPLen : Nat := %d\n", maxIdx+1)

	// uTestSamples
	ucodes := map[string]int{"n": 0, "minP": 1, "alpha": 2}
	pf("/-- operand codes of the uTestSamples conditions: %s -/\ndef uTestCodes : Unit := ()\n", codeDoc(ucodes))
	skip := mustIf(us.Body, "uTestSamples skip", has("n =="))
	if b, ok := skip.Body.List[0].(*ast.BranchStmt); !ok || b.Tok != token.CONTINUE {
		die("uTestSamples: skip body")
	}
	emitCond("uTestSkipCond", "index skipped", skip.Cond, ucodes)
	found := mustIf(us.Body, "uTestSamples found", has("minP"))
	emitCond("uTestFoundCond", "first n whose minimal p-value reaches alpha", found.Cond, ucodes)
	fr, ok := found.Body.List[0].(*ast.ReturnStmt)
	if !ok || len(fr.Results) != 2 || !isIdent(fr.Results[1], "n") {
		die("uTestSamples: found return")
	}
	lr, ok := us.Body.List[len(us.Body.List)-1].(*ast.ReturnStmt)
	if !ok || len(lr.Results) != 2 || src(lr.Results[1]) != "len(uTestMinP)" {
		die("uTestSamples: final return")
	}
	pf("/-- returned operator strings: 0:\">=\" 1:\">\"; the fallback count is len(uTestMinP) -/\n")
	pf("def uTestFoundOp : Nat := %d\ndef uTestFallbackOp : Nat := %d\n", retOp(fr.Results[0], "uTestSamples"), retOp(lr.Results[0], "uTestSamples"))

	// medianSamples
	var limit *num
	ast.Inspect(ms.Body, func(n ast.Node) bool {
		if vs, ok := n.(*ast.ValueSpec); ok && len(vs.Names) == 1 && vs.Names[0].Name == "limit" {
			v := mustNum(vs.Values[0], "medianSamples limit")
			limit = &v
		}
		return true
	})
	var loop *ast.ForStmt
	for _, st := range ms.Body.List {
		if x, ok := st.(*ast.ForStmt); ok {
			loop = x
		}
	}
	if limit == nil || loop == nil {
		die("medianSamples: limit / loop not found")
	}
	init, ok := loop.Init.(*ast.AssignStmt)
	if !ok || !isIdent(init.Lhs[0], "n") || src(loop.Post) != "n++" {
		die("medianSamples: loop header")
	}
	mcodes := map[string]int{"n": 0, "limit": 1, "ci.LoOrder": 2, "ci.HiOrder": 3}
	// loop start: max(<start>, have+<step>)
	mfun, margs, ok := callOf(init.Rhs[0])
	if !ok || mfun != "max" || len(margs) != 2 {
		die("medianSamplesAbove: loop start is not max(start, have+step): %s", src(init.Rhs[0]))
	}
	haveStep := "0" // a bare `have` is have+0
	if !isIdent(margs[1], "have") {
		hb, ok := unparen(margs[1]).(*ast.BinaryExpr)
		if !ok || hb.Op != token.ADD || !isIdent(hb.X, "have") {
			die("medianSamplesAbove: second operand of max is not have+step: %s", src(margs[1]))
		}
		haveStep = mustNum(hb.Y, "medianSamplesAbove step").natVal("step")
	}
	pf("def medianLimit : Nat := %s\ndef medianStart : Nat := %s\n", limit.natVal("limit"), mustNum(margs[0], "medianSamples start").natVal("start"))
	pf("/-- the loop starts at max(medianStart, have + medianHaveStep) -/\ndef medianHaveStep : Nat := %s\n", haveStep)
	// medianSamples(confidence) = medianSamplesAbove(confidence, <have>)
	var delegate *num
	ast.Inspect(msOuter.Body, func(n ast.Node) bool {
		if fun, args, ok := callOfNode(n); ok && fun == "medianSamplesAbove" && len(args) == 2 && isIdent(args[0], "confidence") {
			v := mustNum(args[1], "medianSamples delegate")
			delegate = &v
		}
		return true
	})
	if delegate == nil || len(msOuter.Body.List) != 1 {
		die("medianSamples: does not just return medianSamplesAbove(confidence, <have>)")
	}
	pf("/-- medianSamples(c) = medianSamplesAbove(c, medianDelegateHave) -/\ndef medianDelegateHave : Nat := %s\n", delegate.natVal("have"))
	// Summary asks for a size above the one at hand
	sumHave := false
	ast.Inspect(sum.Body, func(n ast.Node) bool {
		if fun, args, ok := callOfNode(n); ok && fun == "medianSamplesAbove" && len(args) == 2 && isIdent(args[0], "confidence") && src(args[1]) == "len(s.Values)" {
			sumHave = true
		}
		return true
	})
	pf("/-- Summary calls medianSamplesAbove(confidence, len(s.Values)) -/\ndef summaryNeedAboveLen : Bool := %v\n", sumHave)
	pf("/-- operand codes of the medianSamples conditions: %s -/\ndef medianCodes : Unit := ()\n", codeDoc(mcodes))
	emitCond("medianLoopCond", "loop continues", loop.Cond, mcodes)
	mfound := mustIf(loop.Body, "medianSamples found", has("ci.LoOrder"))
	emitCond("medianFoundCond", "both order statistics exist", mfound.Cond, mcodes)
	mfr, ok := mfound.Body.List[0].(*ast.ReturnStmt)
	if !ok || len(mfr.Results) != 2 || !isIdent(mfr.Results[1], "n") {
		die("medianSamples: found return")
	}
	mlr, ok := ms.Body.List[len(ms.Body.List)-1].(*ast.ReturnStmt)
	if !ok || len(mlr.Results) != 2 || !isIdent(mlr.Results[1], "limit") {
		die("medianSamples: final return")
	}
	pf("def medianFoundOp : Nat := %d\ndef medianFallbackOp : Nat := %d\n", retOp(mfr.Results[0], "medianSamples"), retOp(mlr.Results[0], "medianSamples"))
	var quant *num
	ast.Inspect(mc.Body, func(n ast.Node) bool {
		if fun, args, ok := callOfNode(n); ok && fun == "stats.QuantileCI" && len(args) == 3 {
			v := mustNum(args[1], "medianCI quantile")
			quant = &v
		}
		return true
	})
	if quant == nil {
		die("medianCI: stats.QuantileCI call not found")
	}
	pf("/-- the quantile passed to stats.QuantileCI by medianCI -/\ndef medianQuantile : Bool × Nat × Int := %s\n", quant.lean())

	// Summary / Compare
	infIf := mustIf(sum.Body, "Summary warning", has("math.IsInf"))
	pf("def summaryWarnCond : String := %s\n", leanStr(src(infIf.Cond)))
	ccodes := map[string]int{"cmp.P": 0, "cmp.Alpha": 1, "cmp.N1": 2, "cmp.N2": 3, "n": 4}
	pf("/-- operand codes of the Compare conditions: %s -/\ndef compareCodes : Unit := ()\n", codeDoc(ccodes))
	warn := mustIf(cmp.Body, "Compare warning", has("cmp.P"))
	emitCond("compareWarnCond", "the comparison is not significant", warn.Cond, ccodes)
	emitCond("compareFewCond", "both samples are smaller than needed", mustIf(warn.Body, "Compare few", has("cmp.N1")).Cond, ccodes)
	var capV, facV, errP *num
	ast.Inspect(cmp.Body, func(n ast.Node) bool {
		if fun, args, ok := callOfNode(n); ok && fun == "math.Min" && len(args) == 2 {
			if be, ok := unparen(args[1]).(*ast.BinaryExpr); ok && be.Op == token.MUL {
				c, fct := mustNum(args[0], "Compare cap"), mustNum(be.X, "Compare factor")
				capV, facV = &c, &fct
			}
		}
		if cl, ok := n.(*ast.CompositeLit); ok && src(cl.Type) == "Comparison" && errP == nil {
			for _, el := range cl.Elts {
				if kv, ok := el.(*ast.KeyValueExpr); ok && isIdent(kv.Key, "P") {
					if v, ok := numLit(kv.Value); ok {
						errP = &v
					}
				}
			}
		}
		return true
	})
	if capV == nil || errP == nil {
		die("Compare: p-value formula not recognised")
	}
	pf("/-- `p = math.Min(cap, factor*math.Min(l1.P, l2.P))`; P reported when the test fails -/\n")
	pf("def twoSidedCap : Bool × Nat × Int := %s\ndef twoSidedFactor : Bool × Nat × Int := %s\ndef errorP : Bool × Nat × Int := %s\n", capV.lean(), facV.lean(), errP.lean())

	// DefaultThresholds
	dt, ok := varInit(sf, "DefaultThresholds").(*ast.CompositeLit)
	if !ok {
		die("DefaultThresholds is not a composite literal")
	}
	var alpha *num
	for _, el := range dt.Elts {
		if kv, ok := el.(*ast.KeyValueExpr); ok && isIdent(kv.Key, "CompareAlpha") {
			v := mustNum(kv.Value, "CompareAlpha")
			alpha = &v
		}
	}
	if alpha == nil {
		die("DefaultThresholds.CompareAlpha not found")
	}
	pf("def defaultCompareAlpha : Bool × Nat × Int := %s\ndef defaultCompareAlphaText : String := %s\n", alpha.lean(), leanStr(alpha.text))
	footer("NothingFacts", mc, ms, sum, tab, us, cmp, dt)
}

func callOfNode(n ast.Node) (string, []ast.Expr, bool) {
	c, ok := n.(*ast.CallExpr)
	if !ok {
		return "", nil, false
	}
	return src(c.Fun), c.Args, true
}

// ---------------------------------------------------------------- C12: internal/stats numeric constants

// ratOf evaluates a Go constant expression (decimal literals, + - * /, unary -, named constants
// from env) exactly. Go evaluates untyped constant expressions exactly as well, and converts the
// result to float64 once.
func ratOf(e ast.Expr, env map[string]*big.Rat, what string) *big.Rat {
	e = unparen(e)
	switch v := e.(type) {
	case *ast.BasicLit:
		n := mustNum(e, what)
		m, _ := new(big.Int).SetString(n.mant, 10)
		r := new(big.Rat).SetInt(m)
		p := new(big.Int).Exp(big.NewInt(10), big.NewInt(int64(abs(n.exp))), nil)
		if n.exp >= 0 {
			r.Mul(r, new(big.Rat).SetInt(p))
		} else {
			r.Quo(r, new(big.Rat).SetInt(p))
		}
		return r
	case *ast.Ident:
		if r, ok := env[v.Name]; ok {
			return r
		}
	case *ast.SelectorExpr:
		if r, ok := env[src(v)]; ok {
			return r
		}
	case *ast.UnaryExpr:
		if v.Op == token.SUB {
			return new(big.Rat).Neg(ratOf(v.X, env, what))
		}
		if v.Op == token.ADD {
			return ratOf(v.X, env, what)
		}
	case *ast.BinaryExpr:
		x, y := ratOf(v.X, env, what), ratOf(v.Y, env, what)
		switch v.Op {
		case token.ADD:
			return new(big.Rat).Add(x, y)
		case token.SUB:
			return new(big.Rat).Sub(x, y)
		case token.MUL:
			return new(big.Rat).Mul(x, y)
		case token.QUO:
			if y.Sign() != 0 {
				return new(big.Rat).Quo(x, y)
			}
		}
	}
	die("%s: cannot evaluate constant expression %s", what, src(e))
	return nil
}

func abs(i int) int {
	if i < 0 {
		return -i
	}
	return i
}

// leanRat renders (negative, numerator, denominator) : Bool × Nat × Nat
func leanRat(r *big.Rat) string {
	return fmt.Sprintf("(%v, %s, %s)", r.Sign() < 0, new(big.Int).Abs(r.Num()).String(), r.Denom().String())
}

// localConsts evaluates the `const` declarations inside a function body, in order.
func localConsts(body ast.Node, env map[string]*big.Rat, what string) (names []string, text map[string]string) {
	text = map[string]string{}
	ast.Inspect(body, func(n ast.Node) bool {
		gd, ok := n.(*ast.GenDecl)
		if !ok || gd.Tok != token.CONST {
			return true
		}
		for _, sp := range gd.Specs {
			vs := sp.(*ast.ValueSpec)
			for i, nm := range vs.Names {
				if i >= len(vs.Values) {
					die("%s: constant %s without a value", what, nm.Name)
				}
				env[nm.Name] = ratOf(vs.Values[i], env, what+" "+nm.Name)
				names = append(names, nm.Name)
				text[nm.Name] = src(vs.Values[i])
			}
		}
		return false
	})
	return
}

// funcLit returns the function literal assigned to name inside body.
func funcLit(body ast.Node, name string) *ast.FuncLit {
	var out *ast.FuncLit
	ast.Inspect(body, func(n ast.Node) bool {
		if as, ok := n.(*ast.AssignStmt); ok && len(as.Lhs) == 1 && len(as.Rhs) == 1 && isIdent(as.Lhs[0], name) {
			if fl, ok := as.Rhs[0].(*ast.FuncLit); ok {
				out = fl
			}
		}
		return out == nil
	})
	if out == nil {
		die("function literal %s not found", name)
	}
	return out
}

func distFacts(repo string) {
	nf := parseFile(repo, "internal/stats/normaldist.go")
	bf := parseFile(repo, "internal/stats/beta.go")
	sf := parseFile(repo, "internal/stats/sample.go")
	df := parseFile(repo, "internal/stats/dist.go")
	af := parseFile(repo, "internal/stats/alg.go")
	inv := methodDecl(nf, "NormalDist", "InvCDF")
	bcf := funcDecl(bf, "betacf")
	pct := methodDecl(sf, "Sample", "Percentile")
	iqr := methodDecl(sf, "Sample", "IQR")
	ginv := funcDecl(df, "InvCDF")
	bis := funcDecl(af, "bisectBool")
	has := func(sub string) func(string) bool { return func(c string) bool { return strings.Contains(c, sub) } }

	header("DistFacts", "internal/stats/normaldist.go", "internal/stats/beta.go", "internal/stats/sample.go", "internal/stats/dist.go", "internal/stats/alg.go")
	pf("/-- every constant is an exact fraction (negative, numerator, denominator) of the Go constant expression -/\ndef conventions : Unit := ()\n")

	// ---- NormalDist.InvCDF
	env := map[string]*big.Rat{}
	names, text := localConsts(inv.Body, env, "NormalDist.InvCDF")
	var cn, cv, ct []string
	for _, nm := range names {
		cn = append(cn, nm)
		cv = append(cv, leanRat(env[nm]))
		ct = append(ct, text[nm])
	}
	pf("def invNames : List String := %s\ndef invText : List String := %s\n", leanStrList(cn), leanStrList(ct))
	pf("def invConsts : List (Bool × Nat × Nat) := %s\n", joinS(cv))
	icodes := map[string]int{"p": 0, "plow": 1, "phigh": 2}
	pf("/-- operand codes of the InvCDF conditions: %s -/\ndef invCodes : Unit := ()\n", codeDoc(icodes))
	rng := mustIf(inv.Body, "InvCDF range", has("p < 0"))
	emitCond("invRangeCond", "p outside [0,1]: NaN", rng.Cond, icodes)
	z, ok := rng.Else.(*ast.IfStmt)
	if !ok {
		die("InvCDF: else-if chain")
	}
	emitCond("invZeroCond", "-Inf", z.Cond, icodes)
	o, ok := z.Else.(*ast.IfStmt)
	if !ok {
		die("InvCDF: else-if chain")
	}
	emitCond("invOneCond", "+Inf", o.Cond, icodes)
	low := mustIf(inv.Body, "InvCDF lower region", has("plow"))
	emitCond("invLowCond", "lower region", low.Cond, icodes)
	up, ok := low.Else.(*ast.IfStmt)
	if !ok {
		die("InvCDF: region chain")
	}
	emitCond("invHighCond", "upper region", up.Cond, icodes)
	// q := p - 0.5 ; math.Sqrt(-2 * math.Log(p))
	var centre, logFactor []string
	ast.Inspect(inv.Body, func(n ast.Node) bool {
		if as, ok := n.(*ast.AssignStmt); ok && len(as.Lhs) == 1 && isIdent(as.Lhs[0], "q") && as.Tok == token.DEFINE {
			r := unparen(as.Rhs[0])
			if be, ok := r.(*ast.BinaryExpr); ok && be.Op == token.SUB && isIdent(be.X, "p") {
				centre = append(centre, leanRat(ratOf(be.Y, env, "InvCDF centre")))
			}
			if fun, args, ok := callOf(r); ok && fun == "math.Sqrt" && len(args) == 1 {
				if be, ok := unparen(args[0]).(*ast.BinaryExpr); ok && be.Op == token.MUL {
					logFactor = append(logFactor, leanRat(ratOf(be.X, env, "InvCDF log factor")))
				}
			}
		}
		return true
	})
	if len(centre) != 1 || len(logFactor) != 2 {
		die("InvCDF: q assignments not recognised")
	}
	pf("/-- `q := p - c` (central region) and `math.Sqrt(f * math.Log(…))` (lower, upper region) -/\n")
	pf("def invCentre : Bool × Nat × Nat := %s\ndef invLogFactor : List (Bool × Nat × Nat) := %s\n", centre[0], joinS(logFactor))
	var polys []string
	ast.Inspect(inv.Body, func(n ast.Node) bool {
		if as, ok := n.(*ast.AssignStmt); ok && len(as.Lhs) == 1 && isIdent(as.Lhs[0], "x") && as.Tok == token.ASSIGN {
			polys = append(polys, strings.Join(strings.Fields(src(as.Rhs[0])), ""))
		}
		return true
	})
	pf("/-- right-hand sides of the assignments to x, white space removed -/\ndef invFormulas : List String := %s\n", leanStrList(polys))

	// ---- betacf
	benv := map[string]*big.Rat{}
	bnames, _ := localConsts(bcf.Body, benv, "betacf")
	if len(bnames) != 2 || benv["maxIterations"] == nil || benv["epsilon"] == nil || !benv["maxIterations"].IsInt() {
		die("betacf: constants %v", bnames)
	}
	pf("def betaMaxIterations : Nat := %s\ndef betaEpsilon : Bool × Nat × Nat := %s\n", benv["maxIterations"].Num().String(), leanRat(benv["epsilon"]))
	rz := funcLit(bcf.Body, "raiseZero")
	rzIf := mustIf(rz.Body, "raiseZero", has("math.Abs"))
	bcodes := map[string]int{"math.Abs(z)": 0, "math.SmallestNonzeroFloat64": 1, "m": 2, "maxIterations": 3, "math.Abs(hfac - 1)": 4, "epsilon": 5}
	pf("/-- operand codes of the betacf conditions: %s -/\ndef betaCodes : Unit := ()\n", codeDoc(bcodes))
	emitCond("betaTinyCond", "raiseZero replaces z", rzIf.Cond, bcodes)
	rr, ok := rzIf.Body.List[0].(*ast.ReturnStmt)
	if !ok {
		die("raiseZero: return")
	}
	pf("def betaTinyValue : String := %s\n", leanStr(src(rr.Results[0])))
	var loop *ast.ForStmt
	for _, st := range bcf.Body.List {
		if x, ok := st.(*ast.ForStmt); ok {
			loop = x
		}
	}
	if loop == nil {
		die("betacf: loop not found")
	}
	li, ok := loop.Init.(*ast.AssignStmt)
	if !ok || !isIdent(li.Lhs[0], "m") || src(loop.Post) != "m++" {
		die("betacf: loop header")
	}
	pf("def betaLoopStart : Nat := %s\n", mustNum(li.Rhs[0], "betacf loop start").natVal("start"))
	emitCond("betaLoopCond", "loop continues", loop.Cond, bcodes)
	emitCond("betaConvergedCond", "converged", mustIf(loop.Body, "betacf convergence", has("epsilon")).Cond, bcodes)

	// ---- Sample.Percentile / IQR
	pcodes := map[string]int{"pctile": 0, "k": 1, "len(s.Xs)": 2}
	pf("/-- operand codes of the Percentile conditions: %s -/\ndef pctCodes : Unit := ()\n", codeDoc(pcodes))
	emitCond("pctLowCond", "percentile capped to the minimum", mustIf(pct.Body, "Percentile low", has("pctile <=")).Cond, pcodes)
	emitCond("pctHighCond", "percentile capped to the maximum", mustIf(pct.Body, "Percentile high", has("pctile >=")).Cond, pcodes)
	emitCond("pctFirstCond", "first element", mustIf(pct.Body, "Percentile first", has("k <=")).Cond, pcodes)
	emitCond("pctLastCond", "last element", mustIf(pct.Body, "Percentile last", has("k >=")).Cond, pcodes)
	var r8 []string
	r8Text := ""
	ast.Inspect(pct.Body, func(n ast.Node) bool {
		if as, ok := n.(*ast.AssignStmt); ok && len(as.Lhs) == 1 && isIdent(as.Lhs[0], "n") && as.Tok == token.DEFINE {
			// n := A + pctile*(N+B)
			r8Text = strings.Join(strings.Fields(src(as.Rhs[0])), "")
			if be, ok := unparen(as.Rhs[0]).(*ast.BinaryExpr); ok && be.Op == token.ADD {
				r8 = append(r8, leanRat(ratOf(be.X, nil, "Percentile R8")))
				if m, ok := unparen(be.Y).(*ast.BinaryExpr); ok && m.Op == token.MUL && isIdent(m.X, "pctile") {
					if a, ok := unparen(m.Y).(*ast.BinaryExpr); ok && a.Op == token.ADD && isIdent(a.X, "N") {
						r8 = append(r8, leanRat(ratOf(a.Y, nil, "Percentile R8")))
					}
				}
			}
		}
		return true
	})
	if len(r8) != 2 {
		die("Percentile: R8 position formula not recognised")
	}
	pf("/-- `n := A + pctile*(N+B)`: [A, B]; source `%s` -/\ndef pctR8 : List (Bool × Nat × Nat) := %s\n", r8Text, joinS(r8))
	var iq []string
	ast.Inspect(iqr.Body, func(n ast.Node) bool {
		if fun, args, ok := callOfNode(n); ok && fun == "s.Percentile" && len(args) == 1 {
			iq = append(iq, leanRat(ratOf(args[0], nil, "IQR")))
		}
		return true
	})
	pf("/-- IQR = Percentile(first) - Percentile(second) -/\ndef iqrPercentiles : List (Bool × Nat × Nat) := %s\n", joinS(iq))

	// ---- generic InvCDF (dist.go) and bisectBool (alg.go)
	genv := map[string]*big.Rat{}
	gnames, _ := localConsts(ginv.Body, genv, "InvCDF")
	if genv["xtol"] == nil {
		die("InvCDF: xtol not found (%v)", gnames)
	}
	pf("def genXtol : Bool × Nat × Nat := %s\n", leanRat(genv["xtol"]))
	if genv["almostInf"] != nil {
		pf("def genAlmostInf : Bool × Nat × Nat := %s\n", leanRat(genv["almostInf"]))
	}
	var xdelta0 *big.Rat
	var growth []string
	ast.Inspect(ginv.Body, func(n ast.Node) bool {
		if as, ok := n.(*ast.AssignStmt); ok && len(as.Lhs) == 1 && isIdent(as.Lhs[0], "xdelta") {
			if as.Tok == token.DEFINE {
				xdelta0 = ratOf(as.Rhs[0], genv, "xdelta")
			} else if as.Tok == token.MUL_ASSIGN {
				growth = append(growth, leanRat(ratOf(as.Rhs[0], genv, "xdelta growth")))
			} else {
				die("InvCDF: xdelta %s", src(as))
			}
		}
		return true
	})
	if xdelta0 == nil || len(growth) != 2 {
		die("InvCDF: xdelta not recognised")
	}
	pf("def genXdeltaStart : Bool × Nat × Nat := %s\ndef genXdeltaGrowth : List (Bool × Nat × Nat) := %s\n", leanRat(xdelta0), joinS(growth))
	gcodes := map[string]int{"y": 0, "y1": 1, "hiY": 2, "loY": 3, "dist.CDF(x)": 4, "dist.CDF(l)": 5, "dist.CDF(h)": 6}
	pf("/-- operand codes of the generic InvCDF conditions: %s; `hiX != inf` / `loX != -inf` are not encoded -/\ndef genCodes : Unit := ()\n", codeDoc(gcodes))
	emitCond("genRangeCond", "y outside [0,1]: NaN", mustIf(ginv.Body, "InvCDF range", has("y < 0")).Cond, gcodes)
	emitCond("genDirectionCond", "search upwards", mustIf(ginv.Body, "InvCDF direction", has("y1 < y")).Cond, gcodes)
	var loops []*ast.ForStmt
	ast.Inspect(ginv.Body, func(n ast.Node) bool {
		if x, ok := n.(*ast.ForStmt); ok {
			loops = append(loops, x)
		}
		return true
	})
	if len(loops) != 2 {
		die("InvCDF: %d loops", len(loops))
	}
	for i, nm := range []string{"genUpCond", "genDownCond"} {
		be, ok := loops[i].Cond.(*ast.BinaryExpr)
		if !ok || be.Op != token.LAND {
			die("InvCDF: loop condition %s", src(loops[i].Cond))
		}
		emitCond(nm, "bracketing loop continues (first conjunct; the second is `"+src(be.Y)+"`)", be.X, gcodes)
	}
	var pred *ast.FuncLit
	ast.Inspect(ginv.Body, func(n ast.Node) bool {
		if fun, args, ok := callOfNode(n); ok && fun == "bisectBool" && len(args) == 4 {
			pred, _ = args[0].(*ast.FuncLit)
			if src(args[3]) != "xtol" {
				die("InvCDF: bisectBool tolerance %s", src(args[3]))
			}
		}
		return true
	})
	if pred == nil {
		die("InvCDF: bisectBool call not found")
	}
	emitCond("genPredicate", "the bisected predicate", pred.Body.List[0].(*ast.ReturnStmt).Results[0], gcodes)
	acodes := map[string]int{"high - low": 0, "xtol": 1, "mid": 2, "high": 3, "low": 4, "flow": 5, "fhigh": 6, "fmid": 7}
	pf("/-- operand codes of the bisectBool conditions: %s -/\ndef bisectCodes : Unit := ()\n", codeDoc(acodes))
	emitCond("bisectPanicCond", "root not bracketed", mustIf(bis.Body, "bisectBool panic", has("flow == fhigh")).Cond, acodes)
	emitCond("bisectDoneCond", "interval small enough", mustIf(bis.Body, "bisectBool done", has("xtol")).Cond, acodes)
	emitCond("bisectStuckCond", "midpoint not representable", mustIf(bis.Body, "bisectBool stuck", has("mid ==")).Cond, acodes)
	emitCond("bisectLowCond", "move the lower end", mustIf(bis.Body, "bisectBool low", has("fmid ==")).Cond, acodes)
	var midDiv *big.Rat
	ast.Inspect(bis.Body, func(n ast.Node) bool {
		if as, ok := n.(*ast.AssignStmt); ok && len(as.Lhs) == 1 && isIdent(as.Lhs[0], "mid") {
			if be, ok := unparen(as.Rhs[0]).(*ast.BinaryExpr); ok && be.Op == token.QUO {
				midDiv = ratOf(be.Y, nil, "bisectBool midpoint")
			}
		}
		return true
	})
	if midDiv == nil {
		die("bisectBool: midpoint not recognised")
	}
	pf("def bisectMidDivisor : Bool × Nat × Nat := %s\n", leanRat(midDiv))
	footer("DistFacts", inv, bcf, pct, iqr, ginv, bis)
}

// ---------------------------------------------------------------- C14: cmd/benchstat/main.go flag defaults

// defaultAlphaLit resolves benchmath.DefaultThresholds.CompareAlpha.
func defaultAlphaLit(repo string) num {
	sf := parseFile(repo, "benchmath/sample.go")
	dt, ok := varInit(sf, "DefaultThresholds").(*ast.CompositeLit)
	if !ok {
		die("DefaultThresholds is not a composite literal")
	}
	for _, el := range dt.Elts {
		if kv, ok := el.(*ast.KeyValueExpr); ok && isIdent(kv.Key, "CompareAlpha") {
			return mustNum(kv.Value, "CompareAlpha")
		}
	}
	die("DefaultThresholds.CompareAlpha not found")
	return num{}
}

// flagText is how package flag prints a float64 default (%v).
func flagText(n num) string {
	v, err := strconv.ParseFloat(strings.ReplaceAll(n.text, "_", ""), 64)
	if err != nil {
		die("float literal %s: %v", n.text, err)
	}
	return strconv.FormatFloat(v, 'g', -1, 64)
}

func cmdFacts(repo string) {
	f := parseFile(repo, "cmd/benchstat/main.go")
	bs := funcDecl(f, "benchstat")
	// thresholds := benchmath.DefaultThresholds
	thresholdsIsDefault := false
	type fl struct{ name, kind, def, text string }
	var flags []fl
	var numForms []string
	ast.Inspect(bs.Body, func(n ast.Node) bool {
		if as, ok := n.(*ast.AssignStmt); ok && len(as.Lhs) == 1 && isIdent(as.Lhs[0], "thresholds") && src(as.Rhs[0]) == "benchmath.DefaultThresholds" {
			thresholdsIsDefault = true
		}
		fun, args, ok := callOfNode(n)
		if !ok || !strings.HasPrefix(fun, "flags.") {
			return true
		}
		switch strings.TrimPrefix(fun, "flags.") {
		case "String":
			name, ok1 := strLit(args[0])
			def, ok2 := strLit(args[1])
			if !ok1 || !ok2 {
				die("flag %s: non-literal name or default", src(args[0]))
			}
			flags = append(flags, fl{name, "string", def, def})
		case "Float64":
			name, ok1 := strLit(args[0])
			if !ok1 {
				die("flag %s: non-literal name", src(args[0]))
			}
			v := mustNum(args[1], "flag -"+name)
			flags = append(flags, fl{name, "float64", flagText(v), v.text})
			numForms = append(numForms, fmt.Sprintf("(%s, %s)", leanStr(name), v.lean()))
		case "Float64Var":
			name, ok1 := strLit(args[1])
			if !ok1 {
				die("flag %s: non-literal name", src(args[1]))
			}
			if src(args[2]) != "thresholds.CompareAlpha" || src(args[0]) != "&thresholds.CompareAlpha" {
				die("flag -%s: unexpected default %s", name, src(args[2]))
			}
			if !thresholdsIsDefault {
				die("flag -%s: thresholds is not benchmath.DefaultThresholds", name)
			}
			v := defaultAlphaLit(repo)
			flags = append(flags, fl{name, "float64", flagText(v), v.text})
			numForms = append(numForms, fmt.Sprintf("(%s, %s)", leanStr(name), v.lean()))
		}
		return true
	})
	if len(flags) == 0 {
		die("benchstat: no flags found")
	}
	header("CmdFacts", "cmd/benchstat/main.go", "benchmath/sample.go")
	var all, names []string
	for _, x := range flags {
		all = append(all, fmt.Sprintf("(%s, %s, %s, %s)", leanStr(x.name), leanStr(x.kind), leanStr(x.def), leanStr(x.text)))
		names = append(names, x.name)
	}
	pf("/-- every flag of the benchstat command in source order: (name, kind, default as `benchstat -h` prints it, source text of the default) -/\n")
	pf("def flags : List (String × String × String × String) := %s\n", joinS(all))
	pf("def flagNames : List String := %s\n", leanStrList(names))
	for _, x := range flags {
		pf("def %sDefault : String := %s\n", x.name, leanStr(x.def))
	}
	pf("/-- float defaults as (negative, mantissa, decimal exponent) -/\ndef floatDefaults : List (String × (Bool × Nat × Int)) := %s\n", joinS(numForms))
	codes := map[string]int{"thresholds.CompareAlpha": 0, "*flagConfidence": 1}
	has := func(sub string) func(string) bool { return func(c string) bool { return strings.Contains(c, sub) } }
	pf("/-- operand codes: %s -/\ndef rangeCodes : Unit := ()\n", codeDoc(codes))
	emitCond("alphaRangeCond", "-alpha rejected", mustIf(bs.Body, "alpha range", has("thresholds.CompareAlpha <")).Cond, codes)
	emitCond("confidenceRangeCond", "-confidence rejected", mustIf(bs.Body, "confidence range", has("*flagConfidence <")).Cond, codes)
	var formats []string
	ast.Inspect(bs.Body, func(n ast.Node) bool {
		if sw, ok := n.(*ast.SwitchStmt); ok && sw.Tag != nil && src(sw.Tag) == "*flagFormat" {
			for _, c := range sw.Body.List {
				for _, l := range c.(*ast.CaseClause).List {
					if s, ok := strLit(l); ok {
						formats = append(formats, s)
					}
				}
			}
		}
		return true
	})
	pf("/-- accepted values of -format -/\ndef formats : List String := %s\n", leanStrList(formats))
	footer("CmdFacts", bs)
}

// ---------------------------------------------------------------- C18: benchseries/benchseries.go

// layoutTokens splits a Go time layout into (code, a, b):
// 0 literal byte a; 1 "2006"; 2 "01"; 3 "02"; 4 "15"; 5 "04"; 6 "05";
// 7 fraction with trailing zeros removed (separator byte a, b nines); 8 fixed fraction (separator a, b zeros);
// 9 "-07:00"; 10 "Z07:00". Any other reference-time element is an error.
func layoutTokens(layout, what string) string {
	var out []string
	add := func(c, a, b int) { out = append(out, fmt.Sprintf("(%d, %d, %d)", c, a, b)) }
	for i := 0; i < len(layout); {
		rest := layout[i:]
		switch {
		case strings.HasPrefix(rest, "2006"):
			add(1, 0, 0)
			i += 4
		case strings.HasPrefix(rest, "Z07:00"):
			add(10, 0, 0)
			i += 6
		case strings.HasPrefix(rest, "-07:00"):
			add(9, 0, 0)
			i += 6
		case strings.HasPrefix(rest, "01"):
			add(2, 0, 0)
			i += 2
		case strings.HasPrefix(rest, "02"):
			add(3, 0, 0)
			i += 2
		case strings.HasPrefix(rest, "15"):
			add(4, 0, 0)
			i += 2
		case strings.HasPrefix(rest, "04"):
			add(5, 0, 0)
			i += 2
		case strings.HasPrefix(rest, "05"):
			add(6, 0, 0)
			i += 2
		case (rest[0] == '.' || rest[0] == ',') && len(rest) > 1 && (rest[1] == '9' || rest[1] == '0'):
			j := 1
			for j < len(rest) && rest[j] == rest[1] {
				j++
			}
			if j < len(rest) && rest[j] >= '0' && rest[j] <= '9' {
				die("%s: layout %q: fraction followed by a digit", what, layout)
			}
			if rest[1] == '9' {
				add(7, int(rest[0]), j-1)
			} else {
				add(8, int(rest[0]), j-1)
			}
			i += j
		default:
			c := rest[0]
			if c >= '0' && c <= '9' || strings.ContainsRune("JMPZ_", rune(c)) {
				die("%s: layout %q: unsupported element at %q", what, layout, rest)
			}
			add(0, int(c), 0)
			i++
		}
	}
	return joinS(out)
}

var classRe = regexp.MustCompile(`^(?:\[(.)-(.)\]|([A-Za-z0-9:+-]))(?:\{(\d+)\})?`)

// simpleRegex parses `^([c-d]{n}|c)*$` into (lo byte, hi byte, count) triples.
func simpleRegex(re, what string) string {
	if !strings.HasPrefix(re, "^") || !strings.HasSuffix(re, "$") {
		die("%s: regexp %q is not anchored at both ends", what, re)
	}
	body := re[1 : len(re)-1]
	var out []string
	for body != "" {
		m := classRe.FindStringSubmatch(body)
		if m == nil {
			die("%s: regexp %q: unsupported syntax at %q", what, re, body)
		}
		lo, hi := 0, 0
		if m[1] != "" {
			lo, hi = int(m[1][0]), int(m[2][0])
		} else {
			lo, hi = int(m[3][0]), int(m[3][0])
		}
		n := 1
		if m[4] != "" {
			n, _ = strconv.Atoi(m[4])
		}
		out = append(out, fmt.Sprintf("(%d, %d, %d)", lo, hi, n))
		body = body[len(m[0]):]
	}
	return joinS(out)
}

func seriesFacts(repo string) {
	f := parseFile(repo, "benchseries/benchseries.go")
	nd := funcDecl(f, "NormalizeDateString")
	pn := funcDecl(f, "ParseNormalizedDateString")
	hs := methodDecl(f, "Cell", "hash")
	stdLayouts := map[string]string{"time.RFC3339Nano": time.RFC3339Nano, "time.RFC3339": time.RFC3339}

	header("SeriesFacts", "benchseries/benchseries.go")
	// rot and the hash round
	rot := mustNum(varInit(f, "rot"), "rot")
	pf("def rot : Nat := %s\n", rot.natVal("rot"))
	var lines []string
	ast.Inspect(hs.Body, func(n ast.Node) bool {
		if rs, ok := n.(*ast.RangeStmt); ok {
			for _, st := range rs.Body.List {
				lines = append(lines, strings.Join(strings.Fields(src(st)), " "))
			}
		}
		return true
	})
	pf("/-- the statements of one round of Cell.hash -/\ndef hashRound : List String := %s\n", leanStrList(lines))
	seedExpr := ""
	ast.Inspect(f, func(n ast.Node) bool {
		if fun, args, ok := callOfNode(n); ok && fun == "rand.NewSource" && len(args) == 1 && strings.Contains(src(args[0]), "hash()") {
			seedExpr = src(args[0])
		}
		return true
	})
	if seedExpr == "" {
		die("rand.NewSource(… hash() …) not found")
	}
	pf("def seedExpr : String := %s\n", leanStr(seedExpr))

	// compact form
	reCall, ok := varInit(f, "noPuncDate").(*ast.CallExpr)
	if !ok || src(reCall.Fun) != "regexp.MustCompile" {
		die("noPuncDate is not regexp.MustCompile(…)")
	}
	re, ok := strLit(reCall.Args[0])
	if !ok {
		die("noPuncDate pattern is not a literal")
	}
	pf("def compactRegex : String := %s\n", leanStr(re))
	pf("/-- the anchored pattern as (lowest byte, highest byte, repetitions) -/\ndef compactForm : List (Nat × Nat × Nat) := %s\n", simpleRegex(re, "noPuncDate"))
	cif := mustIf(nd.Body, "compact form", func(c string) bool { return strings.Contains(c, "noPuncDate.MatchString") })
	as, ok := cif.Body.List[0].(*ast.AssignStmt)
	if !ok || !isIdent(as.Lhs[0], "in") {
		die("NormalizeDateString: respelling assignment")
	}
	var pieces []string
	var walk func(e ast.Expr)
	walk = func(e ast.Expr) {
		e = unparen(e)
		if be, ok := e.(*ast.BinaryExpr); ok && be.Op == token.ADD {
			walk(be.X)
			walk(be.Y)
			return
		}
		if s, ok := strLit(e); ok {
			pieces = append(pieces, fmt.Sprintf("(1, 0, 0, %s)", bytesOf(s)))
			return
		}
		if sl, ok := e.(*ast.SliceExpr); ok && isIdent(sl.X, "in") && sl.Low != nil && sl.High != nil {
			lo, hi := mustNum(sl.Low, "slice"), mustNum(sl.High, "slice")
			pieces = append(pieces, fmt.Sprintf("(0, %s, %s, [])", lo.natVal("slice"), hi.natVal("slice")))
			return
		}
		die("NormalizeDateString: respelling piece %s", src(e))
	}
	walk(as.Rhs[0])
	pf("/-- the respelling of the compact form: (0, lo, hi, []) = in[lo:hi], (1, 0, 0, bytes) = a literal; source `%s` -/\n", src(as.Rhs[0]))
	pf("def respell : List (Nat × Nat × Nat × List Nat) := %s\n", joinS(pieces))

	// layouts
	inLayout, outLayout, utc := "", "", false
	ast.Inspect(nd.Body, func(n ast.Node) bool {
		fun, args, ok := callOfNode(n)
		if !ok {
			return true
		}
		if fun == "time.Parse" && len(args) == 2 {
			inLayout = src(args[0])
		}
		if strings.HasSuffix(fun, ".Format") && len(args) == 1 {
			outLayout = src(args[0])
			utc = strings.Contains(fun, ".UTC()")
		}
		return true
	})
	resolve := func(name string) string {
		if v, ok := stdLayouts[name]; ok {
			return v
		}
		if v, ok := strLit(varInitOpt(f, name)); ok {
			return v
		}
		die("layout %s cannot be resolved", name)
		return ""
	}
	if inLayout == "" || outLayout == "" {
		die("NormalizeDateString: time.Parse / Format not found")
	}
	pf("def inputLayoutName : String := %s\ndef inputLayout : String := %s\n", leanStr(inLayout), leanStr(resolve(inLayout)))
	pf("/-- layout elements: 0 literal byte a; 1 \"2006\"; 2 \"01\"; 3 \"02\"; 4 \"15\"; 5 \"04\"; 6 \"05\"; 7 fraction, trailing zeros removed (separator a, b nines); 8 fixed fraction; 9 \"-07:00\"; 10 \"Z07:00\" -/\n")
	pf("def inputTokens : List (Nat × Nat × Nat) := %s\n", layoutTokens(resolve(inLayout), "input layout"))
	pf("def outputLayoutName : String := %s\ndef outputLayout : String := %s\n", leanStr(outLayout), leanStr(resolve(outLayout)))
	pf("def outputTokens : List (Nat × Nat × Nat) := %s\n", layoutTokens(resolve(outLayout), "output layout"))
	pf("def outputInUTC : Bool := %v\n", utc)
	rb := ""
	ast.Inspect(pn.Body, func(n ast.Node) bool {
		if fun, args, ok := callOfNode(n); ok && fun == "time.Parse" {
			rb = src(args[0])
		}
		return true
	})
	pf("/-- the layout ParseNormalizedDateString reads back -/\ndef readBackLayoutName : String := %s\n", leanStr(rb))
	footer("SeriesFacts", nd, pn, hs)
}

// varInitOpt is varInit without the fatal error.
func varInitOpt(f *ast.File, name string) ast.Expr {
	for _, d := range f.Decls {
		if gd, ok := d.(*ast.GenDecl); ok {
			for _, sp := range gd.Specs {
				if vs, ok := sp.(*ast.ValueSpec); ok {
					for i, n := range vs.Names {
						if n.Name == name && i < len(vs.Values) {
							return vs.Values[i]
						}
					}
				}
			}
		}
	}
	return &ast.BadExpr{}
}

// ---------------------------------------------------------------- C19/C20: storage/db/db.go

var verbRe = regexp.MustCompile(`^%[sdvwq]`)

// sprintfTokens: (0, arg index, 0) = %s, (1, arg index, 0) = %d, (2, byte, 0) = literal byte.
func sprintfTokens(format, what string) string {
	var out []string
	arg := 0
	for i := 0; i < len(format); {
		if format[i] == '%' {
			v := verbRe.FindString(format[i:])
			switch v {
			case "%s", "%v", "%w":
				out = append(out, fmt.Sprintf("(0, %d, 0)", arg))
			case "%d":
				out = append(out, fmt.Sprintf("(1, %d, 0)", arg))
			default:
				die("%s: unsupported verb in %q", what, format)
			}
			arg++
			i += 2
			continue
		}
		out = append(out, fmt.Sprintf("(2, %d, 0)", format[i]))
		i++
	}
	return joinS(out)
}

func dbFacts(repo string) {
	f := parseFile(repo, "storage/db/db.go")
	il := methodDecl(f, "Upload", "insertLabel")
	fl := methodDecl(f, "Upload", "flush")
	nu := methodDecl(f, "DB", "NewUpload")
	ir := methodDecl(f, "Upload", "InsertRecord")
	header("DbFacts", "storage/db/db.go")

	codes := map[string]int{"len(u.insertLabelArgs)": 0, "threshold": 1}
	fi := mustIf(il.Body, "insertLabel flush", func(c string) bool { return strings.Contains(c, "len(u.insertLabelArgs)") })
	be, ok := unparen(fi.Cond).(*ast.BinaryExpr)
	if !ok || src(be.X) != "len(u.insertLabelArgs)" || opN(be.Op) > 5 {
		die("insertLabel: flush condition %s", src(fi.Cond))
	}
	thr := mustNum(be.Y, "flush threshold")
	pf("/-- `if %s { u.flush() }`: threshold and comparison (operator codes 0:>= 1:> 2:<= 3:< 4:== 5:!=); condition over operand codes %s -/\n", src(fi.Cond), codeDoc(codes))
	pf("def flushThreshold : Nat := %s\ndef flushOp : Nat := %d\n", thr.natVal("flush threshold"), opN(be.Op))
	pf("def flushCond : List (List (Bool × Nat × Nat × Nat)) := [[(false, 0, %d, 1)]]\n", opN(be.Op))
	callsFlush := false
	ast.Inspect(fi.Body, func(n ast.Node) bool {
		if fun, _, ok := callOfNode(n); ok && fun == "u.flush" {
			callsFlush = true
		}
		return true
	})
	pf("def flushCalled : Bool := %v\n", callsFlush)
	// arguments appended per label / per record
	perRow := func(fd *ast.FuncDecl, field string) int {
		n := -1
		ast.Inspect(fd.Body, func(nd ast.Node) bool {
			if fun, args, ok := callOfNode(nd); ok && fun == "append" && len(args) > 1 && src(args[0]) == field {
				n = len(args) - 1
			}
			return true
		})
		if n < 0 {
			die("append(%s, …) not found", field)
		}
		return n
	}
	pf("/-- values appended to the queue per label / per record -/\ndef labelArgsPerRow : Nat := %d\ndef recordArgsPerRow : Nat := %d\n",
		perRow(il, "u.insertLabelArgs"), perRow(ir, "u.insertRecordArgs"))
	var ins []string
	ast.Inspect(fl.Body, func(nd ast.Node) bool {
		if fun, args, ok := callOfNode(nd); ok && fun == "insertMultiple" && len(args) == 4 {
			q, _ := strLit(args[1])
			ins = append(ins, fmt.Sprintf("(%s, %s, %s)", leanStr(q), mustNum(args[2], "insertMultiple").natVal("argsPerRow"), leanStr(src(args[3]))))
		}
		return true
	})
	pf("/-- the INSERT statements of flush: (SQL prefix, arguments per row, queue) -/\ndef flushInserts : List (String × Nat × String) := %s\n", joinS(ins))

	// upload id
	idFmt, idArgs := "", []string{}
	incr := false
	parseOff := ""
	ast.Inspect(nu.Body, func(nd ast.Node) bool {
		switch x := nd.(type) {
		case *ast.AssignStmt:
			if len(x.Lhs) == 1 && isIdent(x.Lhs[0], "id") {
				if fun, args, ok := callOf(x.Rhs[0]); ok && fun == "fmt.Sprintf" {
					idFmt, _ = strLit(args[0])
					for _, a := range args[1:] {
						idArgs = append(idArgs, src(a))
					}
				}
			}
		case *ast.IncDecStmt:
			if isIdent(x.X, "num") && x.Tok == token.INC {
				incr = true
			}
		case *ast.CallExpr:
			if src(x.Fun) == "strconv.Atoi" && len(x.Args) == 1 {
				parseOff = src(x.Args[0])
			}
		}
		return true
	})
	if idFmt == "" {
		die("NewUpload: id format not found")
	}
	pf("def idFormat : String := %s\ndef idArgs : List String := %s\n", leanStr(idFmt), leanStrList(idArgs))
	pf("/-- the format as elements: (0, i, 0) = %%s of argument i, (1, i, 0) = %%d of argument i, (2, b, 0) = the byte b -/\n")
	pf("def idTokens : List (Nat × Nat × Nat) := %s\n", sprintfTokens(idFmt, "upload id"))
	pf("/-- `num++` before formatting; the previous sequence number is read back from `%s` -/\n", parseOff)
	pf("def idIncrements : Bool := %v\ndef idReadBack : String := %s\n", incr, leanStr(parseOff))
	footer("DbFacts", il, fl, nu, ir)
}

// ---------------------------------------------------------------- C03: benchfmt/internal/bytesconv, reader.go atof

var two64 = new(big.Int).Lsh(big.NewInt(1), 64)

// intOf evaluates an integer constant expression the way Go does on a 64-bit platform:
// truncating division, shifts, `^` on unsigned conversions, math.Max* constants, named
// constants from env. Conversions uint/uint64/byte reduce modulo 2^64.
func intOf(e ast.Expr, env map[string]*big.Int, what string) *big.Int {
	e = unparen(e)
	std := map[string]string{"math.MaxUint64": "18446744073709551615", "math.MaxInt64": "9223372036854775807",
		"math.MaxUint32": "4294967295", "math.MaxInt32": "2147483647"}
	switch v := e.(type) {
	case *ast.BasicLit:
		if v.Kind == token.CHAR {
			c, _, _, err := strconv.UnquoteChar(strings.Trim(v.Value, "'"), 0)
			if err == nil {
				return big.NewInt(int64(c))
			}
		}
		if v.Kind == token.INT {
			if n, ok := new(big.Int).SetString(strings.ReplaceAll(v.Value, "_", ""), 0); ok {
				return n
			}
		}
	case *ast.Ident:
		if r, ok := env[v.Name]; ok {
			return r
		}
	case *ast.SelectorExpr:
		if r, ok := env[src(v)]; ok {
			return r
		}
		if t, ok := std[src(v)]; ok {
			n, _ := new(big.Int).SetString(t, 10)
			return n
		}
	case *ast.CallExpr:
		if id, ok := v.Fun.(*ast.Ident); ok && len(v.Args) == 1 {
			x := intOf(v.Args[0], env, what)
			switch id.Name {
			case "uint", "uint64":
				return new(big.Int).Mod(x, two64)
			case "int", "int64":
				return x
			case "byte":
				return new(big.Int).Mod(x, big.NewInt(256))
			}
		}
	case *ast.UnaryExpr:
		x := intOf(v.X, env, what)
		switch v.Op {
		case token.SUB:
			return new(big.Int).Neg(x)
		case token.ADD:
			return x
		case token.XOR: // only on unsigned 64-bit operands
			if c, ok := unparen(v.X).(*ast.CallExpr); ok && (src(c.Fun) == "uint" || src(c.Fun) == "uint64") {
				return new(big.Int).Sub(new(big.Int).Sub(two64, big.NewInt(1)), x)
			}
		}
	case *ast.BinaryExpr:
		x, y := intOf(v.X, env, what), intOf(v.Y, env, what)
		unsigned := isUnsigned64(v)
		wrap := func(r *big.Int) *big.Int {
			if unsigned {
				return r.Mod(r, two64)
			}
			return r
		}
		switch v.Op {
		case token.ADD:
			return wrap(new(big.Int).Add(x, y))
		case token.SUB:
			return wrap(new(big.Int).Sub(x, y))
		case token.MUL:
			return wrap(new(big.Int).Mul(x, y))
		case token.QUO:
			if y.Sign() != 0 {
				return new(big.Int).Quo(x, y)
			}
		case token.OR:
			return new(big.Int).Or(x, y)
		case token.AND:
			return new(big.Int).And(x, y)
		case token.SHL:
			if y.IsInt64() && y.Int64() >= 0 && y.Int64() < 4096 {
				return wrap(new(big.Int).Lsh(x, uint(y.Int64())))
			}
		case token.SHR:
			if y.IsInt64() && y.Int64() >= 0 && y.Int64() < 4096 {
				return new(big.Int).Rsh(x, uint(y.Int64()))
			}
		}
	}
	die("%s: cannot evaluate integer constant expression %s", what, src(e))
	return nil
}

// isUnsigned64: the expression has an explicit uint/uint64 conversion as (left-most) operand,
// so its arithmetic wraps modulo 2^64.
func isUnsigned64(e ast.Expr) bool {
	switch v := unparen(e).(type) {
	case *ast.CallExpr:
		return src(v.Fun) == "uint" || src(v.Fun) == "uint64"
	case *ast.BinaryExpr:
		if v.Op == token.SHL || v.Op == token.SHR {
			return isUnsigned64(v.X)
		}
		return isUnsigned64(v.X) || isUnsigned64(v.Y)
	case *ast.UnaryExpr:
		return isUnsigned64(v.X)
	}
	return false
}

func leanInt(n *big.Int) string { return fmt.Sprintf("(%s : Int)", n.String()) }

func natOf(e ast.Expr, env map[string]*big.Int, what string) string {
	n := intOf(e, env, what)
	if n.Sign() < 0 {
		die("%s: %s is negative", what, src(e))
	}
	return n.String()
}

// assignedInt finds `name := <int expr>` / `name = <int expr>` (first, in source order) in body.
func assignedExpr(body ast.Node, name string, tok token.Token) ast.Expr {
	var out ast.Expr
	ast.Inspect(body, func(n ast.Node) bool {
		if out != nil {
			return false
		}
		if as, ok := n.(*ast.AssignStmt); ok && len(as.Lhs) == 1 && len(as.Rhs) == 1 && isIdent(as.Lhs[0], name) && (tok == token.ILLEGAL || as.Tok == tok) {
			out = as.Rhs[0]
		}
		return true
	})
	return out
}

func numFacts(repo string) {
	af := parseFile(repo, "benchfmt/internal/bytesconv/atof.go")
	df := parseFile(repo, "benchfmt/internal/bytesconv/decimal.go")
	ifl := parseFile(repo, "benchfmt/internal/bytesconv/atoi.go")
	rf := parseFile(repo, "benchfmt/reader.go")
	sp := funcDecl(af, "special")
	rd := funcDecl(af, "readFloat")
	set := methodDecl(af, "decimal", "set")
	fb := methodDecl(af, "decimal", "floatBits")
	ex := funcDecl(af, "atof64exact")
	a64 := funcDecl(af, "atof64")
	pu := funcDecl(ifl, "ParseUint")
	pi := funcDecl(ifl, "ParseInt")
	at := funcDecl(ifl, "Atoi")
	ratof := funcDecl(rf, "atof")
	has := func(sub string) func(string) bool { return func(c string) bool { return strings.Contains(c, sub) } }
	ienv := map[string]*big.Int{}

	header("NumFacts", "benchfmt/internal/bytesconv/atof.go", "benchfmt/internal/bytesconv/decimal.go", "benchfmt/internal/bytesconv/atoi.go", "benchfmt/internal/bytesconv/ftoa.go", "benchfmt/reader.go")

	// ---- platform constants (evaluated for a 64-bit platform)
	ienv["intSize"] = intOf(varInit(ifl, "intSize"), ienv, "intSize")
	ienv["uintSize"] = intOf(varInit(df, "uintSize"), ienv, "uintSize")
	ienv["maxShift"] = intOf(varInit(df, "maxShift"), ienv, "maxShift")
	pf("/-- `intSize`, `uintSize`, `maxShift` evaluated for a 64-bit platform; source `%s`, `%s`, `%s` -/\n", src(varInit(ifl, "intSize")), src(varInit(df, "uintSize")), src(varInit(df, "maxShift")))
	pf("def intSize : Nat := %s\ndef uintSize : Nat := %s\ndef maxShift : Nat := %s\n", ienv["intSize"], ienv["uintSize"], ienv["maxShift"])

	// ---- optimize
	pf("def optimize : Bool := %s\n", src(varInit(af, "optimize")))
	optUses := 0
	ast.Inspect(a64.Body, func(n ast.Node) bool {
		if x, ok := n.(*ast.IfStmt); ok && strings.Contains(src(x.Cond), "optimize") {
			optUses++
		}
		return true
	})
	pf("/-- number of `if optimize && …` guards in atof64 -/\ndef optimizeGuards : Nat := %d\n", optUses)

	// ---- special
	var specials []string
	var sw *ast.SwitchStmt
	ast.Inspect(sp.Body, func(n ast.Node) bool {
		if x, ok := n.(*ast.SwitchStmt); ok && sw == nil {
			sw = x
		}
		return true
	})
	if sw == nil || src(sw.Tag) != "s[0]" {
		die("special: switch s[0] not found")
	}
	for _, c := range sw.Body.List {
		cc := c.(*ast.CaseClause)
		if len(cc.List) == 0 {
			continue
		}
		var firsts []string
		for _, l := range cc.List {
			firsts = append(firsts, intOf(l, nil, "special case").String())
		}
		if len(cc.Body) != 1 {
			die("special: case body")
		}
		ifs, ok := cc.Body[0].(*ast.IfStmt)
		if !ok {
			die("special: case body")
		}
		var spell []string
		var walk func(e ast.Expr)
		walk = func(e ast.Expr) {
			e = unparen(e)
			if be, ok := e.(*ast.BinaryExpr); ok && be.Op == token.LOR {
				walk(be.X)
				walk(be.Y)
				return
			}
			fun, args, ok := callOf(e)
			if ok && fun == "equalIgnoreCase" && len(args) == 2 && isIdent(args[0], "s") {
				if t, ok := strLit(args[1]); ok {
					spell = append(spell, bytesOf(t))
					return
				}
			}
			die("special: condition %s", src(e))
		}
		walk(ifs.Cond)
		rs, ok := ifs.Body.List[0].(*ast.ReturnStmt)
		if !ok {
			die("special: return")
		}
		val := -1
		switch strings.Join(strings.Fields(src(rs.Results[0])), "") {
		case "math.Inf(1)":
			val = 0
		case "math.Inf(-1)":
			val = 1
		case "math.NaN()":
			val = 2
		default:
			die("special: value %s", src(rs.Results[0]))
		}
		specials = append(specials, fmt.Sprintf("(%s, %s, %d)", joinS(firsts), joinS(spell), val))
	}
	pf("/-- `special`: (first bytes of the case, spellings compared ignoring case, 0:+Inf 1:-Inf 2:NaN) -/\n")
	pf("def specials : List (List Nat × List (List Nat) × Nat) := %s\n", joinS(specials))

	// ---- readFloat
	mm := assignedExpr(rd.Body, "maxMantDigits", token.DEFINE)
	mmHex := assignedExpr(rd.Body, "maxMantDigits", token.ASSIGN)
	if mm == nil || mmHex == nil {
		die("readFloat: maxMantDigits not found")
	}
	pf("def maxMantDigits : Nat := %s\ndef maxMantDigitsHex : Nat := %s\n", natOf(mm, ienv, "maxMantDigits"), natOf(mmHex, ienv, "maxMantDigits hex"))
	clampOf := func(fd *ast.FuncDecl, what string) string {
		x := mustIf(fd.Body, what+" exponent clamp", has("e <"))
		be, ok := unparen(x.Cond).(*ast.BinaryExpr)
		if !ok || be.Op != token.LSS || !isIdent(be.X, "e") {
			die("%s: exponent clamp %s", what, src(x.Cond))
		}
		return natOf(be.Y, ienv, what+" clamp")
	}
	pf("/-- `if e < clamp { e = e*10 + digit }` in readFloat and in decimal.set -/\ndef expClamp : Nat := %s\ndef expClampSet : Nat := %s\n", clampOf(rd, "readFloat"), clampOf(set, "decimal.set"))
	var hexMul []string
	ast.Inspect(rd.Body, func(n ast.Node) bool {
		if x, ok := n.(*ast.IfStmt); ok && strings.Join(strings.Fields(src(x.Cond)), "") == "base==16" {
			for _, st := range x.Body.List {
				if as, ok := st.(*ast.AssignStmt); ok && as.Tok == token.MUL_ASSIGN {
					hexMul = append(hexMul, fmt.Sprintf("(%s, %s)", leanStr(src(as.Lhs[0])), natOf(as.Rhs[0], ienv, "hex scale")))
				}
			}
		}
		return true
	})
	pf("/-- `if base == 16 { dp *= 4; ndMant *= 4 }` -/\ndef hexScale : List (String × Nat) := %s\n", joinS(hexMul))
	// decimal buffer
	bufLen := ""
	ast.Inspect(df, func(n ast.Node) bool {
		if ts, ok := n.(*ast.TypeSpec); ok && ts.Name.Name == "decimal" {
			for _, fld := range ts.Type.(*ast.StructType).Fields.List {
				if len(fld.Names) == 1 && fld.Names[0].Name == "d" {
					if at, ok := fld.Type.(*ast.ArrayType); ok && at.Len != nil {
						bufLen = natOf(at.Len, ienv, "decimal buffer")
					}
				}
			}
		}
		return true
	})
	if bufLen == "" {
		die("decimal.d array length not found")
	}
	pf("/-- `d [N]byte` of type decimal -/\ndef decimalBufLen : Nat := %s\n", bufLen)

	// ---- powtab, floatBits
	ptE, ok := varInit(af, "powtab").(*ast.CompositeLit)
	if !ok {
		die("powtab")
	}
	var pt []string
	for _, el := range ptE.Elts {
		pt = append(pt, natOf(el, ienv, "powtab"))
	}
	pf("def powtab : List Nat := %s\n", joinS(pt))
	fcodes := map[string]int{"d.dp": 0, "len(powtab)": 1, "-d.dp": 2, "d.d[0]": 3, "exp": 4}
	over := mustIf(fb.Body, "floatBits overflow exit", has("d.dp >"))
	under := mustIf(fb.Body, "floatBits underflow exit", has("d.dp <"))
	exitOf := func(x *ast.IfStmt, what string) (int, *big.Int) {
		be, ok := unparen(x.Cond).(*ast.BinaryExpr)
		if !ok || src(be.X) != "d.dp" || opN(be.Op) > 5 {
			die("floatBits: %s %s", what, src(x.Cond))
		}
		return opN(be.Op), intOf(be.Y, ienv, what)
	}
	oop, oval := exitOf(over, "overflow exit")
	uop, uval := exitOf(under, "underflow exit")
	pf("/-- the \"obvious overflow/underflow\" exits `d.dp > 310`, `d.dp < -330`: (operator code, bound) -/\n")
	pf("def overflowExit : Nat × Int := (%d, %s)\ndef underflowExit : Nat × Int := (%d, %s)\n", oop, leanInt(oval), uop, leanInt(uval))
	var loops []*ast.ForStmt
	for _, st := range fb.Body.List {
		if x, ok := st.(*ast.ForStmt); ok {
			loops = append(loops, x)
		}
	}
	if len(loops) != 2 {
		die("floatBits: %d loops", len(loops))
	}
	pf("/-- operand codes of the floatBits conditions: %s; 1000+n = literal n (a byte literal is its code) -/\ndef floatBitsCodes : Unit := ()\n", codeDoc(fcodes))
	var bigShift []string
	for i, nm := range []string{"Down", "Up"} {
		lp := loops[i]
		// rewrite the char literal '5' for the DNF encoder: handled through codes below
		condSrc := strings.Join(strings.Fields(src(lp.Cond)), " ")
		pf("/-- floatBits scaling loop %d continues: `%s` -/\n", i+1, condSrc)
		var atoms [][]atomT
		for _, conj := range dnfChar(lp.Cond, fcodes, "floatBits loop") {
			atoms = append(atoms, conj)
		}
		pf("def scale%sCond : List (List (Bool × Nat × Nat × Nat)) := %s\n", nm, leanDNF(atoms))
		inner := mustIf(lp.Body, "floatBits table bound", has("len(powtab)"))
		pf("def scale%sBigCond : List (List (Bool × Nat × Nat × Nat)) := %s\n", nm, leanDNF(dnf(inner.Cond, fcodes, "floatBits table bound")))
		as, ok := inner.Body.List[0].(*ast.AssignStmt)
		if !ok || !isIdent(as.Lhs[0], "n") {
			die("floatBits: big shift")
		}
		bigShift = append(bigShift, natOf(as.Rhs[0], ienv, "big shift"))
	}
	pf("/-- `n = 27` when the table has no entry (first loop, second loop) -/\ndef bigShift : List Nat := %s\n", joinS(bigShift))

	// ---- float64info
	ff := parseFile(repo, "benchfmt/internal/bytesconv/ftoa.go")
	fi, ok := varInit(ff, "float64info").(*ast.CompositeLit)
	if !ok || len(fi.Elts) != 3 {
		die("float64info")
	}
	pf("/-- float64info = floatInfo{mantbits, expbits, bias} -/\ndef mantbits : Nat := %s\ndef expbits : Nat := %s\ndef bias : Int := %s\n",
		natOf(fi.Elts[0], ienv, "mantbits"), natOf(fi.Elts[1], ienv, "expbits"), intOf(fi.Elts[2], ienv, "bias").String())

	// ---- float64pow10, atof64exact
	ptab, ok := varInit(af, "float64pow10").(*ast.CompositeLit)
	if !ok {
		die("float64pow10")
	}
	var p10, p10t []string
	for _, el := range ptab.Elts {
		v := mustNum(el, "float64pow10")
		p10 = append(p10, v.lean())
		p10t = append(p10t, v.text)
	}
	pf("def float64pow10 : List (Bool × Nat × Int) := %s\ndef float64pow10Text : List String := %s\n", joinS(p10), leanStrList(p10t))
	ecodes := map[string]int{"exp": 0, "f": 1, "mantissa >> float64info.mantbits": 2}
	pf("/-- operand codes of the atof64exact conditions: %s -/\ndef exactCodes : Unit := ()\n", codeDoc(ecodes))
	var esw *ast.SwitchStmt
	for _, st := range ex.Body.List {
		if x, ok := st.(*ast.SwitchStmt); ok {
			esw = x
		}
	}
	if esw == nil || len(esw.Body.List) != 3 {
		die("atof64exact: switch with 3 cases expected")
	}
	// case exp == 0 / case exp > 0 && exp <= A+B / case exp < 0 && exp >= -B
	window := func(e ast.Expr, what string) (int, int, *big.Int, string) { // lower op (vs 0), upper op, bound
		be, ok := unparen(e).(*ast.BinaryExpr)
		if !ok || be.Op != token.LAND {
			die("atof64exact: %s %s", what, src(e))
		}
		l, ok1 := unparen(be.X).(*ast.BinaryExpr)
		r, ok2 := unparen(be.Y).(*ast.BinaryExpr)
		if !ok1 || !ok2 || !isIdent(l.X, "exp") || !isIdent(r.X, "exp") || intOf(l.Y, ienv, what).Sign() != 0 {
			die("atof64exact: %s %s", what, src(e))
		}
		return opN(l.Op), opN(r.Op), intOf(r.Y, ienv, what), src(r.Y)
	}
	c0, ok := unparen(esw.Body.List[0].(*ast.CaseClause).List[0]).(*ast.BinaryExpr)
	if !ok || !isIdent(c0.X, "exp") || c0.Op != token.EQL || intOf(c0.Y, ienv, "case 0").Sign() != 0 {
		die("atof64exact: first case %s", src(esw.Body.List[0].(*ast.CaseClause).List[0]))
	}
	mulCase := esw.Body.List[1].(*ast.CaseClause)
	divCase := esw.Body.List[2].(*ast.CaseClause)
	ml, mu, mb, mtxt := window(mulCase.List[0], "multiply window")
	dl, du, db, _ := window(divCase.List[0], "divide window")
	pf("/-- `case exp > 0 && exp <= %s` (multiply) and `case exp < 0 && exp >= …` (divide): (operator against 0, operator against the bound, bound) -/\n", mtxt)
	pf("def mulWindow : Nat × Nat × Int := (%d, %d, %s)\ndef divWindow : Nat × Nat × Int := (%d, %d, %s)\n", ml, mu, leanInt(mb), dl, du, leanInt(db))
	pre := mustIf(mulCase, "atof64exact pre-scale", has("exp >"))
	pbe := unparen(pre.Cond).(*ast.BinaryExpr)
	var preIdx, preSet ast.Expr
	for _, st := range pre.Body.List {
		as := st.(*ast.AssignStmt)
		if isIdent(as.Lhs[0], "f") && as.Tok == token.MUL_ASSIGN {
			preIdx = as.Rhs[0].(*ast.IndexExpr).Index
		}
		if isIdent(as.Lhs[0], "exp") && as.Tok == token.ASSIGN {
			preSet = as.Rhs[0]
		}
	}
	pib, ok := unparen(preIdx).(*ast.BinaryExpr)
	if !ok || pib.Op != token.SUB || !isIdent(pib.X, "exp") || preSet == nil {
		die("atof64exact: pre-scale body")
	}
	pf("/-- `if exp > a { f *= float64pow10[exp-b]; exp = c }`: (operator, a, b, c) -/\n")
	pf("def preScale : Nat × Int × Int × Int := (%d, %s, %s, %s)\n", opN(pbe.Op), leanInt(intOf(pbe.Y, ienv, "pre-scale")), leanInt(intOf(pib.Y, ienv, "pre-scale")), leanInt(intOf(preSet, ienv, "pre-scale")))
	big15 := mustIf(mulCase, "atof64exact magnitude test", has("f >"))
	bb, ok := unparen(big15.Cond).(*ast.BinaryExpr)
	if !ok || bb.Op != token.LOR {
		die("atof64exact: magnitude test %s", src(big15.Cond))
	}
	b1, b2 := unparen(bb.X).(*ast.BinaryExpr), unparen(bb.Y).(*ast.BinaryExpr)
	pf("/-- `if f > 1e15 || f < -1e15 { return }`: (operator, literal) twice -/\n")
	pf("def exactMagnitude : List (Nat × (Bool × Nat × Int)) := [(%d, %s), (%d, %s)]\n", opN(b1.Op), mustNum(b1.Y, "magnitude").lean(), opN(b2.Op), mustNum(b2.Y, "magnitude").lean())
	mant := mustIf(ex.Body, "atof64exact mantissa test", has("mantissa"))
	pf("def exactMantissaCond : String := %s\n", leanStr(src(mant.Cond)))
	finalOps := func(cc *ast.CaseClause) string {
		rs := cc.Body[len(cc.Body)-1].(*ast.ReturnStmt)
		return strings.Join(strings.Fields(src(rs.Results[0])), "")
	}
	pf("def exactFormulas : List String := %s\n", leanStrList([]string{finalOps(mulCase), finalOps(divCase)}))

	// ---- leftcheats
	lcE, ok := varInit(df, "leftcheats").(*ast.CompositeLit)
	if !ok {
		die("leftcheats")
	}
	var lc []string
	for _, el := range lcE.Elts {
		cl, ok := el.(*ast.CompositeLit)
		if !ok || len(cl.Elts) != 2 {
			die("leftcheats entry %s", src(el))
		}
		cut, ok := strLit(cl.Elts[1])
		if !ok {
			die("leftcheats entry %s", src(el))
		}
		lc = append(lc, fmt.Sprintf("(%s, %s)", natOf(cl.Elts[0], ienv, "leftcheats delta"), bytesOf(cut)))
	}
	pf("/-- `leftcheats[k]` = (delta, cutoff digits) -/\ndef leftcheats : List (Nat × List Nat) := %s\n", joinS(lc))

	// ---- atoi.go
	acodes := map[string]int{"sLen": 0, "intSize": 1, "n": 2, "cutoff": 3, "n1": 4, "maxVal": 5, "d": 6, "byte(base)": 7, "ch": 8, "un": 9, "uint64(cutoff)": 10}
	pf("/-- operand codes of the atoi.go conditions: %s -/\ndef atoiCodes : Unit := ()\n", codeDoc(acodes))
	fast := mustIf(at.Body, "Atoi fast path", has("sLen"))
	emitCond("atoiFastCond", "Atoi takes the fast path (the disjunct whose intSize test holds applies)", fast.Cond, acodes)
	emitCond("atoiDigitCond", "fast path: not a digit (after `ch -= '0'`)", mustIf(fast.Body, "Atoi digit", has("ch >")).Cond, acodes)
	var cut10 ast.Expr
	ast.Inspect(pu.Body, func(n ast.Node) bool {
		if cc, ok := n.(*ast.CaseClause); ok && len(cc.List) == 1 && len(cc.Body) == 1 {
			if v, ok := numLit(cc.List[0]); ok && v.text == "10" {
				if as, ok := cc.Body[0].(*ast.AssignStmt); ok && isIdent(as.Lhs[0], "cutoff") {
					cut10 = as.Rhs[0]
				}
			}
		}
		return true
	})
	if cut10 == nil {
		die("ParseUint: base-10 cutoff not found")
	}
	pf("/-- ParseUint base 10: `cutoff = %s` -/\ndef uintCutoff10 : Nat := %s\n", src(cut10), natOf(cut10, ienv, "cutoff"))
	mv := assignedExpr(pu.Body, "maxVal", token.DEFINE)
	if mv == nil {
		die("ParseUint: maxVal")
	}
	env64 := map[string]*big.Int{"bitSize": big.NewInt(64)}
	pf("/-- `maxVal := %s` at bitSize 64 (uint64 arithmetic) -/\ndef uintMaxVal64 : Nat := %s\n", src(mv), natOf(mv, env64, "maxVal"))
	emitCond("uintDigitCond", "ParseUint: digit not below the base", mustIf(pu.Body, "ParseUint digit", has("byte(base)")).Cond, acodes)
	emitCond("uintMulOverflowCond", "ParseUint: n*base overflows", mustIf(pu.Body, "ParseUint cutoff", has("cutoff")).Cond, acodes)
	emitCond("uintAddOverflowCond", "ParseUint: n+d overflows", mustIf(pu.Body, "ParseUint add", has("n1 <")).Cond, acodes)
	icut := assignedExpr(pi.Body, "cutoff", token.DEFINE)
	if icut == nil {
		die("ParseInt: cutoff")
	}
	pf("/-- ParseInt: `cutoff := %s` at bitSize 64 -/\ndef intCutoff64 : Nat := %s\n", src(icut), natOf(icut, env64, "ParseInt cutoff"))
	var icond []string
	ast.Inspect(pi.Body, func(n ast.Node) bool {
		if x, ok := n.(*ast.IfStmt); ok && strings.Contains(src(x.Cond), "cutoff") {
			icond = append(icond, strings.Join(strings.Fields(src(x.Cond)), " "))
		}
		return true
	})
	pf("def intRangeConds : List String := %s\n", leanStrList(icond))

	// ---- reader.go atof
	rcodes := map[string]int{"digit": 0, "val": 1, "guard": 2}
	g := mustIf(ratof.Body, "reader atof guard", has("val >"))
	gb, ok := unparen(g.Cond).(*ast.BinaryExpr)
	if !ok || !isIdent(gb.X, "val") {
		die("reader atof: guard %s", src(g.Cond))
	}
	pf("/-- reader.go atof: `if %s { goto fail }`; operand codes %s -/\n", src(g.Cond), codeDoc(rcodes))
	pf("def atofGuard : Int := %s\ndef atofGuardCond : List (List (Bool × Nat × Nat × Nat)) := [[(false, 1, %d, 2)]]\n", intOf(gb.Y, ienv, "atof guard").String(), opN(gb.Op))
	emitCond("atofDigitCond", "reader.go atof: not a digit", mustIf(ratof.Body, "reader atof digit", has("digit")).Cond, rcodes)
	var step string
	ast.Inspect(ratof.Body, func(n ast.Node) bool {
		if as, ok := n.(*ast.AssignStmt); ok && len(as.Lhs) == 1 && isIdent(as.Lhs[0], "val") && as.Tok == token.ASSIGN {
			step = strings.Join(strings.Fields(src(as.Rhs[0])), "")
		}
		return true
	})
	pf("def atofStep : String := %s\n", leanStr(step))
	footer("NumFacts", sp, rd, set, fb, ex, a64, pu, pi, at, ratof)
}

// dnfChar is dnf with byte literals ('5') accepted as integer literals.
func dnfChar(e ast.Expr, codes map[string]int, what string) [][]atomT {
	c2 := map[string]int{}
	for k, v := range codes {
		c2[k] = v
	}
	ast.Inspect(e, func(n ast.Node) bool {
		if bl, ok := n.(*ast.BasicLit); ok && bl.Kind == token.CHAR {
			ch, _, _, err := strconv.UnquoteChar(strings.Trim(bl.Value, "'"), 0)
			if err == nil {
				c2[bl.Value] = 1000 + int(ch)
			}
		}
		return true
	})
	return dnf(e, c2, what)
}

// ---------------------------------------------------------------- C02: benchfmt/reader.go, files.go

func readFacts(repo string) {
	f := parseFile(repo, "benchfmt/reader.go")
	ff := parseFile(repo, "benchfmt/files.go")
	af := parseFile(repo, "benchfmt/internal/bytesconv/atoi.go")
	reset := methodDecl(f, "Reader", "Reset")
	scan := methodDecl(f, "Reader", "Scan")
	kv := funcDecl(f, "parseKeyValueLine")
	pb := methodDecl(f, "Reader", "parseBenchmarkLine")
	ul := methodDecl(f, "Reader", "isUnitLine")
	pu := methodDecl(f, "Reader", "parseUnitLine")
	sf := funcDecl(f, "splitField")
	se := methodDecl(f, "SyntaxError", "Error")
	fi := methodDecl(ff, "Files", "init")
	header("ReadFacts", "benchfmt/reader.go", "benchfmt/files.go", "benchfmt/internal/bytesconv/atoi.go")

	// ---- scanner limit
	bufCall := false
	ast.Inspect(f, func(n ast.Node) bool {
		if fun, _, ok := callOfNode(n); ok && strings.HasSuffix(fun, ".Buffer") {
			bufCall = true
		}
		return true
	})
	newScanner := ""
	ast.Inspect(reset.Body, func(n ast.Node) bool {
		if as, ok := n.(*ast.AssignStmt); ok && len(as.Lhs) == 1 && src(as.Lhs[0]) == "r.s" {
			newScanner = src(as.Rhs[0])
		}
		return true
	})
	pf("/-- Reset: `r.s = %s`; no call of Scanner.Buffer ⇒ the token limit is bufio.MaxScanTokenSize (value and error text taken from the Go standard library the extractor is built with) -/\n", newScanner)
	pf("def scannerCtor : String := %s\ndef scannerBufferCalled : Bool := %v\ndef maxScanTokenSize : Nat := %d\ndef errTooLong : List Nat := %s\n", leanStr(newScanner), bufCall, bufio.MaxScanTokenSize, bytesOf(bufio.ErrTooLong.Error()))
	var ioErrFmt string
	ast.Inspect(scan.Body, func(n ast.Node) bool {
		if fun, args, ok := callOfNode(n); ok && fun == "fmt.Errorf" {
			ioErrFmt, _ = strLit(args[0])
		}
		return true
	})
	pf("/-- Scan: `r.err = fmt.Errorf(%s, fileName, line, err)`; elements (0,i,0)=%%s/%%v/%%w of argument i, (1,i,0)=%%d, (2,b,0)=byte b -/\n", strconv.Quote(ioErrFmt))
	pf("def ioErrTokens : List (Nat × Nat × Nat) := %s\n", sprintfTokens(ioErrFmt, "Scan error"))
	var seFmt string
	ast.Inspect(se.Body, func(n ast.Node) bool {
		if fun, args, ok := callOfNode(n); ok && fun == "fmt.Sprintf" {
			seFmt, _ = strLit(args[0])
		}
		return true
	})
	pf("def syntaxErrorFormat : String := %s\ndef syntaxErrorTokens : List (Nat × Nat × Nat) := %s\n", leanStr(seFmt), sprintfTokens(seFmt, "SyntaxError.Error"))
	var unknown string
	ast.Inspect(reset.Body, func(n ast.Node) bool {
		if x, ok := n.(*ast.IfStmt); ok && strings.Contains(src(x.Cond), "fileName") {
			if as, ok := x.Body.List[0].(*ast.AssignStmt); ok {
				unknown, _ = strLit(as.Rhs[0])
			}
		}
		return true
	})
	pf("/-- Reset: the file name used when none is given -/\ndef unknownFileName : List Nat := %s\n", bytesOf(unknown))

	// ---- prefixes
	prefix := func(name string) string {
		c, ok := varInit(f, name).(*ast.CallExpr)
		if !ok || len(c.Args) != 1 {
			die("%s is not []byte(\"…\")", name)
		}
		v, ok := strLit(c.Args[0])
		if !ok {
			die("%s is not []byte(\"…\")", name)
		}
		return v
	}
	bp, up := prefix("benchmarkPrefix"), prefix("unitPrefix")
	pf("def benchmarkPrefix : List Nat := %s\ndef unitPrefix : List Nat := %s\n", bytesOf(bp), bytesOf(up))
	skipLit := ""
	ast.Inspect(pb.Body, func(n ast.Node) bool {
		if sl, ok := n.(*ast.SliceExpr); ok && isIdent(sl.X, "line") && sl.Low != nil {
			if fun, args, ok := callOf(sl.Low); ok && fun == "len" {
				skipLit, _ = strLit(args[0])
			}
		}
		return true
	})
	pf("/-- parseBenchmarkLine: `line = line[len(%s):]` -/\ndef benchmarkSkip : Nat := %d\n", strconv.Quote(skipLit), len(skipLit))
	unitCmp := ""
	ast.Inspect(ul.Body, func(n ast.Node) bool {
		if fun, args, ok := callOfNode(n); ok && fun == "bytes.Equal" && len(args) == 2 {
			unitCmp = src(args[1])
		}
		return true
	})
	pf("/-- isUnitLine: the first field is compared with -/\ndef unitLineComparesWith : String := %s\n", leanStr(unitCmp))

	// ---- isSpace mask
	mask := intOf(varInit(f, "isSpace"), nil, "isSpace")
	var spaces []string
	for i := 0; i < 64; i++ {
		if mask.Bit(i) == 1 {
			spaces = append(spaces, strconv.Itoa(i))
		}
	}
	pf("/-- `const isSpace uint64 = %s` -/\ndef isSpaceMask : Nat := %s\ndef isSpaceBytes : List Nat := %s\n", src(varInit(f, "isSpace")), mask.String(), joinS(spaces))
	var maskTests []string
	ast.Inspect(sf.Body, func(n ast.Node) bool {
		if x, ok := n.(*ast.IfStmt); ok && strings.Contains(src(x.Cond), "isSpace") {
			maskTests = append(maskTests, strings.Join(strings.Fields(src(x.Cond)), ""))
		}
		return true
	})
	pf("def isSpaceTests : List String := %s\n", leanStrList(maskTests))

	// ---- parseKeyValueLine
	var kvConds []string
	ast.Inspect(kv.Body, func(n ast.Node) bool {
		if x, ok := n.(*ast.IfStmt); ok {
			kvConds = append(kvConds, strings.Join(strings.Fields(src(x.Cond)), " "))
		}
		return true
	})
	pf("/-- the `if` conditions of parseKeyValueLine, in source order -/\ndef keyValueConds : List String := %s\n", leanStrList(kvConds))
	var blanks []string
	colon := -1
	ast.Inspect(kv.Body, func(n ast.Node) bool {
		switch x := n.(type) {
		case *ast.ForStmt:
			if x.Cond != nil && strings.Contains(src(x.Cond), "val[0]") {
				ast.Inspect(x.Cond, func(m ast.Node) bool {
					if bl, ok := m.(*ast.BasicLit); ok && bl.Kind == token.CHAR {
						blanks = append(blanks, intOf(bl, nil, "blank").String())
					}
					return true
				})
			}
		case *ast.BinaryExpr:
			if x.Op == token.EQL && isIdent(x.X, "r") {
				if bl, ok := x.Y.(*ast.BasicLit); ok && bl.Kind == token.CHAR {
					colon = int(intOf(bl, nil, "colon").Int64())
				}
			}
		}
		return true
	})
	pf("/-- bytes that separate `key:` from the value; the rune that ends the key -/\ndef keyValueBlanks : List Nat := %s\ndef keyValueSep : Nat := %d\n", joinS(blanks), colon)

	// ---- messages
	var msgs, msgsB []string
	collect := func(fd *ast.FuncDecl) {
		ast.Inspect(fd.Body, func(n ast.Node) bool {
			fun, args, ok := callOfNode(n)
			if !ok || fun != "r.newSyntaxError" || len(args) != 1 {
				return true
			}
			a := unparen(args[0])
			if v, ok := strLit(a); ok {
				msgs = append(msgs, leanStr(v))
				msgsB = append(msgsB, bytesOf(v))
			} else if be, ok := a.(*ast.BinaryExpr); ok && be.Op == token.ADD {
				if v, ok := strLit(be.X); ok {
					msgs = append(msgs, leanStr(v+"+"))
					msgsB = append(msgsB, bytesOf(v))
				}
			} else if f2, a2, ok := callOf(a); ok && f2 == "fmt.Sprintf" {
				v, _ := strLit(a2[0])
				msgs = append(msgs, leanStr(v))
				msgsB = append(msgsB, bytesOf(v))
			}
			return true
		})
	}
	collect(pb)
	collect(pu)
	pf("/-- messages of r.newSyntaxError in parseBenchmarkLine and parseUnitLine, source order (`+`: a prefix of err.Err.Error()) -/\n")
	pf("def messagesS : List String := %s\ndef messages : List (List Nat) := %s\n", joinS(msgs), joinS(msgsB))
	errText := func(name string) string {
		c, ok := varInit(af, name).(*ast.CallExpr)
		if !ok || src(c.Fun) != "errors.New" {
			die("%s is not errors.New(…)", name)
		}
		v, _ := strLit(c.Args[0])
		return v
	}
	pf("/-- bytesconv.ErrSyntax / ErrRange texts -/\ndef errSyntax : List Nat := %s\ndef errRange : List Nat := %s\n", bytesOf(errText("ErrSyntax")), bytesOf(errText("ErrRange")))
	metaFmt := ""
	ast.Inspect(pu.Body, func(n ast.Node) bool {
		if fun, args, ok := callOfNode(n); ok && fun == "fmt.Sprintf" {
			metaFmt, _ = strLit(args[0])
		}
		return true
	})
	pf("def metadataConflictTokens : List (Nat × Nat × Nat) := %s\n", sprintfTokens(metaFmt, "metadata conflict"))
	eqByte := -1
	ast.Inspect(pu.Body, func(n ast.Node) bool {
		if fun, args, ok := callOfNode(n); ok && fun == "bytes.IndexByte" && len(args) == 2 {
			eqByte = int(intOf(args[1], nil, "IndexByte").Int64())
		}
		return true
	})
	pf("/-- parseUnitLine: `bytes.IndexByte(f, c)` -/\ndef unitFieldSep : Nat := %d\n", eqByte)

	// ---- files.go
	labelFmt, labelSep, stdin := "", "", ""
	ast.Inspect(fi.Body, func(n ast.Node) bool {
		if fun, args, ok := callOfNode(n); ok {
			if fun == "fmt.Sprintf" {
				labelFmt, _ = strLit(args[0])
			}
			if fun == "strings.Index" && len(args) == 2 {
				labelSep, _ = strLit(args[1])
			}
		}
		if be, ok := n.(*ast.BinaryExpr); ok && be.Op == token.EQL && isIdent(be.X, "path") {
			if v, ok := strLit(be.Y); ok {
				stdin = v
			}
		}
		return true
	})
	if labelFmt == "" || labelSep == "" || stdin == "" {
		die("Files.init: label format / separator / stdin name not found")
	}
	pf("/-- Files.init: disambiguation `fmt.Sprintf(%s, path, n)`, label separator, stdin name -/\n", strconv.Quote(labelFmt))
	pf("def fileLabelTokens : List (Nat × Nat × Nat) := %s\ndef fileLabelSep : List Nat := %s\ndef stdinName : List Nat := %s\n", sprintfTokens(labelFmt, "file label"), bytesOf(labelSep), bytesOf(stdin))
	footer("ReadFacts", reset, scan, kv, pb, ul, pu, sf, se, fi)
}

// ---------------------------------------------------------------- C06/C07/C09: benchproc parse + special keys + orders

// runeSetOf lists the rune literals compared with `ch`/`r` by == in an expression.
func runeSetOf(e ast.Node) []string {
	var out []string
	ast.Inspect(e, func(n ast.Node) bool {
		if be, ok := n.(*ast.BinaryExpr); ok && be.Op == token.EQL {
			if bl, ok := be.Y.(*ast.BasicLit); ok && bl.Kind == token.CHAR {
				out = append(out, intOf(bl, nil, "rune").String())
			}
		}
		return true
	})
	return out
}

// strCompares lists string literals compared by == with an expression whose source is lhs.
func strCompares(n ast.Node, lhs string) []string {
	var out []string
	seen := map[string]bool{}
	ast.Inspect(n, func(m ast.Node) bool {
		if be, ok := m.(*ast.BinaryExpr); ok && be.Op == token.EQL && src(be.X) == lhs {
			if v, ok := strLit(be.Y); ok && !seen[v] {
				seen[v] = true
				out = append(out, v)
			}
		}
		if sw, ok := m.(*ast.SwitchStmt); ok && sw.Tag != nil && src(sw.Tag) == lhs {
			for _, c := range sw.Body.List {
				for _, l := range c.(*ast.CaseClause).List {
					if v, ok := strLit(l); ok && !seen[v] {
						seen[v] = true
						out = append(out, v)
					}
				}
			}
		}
		return true
	})
	return out
}

func parseFacts(repo string) {
	tf := parseFile(repo, "benchproc/internal/parse/tok.go")
	pp := parseFile(repo, "benchproc/internal/parse/projection.go")
	bf := parseFile(repo, "benchproc/filter.go")
	bp := parseFile(repo, "benchproc/projection.go")
	be := parseFile(repo, "benchproc/extract.go")
	bs := parseFile(repo, "benchproc/sort.go")
	isOp := funcDecl(tf, "isOp")
	isStartOp := funcDecl(tf, "isStartOp")
	isSpace := funcDecl(tf, "isSpace")
	next := methodDecl(tf, "tokenizer", "next")
	qw := methodDecl(tf, "tokenizer", "quotedWord")
	bw := methodDecl(tf, "tokenizer", "bareWord")
	re := methodDecl(tf, "tokenizer", "regexp")
	rpu := funcDecl(tf, "regexpParseUntil")
	quote := funcDecl(tf, "quoteWord")
	lessFn := funcDecl(bs, "less")
	newEx := funcDecl(be, "newExtractor")
	header("ParseFacts", "benchproc/internal/parse/tok.go", "benchproc/internal/parse/projection.go", "benchproc/filter.go", "benchproc/projection.go", "benchproc/extract.go", "benchproc/sort.go")

	// ---- tok.go
	pf("/-- isOp: the operator runes; isStartOp: isOp plus these -/\ndef opRunes : List Nat := %s\n", joinS(runeSetOf(isOp.Body)))
	callsIsOp := strings.Contains(src(isStartOp.Body), "isOp(ch)")
	pf("def startOpExtra : List Nat := %s\ndef startOpIncludesOp : Bool := %v\n", joinS(runeSetOf(isStartOp.Body)), callsIsOp)
	pf("/-- isSpace: byte accepted without decoding -/\ndef spaceFastByte : List Nat := %s\n", joinS(runeSetOf(isSpace.Body)))
	// token kinds and delimiters in next/quotedWord/bareWord/regexp
	var kinds []string
	var kindsS []string
	for _, fd := range []*ast.FuncDecl{next, qw, bw, re} {
		ast.Inspect(fd.Body, func(n ast.Node) bool {
			if fun, args, ok := callOfNode(n); ok && fun == "t.tok" && len(args) == 3 {
				if bl, ok := args[0].(*ast.BasicLit); ok {
					kinds = append(kinds, intOf(bl, nil, "kind").String())
					kindsS = append(kindsS, fd.Name.Name+":"+bl.Value)
				}
			}
			return true
		})
	}
	pf("/-- literal token kinds passed to t.tok, by function (%s) -/\ndef tokenKinds : List Nat := %s\n", strings.Join(kindsS, " "), joinS(kinds))
	pf("/-- next: the bytes that start a regexp / a quoted word -/\ndef nextDelims : List Nat := %s\n", joinS(runeSetOf(next.Body)))
	var qDelims []string
	ast.Inspect(qw.Body, func(n ast.Node) bool {
		if bl, ok := n.(*ast.BasicLit); ok && bl.Kind == token.CHAR {
			qDelims = append(qDelims, intOf(bl, nil, "quote").String())
		}
		return true
	})
	pf("/-- quotedWord: character literals in source order (end quote, escape, kind) -/\ndef quotedWordChars : List Nat := %s\n", joinS(qDelims))
	kw := strCompares(bw.Body, "word")
	pf("/-- bareWord: the keywords -/\ndef keywordsS : List String := %s\ndef keywords : List (List Nat) := %s\n", leanStrList(kw), bytesList(kw))
	reDelim := ""
	ast.Inspect(re.Body, func(n ast.Node) bool {
		if fun, args, ok := callOfNode(n); ok && fun == "regexpParseUntil" && len(args) == 2 {
			reDelim, _ = strLit(args[1])
		}
		return true
	})
	pf("/-- regexp: the closing delimiter; regexpParseUntil: the bracket bytes of its switch -/\ndef regexpDelim : List Nat := %s\n", bytesOf(reDelim))
	var brackets []string
	ast.Inspect(rpu.Body, func(n ast.Node) bool {
		if cc, ok := n.(*ast.CaseClause); ok {
			for _, l := range cc.List {
				if bl, ok := l.(*ast.BasicLit); ok && bl.Kind == token.CHAR {
					brackets = append(brackets, intOf(bl, nil, "bracket").String())
				}
			}
		}
		return true
	})
	pf("def regexpBrackets : List Nat := %s\n", joinS(brackets))
	var qRunes []string
	ast.Inspect(quote.Body, func(n ast.Node) bool {
		if cc, ok := n.(*ast.CaseClause); ok {
			for _, l := range cc.List {
				qRunes = append(qRunes, intOf(l, nil, "quoteWord").String())
			}
		}
		return true
	})
	pf("/-- quoteWord: runes that force quoting (besides operators, spaces, leading - or *) -/\ndef quoteWordRunes : List Nat := %s\n", joinS(qRunes))
	var tokMsgs []string
	for _, fd := range []*ast.FuncDecl{qw, re} {
		ast.Inspect(fd.Body, func(n ast.Node) bool {
			if fun, args, ok := callOfNode(n); ok && fun == "t.error" && len(args) == 1 {
				if v, ok := strLit(args[0]); ok {
					tokMsgs = append(tokMsgs, v)
				}
			}
			return true
		})
	}
	pf("def tokenizerMessages : List String := %s\n", leanStrList(tokMsgs))

	// ---- special keys and orders
	fk := strCompares(bf, "q.Key")
	pf("/-- benchproc/filter.go: keys treated specially (`q.Key == …`) -/\ndef filterSpecialKeysS : List String := %s\ndef filterSpecialKeys : List (List Nat) := %s\n", leanStrList(fk), bytesList(fk))
	mk := methodDecl(bp, "ProjectionParser", "makeProjection")
	pk := strCompares(mk.Body, "proj.Key")
	pf("/-- benchproc/projection.go makeProjection: `switch proj.Key` cases and `proj.Key == …` -/\ndef projSpecialKeysS : List String := %s\ndef projSpecialKeys : List (List Nat) := %s\n", leanStrList(pk), bytesList(pk))
	po := strCompares(mk.Body, "proj.Order")
	pf("def projOrdersS : List String := %s\ndef projOrders : List (List Nat) := %s\n", leanStrList(po), bytesList(po))
	var defOrder, fixedOrder string
	ast.Inspect(pp, func(n ast.Node) bool {
		if as, ok := n.(*ast.AssignStmt); ok && len(as.Lhs) == 1 && src(as.Lhs[0]) == "f.Order" {
			if v, ok := strLit(as.Rhs[0]); ok {
				if defOrder == "" {
					defOrder = v
				} else {
					fixedOrder = v
				}
			}
		}
		return true
	})
	pf("/-- parse/projection.go: `f.Order = …` default and for an explicit value list -/\ndef defaultOrder : List Nat := %s\ndef fixedOrder : List Nat := %s\n", bytesOf(defOrder), bytesOf(fixedOrder))
	bo, ok := varInit(bs, "builtinOrders").(*ast.CompositeLit)
	if !ok {
		die("builtinOrders")
	}
	var orders []string
	var numFn *ast.FuncLit
	for _, el := range bo.Elts {
		kvp := el.(*ast.KeyValueExpr)
		k, _ := strLit(kvp.Key)
		orders = append(orders, k)
		if k == "num" {
			numFn, _ = kvp.Value.(*ast.FuncLit)
		}
	}
	pf("def builtinOrdersS : List String := %s\ndef builtinOrders : List (List Nat) := %s\n", leanStrList(orders), bytesList(orders))
	ek := strCompares(newEx.Body, "key")
	pf("/-- extract.go newExtractor: special keys; the sub-name prefix -/\ndef extractorKeysS : List String := %s\ndef extractorKeys : List (List Nat) := %s\n", leanStrList(ek), bytesList(ek))

	// ---- "num" comparator: conditions and results in source order
	if numFn == nil {
		die("builtinOrders[\"num\"] is not a function literal")
	}
	var conds, rets []string
	ast.Inspect(numFn.Body, func(n ast.Node) bool {
		switch x := n.(type) {
		case *ast.IfStmt:
			conds = append(conds, strings.Join(strings.Fields(src(x.Cond)), " "))
		case *ast.ReturnStmt:
			if len(x.Results) == 1 {
				rets = append(rets, intOf(x.Results[0], nil, "num result").String())
			}
		}
		return true
	})
	pf("/-- builtinOrders[\"num\"]: `if` conditions and returned values, in source order -/\ndef numCondsS : List String := %s\ndef numResults : List Int := %s\n", leanStrList(conds), joinS(rets))
	// ---- less
	var lconds []string
	lret := ""
	ast.Inspect(lessFn.Body, func(n ast.Node) bool {
		switch x := n.(type) {
		case *ast.IfStmt:
			lconds = append(lconds, strings.Join(strings.Fields(src(x.Cond)), " "))
		case *ast.ReturnStmt:
			lret += strings.Join(strings.Fields(src(x.Results[0])), " ") + ";"
		}
		return true
	})
	pf("def lessCondsS : List String := %s\ndef lessReturnsS : String := %s\n", leanStrList(lconds), leanStr(lret))
	footer("ParseFacts", isOp, isStartOp, isSpace, next, qw, bw, re, rpu, quote, mk, bo, lessFn, newEx)
}

// ---------------------------------------------------------------- C16: texttab/table.go + benchtab/table.go

func tabFacts(repo string) {
	bt := parseFile(repo, "cmd/benchstat/internal/benchtab/table.go")
	tt := parseFile(repo, "cmd/benchstat/internal/texttab/table.go")
	toText := methodDecl(bt, "Table", "ToText")
	toCSV := methodDecl(bt, "Table", "ToCSV")
	sup := funcDecl(bt, "superscript")
	span := methodDecl(tt, "Table", "Span")
	lpad := methodDecl(tt, "align", "lpad")
	header("TabFacts", "cmd/benchstat/internal/benchtab/table.go", "cmd/benchstat/internal/texttab/table.go")

	groupConsts := func(fd *ast.FuncDecl, what string) (string, string, string) {
		env := map[string]*big.Rat{}
		localConsts(fd.Body, env, what)
		get := func(n string) string {
			v, ok := env[n]
			if !ok || !v.IsInt() {
				die("%s: constant %s not found", what, n)
			}
			return v.Num().String()
		}
		return get("labelCols"), get("centerCols"), get("deltaCols")
	}
	l, c, d := groupConsts(toText, "ToText")
	pf("/-- ToText: labelCols, centerCols, deltaCols; ToCSV likewise -/\ndef textCols : Nat × Nat × Nat := (%s, %s, %s)\n", l, c, d)
	l, c, d = groupConsts(toCSV, "ToCSV")
	pf("def csvCols : Nat × Nat × Nat := (%s, %s, %s)\n", l, c, d)
	startColText := func(fd *ast.FuncDecl) string {
		fl := funcLit(fd.Body, "startCol")
		return strings.Join(strings.Fields(src(fl.Body)), " ")
	}
	pf("def textStartColBody : String := %s\ndef csvStartColBody : String := %s\n", leanStr(startColText(toText)), leanStr(startColText(toCSV)))

	// calls of o.Span / o.Cell in ToText with their literal arguments, in source order
	alignCode := map[string]int{"texttab.Left": 0, "texttab.Center": 1, "texttab.Right": 2}
	var calls []string
	var margins []string
	ast.Inspect(toText.Body, func(n ast.Node) bool {
		ce, ok := n.(*ast.CallExpr)
		if !ok {
			return true
		}
		sel, ok := ce.Fun.(*ast.SelectorExpr)
		if !ok || (sel.Sel.Name != "Span" && sel.Sel.Name != "Cell") {
			return true
		}
		// the receiver chain must start at o
		base := src(sel.X)
		if base != "o" && !strings.HasPrefix(base, "o.") {
			return true
		}
		args := ce.Args
		spanN := "1"
		if sel.Sel.Name == "Span" {
			spanN = strings.Join(strings.Fields(src(args[0])), "")
			args = args[1:]
		}
		val := "<expr>"
		if v, ok := strLit(args[0]); ok {
			val = v
		}
		al, mg := -1, "<none>"
		for _, a := range args[1:] {
			if c, ok := alignCode[src(a)]; ok {
				al = c
			} else if fun, margs, ok := callOf(a); ok && fun == "texttab.LeftMargin" {
				mg, _ = strLit(margs[0])
				margins = append(margins, bytesOf(mg))
			}
		}
		calls = append(calls, fmt.Sprintf("(%s, %s, %d, %s)", leanStr(spanN), leanStr(val), al, leanStr(mg)))
		return true
	})
	pf("/-- ToText: every o.Span / o.Cell call in source order: (span, literal value or <expr>, alignment 0:Left 1:Center 2:Right -1:default, left margin or <none>) -/\n")
	pf("def textCalls : List (String × String × Int × String) := %s\n", joinS(calls))
	pf("/-- the LeftMargin strings in source order (header span, right edge, unit span, vs base, right edge, range) -/\ndef margins : List (List Nat) := %s\n", joinS(margins))
	var vsBase string
	ast.Inspect(toText.Body, func(n ast.Node) bool {
		if fun, args, ok := callOfNode(n); ok && fun == "o.Span" && len(args) >= 2 && src(args[0]) == "deltaCols" {
			vsBase, _ = strLit(args[1])
		}
		return true
	})
	pf("def vsBase : List Nat := %s\n", bytesOf(vsBase))
	shrinkLoop := ""
	ast.Inspect(toText.Body, func(n ast.Node) bool {
		if fs, ok := n.(*ast.ForStmt); ok && strings.Contains(src(fs.Body), "SetShrink") {
			shrinkLoop = strings.Join(strings.Fields(src(fs.Init)+"; "+src(fs.Cond)+"; "+src(fs.Post)+" { "+src(fs.Body.List[0])+" }"), " ")
		}
		return true
	})
	pf("def shrinkLoop : String := %s\n", leanStr(shrinkLoop))
	var fmts []string
	ast.Inspect(toText.Body, func(n ast.Node) bool {
		if fun, args, ok := callOfNode(n); ok && (fun == "fmt.Fprintf" || fun == "fmt.Sprintf") {
			for _, a := range args {
				if v, ok := strLit(a); ok && strings.Contains(v, "%") {
					fmts = append(fmts, v)
				}
			}
		}
		return true
	})
	pf("/-- ToText formats: the summary ratio and the footnote line -/\ndef textFormats : List String := %s\n", leanStrList(fmts))
	for _, v := range fmts {
		if strings.HasPrefix(v, "%s") {
			pf("def footnoteTokens : List (Nat × Nat × Nat) := %s\n", sprintfTokens(v, "footnote"))
		}
	}
	joinSep := ""
	ast.Inspect(toText.Body, func(n ast.Node) bool {
		if fun, args, ok := callOfNode(n); ok && fun == "strings.Join" && len(args) == 2 {
			joinSep, _ = strLit(args[1])
		}
		return true
	})
	pf("def footnoteJoin : List Nat := %s\n", bytesOf(joinSep))

	// superscript
	sdE, ok := varInit(bt, "superDigits").(*ast.CallExpr)
	if !ok {
		die("superDigits")
	}
	sd, _ := strLit(sdE.Args[0])
	var digs []string
	for _, r := range sd {
		digs = append(digs, bytesOf(string(r)))
	}
	pf("/-- superDigits, one entry per rune (UTF-8 bytes) -/\ndef superDigits : List (List Nat) := %s\n", joinS(digs))
	bufN, base := "", []string{}
	ast.Inspect(sup.Body, func(n ast.Node) bool {
		switch x := n.(type) {
		case *ast.ArrayType:
			if x.Len != nil {
				bufN = natOf(x.Len, nil, "superscript buffer")
			}
		case *ast.BinaryExpr:
			if x.Op == token.REM && isIdent(x.X, "i") {
				base = append(base, natOf(x.Y, nil, "superscript base"))
			}
		case *ast.AssignStmt:
			if x.Tok == token.QUO_ASSIGN && isIdent(x.Lhs[0], "i") {
				base = append(base, natOf(x.Rhs[0], nil, "superscript base"))
			}
		}
		return true
	})
	pf("def superBuf : Nat := %s\ndef superBase : List Nat := %s\n", bufN, joinS(base))

	// CSV
	var csvNameBase, csvLits []string
	csvBuf := ""
	csvFmt := ""
	ast.Inspect(toCSV.Body, func(n ast.Node) bool {
		switch x := n.(type) {
		case *ast.BinaryExpr:
			if x.Op == token.REM && isIdent(x.X, "x") {
				csvNameBase = append(csvNameBase, natOf(x.Y, nil, "colName base"))
			}
			if x.Op == token.ADD {
				if bl, ok := x.X.(*ast.BasicLit); ok && bl.Kind == token.CHAR {
					csvNameBase = append(csvNameBase, intOf(bl, nil, "colName letter").String())
				}
			}
		case *ast.AssignStmt:
			if x.Tok == token.QUO_ASSIGN && isIdent(x.Lhs[0], "x") {
				csvNameBase = append(csvNameBase, natOf(x.Rhs[0], nil, "colName base"))
			}
			if len(x.Rhs) == 1 {
				if bl, ok := x.Rhs[0].(*ast.BasicLit); ok && bl.Kind == token.CHAR {
					csvNameBase = append(csvNameBase, intOf(bl, nil, "colName letter").String())
				}
			}
		case *ast.CallExpr:
			if src(x.Fun) == "make" && len(x.Args) == 2 && src(x.Args[0]) == "[]byte" {
				csvBuf = natOf(x.Args[1], nil, "colName buffer")
			}
			if src(x.Fun) == "fmt.Fprintf" {
				csvFmt, _ = strLit(x.Args[1])
			}
			if src(x.Fun) == "append" {
				for _, a := range x.Args[1:] {
					if v, ok := strLit(a); ok {
						csvLits = append(csvLits, v)
					}
				}
			}
		}
		return true
	})
	pf("/-- ToCSV cell reference: [letter 'A', x %% b, x /= b, letter for the empty name], buffer; warning line format -/\n")
	pf("def csvNameParts : List Nat := %s\ndef csvNameBuf : Nat := %s\ndef csvWarnTokens : List (Nat × Nat × Nat) := %s\n", joinS(csvNameBase), csvBuf, sprintfTokens(csvFmt, "csv warning"))
	pf("/-- ToCSV: literal cells appended to rows, in source order -/\ndef csvLiteralsS : List String := %s\ndef csvLiterals : List (List Nat) := %s\n", leanStrList(csvLits), bytesList(csvLits))

	// texttab
	defMargin := ""
	emptyMargin := ""
	ast.Inspect(span.Body, func(n ast.Node) bool {
		if as, ok := n.(*ast.AssignStmt); ok && len(as.Lhs) == 1 && isIdent(as.Lhs[0], "lMargin") {
			if v, ok := strLit(as.Rhs[0]); ok {
				if as.Tok == token.DEFINE {
					defMargin = v
				} else {
					emptyMargin = v
				}
			}
		}
		return true
	})
	cond := mustIf(span.Body, "Span default margin", func(c string) bool { return strings.Contains(c, "curCol") })
	pf("/-- texttab Span: default left margin, and the one used when `%s` -/\ndef defaultMargin : List Nat := %s\ndef noMargin : List Nat := %s\ndef noMarginCond : String := %s\n",
		strings.Join(strings.Fields(src(cond.Cond)), " "), bytesOf(defMargin), bytesOf(emptyMargin), leanStr(strings.Join(strings.Fields(src(cond.Cond)), " ")))
	var padFmts []string
	half := ""
	ast.Inspect(lpad.Body, func(n ast.Node) bool {
		if fun, args, ok := callOfNode(n); ok && fun == "fmt.Sprintf" {
			v, _ := strLit(args[0])
			padFmts = append(padFmts, v)
		}
		if be, ok := n.(*ast.BinaryExpr); ok && be.Op == token.QUO {
			half = natOf(be.Y, nil, "centre divisor")
		}
		return true
	})
	pf("/-- align.lpad: formats of the centre / right cases, the centre divisor -/\ndef padFormats : List String := %s\ndef centreDivisor : Nat := %s\n", leanStrList(padFmts), half)
	footer("TabFacts", toText, toCSV, sup, span, lpad)
}

// ---------------------------------------------------------------- C01: benchfmt/writer.go

func writeFacts(repo string) {
	f := parseFile(repo, "benchfmt/writer.go")
	wr := methodDecl(f, "Writer", "writeResult")
	wf := methodDecl(f, "Writer", "writeFileConfig")
	wu := methodDecl(f, "Writer", "writeUnitMetadata")
	header("WriteFacts", "benchfmt/writer.go")
	type fcall struct {
		format string
		args   []string
	}
	collect := func(fd *ast.FuncDecl) (out []fcall, newlines int) {
		ast.Inspect(fd.Body, func(n ast.Node) bool {
			fun, args, ok := callOfNode(n)
			if !ok {
				return true
			}
			if fun == "fmt.Fprintf" && len(args) >= 2 {
				v, ok := strLit(args[1])
				if !ok {
					die("%s: non-literal format %s", fd.Name.Name, src(args[1]))
				}
				var as []string
				for _, a := range args[2:] {
					as = append(as, src(a))
				}
				out = append(out, fcall{v, as})
			}
			if fun == "w.buf.WriteByte" && len(args) == 1 && intOf(args[0], nil, "WriteByte").Int64() == 10 {
				newlines++
			}
			return true
		})
		return
	}
	emit := func(name string, calls []fcall) {
		var fs, ts, as []string
		for _, c := range calls {
			fs = append(fs, c.format)
			ts = append(ts, sprintfTokens(c.format, name))
			as = append(as, leanStrList(c.args))
		}
		pf("def %sFormats : List String := %s\n", name, leanStrList(fs))
		pf("def %sArgs : List (List String) := %s\n", name, joinS(as))
		pf("def %sTokens : List (List (Nat × Nat × Nat)) := %s\n", name, joinS(ts))
	}
	pf("/-- every fmt.Fprintf of the function in source order: format, argument expressions, and the format as elements ((0,i,0) = %%s/%%v of argument i, (1,i,0) = %%d, (2,b,0) = byte b); plus the number of WriteByte('\\n') calls -/\n")
	rc, rn := collect(wr)
	emit("result", rc)
	pf("def resultNewlines : Nat := %d\n", rn)
	fc, fn := collect(wf)
	emit("fileConfig", fc)
	pf("def fileConfigNewlines : Nat := %d\n", fn)
	uc, _ := collect(wu)
	emit("unit", uc)
	origCond := mustIf(wr.Body, "OrigUnit test", func(c string) bool { return strings.Contains(c, "OrigUnit") })
	pf("/-- the tidied value is printed unless: -/\ndef origUnitCond : String := %s\n", leanStr(strings.Join(strings.Fields(src(origCond.Cond)), " ")))
	footer("WriteFacts", wr, wf, wu)
}

func main() {
	if len(os.Args) != 3 {
		fmt.Fprintln(os.Stderr, "usage: extract <FactsName> <repo>")
		os.Exit(2)
	}
	switch os.Args[1] {
	case "ScaleFacts":
		scaleFacts(os.Args[2])
	case "TidyFacts":
		tidyFacts(os.Args[2])
	case "UTestFacts":
		utestFacts(os.Args[2])
	case "LegacyFacts":
		legacyFacts(os.Args[2])
	case "NothingFacts":
		nothingFacts(os.Args[2])
	case "DistFacts":
		distFacts(os.Args[2])
	case "CmdFacts":
		cmdFacts(os.Args[2])
	case "SeriesFacts":
		seriesFacts(os.Args[2])
	case "DbFacts":
		dbFacts(os.Args[2])
	case "NumFacts":
		numFacts(os.Args[2])
	case "ReadFacts":
		readFacts(os.Args[2])
	case "ParseFacts":
		parseFacts(os.Args[2])
	case "TabFacts":
		tabFacts(os.Args[2])
	case "WriteFacts":
		writeFacts(os.Args[2])
	default:
		fmt.Fprintln(os.Stderr, "unknown facts", os.Args[1])
		os.Exit(2)
	}
}
