// extract re-reads constants, tables and comparison operators from /repo's Go sources and
// prints a Lean file (Generated/<Name>.lean). usage: extract <FactsName> <repo>
package main

import (
	"crypto/sha256"
	"fmt"
	"go/ast"
	"go/parser"
	"go/printer"
	"go/token"
	"os"
	"path/filepath"
	"strconv"
	"strings"
)

var fset = token.NewFileSet()

func parseFile(repo, rel string) *ast.File {
	f, err := parser.ParseFile(fset, filepath.Join(repo, rel), nil, 0)
	if err != nil {
		fmt.Fprintln(os.Stderr, err)
		os.Exit(1)
	}
	return f
}

func funcDecl(f *ast.File, name string) *ast.FuncDecl {
	for _, d := range f.Decls {
		if fd, ok := d.(*ast.FuncDecl); ok && fd.Name.Name == name {
			return fd
		}
	}
	fmt.Fprintf(os.Stderr, "function %s not found\n", name)
	os.Exit(1)
	return nil
}

func src(n ast.Node) string {
	var sb strings.Builder
	printer.Fprint(&sb, fset, n)
	return sb.String()
}

func fingerprint(nodes ...ast.Node) string {
	h := sha256.New()
	for _, n := range nodes {
		h.Write([]byte(src(n)))
	}
	return fmt.Sprintf("%x", h.Sum(nil))[:16]
}

func leanStr(s string) string { return strconv.Quote(s) }

func leanStrList(l []string) string {
	q := make([]string, len(l))
	for i, s := range l {
		q[i] = leanStr(s)
	}
	return "[" + strings.Join(q, ", ") + "]"
}

func intLit(e ast.Expr) (int, bool) {
	switch v := e.(type) {
	case *ast.BasicLit:
		if v.Kind == token.INT {
			n, err := strconv.Atoi(v.Value)
			return n, err == nil
		}
	case *ast.UnaryExpr:
		if v.Op == token.SUB {
			n, ok := intLit(v.X)
			return -n, ok
		}
	case *ast.ParenExpr:
		return intLit(v.X)
	}
	return 0, false
}

// offsetOf returns k for an expression of the form `exp`, `k+exp`, `exp+k`, `-k+exp`.
func offsetOf(e ast.Expr, v string) (int, bool) {
	switch x := e.(type) {
	case *ast.Ident:
		return 0, x.Name == v
	case *ast.BinaryExpr:
		if x.Op == token.ADD {
			if id, ok := x.Y.(*ast.Ident); ok && id.Name == v {
				return intLit(x.X)
			}
			if id, ok := x.X.(*ast.Ident); ok && id.Name == v {
				return intLit(x.Y)
			}
		}
		if x.Op == token.SUB {
			if id, ok := x.X.(*ast.Ident); ok && id.Name == v {
				n, ok := intLit(x.Y)
				return -n, ok
			}
		}
	}
	return 0, false
}

type tableFacts struct {
	prefixes []string
	expStart int
	expStep  int
	formats  []string
	offsets  []int
	base     string
}

func mkTable(fd *ast.FuncDecl) tableFacts {
	var t tableFacts
	gotStart := false
	ast.Inspect(fd.Body, func(n ast.Node) bool {
		switch x := n.(type) {
		case *ast.AssignStmt:
			if len(x.Lhs) == 1 && len(x.Rhs) == 1 {
				if id, ok := x.Lhs[0].(*ast.Ident); ok && id.Name == "exp" {
					if v, ok := intLit(x.Rhs[0]); ok {
						switch x.Tok {
						case token.DEFINE, token.ASSIGN:
							if !gotStart {
								t.expStart, gotStart = v, true
							}
						case token.SUB_ASSIGN:
							t.expStep = v
						case token.ADD_ASSIGN:
							t.expStep = -v
						}
					}
				}
			}
		case *ast.RangeStmt:
			if cl, ok := x.X.(*ast.CompositeLit); ok {
				for _, e := range cl.Elts {
					if bl, ok := e.(*ast.BasicLit); ok && bl.Kind == token.STRING {
						s, _ := strconv.Unquote(bl.Value)
						t.prefixes = append(t.prefixes, s)
					}
				}
			}
		case *ast.CallExpr:
			if sel, ok := x.Fun.(*ast.SelectorExpr); ok {
				if sel.Sel.Name == "Sprintf" && len(x.Args) == 2 {
					if bl, ok := x.Args[0].(*ast.BasicLit); ok {
						s, _ := strconv.Unquote(bl.Value)
						off, ok := offsetOf(x.Args[1], "exp")
						if !ok {
							fmt.Fprintf(os.Stderr, "unrecognised Sprintf argument %s\n", src(x.Args[1]))
							os.Exit(1)
						}
						t.formats = append(t.formats, s)
						t.offsets = append(t.offsets, off)
					}
				}
				if sel.Sel.Name == "Pow" && len(x.Args) == 2 {
					t.base = src(x.Args[0])
				}
			}
		}
		return true
	})
	return t
}

// numForm parses a threshold format ("99.995e%d", ".99995e%d", "0x1.8ffae147ae148p%d") into
// (mantissa, exponent offset, isHex): value = mantissa * base^(offset + <the %d argument>).
func numForm(format string) (mant string, off int, hex bool) {
	body := strings.TrimSuffix(strings.TrimSuffix(format, "e%d"), "p%d")
	if body == format {
		fmt.Fprintf(os.Stderr, "unrecognised threshold format %q\n", format)
		os.Exit(1)
	}
	digitsPerUnit := 1
	if strings.HasPrefix(body, "0x") {
		hex = true
		body = body[2:]
		digitsPerUnit = 4
	}
	ip, fp := body, ""
	if i := strings.IndexByte(body, '.'); i >= 0 {
		ip, fp = body[:i], body[i+1:]
	}
	mant = strings.TrimLeft(ip+fp, "0")
	if mant == "" {
		mant = "0"
	}
	if hex {
		mant = "0x" + mant
	}
	return mant, -len(fp) * digitsPerUnit, hex
}

func numForms(formats []string, offsets []int) string {
	var out []string
	for i, f := range formats {
		m, off, _ := numForm(f)
		out = append(out, fmt.Sprintf("(%s, (%d : Int))", m, off+offsets[i]))
	}
	return "[" + strings.Join(out, ", ") + "]"
}

func intList(l []int) string {
	s := make([]string, len(l))
	for i, v := range l {
		s[i] = fmt.Sprintf("(%d : Int)", v)
	}
	return "[" + strings.Join(s, ", ") + "]"
}

func opCode(op string) int {
	switch op {
	case ">=":
		return 0
	case ">":
		return 1
	case "<=":
		return 2
	case "<":
		return 3
	}
	return 9
}

func fieldIdx(f string) int {
	switch f {
	case "t100":
		return 0
	case "t10":
		return 1
	case "t1":
		return 2
	}
	return 9
}

func scaleFacts(repo string) {
	f := parseFile(repo, "benchunit/scale.go")
	si := mkTable(funcDecl(f, "mkSIFactors"))
	iec := mkTable(funcDecl(f, "mkIECFactors"))
	// mkSigfigs: for exp := -1; exp > -9; exp--
	sf := funcDecl(f, "mkSigfigs")
	var sfStart, sfEnd, sfBase int
	var sfFormat, sfCond string
	ast.Inspect(sf.Body, func(n ast.Node) bool {
		switch x := n.(type) {
		case *ast.ForStmt:
			if as, ok := x.Init.(*ast.AssignStmt); ok {
				sfStart, _ = intLit(as.Rhs[0])
			}
			if be, ok := x.Cond.(*ast.BinaryExpr); ok {
				sfCond = be.Op.String()
				sfEnd, _ = intLit(be.Y)
			}
		case *ast.CallExpr:
			if sel, ok := x.Fun.(*ast.SelectorExpr); ok && sel.Sel.Name == "Sprintf" {
				if bl, ok := x.Args[0].(*ast.BasicLit); ok {
					sfFormat, _ = strconv.Unquote(bl.Value)
				}
			}
		case *ast.ReturnStmt:
			if len(x.Results) == 2 {
				sfBase, _ = intLit(x.Results[1])
			}
		}
		return true
	})
	// CommonScale: the threshold cascade
	cs := funcDecl(f, "CommonScale")
	var cascade, cascadeN []string
	var defaultScaler string
	var fallbackCmp string
	ast.Inspect(cs.Body, func(n ast.Node) bool {
		switch x := n.(type) {
		case *ast.CaseClause:
			if len(x.List) == 1 {
				if be, ok := x.List[0].(*ast.BinaryExpr); ok {
					if sel, ok := be.Y.(*ast.SelectorExpr); ok {
						if len(x.Body) == 1 {
							if rs, ok := x.Body[0].(*ast.ReturnStmt); ok {
								if cl, ok := rs.Results[0].(*ast.CompositeLit); ok {
									p, _ := intLit(cl.Elts[0])
									cascade = append(cascade, fmt.Sprintf("(%s, %s, %d)", leanStr(be.Op.String()), leanStr(sel.Sel.Name), p))
									cascadeN = append(cascadeN, fmt.Sprintf("(%d, %d, %d)", opCode(be.Op.String()), fieldIdx(sel.Sel.Name), p))
								}
							}
						}
					}
				}
			}
		case *ast.IfStmt:
			if be, ok := x.Cond.(*ast.BinaryExpr); ok {
				if id, ok := be.X.(*ast.Ident); ok && id.Name == "min" && be.Op == token.EQL {
					if rs, ok := x.Body.List[0].(*ast.ReturnStmt); ok {
						defaultScaler = src(rs.Results[0])
					}
				}
				if be.Op == token.LOR {
					if l, ok := be.X.(*ast.BinaryExpr); ok {
						fallbackCmp = l.Op.String()
					}
				}
			}
		}
		return true
	})
	format := funcDecl(f, "Format")
	fmt.Println("-- GENERATED by /verif/extract from /repo/benchunit/scale.go on every check run. Do not edit.")
	fmt.Println("namespace Generated.ScaleFacts")
	fmt.Printf("def siPrefixes : List String := %s\n", leanStrList(si.prefixes))
	fmt.Printf("def siExpStart : Int := %d\ndef siExpStep : Int := %d\n", si.expStart, si.expStep)
	fmt.Printf("def siFormats : List String := %s\n", leanStrList(si.formats))
	fmt.Printf("def siOffsets : List Int := %s\n", intList(si.offsets))
	fmt.Printf("/-- thresholds in numeric form: (mantissa, offset): value = mantissa * 10^(exp + offset) -/\n")
	fmt.Printf("def siThresh : List (Nat × Int) := %s\n", numForms(si.formats, si.offsets))
	fmt.Printf("def siBase : String := %s\n", leanStr(si.base))
	fmt.Printf("def iecPrefixes : List String := %s\n", leanStrList(iec.prefixes))
	fmt.Printf("def iecExpStart : Int := %d\ndef iecExpStep : Int := %d\n", iec.expStart, iec.expStep)
	fmt.Printf("def iecFormats : List String := %s\n", leanStrList(iec.formats))
	fmt.Printf("def iecOffsets : List Int := %s\n", intList(iec.offsets))
	fmt.Printf("/-- value = mantissa * 2^(exp + offset) -/\n")
	fmt.Printf("def iecThresh : List (Nat × Int) := %s\n", numForms(iec.formats, iec.offsets))
	fmt.Printf("def iecBase : String := %s\n", leanStr(iec.base))
	fmt.Printf("def sigfigsFormat : String := %s\n", leanStr(sfFormat))
	fmt.Printf("def sigfigsThresh : Nat × Int := %s\n", strings.Trim(numForms([]string{sfFormat}, []int{0}), "[]"))
	fmt.Printf("def sigfigsExpStart : Int := %d\ndef sigfigsExpEnd : Int := %d\ndef sigfigsCond : String := %s\ndef sigfigsBase : Nat := %d\n", sfStart, sfEnd, leanStr(sfCond), sfBase)
	fmt.Printf("/-- (comparison operator, threshold field, precision) of the cascade in CommonScale -/\n")
	fmt.Printf("def cascade : List (String × String × Nat) := [%s]\n", strings.Join(cascade, ", "))
	fmt.Printf("/-- numeric form: (operator code 0:>= 1:> 2:<= 3:<, threshold index 0:t100 1:t10 2:t1, precision) -/\n")
	fmt.Printf("def cascadeN : List (Nat × Nat × Nat) := [%s]\n", strings.Join(cascadeN, ", "))
	fmt.Printf("def fallbackCmp : String := %s\n", leanStr(fallbackCmp))
	fmt.Printf("def fallbackCmpN : Nat := %d\n", opCode(fallbackCmp))
	fmt.Printf("def siBaseIsTwo : Bool := %v\ndef iecBaseIsTwo : Bool := %v\n", si.base == "2", iec.base == "2")
	fmt.Printf("def defaultScaler : String := %s\n", leanStr(defaultScaler))
	fmt.Printf("def fingerprint : String := %s\n", leanStr(fingerprint(cs, format, funcDecl(f, "mkSIFactors"), funcDecl(f, "mkIECFactors"), sf)))
	fmt.Println("end Generated.ScaleFacts")
}

func main() {
	if len(os.Args) != 3 {
		fmt.Fprintln(os.Stderr, "usage: extract <FactsName> <repo>")
		os.Exit(2)
	}
	switch os.Args[1] {
	case "ScaleFacts":
		scaleFacts(os.Args[2])
	default:
		fmt.Fprintln(os.Stderr, "unknown facts", os.Args[1])
		os.Exit(2)
	}
}
