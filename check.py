#!/usr/bin/env python3
"""Orchestrator: python3 check.py <ID> --tier quick|thorough [--replay FILE]

Layers per check (DESIGN.md section 2):
  P  proof obligations: lake build of the property's proof modules on freshly regenerated
     facts, `#print axioms` audit, forbidden-token grep (thorough: leanchecker)
  K  correspondence: Go harness (built from /repo's working tree with -overlay hooks)
     vs the Lean driver running the model's executable definitions
  S  search: implementation output judged against the spec-level oracle of the driver
Verdict rule: see DESIGN.md 2.2.
"""
import argparse, fcntl, hashlib, json, os, re, subprocess, sys, time, shutil, glob

ROOT = os.path.dirname(os.path.abspath(__file__))
LEAN = os.path.join(ROOT, "lean")
BUILD = os.environ.get("VERIF_BUILD") or os.path.join(ROOT, "build")   # VERIF_BUILD / VERIF_OUT: private scratch for parallel mutation runs (tools/mutate.py)
OUT = os.environ.get("VERIF_OUT") or ROOT
REPO = os.environ.get("VERIF_REPO", "/repo")
GOENV = dict(GOFLAGS="-mod=mod", GOPROXY="off", GOSUMDB="off", GOTOOLCHAIN="local",
             CGO_ENABLED="1")
ALLOWED_AXIOMS = {"propext", "Classical.choice", "Quot.sound"}
FORBIDDEN = re.compile(r"\b(sorry|admit|native_decide|bv_decide|implemented_by|unsafe)\b|^\s*axiom\s|maxHeartbeats\s+0\b")

def sh(cmd, cwd=None, env=None, timeout=None, stdin=None, stdout=subprocess.PIPE):
    e = dict(os.environ)
    e.update(GOENV)
    if env:
        e.update(env)
    return subprocess.run(cmd, cwd=cwd, env=e, timeout=timeout, stdin=stdin,
                          stdout=stdout, stderr=subprocess.STDOUT, text=True)

class Lock:
    def __init__(self, name):
        os.makedirs(BUILD, exist_ok=True)
        self.path = os.path.join(BUILD, name + ".lock")
    def __enter__(self):
        self.f = open(self.path, "w")
        fcntl.flock(self.f, fcntl.LOCK_EX)
    def __exit__(self, *a):
        fcntl.flock(self.f, fcntl.LOCK_UN)
        self.f.close()

def load_props():
    """One file per property: props.d/Cxx.json."""
    props = {}
    for p in sorted(glob.glob(os.path.join(ROOT, "props.d", "*.json"))):
        with open(p) as f:
            props[os.path.basename(p)[:-5]] = json.load(f)
    return props

def strip_comments(src):
    # remove /- ... -/ (nested) and -- comments
    out, i, depth = [], 0, 0
    while i < len(src):
        if src.startswith("/-", i):
            depth += 1; i += 2; continue
        if depth and src.startswith("-/", i):
            depth -= 1; i += 2; continue
        if depth:
            if src[i] == "\n": out.append("\n")
            i += 1; continue
        if src.startswith("--", i):
            while i < len(src) and src[i] != "\n": i += 1
            continue
        out.append(src[i]); i += 1
    return "".join(out)

# ---------------------------------------------------------------- overlay / go builds

def overlay_json(hdir):
    """Map the files of harness/hx and harness/<hdir> to virtual paths inside /repo
    (go build -overlay). Per harness: VPATH names the virtual directory of its main package;
    HOOKS lists `<file relative to the harness dir> <virtual path>` for files injected into
    existing packages of /repo (export hooks, build tag verif)."""
    repl = {}
    hroot = os.path.join(ROOT, "harness")
    for d in ("hx", hdir):
        dp = os.path.join(hroot, d)
        v = open(os.path.join(dp, "VPATH")).read().strip().replace("/repo", REPO, 1)
        for f in sorted(os.listdir(dp)):
            if f.endswith(".go"):
                repl[os.path.join(v, f)] = os.path.join(dp, f)
        hk = os.path.join(dp, "HOOKS")
        if os.path.isfile(hk):
            for line in open(hk):
                line = line.strip()
                if not line or line.startswith("#"): continue
                src, dst = line.split()
                repl[dst.replace("/repo", REPO, 1)] = os.path.join(dp, src)
    os.makedirs(BUILD, exist_ok=True)
    p = os.path.join(BUILD, "overlay-%s.json" % hdir)
    tmp = p + ".%d" % os.getpid()
    with open(tmp, "w") as f:
        json.dump({"Replace": repl}, f, indent=1)
    os.replace(tmp, p)
    return p

def go_build(hdir, pkg_vpath, out, extra=()):
    ov = overlay_json(hdir)
    rel = "./" + os.path.relpath(pkg_vpath.replace("/repo", REPO, 1), REPO)
    cmd = ["go", "build", "-tags", "verif", "-overlay", ov, *extra, "-o", out, rel]
    return sh(cmd, cwd=REPO, timeout=900)

# ---------------------------------------------------------------- P layer

def regen_facts(prop, cfg, log):
    """Re-extract constants from /repo into lean/Generated/*.lean (only rewritten on change)."""
    facts = cfg.get("facts")
    if not facts:
        return True, ""
    binp = os.path.join(BUILD, "bin", "extract")
    os.makedirs(os.path.dirname(binp), exist_ok=True)
    r = sh(["go", "build", "-o", binp, "."], cwd=os.path.join(ROOT, "extract"), timeout=600)
    if r.returncode != 0:
        return False, "extract build failed:\n" + r.stdout
    for name in facts:
        r = sh([binp, name, REPO], timeout=120)
        if r.returncode != 0:
            return False, "fact extraction %s failed:\n%s" % (name, r.stdout)
        target = os.path.join(LEAN, "Generated", name + ".lean")
        old = open(target).read() if os.path.exists(target) else None
        if old != r.stdout:
            with open(target, "w") as f:
                f.write(r.stdout)
            log.append("facts %s regenerated (changed)" % name)
    return True, ""

def import_closure(mods):
    """Project-local .lean files reachable from the given modules through `import`."""
    seen, todo, files = set(), list(mods), []
    while todo:
        m = todo.pop()
        if m in seen: continue
        seen.add(m)
        path = os.path.join(LEAN, *m.split(".")) + ".lean"
        if not os.path.isfile(path): continue
        files.append(path)
        for im in re.findall(r"^\s*(?:public\s+)?import\s+([\w.]+)", open(path).read(), re.M):
            todo.append(im)
    return sorted(files)

def theorem_at(path, lineno):
    try:
        lines = open(path).read().split("\n")
    except OSError:
        return None
    for i in range(min(lineno, len(lines)) - 1, -1, -1):
        m = re.match(r"\s*(?:private\s+|protected\s+)?(?:theorem|lemma|def|example|instance)\s+([^\s:({\[]+)?", lines[i])
        if m:
            return m.group(1) or "example"
    return None

def p_layer(prop, cfg, tier, log):
    res = dict(obligations=0, discharged=0, broken=[], axioms={}, build_ok=True, detail="")
    targets = cfg.get("lean_targets", [])
    audit = cfg.get("audit")
    with Lock("lake"):
        ok, msg = regen_facts(prop, cfg, log)
        if not ok:
            res["build_ok"] = False
            res["broken"].append({"theorem": "Generated facts (extractor)", "detail": msg[-2000:]})
            return res
        r = sh(["lake", "build", *targets, "driver_" + prop.lower()], cwd=LEAN, timeout=3000)
    if r.returncode != 0:
        res["build_ok"] = False
        res["detail"] = r.stdout[-6000:]
        seen = set()
        for m in re.finditer(r"error: ([^\s:]+\.lean):(\d+):(\d+): (.*)", r.stdout):
            path = os.path.join(LEAN, m.group(1)) if not os.path.isabs(m.group(1)) else m.group(1)
            thm = theorem_at(path, int(m.group(2))) or "?"
            key = (m.group(1), thm)
            if key in seen: continue
            seen.add(key)
            res["broken"].append({"theorem": thm, "file": m.group(1), "line": int(m.group(2)),
                                  "detail": m.group(4)[:500]})
        if not res["broken"]:
            res["broken"].append({"theorem": "lake build", "detail": r.stdout[-1500:]})
    # forbidden tokens, in every project file the property's targets (and its driver) import
    for path in import_closure(list(targets) + ["Driver." + prop]):
        src = strip_comments(open(path).read())
        for n, line in enumerate(src.split("\n"), 1):
            if FORBIDDEN.search(line):
                res["broken"].append({"theorem": "forbidden token", "file": os.path.relpath(path, LEAN),
                                      "line": n, "detail": line.strip()[:200]})
    # audit
    if audit:
        apath = os.path.join(LEAN, audit)
        names = re.findall(r"^#print axioms\s+(\S+)", open(apath).read(), re.M)
        res["obligations"] = len(names)
        res["theorems"] = names
        if res["build_ok"]:
            r = sh(["lake", "env", "lean", audit], cwd=LEAN, timeout=1200)
            out = r.stdout
            for m in re.finditer(r"'([^']+)' depends on axioms: \[([^\]]*)\]", out, re.S):
                res["axioms"][m.group(1)] = [a.strip() for a in m.group(2).replace("\n", " ").split(",") if a.strip()]
            for m in re.finditer(r"'([^']+)' does not depend on any axioms", out):
                res["axioms"][m.group(1)] = []
            for n in names:
                ax = res["axioms"].get(n)
                if ax is None:
                    # name may be printed fully qualified
                    cands = [k for k in res["axioms"] if k == n or k.endswith("." + n)]
                    ax = res["axioms"].get(cands[0]) if cands else None
                if ax is None:
                    res["broken"].append({"theorem": n, "detail": "no #print axioms output: " + out[-400:]})
                elif set(ax) - ALLOWED_AXIOMS:
                    res["broken"].append({"theorem": n, "detail": "axioms " + ",".join(ax)})
                else:
                    res["discharged"] += 1
        if tier == "thorough" and res["build_ok"] and cfg.get("leanchecker", True):
            mods = [t for t in targets]
            r = sh(["lake", "env", "leanchecker", *mods], cwd=LEAN, timeout=3000)
            res["leanchecker"] = "ok" if r.returncode == 0 else r.stdout[-800:]
            if r.returncode != 0:
                res["broken"].append({"theorem": "leanchecker", "detail": r.stdout[-800:]})
    return res

# ---------------------------------------------------------------- K / S layers

def parse_stream(text, prefix=""):
    """kind -> id -> [payload lines]"""
    d = {}
    for line in text.split("\n"):
        if not line: continue
        sp = line.split(" ", 2)
        if len(sp) < 2: continue
        kind, cid = sp[0], prefix + sp[1]
        d.setdefault(kind, {}).setdefault(cid, []).append(sp[2] if len(sp) > 2 else "")
    return d

KF_RE = re.compile(r"(?:^| )kf=(\S+)")

def strip_kf(lines):
    tags = set()
    out = []
    for l in lines:
        for m in KF_RE.finditer(l):
            tags.update(m.group(1).split("+"))
        out.append(KF_RE.sub("", l).strip())
    return out, tags

def run_ks(prop, cfg, tier, seed, log, replay_ids=None):
    res = dict(ok=True, cases=0, k_diffs=[], s_hits=[], known={}, tags={}, distinct_nt=0,
               samples=[], harness_error=None, crashes=[])
    hdir = cfg.get("harness")
    if not hdir:
        return res
    vpath = open(os.path.join(ROOT, "harness", hdir, "VPATH")).read().strip()
    bindir = os.path.join(BUILD, "bin"); os.makedirs(bindir, exist_ok=True)
    # per-process names: two runs of one property (e.g. a scratch-worktree run next to a normal one)
    # must not replace each other's binaries between build and run
    hbin = os.path.join(bindir, "%s.%d" % (hdir, os.getpid()))
    tmp_bins = [hbin]
    env_extra = {}
    with Lock("gobuild-" + hdir):
        if os.path.exists(hbin): os.remove(hbin)
        r = go_build(hdir, vpath, hbin, cfg.get("go_flags", []))
        if r.returncode != 0:
            res["ok"] = False
            res["harness_error"] = "harness does not build against /repo:\n" + r.stdout[-3000:]
            return res
        for xb in cfg.get("extra_builds", []):
            out = os.path.join(bindir, "%s.%d" % (xb["out"], os.getpid()))
            tmp_bins.append(out)
            if os.path.exists(out): os.remove(out)
            r = go_build(hdir, xb["pkg"], out, xb.get("flags", []))
            if r.returncode != 0:
                res["ok"] = False
                res["harness_error"] = "extra build %s failed:\n%s" % (xb["pkg"], r.stdout[-3000:])
                return res
            env_extra[xb["env"]] = out
    driver = os.path.join(LEAN, ".lake", "build", "bin", "driver_" + prop.lower())
    shards = cfg.get("shards", {}).get(tier, 1)
    final_rundir = os.path.join(BUILD, "run", prop)
    rundir = final_rundir + ".%d" % os.getpid(); os.makedirs(rundir, exist_ok=True)   # private while running
    timeout = cfg.get("timeout", {}).get(tier, 600 if tier == "quick" else 3600)
    procs = []
    for s in range(shards):
        env = dict(os.environ); env.update(GOENV); env.update(env_extra)
        env.update(VERIF_SEED=str(seed), VERIF_TIER=tier, VERIF_SHARD=str(s), VERIF_NSHARDS=str(shards),
                   VERIF_RUNDIR=rundir, VERIF_ROOT=ROOT, VERIF_REPO=REPO,
                   GOMEMLIMIT=cfg.get("gomemlimit", "6GiB"))
        gof = open(os.path.join(rundir, "go.%d.txt" % s), "w")
        goe = open(os.path.join(rundir, "go.%d.err" % s), "w")   # a file, never a pipe: a full pipe would block the harness
        procs.append((s, subprocess.Popen([hbin], stdout=gof, stderr=goe, env=env, cwd=rundir), gof, goe))
    go_d, lean_d = {}, {}
    t_end = time.time() + timeout
    def tail_of(path, n=3000):
        try:
            with open(path, "rb") as f:
                f.seek(0, 2); size = f.tell(); f.seek(max(0, size - n))
                return f.read().decode(errors="replace")
        except OSError:
            return ""
    for s, p, gof, goe in procs:
        try:
            p.wait(timeout=max(1, t_end - time.time()))
        except subprocess.TimeoutExpired:
            p.kill(); p.wait()
            res["ok"] = False
            res["harness_error"] = "harness timed out after %ds: %s" % (timeout, tail_of(goe.name, 1000))
        gof.close(); goe.close()
        if p.returncode not in (0, None) and not res["harness_error"]:
            res["ok"] = False
            res["harness_error"] = "harness exited %s: %s" % (p.returncode, tail_of(goe.name))
    for b in tmp_bins:
        try: os.remove(b)
        except OSError: pass
    died = []
    if res["harness_error"]:
        # Keep what the harness printed before it died: the last case it started is the best
        # candidate for a failing input (a panic inside a goroutine of the real code cannot be
        # recovered by the harness).
        for s, p, gof, goe in procs:
            if p.returncode not in (0, None):
                try:
                    lines = open(os.path.join(rundir, "go.%d.txt" % s), errors="replace").read().split("\n")
                except OSError:
                    lines = []
                last = next((l for l in reversed(lines) if l.startswith("case ")), None)
                died.append((s, last, tail_of(goe.name, 1500)))
    dprocs = []
    for s in range(shards):
        gi = open(os.path.join(rundir, "go.%d.txt" % s))
        lo = open(os.path.join(rundir, "lean.%d.txt" % s), "w")
        le = open(os.path.join(rundir, "lean.%d.err" % s), "w")
        dprocs.append((s, subprocess.Popen([driver], stdin=gi, stdout=lo, stderr=le), gi, lo, le))
    for s, p, gi, lo, le in dprocs:
        try:
            p.wait(timeout=timeout)
        except subprocess.TimeoutExpired:
            p.kill(); p.wait()
            res["ok"] = False; res["harness_error"] = "lean driver timed out"
        gi.close(); lo.close(); le.close()
        if p.returncode != 0 and not res["harness_error"]:
            res["ok"] = False
            res["harness_error"] = "lean driver exited %s: %s" % (p.returncode, tail_of(le.name, 2000))
    for s in range(shards):
        pre = "%d:" % s if shards > 1 else ""
        g = parse_stream(open(os.path.join(rundir, "go.%d.txt" % s)).read(), pre)
        l = parse_stream(open(os.path.join(rundir, "lean.%d.txt" % s)).read(), pre)
        for k, v in g.items(): go_d.setdefault(k, {}).update(v)
        for k, v in l.items(): lean_d.setdefault(k, {}).update(v)
    cases = go_d.get("case", {})
    res["cases"] = len(cases)
    if replay_ids is not None:
        cases = {k: v for k, v in cases.items() if k in replay_ids}
    # coverage statistics
    distinct = set()
    for cid, lines in cases.items():
        payload = lines[0]
        m = re.search(r"(?:^| )tag=(\S+)", payload)
        tags = m.group(1).split("+") if m else []
        for t in tags: res["tags"][t] = res["tags"].get(t, 0) + 1
        nontrivial = bool(tags) and tags != ["trivial"] if cfg.get("tagged", False) else True
        if nontrivial:
            distinct.add(hashlib.blake2b(payload.encode(), digest_size=8).digest())
    res["distinct_nt"] = len(distinct)
    ids = sorted(cases.keys(), key=lambda x: [int(t) if t.isdigit() else t for t in re.split(r"[:]", x)])
    step = max(1, len(ids) // 5)
    for cid in ids[::step][:5]:
        res["samples"].append({"case": cases[cid][0][:600],
                               "impl": [x[:400] for x in go_d.get("obs", {}).get(cid, [])][:3],
                               "model": [x[:400] for x in lean_d.get("obs", {}).get(cid, [])][:3]})
    for s, last, err in died:
        pre = "%d:" % s if shards > 1 else ""
        if last:
            sp = last.split(" ", 2)
            res["s_hits"].append({"id": pre + sp[1], "case": sp[2] if len(sp) > 2 else "", "impl": ["harness process died while running this case: " + err[-600:]],
                                  "expected": ["no panic / hang"], "what": "crash", "kf": []})
    # crashes reported by the harness: "crash <id> <what>"
    for cid, lines in go_d.get("crash", {}).items():
        if cid in cases or replay_ids is None:
            res["s_hits"].append({"id": cid, "case": cases.get(cid, ["?"])[0], "impl": lines, "expected": ["no panic / hang"],
                                  "what": "crash", "kf": []})
    # K
    gobs, lobs = go_d.get("obs", {}), lean_d.get("obs", {})
    kbad = set()
    for cid in cases:
        a, b = gobs.get(cid), lobs.get(cid)
        if a != b:
            kbad.add(cid)
            if len(res["k_diffs"]) < 50:
                res["k_diffs"].append({"id": cid, "case": cases[cid][0], "impl": a, "model": b})
    res["k_count"] = len(kbad)
    # S
    sobs, spec = go_d.get("sobs", {}), lean_d.get("spec", {})
    res["s_checked"] = 0
    for cid in cases:
        if cid not in sobs and cid not in spec: continue
        res["s_checked"] += 1
        a = sobs.get(cid)
        b, kf = strip_kf(spec.get(cid) or [])
        if a != b:
            res["s_hits"].append({"id": cid, "case": cases[cid][0], "impl": a, "expected": b,
                                  "what": "spec", "kf": sorted(kf), "k_agrees": cid not in kbad})
    # publish the outputs of this run as build/run/Cxx (what the notes refer to); best effort
    try:
        shutil.rmtree(final_rundir, ignore_errors=True)
        os.rename(rundir, final_rundir)
    except OSError:
        pass
    return res

# ---------------------------------------------------------------- verdict

def first_diff(a, b):
    a = " ".join(a or ["<none>"]); b = " ".join(b or ["<none>"])
    fa, fb = a.split(" "), b.split(" ")
    for x, y in zip(fa, fb):
        if x != y:
            return "impl %s  vs  %s" % (x[:200], y[:200])
    return "impl %s  vs  %s" % (a[:200], b[:200])

def main():
    ap = argparse.ArgumentParser()
    ap.add_argument("prop")
    ap.add_argument("--tier", default=os.environ.get("VERIF_TIER", "quick"), choices=["quick", "thorough"])
    ap.add_argument("--replay")
    ap.add_argument("--skip-proofs", action="store_true", help="debugging only")
    args = ap.parse_args()
    prop, tier = args.prop, args.tier
    seed = int(os.environ.get("VERIF_SEED", "0") or 0)
    props = load_props()
    if prop not in props:
        print("unknown property", prop); sys.exit(2)
    cfg = props[prop]
    t0 = time.time()
    log = []
    replay_ids = None
    if args.replay:
        rp = json.load(open(args.replay))
        seed, tier = rp.get("seed", seed), rp.get("tier", tier)
        if rp.get("case_id") is not None:
            replay_ids = {rp["case_id"]}
    known = json.load(open(os.path.join(ROOT, "known_findings.json")))
    known_ids = {k["id"]: k for k in known.get("known", []) if k["property"] == prop}

    P = p_layer(prop, cfg, tier, log) if not args.skip_proofs else dict(obligations=0, discharged=0, broken=[], build_ok=True, axioms={})
    KS = dict(ok=True, cases=0, k_diffs=[], s_hits=[], tags={}, distinct_nt=0, samples=[], harness_error=None, k_count=0, s_checked=0)
    driver_ok = os.path.exists(os.path.join(LEAN, ".lake", "build", "bin", "driver_" + prop.lower()))
    if P["build_ok"] or driver_ok:
        KS = run_ks(prop, cfg, tier, seed, log, replay_ids)

    os.makedirs(os.path.join(OUT, "replays"), exist_ok=True)
    violations = []
    known_lines = {}
    n = 0
    def write_replay(body):
        nonlocal n
        path = os.path.join(OUT, "replays", "%s-%d-%d.json" % (prop, seed, n)); n += 1
        body.update(property=prop, seed=seed, tier=tier,
                    replay_cmd="python3 check.py %s --replay %s" % (prop, path))
        with open(path, "w") as f: json.dump(body, f, indent=1)
        return path

    new_hits = []
    for h in KS["s_hits"]:
        kfs = [k for k in h.get("kf", []) if k in known_ids]
        if kfs and h.get("k_agrees", False):
            known_lines.setdefault(kfs[0], []).append(h)
        else:
            new_hits.append(h)
    for h in new_hits[:3]:
        path = write_replay({"layer": "S", "case_id": h["id"], "case": h["case"], "impl": h["impl"],
                             "expected": h["expected"], "what": h["what"], "diff": first_diff(h["impl"], h["expected"])})
        violations.append("VIOLATION property=%s replay=%s" % (prop, path))
    if not new_hits:
        if P["broken"]:
            path = write_replay({"layer": "P", "broken": P["broken"], "detail": P.get("detail", "")[-3000:],
                                 "note": "proof obligation no longer checks; search found no failing input"})
            violations.append("VIOLATION property=%s replay=%s no-failing-input-found" % (prop, path))
        elif KS.get("harness_error"):
            path = write_replay({"layer": "K", "correspondence": "harness/driver run", "detail": KS["harness_error"]})
            violations.append("VIOLATION property=%s replay=%s no-failing-input-found" % (prop, path))
        elif KS["k_diffs"]:
            d = KS["k_diffs"][0]
            path = write_replay({"layer": "K", "correspondence": "model vs implementation observables",
                                 "case_id": d["id"], "case": d["case"], "impl": d["impl"], "model": d["model"],
                                 "diff": first_diff(d["impl"], d["model"]), "count": KS.get("k_count")})
            violations.append("VIOLATION property=%s replay=%s no-failing-input-found" % (prop, path))

    wall = time.time() - t0
    ev = {
        "property_id": prop, "tier": tier, "seed": seed, "level": "proof",
        "coverage": {
            "obligations": P["obligations"], "discharged": P["discharged"],
            "checker_cmd": "cd lean && lake build %s && lake env lean %s  (+ lake env leanchecker in thorough tier)" % (" ".join(cfg.get("lean_targets", [])), cfg.get("audit", "")),
            "trusted_base": cfg.get("trusted_base", []) + ["Lean 4.33.0 kernel", "axioms: propext, Classical.choice, Quot.sound only (audited by #print axioms)", "correspondence harness + Lean driver (differential testing)"],
            "theorems": P.get("theorems", []),
            "axioms": P.get("axioms", {}),
            "evaluations": KS["cases"], "distinct_nontrivial": KS["distinct_nt"],
            "rule": cfg.get("rule", ""),
            "samples": KS["samples"] or [{"obligations": P.get("theorems", [])[:5]}],
            "correspondence": {"cases": KS["cases"], "disagreements": KS.get("k_count", 0), "tag_hits": KS["tags"]},
            "search": {"cases_judged_by_spec": KS.get("s_checked", 0), "hits": len(KS["s_hits"]),
                       "known_finding_hits": {k: len(v) for k, v in known_lines.items()}},
            "leanchecker": P.get("leanchecker", "not run (thorough tier only)"),
            "log": log,
        },
        "assumptions": cfg.get("assumptions", []),
        "wall_s": round(wall, 2),
        "violations": len(violations),
    }
    # debugging runs (--skip-proofs, or against a scratch worktree via VERIF_REPO) must not replace the
    # evidence of the real check
    evdir = os.path.join(OUT, "evidence") if (not args.skip_proofs and REPO == "/repo") or OUT != ROOT else os.path.join(BUILD, "scratch-evidence")
    os.makedirs(evdir, exist_ok=True)
    with open(os.path.join(evdir, prop + ".json"), "w") as f:
        json.dump(ev, f, indent=1)
    for kid, hs in known_lines.items():
        print("KNOWN-FINDING: property=%s %s %s (%d cases, e.g. %s)" % (prop, kid, known_ids[kid]["what"], len(hs), hs[0]["case"][:160]))
    for v in violations:
        print(v)
    print("%s tier=%s seed=%d P=%d/%d K=%d cases (%d diffs) S=%d judged (%d hits) wall=%.1fs" % (
        prop, tier, seed, P["discharged"], P["obligations"], KS["cases"], KS.get("k_count", 0), KS.get("s_checked", 0), len(KS["s_hits"]), wall))
    sys.exit(1 if violations else 0)

if __name__ == "__main__":
    main()
