//go:build verif

// C02 harness: the benchmark-format reader's line and scoping rules.
//
// Every case is run through the public API only (benchfmt.NewReader/Scan/Result/Units,
// benchfmt.Files); the export hook is used solely to fill the oracle tables (what the
// reader's own number parsers answer for each field text), because numbers are the subject
// of C03/C04 and are parameters of the C02 model.
package main

import (
	"bytes"
	"fmt"
	"io"
	"os"
	"path/filepath"
	"sort"
	"strings"
	"time"
	"unicode"
	"unicode/utf8"

	"golang.org/x/perf/benchfmt"
	"golang.org/x/perf/benchunit"
	"golang.org/x/perf/internal/verifh/hx"
)

// ---------------------------------------------------------------- oracle tables

type tables struct {
	nums, tidy, uni map[string]string
}

func newTables() *tables {
	return &tables{map[string]string{}, map[string]string{}, map[string]string{}}
}

func (t *tables) addTidy(v float64, unit string) {
	k := hx.F64(v) + ":" + hx.HexS(unit)
	if _, ok := t.tidy[k]; ok {
		return
	}
	tv, tu := benchunit.Tidy(v, unit)
	t.tidy[k] = hx.F64(tv) + ":" + hx.HexS(tu)
}

// add records the answers for every field the reader could look at in text.
func (t *tables) add(text []byte) {
	for _, line := range bytes.Split(text, []byte("\n")) {
		if bytes.HasPrefix(line, []byte("Benchmark")) {
			fs := bytes.FieldsFunc(line[len("Benchmark"):], unicode.IsSpace)
			for i, f := range fs {
				k := hx.Hex(f)
				var fv float64
				var ferr string
				if _, ok := t.nums[k]; !ok {
					iv, ierr := benchfmt.VerifAtoi(f)
					is := ierr
					if ierr == "" {
						is = fmt.Sprintf("i%d", iv)
					}
					fv, ferr = benchfmt.VerifAtof(f)
					fstr := ferr
					if ferr == "" {
						fstr = "f" + hx.F64(fv)
					}
					t.nums[k] = is + ":" + fstr
				} else {
					fv, ferr = benchfmt.VerifAtof(f)
				}
				if ferr == "" && i+1 < len(fs) {
					t.addTidy(fv, string(fs[i+1]))
				}
			}
		} else if len(line) > 0 && line[0] == 'U' {
			fs := bytes.FieldsFunc(line, unicode.IsSpace)
			if len(fs) >= 2 {
				t.addTidy(1, string(fs[1]))
			}
		}
	}
	for i := 0; i < len(text); i++ {
		if text[i] >= utf8.RuneSelf {
			r, _ := utf8.DecodeRune(text[i:])
			if r >= utf8.RuneSelf {
				k := fmt.Sprintf("%x", r)
				if _, ok := t.uni[k]; !ok {
					fl := 0
					if unicode.IsSpace(r) {
						fl |= 1
					}
					if unicode.IsUpper(r) {
						fl |= 2
					}
					if unicode.IsLower(r) {
						fl |= 4
					}
					t.uni[k] = fmt.Sprint(fl)
				}
			}
		}
	}
}

func tbl(m map[string]string) string {
	if len(m) == 0 {
		return "-"
	}
	ks := make([]string, 0, len(m))
	for k := range m {
		ks = append(ks, k)
	}
	sort.Strings(ks)
	var b strings.Builder
	for i, k := range ks {
		if i > 0 {
			b.WriteByte(',')
		}
		b.WriteString(k)
		b.WriteByte(':')
		b.WriteString(m[k])
	}
	return b.String()
}

func (t *tables) String() string {
	return "nums=" + tbl(t.nums) + " tidy=" + tbl(t.tidy) + " uni=" + tbl(t.uni)
}

// ---------------------------------------------------------------- serialisation

func joinOr(l []string) string {
	if len(l) == 0 {
		return "-"
	}
	return strings.Join(l, ",")
}

func serVals(vs []benchfmt.Value) string {
	var l []string
	for _, v := range vs {
		l = append(l, hx.F64(v.Value)+":"+hx.HexS(v.Unit)+":"+hx.F64(v.OrigValue)+":"+hx.HexS(v.OrigUnit))
	}
	return joinOr(l)
}

func cfgEntries(r *benchfmt.Result) []string {
	var l []string
	for _, c := range r.Config {
		fl := "I"
		if c.File {
			fl = "F"
		}
		l = append(l, hx.HexS(c.Key)+":"+hx.Hex(c.Value)+":"+fl)
	}
	return l
}

// serRec renders a record; obs carries the configuration in slot order and as a sorted map,
// sobs (spec vocabulary) only as a sorted map.
func serRec(rec benchfmt.Record) (obs, sobs string) {
	fn, line := rec.Pos()
	pos := fmt.Sprintf("f=%s l=%d", hx.HexS(fn), line)
	switch rec := rec.(type) {
	case *benchfmt.Result:
		cfg := cfgEntries(rec)
		sorted := append([]string(nil), cfg...)
		sort.Strings(sorted)
		head := fmt.Sprintf("R %s name=%s iters=%d vals=%s", pos, hx.Hex(rec.Name), rec.Iters, serVals(rec.Values))
		return head + " cfg=" + joinOr(cfg) + " map=" + joinOr(sorted), head + " map=" + joinOr(sorted)
	case *benchfmt.SyntaxError:
		s := fmt.Sprintf("E %s msg=%s", pos, hx.HexS(rec.Msg))
		return s, s
	case *benchfmt.UnitMetadata:
		s := fmt.Sprintf("U %s unit=%s key=%s orig=%s val=%s", pos, hx.HexS(rec.Unit), hx.HexS(rec.Key), hx.HexS(rec.OrigUnit), hx.HexS(rec.Value))
		return s, s
	}
	s := fmt.Sprintf("X %s type=%T", pos, rec)
	return s, s
}

func serUnits(m benchfmt.UnitMetadataMap) string {
	var l []string
	for k, u := range m {
		fn, line := u.Pos()
		_ = k
		l = append(l, fmt.Sprintf("%s:%s:%s:%s:%s:%d", hx.HexS(u.Unit), hx.HexS(u.Key), hx.HexS(u.OrigUnit), hx.HexS(u.Value), hx.HexS(fn), line))
	}
	sort.Strings(l)
	return joinOr(l)
}

type scanner interface {
	Scan() bool
	Result() benchfmt.Record
	Err() error
}

type cloneRec struct {
	c   *benchfmt.Result
	ser string
}

// scanAgain calls Scan twice more after it has returned false: it must keep returning false
// (EOF, fatal I/O error, open failure alike) — otherwise a consumer loop never ends.
func scanAgain(s scanner) int {
	again := 0
	for i := 0; i < 2; i++ {
		if s.Scan() {
			again = 1
		}
	}
	return again
}

// unitsOf returns the accumulated unit metadata map of a Reader or Files (by reference, as the
// API hands it out).
func unitsOf(s scanner) map[benchfmt.UnitMetadataKey]*benchfmt.UnitMetadata {
	switch s := s.(type) {
	case *benchfmt.Reader:
		return s.Units()
	case *benchfmt.Files:
		return s.Units()
	}
	return nil
}

// scribble overwrites everything reachable from a clone: if Clone shared anything with the
// reader, later records (or the retained clones) show it.
func scribble(c *benchfmt.Result) {
	for i := range c.Name {
		c.Name[i] = 'X'
	}
	for i := range c.Config {
		for j := range c.Config[i].Value {
			c.Config[i].Value[j] = 'X'
		}
		c.Config[i].Key, c.Config[i].File = "scribbled", !c.Config[i].File
	}
	for i := range c.Values {
		c.Values[i] = benchfmt.Value{Value: -1, Unit: "scribbled"}
	}
	c.Config = append(c.Config, benchfmt.Config{Key: "extra", Value: []byte("x")})
	c.SetConfig("scribbled", "")
	c.SetConfig("more", "y")
	c.Iters = -7
}

// consume scans to the end, emitting obs/sobs lines into out and performing the RUNTIME aliasing
// checks (a pure model cannot exhibit aliasing; nothing here is a theorem):
//   * every *Result is cloned when delivered; the clone must serialise like the original, and —
//     after the reader has run on to the end — still like that (name, iterations, values, units,
//     original values/units, config keys/values/File flags in slot order, position);
//   * a second clone of every result is scribbled over at once: the reader must not notice;
//   * *SyntaxError and *UnitMetadata records are retained WITHOUT copying (only *Result is
//     documented as overwritten by the next Scan) and must be unchanged at the end;
//   * the map returned by Units() after the first record is a live view: at the end it has the
//     same entries as Units() then.
// A *Result retained without Clone is documented to change and is not judged.
func consume(out *strings.Builder, id int, s scanner) (n int, cloneOK string, labels map[string]bool) {
	var clones []cloneRec
	type kept struct {
		rec benchfmt.Record
		ser string
	}
	var retained []kept
	var early map[benchfmt.UnitMetadataKey]*benchfmt.UnitMetadata
	cloneOK = "ok"
	labels = map[string]bool{}
	for s.Scan() {
		rec := s.Result()
		obs, sobs := serRec(rec)
		fmt.Fprintf(out, "obs %d %s\n", id, obs)
		fmt.Fprintf(out, "sobs %d %s\n", id, sobs)
		if n == 0 {
			early = unitsOf(s)
		}
		if res, ok := rec.(*benchfmt.Result); ok {
			c := res.Clone()
			co, _ := serRec(c)
			if co != obs {
				cloneOK = fmt.Sprintf("BAD-at-clone-%d", n)
			}
			clones = append(clones, cloneRec{c, co})
			scribble(res.Clone())
			if again, _ := serRec(res); again != obs && cloneOK == "ok" {
				cloneOK = fmt.Sprintf("BAD-scribble-reached-reader-%d", n)
			}
			labels[res.GetConfig(".file")] = true
		} else {
			retained = append(retained, kept{rec, obs})
		}
		n++
	}
	for i, c := range clones {
		if now, _ := serRec(c.c); now != c.ser && cloneOK == "ok" {
			cloneOK = fmt.Sprintf("BAD-at-eof-%d", i)
		}
	}
	for i, k := range retained {
		if now, _ := serRec(k.rec); now != k.ser && cloneOK == "ok" {
			cloneOK = fmt.Sprintf("BAD-retained-record-%d", i)
		}
	}
	if n > 0 && cloneOK == "ok" && serUnits(early) != serUnits(unitsOf(s)) {
		cloneOK = "BAD-units-map-not-live"
	}
	return
}

// cloneStress repeats a short text until it exceeds the scanner's initial buffer several times
// over, so that the buffer the reader's slices point into is shifted and overwritten while the
// clones are held (runtime clone check only; nothing is printed).
func cloneStress(text []byte) string {
	if len(text) == 0 || len(text) > 4096 {
		return "ok"
	}
	reps := 12000/len(text) + 1
	if reps > 600 {
		reps = 600
	}
	big := bytes.Repeat(append(append([]byte(nil), text...), '\n'), reps)
	var sink strings.Builder
	_, cl, _ := consume(&sink, 0, benchfmt.NewReader(bytes.NewReader(big), "stress"))
	if cl != "ok" {
		return "stress-" + cl
	}
	return "ok"
}

// guarded runs f with a wall-clock limit and panic recovery; on success its output is
// printed, otherwise a crash line.
func guarded(id int, caseLine string, f func(out *strings.Builder)) {
	hx.Printf("%s\n", caseLine)
	done := make(chan string, 1)
	var out strings.Builder
	go func() {
		defer func() {
			if r := recover(); r != nil {
				done <- fmt.Sprintf("panic: %v", r)
			}
		}()
		f(&out)
		done <- ""
	}()
	select {
	case msg := <-done:
		if msg != "" {
			hx.Printf("crash %d %s\n", id, strings.ReplaceAll(msg, "\n", " "))
			return
		}
		hx.Printf("%s", out.String())
	case <-time.After(20 * time.Second):
		hx.Printf("crash %d timeout: reader did not terminate within 20s\n", id)
	}
}

func tagStr(tags map[string]bool) string {
	if len(tags) == 0 {
		return "trivial"
	}
	var l []string
	for t := range tags {
		l = append(l, t)
	}
	sort.Strings(l)
	return strings.Join(l, "+")
}

var nextID int

func runReader(fn string, text []byte, extra ...string) {
	runReaderInit(fn, text, nil, nil, extra...)
}

// runReaderInit: a Reader that is Reset with tool-supplied labels (initConfig, alternating
// keys and values) — after first having read `pre` to the end when pre != nil (a REUSED reader:
// stale configuration slots, unit metadata carried over).
func runReaderInit(fn string, text []byte, init []string, pre []byte, extra ...string) {
	runReaderReuse(fn, text, init, pre, -1, extra...)
}

// runReaderReuse: like runReaderInit, but the reader is Reset after only preK records of `pre`
// have been taken (preK < 0: pre is drained) — possibly between the records of one multi-record
// line, or before any Scan. After the Reset the reader must behave like a fresh one: Result()
// is the "Scan has not been called" placeholder and the first Scan reads the NEW input.
// preFail: the io.Reader of the first input fails (after delivering all of `pre`) instead of
// reporting EOF, so the first input ends with a non-nil Err(); set by runReaderAfterIOError.
var preFail bool

type failingReader struct{}

func (failingReader) Read([]byte) (int, error) { return 0, fmt.Errorf("verif: disk on fire") }

func runReaderAfterIOError(fn string, text []byte, init []string, pre []byte, extra ...string) {
	preFail = true
	defer func() { preFail = false }()
	runReaderReuse(fn, text, init, pre, -1, append(extra, "afterioerror")...)
}

func runReaderReuse(fn string, text []byte, init []string, pre []byte, preK int, extra ...string) {
	id := nextID
	nextID++
	if !shardMine(id) {
		return
	}
	t := newTables()
	t.add(text)
	t.add(pre)
	tags := textTags(text)
	for _, e := range extra {
		tags[e] = true
	}
	if len(init) > 0 {
		tags["labels"] = true
	}
	hasPre := 0
	if pre != nil {
		tags["reused"] = true
		hasPre = 1
	}
	if pre != nil && preK >= 0 {
		tags["midreset"] = true
	}
	pf := 0
	if preFail {
		pf = 1
	}
	failing := preFail
	caseLine := fmt.Sprintf("case %d kind=r fn=%s text=%s init=%s haspre=%d prek=%d prefail=%d pre=%s %s tag=%s", id, hx.HexS(fn), hx.Hex(text),
		hx.HexListS(init), hasPre, preK, pf, hx.Hex(pre), t, tagStr(tags))
	guarded(id, caseLine, func(out *strings.Builder) {
		var r *benchfmt.Reader
		pre0 := "noresult"
		switch {
		case pre != nil:
			var src io.Reader = bytes.NewReader(pre)
			if failing {
				src = io.MultiReader(src, failingReader{})
			}
			r = benchfmt.NewReader(src, "pre")
			for k := 0; (preK < 0 || k < preK) && r.Scan(); k++ {
			}
			if failing && r.Err() == nil {
				panic("harness: the failing reader did not surface as Err()")
			}
			r.Reset(bytes.NewReader(text), fn, init...)
			// before the first Scan on the new input there is no record
			if se, ok := r.Result().(*benchfmt.SyntaxError); !ok || se.Msg != "Reader.Scan has not been called" {
				o, _ := serRec(r.Result())
				pre0 = "[" + strings.ReplaceAll(o, " ", "_") + "]"
			}
		case len(init) > 0:
			r = new(benchfmt.Reader)
			r.Reset(bytes.NewReader(text), fn, init...)
		default:
			r = benchfmt.NewReader(bytes.NewReader(text), fn)
		}
		n, cl, _ := consume(out, id, r)
		if cl == "ok" {
			cl = cloneStress(text)
		}
		ioerr := "-"
		if err := r.Err(); err != nil {
			ioerr = "ERR:" + hx.HexS(err.Error())
		}
		end := fmt.Sprintf("end n=%d failed=%s units=%s", n, ioerr, serUnits(r.Units()))
		fmt.Fprintf(out, "obs %d %s\n", id, end)
		fmt.Fprintf(out, "obs %d closed same\n", id)
		fmt.Fprintf(out, "sobs %d %s clone=%s again=%d pre0=%s\n", id, end, cl, scanAgain(r), pre0)
	})
}

type fsEntry struct {
	name    string
	content []byte
}

func runFiles(paths []string, allowStdin, allowLabels bool, fs []fsEntry, stdin []byte, extra ...string) {
	id := nextID
	nextID++
	if !shardMine(id) {
		return
	}
	t := newTables()
	tags := map[string]bool{"files": true}
	var names, contents [][]byte
	for _, e := range fs {
		t.add(e.content)
		names = append(names, []byte(e.name))
		contents = append(contents, e.content)
		for k := range textTags(e.content) {
			tags[k] = true
		}
	}
	t.add(stdin)
	for _, e := range extra {
		tags[e] = true
	}
	seen := map[string]int{}
	for _, p := range paths {
		seen[p]++
		if seen[p] == 2 {
			tags["dup"] = true
		}
		if allowLabels && strings.Contains(p, "=") {
			tags["label"] = true
		}
		if allowStdin && p == "-" {
			tags["stdin"] = true
		}
	}
	b2i := func(b bool) int {
		if b {
			return 1
		}
		return 0
	}
	caseLine := fmt.Sprintf("case %d kind=f paths=%s stdin=%d labels=%d fsn=%s fsc=%s in=%s %s tag=%s", id,
		hx.HexListS(paths), b2i(allowStdin), b2i(allowLabels), hx.HexList(names), hx.HexList(contents), hx.Hex(stdin), t, tagStr(tags))
	guarded(id, caseLine, func(out *strings.Builder) {
		dir, err := os.MkdirTemp("", "c02fs")
		if err != nil {
			panic(err)
		}
		defer os.RemoveAll(dir)
		for _, e := range fs {
			if err := os.WriteFile(filepath.Join(dir, e.name), e.content, 0o644); err != nil {
				panic(err)
			}
		}
		inPath := filepath.Join(dir, ".stdin-content")
		if err := os.WriteFile(inPath, stdin, 0o644); err != nil {
			panic(err)
		}
		in, err := os.Open(inPath)
		if err != nil {
			panic(err)
		}
		defer in.Close()
		oldIn, oldWd := os.Stdin, mustGetwd()
		os.Stdin = in
		if err := os.Chdir(dir); err != nil {
			panic(err)
		}
		defer func() { os.Stdin = oldIn; os.Chdir(oldWd) }()

		f := &benchfmt.Files{Paths: paths, AllowStdin: allowStdin, AllowLabels: allowLabels}
		n, cl, labels := consume(out, id, f)
		failed := "-"
		if err := f.Err(); err != nil {
			if pe, ok := err.(*os.PathError); ok && pe.Op == "open" {
				failed = hx.HexS(pe.Path)
				if pe.Path == "" {
					failed = "00empty"
				}
			} else {
				failed = "ERR:" + hx.HexS(err.Error())
			}
		}
		end := fmt.Sprintf("end n=%d failed=%s units=%s", n, failed, serUnits(f.Units()))
		fmt.Fprintf(out, "obs %d %s\n", id, end)
		fmt.Fprintf(out, "obs %d closed same\n", id)
		fmt.Fprintf(out, "sobs %d %s clone=%s distinct=%d again=%d\n", id, end, cl, len(labels), scanAgain(f))
	})
}

func mustGetwd() string {
	wd, err := os.Getwd()
	if err != nil {
		panic(err)
	}
	return wd
}

var shard, nshards = 0, 1

func shardMine(id int) bool { return id%nshards == shard }

// textTags names the mechanisms a text reaches (coarse, syntactic).
func textTags(text []byte) map[string]bool {
	tags := map[string]bool{}
	set := map[string]int{}
	deleted := map[string]bool{}
	for _, line := range bytes.Split(text, []byte("\n")) {
		line = bytes.TrimSuffix(line, []byte("\r"))
		switch {
		case bytes.HasPrefix(line, []byte("Benchmark")):
			if len(bytes.Fields(line)) >= 4 {
				tags["bench"] = true
			} else {
				tags["benchshort"] = true
			}
		case bytes.HasPrefix(line, []byte("Unit")):
			tags["unit"] = true
		default:
			if i := bytes.IndexByte(line, ':'); i > 0 && line[0] >= 'a' && line[0] <= 'z' {
				k := string(line[:i])
				if len(bytes.TrimSpace(line[i+1:])) == 0 {
					if set[k] > 0 {
						tags["delete"] = true
						deleted[k] = true
					}
				} else {
					if deleted[k] {
						tags["reset-after-delete"] = true
					}
					set[k]++
					tags["kv"] = true
				}
			} else if len(line) > 0 {
				tags["foreign"] = true
			}
		}
	}
	if bytes.Contains(text, []byte("\r")) {
		tags["cr"] = true
	}
	if !utf8.Valid(text) {
		tags["badutf8"] = true
	}
	for _, r := range string(text) {
		if r >= 0x80 && unicode.IsSpace(r) {
			tags["uspace"] = true
			break
		}
	}
	if len(set) > 1024 {
		tags["manykeys"] = true
	}
	return tags
}

func main() {
	defer hx.Flush()
	fmt.Sscan(os.Getenv("VERIF_SHARD"), &shard)
	fmt.Sscan(os.Getenv("VERIF_NSHARDS"), &nshards)
	if nshards < 1 {
		nshards = 1
	}
	if lines := hx.ReplayLines(); lines != nil {
		for _, l := range lines {
			replay(l)
		}
		return
	}
	generate()
}

func replay(l string) {
	get := func(k string) string { v, _ := hx.Field(l, k); return v }
	list := func(k string) [][]byte {
		v := get(k)
		if v == "-" {
			return nil
		}
		var out [][]byte
		for _, p := range strings.Split(v, ",") {
			out = append(out, hx.UnHex(p))
		}
		return out
	}
	if get("kind") == "f" {
		var paths []string
		for _, p := range list("paths") {
			paths = append(paths, string(p))
		}
		names, contents := list("fsn"), list("fsc")
		var fs []fsEntry
		for i := range names {
			fs = append(fs, fsEntry{string(names[i]), contents[i]})
		}
		runFiles(paths, get("stdin") == "1", get("labels") == "1", fs, hx.UnHex(get("in")))
		return
	}
	var init []string
	if v := get("init"); v != "" && v != "-" {
		for _, p := range list("init") {
			init = append(init, string(p))
		}
	}
	var pre []byte
	if get("haspre") == "1" {
		pre = hx.UnHex(get("pre"))
		if pre == nil {
			pre = []byte{}
		}
	}
	preK := -1
	fmt.Sscan(get("prek"), &preK)
	if get("prefail") == "1" {
		preFail = true
		defer func() { preFail = false }()
	}
	runReaderReuse(string(hx.UnHex(get("fn"))), hx.UnHex(get("text")), init, pre, preK)
}
