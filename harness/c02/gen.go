//go:build verif

package main

import (
	"fmt"
	"strings"

	"golang.org/x/perf/internal/verifh/hx"
)

// Every space the reader could meet (unicode.IsSpace is true for all of these) …
var spaces = []string{" ", " ", " ", "\t", "\v", "\f", "\r", "\u0085", "\u00a0", "\u1680", "\u2000", "\u2003", "\u200a",
	"\u2028", "\u2029", "\u202f", "\u205f", "\u3000"}

// … and look-alikes that are NOT spaces, plus malformed UTF-8.
var nonSpaces = []string{"\u200b", "\ufeff", "\u180e", "\xff", "\x80", "\xc0\x80", "\xe2\x80", "\xed\xa0\x80", "\xf4\x90\x80\x80", "\xc2"}

var keys = []string{"a", "µarch", "b", "édition", "goos", "pkg", "é", "k-1", "µ", "a.b", "x/y", "ßeta"}
var badKeys = []string{"A", "Key", "aB", "a b", " a", "É", "1", "-", ".file", "a\u2003b", "ǅ", "a\xffb", "\xffa", ""}
var values = []string{"1", "x", "x y", "linux", "v:1", " lead", "é", "\xff", "x\r", "Benchmark", ":"}
var names = []string{"X", "Foo/a=1-8", "", "é", "\xff\xfe", "Unit", "X:", "a=b"}
var units = []string{"ns/op", "MB/s", "B/op", "allocs/op", "ns", "MB", "sec/op", "x-ns/op", "ns/ns", "MBns", "é/op", "\xff", "1", "="}
var nums = []string{"1", "0", "-0", "5", "100", "1.5", "1e3", "-1e-3", "+Inf", "-Inf", "NaN", "inf", "1e999", "0x1p-2", "1_000", "x", "1x", "",
	"9223372036854775807", "9223372036854775808", "-9223372036854775808", "99999999999999999999", "99999999999999999999x", "+5", "-", "+", "1.", ".5", "１",
	"1:", ":", "5:3", "12:", "/", "1/", "9;", "7:ns",
	// decimals with a point: 16-19 significant digits (double rounding if an integer fast path
	// divided by a power of ten), exact ones, and digit strings around the int64 guard
	"934.7250546219771", "0.1234567890123456", "123456789.0123456789", "9007199254740993.5", "1.000000000000000055",
	"8.41e-1", "1.25", "0.5", "1024.0", "3.0000000000000004", "922337203685477580.7", "17.29999999999999999", "1.1.1", "1..2", ".", "5."}
var unitKeys = []string{"better=higher", "better=lower", "assume=exact", "assume=nothing", "k=", "=v", "novalue", "k=v=w", "é=é", "better=HIGHER"}
var foreign = []string{"", "PASS", "ok  \tgolang.org/x/perf\t0.1s", "--- FAIL: x", "goos linux", "Key: v", "key :v", "key:v", ":v", "key", "Unitx ns/op a=b",
	"unit ns/op a=b", "benchmarkX 1 1 ns/op", " BenchmarkX 1 1 ns/op", "=== RUN   BenchmarkX", "\xff\xfe", "U", "Un it"}
var eols = []string{"\n", "\n", "\n", "\r\n", "\r\r\n", "\n\r"}

func sp(r *hx.Rand, exotic bool) string {
	if !exotic || r.Chance(3, 4) {
		if r.Chance(1, 6) {
			return "\t"
		}
		return " "
	}
	n := 1 + r.Intn(2)
	var b strings.Builder
	for i := 0; i < n; i++ {
		b.WriteString(hx.Pick(r, spaces))
	}
	return b.String()
}

func genBench(r *hx.Rand, exotic bool) string {
	var b strings.Builder
	b.WriteString("Benchmark")
	switch r.Intn(12) {
	case 0:
		return b.String() + hx.Pick(r, names) // name only: skipped
	case 1:
		return b.String() + hx.Pick(r, names) + sp(r, exotic) // name + space: missing iteration count
	}
	b.WriteString(hx.Pick(r, names))
	if exotic && r.Chance(1, 8) {
		b.WriteString(hx.Pick(r, nonSpaces))
	}
	b.WriteString(sp(r, exotic))
	if r.Chance(5, 6) {
		b.WriteString(hx.Pick(r, []string{"1", "1", "100", "2000000000", "0", "-3"}))
	} else {
		b.WriteString(hx.Pick(r, nums))
	}
	nv := r.Intn(4)
	if r.Chance(1, 10) {
		nv = 0
	}
	for i := 0; i < nv; i++ {
		b.WriteString(sp(r, exotic))
		switch x := r.Intn(10); {
		case x < 6:
			b.WriteString(hx.Pick(r, nums[:11]))
		case x < 8:
			b.WriteString(hx.Pick(r, nums[len(nums)-16:len(nums)-4])) // decimals with a point
		default:
			b.WriteString(hx.Pick(r, nums))
		}
		if i == nv-1 && r.Chance(1, 8) {
			break // missing units
		}
		b.WriteString(sp(r, exotic))
		b.WriteString(hx.Pick(r, units))
	}
	if r.Chance(1, 6) {
		b.WriteString(sp(r, exotic))
	}
	return b.String()
}

func genKV(r *hx.Rand, exotic bool, ks []string) string {
	k := hx.Pick(r, ks)
	if exotic && r.Chance(1, 6) {
		k = hx.Pick(r, badKeys)
	}
	switch r.Intn(8) {
	case 0:
		return k + ":" // delete
	case 1:
		return k + ": " // delete with blank
	case 2:
		return k + ":\t " + hx.Pick(r, values)
	case 3:
		if exotic {
			return k + ":" + hx.Pick(r, spaces) + hx.Pick(r, values) // only blank/tab separate
		}
	}
	return k + ": " + hx.Pick(r, values)
}

func genUnit(r *hx.Rand, exotic bool) string {
	var b strings.Builder
	b.WriteString("Unit")
	if r.Chance(1, 12) {
		return b.String()
	}
	b.WriteString(sp(r, exotic))
	if r.Chance(1, 12) {
		return b.String()
	}
	b.WriteString(hx.Pick(r, units[:9]))
	n := r.Intn(4)
	for i := 0; i < n; i++ {
		b.WriteString(sp(r, exotic))
		if r.Chance(3, 4) {
			b.WriteString(hx.Pick(r, unitKeys[:4]))
		} else {
			b.WriteString(hx.Pick(r, unitKeys))
		}
	}
	return b.String()
}

// genText builds a text from the line grammar; exotic adds Unicode spaces, bad keys, odd EOLs.
func genText(r *hx.Rand, nLines int, exotic bool) []byte {
	ks := keys[:2+r.Intn(4)]
	var b strings.Builder
	for i := 0; i < nLines; i++ {
		var line string
		switch x := r.Intn(20); {
		case x < 7:
			line = genKV(r, exotic, ks)
		case x < 14:
			line = genBench(r, exotic)
		case x < 17:
			line = genUnit(r, exotic)
		default:
			line = hx.Pick(r, foreign)
		}
		b.WriteString(line)
		if i == nLines-1 && r.Chance(1, 3) {
			if r.Chance(1, 3) {
				b.WriteString("\r")
			}
			break // final line without LF
		}
		if exotic {
			b.WriteString(hx.Pick(r, eols))
		} else {
			b.WriteString("\n")
		}
	}
	return []byte(b.String())
}

// mutate damages a text bytewise: replacement, insertion, deletion, truncation (also mid-rune).
func mutate(r *hx.Rand, text []byte) []byte {
	soup := []byte("Benchmark Unit:=\t\n\r 019-+.eaZ\xc2\x85\xa0\xe2\x80\xa8\xff\x80\xe1\x9a")
	out := append([]byte(nil), text...)
	for n := 1 + r.Intn(4); n > 0 && len(out) > 0; n-- {
		i := r.Intn(len(out))
		switch r.Intn(4) {
		case 0:
			out[i] = hx.Pick(r, soup)
		case 1:
			out = append(out[:i], append([]byte{hx.Pick(r, soup)}, out[i:]...)...)
		case 2:
			out = append(out[:i], out[i+1:]...)
		case 3:
			if r.Chance(1, 4) {
				out = out[:i]
			}
		}
	}
	return out
}

func soupText(r *hx.Rand, n int) []byte {
	alpha := []string{"Benchmark", "Unit", "a", "b", ":", ": ", " ", " ", "\t", "\n", "\n", "\r", "=", "1", "5", "ns/op", "X", "\xc2\x85", "\xc2\xa0", "\xe2\x80\xa8",
		"\xe3\x80\x80", "\xff", "\x80", "\xe2\x80", "\xc2", "É", "é", "-", "e", "."}
	var b strings.Builder
	for i := 0; i < n; i++ {
		b.WriteString(hx.Pick(r, alpha))
	}
	return []byte(b.String())
}

// histories: every sequence of ≤ depth operations over {set k v, delete k} on the given keys,
// a benchmark line after every operation so that each intermediate configuration is observed.
func histories(depth int, ks []string) {
	type op struct{ line string }
	var ops []op
	for _, k := range ks {
		ops = append(ops, op{k + ": 1"}, op{k + ": 22"}, op{k + ":"})
	}
	var rec func(cur []string)
	rec = func(cur []string) {
		if len(cur) > 0 {
			var b strings.Builder
			for _, l := range cur {
				b.WriteString(l)
				b.WriteString("\nBenchmarkX 1 1 ns/op\n")
			}
			runReader("h", []byte(b.String()), "history")
		}
		if len(cur) == depth {
			return
		}
		for _, o := range ops {
			rec(append(cur[:len(cur):len(cur)], o.line))
		}
	}
	rec(nil)
}

// bigCase: more distinct keys and units than the intern table (1024) holds, with deletions
// and re-additions in between.
func bigCase(r *hx.Rand, nKeys, nUnits int) {
	var b strings.Builder
	for i := 0; i < nKeys; i++ {
		fmt.Fprintf(&b, "key%d: v%d\n", i, i)
		if i%300 == 299 {
			fmt.Fprintf(&b, "BenchmarkBig%d 1 %d ns/op\n", i, i)
		}
		if i%7 == 3 {
			fmt.Fprintf(&b, "key%d:\n", r.Intn(i+1))
		}
		if i%11 == 5 {
			fmt.Fprintf(&b, "key%d: again%d\n", r.Intn(i+1), i)
		}
	}
	b.WriteString("BenchmarkUnits 1")
	for i := 0; i < nUnits; i++ {
		fmt.Fprintf(&b, " %d unit%d", i, i)
	}
	b.WriteString("\n")
	for i := 0; i < nUnits; i += 3 {
		fmt.Fprintf(&b, "Unit unit%d better=higher k%d=v\n", i, i)
	}
	for i := 0; i < nKeys; i += 2 {
		fmt.Fprintf(&b, "key%d:\n", i)
	}
	b.WriteString("BenchmarkAfter 1 1 ns/op\n")
	runReader("big", []byte(b.String()), "big")
}

var corpusTexts = []string{
	"",
	"\n",
	"\r",
	"\r\n",
	"a: 1",
	"a: 1\r",
	"a: 1\r\r\n",
	"BenchmarkX 1 1 ns/op",
	"BenchmarkX 1 1 ns/op\n",
	"BenchmarkA 1 0 ns/op 5 ns/op\n",
	"Benchmark 1 1 ns/op\n",
	"Benchmark\n",
	"BenchmarkX\n",
	"BenchmarkX \n",
	"BenchmarkX\u00a0\n",
	"BenchmarkX\u200b 1 1 ns/op\n",
	"BenchmarkX 1\n",
	"BenchmarkX 1 1\n",
	"BenchmarkX 1 x ns/op\n",
	"BenchmarkX x 1 ns/op\n",
	"BenchmarkX 99999999999999999999 1 ns/op\n",
	"BenchmarkX 1 1e999 ns/op\n",
	"a: 1\nb: 2\nBenchmarkX 1 1 ns/op\na:\nBenchmarkX 1 1 ns/op\nc: 3\nBenchmarkX 1 1 ns/op\nb:\nb: 4\nBenchmarkX 1 1 ns/op\n",
	"a: 1\nb: 2\nc: 3\na:\nBenchmarkX 1 1 ns/op\nd: 4\nBenchmarkX 1 1 ns/op\n",
	"Unit ns/op better=lower\nUnit ns/op better=lower\nUnit ns/op better=higher\nUnit sec/op better=higher assume=exact\nUnit\nUnit ns/op x =y z=\n",
	"Unit ns/op a=1 a=1 a=2 b=1\n",
	"Unit\u2003ns/op\u2003a=1\n",
	"U\nUn\nUnitx a=b\nUnit\u200bns/op a=b\n",
	"key: v\nKey: v\nkey : v\nkey:v\nkey:\tv\nkey:\u00a0v\n:v\nké: v\nkÉ: v\né: 1\nÉ: 1\n\xffa: 1\na\xff: 1\na:: 2\n",
	"a: 1\nBenchmarkX 1 1 ns/op\n\nPASS\nBenchmarkY\nBenchmarkX 1 1 ns/op\n",
	"a: b: c\nBenchmarkX 1 1 ns/op\n",
	"a\u2028: 1\nBenchmarkX 1 1 ns/op\n",
	"a:  \t x  \nBenchmarkX 1 1 ns/op\n",
	"BenchmarkX\t1\t1\tns/op\v2\fMB/s\r\n",
	"BenchmarkX 1 1 ns/op 2\n",
	"BenchmarkX 1 1 ns/op 2 \n",
}

func generate() {
	r := hx.NewRand(2)
	// 1. corpus
	for _, t := range corpusTexts {
		runReader("c", []byte(t), "corpus")
	}
	runReader("", []byte("BenchmarkX 1\nUnit\n"), "corpus") // "<unknown>"
	// 2. set/delete/re-set histories (slot reuse)
	histories(hx.N(3, 4), []string{"a", "b", "c"})
	if hx.Tier() == "thorough" {
		histories(3, []string{"a", "b", "c", "d", "e"})
	}
	// 2b. tool labels (Reset's initConfig) against file lines with the same key: same value,
	// other value, deletion, re-set, in every order; keys with ASCII and multi-byte first letters
	labelHistories(hx.N(3, 4))
	// 2c. Reset in the MIDDLE of an input: after k records (also between the records of one
	// multi-record Unit line, and before any Scan) onto another input
	midResets()
	// 2d. many malformed lines in ONE input: every one a positioned NON-FATAL error, every
	// well-formed line after them still a result
	manyErrors()
	// 2e. a reused Reader whose previous input ENDED IN AN I/O ERROR (line over the 64 KiB token
	// limit; failing io.Reader), then Reset onto normal inputs: fresh behaviour, Err() nil again
	afterIOErrors(r)
	// 2f. long keys: 120..140, 255..257, 300 and ~1000 bytes, ASCII and multi-byte runes; set,
	// update, delete, and against a Reset label of the same name
	longKeys()
	// 3. line grammar, plain and exotic
	n := hx.N(1500, 40000)
	for i := 0; i < n; i++ {
		text := genText(r, 1+r.Intn(14), i%2 == 1)
		if i%5 == 4 {
			text = mutate(r, text)
		}
		fn := hx.Pick(r, []string{"f", "f", "a b", "é", ""})
		switch r.Intn(6) {
		case 0, 1: // tool labels whose keys and values coincide with what the text sets
			runReaderInit(fn, text, genLabels(r), nil)
		case 2: // a reused reader: other text first (drained, or left after k records), then Reset with labels
			runReaderReuse(fn, text, genLabels(r), genText(r, 1+r.Intn(8), false), r.Intn(5)-1)
		default:
			runReader(fn, text)
		}
	}
	// 4. byte soup
	n = hx.N(800, 30000)
	for i := 0; i < n; i++ {
		runReader("s", soupText(r, 1+r.Intn(30)), "soup")
	}
	// 5. beyond the intern table
	bigCase(r, 1100, 1100)
	if hx.Tier() == "thorough" {
		bigCase(r, 2500, 1500)
	}
	// 5b. lines at the bufio.Scanner token limit (64 KiB): 65535 bytes are read, 65536 are not
	longLines(r)
	// 6. several files through one Files
	filesCorpus()
	n = hx.N(600, 15000)
	for i := 0; i < n; i++ {
		genFiles(r)
	}
}

var fileNames = []string{"a", "b", "c", "a#0", "a#1", "b#0", "-", "x=a", "l=b", "=a", "a=", "a#0#0"}

// bigFiles: files well beyond one scanner buffer (> 8 KiB each) read through one Files, one of
// them twice — clones of early results are held while the buffer is refilled many times and the
// reader is Reset onto the next file.
func bigFiles() {
	mk := func(tag string, n int) []byte {
		var b strings.Builder
		for i := 0; i < n; i++ {
			fmt.Fprintf(&b, "cfg%d: %s-value-%d\n", i%7, tag, i)
			if i%5 == 0 {
				fmt.Fprintf(&b, "cfg%d:\n", (i+3)%7)
			}
			fmt.Fprintf(&b, "Unit u%s%d better=higher\n", tag, i%9)
			fmt.Fprintf(&b, "Benchmark%sName%d/sub=%d-8 %d %d.5 ns/op %d MB/s\n", tag, i, i, i+1, i, i)
		}
		return []byte(b.String())
	}
	fs := []fsEntry{{"a", mk("A", 120)}, {"b", mk("B", 150)}}
	runFiles([]string{"a", "b", "a"}, false, false, fs, nil, "bigfiles")
	runFiles([]string{"x=a", "-", "b"}, true, true, fs, mk("S", 100), "bigfiles")
}

func filesCorpus() {
	bigFiles()
	t1 := []byte("k1: v1\nUnit ns/op better=lower\nBenchmarkOne 1 1 ns/op\n")
	t2 := []byte("k2: v2\nUnit ns/op better=higher\nBenchmarkTwo 1 2 ns/op\n")
	t3 := []byte("BenchmarkThree 1 3 ns/op\n")
	fs := []fsEntry{{"a", t1}, {"b", t2}, {"a#0", t3}, {"a#1", t3}, {"-", t3}, {"x=a", t2}}
	// N4 witnesses (known finding): a path literally named q#n next to a duplicated q.
	runFiles([]string{"a", "a", "a#0"}, false, false, fs, nil, "n4")
	runFiles([]string{"a#1", "b", "a", "a"}, true, true, fs, nil, "n4")
	runFiles([]string{"a", "b", "a"}, false, false, fs, nil)
	runFiles([]string{"a", "b"}, false, false, fs, nil)
	runFiles([]string{"a", "a", "a", "b", "b"}, false, false, fs, nil)
	runFiles([]string{"l=a", "a", "l=b", "=b", "a=a"}, false, true, fs, nil)
	runFiles([]string{"x=a", "x=a"}, false, false, fs, nil)
	runFiles([]string{"x=a", "x=a"}, false, true, fs, nil)
	runFiles(nil, true, false, fs, t1)
	runFiles(nil, false, false, fs, t1)
	runFiles([]string{"-", "a", "-"}, true, false, fs, t2)
	runFiles([]string{"-", "-"}, false, false, fs, t2)
	runFiles([]string{"l=-", "-"}, true, true, fs, t2)
	runFiles([]string{"a", "missing", "b"}, false, false, fs, nil)
	runFiles([]string{""}, false, false, fs, nil)
	runFiles([]string{"l="}, false, true, fs, nil)
}

func genFiles(r *hx.Rand) {
	nf := 1 + r.Intn(4)
	var fs []fsEntry
	used := map[string]bool{}
	for i := 0; i < nf+2; i++ {
		name := hx.Pick(r, fileNames[:9])
		if used[name] {
			continue
		}
		used[name] = true
		var text []byte
		if !r.Chance(1, 8) {
			text = genText(r, 1+r.Intn(8), r.Chance(1, 4))
			if r.Chance(3, 4) {
				text = append(text, []byte("\nBenchmarkF 1 1 ns/op\n")...)
			}
		}
		fs = append(fs, fsEntry{name, text})
	}
	allowStdin, allowLabels := r.Chance(1, 3), r.Chance(1, 2)
	var paths []string
	np := r.Intn(6)
	for i := 0; i < np; i++ {
		switch x := r.Intn(12); {
		case x < 7 && len(fs) > 0:
			paths = append(paths, hx.Pick(r, fs).name)
		case x < 8:
			paths = append(paths, "-")
		case x < 10 && len(fs) > 0:
			paths = append(paths, hx.Pick(r, []string{"l", "m", "", "a", "a#0"})+"="+hx.Pick(r, fs).name)
		case x < 11 && len(paths) > 0:
			paths = append(paths, hx.Pick(r, paths)) // duplicate
		default:
			paths = append(paths, hx.Pick(r, []string{"missing", ""}))
		}
	}
	var stdin []byte
	if r.Chance(2, 3) {
		stdin = genText(r, 1+r.Intn(5), false)
		stdin = append(stdin, []byte("\nBenchmarkStdin 1 1 ns/op\n")...)
	}
	runFiles(paths, allowStdin, allowLabels, fs, stdin)
}

// longLines: lines just below, at and above bufio.MaxScanTokenSize, as key/value, benchmark and
// foreign lines, terminated by LF / CRLF / nothing, with lines before and after.
func longLines(r *hx.Rand) {
	pad := func(n int, b byte) string { return strings.Repeat(string([]byte{b}), n) }
	mk := func(kind int, total int) string {
		switch kind {
		case 0: // key: value
			return "k: " + pad(total-3, 'v')
		case 1: // benchmark line with a long name
			tail := " 1 1 ns/op"
			return "Benchmark" + pad(total-9-len(tail), 'N') + tail
		}
		return pad(total, 'x') // foreign
	}
	for kind := 0; kind < 3; kind++ {
		for _, total := range []int{65534, 65535, 65536, 65537} {
			for _, eol := range []string{"\n", "\r\n", ""} {
				if hx.Tier() != "thorough" && (total == 65534 || (eol == "\r\n" && kind == 2)) {
					continue
				}
				text := "a: 1\nBenchmarkBefore 1 1 ns/op\n" + mk(kind, total-len(strings.TrimSuffix(eol, "\n"))) + eol
				if eol != "" {
					text += "BenchmarkAfter 1 2 ns/op\nb: 2\nBenchmarkAfter2 1 2 ns/op\n"
				}
				runReader("long", []byte(text), "longline")
			}
		}
	}
	_ = r
	// through Files: the over-long line ends the whole run; the second file is never opened
	long := []byte("BenchmarkOne 1 1 ns/op\n" + pad(65536, 'z') + "\nBenchmarkNever 1 1 ns/op\n")
	ok := []byte("k: " + pad(65532, 'v') + "\nBenchmarkLongCfg 1 1 ns/op\n")
	two := []byte("BenchmarkTwo 1 2 ns/op\n")
	runFiles([]string{"a", "b"}, false, false, []fsEntry{{"a", long}, {"b", two}}, nil, "longline")
	runFiles([]string{"a", "b"}, false, false, []fsEntry{{"a", ok}, {"b", two}}, nil, "longline")
	runFiles([]string{"b", "-", "b"}, true, false, []fsEntry{{"b", two}}, long, "longline")
}

// genLabels: 0-3 label pairs over the same keys and values the line generators use.
func genLabels(r *hx.Rand) []string {
	var l []string
	for n := r.Intn(4); n > 0; n-- {
		l = append(l, hx.Pick(r, keys[:6]), hx.Pick(r, append([]string{""}, values[:6]...)))
	}
	return l
}

// labelHistories: every label configuration of two keys (absent / "1" / "22") x every sequence of
// <= depth file lines over {k: 1, k: 22, k:} for both keys, a benchmark line after each step.
// One key starts with an ASCII letter, the other with a two-byte lower-case letter.
func labelHistories(depth int) {
	ks := []string{"a", "µarch"}
	var ops []string
	for _, k := range ks {
		ops = append(ops, k+": 1", k+": 22", k+":")
	}
	labelVals := []string{"", "1", "22"}
	for _, la := range labelVals {
		for _, lb := range labelVals {
			var init []string
			if la != "" {
				init = append(init, ks[0], la)
			}
			if lb != "" {
				init = append(init, ks[1], lb)
			}
			var rec func(cur []string)
			rec = func(cur []string) {
				var b strings.Builder
				b.WriteString("BenchmarkStart 1 1 ns/op\n")
				for _, l := range cur {
					b.WriteString(l)
					b.WriteString("\nBenchmarkX 1 1 ns/op\n")
				}
				runReaderInit("h", []byte(b.String()), init, nil, "labelhistory")
				if len(cur) == depth {
					return
				}
				for _, o := range ops {
					rec(append(cur[:len(cur):len(cur)], o))
				}
			}
			rec(nil)
		}
	}
}

// midResets: first inputs whose lines yield 0, 1, 2 and 3 records x Reset after k = 0..5 records
// x second inputs x with/without labels.
func midResets() {
	pres := []string{
		"Unit ns/op better=lower assume=exact\nBenchmarkP 1 1 ns/op\n",
		"k: v\nUnit B/op a=1 bad b=2 a=3\nBenchmarkP 1 1 ns/op\nUnit MB/s better=higher\n",
		"BenchmarkP 1 1 ns/op\nBenchmarkQ 1\nk: v\nBenchmarkR 1 2 ns/op\n",
		"Unit\nUnit x =y z\n",
		"",
	}
	seconds := []string{
		"BenchmarkNew 1 5 ns/op\n",
		"j: w\nUnit ns/op better=higher c=3\nBenchmarkNew 1 5 ns/op\n",
		"PASS\n",
	}
	for _, p := range pres {
		for k := 0; k <= 5; k++ {
			for si, s := range seconds {
				var init []string
				if si == 1 {
					init = []string{"k", "label"}
				}
				runReaderReuse("second", []byte(s), init, []byte(p), k, "corpus")
			}
		}
	}
}

// manyErrors: 101 / 150 / 1000 malformed benchmark lines (go test -v style log lines
// "BenchmarkLoad: …", missing counts, bad numbers) with real results in between and after;
// 200+ bad fields on a few Unit lines; and such an input as a NON-LAST file of a Files run.
func manyErrors() {
	bad := []string{"BenchmarkLoad: loading fixture %d", "BenchmarkX%d 1", "BenchmarkX%d x 1 ns/op", "BenchmarkX%d 1 1", "BenchmarkX%d 1 z%d ns/op"}
	mk := func(n int, mixed bool) []byte {
		var b strings.Builder
		b.WriteString("goos: linux\nBenchmarkFirst 1 1 ns/op\n")
		for i := 0; i < n; i++ {
			f := bad[0]
			if mixed {
				f = bad[i%len(bad)]
			}
			fmt.Fprintf(&b, strings.ReplaceAll(f, "%d", "%[1]d")+"\n", i)
			if mixed && i%40 == 39 {
				fmt.Fprintf(&b, "BenchmarkMid%d 1 %d ns/op\nk%d: v\n", i, i, i%3)
			}
		}
		b.WriteString("BenchmarkLoad-8 5 1500 ns/op 3 MB/s\nafter: 1\nBenchmarkLast 2 2 ns/op\nBenchmarkBad\tagain\n")
		return []byte(b.String())
	}
	sizes := []int{99, 100, 101, 150}
	if hx.Tier() == "thorough" {
		sizes = append(sizes, 1000)
	}
	for _, n := range sizes {
		runReader("many", mk(n, false), "manyerrors")
		runReader("many", mk(n, true), "manyerrors")
	}
	// few Unit lines with 200+ malformed / conflicting fields
	var u strings.Builder
	u.WriteString("Unit ns/op better=lower\n")
	for l := 0; l < 3; l++ {
		u.WriteString("Unit ns/op")
		for i := 0; i < 80; i++ {
			switch i % 4 {
			case 0:
				u.WriteString(" novalue")
			case 1:
				u.WriteString(" =v")
			case 2:
				u.WriteString(" better=higher") // conflict
			default:
				fmt.Fprintf(&u, " k%d_%d=v", l, i) // new setting
			}
		}
		u.WriteString("\n")
	}
	u.WriteString("BenchmarkAfterUnits 1 1 ns/op\n")
	runReader("units", []byte(u.String()), "manyerrors")
	// through Files: the input with many errors is NOT the last file
	two := []byte("k2: v2\nBenchmarkTwo 1 2 ns/op\n")
	fs := []fsEntry{{"a", mk(150, true)}, {"b", two}, {"c", []byte(u.String())}}
	runFiles([]string{"a", "b"}, false, false, fs, nil, "manyerrors")
	runFiles([]string{"c", "a", "b", "a"}, false, false, fs, nil, "manyerrors")
	// a reused Reader: errors of the first input must not count against the second
	runReaderReuse("second", mk(101, false), nil, mk(101, true), -1, "manyerrors")
}

func afterIOErrors(r *hx.Rand) {
	long := strings.Repeat("z", 65536)
	pres := [][]byte{
		[]byte("Unit ns/op better=lower\nBenchmarkP 1 1 ns/op\n" + long + "\nBenchmarkNever 1 1 ns/op\n"),
		[]byte(long),
		[]byte("k: v\nBenchmarkP 1 1 ns/op\nk2: " + long),
	}
	seconds := []string{
		"BenchmarkNew 1 5 ns/op\n",
		"j: w\nUnit ns/op better=higher c=3\nBenchmarkNew 1 5 ns/op\nBenchmarkBad 1\n",
		"",
	}
	for _, p := range pres {
		for si, s := range seconds {
			var init []string
			if si == 1 {
				init = []string{"k", "label"}
			}
			runReaderReuse("second", []byte(s), init, p, -1, "afterioerror", "corpus")
		}
	}
	// the first input's io.Reader fails after some bytes (also mid-line)
	for _, p := range []string{"", "Unit B/op a=1\nBenchmarkP 1 1 ns/op\nk: partial", "BenchmarkP 1 1 ns/op\n"} {
		for _, s := range seconds {
			runReaderAfterIOError("second", []byte(s), nil, []byte(p), "corpus")
		}
	}
	for i := hx.N(40, 1000); i > 0; i-- {
		runReaderAfterIOError("f", genText(r, 1+r.Intn(8), false), genLabels(r), genText(r, 1+r.Intn(6), false))
	}
}

func longKeys() {
	mkKey := func(n int, multi bool) string {
		if !multi {
			return "k" + strings.Repeat("y", n-1)
		}
		// two-byte runes (é); an odd length gets one ASCII byte in front
		k := strings.Repeat("é", n/2)
		if n%2 == 1 {
			k = "e" + k
		}
		return k
	}
	var lens []int
	for n := 120; n <= 140; n++ {
		lens = append(lens, n)
	}
	lens = append(lens, 255, 256, 257, 300, 1000)
	for _, n := range lens {
		if hx.Tier() != "thorough" && n > 122 && n < 126 {
			continue
		}
		for _, multi := range []bool{false, true} {
			k := mkKey(n, multi)
			text := "BenchmarkStart 1 1 ns/op\n" +
				k + ": 1\nBenchmarkSet 1 1 ns/op\n" +
				k + ": 22\nBenchmarkUpdate 1 1 ns/op\n" +
				k + ":\nBenchmarkDelete 1 1 ns/op\n" +
				k + ": 3\nshort: x\nBenchmarkReset 1 1 ns/op\n"
			runReader("lk", []byte(text), "longkey")
			// the same key as a tool label: the file line must override it, the deletion remove it
			runReaderInit("lk", []byte(text), []string{k, "label", "short", "label"}, nil, "longkey")
			runReaderInit("lk", []byte("BenchmarkStart 1 1 ns/op\n"+k+":\nBenchmarkDelete 1 1 ns/op\n"), []string{k, "label"}, nil, "longkey")
		}
	}
}
