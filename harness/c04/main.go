//go:build verif

// C04 harness: benchunit.Tidy, the reader's normalisation rule, unit metadata lookups and
// `.unit` filter terms, all on generated units and values.
package main

import (
	"bytes"
	"fmt"
	"math"
	"os"
	"regexp"
	"sort"
	"strconv"
	"strings"
	"sync"
	"unicode"
	"unicode/utf8"

	"golang.org/x/perf/benchfmt"
	"golang.org/x/perf/benchmath"
	"golang.org/x/perf/benchproc"
	"golang.org/x/perf/benchunit"
	"golang.org/x/perf/internal/verifh/hx"
)

var id int

var shard, nshards = 0, 1

// mine reports whether the current case id belongs to this shard; generators always run (the PRNG
// stream is the same in every shard), only the evaluation is divided.
func mine() bool {
	if id < 45 { // the constants and the hand-written witness cases: shard 0 (first replays)
		if shard == 0 {
			return true
		}
		id++
		return false
	}
	if id%nshards == shard {
		return true
	}
	id++
	return false
}

func canon(f float64) string {
	if math.IsNaN(f) {
		return "7ff8000000000001"
	}
	return hx.F64(f)
}

// crashText renders a recovered panic in printable ASCII on one line (unit strings in panic
// messages may hold arbitrary bytes).
func crashText(e any) string {
	return strings.ReplaceAll(strconv.QuoteToASCII(fmt.Sprint(e)), " ", "_")
}

func sameF(a, b float64) bool { return canon(a) == canon(b) }

// ---------------------------------------------------------------- generators

var toks = []string{"ns", "MB", "B", "sec", "op", "ns2", "nsec", "MBs", "bytes", "é", "", "nsns", "s", "allocs", "n", "M"}

// separators of the unit grammar and things that look like separators but are not
var sepsAll = []string{"/", "*", "-", " ", "\t", " ", " ", "\xff", "\xc2", "\xe2\x80", "\u0085", "　", "_", "//", "*/", "/-", "- "}

// no white space (a unit inside a benchmark line is one field)
var sepsNoSpace = []string{"/", "*", "-", "\xff", "\xc2", "\xe2\x80", "_", "//", "*/", "/-", "/*", "--"}

var fixedUnits = []string{"ns*MB*ns*MB*ns*MB*ns*MB*ns*MB*ns*MB", "ns-ns-ns-ns-ns-ns-ns/MB", "ns/op", "MB/s", "B/op", "allocs/op", "sec/op", "B/s", "ns", "MB", "ns/ns", "MB/MB", "ns*MB", "ns-MB/s", "op/ns",
	"ns/op*ns", "ns/MB*ns/ns", "MB-MB-MB", "ns-ns-ns-ns", "/ns", "*ns", "-ns", "ns-", "ns/", "ns*", "nsMB", "MBns", "ns/op ", " ns/op", "MB/op",
	"ns op", "ns\xc2", "\xc2ns", "n/s", "s", "", "x", "ns/sec", "sec-ns", "MB/s/ns*MB"}

func genUnit(r *hx.Rand, seps []string, maxDepth int) string {
	if r.Chance(1, 10) {
		return hx.Pick(r, fixedUnits)
	}
	var b strings.Builder
	if r.Chance(1, 8) {
		b.WriteString(hx.Pick(r, seps))
	}
	n := 1 + r.Intn(maxDepth)
	for i := 0; i < n; i++ {
		if i > 0 {
			b.WriteString(hx.Pick(r, seps))
			if r.Chance(1, 10) {
				b.WriteString(hx.Pick(r, seps))
			}
		}
		if r.Chance(1, 2) {
			b.WriteString(toks[r.Intn(2)]) // ns, MB
		} else {
			b.WriteString(hx.Pick(r, toks))
		}
	}
	if r.Chance(1, 8) {
		b.WriteString(hx.Pick(r, seps))
	}
	return b.String()
}

func hasSpace(s string) bool {
	for _, r := range s {
		if unicode.IsSpace(r) {
			return true
		}
	}
	return false
}

func genReaderUnit(r *hx.Rand) string {
	for {
		u := genUnit(r, sepsNoSpace, 6)
		if u != "" && !hasSpace(u) {
			return u
		}
	}
}

var specialVals = []float64{0, math.Copysign(0, -1), math.Inf(1), math.Inf(-1), math.NaN(), 5e-324, 1e-320, 1, 5e300, -5e300, 1e-300, 2.5e302,
	1e9, 1e-9, 3, 0.1, 123456789, math.MaxFloat64, 0x1p-1022, 1e-6, 1e15, 1e-315}

func genVal(r *hx.Rand) float64 {
	switch r.Intn(5) {
	case 0, 1:
		return hx.Pick(r, specialVals)
	case 2:
		return math.Float64frombits(r.U64())
	case 3:
		return float64(r.Intn(100000))
	default:
		return math.Float64frombits(uint64(1023-60+r.Intn(120))<<52|r.U64()>>12) * float64(1-2*r.Intn(2))
	}
}

// tidiedName is benchunit.Tidy's unit for generator use; a panic inside the real code must not
// take the harness down (the per-case runners report it as a crash).
func tidiedName(u string) (tu string) {
	defer func() {
		if e := recover(); e != nil {
			tu = u
		}
	}()
	_, tu = benchunit.Tidy(1, u)
	return
}

// ---------------------------------------------------------------- kind=tidy

func tidyTags(u, tu string, f float64) string {
	var tags []string
	if tu != u {
		tags = append(tags, "edit")
		if f != 1e-9 && f != 1e6 {
			tags = append(tags, "multi")
		}
	} else if strings.Contains(u, "ns") || strings.Contains(u, "MB") {
		tags = append(tags, "nearmiss")
	}
	if !utf8.ValidString(u) {
		tags = append(tags, "badutf8")
	}
	switch u {
	case "ns/op", "MB/s", "B/op", "allocs/op":
		tags = append(tags, "fast")
	}
	if len(tags) == 0 {
		return "trivial"
	}
	return strings.Join(tags, "+")
}

func tidyCase(v float64, u string) {
	if !mine() {
		return
	}
	defer func() {
		if e := recover(); e != nil {
			hx.Printf("case %d kind=tidy v=%s unit=%s iu=- iv=- tag=crash\n", id, hx.F64(v), hx.HexS(u))
			hx.Printf("crash %d Tidy panicked: %s\n", id, crashText(e))
			id++
		}
	}()
	tv, tu := benchunit.Tidy(v, u)
	f, tu1 := benchunit.Tidy(1, u)
	uu, uf := benchunit.VerifTidyUnitUncached(u)
	cu, cf := benchunit.VerifTidyUnit(u)
	memo := "ok"
	tv2, tu2 := benchunit.Tidy(v, u) // second call: served from the cache
	if tu2 != tu || !sameF(tv, tv2) || tu1 != tu || cu != tu || !sameF(cf, f) {
		memo = "DIFF"
	}
	// idempotence on the implementation's own output
	iv, iu := benchunit.Tidy(tv, tu)
	idem := 0
	if iu == tu && sameF(iv, tv) {
		idem = 1
	}
	hx.Printf("case %d kind=tidy v=%s unit=%s iu=%s iv=%s tag=%s\n", id, hx.F64(v), hx.HexS(u), hx.HexS(tu), canon(tv), tidyTags(u, tu, f))
	hx.Printf("obs %d tv=%s tu=%s f=%s unc=%s:%s memo=%s\n", id, canon(tv), hx.HexS(tu), canon(f), hx.HexS(uu), canon(uf), memo)
	hx.Printf("sobs %d unit=%s val=%s base=1 idem=%d\n", id, hx.HexS(tu), canon(tv), idem)
	id++
}

// ---------------------------------------------------------------- kind=file

type fileLine struct {
	isUnit bool
	unit   string      // Unit line
	kvs    [][2]string // Unit line
	sep    string      // Unit line: blanks after the keyword and between the fields ("" = one space)
	meas   []meas      // Benchmark line
}

type meas struct {
	text string
	val  float64
	unit string
}

func numText(r *hx.Rand, v float64) string {
	switch {
	case math.IsNaN(v):
		return hx.Pick(r, []string{"NaN", "nan"})
	case math.IsInf(v, 1):
		return hx.Pick(r, []string{"+Inf", "Inf", "inf", "+Infinity"})
	case math.IsInf(v, -1):
		return hx.Pick(r, []string{"-Inf", "-inf"})
	case v == 0 && math.Signbit(v):
		return hx.Pick(r, []string{"-0", "-0.0", "-0e5"})
	case v == 0:
		return hx.Pick(r, []string{"0", "0.0", "0.00", "+0", "0e0"})
	}
	switch r.Intn(3) {
	case 0:
		return strconv.FormatFloat(v, 'g', -1, 64)
	case 1:
		return strconv.FormatFloat(v, 'e', -1, 64)
	default:
		return strconv.FormatFloat(v, 'x', -1, 64)
	}
}

// integers around the int64 / 19-digit boundary of the reader's integer fast path (seed C04-W): the
// written value must arrive as value × factor and as OrigValue whatever path parses it
var bigIntTexts = []string{"9223372036854775807", "9223372036854775808", "9999999999999999999", "10000000000000000000",
	"999999999999999999", "1000000000000000000", "9223372036854775806", "9223372036854775809", "18446744073709551615",
	"18446744073709551616", "99999999999999999999", "12345678901234567890", "09223372036854775808", "922337203685477580", "92233720368547758080"}

// valText picks a value and its text for a reader-fed measurement.
func valText(r *hx.Rand) (string, float64) {
	if r.Chance(1, 12) {
		t := hx.Pick(r, bigIntTexts)
		pv, _ := strconv.ParseFloat(t, 64)
		return t, pv
	}
	v := genVal(r)
	t := numText(r, v)
	pv, err := strconv.ParseFloat(t, 64)
	if err != nil && !math.IsInf(pv, 0) {
		panic("generator produced unparsable number " + t)
	}
	return t, pv
}

// blanks between the fields of a Unit line (seed C04-Y): ASCII controls, mixed runs, Unicode spaces
var unitBlanks = []string{"\t", "\v", "\f", " \t", "\t ", "  ", " \t \v", "\u00a0", "\u2003", "\u0085", " \u00a0", "\t\t", "\f \f", "\u3000"}

var metaKeys = []string{"better", "assume", "foo"}
var metaVals = []string{"higher", "lower", "exact", "nothing", "x", ""}

func valStr(v benchfmt.Value) string {
	return canon(v.Value) + ":" + hx.HexS(v.Unit) + ":" + canon(v.OrigValue) + ":" + hx.HexS(v.OrigUnit)
}

func quoteOrNil(m *benchfmt.UnitMetadata) string {
	if m == nil {
		return "nil"
	}
	return hx.HexS(m.OrigUnit) + ":" + hx.HexS(m.Value)
}

func fileCase(lines []fileLine, queries []string, pats []string) {
	if !mine() {
		return
	}
	var text bytes.Buffer
	var enc []string
	written := map[string]bool{}
	tagSet := map[string]bool{}
	for _, l := range lines {
		if l.isUnit {
			sep := l.sep
			if sep == "" {
				sep = " "
			} else {
				tagSet["unitblank"] = true
			}
			text.WriteString("Unit" + sep + l.unit)
			var kv []string
			for _, p := range l.kvs {
				text.WriteString(sep + p[0] + "=" + p[1])
				kv = append(kv, hx.HexS(p[0])+"="+hx.HexS(p[1]))
			}
			text.WriteString("\n")
			enc = append(enc, "U:"+hx.HexS(l.unit)+":"+strings.Join(kv, "+"))
			tagSet["meta"] = true
		} else {
			text.WriteString("BenchmarkX 1")
			var ms []string
			for _, m := range l.meas {
				text.WriteString(" " + m.text + " " + m.unit)
				ms = append(ms, hx.F64(m.val)+":"+hx.HexS(m.unit))
				written[m.unit] = true
			}
			text.WriteString("\n")
			enc = append(enc, "B:"+strings.Join(ms, "+"))
		}
	}
	caseHead := fmt.Sprintf("case %d kind=file lines=%s q=%s pat=%s", id, strings.Join(enc, ";"), hx.HexListS(queries), hx.HexListS(pats))
	defer func() {
		if e := recover(); e != nil {
			hx.Printf("%s ivals=- tag=crash\n", caseHead)
			hx.Printf("crash %d reader/filter panicked: %s\n", id, crashText(e))
			id++
		}
	}()

	rd := benchfmt.NewReader(bytes.NewReader(text.Bytes()), "f")
	var results []*benchfmt.Result
	nerr := 0
	for rd.Scan() {
		switch rec := rd.Result().(type) {
		case *benchfmt.Result:
			results = append(results, rec.Clone())
		case *benchfmt.SyntaxError:
			nerr++
		}
	}
	units := rd.Units()

	// reported values
	var ivals []string
	reported := map[string]map[string]bool{} // written unit -> reported units
	bi := 0
	shape := "ok"
	for _, l := range lines {
		if l.isUnit {
			continue
		}
		if bi >= len(results) || len(results[bi].Values) != len(l.meas) {
			shape = "BAD"
			break
		}
		var vs []string
		for i, v := range results[bi].Values {
			vs = append(vs, valStr(v))
			w := l.meas[i].unit
			if reported[w] == nil {
				reported[w] = map[string]bool{}
			}
			reported[w][v.Unit] = true
			if v.OrigUnit != "" {
				tagSet["edit"] = true
				if l.meas[i].val == 0 || math.IsInf(l.meas[i].val, 0) {
					tagSet["edit0inf"] = true
				}
				if math.IsNaN(l.meas[i].val) {
					tagSet["editnan"] = true
				}
			}
		}
		ivals = append(ivals, strings.Join(vs, "+"))
		bi++
	}
	if bi != len(results) {
		shape = "BAD"
	}
	split := 0
	for _, s := range reported {
		if len(s) > 1 {
			split = 1
		}
	}
	ivalS := "-"
	if len(ivals) > 0 {
		ivalS = strings.Join(ivals, ";")
	}

	// metadata map, canonical order
	var metas []string
	for k, m := range units {
		metas = append(metas, hx.HexS(k.Unit)+":"+hx.HexS(k.Key)+":"+hx.HexS(m.OrigUnit)+":"+hx.HexS(m.Value))
		if m.Unit != k.Unit || m.Key != k.Key {
			shape = "BADKEY"
		}
	}
	sort.Strings(metas)
	metaS := "-"
	if len(metas) > 0 {
		metaS = strings.Join(metas, ",")
	}

	// lookups: by the unit as given, and by its tidied form
	var gets, assumes, betters, looks []string
	metaeq := 1
	for _, q := range queries {
		_, tq := benchunit.Tidy(1, q)
		var g []string
		for _, k := range metaKeys {
			a, b := units.Get(q, k), units.Get(tq, k)
			g = append(g, quoteOrNil(a))
			if a != b {
				metaeq = 0
			}
			if a == nil {
				looks = append(looks, "nil")
			} else {
				looks = append(looks, hx.HexS(a.Value))
				if tq != q {
					tagSet["metatidy"] = true
				}
			}
		}
		gets = append(gets, strings.Join(g, "/"))
		as := 0
		if units.GetAssumption(q) != units.GetAssumption(tq) {
			metaeq = 0
		}
		if units.GetAssumption(q) == benchmath.Assumption(benchmath.AssumeExact) {
			as = 1
		}
		assumes = append(assumes, strconv.Itoa(as))
		betters = append(betters, strconv.Itoa(units.GetBetter(q)))
		if units.Get(q, "better") != nil && units.GetBetter(q) != units.GetBetter(tq) {
			metaeq = 0
		}
	}
	join := func(l []string) string {
		if len(l) == 0 {
			return "-"
		}
		return strings.Join(l, ",")
	}

	// .unit filters
	var filts []string
	for _, p := range pats {
		f, err := benchproc.NewFilter(".unit:" + strconv.Quote(p))
		if err != nil {
			filts = append(filts, "!err")
			continue
		}
		var per []string
		for _, res := range results {
			m, _ := f.Match(res)
			var bits strings.Builder
			for i := range res.Values {
				if m.Test(i) {
					bits.WriteByte('1')
					tagSet["filt"] = true
					if res.Values[i].OrigUnit == p {
						tagSet["filtorig"] = true
					}
				} else {
					bits.WriteByte('0')
				}
			}
			per = append(per, bits.String())
		}
		if len(per) == 0 {
			per = []string{"-"}
		}
		filts = append(filts, strings.Join(per, "/"))
	}

	var tags []string
	for t := range tagSet {
		tags = append(tags, t)
	}
	sort.Strings(tags)
	if len(tags) == 0 {
		tags = []string{"trivial"}
	}
	hx.Printf("%s ivals=%s tag=%s\n", caseHead, ivalS, strings.Join(tags, "+"))
	hx.Printf("obs %d shape=%s vals=%s\n", id, shape, ivalS)
	hx.Printf("obs %d meta=%s errs=%d\n", id, metaS, nerr)
	hx.Printf("obs %d get=%s assume=%s better=%s\n", id, join(gets), join(assumes), join(betters))
	hx.Printf("obs %d filt=%s\n", id, join(filts))
	hx.Printf("sobs %d rep=%s base=1 split=%d\n", id, ivalS, split)
	hx.Printf("sobs %d look=%s metaeq=%d\n", id, join(looks), metaeq)
	hx.Printf("sobs %d filt=%s\n", id, join(filts))
	id++
}

func genFile(r *hx.Rand) {
	// a small pool of units so that the same unit recurs with different values
	pool := make([]string, 1+r.Intn(4))
	for i := range pool {
		pool[i] = genReaderUnit(r)
	}
	var lines []fileLine
	nl := 1 + r.Intn(5)
	for i := 0; i < nl; i++ {
		if r.Chance(1, 3) {
			u := hx.Pick(r, pool)
			if r.Chance(1, 3) { // name the tidied unit instead of the written one
				u = tidiedName(u)
			}
			l := fileLine{isUnit: true, unit: u}
			if r.Chance(1, 2) { // the format separates fields by any white space
				l.sep = hx.Pick(r, unitBlanks)
			}
			for j := 1 + r.Intn(2); j > 0; j-- {
				l.kvs = append(l.kvs, [2]string{hx.Pick(r, metaKeys), hx.Pick(r, metaVals)})
			}
			lines = append(lines, l)
		} else {
			l := fileLine{}
			for j := 1 + r.Intn(4); j > 0; j-- {
				t, pv := valText(r)
				l.meas = append(l.meas, meas{t, pv, hx.Pick(r, pool)})
			}
			lines = append(lines, l)
		}
	}
	var queries, pats []string
	for _, u := range pool {
		tu := tidiedName(u)
		queries = append(queries, u, tu)
		pats = append(pats, u, tu)
	}
	queries = append(queries, genUnit(r, sepsAll, 3), hx.Pick(r, fixedUnits))
	pats = append(pats, hx.Pick(r, fixedUnits))
	fileCase(lines, queries, pats)
}

// filterQuery builds the query of a filter kind: u / nu (exact `.unit` term, plain / negated), name,
// re-MODE / nre-MODE (regexp `.unit` term built from a literal), anything else: `*`.
//
// comb (set by the generators around a case) combines that `.unit` term U with a whole-result term W:
// <op>-<w>-<order>, op = or | nor | and | nand, w = name (.name:Keep, true for results named Keep),
// goosT (goos:linux, true: every file starts with `goos: linux`), goosF (goos:plan9, false),
// order = wu | uw. The per-measurement meaning is the boolean combination.
var comb = "none"

// effComb is the combination that actually applies to a filter kind (none for `*` and `.name`).
func effComb(fkind string) string {
	if fkind == "name" || fkind == "all" || len(strings.Split(comb, "-")) != 3 {
		return "none"
	}
	return comb
}

var combs = []string{"or-name-wu", "or-name-uw", "or-goosT-wu", "or-goosT-uw", "or-goosF-wu", "or-goosF-uw", "nor-name-wu", "nor-name-uw",
	"nor-goosT-uw", "nor-goosF-wu", "and-name-wu", "and-name-uw", "and-goosF-wu", "and-goosF-uw", "and-goosT-uw", "nand-name-wu", "nand-goosF-uw"}

// withComb runs a case generator with a random combination, 1 time in 3.
func withComb(r *hx.Rand, f func()) {
	if r.Chance(1, 3) {
		comb = hx.Pick(r, combs)
	}
	f()
	comb = "none"
}

func filterQuery(fkind, pat string) (query string, tag string) {
	defer func() {
		parts := strings.Split(comb, "-")
		if len(parts) != 3 || query == "*" || fkind == "name" {
			return
		}
		w := map[string]string{"name": ".name:Keep", "goosT": "goos:linux", "goosF": "goos:plan9"}[parts[1]]
		a, b := w, query
		if parts[2] == "uw" {
			a, b = query, w
		}
		op := " OR "
		if parts[0] == "and" || parts[0] == "nand" {
			op = " AND "
		}
		query = "(" + a + op + b + ")"
		if parts[0] == "nor" || parts[0] == "nand" {
			query = "-" + query
		}
		if tag == "" {
			tag = "comb"
		} else {
			tag += "+comb"
		}
	}()
	switch fkind {
	case "u":
		query = ".unit:" + strconv.Quote(pat)
	case "nu":
		query = "-.unit:" + strconv.Quote(pat)
	case "name":
		query = ".name:" + pat
	case "list", "nlist", "chain", "nchain":
		// an OR of literal `.unit` terms: `.unit:("a" OR "b")` or `(.unit:"a" OR .unit:"b")`; pat holds the
		// literals separated by newlines
		var qs []string
		for _, p := range strings.Split(pat, "\n") {
			if fkind == "list" || fkind == "nlist" {
				qs = append(qs, strconv.Quote(p))
			} else {
				qs = append(qs, ".unit:"+strconv.Quote(p))
			}
		}
		if fkind == "list" || fkind == "nlist" {
			query = ".unit:(" + strings.Join(qs, " OR ") + ")"
		} else {
			query = "(" + strings.Join(qs, " OR ") + ")"
		}
		if fkind[0] == 'n' {
			query = "-" + query
		}
		tag = "unitlist"
	case "re-prefix", "re-exact", "re-sub", "re-suffix", "nre-prefix", "nre-exact", "nre-sub", "nre-suffix":
		// a regexp `.unit` term built from a literal, so that the driver can decide it without a
		// regexp engine: ^lit, ^lit$, lit, lit$ (the "/" delimiter escaped)
		lit := strings.ReplaceAll(regexp.QuoteMeta(pat), "/", `\/`)
		switch fkind[strings.IndexByte(fkind, '-')+1:] {
		case "prefix":
			lit = "^" + lit
		case "exact":
			lit = "^" + lit + "$"
		case "suffix":
			lit = lit + "$"
		}
		query = ".unit:/" + lit + "/"
		if fkind[0] == 'n' {
			query = "-" + query
		}
		tag = "regexp"
	default:
		query = "*"
	}
	return
}

// ---------------------------------------------------------------- kind=hist

// A history on ONE Reader: several files (Reset between them), and after every result the caller
// applies a benchproc Filter IN PLACE to the Reader's own Result (no Clone), as cmd/benchfilter
// does. Every line is observed right after Scan (fresh), then matched and filtered; the oracle
// judges each line on its own, whatever earlier lines and truncations left behind.
type histLine struct {
	name string
	meas []meas
}

func joinOr(l []string, sep string) string {
	if len(l) == 0 {
		return "-"
	}
	return strings.Join(l, sep)
}

func histCase(files [][]histLine, fkind, pat string) {
	if !mine() {
		return
	}
	var fenc []string
	for _, f := range files {
		var lenc []string
		for _, l := range f {
			var ms []string
			for _, m := range l.meas {
				ms = append(ms, hx.F64(m.val)+":"+hx.HexS(m.unit))
			}
			lenc = append(lenc, "N"+hx.HexS(l.name)+":"+strings.Join(ms, "+"))
		}
		fenc = append(fenc, strings.Join(lenc, ";"))
	}
	head := fmt.Sprintf("case %d kind=hist files=%s fk=%s pat=%s comb=%s", id, strings.Join(fenc, "|"), fkind, hx.HexS(pat), effComb(fkind))
	defer func() {
		if e := recover(); e != nil {
			hx.Printf("%s ivals=- tag=crash\n", head)
			hx.Printf("crash %d reader/filter panicked: %s\n", id, crashText(e))
			id++
		}
	}()
	query, tagSet0 := filterQuery(fkind, pat)
	flt, err := benchproc.NewFilter(query)
	if err != nil {
		panic("generator produced a bad filter " + query + ": " + err.Error())
	}
	tagSet := map[string]bool{}
	if len(files) > 1 {
		tagSet["reset"] = true
	}
	if tagSet0 != "" {
		tagSet[tagSet0] = true
	}
	shape := "ok"
	var rd *benchfmt.Reader
	var freshF, keptF, afterF []string
	// aliasing: the strings of every Value as delivered are kept (struct copy, no Clone) and compared
	// at the end of the history with their rendering at delivery time
	var heldV []benchfmt.Value
	var heldS []string
	// what the Reader's backing array holds (mechanism tag only): slot i last held a rescaled value
	var slotRescaled []bool
	curLen := 0
	for fi, f := range files {
		var text bytes.Buffer
		text.WriteString("goos: linux\n")
		for _, l := range f {
			text.WriteString("Benchmark" + l.name + " 1")
			for _, m := range l.meas {
				text.WriteString(" " + m.text + " " + m.unit)
			}
			text.WriteString("\n")
		}
		if fi == 0 {
			rd = benchfmt.NewReader(bytes.NewReader(text.Bytes()), "f0")
		} else {
			rd.Reset(bytes.NewReader(text.Bytes()), fmt.Sprintf("f%d", fi))
			curLen = 0
		}
		var freshL, keptL, afterL []string
		li := 0
		for rd.Scan() {
			res, ok := rd.Result().(*benchfmt.Result)
			if !ok || li >= len(f) || len(res.Values) != len(f[li].meas) {
				shape = "BAD"
				li++
				continue
			}
			var fr []string
			for i, v := range res.Values {
				fr = append(fr, valStr(v))
				heldV = append(heldV, v)
				heldS = append(heldS, valStr(v))
				changed := tidiedName(f[li].meas[i].unit) != f[li].meas[i].unit
				if changed {
					tagSet["edit"] = true
				}
				for len(slotRescaled) <= i {
					slotRescaled = append(slotRescaled, false)
				}
				if i >= curLen && slotRescaled[i] && !changed {
					tagSet["reuse"] = true // a plain unit lands in a slot that was cut off while holding a rescaled one
				}
				slotRescaled[i] = changed
			}
			freshL = append(freshL, joinOr(fr, "+"))
			m, _ := flt.Match(res)
			var bits strings.Builder
			for i := range res.Values {
				if m.Test(i) {
					bits.WriteByte('1')
				} else {
					bits.WriteByte('0')
				}
				if tagSet0 == "regexp" && res.Values[i].OrigUnit != "" {
					a, b := litMatch(fkind, pat, res.Values[i].Unit), litMatch(fkind, pat, res.Values[i].OrigUnit)
					switch {
					case a && !b:
						tagSet["rebase"] = true // the regexp matches only the base spelling
					case !a && b:
						tagSet["rewritten"] = true // only the written spelling
					case a && b:
						tagSet["reboth"] = true
					}
				}
			}
			keptL = append(keptL, bits.String())
			n0 := len(res.Values)
			flt.Apply(res) // in place, on the Reader's own Result
			if len(res.Values) < n0 {
				tagSet["trunc"] = true
			}
			curLen = len(res.Values)
			var af []string
			for _, v := range res.Values {
				af = append(af, valStr(v))
			}
			afterL = append(afterL, joinOr(af, "+"))
			li++
		}
		if li != len(f) {
			shape = "BAD"
		}
		freshF = append(freshF, joinOr(freshL, ";"))
		keptF = append(keptF, joinOr(keptL, ";"))
		afterF = append(afterF, joinOr(afterL, ";"))
	}
	var tags []string
	for t := range tagSet {
		tags = append(tags, t)
	}
	sort.Strings(tags)
	if len(tags) == 0 {
		tags = []string{"trivial"}
	}
	fresh := strings.Join(freshF, "|")
	alias := "ok"
	for i, v := range heldV {
		if valStr(v) != heldS[i] {
			alias = fmt.Sprintf("CHANGED-%d", i)
			break
		}
	}
	hx.Printf("%s ivals=%s tag=%s\n", head, fresh, strings.Join(tags, "+"))
	hx.Printf("obs %d shape=%s alias=%s fresh=%s\n", id, shape, alias, fresh)
	hx.Printf("obs %d kept=%s after=%s\n", id, strings.Join(keptF, "|"), strings.Join(afterF, "|"))
	hx.Printf("sobs %d rep=%s base=1 alias=%s\n", id, fresh, alias)
	hx.Printf("sobs %d kept=%s\n", id, strings.Join(keptF, "|"))
	id++
}

// litMatch decides the literal-built regexp of a re-*/nre-* filter kind on one spelling (tags only).
func litMatch(fkind, lit, u string) bool {
	switch fkind[strings.IndexByte(fkind, '-')+1:] {
	case "prefix":
		return strings.HasPrefix(u, lit)
	case "exact":
		return u == lit
	case "suffix":
		return strings.HasSuffix(u, lit)
	}
	return strings.Contains(u, lit)
}

func isPlainASCII(s string) bool {
	for i := 0; i < len(s); i++ {
		if s[i] < 0x21 || s[i] > 0x7e {
			return false
		}
	}
	return true
}

var reLits = []string{"sec", "B/s", "B", "ns", "MB", "ns/op", "sec/op", "MB/s", "/op", "op", "s", "n", "zz", "sec/", "B/", "/s", "c", "e"}

var plainUnits = []string{"widgets/op", "allocs/op", "sec/op", "B/s", "B/op", "op/ns", "nsec", "x"}
var scaledUnits = []string{"ns/op", "MB/s", "ns", "MB", "ns-MB", "MB*ns/op", "ns/ns"}

func genHist(r *hx.Rand) {
	pool := []string{hx.Pick(r, scaledUnits), hx.Pick(r, plainUnits), genReaderUnit(r)}
	if r.Bool() {
		pool = append(pool, hx.Pick(r, scaledUnits), hx.Pick(r, plainUnits))
	}
	nf := 1 + r.Intn(3)
	files := make([][]histLine, nf)
	for fi := range files {
		for j := 1 + r.Intn(4); j > 0; j-- {
			l := histLine{name: hx.Pick(r, []string{"Keep", "Skip"})}
			for k := 1 + r.Intn(4); k > 0; k-- {
				t, pv := valText(r)
				l.meas = append(l.meas, meas{t, pv, hx.Pick(r, pool)})
			}
			files[fi] = append(files[fi], l)
		}
	}
	switch r.Intn(9) {
	case 6, 7, 8:
		lit := hx.Pick(r, reLits)
		if r.Chance(1, 3) {
			if u := hx.Pick(r, pool); isPlainASCII(u) {
				lit = u
				if t := tidiedName(u); r.Bool() && isPlainASCII(t) {
					lit = t
				}
			}
		}
		k := hx.Pick(r, []string{"prefix", "prefix", "exact", "sub", "suffix"})
		if r.Chance(1, 3) {
			histCase(files, "nre-"+k, lit)
		} else {
			histCase(files, "re-"+k, lit)
		}
	case 0, 1:
		u := hx.Pick(r, pool)
		if r.Bool() {
			u = tidiedName(u)
		}
		histCase(files, "nu", u)
	case 2, 3:
		u := hx.Pick(r, pool)
		if r.Bool() {
			u = tidiedName(u)
		}
		histCase(files, "u", u)
	case 4:
		histCase(files, "name", "Keep")
	default:
		histCase(files, "all", "")
	}
}

// ---------------------------------------------------------------- kind=seq

// A history of benchunit.Tidy calls in ONE process on units the package-level cache has never
// seen (a per-process counter makes them fresh): every call must equal the stateless specification
// whatever was tidied before it. Families: a unit and its own tidied form in both orders; more than
// 300 distinct slow-path units and then the early ones again; long units (many edits: the edits
// slice outgrows its initial capacity, the parser object walks many tokens).
var freshCounter int

func freshTok() string {
	freshCounter++
	return fmt.Sprintf("q%dx%d", shard, freshCounter)
}

func seqCase(v float64, units []string, tag string) {
	if !mine() {
		return
	}
	head := fmt.Sprintf("case %d kind=seq v=%s units=%s", id, hx.F64(v), hx.HexListS(units))
	defer func() {
		if e := recover(); e != nil {
			hx.Printf("%s iseq=- tag=crash\n", head)
			hx.Printf("crash %d Tidy panicked: %s\n", id, crashText(e))
			id++
		}
	}()
	var out []string
	for _, u := range units {
		tv, tu := benchunit.Tidy(v, u)
		out = append(out, canon(tv)+":"+hx.HexS(tu))
	}
	o := joinOr(out, ",")
	hx.Printf("%s iseq=%s tag=%s\n", head, o, tag)
	hx.Printf("obs %d seq=%s\n", id, o)
	hx.Printf("sobs %d seq=%s base=1\n", id, o)
	id++
}

func genSeq(r *hx.Rand, i int) {
	v := genVal(r)
	q := freshTok()
	switch i % 4 {
	case 0: // written form first, then its tidied form (which still needs the slow path), then both again
		u, tu := "ns/ns-"+q, "sec/ns-"+q
		seqCase(v, []string{u, tu, u, tu}, "pairfwd")
	case 1: // tidied form first
		u, tu := "MB*"+q+"/MB", "B*"+q+"/MB"
		seqCase(v, []string{tu, u, tu, u}, "pairrev")
	case 2: // > 300 distinct slow-path units, then the early ones again
		var us []string
		n := 300 + r.Intn(40)
		for k := 0; k < n; k++ {
			us = append(us, hx.Pick(r, []string{"ns-", "MB-", "ns/ns-", "x/MB*ns-", "nsec-MB-"})+q+"k"+strconv.Itoa(k))
		}
		us = append(us, us[:20]...)
		us = append(us, us[n-5:n]...)
		seqCase(v, us, "many")
	default: // long units: 5..40 components
		var b strings.Builder
		n := 5 + r.Intn(36)
		for k := 0; k < n; k++ {
			if k > 0 {
				b.WriteString(hx.Pick(r, []string{"*", "-", "/", "*", " "}))
			}
			b.WriteString(hx.Pick(r, []string{"ns", "MB", "ns", "MB", "sec", "nsec", q}))
		}
		u := b.String()
		seqCase(v, []string{u, u + "-" + q, u}, "long")
	}
}

// ---------------------------------------------------------------- kind=conc

// Concurrent first use: G goroutines, released together, meet FRESH slow-path units (unique per case
// and round, so the package-level cache has never seen them); half call benchunit.Tidy, half read a
// one-line input through their own benchfmt.Reader. Per unit the set of distinct results over the
// goroutines is reported; the specification allows exactly one result per kind, the stateless one.
const concG = 8

func concCase(r *hx.Rand, rounds int) {
	if !mine() {
		return
	}
	v := hx.Pick(r, []float64{3, 100, 0, 2.5, 1e300, 7e-320, 123456789})
	text := strconv.FormatFloat(v, 'g', -1, 64)
	var units []string
	for k := 0; k < rounds; k++ {
		for j := 0; j < 4; j++ {
			// long units: the slow path takes a while, which is the window a half-published cache
			// entry would be visible in
			var b strings.Builder
			n := 6 + r.Intn(20)
			for c := 0; c < n; c++ {
				if c > 0 {
					b.WriteString(hx.Pick(r, []string{"*", "-", "/", "*"}))
				}
				b.WriteString(hx.Pick(r, []string{"ns", "MB", "ns", "sec", "nsec", "op"}))
			}
			units = append(units, fmt.Sprintf("%s-c%dr%du%d", b.String(), id, k, j))
		}
	}
	head := fmt.Sprintf("case %d kind=conc v=%s units=%s", id, hx.F64(v), hx.HexListS(units))
	results := make([][concG]string, len(units))
	for base := 0; base < len(units); base += 4 {
		start := make(chan struct{})
		var wg sync.WaitGroup
		for g := 0; g < concG; g++ {
			wg.Add(1)
			go func(g int) {
				defer wg.Done()
				defer func() {
					if e := recover(); e != nil {
						for j := 0; j < 4; j++ {
							if results[base+j][g] == "" {
								results[base+j][g] = "PANIC:" + crashText(e)
							}
						}
					}
				}()
				<-start
				// every goroutine walks the four units of the round, starting at a different one
				for jj := 0; jj < 4; jj++ {
					j := (jj + g) % 4
					u := units[base+j]
					if g%2 == 0 {
						tv, tu := benchunit.Tidy(v, u)
						results[base+j][g] = "T:" + canon(tv) + ":" + hx.HexS(tu)
					} else {
						rd := benchfmt.NewReader(strings.NewReader("BenchmarkX 1 "+text+" "+u+"\n"), "c")
						res := "R:none"
						for rd.Scan() {
							if rr, ok := rd.Result().(*benchfmt.Result); ok && len(rr.Values) == 1 {
								res = "R:" + valStr(rr.Values[0])
							} else {
								res = "R:bad"
							}
						}
						results[base+j][g] = res
					}
				}
			}(g)
		}
		close(start)
		wg.Wait()
	}
	bad := false
	var out []string
	for i := range units {
		set := map[string]bool{}
		for g := 0; g < concG; g++ {
			set[results[i][g]] = true
		}
		var l []string
		for k := range set {
			l = append(l, k)
		}
		sort.Strings(l)
		if len(l) != 2 {
			bad = true
		}
		out = append(out, strings.Join(l, "/"))
	}
	_ = bad
	o := joinOr(out, ",")
	hx.Printf("%s tag=conc\n", head)
	hx.Printf("obs %d conc=%s\n", id, o)
	hx.Printf("sobs %d conc=%s\n", id, o)
	id++
}

// ---------------------------------------------------------------- kind=keep

// Matches that are kept: ONE Filter looks at 2-4 results with different unit layouts; all Matches
// are taken first and only then read (Test/Any/All/Apply). Each kept Match must still be the verdict
// for ITS result. conc=1: two goroutines do this at the same time on the same Filter.
func keepCase(lines []histLine, fkind, pat string, conc bool) {
	if !mine() {
		return
	}
	var lenc []string
	var text bytes.Buffer
	text.WriteString("goos: linux\n")
	for _, l := range lines {
		var ms []string
		text.WriteString("Benchmark" + l.name + " 1")
		for _, m := range l.meas {
			ms = append(ms, hx.F64(m.val)+":"+hx.HexS(m.unit))
			text.WriteString(" " + m.text + " " + m.unit)
		}
		text.WriteString("\n")
		lenc = append(lenc, "N"+hx.HexS(l.name)+":"+strings.Join(ms, "+"))
	}
	c := 0
	if conc {
		c = 1
	}
	head := fmt.Sprintf("case %d kind=keep files=%s fk=%s pat=%s conc=%d comb=%s", id, strings.Join(lenc, ";"), fkind, hx.HexS(pat), c, effComb(fkind))
	defer func() {
		if e := recover(); e != nil {
			hx.Printf("%s ivals=- tag=crash\n", head)
			hx.Printf("crash %d reader/filter panicked: %s\n", id, crashText(e))
			id++
		}
	}()
	query, qtag := filterQuery(fkind, pat)
	flt, err := benchproc.NewFilter(query)
	if err != nil {
		panic("generator produced a bad filter " + query + ": " + err.Error())
	}
	rd := benchfmt.NewReader(bytes.NewReader(text.Bytes()), "k")
	var results []*benchfmt.Result
	for rd.Scan() {
		if res, ok := rd.Result().(*benchfmt.Result); ok {
			results = append(results, res.Clone())
		}
	}
	shape := "ok"
	if len(results) != len(lines) {
		shape = "BAD"
	}
	var fresh []string
	for _, res := range results {
		var fr []string
		for _, v := range res.Values {
			fr = append(fr, valStr(v))
		}
		fresh = append(fresh, joinOr(fr, "+"))
	}
	// one worker: take every Match, wait, then read them
	worker := func(barrier func()) string {
		// every worker matches its own clones: the Filter is what is shared. (A Result is not: a file-key
		// term makes Match build the Result's lazy config index, ConfigIndex, i.e. write to it.)
		results := func() []*benchfmt.Result {
			var l []*benchfmt.Result
			for _, res := range results {
				l = append(l, res.Clone())
			}
			return l
		}()
		ms := make([]benchproc.Match, len(results))
		for i, res := range results {
			ms[i], _ = flt.Match(res)
		}
		barrier()
		var out []string
		for i, res := range results {
			var bits strings.Builder
			for j := range res.Values {
				if ms[i].Test(j) {
					bits.WriteByte('1')
				} else {
					bits.WriteByte('0')
				}
			}
			cl := res.Clone()
			ok := ms[i].Apply(cl)
			var af []string
			for _, v := range cl.Values {
				af = append(af, valStr(v))
			}
			out = append(out, fmt.Sprintf("%s:%v:%v:%v:%s", bits.String(), ms[i].Any(), ms[i].All(), ok, joinOr(af, "+")))
		}
		return joinOr(out, ";")
	}
	var outs []string
	if conc {
		var wg, bar sync.WaitGroup
		bar.Add(2)
		res2 := make([]string, 2)
		for g := 0; g < 2; g++ {
			wg.Add(1)
			go func(g int) {
				defer wg.Done()
				defer func() {
					if e := recover(); e != nil {
						res2[g] = "PANIC:" + crashText(e)
					}
				}()
				res2[g] = worker(func() { bar.Done(); bar.Wait() })
			}(g)
		}
		wg.Wait()
		outs = res2
	} else {
		outs = []string{worker(func() {})}
	}
	tags := []string{"keep"}
	if qtag != "" {
		tags = append(tags, qtag)
	}
	if conc {
		tags = append(tags, "keepconc")
	}
	hx.Printf("%s ivals=%s tag=%s\n", head, joinOr(fresh, ";"), strings.Join(tags, "+"))
	hx.Printf("obs %d shape=%s kept=%s\n", id, shape, strings.Join(outs, "|"))
	hx.Printf("sobs %d kept=%s\n", id, strings.Join(outs, "|"))
	id++
}

func genKeep(r *hx.Rand) {
	pool := []string{"ns/op", "sec/op", hx.Pick(r, scaledUnits), hx.Pick(r, plainUnits), "B/op"}
	if r.Bool() {
		pool = append(pool, genReaderUnit(r), "MB/s", "B/s")
	}
	var lines []histLine
	for j := 2 + r.Intn(3); j > 0; j-- {
		l := histLine{name: hx.Pick(r, []string{"Keep", "Skip"})}
		for k := 1 + r.Intn(4); k > 0; k-- {
			t, pv := valText(r)
			l.meas = append(l.meas, meas{t, pv, hx.Pick(r, pool)})
		}
		lines = append(lines, l)
	}
	u := hx.Pick(r, pool)
	if r.Bool() {
		u = tidiedName(u)
	}
	conc := r.Chance(1, 4)
	switch r.Intn(8) {
	case 0, 1, 2:
		keepCase(lines, "u", u, conc)
	case 3, 4:
		keepCase(lines, "nu", u, conc)
	case 5:
		keepCase(lines, "re-"+hx.Pick(r, []string{"prefix", "exact", "sub", "suffix"}), hx.Pick(r, reLits), conc)
	case 6:
		keepCase(lines, "nre-"+hx.Pick(r, []string{"prefix", "sub"}), hx.Pick(r, reLits), conc)
	default:
		keepCase(lines, "name", "Keep", conc)
	}
}

// wide results: exactly 32·k measurements (and the neighbours) — the mask words of a Match are full.
var wideNs = []int{31, 32, 33, 63, 64, 65, 96, 128}

func genWide(r *hx.Rand, n int) {
	mk := func(special map[int]string) histLine {
		l := histLine{name: "Keep"}
		for i := 0; i < n; i++ {
			u := fmt.Sprintf("m%02d/op", i)
			if sp, ok := special[i]; ok {
				u = sp
			}
			v := float64(1 + r.Intn(1000))
			l.meas = append(l.meas, meas{strconv.FormatFloat(v, 'g', -1, 64), v, u})
		}
		return l
	}
	spell := []string{"ns/op", "sec/op", "MB/s", "B/s", "ns/op"}
	special := map[int]string{}
	lastWord := 32 * ((n - 1) / 32)
	switch r.Intn(5) {
	case 0: // matches only in the last mask word
		for k := 1 + r.Intn(3); k > 0; k-- {
			special[lastWord+r.Intn(n-lastWord)] = hx.Pick(r, spell)
		}
	case 1: // only in the first word
		for k := 1 + r.Intn(3); k > 0; k-- {
			special[r.Intn(min(n, 32))] = hx.Pick(r, spell)
		}
	case 2: // scattered
		for k := 1 + r.Intn(8); k > 0; k-- {
			special[r.Intn(n)] = hx.Pick(r, spell)
		}
	case 3: // none
	default: // every measurement in one spelling family
		for i := 0; i < n; i++ {
			special[i] = hx.Pick(r, []string{"ns/op", "sec/op"})
		}
	}
	lines := []histLine{mk(special)}
	if r.Bool() {
		small := histLine{name: "Keep", meas: []meas{{"5", 5, "sec/op"}, {"7", 7, "m00/op"}, {"0", 0, "ns/op"}}}
		if r.Bool() {
			lines = append(lines, small)
		} else {
			lines = append([]histLine{small}, lines...)
		}
	}
	type fp struct{ k, p string }
	f := hx.Pick(r, []fp{{"u", "ns/op"}, {"u", "sec/op"}, {"nu", "sec/op"}, {"nu", "ns/op"}, {"u", "no-such-unit"}, {"nu", "no-such-unit"},
		{"re-prefix", "m"}, {"nre-prefix", "m"}, {"re-prefix", "sec"}, {"u", fmt.Sprintf("m%02d/op", n-1)}, {"u", "m00/op"}, {"re-suffix", "/s"}})
	if r.Chance(1, 3) {
		// the same through Filter.Apply on the Reader's own Result
		histCase([][]histLine{lines}, f.k, f.p)
	} else {
		keepCase(lines, f.k, f.p, r.Chance(1, 5))
	}
}

// units with regexp metacharacters (legal unit text: `*` is a separator) and look-alike foreign units
var metaUnits = []string{"B*sec", "MB*ns", "op/s*ns", "op/s*sec", "a+b", "a.b/op", "x|y", "f(x)/op", "v[0]", "ns*ns", "sec*sec", "c++/op", "MB*MB/s", "B*B/s"}
var alikeUnits = []string{"Bsec", "Bxsec", "BBsec", "MBns", "ab", "aab", "axb/op", "x", "y", "f/op", "fx/op", "v0", "secsec", "sec", "op/ssec", "op/sec", "cc/op", "BB/s"}

func genUnitList(r *hx.Rand) {
	pool := []string{hx.Pick(r, metaUnits), hx.Pick(r, metaUnits), hx.Pick(r, alikeUnits), hx.Pick(r, alikeUnits), hx.Pick(r, alikeUnits), "ns/op", "sec/op"}
	var lines []histLine
	for j := 1 + r.Intn(3); j > 0; j-- {
		l := histLine{name: hx.Pick(r, []string{"Keep", "Skip"})}
		for k := 2 + r.Intn(5); k > 0; k-- {
			t, pv := valText(r)
			l.meas = append(l.meas, meas{t, pv, hx.Pick(r, pool)})
		}
		lines = append(lines, l)
	}
	var ps []string
	for k := 2 + r.Intn(2); k > 0; k-- {
		u := hx.Pick(r, pool[:2])
		if r.Chance(1, 3) {
			u = hx.Pick(r, pool)
		}
		if r.Bool() {
			u = tidiedName(u)
		}
		ps = append(ps, u)
	}
	k := hx.Pick(r, []string{"list", "list", "chain", "nlist", "nchain"})
	if r.Chance(1, 3) {
		histCase([][]histLine{lines}, k, strings.Join(ps, "\n"))
	} else {
		keepCase(lines, k, strings.Join(ps, "\n"), r.Chance(1, 6))
	}
}

// ---------------------------------------------------------------- main

func main() {
	defer hx.Flush()
	r := hx.NewRand(4)
	if n, err := strconv.Atoi(os.Getenv("VERIF_NSHARDS")); err == nil && n > 0 {
		nshards = n
		shard, _ = strconv.Atoi(os.Getenv("VERIF_SHARD"))
	}

	// constants of tidy.go as observable behaviour (the model hard-codes them)
	if shard == 0 {
		hx.Printf("case %d kind=consts tag=consts\n", id)
	}
	func() {
		if shard != 0 {
			return
		}
		defer func() {
			if e := recover(); e != nil {
				hx.Printf("crash %d Tidy panicked: %s\n", id, crashText(e))
			}
		}()
		a, _ := benchunit.Tidy(1, "ns")
		b, _ := benchunit.Tidy(1, "MB")
		c, _ := benchunit.Tidy(1, "ns/op")
		d, _ := benchunit.Tidy(1, "MB/s")
		hx.Printf("obs %d ns=%s MB=%s nsop=%s MBs=%s e9=%s e6=%s\n", id, hx.F64(a), hx.F64(b), hx.F64(c), hx.F64(d), hx.F64(1e9), hx.F64(1e6))
	}()
	id++

	// the witness of fixed finding F2 and relatives, first
	fileCase([]fileLine{{meas: []meas{{"0", 0, "ns/op"}, {"5", 5, "ns/op"}}}}, []string{"ns/op", "sec/op"}, []string{"ns/op", "sec/op"})
	fileCase([]fileLine{
		{isUnit: true, unit: "ns/op", kvs: [][2]string{{"better", "lower"}}},
		{meas: []meas{{"+Inf", math.Inf(1), "MB/s"}, {"-0", math.Copysign(0, -1), "ns/op"}, {"NaN", math.NaN(), "ns-MB"}, {"7", 7, "MB/s"}}},
		{isUnit: true, unit: "B/s", kvs: [][2]string{{"assume", "exact"}, {"better", "higher"}}},
		{meas: []meas{{"0", 0, "MB/s"}, {"-Inf", math.Inf(-1), "ns-MB"}, {"3", 3, "B/op"}}},
	}, []string{"ns/op", "sec/op", "MB/s", "B/s", "ns-MB", "sec-B", "MB/op", "B/op"}, []string{"MB/s", "B/s", "ns-MB", "sec-B", "B/op"})

	// buffer-reuse witnesses (seed C04-E): a rescaled unit at position i, a truncation by an in-place
	// filter or by Reset, then a plain unit at position i
	m := func(t string, v float64, u string) meas { return meas{t, v, u} }
	histCase([][]histLine{{{"Skip", []meas{m("100", 100, "ns/op")}}, {"Keep", []meas{m("3", 3, "widgets/op")}}}}, "name", "Keep")
	histCase([][]histLine{{{"A", []meas{m("5", 5, "B/op"), m("100", 100, "ns/op")}}, {"B", []meas{m("7", 7, "B/op"), m("3", 3, "allocs/op")}}}}, "nu", "ns/op")
	histCase([][]histLine{{{"X", []meas{m("100", 100, "ns/op"), m("2", 2, "MB/s")}}}, {{"Y", []meas{m("5", 5, "sec/op"), m("7", 7, "B/s")}}}}, "all", "")

	// regexp `.unit` terms that tell the two spellings apart (seed C04-L): anchored on the base
	// spelling, on the written spelling, matching both, matching neither; plain and negated
	mixed := [][]histLine{{
		{"A", []meas{m("100", 100, "ns/op"), m("2", 2, "MB/s"), m("5", 5, "sec/op"), m("7", 7, "B/s")}},
		{"B", []meas{m("3", 3, "sec/op"), m("0", 0, "ns/op"), m("9", 9, "B/op"), m("4", 4, "MB/s")}}}}
	for _, w := range [][2]string{{"re-prefix", "sec"}, {"re-exact", "B/s"}, {"re-prefix", "B"}, {"nre-prefix", "sec"},
		{"re-prefix", "ns"}, {"nre-exact", "MB/s"}, {"re-suffix", "/op"}, {"re-sub", "zz"}, {"nre-sub", "s"}} {
		histCase(mixed, w[0], w[1])
	}

	// kept Matches (seed C04-R): A = {ns/op, B/op}, B = {B/op, ns/op}, C = all / none
	keepLines := []histLine{
		{"A", []meas{m("100", 100, "ns/op"), m("5", 5, "B/op")}},
		{"B", []meas{m("7", 7, "B/op"), m("200", 200, "ns/op")}},
		{"C", []meas{m("3", 3, "sec/op"), m("0", 0, "ns/op")}},
		{"D", []meas{m("9", 9, "B/op")}}}
	for _, w := range [][2]string{{"u", "ns/op"}, {"u", "sec/op"}, {"nu", "ns/op"}, {"re-prefix", "sec"}, {"nre-exact", "B/op"}} {
		keepCase(keepLines, w[0], w[1], false)
	}
	keepCase(keepLines, "u", "ns/op", true)
	// seed C04-Y: Unit lines whose keyword is followed by TAB / VT / FF / mixed blanks / Unicode spaces
	for _, sp := range []string{"\t", "\v", "\f", " \t", "\u00a0"} {
		fileCase([]fileLine{
			{isUnit: true, unit: "ns/op", sep: sp, kvs: [][2]string{{"better", "higher"}}},
			{isUnit: true, unit: "B/s", sep: sp, kvs: [][2]string{{"assume", "exact"}}},
			{isUnit: true, unit: "x-ns/op", sep: sp, kvs: [][2]string{{"better", "lower"}, {"assume", "exact"}}},
			{meas: []meas{m("5", 5, "ns/op"), m("2", 2, "MB/s"), m("3", 3, "x-ns/op")}},
		}, []string{"ns/op", "sec/op", "MB/s", "B/s", "x-ns/op", "x-sec/op"}, []string{"ns/op"})
	}
	// seed C04-W: 19- and 20-digit integers in rescaled and pass-through units
	for _, u := range []string{"ns/op", "MB/s", "B/op"} {
		var ms []meas
		for _, t := range bigIntTexts {
			pv, _ := strconv.ParseFloat(t, 64)
			ms = append(ms, meas{t, pv, u})
		}
		fileCase([]fileLine{{meas: ms}}, []string{u}, []string{u})
	}
	// seed C04-U: OR of a `.unit` term with a whole-result term that is true
	orLines := []histLine{
		{"Keep", []meas{m("100", 100, "ns/op"), m("5", 5, "widgets/op"), m("2", 2, "MB/s")}},
		{"Skip", []meas{m("7", 7, "widgets/op"), m("200", 200, "ns/op"), m("3", 3, "sec/op")}}}
	for _, w := range [][3]string{{"or-name-wu", "u", "ns/op"}, {"or-goosT-wu", "u", "MB/s"}, {"nor-name-uw", "re-prefix", "sec"},
		{"or-name-uw", "u", "sec/op"}, {"and-goosF-wu", "u", "ns/op"}, {"or-goosF-uw", "u", "B/s"}} {
		comb = w[0]
		keepCase(orLines, w[1], w[2], false)
	}
	comb = "or-name-wu"
	histCase([][]histLine{orLines}, "u", "ns/op")
	comb = "none"
	// seed C04-Z: value lists over units with regexp metacharacters, look-alikes among the measurements
	zl := []histLine{{"Keep", []meas{m("1", 1, "MB*ns"), m("2", 2, "B*sec"), m("3", 3, "Bsec"), m("4", 4, "ns/op"), m("5", 5, "sec"), m("6", 6, "Bxsec")}}}
	keepCase(zl, "list", "MB*ns\nns/op", false)
	keepCase(zl, "list", "B*sec\nsec/op", false)
	keepCase(zl, "nlist", "B*sec\nsec/op", false)
	keepCase(zl, "chain", "MB*ns\nns/op", false)
	// seed C04-S: exactly 32 / 64 measurements
	w32 := histLine{name: "Keep"}
	for i := 0; i < 32; i++ {
		u := fmt.Sprintf("m%02d/op", i)
		if i == 3 {
			u = "ns/op"
		} else if i == 20 {
			u = "sec/op"
		}
		w32.meas = append(w32.meas, m(strconv.Itoa(i+1), float64(i+1), u))
	}
	w64 := histLine{name: "Keep"}
	for i := 0; i < 64; i++ {
		u := fmt.Sprintf("m%02d/op", i)
		if i == 40 {
			u = "ns/op"
		}
		w64.meas = append(w64.meas, m(strconv.Itoa(i+1), float64(i+1), u))
	}
	keepCase([]histLine{w32}, "u", "ns/op", false)
	keepCase([]histLine{w32}, "nu", "sec/op", false)
	keepCase([]histLine{w32}, "u", "no-such-unit", false)
	keepCase([]histLine{w64}, "u", "ns/op", false)
	histCase([][]histLine{{w32, w64}}, "u", "ns/op")

	// fixed units × special values
	for _, u := range fixedUnits {
		for _, v := range specialVals {
			tidyCase(v, u)
		}
	}

	// exhaustive short strings over a small alphabet
	alpha := []byte{'n', 's', 'M', 'B', '/', '*', '-', ' ', 0xC2, 0xA0}
	maxLen := 4
	if hx.Tier() == "thorough" {
		maxLen = 6
	}
	var rec func(cur []byte)
	rec = func(cur []byte) {
		tidyCase(genVal(r), string(cur))
		if len(cur) == maxLen {
			return
		}
		for _, c := range alpha {
			rec(append(cur[:len(cur):len(cur)], c))
		}
	}
	rec(nil)

	// grammar-generated units
	n := hx.N(20000, 400000)
	for i := 0; i < n; i++ {
		if i%2 == 0 {
			tidyCase(genVal(r), genUnit(r, sepsAll, 6))
		} else {
			tidyCase(genVal(r), genUnit(r, sepsNoSpace, 6))
		}
	}

	// files through the reader
	nf := hx.N(6000, 120000)
	for i := 0; i < nf; i++ {
		genFile(r)
	}

	// Matches of one Filter kept across results
	nk := hx.N(3000, 60000)
	for i := 0; i < nk; i++ {
		withComb(r, func() { genKeep(r) })
	}

	// `.unit` value lists and OR chains over units with regexp metacharacters
	nl := hx.N(1500, 30000)
	for i := 0; i < nl; i++ {
		withComb(r, func() { genUnitList(r) })
	}

	// results with exactly 32·k measurements and their neighbours
	nw := hx.N(1200, 24000)
	for i := 0; i < nw; i++ {
		withComb(r, func() { genWide(r, wideNs[i%len(wideNs)]) })
	}

	// concurrent first use of fresh units (Tidy and separate Readers)
	nc := hx.N(50, 500)
	for i := 0; i < nc; i++ {
		concCase(r, 60)
	}

	// histories of Tidy calls on fresh units (package-level cache)
	ns := hx.N(400, 8000)
	for i := 0; i < ns; i++ {
		genSeq(r, i)
	}

	// histories on one Reader with in-place filtering and Reset
	nh := hx.N(6000, 120000)
	for i := 0; i < nh; i++ {
		withComb(r, func() { genHist(r) })
	}
}
