//go:build verif

package benchunit

// VerifTidyUnit exposes tidyUnit (fast paths, pre-filter, cache, general path).
func VerifTidyUnit(unit string) (string, float64) { return tidyUnit(unit) }

// VerifTidyUnitUncached exposes the general path without fast paths or cache.
func VerifTidyUnitUncached(unit string) (string, float64) { return tidyUnitUncached(unit) }
