//go:build verif

// C13 harness: benchmath summaries, comparisons and their renderers.
//
// case kinds
//
//	sum  one sample, one assumption, one confidence level: Assumption.Summary + PctRangeString
//	cmp  two samples, one assumption, one alpha: Assumption.Compare (+ swapped / shuffled / rescaled
//	     calls for the metamorphic relations) + FormatDelta on the two centres + Comparison.String
//	fd   Comparison{P,N1,N2,Alpha}.FormatDelta(old,new) and .String() on arbitrary floats
//	pr   Summary{Center,Lo,Hi}.PctRangeString() on arbitrary floats
//	tab  the uTestMinP table, uTestSamples(alpha)
//
// Results of github.com/aclements/go-moremath/stats (outside /repo) are captured by calling it
// directly with the same inputs and are passed on the case line as data (q* u* m* w* fields);
// the implementation's own outputs needed by the specification oracle are the i* fields.
package main

import (
	"fmt"
	"math"
	"os"
	"regexp"
	"strconv"
	"strings"
	"sync"

	"github.com/aclements/go-moremath/stats"
	"golang.org/x/perf/benchmath"
	"golang.org/x/perf/internal/verifh/hx"
)

var id int

const nanBits = "7ff8000000000001"

// canon renders a float for obs lines: NaN payloads are not observable through any operation of the
// property. The sign of a zero IS observable (an exact-model centre of -0 vs +0) and, since fix F27
// (NewSample orders -0 before +0), determined by the sample as a multiset.
func canon(f float64) string {
	if math.IsNaN(f) {
		return nanBits
	}
	return hx.F64(f)
}

func raw(f float64) string {
	if math.IsNaN(f) {
		return nanBits
	}
	return hx.F64(f)
}

func list(xs []float64) string {
	if len(xs) == 0 {
		return "-"
	}
	p := make([]string, len(xs))
	for i, x := range xs {
		p[i] = raw(x)
	}
	return strings.Join(p, ",")
}

var (
	reNeedCI  = regexp.MustCompile(`^need (>=|>) (\d+) samples for confidence interval at level (.*)$`)
	reNeedU   = regexp.MustCompile(`^need (>=|>) (\d+) samples to detect a difference at alpha level (.*)$`)
	reRange   = regexp.MustCompile(`^exact distribution expected, but values range from (.*) to (.*)$`)
	opName    = map[string]string{">=": "ge", ">": "gt"}
	errByText = map[string]string{
		"sample is too small":      "err:size",
		"all samples are equal":    "err:equal",
		"sample has zero variance": "err:zerovar",
		"sample contains NaN":      "err:nan",
	}
)

// warnTag maps warning texts to a small vocabulary; the floats printed inside the texts (%v)
// must read back to the given values.
func warnTag(ws []error, vals ...float64) string {
	if len(ws) == 0 {
		return "-"
	}
	var out []string
	for _, w := range ws {
		s := w.Error()
		switch {
		case reNeedCI.MatchString(s):
			m := reNeedCI.FindStringSubmatch(s)
			t := "need:" + opName[m[1]] + ":" + m[2]
			if f, err := strconv.ParseFloat(m[3], 64); err != nil || len(vals) < 1 || f != vals[0] {
				t += ":badlevel"
			}
			out = append(out, t)
		case reNeedU.MatchString(s):
			m := reNeedU.FindStringSubmatch(s)
			t := "need:" + opName[m[1]] + ":" + m[2]
			if f, err := strconv.ParseFloat(m[3], 64); err != nil || len(vals) < 1 || f != vals[0] {
				t += ":badlevel"
			}
			out = append(out, t)
		case reRange.MatchString(s):
			m := reRange.FindStringSubmatch(s)
			t := "range"
			lo, e1 := strconv.ParseFloat(m[1], 64)
			hi, e2 := strconv.ParseFloat(m[2], 64)
			if e1 != nil || e2 != nil || len(vals) < 2 || lo != vals[0] || hi != vals[1] {
				t += ":badvalues"
			}
			out = append(out, t)
		default:
			if t, ok := errByText[s]; ok {
				out = append(out, t)
			} else {
				out = append(out, "other:"+hx.HexS(s))
			}
		}
	}
	return strings.Join(out, "+")
}

func errTag(err error) string {
	if t, ok := errByText[err.Error()]; ok {
		return t
	}
	return "err:other"
}

var assumptions = map[string]benchmath.Assumption{
	"exact":   benchmath.AssumeExact,
	"nothing": benchmath.AssumeNothing,
	"normal":  benchmath.AssumeNormal,
}
var anames = []string{"exact", "nothing", "normal"}

// newSample copies the values (NewSample sorts its argument IN PLACE and keeps the slice). Samples
// with the default threshold share the package-level benchmath.DefaultThresholds, as callers do; the
// glob case at the end of the run checks that nothing wrote through that pointer.
func newSample(vals []float64, alpha float64) *benchmath.Sample {
	if alpha == 0.05 {
		return benchmath.NewSample(append([]float64(nil), vals...), &benchmath.DefaultThresholds)
	}
	return benchmath.NewSample(append([]float64(nil), vals...), &benchmath.Thresholds{CompareAlpha: alpha})
}

// snapshot / modified: the calls of the property must not modify a sample (values, thresholds).
type snap struct {
	vals  []float64
	alpha float64
}

func snapshot(s *benchmath.Sample) snap {
	return snap{append([]float64(nil), s.Values...), s.Thresholds.CompareAlpha}
}

func (b snap) modified(s *benchmath.Sample) string {
	if len(b.vals) != len(s.Values) {
		return "values"
	}
	for i := range b.vals {
		if math.Float64bits(b.vals[i]) != math.Float64bits(s.Values[i]) {
			return "values"
		}
	}
	if math.Float64bits(b.alpha) != math.Float64bits(s.Thresholds.CompareAlpha) {
		return "thresholds"
	}
	return "none"
}

// Extreme magnitudes (values whose differences, squares or fourth powers leave the float64 range)
// break go-moremath arithmetic that benchmath calls: findings X1-X3 of notes/C13.md. They are
// exercised by a separate small family (xFamily, always on) whose cases lie well inside the
// classes the driver tags with kf=X1/X2/X3; the main families keep AssumeNormal inside 2^±200.
// VERIF_C13_EXTREME=1 lifts that limit in the main families too (wider search).
var extreme = os.Getenv("VERIF_C13_EXTREME") == "1"

// panicCase reports a panic of the real code on a case: the observable is "panic" (the model says
// "panic" only where the external call it takes as data panicked), the specification demands
// panic=0. No `crash` line is printed: check.py cannot attach a known-finding tag to one.
func panicCase(head string, tag string, e any) {
	hx.Printf("case %d %s panic=1 ptext=%s tag=%s\n", id, head, hx.HexS(fmt.Sprint(e)), tag)
	hx.Printf("info %d panic: %v\n", id, e)
	hx.Printf("obs %d panic\n", id)
	hx.Printf("sobs %d panic=1\n", id)
	id++
}

// moderate reports whether every non-zero magnitude lies in [2^-200, 2^200]: variances and their
// squares, as formed by moremath's MeanCI / Welch t-test, then stay inside the float64 range, also
// after the ×2^k rescaling (|k| ≤ 20) of the metamorphic check.
func moderate(xs []float64) bool {
	for _, x := range xs {
		if x != 0 && (math.Abs(x) > 0x1p200 || math.Abs(x) < 0x1p-200) {
			return false
		}
	}
	return true
}

// ---------------------------------------------------------------- external data

type qci struct{ lo, hi int }

var needCache = map[float64]string{}

// needTable is QuantileCI(n, 0.5, conf) for n = 2..50 (what medianSamples consults), as lo:hi pairs.
func needTable(conf float64) string {
	if s, ok := needCache[conf]; ok {
		return s
	}
	var p []string
	for n := 2; n <= 50; n++ {
		ci := stats.QuantileCI(n, 0.5, conf)
		p = append(p, fmt.Sprintf("%d:%d", ci.LoOrder, ci.HiOrder))
	}
	s := strings.Join(p, ",")
	needCache[conf] = s
	return s
}

// ---------------------------------------------------------------- cases

func sumCase(a string, vals []float64, conf float64, tag string) {
	if a == "normal" && !extreme && !strings.Contains(tag, "xfam") && !moderate(vals) {
		return
	}
	defer func() {
		if e := recover(); e != nil {
			panicCase(fmt.Sprintf("kind=sum a=%s vals=%s conf=%s", a, list(vals), raw(conf)), tag, e)
		}
	}()
	s := newSample(vals, 0.05)
	sorted := s.Values
	ext := ""
	switch a {
	case "nothing":
		ci := stats.QuantileCI(len(vals), 0.5, conf)
		ext = fmt.Sprintf(" qlo=%d qhi=%d qconf=%s need=%s", ci.LoOrder, ci.HiOrder, raw(ci.Confidence), needTable(conf))
	case "normal":
		m, lo, hi := stats.MeanCI(sorted, conf)
		ext = fmt.Sprintf(" mean=%s mlo=%s mhi=%s", raw(m), raw(lo), raw(hi))
	}
	snap0 := snapshot(s)
	sum := assumptions[a].Summary(s, conf)
	imod := snap0.modified(s)
	wt := warnTag(sum.Warnings, conf)
	if a == "exact" {
		wt = warnTag(sum.Warnings, sorted[0], sorted[len(sorted)-1])
	}
	pct := sum.PctRangeString()
	// the same measurements in two other arrival orders: reversed, and odd positions first
	trip := func(xs []float64) string {
		o := assumptions[a].Summary(newSample(xs, 0.05), conf)
		return raw(o.Center) + ":" + raw(o.Lo) + ":" + raw(o.Hi)
	}
	rev := make([]float64, 0, len(vals))
	for i := len(vals) - 1; i >= 0; i-- {
		rev = append(rev, vals[i])
	}
	alt := make([]float64, 0, len(vals))
	for i := 1; i < len(vals); i += 2 {
		alt = append(alt, vals[i])
	}
	for i := 0; i < len(vals); i += 2 {
		alt = append(alt, vals[i])
	}
	more := fmt.Sprintf(" irev=%s ialt=%s imod=%s", trip(rev), trip(alt), imod)
	if a == "nothing" {
		// the warning's claim, tried out on the real code: does a sample of the named size get a finite
		// interval at this confidence, and does one value fewer still get an infinite one?
		wn, wfin, wprev := 0, 0, 0
		if m := reNeedN.FindStringSubmatch(wt); m != nil {
			wn, _ = strconv.Atoi(m[2])
			if finiteAt(wn, conf) {
				wfin = 1
			}
			if m[1] == "ge" && (wn-1 < 1 || !finiteAt(wn-1, conf)) {
				wprev = 1
			}
		}
		more += fmt.Sprintf(" wn=%d wfin=%d wprev=%d", wn, wfin, wprev)
	}
	hx.Printf("case %d kind=sum a=%s vals=%s conf=%s%s ic=%s ilo=%s ihi=%s iconf=%s iwarn=%s ipct=%s%s tag=%s\n",
		id, a, list(vals), raw(conf), ext, raw(sum.Center), raw(sum.Lo), raw(sum.Hi), raw(sum.Confidence), wt, hx.HexS(pct), more, tag)
	hx.Printf("obs %d center=%s lo=%s hi=%s conf=%s warn=%s pct=%s\n", id, canon(sum.Center), canon(sum.Lo), canon(sum.Hi),
		canon(sum.Confidence), wt, hx.HexS(pct))
	if a == "nothing" {
		hx.Printf("sobs %d centre=ok ends=ok bracket=ok conf=ok warn=ok pct=ok reorder=ok inputs=ok needn=ok have=ok\n", id)
	} else if a == "normal" {
		hx.Printf("sobs %d centre=ok ends=ok bracket=ok conf=ok warn=ok pct=ok reorder=ok inputs=ok tcov=ok\n", id)
	} else {
		hx.Printf("sobs %d centre=ok ends=ok bracket=ok conf=ok warn=ok pct=ok reorder=ok inputs=ok\n", id)
	}
	id++
}

var reNeedN = regexp.MustCompile(`^need:(ge|gt):(\d+)$`)

var finiteCache = map[[2]uint64]bool{}

// finiteAt runs AssumeNothing.Summary on a sample of n distinct values at the given confidence and
// reports whether both interval ends are finite.
func finiteAt(n int, conf float64) bool {
	key := [2]uint64{uint64(n), math.Float64bits(conf)}
	if v, ok := finiteCache[key]; ok {
		return v
	}
	xs := make([]float64, n)
	for i := range xs {
		xs[i] = float64(100 + i)
	}
	sum := benchmath.AssumeNothing.Summary(newSample(xs, 0.05), conf)
	v := !math.IsInf(sum.Lo, 0) && !math.IsInf(sum.Hi, 0)
	finiteCache[key] = v
	return v
}

// needFamily: confidence levels so high that the sample size the warning names lies in 20..50 and
// beyond, around the point (n = 30 -> 31) where QuantileCI changes from the exact binomial sum to a
// normal approximation; sample sizes around the named size.
func needFamily(r *hx.Rand) {
	var confs []float64
	for k := 20; k <= 45; k++ {
		c := 1 - math.Ldexp(1, -k)
		confs = append(confs, math.Nextafter(c, 0), c, math.Nextafter(c, 2))
	}
	for _, t := range []string{"0.9999999", "0.99999999", "0.999999999", "0.9999999999", "0.99999999999", "0.999999999999", "0.9999999999999"} {
		c, _ := strconv.ParseFloat(t, 64)
		confs = append(confs, c)
	}
	// quarter steps of the exponent: every size 2..50 (and "> 50") occurs as the named one, in
	// particular the last admissible size 50 (mutation sweep: loop bound `n <= limit`)
	fine := map[float64]bool{}
	for q := 4; q <= 184; q++ {
		c := 1 - math.Exp2(-float64(q)/4)
		if q%4 != 0 && c < 1 {
			confs = append(confs, c)
			fine[c] = true
		}
	}
	for _, c := range confs {
		if c >= 1 {
			continue
		}
		op, n := benchmath.VerifMedianSamples(c)
		if fine[c] {
			hx.Printf("case %d kind=ms conf=%s need=%s tag=mediansamples+fine\n", id, raw(c), needTable(c))
			hx.Printf("obs %d need=%s:%d\n", id, opName[op], n)
			id++
			seen := map[int]bool{}
			for _, m := range []int{n - 1, n, 49, 50} {
				if m < 1 || m > 70 || seen[m] || (m >= 49 && m != n && m != n-1 && n < 48) {
					continue
				}
				seen[m] = true
				xs := make([]float64, m)
				for i := range xs {
					xs[i] = float64(r.Intn(1000)) / 8
				}
				sumCase("nothing", xs, c, "nothing+need+fine")
			}
			continue
		}
		hx.Printf("case %d kind=ms conf=%s need=%s tag=mediansamples+high\n", id, raw(c), needTable(c))
		hx.Printf("obs %d need=%s:%d\n", id, opName[op], n)
		id++
		// medianSamplesAbove(confidence, have) is observed through Summary on samples of `have` values
		// (the warning's size), not through a hook: the harness must still build against a tree
		// without that function (seed revert-F25).
		seen := map[int]bool{}
		for _, m := range []int{1, 2, n - 1, n, n + 1, 29, 30, 31, 32 + r.Intn(7), 38, 39 + r.Intn(11), 49, 50, 51 + r.Intn(20)} {
			if m < 1 || m > 70 || seen[m] {
				continue
			}
			seen[m] = true
			xs := make([]float64, m)
			for i := range xs {
				xs[i] = float64(r.Intn(1000)) / 8
			}
			sumCase("nothing", xs, c, "nothing+need")
		}
	}
}

func shuffle(r *hx.Rand, xs []float64) []float64 {
	out := append([]float64(nil), xs...)
	for i := len(out) - 1; i > 0; i-- {
		j := r.Intn(i + 1)
		out[i], out[j] = out[j], out[i]
	}
	return out
}

func scaleAll(xs []float64, k int) []float64 {
	out := make([]float64, len(xs))
	for i, x := range xs {
		out[i] = math.Ldexp(x, k)
	}
	return out
}

// safeShift picks a power of two by which both samples can be multiplied exactly.
func safeShift(r *hx.Rand, a, b []float64) int {
	minE, maxE := 5000, -5000
	for _, x := range append(append([]float64(nil), a...), b...) {
		if x == 0 {
			continue
		}
		_, e := math.Frexp(x)
		if math.Abs(x) < 0x1p-1022 {
			e = -1080 // subnormal: only scale up
		}
		if e < minE {
			minE = e
		}
		if e > maxE {
			maxE = e
		}
	}
	// x = f·2^e with 1/2 ≤ |f| < 1: x·2^k stays finite for e+k ≤ 1024 and exact (normal) for e+k ≥ -1021
	lo, hi := -1021-minE, 1024-maxE
	if minE == -1080 {
		lo = 1
	}
	if lo < -20 {
		lo = -20
	}
	if hi > 20 {
		hi = 20
	}
	if lo > hi {
		return 0
	}
	k := lo + r.Intn(hi-lo+1)
	if k == 0 && hi > 0 {
		k = hi
	}
	return k
}

func pOrErrU(x1, x2 []float64, alt stats.LocationHypothesis) string {
	res, err := stats.MannWhitneyUTest(x1, x2, alt)
	if err != nil {
		return errTag(err)
	}
	return raw(res.P)
}

func hasNaN(xs []float64) bool {
	for _, x := range xs {
		if math.IsNaN(x) {
			return true
		}
	}
	return false
}

// zeroFamily: samples holding both zeros (with other values), in every arrival order, under all three
// assumptions; comparisons between them. NewSample must order them the same way whatever the order.
func zeroFamily(r *hx.Rand) {
	nz := math.Copysign(0, -1)
	multis := [][]float64{{0, nz}, {0, nz, 1}, {0, nz, -1}, {0, 0, nz}, {nz, nz, 0}, {0, nz, 1, -1}, {0, nz, nz, 1}, {0, 0, nz, -2}, {nz, 0, nz, 0}}
	var perms func(xs []float64, k int, f func([]float64))
	perms = func(xs []float64, k int, f func([]float64)) {
		if k == len(xs) {
			f(append([]float64(nil), xs...))
			return
		}
		for i := k; i < len(xs); i++ {
			xs[k], xs[i] = xs[i], xs[k]
			perms(xs, k+1, f)
			xs[k], xs[i] = xs[i], xs[k]
		}
	}
	var all [][]float64
	for _, m := range multis {
		perms(append([]float64(nil), m...), 0, func(p []float64) {
			all = append(all, p)
			for _, a := range anames {
				sumCase(a, p, 0.95, a+"+zeromix")
			}
		})
	}
	for i := 0; i < 120; i++ {
		v1, v2 := all[r.Intn(len(all))], all[r.Intn(len(all))]
		for _, a := range anames {
			cmpCase(r, a, v1, v2, pickAlpha(r), false, a+"+zeromix")
		}
	}
	// larger samples (beyond the insertion-sort range of the library sorts) with many zeros of both signs
	for i := 0; i < 60; i++ {
		n := 13 + r.Intn(58)
		xs := make([]float64, n)
		for j := range xs {
			switch r.Intn(5) {
			case 0:
				xs[j] = nz
			case 1, 2:
				xs[j] = 0
			default:
				xs[j] = float64(r.Intn(7) - 3)
			}
		}
		for _, a := range anames {
			sumCase(a, xs, pickConf(r), a+"+zeromix+large")
		}
	}
}

// aliasCase: 2-4 samples that are windows (adjacent, with gaps, with spare capacity behind them) of ONE
// backing array, as a caller reading measurements into a flat buffer would build them; a sequence
// of Summary / Compare calls. Summaries and comparisons are functions of the samples' values and must
// not modify their inputs: afterwards every window still holds its values (sorted), and every result
// equals the result of the same call on freshly copied samples.
func aliasCase(r *hx.Rand) {
	defer func() {
		if e := recover(); e != nil {
			panicCase("kind=alias", "alias", e)
		}
	}()
	k := 2 + r.Intn(3)
	var wins [][2]int
	pos := r.Intn(2)
	for i := 0; i < k; i++ {
		n := 2 + r.Intn(6)
		wins = append(wins, [2]int{pos, pos + n})
		pos += n + []int{0, 0, 1, 2}[r.Intn(4)]
	}
	buf := make([]float64, pos+r.Intn(3))
	for i := range buf {
		switch r.Intn(3) {
		case 0:
			buf[i] = float64(r.Intn(6))
		case 1:
			buf[i] = float64(r.Intn(400)) / 8
		default:
			buf[i] = 100 + float64(r.Intn(40))/4
		}
	}
	orig := append([]float64(nil), buf...)
	alpha := hx.Pick(r, []float64{0.05, 0.01, 0.5})
	thr := &benchmath.Thresholds{CompareAlpha: alpha}
	samples := make([]*benchmath.Sample, k)
	for i, w := range wins {
		samples[i] = benchmath.NewSample(buf[w[0]:w[1]], thr) // sorts its window in place; cap reaches to the end of buf
	}
	fresh := func(i int) *benchmath.Sample {
		w := wins[i]
		return benchmath.NewSample(append([]float64(nil), orig[w[0]:w[1]]...), thr)
	}
	sumS := func(o benchmath.Summary) string {
		return fmt.Sprintf("%s:%s:%s:%s:%d", raw(o.Center), raw(o.Lo), raw(o.Hi), raw(o.Confidence), len(o.Warnings))
	}
	cmpS := func(o benchmath.Comparison) string {
		return fmt.Sprintf("%s:%d:%d:%s:%d", raw(o.P), o.N1, o.N2, raw(o.Alpha), len(o.Warnings))
	}
	var ops, ra, rf []string
	nops := 4 + r.Intn(10)
	for o := 0; o < nops; o++ {
		a := hx.Pick(r, anames)
		asm := assumptions[a]
		i := r.Intn(k)
		if r.Chance(1, 3) {
			conf := hx.Pick(r, []float64{0.5, 0.9, 0.95})
			ops = append(ops, fmt.Sprintf("S.%s.%d", a, i))
			ra = append(ra, sumS(asm.Summary(samples[i], conf)))
			rf = append(rf, sumS(asm.Summary(fresh(i), conf)))
		} else {
			j := r.Intn(k)
			if j == i {
				j = (i + 1) % k
			}
			ops = append(ops, fmt.Sprintf("C.%s.%d.%d", a, i, j))
			ra = append(ra, cmpS(asm.Compare(samples[i], samples[j])))
			rf = append(rf, cmpS(asm.Compare(fresh(i), fresh(j))))
		}
	}
	var ws, before, after []string
	for i, w := range wins {
		ws = append(ws, fmt.Sprintf("%d:%d", w[0], w[1]))
		before = append(before, strings.ReplaceAll(list(orig[w[0]:w[1]]), ",", "+"))
		after = append(after, strings.ReplaceAll(list(samples[i].Values), ",", "+"))
	}
	hx.Printf("case %d kind=alias buflen=%d win=%s before=%s after=%s ops=%s ra=%s rf=%s tag=alias+k%d\n", id, len(buf),
		strings.Join(ws, ","), strings.Join(before, ","), strings.Join(after, ","), strings.Join(ops, ","),
		strings.Join(ra, ","), strings.Join(rf, ","), k)
	hx.Printf("obs %d windows=%d ops=%d\n", id, k, nops)
	hx.Printf("sobs %d intact=ok same=ok\n", id)
	id++
}

// cacheFamily: medianCache is process-wide state keyed by (n, confidence). The same key is requested
// before and after other keys, with confidences that differ in the last bit — chosen AT a boundary:
// c0 is a coverage the exact computation attains, so QuantileCI(n, 0.5, c0) and (n, 0.5, next(c0)) give
// different intervals — and sizes up to 70 interleaved. Every call is an ordinary summary case, judged
// against the stateless specification (the external results are recomputed without the cache).
func cacheFamily(r *hx.Rand) {
	for it := hx.N(12, 120); it > 0; it-- {
		n1 := 2 + r.Intn(29)
		c0 := stats.QuantileCI(n1, 0.5, hx.Pick(r, []float64{0.5, 0.8, 0.9, 0.95, 0.99})).Confidence
		if c0 <= 0 || c0 >= 1 {
			continue
		}
		up, down := math.Nextafter(c0, 2), math.Nextafter(c0, 0)
		sizes := []int{n1, 1 + r.Intn(70), 31 + r.Intn(40), 70}
		vals := map[int][]float64{}
		for _, n := range sizes {
			xs := make([]float64, n)
			for i := range xs {
				xs[i] = float64(r.Intn(500)) / 4
			}
			vals[n] = xs
		}
		seq := [][2]float64{{0, c0}, {0, up}, {1, c0}, {0, c0}, {2, up}, {0, down}, {3, c0}, {0, up}, {1, down}, {0, c0}, {3, up}, {0, down}}
		for _, st := range seq {
			n := sizes[int(st[0])]
			sumCase("nothing", vals[n], st[1], "nothing+cache")
		}
	}
}

// concCase: Summary and Compare called from several goroutines at once on the SAME samples (shared
// values, shared thresholds, shared medianCache); the harness is built with -race. Every concurrent
// result must equal the sequential one.
func concCase(r *hx.Rand) {
	defer func() {
		if e := recover(); e != nil {
			panicCase("kind=conc", "conc", e)
		}
	}()
	n1, n2 := 2+r.Intn(40), 2+r.Intn(40)
	v1 := make([]float64, n1)
	v2 := make([]float64, n2)
	for i := range v1 {
		v1[i] = float64(r.Intn(300)) / 4
	}
	for i := range v2 {
		v2[i] = 10 + float64(r.Intn(300))/4
	}
	s1, s2 := newSample(v1, 0.05), newSample(v2, 0.05)
	conf := 0.5 + float64(r.Intn(1000))/2048 // mostly fresh cache keys
	type job struct {
		a    string
		kind int
	}
	var jobs []job
	for _, a := range anames {
		jobs = append(jobs, job{a, 0}, job{a, 1}, job{a, 2}, job{a, 0}, job{a, 2})
	}
	run := func(j job) string {
		asm := assumptions[j.a]
		switch j.kind {
		case 0:
			o := asm.Summary(s1, conf)
			return fmt.Sprintf("%s:%s:%s:%s:%d", raw(o.Center), raw(o.Lo), raw(o.Hi), raw(o.Confidence), len(o.Warnings))
		case 1:
			o := asm.Summary(s2, conf)
			return fmt.Sprintf("%s:%s:%s:%s:%d", raw(o.Center), raw(o.Lo), raw(o.Hi), raw(o.Confidence), len(o.Warnings))
		}
		o := asm.Compare(s1, s2)
		return fmt.Sprintf("%s:%d:%d:%s:%d", raw(o.P), o.N1, o.N2, raw(o.Alpha), len(o.Warnings))
	}
	conc := make([]string, len(jobs))
	var wg sync.WaitGroup
	for i := range jobs {
		wg.Add(1)
		go func(i int) {
			defer wg.Done()
			defer func() {
				if e := recover(); e != nil {
					conc[i] = fmt.Sprintf("panic:%v", e)
				}
			}()
			conc[i] = run(jobs[i])
		}(i)
	}
	wg.Wait()
	seq := make([]string, len(jobs))
	var names []string
	for i, j := range jobs {
		seq[i] = run(j)
		names = append(names, fmt.Sprintf("%s.%d", j.a, j.kind))
	}
	hx.Printf("case %d kind=conc n1=%d n2=%d conf=%s jobs=%s rc=%s rs=%s tag=conc\n", id, n1, n2, raw(conf),
		strings.Join(names, ","), strings.Join(conc, ","), strings.Join(seq, ","))
	hx.Printf("obs %d jobs=%d\n", id, len(jobs))
	hx.Printf("sobs %d conc=ok\n", id)
	id++
}

// binomCoverage is the exact probability that the median lies between the lo-th and hi-th order
// statistic of n values: sum of C(n,k)/2^n over lo <= k < hi (float64 is ample for n <= 70).
func binomCoverage(n, lo, hi int) float64 {
	c := math.Ldexp(1, -n) // C(n,0)/2^n
	sum := 0.0
	for k := 0; k < hi && k <= n; k++ {
		if k >= lo {
			sum += c
		}
		c = c * float64(n-k) / float64(k+1)
	}
	return sum
}

// windowFamily: for more than 30 values QuantileCI works from a normal approximation; there are narrow
// windows of confidence levels (about 1e-4 wide, below 0.7) in which the EXACT coverage of the order
// statistics it picks is below the requested level while the reported (approximate) confidence is
// not. The summaries at such (n, level) pairs pin the clause "reported confidence at least the
// requested level" (seed C13-Q reported the exact coverage there). Fixed witnesses plus a grid scan.
func windowFamily(r *hx.Rand) {
	type key struct {
		n int
		c float64
	}
	ks := []key{{37, 0.676}, {31, 0.28}, {39, 0.6633}, {52, 0.6683}, {70, 0.1875}}
	ns := []int{31, 37, 39, 52, 70}
	step, limit := 1e-4, 40
	if hx.Tier() == "thorough" {
		ns = nil
		for n := 31; n <= 70; n++ {
			ns = append(ns, n)
		}
		limit = 600
	}
	found := 0
	scan := func(n int, from, to, step float64) {
		for c := from; c < to && found < limit; c += step {
			ci := stats.QuantileCI(n, 0.5, c)
			if ci.LoOrder >= 1 && ci.HiOrder <= n && binomCoverage(n, ci.LoOrder, ci.HiOrder) < c-1e-9 {
				ks = append(ks, key{n, c})
				found++
				c += 20 * step // one or two per window
			}
		}
	}
	for _, n := range ns {
		scan(n, 0.05, 0.7, step)
	}
	if hx.Tier() == "thorough" { // a 1e-5 sweep over a few sizes
		limit += 200
		for _, n := range []int{31, 37, 44, 52, 63, 70} {
			scan(n, 0.05, 0.7, 1e-5)
		}
	}
	for _, k := range ks {
		xs := make([]float64, k.n)
		for i := range xs {
			xs[i] = float64(r.Intn(2000)) / 16
		}
		sumCase("nothing", xs, k.c, "nothing+window")
	}
}

// structCase: Samples as a caller may legitimately build them besides NewSample — the struct has only
// exported fields: a literal &Sample{Values: sorted, Thresholds: t}, new(Sample) filled afterwards, a
// trimmed &Sample{Values: s.Values[i:j]} — and Samples whose exported Warnings field the caller filled
// (0..2 entries, with and without spare capacity, possibly shared by two Samples), summarised several
// times. Demands: (same) every result equals the one for a NewSample of the same values without
// caller warnings — in particular the exact model warns exactly when values differ, whatever
// s.Warnings holds; (again) the warnings of a Summary returned earlier read the same at the end;
// (in) the caller's warning slice, spare slots included, is untouched.
func structCase(r *hx.Rand) {
	defer func() {
		if e := recover(); e != nil {
			panicCase("kind=sw", "struct", e)
		}
	}()
	a := hx.Pick(r, anames)
	asm := assumptions[a]
	thr := &benchmath.Thresholds{CompareAlpha: hx.Pick(r, []float64{0.05, 0.01, 0.5})}
	gen := func(n int) []float64 {
		xs := make([]float64, n)
		mode := r.Intn(3)
		for i := range xs {
			switch mode {
			case 0:
				xs[i] = float64(1 + r.Intn(3))
			case 1:
				xs[i] = 7 // all equal
			default:
				xs[i] = float64(r.Intn(40)) / 4
			}
		}
		return xs
	}
	sorted := func(xs []float64) []float64 { // as NewSample leaves them
		return append([]float64(nil), benchmath.NewSample(append([]float64(nil), xs...), thr).Values...)
	}
	texts := func(ws []error) string {
		var t []string
		for _, w := range ws {
			t = append(t, w.Error())
		}
		return hx.HexS(strings.Join(t, "|"))
	}
	sumS := func(o benchmath.Summary) string {
		return fmt.Sprintf("%s:%s:%s:%s:%d:%s", raw(o.Center), raw(o.Lo), raw(o.Hi), raw(o.Confidence), len(o.Warnings), texts(o.Warnings))
	}
	cmpS := func(o benchmath.Comparison) string {
		return fmt.Sprintf("%s:%d:%d:%s:%d:%s", raw(o.P), o.N1, o.N2, raw(o.Alpha), len(o.Warnings), texts(o.Warnings))
	}
	ref := func(xs []float64) *benchmath.Sample { return benchmath.NewSample(append([]float64(nil), xs...), thr) }
	confs := []float64{0.95, 0.99, 0.5}
	var ops, ra, rf []string
	add := func(op, got, want string) { ops = append(ops, op); ra = append(ra, got); rf = append(rf, want) }

	v1, v2 := gen(1+r.Intn(7)), gen(1+r.Intn(7))
	// literal, filled-in and trimmed Samples
	lit1 := &benchmath.Sample{Values: sorted(v1), Thresholds: thr}
	lit2 := &benchmath.Sample{Values: sorted(v2), Thresholds: thr}
	add("L", sumS(asm.Summary(lit1, 0.95)), sumS(asm.Summary(ref(v1), 0.95)))
	filled := new(benchmath.Sample)
	filled.Values, filled.Thresholds = sorted(v2), thr
	add("N", sumS(asm.Summary(filled, 0.9)), sumS(asm.Summary(ref(v2), 0.9)))
	big := benchmath.NewSample(append(append([]float64(nil), v1...), v2...), thr)
	i := r.Intn(len(big.Values))
	j := i + 1 + r.Intn(len(big.Values)-i)
	trim := &benchmath.Sample{Values: big.Values[i:j], Thresholds: thr}
	add("T", sumS(asm.Summary(trim, 0.95)), sumS(asm.Summary(ref(big.Values[i:j]), 0.95)))
	if a != "normal" || (len(v1) > 1 && len(v2) > 1) {
		add("C", cmpS(asm.Compare(lit1, lit2)), cmpS(asm.Compare(ref(v1), ref(v2))))
	}
	// caller-set Warnings
	wl := r.Intn(3)
	wc := wl + []int{0, 0, 1, 5}[r.Intn(4)]
	full := make([]error, wc)
	for k := range full {
		full[k] = fmt.Errorf("caller note %d", k)
	}
	keep := append([]error(nil), full...)
	sA := ref(v1)
	sA.Warnings = full[:wl]
	sB := ref(v2)
	if r.Bool() {
		sB.Warnings = full[:wl] // shared between two Samples
	}
	type got struct {
		sum   benchmath.Summary
		first string
	}
	var gots []got
	nsum := 2 + r.Intn(2)
	for k := 0; k < nsum; k++ {
		smp, vals := sA, v1
		if k%2 == 1 && r.Bool() {
			smp, vals = sB, v2
		}
		o := asm.Summary(smp, confs[k])
		add(fmt.Sprintf("W%d", k), sumS(o), sumS(asm.Summary(ref(vals), confs[k])))
		gots = append(gots, got{o, texts(o.Warnings)})
	}
	var w1, w2 []string
	for _, g := range gots {
		w1 = append(w1, g.first+".")
		w2 = append(w2, texts(g.sum.Warnings)+".")
	}
	in := "kept"
	for k := range full {
		if full[k] != keep[k] {
			in = "modified"
		}
	}
	if len(sA.Warnings) != wl {
		in = "modified"
	}
	hx.Printf("case %d kind=sw a=%s v1=%s v2=%s wlen=%d wcap=%d ops=%s ra=%s rf=%s w1=%s w2=%s tag=struct+%s\n", id, a, list(v1), list(v2),
		wl, wc, strings.Join(ops, ","), strings.Join(ra, ","), strings.Join(rf, ","), strings.Join(w1, ","), strings.Join(w2, ","), a)
	hx.Printf("obs %d ops=%d\n", id, len(ops))
	hx.Printf("sobs %d same=ok again=ok in=%s\n", id, in)
	id++
}

// globCase: package-level state after the whole run.
func globCase() {
	tab := benchmath.VerifUTestMinP()
	hx.Printf("case %d kind=glob idef=%s itab=%s tag=globals\n", id, raw(benchmath.DefaultThresholds.CompareAlpha), list(tab[1:]))
	hx.Printf("obs %d default=%s minp=%s\n", id, raw(benchmath.DefaultThresholds.CompareAlpha), list(tab[1:]))
	hx.Printf("sobs %d default=ok minp=ok\n", id)
	id++
}

// nanFamily (K only): comparisons of samples containing NaN under the rank-based and the exact model.
func nanFamily(r *hx.Rand) {
	nanv := math.NaN()
	for i := 0; i < 40; i++ {
		v1, _ := sample(r, 1+r.Intn(8))
		v2, _ := sample(r, 1+r.Intn(8))
		switch i % 3 {
		case 0:
			v1[r.Intn(len(v1))] = nanv
		case 1:
			v2[r.Intn(len(v2))] = nanv
		default:
			v1[r.Intn(len(v1))] = nanv
			v2[r.Intn(len(v2))] = nanv
		}
		cmpCase(r, "nothing", v1, v2, pickAlpha(r), false, "nothing+nan")
		cmpCase(r, "exact", v1, v2, pickAlpha(r), false, "exact+nan")
	}
}

// safeP runs one comparison; a panic of the real code becomes the text "panic".
func safeP(f func() benchmath.Comparison) (p string) {
	defer func() {
		if e := recover(); e != nil {
			p = "panic"
		}
	}()
	return raw(f().P)
}

// welch captures moremath's Welch t-test on the sorted values: p bits, an error tag, or "panic".
func welch(x1, x2 []float64) (out string) {
	defer func() {
		if e := recover(); e != nil {
			out = "panic"
		}
	}()
	t, err := stats.TwoSampleWelchTTest(stats.Sample{Xs: x1, Sorted: true}, stats.Sample{Xs: x2, Sorted: true}, stats.LocationDiffers)
	if err != nil {
		return errTag(err)
	}
	return raw(t.P)
}

func cmpCase(r *hx.Rand, a string, v1, v2 []float64, alpha float64, alphaEqP bool, tag string) {
	if a == "normal" && !extreme && !strings.Contains(tag, "xfam") && !(moderate(v1) && moderate(v2)) {
		return
	}
	ext := ""
	defer func() {
		if e := recover(); e != nil {
			panicCase(fmt.Sprintf("kind=cmp a=%s v1=%s v2=%s alpha=%s%s", a, list(v1), list(v2), raw(alpha), ext), tag, e)
		}
	}()
	asm := assumptions[a]
	if alphaEqP {
		// threshold boundary: alpha is exactly the p-value this comparison yields
		if b, err := strconv.ParseUint(safeP(func() benchmath.Comparison {
			return asm.Compare(newSample(v1, 0.05), newSample(v2, 0.05))
		}), 16, 64); err == nil && !math.IsNaN(math.Float64frombits(b)) {
			alpha = math.Float64frombits(b)
		}
	}
	// thresholds of the two samples: different values (the code carries the FIRST sample's; only the
	// correspondence pins that choice), equal values in separate structs, or one shared *Thresholds
	alpha2 := alpha
	s1 := newSample(v1, alpha)
	var s2 *benchmath.Sample
	switch r.Intn(3) {
	case 0:
		alpha2 = 0.75
		s2 = newSample(v2, alpha2)
	case 1:
		s2 = newSample(v2, alpha2)
	default:
		s2 = benchmath.NewSample(append([]float64(nil), v2...), s1.Thresholds)
	}
	snap1, snap2 := snapshot(s1), snapshot(s2)
	nan := hasNaN(v1) || hasNaN(v2)
	switch {
	case nan:
		// NaN is outside the property's quantifier: K-only cases (fix F28: no U-test on NaN, whose
		// rank computation does not terminate — so the harness must not call it either)
		ext = " nan=1 ud=err:nan ul1=err:nan ul2=err:nan"
	case a == "nothing":
		ext = fmt.Sprintf(" ud=%s ul1=%s ul2=%s", pOrErrU(s1.Values, s2.Values, stats.LocationDiffers),
			pOrErrU(s1.Values, s2.Values, stats.LocationLess), pOrErrU(s2.Values, s1.Values, stats.LocationLess))
	case a == "normal":
		ext = " wp=" + welch(s1.Values, s2.Values)
	}
	c := asm.Compare(s1, s2)
	p21 := safeP(func() benchmath.Comparison { return asm.Compare(newSample(v2, alpha), newSample(v1, alpha)) })
	sh1, sh2 := shuffle(r, v1), shuffle(r, v2)
	psh := safeP(func() benchmath.Comparison { return asm.Compare(newSample(sh1, alpha), newSample(sh2, alpha)) })
	k := safeShift(r, v1, v2)
	psc := safeP(func() benchmath.Comparison {
		return asm.Compare(newSample(scaleAll(v1, k), alpha), newSample(scaleAll(v2, k), alpha))
	})
	old := asm.Summary(s1, 0.95).Center
	new := asm.Summary(s2, 0.95).Center
	delta := c.FormatDelta(old, new)
	str := c.String()
	wt := warnTag(c.Warnings, c.Alpha)
	exact := "na"
	if a == "nothing" && len(v1)+len(v2) <= 12 {
		exact = "ok"
	}
	imod := snap1.modified(s1)
	if imod == "none" {
		imod = snap2.modified(s2)
	}
	hx.Printf("case %d kind=cmp a=%s v1=%s v2=%s alpha=%s alpha2=%s%s old=%s new=%s ip=%s in1=%d in2=%d ialpha=%s iwarn=%s ip21=%s ipsh=%s ipsc=%s k=%d idelta=%s istr=%s imod=%s tag=%s\n",
		id, a, list(v1), list(v2), raw(alpha), raw(alpha2), ext, raw(old), raw(new), raw(c.P), c.N1, c.N2, raw(c.Alpha), wt,
		p21, psh, psc, k, hx.HexS(delta), hx.HexS(str), imod, tag)
	hx.Printf("obs %d p=%s n1=%d n2=%d alpha=%s warn=%s delta=%s str=%s\n", id, canon(c.P), c.N1, c.N2, canon(c.Alpha), wt, hx.HexS(delta), hx.HexS(str))
	if !nan {
		hx.Printf("sobs %d n=ok prange=ok sym=ok shuf=ok scale=ok exact=%s alpha=ok warn=ok errp=ok shown=ok delta=ok str=ok inputs=ok\n", id, exact)
	}
	id++
}

func fdCase(p, alpha float64, n1, n2 int, old, new float64, tag string) {
	c := benchmath.Comparison{P: p, N1: n1, N2: n2, Alpha: alpha}
	delta := c.FormatDelta(old, new)
	str := c.String()
	hx.Printf("case %d kind=fd p=%s alpha=%s n1=%d n2=%d old=%s new=%s idelta=%s istr=%s tag=%s\n", id, raw(p), raw(alpha), n1, n2,
		raw(old), raw(new), hx.HexS(delta), hx.HexS(str), tag)
	hx.Printf("obs %d delta=%s str=%s\n", id, hx.HexS(delta), hx.HexS(str))
	hx.Printf("sobs %d shown=ok delta=ok str=ok\n", id)
	id++
}

func prCase(c, lo, hi float64, tag string) {
	s := benchmath.Summary{Center: c, Lo: lo, Hi: hi}
	pct := s.PctRangeString()
	hx.Printf("case %d kind=pr c=%s lo=%s hi=%s ipct=%s tag=%s\n", id, raw(c), raw(lo), raw(hi), hx.HexS(pct), tag)
	hx.Printf("obs %d pct=%s\n", id, hx.HexS(pct))
	hx.Printf("sobs %d pct=ok\n", id)
	id++
}

// ---------------------------------------------------------------- generators

var confGrid = []float64{0.5, 0.8, 0.9, 0.95, 0.99, 0.999, 0.25, 0.05, 0.9999, 0.75, 0.6, 0.975, 0.01, 0.999999}
var alphaGrid = []float64{0, 0.05, 0.01, 0.001, 0.1, 0.5, 1, 0.25, 0.0001, 0.3333333333333333, 0.02857142857142857,
	0.007936507936507936, 4.113533525298231e-05, 4e-05, 0.9999}

func pickConf(r *hx.Rand) float64 {
	if r.Chance(1, 5) {
		c := r.Float()
		if c <= 0 {
			c = 0.5
		}
		return c
	}
	return hx.Pick(r, confGrid)
}

func pickAlpha(r *hx.Rand) float64 {
	if r.Chance(1, 6) {
		return r.Float()
	}
	return hx.Pick(r, alphaGrid)
}

func pickN(r *hx.Rand) int {
	switch r.Intn(6) {
	case 0:
		return 1 + r.Intn(3)
	case 1, 2:
		return 1 + r.Intn(8)
	case 3:
		return 1 + r.Intn(30)
	case 4:
		return 20 + r.Intn(51)
	}
	return 1 + r.Intn(70)
}

// sample returns n finite values and a tag naming the shape.
func sample(r *hx.Rand, n int) ([]float64, string) {
	xs := make([]float64, n)
	kind := r.Intn(12)
	switch kind {
	case 11: // large and small magnitudes every assumption can take (exponents within ±199)
		for i := range xs {
			xs[i] = math.Ldexp(1+r.Float(), r.Intn(399)-199)
			if r.Chance(1, 4) {
				xs[i] = -xs[i]
			}
		}
		return xs, "big"
	case 0: // small integers: many ties
		m := 2 + r.Intn(4)
		for i := range xs {
			xs[i] = float64(r.Intn(m))
		}
		return xs, "ties"
	case 1: // moderate integers, some ties
		for i := range xs {
			xs[i] = float64(r.Intn(3*n + 2))
		}
		return xs, "fewties"
	case 2: // typical benchmark: positive, narrow noise
		base := math.Pow(10, r.Float()*12-3)
		for i := range xs {
			xs[i] = base * (1 + 0.1*(r.Float()-0.5))
		}
		return xs, "bench"
	case 3: // negative and zero values
		for i := range xs {
			xs[i] = float64(r.Intn(21)-10) / float64(1+r.Intn(4))
		}
		return xs, "signed"
	case 4: // all equal
		v := float64(r.Intn(9)-4) * math.Pow(10, float64(r.Intn(7)-3))
		for i := range xs {
			xs[i] = v
		}
		return xs, "const"
	case 5: // huge magnitudes (exponent up to 1000: differences and sums stay finite)
		for i := range xs {
			top := 100
			if extreme {
				top = 124
			}
			xs[i] = math.Ldexp(1+r.Float(), 900+r.Intn(top)) * float64(1-2*r.Intn(2))
		}
		return xs, "huge"
	case 6: // tiny magnitudes incl. subnormals
		for i := range xs {
			xs[i] = math.Ldexp(1+r.Float(), -1074+r.Intn(120)) * float64(1-2*r.Intn(2))
		}
		return xs, "tiny"
	case 7: // wide: log-uniform over the whole safe range
		for i := range xs {
			xs[i] = math.Ldexp(1+r.Float(), r.Intn(2000)-1000)
			if r.Chance(1, 4) {
				xs[i] = -xs[i]
			}
		}
		return xs, "wide"
	case 8: // neighbouring floats
		base := math.Ldexp(1+r.Float(), r.Intn(40)-20)
		for i := range xs {
			xs[i] = math.Float64frombits(math.Float64bits(base) + uint64(r.Intn(4)))
		}
		return xs, "ulps"
	case 9: // zeros of both signs among small values
		for i := range xs {
			switch r.Intn(4) {
			case 0:
				xs[i] = 0
			case 1:
				xs[i] = math.Copysign(0, -1)
			default:
				xs[i] = float64(r.Intn(5) - 2)
			}
		}
		return xs, "zeros"
	}
	// mostly one value with an outlier
	for i := range xs {
		xs[i] = 100
	}
	xs[r.Intn(n)] = 100 + float64(r.Intn(3))
	if n > 2 && r.Bool() {
		xs[r.Intn(n)] = 99
	}
	return xs, "outlier"
}

// second sample related to the first (shifted / overlapping / same shape)
func second(r *hx.Rand, v1 []float64, n int) ([]float64, string) {
	switch r.Intn(5) {
	case 0: // independent shape
		return sample(r, n)
	case 1: // resample of the first (ties across samples)
		xs := make([]float64, n)
		for i := range xs {
			xs[i] = v1[r.Intn(len(v1))]
		}
		return xs, "resample"
	case 2: // shifted copy: fully separated
		xs := make([]float64, n)
		mx := v1[0]
		for _, x := range v1 {
			mx = math.Max(mx, x)
		}
		for i := range xs {
			xs[i] = mx + math.Abs(mx)*0.01*float64(1+i) + float64(1+i)
			if math.IsInf(xs[i], 0) {
				xs[i] = mx
			}
		}
		return xs, "separated"
	case 3: // scaled resample: partial overlap
		xs := make([]float64, n)
		f := 1 + 0.2*(r.Float()-0.5)
		for i := range xs {
			x := v1[r.Intn(len(v1))]
			xs[i] = x * f
			if math.IsInf(xs[i], 0) {
				xs[i] = x // samples hold finite values only
			}
		}
		return xs, "overlap"
	}
	xs := make([]float64, n)
	for i := range xs {
		xs[i] = float64(r.Intn(4))
	}
	return xs, "ties"
}

var specials = []float64{0, math.Copysign(0, -1), 1, -1, math.Inf(1), math.Inf(-1), math.NaN(), math.SmallestNonzeroFloat64,
	math.MaxFloat64, -math.MaxFloat64, 0x1p-1022, 1e-9, 1e6, 0.1, 3, 1e308, 1e-308, 0.5, 2, 100, 0.05, 0.995, 1.005, 1.00005, 0.99995}

func anyFloat(r *hx.Rand) float64 {
	switch r.Intn(6) {
	case 0:
		return hx.Pick(r, specials)
	case 1:
		return math.Float64frombits(r.U64())
	case 2:
		return float64(r.Intn(2001)-1000) / float64(1+r.Intn(16))
	case 3:
		return math.Ldexp(1+r.Float(), r.Intn(60)-30) * float64(1-2*r.Intn(2))
	case 4:
		return float64(r.Intn(200000)) / 100000
	}
	return math.Pow(10, r.Float()*8-4)
}

func renderCases(r *hx.Rand, n int) {
	for i := 0; i < n; i++ {
		p, alpha := anyFloat(r), anyFloat(r)
		switch r.Intn(4) {
		case 0:
			p = hx.Pick(r, alphaGrid)
			alpha = p
		case 1:
			p = math.Abs(math.Mod(p, 1))
			alpha = hx.Pick(r, alphaGrid)
		case 2:
			p = 0
		}
		old := anyFloat(r)
		new := anyFloat(r)
		switch r.Intn(5) {
		case 0:
			new = old
		case 1: // exact decimal ties of the percentage: old = 2^k, new = old*(1 + j/2^m)
			old = math.Ldexp(1, r.Intn(20)-10)
			new = old * (1 + float64(r.Intn(4001)-2000)/float64(int(1)<<uint(5+r.Intn(12))))
		case 2:
			new = old * (1 + (r.Float()-0.5)/float64(int(1)<<uint(r.Intn(50))))
		}
		n1 := r.Intn(12)
		n2 := n1
		if r.Bool() {
			n2 = r.Intn(80)
		}
		fdCase(p, alpha, n1, n2, old, new, "fd")
	}
	for i := 0; i < n; i++ {
		c := anyFloat(r)
		lo, hi := anyFloat(r), anyFloat(r)
		switch r.Intn(5) {
		case 0, 1: // a proper interval around c
			lo = c - math.Abs(c)*r.Float()*r.Float()
			hi = c + math.Abs(c)*r.Float()*r.Float()*2
		case 2: // half-percent ties: c = 2^k·200, ends at multiples of c/400
			c = math.Ldexp(200, r.Intn(20)-10)
			lo = c - c/400*float64(r.Intn(100))
			hi = c + c/400*float64(r.Intn(100))
		case 3:
			lo, hi = c, c
		}
		if r.Chance(1, 12) {
			lo = math.Inf(-1)
		}
		if r.Chance(1, 12) {
			hi = math.Inf(1)
		}
		prCase(c, lo, hi, "pr")
	}
}

// xFamily: finite samples of extreme magnitude, well inside the classes of the findings X1-X3.
func xFamily(r *hx.Rand, n int) {
	mag := func(lo, hi int) float64 { return math.Ldexp(1+r.Float(), lo+r.Intn(hi-lo+1)) }
	for i := 0; i < n; i++ {
		// X1: the two values around the median position have opposite signs and magnitude >= 2^1023,
		// so b-a overflows in Quantile's a + f*(b-a)
		nn := 2 + r.Intn(8)
		xs := make([]float64, nn)
		for j := range xs {
			xs[j] = mag(1023, 1023)
			if j < (nn+1)/2 {
				xs[j] = -xs[j]
			}
			if r.Chance(1, 6) {
				xs[j] = math.Copysign(math.MaxFloat64, xs[j])
			}
		}
		xs = shuffle(r, xs)
		conf := pickConf(r)
		sumCase("nothing", xs, conf, "nothing+xfam+x1")
		sumCase("exact", xs, conf, "exact+xfam+x1")
		// X2: spread >= 2^520: the squared deviations overflow in Variance
		nn = 2 + r.Intn(9)
		ys := make([]float64, nn)
		for j := range ys {
			ys[j] = mag(520, 1000)
			if r.Chance(1, 3) {
				ys[j] = -ys[j]
			}
		}
		sumCase("normal", ys, conf, "normal+xfam+x2")
		// X3: variances whose squares overflow (|x| >= 2^300) or underflow to 0 (|x| <= 2^-300)
		n1, n2 := 2+r.Intn(7), 2+r.Intn(7)
		lo, hi := 300, 1000
		if r.Bool() {
			lo, hi = -1000, -300
		}
		v1 := make([]float64, n1)
		v2 := make([]float64, n2)
		for j := range v1 {
			v1[j] = mag(lo, hi)
		}
		for j := range v2 {
			v2[j] = mag(lo, hi)
		}
		cmpCase(r, "normal", v1, v2, pickAlpha(r), false, "normal+xfam+x3")
		cmpCase(r, "nothing", v1, v2, pickAlpha(r), false, "nothing+xfam+x3")
		// rank-based comparison of opposite-sign samples near ±MaxFloat64: the plain SUM of each sample
		// overflows (to +Inf and -Inf), the ranks do not care. Small sizes: judged by the exact
		// permutation p-value, the swap and the 2^k rescaling (seed C13-R).
		m1, m2 := 2+r.Intn(5), 2+r.Intn(5)
		w1 := make([]float64, m1)
		w2 := make([]float64, m2)
		for j := range w1 {
			w1[j] = math.Ldexp(1+r.Float()*0.7, 1023)
		}
		for j := range w2 {
			w2[j] = -math.Ldexp(1+r.Float()*0.7, 1023)
		}
		if r.Bool() {
			w1, w2 = w2, w1
		}
		cmpCase(r, "nothing", w1, w2, pickAlpha(r), false, "nothing+xfam+sumovf")
		cmpCase(r, "exact", w1, w2, pickAlpha(r), false, "exact+xfam+sumovf")
	}
}

func main() {
	defer hx.Flush()
	r := hx.NewRand(13)

	// the table and uTestSamples / medianSamples
	tab := benchmath.VerifUTestMinP()
	hx.Printf("case %d kind=tab itab=%s tag=table\n", id, list(tab[1:]))
	hx.Printf("obs %d minp=%s\n", id, list(tab[1:]))
	hx.Printf("sobs %d minp=ok\n", id)
	id++
	for _, a := range append(append([]float64(nil), alphaGrid...), tab[1:]...) {
		for _, d := range []int{-1, 0, 1} {
			x := math.Float64frombits(uint64(int64(math.Float64bits(a)) + int64(d)))
			if a == 0 && d == -1 {
				x = -1
			}
			op, n := benchmath.VerifUTestSamples(x)
			hx.Printf("case %d kind=uts alpha=%s tag=utestsamples\n", id, raw(x))
			hx.Printf("obs %d need=%s:%d\n", id, opName[op], n)
			id++
		}
	}
	for _, c := range confGrid {
		op, n := benchmath.VerifMedianSamples(c)
		hx.Printf("case %d kind=ms conf=%s need=%s tag=mediansamples\n", id, raw(c), needTable(c))
		hx.Printf("obs %d need=%s:%d\n", id, opName[op], n)
		id++
	}

	// corpus: the design-time witnesses (DESIGN.md §5 F7, F13) and small fixed samples
	cmpCase(r, "nothing", []float64{1, 2}, []float64{2}, 0.05, false, "nothing+corpus")
	cmpCase(r, "nothing", []float64{4, 4, 5, 2}, []float64{1, 0}, 0.05, false, "nothing+corpus")
	cmpCase(r, "nothing", []float64{1, 2, 3}, []float64{4, 5, 6}, 0.1, false, "nothing+corpus+alphaeqp")
	cmpCase(r, "normal", []float64{1, 2, 3, 4, 5}, []float64{101, 102, 103, 104, 105}, 0.05, false, "normal+corpus")
	cmpCase(r, "exact", []float64{1, 1}, []float64{2, 2}, 0.05, false, "exact+corpus")
	for _, a := range anames {
		sumCase(a, []float64{3, 1, 2, 2, 3}, 0.95, a+"+corpus")
		for n := 1; n <= 8; n++ {
			xs := make([]float64, n)
			for i := range xs {
				xs[i] = float64(100 + (i*7)%5)
			}
			sumCase(a, xs, 0.95, a+"+corpus")
		}
	}

	xFamily(hx.NewRand(1313), hx.N(40, 400))
	needFamily(hx.NewRand(1314))
	zeroFamily(hx.NewRand(1315))
	nanFamily(hx.NewRand(1316))
	ra := hx.NewRand(1317)
	for i := hx.N(400, 4000); i > 0; i-- {
		aliasCase(ra)
	}
	cacheFamily(hx.NewRand(1318))
	rs := hx.NewRand(1321)
	for i := hx.N(600, 6000); i > 0; i-- {
		structCase(rs)
	}
	windowFamily(hx.NewRand(1320))
	rc := hx.NewRand(1319)
	for i := hx.N(60, 600); i > 0; i-- {
		concCase(rc)
	}

	renderCases(r, hx.N(4000, 40000))

	// exhaustive small tied pairs for the exact permutation p-value (values 0..2, sizes ≤ 3+3)
	small := [][]float64{}
	for n := 1; n <= 3; n++ {
		tot := 1
		for i := 0; i < n; i++ {
			tot *= 3
		}
		for m := 0; m < tot; m++ {
			xs := make([]float64, n)
			mm := m
			ok := true
			for i := range xs {
				xs[i] = float64(mm % 3)
				mm /= 3
				if i > 0 && xs[i] < xs[i-1] {
					ok = false // multisets only
				}
			}
			if ok {
				small = append(small, xs)
			}
		}
	}
	for _, a := range small {
		for _, b := range small {
			cmpCase(r, "nothing", a, b, 0.05, false, "nothing+exhaustive")
		}
	}

	ns := hx.N(2000, 15000)
	for i := 0; i < ns; i++ {
		vals, shape := sample(r, pickN(r))
		conf := pickConf(r)
		for _, a := range anames {
			sumCase(a, vals, conf, a+"+"+shape)
		}
	}
	nc := hx.N(2000, 15000)
	for i := 0; i < nc; i++ {
		n1, n2 := pickN(r), pickN(r)
		if r.Chance(1, 2) { // small pairs: exact permutation p-value applies
			n1, n2 = 1+r.Intn(6), 1+r.Intn(6)
		} else if r.Chance(1, 3) {
			n2 = n1
		}
		v1, sh1 := sample(r, n1)
		v2, sh2 := second(r, v1, n2)
		alpha := pickAlpha(r)
		eq := r.Chance(1, 5)
		for _, a := range anames {
			tag := a + "+" + sh1 + "+" + sh2
			if eq {
				tag += "+alphaeqp"
			}
			cmpCase(r, a, v1, v2, alpha, eq, tag)
		}
	}
	globCase()
}
