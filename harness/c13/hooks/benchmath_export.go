//go:build verif

package benchmath

// VerifUTestMinP exposes the table of minimum attainable U-test p-values.
func VerifUTestMinP() []float64 { return append([]float64(nil), uTestMinP...) }

// VerifUTestSamples exposes uTestSamples.
func VerifUTestSamples(alpha float64) (string, int) { return uTestSamples(alpha) }

// VerifMedianSamples exposes medianSamples.
func VerifMedianSamples(confidence float64) (string, int) { return medianSamples(confidence) }
