//go:build verif

package app

// VerifAddToQuery exposes addToQuery.
func VerifAddToQuery(query, add string) string { return addToQuery(query, add) }

// VerifParseQueryString exposes parseQueryString.
func VerifParseQueryString(q string) (string, []string) { return parseQueryString(q) }
