//go:build verif

package db

import (
	"fmt"
	"time"
)

// VerifSetNow replaces the clock used by NewUpload for the day part of upload ids.
func VerifSetNow(f func() time.Time) { now = f }

// VerifParseQuery exposes parseQuery: the subselects, their arguments (all strings) and the error.
func VerifParseQuery(q string) (sqls []string, args []string, err error) {
	s, a, err := parseQuery(q)
	for _, x := range a {
		args = append(args, fmt.Sprint(x))
	}
	return s, args, err
}

// VerifSingleConn limits the pool to one connection: with the ":memory:" data source every further
// connection would be a separate, empty database.
func VerifSingleConn(d *DB) { d.sql.SetMaxOpenConns(1) }
