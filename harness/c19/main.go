//go:build verif

// C19 harness: the storage stack in-process (sqlite :memory: + MemFS + app.App behind an
// httptest server + storage.Client), upload histories, queries, listings; query.SplitWords and the
// analysis front end's addToQuery.
package main

import (
	"context"
	"encoding/hex"
	"fmt"
	"io"
	"log"
	"net/http"
	"net/http/httptest"
	"os"
	"path/filepath"
	"sort"
	"strconv"
	"strings"
	"sync"
	"time"
	"unicode"

	aapp "golang.org/x/perf/analysis/app"
	"golang.org/x/perf/internal/verifh/hx"
	"golang.org/x/perf/storage"
	"golang.org/x/perf/storage/app"
	"golang.org/x/perf/storage/benchfmt"
	"golang.org/x/perf/storage/db"
	_ "golang.org/x/perf/storage/db/sqlite3"
	"golang.org/x/perf/storage/fs"
	"golang.org/x/perf/storage/query"
)

// ---------------------------------------------------------------- case encoding

type fileIn struct{ name, content string }
type uploadIn struct {
	day, user string
	files     []fileIn
}
type listReq struct {
	q     string
	limit int
}
type histCase struct {
	ups  []uploadIn
	qs   []string
	ls   []listReq
	tags []string
	// xl: extra labels asked for with every listing request (none: not exercised)
	xl []string
	// il: run on a file-backed database (several connections) and interleave open iterators
	il bool
}

func (c *histCase) encode(id string) string {
	var us []string
	for _, u := range c.ups {
		var fs []string
		for _, f := range u.files {
			fs = append(fs, hx.HexS(f.name)+"."+hx.HexS(f.content))
		}
		us = append(us, hx.HexS(u.day)+"~"+hx.HexS(u.user)+"~"+strings.Join(fs, "+"))
	}
	var ls []string
	for _, l := range c.ls {
		ls = append(ls, hx.HexS(l.q)+":"+strconv.Itoa(l.limit))
	}
	lss := "-"
	if len(ls) > 0 {
		lss = strings.Join(ls, ",")
	}
	tags := "trivial"
	if len(c.tags) > 0 {
		tags = strings.Join(c.tags, "+")
	}
	il := 0
	if c.il {
		il = 1
	}
	return fmt.Sprintf("case %s kind=hist ups=%s qs=%s ls=%s uni=%s xl=%s il=%d tag=%s", id, strings.Join(us, ";"), hx.HexListS(c.qs), lss, c.uniTable(), hx.HexListS(c.xl), il, tags)
}

// uniTable lists the toolchain's classification of every non-ASCII rune of the case
// (1 = unicode.IsSpace, 2 = IsUpper, 4 = IsLower); the model takes it as a parameter.
func (c *histCase) uniTable() string {
	seen := map[rune]int{}
	add := func(s string) {
		for _, r := range s {
			if r < 0x80 {
				continue
			}
			f := 0
			if unicode.IsSpace(r) {
				f |= 1
			}
			if unicode.IsUpper(r) {
				f |= 2
			}
			if unicode.IsLower(r) {
				f |= 4
			}
			seen[r] = f
		}
	}
	for _, u := range c.ups {
		for _, f := range u.files {
			add(f.content)
		}
	}
	for _, q := range c.qs {
		add(q)
	}
	for _, l := range c.ls {
		add(l.q)
	}
	var rs []int
	for r := range seen {
		rs = append(rs, int(r))
	}
	sort.Ints(rs)
	var parts []string
	for _, r := range rs {
		parts = append(parts, fmt.Sprintf("%x:%d", r, seen[rune(r)]))
	}
	if len(parts) == 0 {
		return "-"
	}
	return strings.Join(parts, ",")
}

func decodeHist(line string) *histCase {
	c := &histCase{}
	ups, _ := hx.Field(line, "ups")
	for _, u := range strings.Split(ups, ";") {
		p := strings.Split(u, "~")
		if len(p) != 3 {
			continue
		}
		up := uploadIn{day: string(hx.UnHex(p[0])), user: string(hx.UnHex(p[1]))}
		for _, f := range strings.Split(p[2], "+") {
			fp := strings.Split(f, ".")
			up.files = append(up.files, fileIn{string(hx.UnHex(fp[0])), string(hx.UnHex(fp[1]))})
		}
		c.ups = append(c.ups, up)
	}
	qs, _ := hx.Field(line, "qs")
	for _, q := range hx.UnHexList(qs) {
		c.qs = append(c.qs, string(q))
	}
	ls, _ := hx.Field(line, "ls")
	if ls != "-" && ls != "" {
		for _, l := range strings.Split(ls, ",") {
			p := strings.Split(l, ":")
			n, _ := strconv.Atoi(p[1])
			c.ls = append(c.ls, listReq{string(hx.UnHex(p[0])), n})
		}
	}
	if t, ok := hx.Field(line, "tag"); ok && t != "trivial" {
		c.tags = strings.Split(t, "+")
	}
	if x, ok := hx.Field(line, "xl"); ok {
		for _, e := range hx.UnHexList(x) {
			c.xl = append(c.xl, string(e))
		}
	}
	if v, ok := hx.Field(line, "il"); ok && v == "1" {
		c.il = true
	}
	return c
}

// ---------------------------------------------------------------- the server

var (
	curMux  http.Handler
	curDay  string
	muxLock sync.Mutex
	server  *httptest.Server
)

type userRT struct{ user string }

func (u userRT) RoundTrip(r *http.Request) (*http.Response, error) {
	r2 := r.Clone(r.Context())
	r2.Header.Set("X-User", hex.EncodeToString([]byte(u.user)))
	return http.DefaultTransport.RoundTrip(r2)
}

func startServer() {
	server = httptest.NewServer(http.HandlerFunc(func(w http.ResponseWriter, r *http.Request) {
		muxLock.Lock()
		h := curMux
		muxLock.Unlock()
		h.ServeHTTP(w, r)
	}))
	db.VerifSetNow(func() time.Time {
		t, err := time.Parse("20060102", curDay)
		if err != nil {
			return time.Date(2026, 1, 1, 12, 0, 0, 0, time.UTC)
		}
		return t.Add(12 * time.Hour)
	})
}

// ---------------------------------------------------------------- canonical output

func labelsStr(l benchfmt.Labels) string {
	keys := make([]string, 0, len(l))
	for k := range l {
		keys = append(keys, k)
	}
	sort.Strings(keys)
	var parts []string
	for _, k := range keys {
		v := l[k]
		if k == "upload-time" {
			v = "T"
		}
		if k == "name" && v == "" {
			// Whether an empty benchmark name yields name="" or no name label depends on the previous
			// line seen by the same Reader (one-entry name cache), hence on SQLite's row order.
			continue
		}
		parts = append(parts, hx.HexS(k)+":"+hx.HexS(v))
	}
	return strings.Join(parts, ";")
}

func recStr(r *benchfmt.Result) string {
	return "L" + labelsStr(r.Labels) + "|N" + labelsStr(r.NameLabels) + "|" + hx.HexS(r.Content)
}

// specRec renders a result in the vocabulary of the property: all labels together, the line.
func specRec(r *benchfmt.Result) string {
	var parts []string
	for _, l := range []benchfmt.Labels{r.Labels, r.NameLabels} {
		for k, v := range l {
			if k == "upload-time" {
				v = "T"
			}
			if k == "name" && v == "" {
				continue
			}
			parts = append(parts, hx.HexS(k)+":"+hx.HexS(v))
		}
	}
	sort.Strings(parts)
	return strings.Join(parts, ";") + "|" + hx.HexS(r.Content)
}

func joinSorted(recs []string) string {
	if len(recs) == 0 {
		return "-"
	}
	sort.Strings(recs)
	return strings.Join(recs, ",")
}

// errTag maps the errors a query may legitimately produce to "!err"; anything else stays visible.
func errTag(err error) string {
	s := err.Error()
	for _, ok := range []string{"is missing operator", "has invalid key", "missing value for key", "missing q parameter"} {
		if strings.Contains(s, ok) {
			return "!err"
		}
	}
	if len(s) > 120 {
		s = s[:120]
	}
	return "!err:" + hx.HexS(s)
}

func parseErrTag(err error) string {
	if err == io.EOF {
		return "!eof"
	}
	s := err.Error()
	switch {
	case strings.Contains(s, "is missing operator"):
		return "!missingop"
	case strings.Contains(s, "has invalid key"):
		return "!invalidkey"
	case strings.Contains(s, "missing value for key"):
		return "!missingvalue"
	}
	return "!other:" + hx.HexS(s)
}

// ---------------------------------------------------------------- running a history

func runHist(id string, c *histCase) {
	dsn := ":memory:"
	if c.il {
		// several connections onto one database: needed to keep two iterators open at once
		f, err := os.CreateTemp("", "c19-*.db")
		if err != nil {
			panic(err)
		}
		f.Close()
		dsn = f.Name()
		defer os.Remove(dsn)
	}
	d, err := db.OpenSQL("sqlite3", dsn)
	if err != nil {
		panic(err)
	}
	defer d.Close()
	if !c.il {
		db.VerifSingleConn(d)
	}
	a := &app.App{DB: d, FS: fs.NewMemFS(), Auth: func(w http.ResponseWriter, r *http.Request) (string, error) {
		u, _ := hex.DecodeString(r.Header.Get("X-User"))
		return string(u), nil
	}}
	mux := http.NewServeMux()
	a.RegisterOnMux(mux)
	muxLock.Lock()
	curMux = mux
	muxLock.Unlock()
	ctx, cancel := context.WithTimeout(context.Background(), 60*time.Second)
	defer cancel()

	for i, u := range c.ups {
		curDay = u.day
		cl := &storage.Client{BaseURL: server.URL, HTTPClient: &http.Client{Transport: userRT{u.user}}}
		up := cl.NewUpload(ctx)
		failed := false
		for _, f := range u.files {
			w, err := up.CreateFile(f.name)
			if err != nil {
				failed = true
				break
			}
			if _, err := io.WriteString(w, f.content); err != nil {
				failed = true
				break
			}
		}
		var st *storage.UploadStatus
		if failed {
			up.Abort()
		} else {
			st, err = up.Commit()
		}
		if st != nil && err == nil {
			hx.Printf("obs %s up%d ok=1 uid=%s parts=%s\n", id, i, hx.HexS(st.UploadID), hx.HexListS(st.FileIDs))
		} else {
			hx.Printf("obs %s up%d ok=0\n", id, i)
		}
	}
	n, err := d.CountUploads()
	hx.Printf("obs %s uploads n=%d err=%v wf=1\n", id, n, err != nil)

	cl := &storage.Client{BaseURL: server.URL}
	for j, q := range c.qs {
		// the SQL the query is translated to
		sqls, args, err := db.VerifParseQuery(q)
		sqlS := ""
		if err != nil {
			sqlS = parseErrTag(err)
		} else {
			var ps []string
			for _, s := range sqls {
				ps = append(ps, hx.HexS(s))
			}
			sqlS = strings.Join(ps, "/") + "@" + hx.HexListS(args)
		}
		// db.Query
		var recs, srecs []string
		// every result is KEPT while the iteration goes on and rendered only afterwards: a Result must
		// not change once handed out (the Reader shares label maps between consecutive results)
		var kept []*benchfmt.Result
		dq := d.Query(q)
		for dq.Next() {
			kept = append(kept, dq.Result())
		}
		for _, r := range kept {
			recs = append(recs, recStr(r))
		}
		dbS := joinSorted(recs)
		if dq.Err() != nil {
			dbS = errTag(dq.Err())
		}
		dq.Close()
		// Client.Query (the server refuses an empty q parameter)
		recs = nil
		clS, spS := "", ""
		kept = nil
		cq := cl.Query(ctx, q)
		for cq.Next() {
			kept = append(kept, cq.Result())
		}
		for _, r := range kept {
			recs = append(recs, recStr(r))
			srecs = append(srecs, specRec(r))
		}
		clS, spS = joinSorted(recs), joinSorted(srecs)
		if cq.Err() != nil {
			clS, spS = errTag(cq.Err()), "!err"
		}
		cq.Close()
		hx.Printf("obs %s q%d sql=%s db=%s cl=%s\n", id, j, sqlS, dbS, clS)
		if q != "" {
			hx.Printf("sobs %s q%d res=%s\n", id, j, spS)
		}
	}
	if c.il {
		render := func(rs []*benchfmt.Result, err error) string {
			if err != nil {
				return errTag(err)
			}
			var out []string
			for _, r := range rs {
				out = append(out, recStr(r))
			}
			return joinSorted(out)
		}
		for j := 0; j+1 < len(c.qs); j += 2 {
			qa, qb := c.qs[j], c.qs[j+1]
			// two db.Query iterators open at once, advanced in turn
			a, b := d.Query(qa), d.Query(qb)
			var ka, kb []*benchfmt.Result
			for moreA, moreB := true, true; moreA || moreB; {
				if moreA {
					if moreA = a.Next(); moreA {
						ka = append(ka, a.Result())
					}
				}
				if moreB {
					if moreB = b.Next(); moreB {
						kb = append(kb, b.Result())
					}
				}
			}
			sa, sb := render(ka, a.Err()), render(kb, b.Err())
			a.Close()
			b.Close()
			// the same with two Client.Query iterators of one Client
			ca, cb := cl.Query(ctx, qa), cl.Query(ctx, qb)
			ka, kb = nil, nil
			for moreA, moreB := true, true; moreA || moreB; {
				if moreB {
					if moreB = cb.Next(); moreB {
						kb = append(kb, cb.Result())
					}
				}
				if moreA {
					if moreA = ca.Next(); moreA {
						ka = append(ka, ca.Result())
					}
				}
			}
			sca, scb := render(ka, ca.Err()), render(kb, cb.Err())
			ca.Close()
			cb.Close()
			hx.Printf("obs %s il%d a=%s b=%s ca=%s cb=%s\n", id, j, sa, sb, sca, scb)
			// an iterator abandoned after the first result: Err before exhaustion, early Close
			e := d.Query(qa)
			got := e.Next()
			bad := e.Err() != nil
			e.Close()
			hx.Printf("obs %s ec%d next=%v err=%v\n", id, j, got, bad)
		}
	}
	showX := func(next func() bool, info func() storage.UploadInfo, errf func() error) string {
		var rows []string
		for next() {
			ui := info()
			rows = append(rows, hx.HexS(ui.UploadID)+":"+strconv.Itoa(ui.Count)+":"+labelsStr(ui.LabelValues))
		}
		if errf() != nil {
			return errTag(errf())
		}
		if len(rows) == 0 {
			return "-"
		}
		return strings.Join(rows, ",")
	}
	for j, l := range c.ls {
		if len(c.xl) > 0 {
			// the same listing with extra labels, twice on the same DB / Client with different sets
			var outs []string
			for _, xs := range [][]string{c.xl, {"upload-time"}} {
				dl := d.ListUploads(l.q, xs, l.limit)
				outs = append(outs, showX(dl.Next, dl.Info, dl.Err))
				dl.Close()
				cll := cl.ListUploads(ctx, l.q, xs, l.limit)
				outs = append(outs, showX(cll.Next, cll.Info, cll.Err))
				cll.Close()
			}
			hx.Printf("obs %s lx%d db1=%s cl1=%s db2=%s cl2=%s\n", id, j, outs[0], outs[1], outs[2], outs[3])
		}
		show := func(next func() bool, info func() storage.UploadInfo, errf func() error) string {
			var rows []string
			for next() {
				ui := info()
				rows = append(rows, hx.HexS(ui.UploadID)+":"+strconv.Itoa(ui.Count))
			}
			if errf() != nil {
				return errTag(errf())
			}
			if len(rows) == 0 {
				return "-"
			}
			return strings.Join(rows, ",")
		}
		dl := d.ListUploads(l.q, nil, l.limit)
		dS := show(dl.Next, dl.Info, dl.Err)
		dl.Close()
		cll := cl.ListUploads(ctx, l.q, nil, l.limit)
		cS := show(cll.Next, cll.Info, cll.Err)
		cll.Close()
		hx.Printf("obs %s l%d db=%s cl=%s\n", id, j, dS, cS)
		if strings.HasPrefix(cS, "!err") {
			cS = "!err"
		}
		hx.Printf("sobs %s l%d res=%s\n", id, j, cS)
	}
}

func wordsStr(ws []string) string {
	if len(ws) == 0 {
		return "_"
	}
	return strings.ReplaceAll(hx.HexListS(ws), ",", "+")
}

func runSW(id string, q, add string) {
	words := query.SplitWords(q)
	atq := aapp.VerifAddToQuery(q, add)
	back := query.SplitWords(atq)
	// the front end's own splitter, on the old query and on the query the builder made
	p0, g0 := aapp.VerifParseQueryString(q)
	p1, g1 := aapp.VerifParseQueryString(atq)
	hx.Printf("obs %s words=%s atq=%s back=%s pq=%s/%s pqa=%s/%s\n", id, hx.HexListS(words), hx.HexS(atq), hx.HexListS(back),
		hx.HexS(p0), hx.HexListS(g0), hx.HexS(p1), hx.HexListS(g1))
	first := "-"
	if len(back) > 0 {
		first = hx.HexS(back[0])
	}
	// what reaches the storage server (fetchCompareResults: prefix + " " + query), split into words
	var sent []string
	for _, g := range g1 {
		if p1 != "" {
			g = p1 + " " + g
		}
		sent = append(sent, wordsStr(query.SplitWords(g)))
	}
	sentS := "-"
	if len(sent) > 0 {
		sentS = strings.Join(sent, ";")
	}
	hx.Printf("sobs %s first=%s n=%d sent=%s\n", id, first, len(back)-len(words), sentS)
}

func runLine(line string) {
	sp := strings.SplitN(line, " ", 3)
	id := sp[1]
	done := make(chan string, 1)
	go func() {
		defer func() {
			if r := recover(); r != nil {
				done <- fmt.Sprintf("panic: %v", r)
				return
			}
			done <- ""
		}()
		kind, _ := hx.Field(line, "kind")
		switch kind {
		case "hist":
			runHist(id, decodeHist(line))
		case "sw":
			q, _ := hx.Field(line, "q")
			a, _ := hx.Field(line, "add")
			runSW(id, string(hx.UnHex(q)), string(hx.UnHex(a)))
		}
	}()
	select {
	case msg := <-done:
		if msg != "" {
			hx.Printf("crash %s %s\n", id, strings.ReplaceAll(msg, "\n", " "))
		}
	case <-time.After(120 * time.Second):
		hx.Printf("crash %s timeout\n", id)
		hx.Flush()
		os.Exit(0)
	}
}

// ---------------------------------------------------------------- generators

var cfgKeys = []string{"k", "pkg", "commit", "goos", "a", "z"}
var riskyKeys = []string{"name", "gomaxprocs", "sub1", "upload", "by", "upload-file", "upload-part", "upload-time", "b"}
var vals = []string{"1", "2", "10", "a", "ab", "abc", "b", "a b", `x"y`, `c\d`, "\xc3\xa9", "Z", "~", "v w  ", "0", "a\tb", "x:y", "p>q", "|"}
// label values holding white space that is neither blank nor tab: the query builder leaves them
// unquoted and SplitWords must keep them in one word
var wsVals = []string{"Xeon\u00a0E5", "a\u2003b", "a\u3000b", "x\u2028y", "a\vb", "a\fb", "a\rb", "\u00a0lead", "trail\u3000", "v\u0085w"}
var bases = []string{"Foo", "Bar", "F", "Foo-bar", "\xc3\xa9t\xc3\xa9", "Q"}
var subs = []string{"/x", "/y", "/a=1", "/a=2", "/b=c=d", "/name=q", "/gomaxprocs=3", "/sub2=w", "/z=1"}
var sufs = []string{"", "", "", "-4", "-8", "-16", "-+5", "--3", "-x", "-99999999999999999999", "-0", "-9223372036854775807", "-9223372036854775808"}
var serverKeys = []string{"upload", "upload-part", "upload-time", "upload-file", "by"}
var users = []string{"", "", "alice", "bob smith", "carol"}
var fnames = []string{"", "f.txt", "g.txt", "d/h.txt", "a b.txt", `d\w.txt`, "f.txt"}

type gen struct {
	r *hx.Rand
	// findings switches one class of recorded findings on: 1 = label values the printer/reader pair
	// does not preserve (leading blank from the server, CR CR LF line ends), 2 = empty name-derived
	// label values
	findings int
	// unicode mixes non-ASCII letters and spaces into keys, names and query keys
	unicode bool
	// pairs are the key/value pairs the files of the current history set
	pairs [][2]string
}

var uniKeys = []string{"\u00e9", "\u043a\u043b\u044e\u0447", "k\u00c9", "k\u00a0x", "\u00c9x", "k\u2028", "\u00e9\u00e8k", "k\xff", "\xffk", "k\u00df"}
var uniNames = []string{"Foo\u00a0bar", "Foo\u0085x", "\u00c9t\u00e9", "F\u3000", "Foo\xff", "Q\u00a0z"}

func (g *gen) name() string {
	r := g.r
	n := hx.Pick(r, bases)
	if g.unicode && r.Chance(1, 2) {
		n = hx.Pick(r, uniNames)
	}
	for k := r.Intn(3); k > 0; k-- {
		n += hx.Pick(r, subs)
	}
	if g.findings == 2 && r.Chance(1, 3) {
		n += hx.Pick(r, []string{"/", "/a=", "/=v", "/z="})
	}
	if r.Chance(1, 120) {
		return hx.Pick(r, []string{"-4", "-8", "-16", "-+5", "-x"}) // the name is only a -N suffix: dash at index 0
	}
	if r.Chance(1, 40) {
		n += "/k=1" // clashes when k is also file configuration
	}
	if r.Chance(1, 60) {
		n += "/upload=9" // clashes with the server's label
	}
	return n + hx.Pick(r, sufs)
}

func (g *gen) file(tags map[string]bool) string {
	r := g.r
	var b strings.Builder
	eol := "\n"
	if r.Chance(1, 12) {
		eol = "\r\n"
		tags["crlf"] = true
	}
	names := []string{g.name()}
	for k := r.Intn(3); k > 0; k-- {
		names = append(names, g.name())
	}
	if g.findings == 2 && r.Chance(1, 4) {
		names = append(names, "")
	}
	if r.Chance(1, 12) {
		// a header: removal / assignment lines for server keys, then the blank line
		for n := 1 + r.Intn(3); n > 0; n-- {
			k := hx.Pick(r, serverKeys)
			if r.Chance(1, 3) {
				b.WriteString(k + ": other" + eol)
			} else {
				b.WriteString(k + ":" + eol)
			}
		}
		b.WriteString(eol)
		tags["unset-server"] = true
	}
	nb := 0
	bench := func() {
		n := hx.Pick(r, names)
		rep := 1
		if r.Chance(1, 3) {
			rep += 1 + r.Intn(3)
			tags["coalesce"] = true
		}
		for ; rep > 0; rep-- {
			sep := " "
			if r.Chance(1, 8) {
				sep = "\t"
			}
			e := eol
			if g.findings == 1 && r.Chance(1, 10) {
				e = "\r" + eol
			}
			fmt.Fprintf(&b, "Benchmark%s%s%d %d ns/op%s", n, sep, 1+r.Intn(3), r.Intn(100), e)
			nb++
		}
	}
	for n := 1 + r.Intn(9); n > 0; n-- {
		switch x := r.Intn(20); {
		case x < 5:
			k := hx.Pick(r, cfgKeys)
			if r.Chance(1, 25) {
				k = hx.Pick(r, riskyKeys)
				tags["risky"] = true
			}
			if g.unicode && r.Chance(1, 2) {
				k = hx.Pick(r, uniKeys)
				tags["unikey"] = true
			}
			sep := hx.Pick(r, []string{": ", ": ", ":\t", ":   "})
			val := hx.Pick(r, vals)
			if r.Chance(1, 5) {
				val = hx.Pick(r, wsVals)
				tags["wsval"] = true
			}
			g.pairs = append(g.pairs, [2]string{k, val})
			e := eol
			if g.findings == 1 && r.Chance(1, 8) {
				e = "\r" + eol
			}
			b.WriteString(k + sep + val + e)
			tags["set"] = true
		case x < 7:
			k := hx.Pick(r, cfgKeys)
			if r.Chance(1, 4) {
				// a removal line for a label the server adds (as in a saved /search response): the
				// server's labels are permanent, file content can neither override nor remove them
				k = hx.Pick(r, serverKeys)
				tags["unset-server"] = true
			}
			b.WriteString(k + hx.Pick(r, []string{":", ":  ", ": \t"}) + eol)
			tags["unset"] = true
		case x < 8:
			b.WriteString(eol)
		case x < 9:
			b.WriteString(hx.Pick(r, []string{"PASS", "ok  \tpkg\t1.2s", "k:v", "K: v", "k v: w", "BenchmarkNoSpace", "benchmarkfoo 1 2 ns/op", ":x", "k2:: y", "  k: v", "kA: v", "k\tx: v"}) + eol)
		default:
			bench()
		}
	}
	if nb == 0 && !r.Chance(1, 25) {
		bench()
	}
	s := b.String()
	if r.Chance(1, 10) {
		s = strings.TrimSuffix(s, eol) // last line without terminator
	}
	return s
}

func quoteWord(r *hx.Rand, w string) string {
	if !strings.ContainsAny(w, " \t\\\"") && !r.Chance(1, 6) {
		return w
	}
	switch r.Intn(3) {
	case 0: // whole word in quotes
		return `"` + strings.NewReplacer(`\`, `\\`, `"`, `\"`).Replace(w) + `"`
	case 1: // backslash before every special byte
		var b strings.Builder
		for i := 0; i < len(w); i++ {
			if strings.IndexByte(" \t\\\"", w[i]) >= 0 {
				b.WriteByte('\\')
			}
			b.WriteByte(w[i])
		}
		return b.String()
	default: // quotes around the value only
		i := strings.IndexAny(w, ":<>")
		if i < 0 || strings.ContainsAny(w[:i], " \t\\\"") {
			return `"` + strings.NewReplacer(`\`, `\\`, `"`, `\"`).Replace(w) + `"`
		}
		return w[:i+1] + `"` + strings.NewReplacer(`\`, `\\`, `"`, `\"`).Replace(w[i+1:]) + `"`
	}
}

func (g *gen) query(c *histCase, ids []string, tags map[string]bool) string {
	r := g.r
	keys := []string{"k", "pkg", "commit", "goos", "a", "z", "name", "gomaxprocs", "sub1", "sub2", "b", "upload", "upload-part", "upload-file", "by", "absent", "k"}
	if g.unicode {
		keys = append(keys, uniKeys...)
		keys = append(keys, uniKeys...)
	}
	valFor := func(k string) string {
		switch k {
		case "upload":
			if r.Chance(3, 4) {
				return hx.Pick(r, ids)
			}
			return hx.Pick(r, []string{"2026", "20260101", "20260101.", "3", ""})
		case "upload-part":
			return hx.Pick(r, ids) + "/" + strconv.Itoa(r.Intn(3))
		case "upload-file":
			return hx.Pick(r, []string{"f.txt", "g.txt", "h.txt", "a b.txt", "w.txt", " f.txt"})
		case "by":
			return hx.Pick(r, []string{"alice", "bob smith", "carol", "b", " sp"})
		case "name":
			return hx.Pick(r, []string{"Foo", "Bar", "F", "Foo-bar", "Foo-ba", "G", "q", "\xc3\xa9t\xc3\xa9", ""})
		case "gomaxprocs":
			return hx.Pick(r, []string{"4", "8", "16", "+5", "3", "0", "1", "9"})
		case "sub1", "sub2":
			return hx.Pick(r, []string{"x", "y", "w", "", "a"})
		}
		return hx.Pick(r, vals)
	}
	if len(g.pairs) > 0 && r.Chance(1, 4) {
		// what the analysis front end sends: terms quoted by its own query builder
		var ws []string
		for n := 1 + r.Intn(2); n > 0; n-- {
			p := hx.Pick(r, g.pairs)
			ws = append(ws, strings.TrimSuffix(aapp.VerifAddToQuery("", p[0]+":"+p[1]), " | "))
		}
		tags["builder"] = true
		return strings.Join(ws, " ")
	}
	if r.Chance(1, 6) {
		// a range and an equality on one key, the equality at, between or outside the bounds, in any
		// order (merge of an equality into an existing range and back)
		k := hx.Pick(r, []string{"k", "pkg", "a", "name", "gomaxprocs"})
		pool := []string{"1", "10", "2", "a", "ab", "abc", "b", "Bar", "F", "Foo", "4", "8", "16"}
		lo, hi := hx.Pick(r, pool), hx.Pick(r, pool)
		eq := hx.Pick(r, []string{lo, hi, hx.Pick(r, pool)})
		ws := []string{k + ">" + lo, k + "<" + hi, k + ":" + eq}
		if r.Chance(1, 2) {
			ws = append(ws, k+hx.Pick(r, []string{">", "<"})+hx.Pick(r, pool))
		}
		if r.Chance(1, 2) {
			for i := len(ws) - 1; i > 0; i-- {
				j := r.Intn(i + 1)
				ws[i], ws[j] = ws[j], ws[i]
			}
		}
		tags["triple"] = true
		return strings.Join(ws, " ")
	}
	if r.Chance(1, 7) {
		// three or four range terms on one key: a range narrowed (or not) from either side
		k := hx.Pick(r, []string{"k", "pkg", "a", "name", "gomaxprocs"})
		pool := []string{"1", "10", "2", "a", "ab", "abc", "b", "Bar", "F", "Foo", "4", "8", "16", "0", "~"}
		ws := []string{k + ">" + hx.Pick(r, pool), k + "<" + hx.Pick(r, pool)}
		for n := 1 + r.Intn(2); n > 0; n-- {
			ws = append(ws, k+hx.Pick(r, []string{">", "<"})+hx.Pick(r, pool))
		}
		if r.Chance(1, 3) {
			for i := len(ws) - 1; i > 0; i-- {
				j := r.Intn(i + 1)
				ws[i], ws[j] = ws[j], ws[i]
			}
		}
		tags["ranges"] = true
		return strings.Join(ws, " ")
	}
	var words []string
	nterms := r.Intn(6)
	for len(words) < nterms {
		k := hx.Pick(r, keys)
		op := hx.Pick(r, []string{":", ":", ">", "<"})
		v := valFor(k)
		if r.Chance(1, 14) {
			v = ""
			tags["emptyval"] = true
		}
		words = append(words, k+op+v)
		if r.Chance(1, 3) && len(words) < nterms { // a second term on the same key
			op2 := hx.Pick(r, []string{":", ">", "<"})
			v2 := valFor(k)
			if r.Chance(1, 3) {
				v2 = v
			}
			words = append(words, k+op2+v2)
			tags["samekey"] = true
		}
	}
	if r.Chance(1, 14) {
		words = append(words, hx.Pick(r, []string{"novalue", "Key:v", "k v", "k", `k\`, "kA<b"}))
		tags["badword"] = true
	}
	r2 := words
	if r.Chance(1, 3) { // shuffle
		for i := len(r2) - 1; i > 0; i-- {
			j := r.Intn(i + 1)
			r2[i], r2[j] = r2[j], r2[i]
		}
	}
	var qs []string
	for _, w := range r2 {
		qw := quoteWord(r, w)
		if qw != w {
			tags["quoted"] = true
		}
		qs = append(qs, qw)
	}
	q := strings.Join(qs, hx.Pick(r, []string{" ", " ", "  ", "\t"}))
	if r.Chance(1, 10) {
		q = " " + q + " "
	}
	if r.Chance(1, 30) {
		q += ` k:"open`
	}
	return q
}

func nextDay(day string) string {
	t, _ := time.Parse("20060102", day)
	return t.Add(24 * time.Hour).Format("20060102")
}

func (g *gen) hist(mode int) *histCase {
	r := g.r
	g.pairs = nil
	c := &histCase{}
	tags := map[string]bool{}
	day := "20260101"
	if r.Chance(1, 5) {
		day = "20251231"
	}
	nup := 1 + r.Intn(5)
	switch mode {
	case 1: // many small uploads on one or two days: sequence numbers pass 9 -> 10 -> 20
		nup = 10 + r.Intn(16)
		tags["seq10"] = true
	case 2: // one big upload: the label queue is flushed in the middle
		nup = 1
		tags["flush"] = true
	}
	var ids []string
	seq := 0
	matching := 0 // mode 1: uploads that hold a record with k=a
	dayChance := 4
	if mode == 1 {
		dayChance = 14 // long runs on one day, sometimes straddling a day change
	}
	for i := 0; i < nup; i++ {
		if r.Chance(1, dayChance) && i > 0 {
			day = nextDay(day)
			seq = 0
			tags["days"] = true
		}
		seq++
		ids = append(ids, fmt.Sprintf("%s.%d", day, seq))
		u := uploadIn{day: day, user: hx.Pick(r, users)}
		if mode != 1 && i > 0 && day != c.ups[0].day && r.Chance(1, 12) {
			// the clock jumps back to the first day: the id <day>.1 exists, NewUpload must fail
			u.day = c.ups[0].day
			seq--
			tags["clockback"] = true
		}
		if g.findings == 1 && r.Chance(1, 4) {
			u.user = " sp"
		}
		nf := 1 + r.Intn(3)
		if mode == 1 {
			nf = 1
		}
		for j := 0; j < nf; j++ {
			f := fileIn{name: hx.Pick(r, fnames)}
			if g.findings == 1 && r.Chance(1, 3) {
				f.name = " f.txt"
			}
			switch mode {
			case 1:
				// 1-3 records per upload (distinct names), matching k:a or not
				kv := hx.Pick(r, []string{"a", "a", "a", "b", "ab", "1"})
				var b strings.Builder
				fmt.Fprintf(&b, "k: %s\n", kv)
				for n, nm := 1+r.Intn(3), 0; nm < n; nm++ {
					fmt.Fprintf(&b, "Benchmark%s 1 %d ns/op\n", bases[nm], r.Intn(9))
					if r.Chance(1, 6) {
						other := hx.Pick(r, []string{"a", "b"})
						fmt.Fprintf(&b, "k: %s\n", other)
						if other == "a" && nm+1 < n {
							kv = "a"
						}
					}
				}
				if kv == "a" {
					matching++
				}
				f.content = b.String()
			case 2:
				var b strings.Builder
				nrec := 28 + r.Intn(14)
				for k := 0; k < nrec; k++ {
					fmt.Fprintf(&b, "k: v%d\n", k)
					if r.Chance(1, 2) {
						fmt.Fprintf(&b, "pkg: p%d\n", k%3)
					}
					for rep := 1 + r.Intn(3); rep > 0; rep-- {
						fmt.Fprintf(&b, "BenchmarkFoo/x-4 1 %d ns/op\n", r.Intn(50))
					}
				}
				f.content = b.String()
			default:
				f.content = g.file(tags)
			}
			u.files = append(u.files, f)
		}
		c.ups = append(c.ups, u)
	}
	var shaped, deep []string
	if mode == 0 && r.Chance(1, 4) {
		// label values that look like further query terms, and the same text as separate terms: the
		// quoted / escaped single term and the unquoted multi-term query must not be confused, in
		// whichever order they reach the same DB (and the same process)
		v1, v2 := hx.Pick(r, []string{"fast", "slow", "a", "b"}), hx.Pick(r, []string{"x", "y", "1"})
		c.ups[0].files = append(c.ups[0].files, fileIn{"shape.txt", fmt.Sprintf(
			"cpu: %s\nnote: %s\nBenchmarkW 1 1 ns/op\ncpu: %s note:%s\nnote:\nBenchmarkW 1 2 ns/op\nnote: %s cpu:%s\ncpu:\nBenchmarkW 1 3 ns/op\n",
			v1, v2, v1, v2, v2, v1)})
		multi, quoted := "cpu:"+v1+" note:"+v2, `"cpu:`+v1+` note:`+v2+`"`
		esc := "cpu:" + v1 + `\ note:` + v2
		rmulti, rquoted := "note:"+v2+" cpu:"+v1, `"note:`+v2+` cpu:`+v1+`"`
		if r.Bool() {
			shaped = []string{multi, quoted, esc, rmulti, rquoted, multi + " name:W", quoted + " name:W"}
		} else {
			shaped = []string{rquoted, quoted, multi, esc, rmulti, quoted + " name:W", multi + " name:W"}
		}
		tags["termshaped"] = true
	}
	if mode == 0 && r.Chance(1, 5) {
		// names with nine to thirteen components: subN is the N-th component
		parts := func(n int, ninth string) string {
			var b strings.Builder
			for i := 1; i <= n; i++ {
				switch {
				case i == 9:
					b.WriteString("/" + ninth)
				case i == 4 && n%2 == 0:
					b.WriteString("/kv=w") // a key=value part still counts as a position
				default:
					fmt.Fprintf(&b, "/l%d", i)
				}
			}
			return b.String()
		}
		n := 9 + r.Intn(5)
		var b strings.Builder
		fmt.Fprintf(&b, "BenchmarkWalk%s 1 1 ns/op\n", parts(n, "l9"))
		fmt.Fprintf(&b, "BenchmarkWalk%s 1 2 ns/op\n", parts(n, "m9"))
		fmt.Fprintf(&b, "BenchmarkWalk%s-8 1 3 ns/op\n", parts(13, "l9"))
		fmt.Fprintf(&b, "BenchmarkWalk%s 1 4 ns/op\n", parts(10, "l9"))
		c.ups[len(c.ups)-1].files = append(c.ups[len(c.ups)-1].files, fileIn{"deep.txt", b.String()})
		deep = []string{"sub9:l9", "sub9:m9", "sub10:l10", "sub9:l10", "sub11:l11 name:Walk", "sub13:l13", "sub12>l1 sub10<l2", "sub8:l8 sub9>l"}
		tags["deepname"] = true
	}
	nq := 4 + r.Intn(5)
	for i := 0; i < nq; i++ {
		c.qs = append(c.qs, g.query(c, ids, tags))
	}
	c.qs = append(c.qs, shaped...)
	c.qs = append(c.qs, deep...)
	if mode == 2 {
		c.qs = append(c.qs, "name:Foo", "k>v1 k<v4")
	}
	c.ls = append(c.ls, listReq{"", hx.Pick(r, []int{0, 0, 1, 2, -1})})
	for i := 0; i < 3; i++ {
		c.ls = append(c.ls, listReq{hx.Pick(r, c.qs), hx.Pick(r, []int{0, 0, 1, 2, 3, -1})})
	}
	c.ls = append(c.ls, listReq{"name>", 0}, listReq{"k:a k:b", 0})
	if len(shaped) > 0 {
		c.ls = append(c.ls, listReq{shaped[0], 0}, listReq{shaped[1], 0}, listReq{shaped[2], 0})
	}
	if len(deep) > 0 {
		c.ls = append(c.ls, listReq{"name:Walk", 0}, listReq{"sub9:l9", 0}, listReq{"sub10:l10", 0})
	}
	if mode == 1 {
		// limits that cut inside, at and beyond the set of matching uploads
		seen := map[int]bool{}
		for _, l := range []int{1, 2, 3, matching - 1, matching, matching + 1} {
			if l > 0 && !seen[l] {
				seen[l] = true
				c.ls = append(c.ls, listReq{"k:a", l})
			}
		}
		c.ls = append(c.ls, listReq{"name>", 2}, listReq{"name>", nup - 1}, listReq{"upload>2025", 3},
			listReq{"k:a name:Foo", 2}, listReq{"k<b", hx.Pick(r, []int{1, 2, 3, 5, 9, 10, 11})}, listReq{"", nup - 1})
	}
	// extra labels whose value is the same for every record of an upload (the server picks "one
	// unspecified record"): by only when no file can set it
	c.xl = []string{"upload", "upload-time", "nosuch"}
	hasBy := false
	for _, u := range c.ups {
		for _, f := range u.files {
			if strings.Contains(f.content, "by:") || strings.Contains(f.content, "by=") {
				hasBy = true
			}
		}
	}
	if !hasBy {
		c.xl = append(c.xl, "by")
	}
	if mode == 0 && r.Chance(1, 6) {
		c.il = true
		tags["interleave"] = true
	}
	for t := range tags {
		c.tags = append(c.tags, t)
	}
	if g.findings != 0 {
		c.tags = append(c.tags, fmt.Sprintf("findings%d", g.findings))
	}
	sort.Strings(c.tags)
	return c
}

func swLine(id string, q, add string) string {
	tag := "plain"
	if strings.ContainsAny(q+add, "\"\\") {
		tag = "quoting"
	} else if strings.ContainsAny(q+add, "\u00a0\u2003\u3000\u2028\u0085\v\f\r") {
		tag = "otherspace"
	}
	return fmt.Sprintf("case %s kind=sw q=%s add=%s tag=%s", id, hx.HexS(q), hx.HexS(add), tag)
}

func emit(line string) {
	hx.Printf("%s\n", line)
	t0 := time.Now()
	runLine(line)
	if d := time.Since(t0); d > 5*time.Second {
		fmt.Fprintf(os.Stderr, "slow case %.60s: %v\n", line, d)
	}
}

func main() {
	defer hx.Flush()
	// The server logs every request; the orchestrator drains stderr shard by shard, so a chatty
	// harness would block on a full pipe.
	log.SetOutput(io.Discard)
	startServer()
	defer server.Close()
	if lines := hx.ReplayLines(); lines != nil {
		for _, l := range lines {
			emit(l)
		}
		return
	}
	shard, _ := strconv.Atoi(os.Getenv("VERIF_SHARD"))
	nshards, _ := strconv.Atoi(os.Getenv("VERIF_NSHARDS"))
	if nshards < 1 {
		nshards = 1
	}
	id := 0
	next := func() string { id++; return strconv.Itoa(id) }
	// corpus first (shard 0): one case line per file line, ids are renumbered
	if shard == 0 {
		files, _ := filepath.Glob(filepath.Join(os.Getenv("VERIF_ROOT"), "corpus", "C19", "*.case"))
		sort.Strings(files)
		for _, f := range files {
			if os.Getenv("VERIF_C19_FINDINGS") == "0" && strings.HasPrefix(filepath.Base(f), "findings") {
				continue
			}
			data, _ := os.ReadFile(f)
			for _, l := range strings.Split(string(data), "\n") {
				if strings.HasPrefix(l, "case ") {
					sp := strings.SplitN(l, " ", 3)
					emit("case " + next() + " " + sp[2])
				}
			}
		}
	}
	if shard == 0 && os.Getenv("VERIF_C19_BIG") != "0" {
		// more uploads than the server's default listing limit (1000 when the client asks for none)
		c := &histCase{tags: []string{"default-limit"}}
		for i := 0; i < 1003; i++ {
			kv := "a"
			if i%7 == 3 {
				kv = "b"
			}
			c.ups = append(c.ups, uploadIn{day: "20260101", files: []fileIn{{"f.txt", fmt.Sprintf("k: %s\nBenchmarkF 1 %d ns/op\n", kv, i%10)}}})
		}
		c.qs = []string{"upload:20260101.1000", "k:b upload>20260101.99"}
		c.ls = []listReq{{"", 0}, {"", 1001}, {"", 999}, {"name>", 0}, {"k:a", 0}, {"k:b", 0}, {"", -1}}
		emit(c.encode(next()))
	}
	if shard == 0 && os.Getenv("VERIF_C19_BIG") != "0" {
		// bufio.Scanner gives up on a line of 64 KiB or more: the Reader reports the error and the
		// whole upload is rejected (also when earlier lines of the file were fine)
		c := &histCase{tags: []string{"longline"}}
		long := strings.Repeat("x", 65536)
		c.ups = []uploadIn{
			{day: "20260101", files: []fileIn{{"a.txt", "k: a\nBenchmarkF 1 1 ns/op\n" + long + "\nBenchmarkF 1 2 ns/op\n"}}},
			{day: "20260101", files: []fileIn{{"b.txt", "BenchmarkG 1 3 ns/op " + strings.Repeat("y", 70000) + "\n"}}},
			{day: "20260101", files: []fileIn{{"c.txt", "k: " + strings.Repeat("v", 3000) + "\nBenchmarkF 1 4 ns/op\n"}, {"d.txt", "BenchmarkF 1 5 ns/op\nnote: " + long}}},
			{day: "20260101", files: []fileIn{{"e.txt", "k: a\nBenchmarkF 1 6 ns/op\n"}}},
		}
		c.qs = []string{"name:F", "k:a", "upload>2026"}
		c.ls = []listReq{{"", 0}, {"name:F", 0}}
		emit(c.encode(next()))
	}
	if shard == 0 && os.Getenv("VERIF_C19_BIG") != "0" {
		// label values around and beyond 8192 bytes and keys around 255 bytes (the declared column
		// widths, which SQLite does not enforce): indexed, compared and returned in full
		c := &histCase{tags: []string{"longvalue"}}
		base := strings.Repeat("c", 8186)
		v8190, v8192 := base+"AAAA", base+"AAAAAB"
		v8193a, v8193b := v8192+"Y", v8192+"Z" // equal up to byte 8192
		v8200 := base + "AAAAAC" + strings.Repeat("d", 8)
		v8300a := v8192 + strings.Repeat("t", 107) + "1"
		v8300b := v8192 + strings.Repeat("t", 107) + "2"
		kb := strings.Repeat("k", 253)
		k254, k255, k256a, k256b, k257 := kb+"a", kb+"ab", kb+"abc", kb+"abd", kb+"abcd"
		file := func(cmd, key, kv string) string {
			return "cmdline: " + cmd + "\n" + key + ": " + kv + "\nBenchmarkF 1 1 ns/op\nBenchmarkF 1 2 ns/op\n"
		}
		c.ups = []uploadIn{
			{day: "20260101", files: []fileIn{{"a.txt", file(v8190, k254, "1")}}},
			{day: "20260101", files: []fileIn{{"b.txt", file(v8192, k255, "1")}}},
			{day: "20260101", files: []fileIn{{"c.txt", file(v8193a, k256a, "1")}}},
			{day: "20260101", files: []fileIn{{"d.txt", file(v8193b, k256b, "1")}}},
			{day: "20260101", files: []fileIn{{"e.txt", file(v8200, k257, "1")}, {"f.txt", file(v8300a, k256a, "2") + k256b + ": 3\nBenchmarkG 1 3 ns/op\n"}}},
			{day: "20260101", files: []fileIn{{"g.txt", file(v8300b, "k", "a")}}},
		}
		c.qs = []string{"cmdline:" + v8193a, "cmdline:" + v8192, "cmdline>" + v8192 + " cmdline<" + v8193b,
			"cmdline:" + v8300b + " name:F", k256a + ":1", k256b + ">0 " + k256a + "<3", k257 + ":1 " + k254 + ">0",
			"cmdline>" + v8190 + " cmdline<" + v8200, "upload:20260101.3"}
		c.ls = []listReq{{"cmdline:" + v8193b, 0}, {"cmdline>" + v8192, 0}, {k256a + ">0", 0}, {k256b + ":1", 2}}
		emit(c.encode(next()))
	}
	if shard == 0 && os.Getenv("VERIF_C19_BIG") != "0" {
		// a run of consecutive identical-label results far longer than 64 KiB of content (as from
		// `go test -count=1500`) between ordinary records: still ONE stored record
		lens := []int{1500}
		if hx.Tier() == "thorough" {
			lens = []int{1000, 1500, 4000}
		}
		for _, n := range lens {
			c := &histCase{tags: []string{"longrun"}}
			var b strings.Builder
			b.WriteString("k: a\nBenchmarkBefore 1 1 ns/op\nk: b\n")
			for i := 0; i < n; i++ {
				fmt.Fprintf(&b, "BenchmarkLongRun/case-8 1 %d ns/op %d B/op 3 allocs/op\n", 100000+i, 4096+i%7)
			}
			b.WriteString("k: a\nBenchmarkAfter 1 2 ns/op\n")
			c.ups = []uploadIn{
				{day: "20260101", files: []fileIn{{"run.txt", b.String()}}},
				{day: "20260101", files: []fileIn{{"s.txt", "k: b\nBenchmarkLongRun/case-8 1 5 ns/op\nBenchmarkLongRun/case-8 1 6 ns/op\n"}}},
			}
			c.qs = []string{"upload:20260101.1", "k:b name:LongRun sub1:case", "k:a"}
			c.ls = []listReq{{"", 0}, {"k:b", 0}, {"name:LongRun", 0}, {"k:a", 0}, {"upload:20260101.1", 0}}
			emit(c.encode(next()))
		}
	}
	r := hx.NewRand(19 + uint64(shard)*1000003)
	g := &gen{r: r}
	// SplitWords / addToQuery: exhaustive over a small alphabet, then random
	if shard == 0 {
		alpha := []byte{'a', ' ', '"', '\\'}
		maxLen := 4
		if hx.Tier() == "thorough" {
			maxLen = 6
		}
		var rec func(cur []byte)
		rec = func(cur []byte) {
			s := string(cur)
			emit(swLine(next(), s, s))
			if len(cur) < maxLen {
				for _, a := range alpha {
					rec(append(cur[:len(cur):len(cur)], a))
				}
			}
		}
		rec(nil)
	}
	// the builder's word through the front end's own splitter: values with quotes, backslashes,
	// blanks, tabs, "|" and the word "vs", in front of queries with and without prefix and groups
	oldQs := []string{"", "x:y", "a:b vs c:d", "p:q | a:b vs c:d", `k:"d e" vs f:g`, `n:"a|b"`, "vs", "| x", "a:b vs", `q:"x vs y" | r:s`, "a:b  c:d\tvs e:f"}
	if shard == 0 {
		alpha := []byte{'a', ' ', '"', '\\', '|'}
		maxLen := 3
		if hx.Tier() == "thorough" {
			maxLen = 5
		}
		n := 0
		var rec func(cur []byte)
		rec = func(cur []byte) {
			n++
			emit(swLine(next(), oldQs[n%len(oldQs)], "k:"+string(cur)))
			if len(cur) < maxLen {
				for _, a := range alpha {
					rec(append(cur[:len(cur):len(cur)], a))
				}
			}
		}
		rec(nil)
	}
	valToks := []string{`19"`, "rack", "vs", "|", "the", `"big"`, "one", `\`, `a\"b`, `"`, "5'", `x"y`, "tower", `\\`}
	for n := hx.N(800, 30000) / nshards; n > 0; n-- {
		var b strings.Builder
		for k := 1 + r.Intn(5); k > 0; k-- {
			b.WriteString(hx.Pick(r, valToks))
			if k > 1 {
				b.WriteString(hx.Pick(r, []string{" ", " ", "\t", "", "  "}))
			}
		}
		emit(swLine(next(), hx.Pick(r, oldQs), hx.Pick(r, cfgKeys)+":"+b.String()))
	}
	alpha2 := []byte("ab:<>| \t\"\\")
	for n := hx.N(3000, 160000) / nshards; n > 0; n-- {
		mk := func(max int) string {
			b := make([]byte, r.Intn(max))
			for i := range b {
				b[i] = hx.Pick(r, alpha2)
			}
			return string(b)
		}
		add := mk(7)
		if r.Chance(1, 2) {
			add = hx.Pick(r, cfgKeys) + ":" + hx.Pick(r, vals)
		}
		q := mk(12)
		if r.Chance(1, 4) {
			// no quote or backslash anywhere: white space other than blank and tab stays inside words
			add = hx.Pick(r, cfgKeys) + ":" + hx.Pick(r, wsVals)
			q = strings.NewReplacer("\"", "", "\\", "").Replace(q)
			if r.Chance(1, 2) {
				q += " " + hx.Pick(r, cfgKeys) + ":" + hx.Pick(r, wsVals)
			}
		}
		emit(swLine(next(), q, add))
	}
	// histories
	nh := hx.N(800, 32000) / nshards
	for i := 0; i < nh; i++ {
		mode := 0
		switch {
		case i%20 == 7:
			mode = 1
		case i%40 == 23:
			mode = 2
		}
		g.findings = 0
		g.unicode = i%6 == 2
		if os.Getenv("VERIF_C19_FINDINGS") != "0" && i%8 == 5 {
			g.findings = 1 + (i/8)%2
		}
		if os.Getenv("VERIF_C19_FINDINGS") == "0" && mode == 2 {
			mode = 0
		}
		emit(g.hist(mode).encode(next()))
	}
}
