//go:build verif

// C06 harness: filters keep exactly the measurements their boolean meaning denotes.
//
// For every case the REAL code is run through the public API (benchproc.NewFilter,
// Filter.Match, Match.Test/All/Any/Apply, Filter.Apply, ProjectionParser.Parse with a filter,
// Projection.Project) and its observables are printed as `obs`/`sobs` lines. The case line
// carries the expression text, the tree parse.ParseFilter built from it (prefix notation), the
// answers of Go's regexp on the values each regexp leaf is applied to (oracle input for the
// model), the result, and the parsed projection fields.
package main

import (
	"fmt"
	"os"
	"path/filepath"
	"regexp"
	"sort"
	"strconv"
	"strings"
	"unicode"
	"unicode/utf8"

	"golang.org/x/perf/benchfmt"
	"golang.org/x/perf/benchproc"
	"golang.org/x/perf/benchproc/internal/parse"
	"golang.org/x/perf/internal/verifh/hx"
)

type valSpec struct{ unit, orig string }

type resSpec struct {
	name string
	cfg  []benchfmt.Config
	vals []valSpec
}

func (rs *resSpec) build() *benchfmt.Result {
	res := &benchfmt.Result{Name: benchfmt.Name(rs.name), Iters: 1}
	for _, c := range rs.cfg {
		res.Config = append(res.Config, benchfmt.Config{Key: c.Key, Value: append([]byte(nil), c.Value...), File: c.File})
	}
	for i, v := range rs.vals {
		res.Values = append(res.Values, benchfmt.Value{Value: float64(i), Unit: v.unit, OrigValue: float64(i) * 1000, OrigUnit: v.orig})
	}
	return res
}

func (rs *resSpec) fields() string {
	cfgS, cfgF := "-", "-"
	if len(rs.cfg) > 0 {
		var ps []string
		cfgF = ""
		for _, c := range rs.cfg {
			ps = append(ps, hx.HexS(c.Key)+":"+hx.Hex(c.Value))
			if c.File {
				cfgF += "1"
			} else {
				cfgF += "0"
			}
		}
		cfgS = strings.Join(ps, ",")
	}
	var units []string
	idx := map[string]int{}
	intern := func(s string) int {
		if i, ok := idx[s]; ok {
			return i
		}
		idx[s] = len(units)
		units = append(units, s)
		return len(units) - 1
	}
	vs := "-"
	if len(rs.vals) > 0 {
		ps := make([]string, len(rs.vals))
		for i, v := range rs.vals {
			ps[i] = strconv.Itoa(intern(v.unit))
			if v.orig != "" {
				ps[i] += "." + strconv.Itoa(intern(v.orig))
			}
		}
		vs = strings.Join(ps, ",")
	}
	return fmt.Sprintf("name=%s cfg=%s cfgf=%s units=%s vals=%s", hx.HexS(rs.name), cfgS, cfgF, hx.HexListS(units), vs)
}

type reLeaf struct {
	id  int
	key string
	re  *regexp.Regexp
}

type treeStats struct {
	unit, key, not, re, lit int
}

func serTree(q parse.Filter, out *[]string, leaves *[]reLeaf, st *treeStats) {
	switch q := q.(type) {
	case *parse.FilterOp:
		switch q.Op {
		case parse.OpAnd:
			*out = append(*out, "A"+strconv.Itoa(len(q.Exprs)))
		case parse.OpOr:
			*out = append(*out, "O"+strconv.Itoa(len(q.Exprs)))
		case parse.OpNot:
			st.not++
			if len(q.Exprs) != 1 {
				*out = append(*out, "X")
				return
			}
			*out = append(*out, "N")
		default:
			*out = append(*out, "X")
			return
		}
		for _, e := range q.Exprs {
			serTree(e, out, leaves, st)
		}
	case *parse.FilterMatch:
		if q.Key == ".unit" {
			st.unit++
		} else {
			st.key++
		}
		if q.Regexp != nil {
			st.re++
			id := len(*leaves)
			*leaves = append(*leaves, reLeaf{id, q.Key, q.Regexp})
			*out = append(*out, "R", hx.HexS(q.Key), strconv.Itoa(id), strconv.Itoa(q.Off))
		} else {
			st.lit++
			*out = append(*out, "L", hx.HexS(q.Key), hx.HexS(q.Lit), strconv.Itoa(q.Off))
		}
	default:
		*out = append(*out, "X")
	}
}

func oracleTable(leaves []reLeaf, res *benchfmt.Result) string {
	var ents []string
	seen := map[string]bool{}
	add := func(id int, v string, a bool) {
		k := strconv.Itoa(id) + ":" + hx.HexS(v)
		if seen[k] {
			return
		}
		seen[k] = true
		if a {
			ents = append(ents, k+":1")
		} else {
			ents = append(ents, k+":0")
		}
	}
	for _, l := range leaves {
		switch l.key {
		case ".unit":
			for _, v := range res.Values {
				add(l.id, v.Unit, l.re.MatchString(v.Unit))
				if v.OrigUnit != "" {
					add(l.id, v.OrigUnit, l.re.MatchString(v.OrigUnit))
				}
			}
		case ".config", "":
		default:
			v, err := benchproc.VerifC06Extract(l.key, res)
			if err == nil {
				add(l.id, string(v), l.re.Match(v))
			}
		}
	}
	if len(ents) == 0 {
		return "-"
	}
	return strings.Join(ents, ",")
}

func sameValues(a, b []benchfmt.Value) bool {
	if len(a) != len(b) {
		return false
	}
	for i := range a {
		if a[i] != b[i] {
			return false
		}
	}
	return true
}

func sameConfig(a, b []benchfmt.Config) bool {
	if len(a) != len(b) {
		return false
	}
	for i := range a {
		if a[i].Key != b[i].Key || string(a[i].Value) != string(b[i].Value) || a[i].File != b[i].File {
			return false
		}
	}
	return true
}

// textOracles lists what the parser MODEL (C07) may ask about the expression text: which
// substrings between two '/' compile as regular expressions, and which runes >= 0x80 are spaces.
func textOracles(text string) (reok string, sp string) {
	var slashes []int
	for i := 0; i < len(text); i++ {
		if text[i] == '/' {
			slashes = append(slashes, i)
		}
	}
	seen := map[string]bool{}
	var ok []string
	pairs := 0
	// nearest pairs first: a regexp rarely contains many slashes
	for gap := 1; gap < len(slashes) && pairs < 1500; gap++ {
		for a := 0; a+gap < len(slashes) && pairs < 1500; a++ {
			b := a + gap
			e := text[slashes[a]+1 : slashes[b]]
			pairs++
			if seen[e] {
				continue
			}
			seen[e] = true
			if _, err := regexp.Compile(e); err == nil {
				ok = append(ok, e)
			}
		}
	}
	spm := map[rune]bool{}
	for i := 0; i < len(text); i++ {
		if text[i] < 0x80 {
			continue
		}
		if r := rune(text[i]); unicode.IsSpace(r) {
			spm[r] = true
		}
		if r, _ := utf8.DecodeRuneInString(text[i:]); r >= 0x80 && unicode.IsSpace(r) {
			spm[r] = true
		}
	}
	sp = "-"
	if len(spm) > 0 {
		var rs []int
		for r := range spm {
			rs = append(rs, int(r))
		}
		sort.Ints(rs)
		ps := make([]string, len(rs))
		for i, r := range rs {
			ps[i] = strconv.FormatInt(int64(r), 16)
		}
		sp = strings.Join(ps, ",")
	}
	return hx.HexListS(ok), sp
}

func b01(b bool) string {
	if b {
		return "1"
	}
	return "0"
}

func idxList(vals []benchfmt.Value) string {
	if len(vals) == 0 {
		return "-"
	}
	ps := make([]string, len(vals))
	for i, v := range vals {
		ps[i] = strconv.Itoa(int(v.Value))
	}
	return strings.Join(ps, ",")
}

func testBits(m *benchproc.Match, n int) string {
	if n == 0 {
		return "-"
	}
	b := make([]byte, n)
	for i := range b {
		b[i] = '0'
		if m.Test(i) {
			b[i] = '1'
		}
	}
	return string(b)
}

func newErrTag(err error) string {
	se, ok := err.(*parse.SyntaxError)
	if !ok {
		return "!other"
	}
	switch {
	case strings.Contains(se.Msg, ".config is only allowed in projections"):
		return "!config@" + strconv.Itoa(se.Off)
	case strings.Contains(se.Msg, "key must not be empty"):
		return "!emptykey@" + strconv.Itoa(se.Off)
	}
	return "!syntax"
}

// newErrTagText is the text-path view of a NewFilter error: syntax errors carry their offset.
func newErrTagText(err error) string {
	se, ok := err.(*parse.SyntaxError)
	if !ok {
		return "!other"
	}
	t := newErrTag(err)
	if t == "!syntax" {
		return "!syntax@" + strconv.Itoa(se.Off)
	}
	return t
}

func projErrTag(err error) string {
	s := err.Error()
	switch {
	case strings.Contains(s, "unknown order"):
		return "unknownorder"
	case strings.Contains(s, "fixed order not allowed for .config"):
		return "fixedconfig"
	case strings.Contains(s, ".unit is only allowed in filters"):
		return "unit"
	case strings.Contains(s, "key must not be empty"):
		return "emptykey"
	}
	return "other:" + hx.HexS(s)
}

func serFields(fs []parse.Field) string {
	ps := make([]string, len(fs))
	for i, f := range fs {
		ps[i] = hx.HexS(f.Key)
		if f.Order != "fixed" && f.Order != "first" && f.Order != "alpha" && f.Order != "num" {
			ps[i] += "@!" // unknown order name
		} else if f.Order == "fixed" {
			if len(f.Fixed) == 0 {
				ps[i] += "@-"
			} else {
				hs := make([]string, len(f.Fixed))
				for j, v := range f.Fixed {
					hs[j] = hx.HexS(v)
				}
				ps[i] += "@" + strings.Join(hs, "/")
			}
		}
	}
	return strings.Join(ps, "+")
}

// runCase prints the case, obs and sobs lines of one case. It reports false if the case was
// not emitted (projection text outside the grammar: C07's business).
// sharedFilter, when non-nil, is used instead of a fresh NewFilter(expr): one Filter object
// evaluated on several results in a row (only for cases without projections, because Parse
// modifies the filter).
var sharedFilter *benchproc.Filter

// deferred, when non-nil, collects the second half of every case (everything that reads the Match
// value) to be run later: a stream of results through one Filter, all Match values kept by the
// caller and judged only at the end.
var deferred *[]func()

// expectKept, when non-nil, is what Filter.Apply left when the same result was filtered in place
// while streaming over the Reader's reused Result (no Clone).
var expectKept *string

func runCase(id int, kind, expr string, rs *resSpec, projTexts []string, extraTags []string) (emitted bool) {
	casePrinted := false
	defer func() {
		if r := recover(); r != nil {
			if !casePrinted {
				hx.Printf("case %d kind=%s expr=%s tree=! re=- %s tag=crash\n", id, kind, hx.HexS(expr), rs.fields())
			}
			hx.Printf("crash %d %s\n", id, strings.ReplaceAll(fmt.Sprint(r), "\n", " "))
			emitted = true
		}
	}()
	res := rs.build()
	pristine := res.Clone()

	// ---- the case line
	tree, terr := parse.ParseFilter(expr)
	treeS, reS, rsrcS := "!", "-", "-"
	var st treeStats
	if terr == nil {
		var toks []string
		var leaves []reLeaf
		serTree(tree, &toks, &leaves, &st)
		treeS = strings.Join(toks, ".")
		reS = oracleTable(leaves, res)
		if len(leaves) > 0 {
			srcs := make([]string, len(leaves))
			for i, l := range leaves {
				srcs[i] = l.re.String()
			}
			rsrcS = hx.HexListS(srcs)
		}
	}
	reokS, spS := textOracles(expr)
	projS := "-"
	var fixedN, fullFixed int
	if len(projTexts) > 0 {
		var ps []string
		for _, t := range projTexts {
			fs, err := parse.ParseProjection(t)
			if err != nil || len(fs) == 0 {
				return false
			}
			for _, f := range fs {
				if f.Order == "fixed" {
					fixedN++
					if f.Key == ".fullname" {
						fullFixed++
					}
				}
			}
			ps = append(ps, serFields(fs))
		}
		projS = strings.Join(ps, ";")
	}
	n := len(rs.vals)
	var tags []string
	if terr != nil {
		tags = append(tags, "trivial")
	} else {
		if st.unit > 0 {
			tags = append(tags, "mask")
		}
		if st.key > 0 {
			tags = append(tags, "bool")
		}
		if st.unit > 0 && st.key > 0 {
			tags = append(tags, "mixed")
		}
		if st.not > 0 {
			tags = append(tags, "not")
		}
		if st.re > 0 {
			tags = append(tags, "re")
		}
		if strings.Contains(expr, ":(") {
			tags = append(tags, "vlist")
		}
		if strings.Contains(expr, "*") {
			tags = append(tags, "star")
		}
		switch {
		case n == 0:
			tags = append(tags, "n0")
		case n > 64:
			tags = append(tags, "n65")
		case n > 32:
			tags = append(tags, "n33")
		}
		for _, v := range rs.vals {
			if v.orig != "" {
				tags = append(tags, "rescaled")
				break
			}
		}
		if fixedN > 0 {
			tags = append(tags, "fixed")
		}
		if fullFixed > 0 {
			tags = append(tags, "fullfixed")
		}
		if len(tags) == 0 {
			tags = append(tags, "plain")
		}
	}
	tags = append(tags, extraTags...)
	ptext := "-"
	if len(projTexts) > 0 {
		ptext = hx.HexListS(projTexts)
	}
	hx.Printf("case %d kind=%s expr=%s tree=%s re=%s rsrc=%s reok=%s sp=%s %s projs=%s ptext=%s tag=%s\n", id, kind, hx.HexS(expr), treeS, reS, rsrcS, reokS, spS, rs.fields(), projS, ptext, strings.Join(tags, "+"))
	casePrinted = true

	// ---- the real code, public API only
	var f *benchproc.Filter
	var err error
	if sharedFilter != nil && len(projTexts) == 0 {
		f = sharedFilter
	} else {
		f, err = benchproc.NewFilter(expr)
	}
	if err != nil {
		hx.Printf("obs %d new=%s tnew=%s\n", id, newErrTag(err), newErrTagText(err))
		return true
	}
	// a history of Parse calls on one parser and one Filter: a rejected expression is recorded
	// and the caller carries on with the same Filter (falls back / corrects the typo)
	var pp benchproc.ProjectionParser
	var projs []*benchproc.Projection
	perrS := "none"
	if len(projTexts) > 0 {
		tags := make([]string, len(projTexts))
		for i, t := range projTexts {
			p, err := pp.Parse(t, f)
			if err != nil {
				tags[i] = projErrTag(err)
				continue
			}
			tags[i] = "none"
			projs = append(projs, p)
		}
		perrS = strings.Join(tags, ",")
	}

	glue := "ok"
	bad := func(what string) {
		if glue == "ok" {
			glue = "DIFF:" + what
		}
	}
	m, merr := f.Match(res)
	if merr != nil {
		bad("matcherr")
	}
	expect := expectKept
	// everything below reads the Match value m; in a stream (deferred != nil) that happens only
	// after ALL results of the stream have been matched, so m is a Match "retained by the caller"
	finish := func() {
		defer func() {
			if r := recover(); r != nil {
				hx.Printf("crash %d %s\n", id, strings.ReplaceAll(fmt.Sprint(r), "\n", " "))
			}
		}()
		test := testBits(&m, n)
		all, any := m.All(), m.Any()
		if !sameValues(res.Values, pristine.Values) || string(res.Name) != string(pristine.Name) || !sameConfig(res.Config, pristine.Config) {
			bad("match-modified-result")
		}
		// projected values (after the filter ran, as benchstat does)
		var pv []string
		for _, p := range projs {
			key := p.Project(res)
			for _, fld := range p.Fields() {
				if fld.IsTuple {
					continue
				}
				pv = append(pv, key.Get(fld))
			}
		}
		// a second Match must not disturb the first and must agree with it
		m2, _ := f.Match(res)
		if testBits(&m2, n) != test || m2.All() != all || m2.Any() != any {
			bad("second-match-differs")
		}
		if testBits(&m, n) != test || m.All() != all || m.Any() != any {
			bad("first-match-changed-by-second")
		}
		// … also when the later call is about a DIFFERENT result of the same size (units rotated by
		// one position): the Match the caller holds must not share its mask with later calls
		other := res.Clone()
		for i := range other.Values {
			j := (i + 1) % n
			other.Values[i].Unit, other.Values[i].OrigUnit = res.Values[j].Unit, res.Values[j].OrigUnit
		}
		other.Name = append(other.Name[:0:0], "Other"...)
		f.Match(other)
		held := testBits(&m, n)
		if held != test || m.All() != all || m.Any() != any {
			bad("match-aliased-by-a-later-call")
		}
		// the same *Result object, changed in place between two calls (what streaming over the
		// Reader's reused Result does): the answer must be that of a fresh copy, not a remembered one
		if n >= 2 {
			for i := range other.Values {
				j := (i + 2) % n
				other.Values[i].Unit, other.Values[i].OrigUnit = res.Values[j].Unit, res.Values[j].OrigUnit
			}
			ma, _ := f.Match(other)
			mb, _ := f.Match(other.Clone())
			if testBits(&ma, n) != testBits(&mb, n) || ma.All() != mb.All() || ma.Any() != mb.Any() {
				bad("match-depends-on-result-identity")
			}
		}
		// name and config values rewritten IN PLACE (as the Reader and SetConfig do) with values of
		// the same length: this Filter must answer like a Filter that never saw the old values
		if kind == "f" {
			if fresh, err := benchproc.NewFilter(expr); err == nil {
				inplace := res.Clone()
				f.Match(inplace)
				for _, alt := range [][2]string{{"Foo", "Bar"}, {"Bar", "Baz"}, {"linux", "plan9"}, {"darwin", "netbsd"}, {"p/q", "p/r"}, {"n1", "n2"}} {
					if string(inplace.Name[:min(len(inplace.Name), len(alt[0]))]) == alt[0] {
						copy(inplace.Name, alt[1])
					}
					for ci := range inplace.Config {
						if string(inplace.Config[ci].Value) == alt[0] {
							copy(inplace.Config[ci].Value, alt[1])
						}
					}
				}
				mi, _ := f.Match(inplace)
				mf, _ := fresh.Match(inplace.Clone())
				if testBits(&mi, n) != testBits(&mf, n) || mi.All() != mf.All() || mi.Any() != mf.Any() {
					bad("match-remembers-a-value-rewritten-in-place")
				}
			}
		}
		oob := ""
		for _, i := range []int{-1, n, n + 1, n + 31, n + 32} {
			oob += b01(m.Test(i))
		}
		// Match.Apply on a copy
		r1 := res.Clone()
		flag1 := m.Apply(r1)
		// Filter.Apply on another copy
		r2 := res.Clone()
		flag2, aerr := f.Apply(r2)
		if aerr != nil {
			bad("applyerr")
		}
		// Apply rewrites res.Values IN PLACE: a second slice header on the same backing array sees
		// the compaction (back= is the whole backing array afterwards; the model's applyInPlace)
		r3 := res.Clone()
		view := r3.Values
		m.Apply(r3)
		back := idxList(view)
		// Filter.Apply twice is idempotent (the Match is recomputed from the filtered result)
		r4 := res.Clone()
		f.Apply(r4)
		once := idxList(r4.Values)
		again, _ := f.Apply(r4)
		if idxList(r4.Values) != once || (len(r4.Values) > 0 && !again) {
			bad("filter-apply-not-idempotent")
		}
		// all of that happened on clones: the result handed to Match is still what it was
		if !sameValues(res.Values, pristine.Values) || string(res.Name) != string(pristine.Name) || !sameConfig(res.Config, pristine.Config) {
			bad("apply-on-a-clone-changed-the-original")
		}
		// streaming over the Reader's reused Result without Clone gave the same kept measurements
		if expect != nil && *expect != idxList(r2.Values) {
			bad("reader-stream-apply:" + *expect)
		}
		// kept measurements are unchanged copies of the originals
		for _, v := range r2.Values {
			i := int(v.Value)
			if i < 0 || i >= n || v != pristine.Values[i] {
				bad("apply-altered-a-measurement")
			}
		}
		if string(r2.Name) != string(pristine.Name) || !sameConfig(r2.Config, pristine.Config) {
			bad("apply-modified-name-or-config")
		}
		pvS := hx.HexListS(pv)
		// htest: the first Match read after the second call / the second Match (the driver computes
		// both in its heap model, where masks are cells updated in place)
		htest := "na"
		if kind != "p" {
			htest = testBits(&m, n) + "/" + testBits(&m2, n)
		}
		// the t* fields are the same real observations once more: the driver computes them a second
		// time from the expression TEXT (parser model of C07 composed with the evaluator model)
		hx.Printf("obs %d new=ok tnew=ok perr=%s pv=%s n=%d test=%s oob=%s all=%s any=%s apply=%s flag=%s fapply=%s fflag=%s back=%s omiss=0 lmiss=0 glue=%s ttest=%s tall=%s tany=%s tapply=%s tflag=%s htest=%s\n",
			id, perrS, pvS, n, test, oob, b01(all), b01(any), idxList(r1.Values), b01(flag1), idxList(r2.Values), b01(flag2), back, glue,
			test, b01(all), b01(any), idxList(r2.Values), b01(flag2), htest)
		// what the property speaks about; for n = 0 All/Any/flag are a boundary (see notes/C06.md)
		allS, anyS, flagS := "n0", "n0", "n0"
		if n > 0 {
			allS, anyS, flagS = b01(all), b01(any), b01(flag2)
		}
		// test= is what the caller's Match says at the end, after the later calls above
		// in a reader stream the kept measurements are those of the in-place Apply on the Reader's
		// reused Result
		applyS := idxList(r2.Values)
		if expect != nil {
			applyS = *expect
		}
		hx.Printf("sobs %d pv=%s test=%s oob=%s all=%s any=%s apply=%s flag=%s\n", id, pvS, held, oob, allS, anyS, applyS, flagS)
	}
	if deferred != nil {
		*deferred = append(*deferred, finish)
	} else {
		finish()
	}
	return true
}

// ------------------------------------------------------------------ generators

var unitPool = []valSpec{
	{"sec/op", "ns/op"}, {"B/op", ""}, {"allocs/op", ""}, {"B/s", "MB/s"}, {"ns/op", ""},
	{"x", "x"}, {"op", ""}, {"sec/op", ""}, {"", ""}, {"B/op", "KB/op"},
	{"MB/op", ""}, {"B/op-max", ""}, {"KiB/op", ""}, {"ns/op2", ""}, {"sec/op", "Mns/op"}, {"xx", "x"},
}

var dashNames = []string{"aes-128gcm", "Read-64k", "x86-64v3", "Read-4k", "aes-256gcm", "a-1b", "sha-3x-2y"}

var sizes = []int{0, 1, 2, 3, 5, 8, 31, 32, 33, 40, 63, 64, 65, 96, 97, 100}

func genRes(r *hx.Rand) *resSpec {
	rs := &resSpec{}
	name := hx.Pick(r, []string{"Foo", "Bar", "Foo-bar", "Baz", "Foo", "", "XFoo", "FooX", "XFooX", "Fo", "Barn"})
	// slash-less names whose last dash is followed by digits and then letters: no -N suffix there
	if r.Chance(1, 6) {
		name = hx.Pick(r, dashNames)
	}
	if r.Chance(1, 2) {
		name += hx.Pick(r, []string{"/size=1", "/size=2", "/size=1k", "/size="})
	}
	if r.Chance(1, 3) {
		name += hx.Pick(r, []string{"/k=v", "/k=w", "/plain", "/k=v/k=w"})
	}
	if r.Chance(1, 8) {
		name += "/gomaxprocs=4"
	}
	if r.Chance(2, 5) {
		name += hx.Pick(r, []string{"-8", "-16", "-8", "-x"})
	}
	rs.name = name
	if r.Chance(4, 5) {
		rs.cfg = append(rs.cfg, benchfmt.Config{Key: "goos", Value: []byte(hx.Pick(r, []string{"linux", "darwin", "linux", "linux2", "alinux"})), File: true})
	}
	if r.Chance(1, 2) {
		rs.cfg = append(rs.cfg, benchfmt.Config{Key: "pkg", Value: []byte(hx.Pick(r, []string{"p/q", "p"})), File: true})
	}
	if r.Chance(2, 5) {
		rs.cfg = append(rs.cfg, benchfmt.Config{Key: "note", Value: []byte("n1"), File: false})
	}
	if len(rs.cfg) > 1 && r.Bool() {
		rs.cfg[0], rs.cfg[len(rs.cfg)-1] = rs.cfg[len(rs.cfg)-1], rs.cfg[0]
	}
	n := hx.Pick(r, sizes)
	if r.Chance(1, 10) {
		n = r.Intn(130)
	}
	k := 2 + r.Intn(4)
	pool := make([]valSpec, k)
	for i := range pool {
		pool[i] = hx.Pick(r, unitPool)
	}
	rs.vals = make([]valSpec, n)
	switch r.Intn(10) {
	case 0: // all the same
		for i := range rs.vals {
			rs.vals[i] = pool[0]
		}
	case 1, 2: // all the same but one or two at interesting positions
		for i := range rs.vals {
			rs.vals[i] = pool[0]
		}
		if n > 0 {
			for j := 1 + r.Intn(2); j > 0; j-- {
				pos := hx.Pick(r, []int{0, 30, 31, 32, 33, 62, 63, 64, 65, 95, 96, n - 1, n - 2, r.Intn(n)})
				if pos >= 0 && pos < n {
					rs.vals[pos] = pool[1]
				}
			}
		}
	default:
		for i := range rs.vals {
			rs.vals[i] = hx.Pick(r, pool)
		}
	}
	return rs
}

func needsQuote(s string, value bool) bool {
	if s == "" || s == "AND" || s == "OR" {
		return true
	}
	if s[0] == '-' || s[0] == '*' || s[0] == '"' || (value && s[0] == '/') {
		return true
	}
	return strings.ContainsAny(s, " \t():@,\"\\")
}

func word(r *hx.Rand, s string, value bool) string {
	if needsQuote(s, value) || r.Chance(1, 6) {
		return strconv.Quote(s)
	}
	return s
}

var keyPool = []string{".unit", ".unit", ".unit", ".unit", ".name", ".fullname", "/size", "/k", "/gomaxprocs", "goos", "pkg", "note", "missing", "/plain"}

func valuesFor(r *hx.Rand, key string, rs *resSpec) []string {
	switch key {
	case ".unit":
		var vs []string
		for _, v := range rs.vals {
			vs = append(vs, v.unit)
			if v.orig != "" {
				vs = append(vs, v.orig)
			}
			if len(vs) > 6 {
				break
			}
		}
		return append(vs, "ns/op", "sec/op", "B/op", "x", "")
	case ".name":
		vs := []string{"Foo", "Bar", "Foo-bar", "Baz", "", "Foo-8"}
		for _, d := range dashNames {
			if strings.HasPrefix(rs.name, d) || strings.HasPrefix(d, strings.SplitN(rs.name, "-", 2)[0]+"-") {
				// the whole slash-less name (its base), neighbours, and what a wrong cut at the last dash leaves
				vs = append(vs, d, d, d+"-8", d[:strings.LastIndexByte(d, '-')], "Read-4k", "Read-64k")
			}
		}
		return vs
	case ".fullname":
		return []string{rs.name, rs.name, "Foo", "Foo/size=1", "Bar-8"}
	case "/size":
		return []string{"1", "2", "1k", ""}
	case "/k":
		return []string{"v", "w", ""}
	case "/gomaxprocs":
		return []string{"8", "16", "4", "", "x"}
	case "goos":
		return []string{"linux", "darwin", ""}
	case "pkg":
		return []string{"p/q", "p", ""}
	case "note":
		return []string{"n1", ""}
	}
	return []string{"", "x"}
}

// fully / half anchored literals, \A…\z, (?:…) groups, escaped slashes: the literal sub-language
// (Spec.LitRegexp); the values below contain / extend these literals (prefix, suffix, infix, exact)
var litRePool = []string{"^Foo$", "^Fo$", "^oo$", `\AFoo\z`, "^(?:Foo)$", "(?:Foo)", "^Foo", "Foo$", "Foo", "oo", `\AFo`, `ar\z`,
	"gcm$", "^aes$", "^aes-128gcm$", "^Read-64k$", "^Read$", "64k$", "v3$", "^x86", "-128",
	"^Bar$", "^Ba$", "^Foo-bar$", "^bar$", "-bar$", "^linux$", "^linu$", "^inux$", "linux", "^p$", `^p\/q$`, `^p\/`,
	`^B\/op$`, `^ns\/op$`, `^s\/op$`, `^op$`, "^ns$", "^sec$", `^sec\/op$`, `B\/op`, `\AB\/op\z`, `^(?:B\/op)$`, "^x$", "^1$", "^1k$", "^k$", "^v$", "^8$", "^16$", "^6$", "^n1$", "^n$"}

var rePool = []string{"ns|sec", "^B", "op$", "^x?$", ".", "^$", "^Foo", "o+$", "[0-9]", "(a|o)r", "=1", "^(linux|p)$", "", "^.?$", "[/-]8?"}

func genValue(r *hx.Rand, key string, rs *resSpec) string {
	if r.Chance(1, 4) {
		if r.Bool() {
			return "/" + hx.Pick(r, litRePool) + "/"
		}
		return "/" + hx.Pick(r, rePool) + "/"
	}
	return word(r, hx.Pick(r, valuesFor(r, key, rs)), true)
}

func genKey(r *hx.Rand) string {
	if r.Chance(1, 60) {
		return hx.Pick(r, []string{".config", `""`, `".config"`})
	}
	return word(r, hx.Pick(r, keyPool), false)
}

// Unicode white space (unicode.IsSpace) other than ASCII: it separates tokens and ends a bare word
// exactly like a blank
var uniSpaces = []string{"\u0085", "\u00a0", "\u1680", "\u2000", "\u2001", "\u2002", "\u2003", "\u2004", "\u2005", "\u2006",
	"\u2007", "\u2008", "\u2009", "\u200a", "\u2028", "\u2029", "\u202f", "\u205f", "\u3000"}

// usp is a separator: mostly a blank, sometimes a Unicode space (or one on either side of a blank)
func usp(r *hx.Rand) string {
	switch r.Intn(12) {
	case 0:
		return hx.Pick(r, uniSpaces)
	case 1:
		return hx.Pick(r, uniSpaces) + " "
	case 2:
		return " " + hx.Pick(r, uniSpaces)
	}
	return " "
}

// longList: 8-12 literal values for one key — the key's real value(s) among fillers; for .unit
// both the base unit and the unit as written occur
func longList(r *hx.Rand, key string, rs *resSpec) []string {
	k := 8 + r.Intn(5)
	cands := valuesFor(r, key, rs)
	vs := make([]string, 0, k)
	for i := 0; len(vs) < k; i++ {
		if i < len(cands) && r.Chance(2, 3) {
			vs = append(vs, cands[i])
		} else {
			vs = append(vs, "z"+strconv.Itoa(i))
		}
	}
	for i := len(vs) - 1; i > 0; i-- {
		j := r.Intn(i + 1)
		vs[i], vs[j] = vs[j], vs[i]
	}
	return vs
}

func genTerm(r *hx.Rand, rs *resSpec) string {
	key := genKey(r)
	bare := key
	if uq, err := strconv.Unquote(key); err == nil {
		bare = uq
	}
	if r.Chance(1, 10) {
		// a long list of literals, as a value list or spelled out as an OR chain
		vs := longList(r, bare, rs)
		ws := make([]string, len(vs))
		if r.Bool() {
			for i, v := range vs {
				ws[i] = word(r, v, true)
			}
			return key + ":(" + strings.Join(ws, " OR ") + ")"
		}
		for i, v := range vs {
			ws[i] = key + ":" + word(r, v, true)
		}
		return "(" + strings.Join(ws, " OR ") + ")"
	}
	if r.Chance(1, 5) {
		k := 1 + r.Intn(3)
		vs := make([]string, k)
		for i := range vs {
			vs[i] = genValue(r, bare, rs)
		}
		sp := hx.Pick(r, []string{"", "", " "})
		j := vs[0]
		for _, v := range vs[1:] {
			j += usp(r) + "OR" + usp(r) + v
		}
		return key + ":(" + sp + j + sp + ")"
	}
	return key + ":" + genValue(r, bare, rs)
}

func genMatch(r *hx.Rand, rs *resSpec, d int) string {
	x := r.Intn(100)
	switch {
	case d > 0 && x < 18:
		return "(" + genExpr(r, rs, d-1) + ")"
	case d > 0 && x < 34:
		return "-" + genMatch(r, rs, d-1)
	case x < 40:
		return "*"
	}
	return genTerm(r, rs)
}

func count3(r *hx.Rand, a, b int) int {
	x := r.Intn(100)
	switch {
	case x < a:
		return 1
	case x < a+b:
		return 2
	}
	return 3
}

func genAnd(r *hx.Rand, rs *resSpec, d int) string {
	k := count3(r, 50, 35)
	s := genMatch(r, rs, d)
	for i := 1; i < k; i++ {
		if r.Chance(1, 4) {
			s += usp(r) + "AND" + usp(r) + genMatch(r, rs, d)
		} else {
			s += hx.Pick(r, []string{" ", "  ", usp(r), usp(r)}) + genMatch(r, rs, d)
		}
	}
	return s
}

func genExpr(r *hx.Rand, rs *resSpec, d int) string {
	k := count3(r, 60, 30)
	s := genAnd(r, rs, d)
	for i := 1; i < k; i++ {
		s += usp(r) + "OR" + usp(r) + genAnd(r, rs, d)
	}
	return s
}

// name variants: base or "*" followed by any sub-sequence of the parts
func nameVariants(r *hx.Rand, name string) []string {
	base, parts := benchfmt.Name(name).Parts()
	var out []string
	for i := 0; i < 4; i++ {
		s := string(base)
		if r.Chance(1, 4) {
			s = "*"
		}
		for _, p := range parts {
			if r.Bool() {
				s += string(p)
			}
		}
		out = append(out, s)
	}
	return append(out, name, string(base))
}

var projKeys = []string{".fullname", ".fullname", ".fullname", ".name", "/size", "/size", "/k", "/gomaxprocs", "goos", "pkg", ".config", "note", "/plain"}

func genProj(r *hx.Rand, rs *resSpec) string {
	nf := count3(r, 45, 35)
	var fs []string
	for i := 0; i < nf; i++ {
		key := hx.Pick(r, projKeys)
		if r.Chance(1, 50) {
			key = ".unit"
		}
		if i > 0 && r.Chance(1, 8) {
			// a field the projection compiler rejects, AFTER other fields of the expression
			fs = append(fs, hx.Pick(r, []string{".unit", "goos@bogus", ".config@(a b)", "/size@fixed", `""`, "/k@zz"}))
			continue
		}
		f := word(r, key, false)
		switch {
		case key == ".config":
			if r.Chance(1, 12) {
				f += "@(a b)"
			}
		case r.Chance(1, 2):
			var cands []string
			if key == ".fullname" {
				cands = nameVariants(r, rs.name)
			} else {
				cands = valuesFor(r, key, rs)
			}
			k := 1 + r.Intn(3)
			vs := make([]string, k)
			for j := range vs {
				vs[j] = word(r, hx.Pick(r, cands), false)
			}
			f += "@(" + strings.Join(vs, " ") + ")"
		case r.Chance(1, 4):
			f += hx.Pick(r, []string{"@alpha", "@num", "@alpha", "@num", "@fixed"})
		}
		fs = append(fs, f)
	}
	return strings.Join(fs, hx.Pick(r, []string{",", " ", ", "}))
}

type corpusCase struct {
	expr  string
	name  string
	n     int
	projs []string
}

// fixed cases run first on every seed: the F12 witness and the shapes of TestFilter
var corpus = []corpusCase{
	{"*", "Foo/size=1", 2, []string{".fullname@(Foo Bar)", "/size"}},
	{"*", "Foo/size=1", 2, []string{".fullname@(Foo Bar),/size"}},
	{"*", "Foo/size=1-8", 1, []string{"/size@(1 2)", ".fullname@(Foo-8)"}},
	{"*", "Foo/size=1-8", 1, []string{".fullname@(Foo) /gomaxprocs /size"}},
	{".unit:ns/op", "Foo", 33, []string{".name@(Bar)"}},
	{"*", "Foo", 3, nil},
	{"-*", "Foo", 3, nil},
	{".unit:ns/op", "Foo", 65, nil},
	{"-.unit:ns/op", "Foo", 65, nil},
	{".unit:ns/op OR .unit:B/op", "Foo", 64, nil},
	{".unit:ns/op .unit:B/op", "Foo", 33, nil},
	{"-(.unit:ns/op OR -.name:Foo)", "Foo", 100, nil},
	{".name:Foo .unit:ns/op", "Foo", 32, nil},
	{".unit:ns/op .name:Foo", "Foo", 32, nil},
	{".name:Bar OR .unit:ns/op", "Foo", 31, nil},
	{".unit:(ns/op OR B/op) -.name:Bar", "Foo", 97, nil},
	{".unit:/./", "Foo", 0, nil},
	{".name:Foo", "Foo", 0, nil},
	{".name:Bar", "Foo", 0, nil},
	{".config:x", "Foo", 1, nil},
	{`"":x`, "Foo", 1, nil},
	{".name:(", "Foo", 1, nil},
}

func corpusRes(c corpusCase) *resSpec {
	rs := &resSpec{name: c.name, cfg: []benchfmt.Config{{Key: "goos", Value: []byte("linux"), File: true}}}
	us := []valSpec{{"sec/op", "ns/op"}, {"B/op", ""}, {"allocs/op", ""}}
	for i := 0; i < c.n; i++ {
		rs.vals = append(rs.vals, us[(i*i+i/32)%3])
	}
	return rs
}

// results as the real Reader delivers them (units rescaled to base units, OrigUnit set)
const readerText = `goos: linux
pkg: p/q
BenchmarkFoo/size=1-8 10 5 ns/op 3 MB/s 7 B/op 1 allocs/op
note: n1
BenchmarkBar/size=2/k=v-16 10 2.5 ns/op 9 widgets 1 KB/op
BenchmarkBaz 1 1 sec/op 1 ns/op 1 us/op 1 ms/op
`

var readerExprs = []string{".unit:ns/op", ".unit:sec/op", "-.unit:B/s", ".unit:/^MB/", ".unit:(ns/op OR MB/s) goos:linux",
	"-.unit:sec/op OR .name:Baz", ".unit:widgets /size:2", "pkg:p/q -(.unit:B/op OR .unit:/s$/)"}

func readerResults() []*resSpec {
	var out []*resSpec
	rd := benchfmt.NewReader(strings.NewReader(readerText), "c06")
	for rd.Scan() {
		res, ok := rd.Result().(*benchfmt.Result)
		if !ok {
			continue
		}
		rs := &resSpec{name: string(res.Name)}
		for _, c := range res.Config {
			rs.cfg = append(rs.cfg, benchfmt.Config{Key: c.Key, Value: append([]byte(nil), c.Value...), File: c.File})
		}
		for _, v := range res.Values {
			rs.vals = append(rs.vals, valSpec{v.Unit, v.OrigUnit})
		}
		out = append(out, rs)
	}
	return out
}

// ---- corpus/C06/*.txt (format described at the top of corpus/C06/cases.txt)

type fileCase struct {
	group string
	expr  string
	rs    *resSpec
	projs []string
}

func parseValues(spec string) []valSpec {
	var out []valSpec
	if spec == "" {
		return out
	}
	for _, it := range strings.Split(spec, ",") {
		count := 1
		if i := strings.LastIndexByte(it, '*'); i >= 0 {
			if c, err := strconv.Atoi(it[i+1:]); err == nil {
				count = c
				it = it[:i]
			}
		}
		v := valSpec{unit: it}
		if i := strings.IndexByte(it, '<'); i >= 0 {
			v = valSpec{unit: it[:i], orig: it[i+1:]}
		}
		for ; count > 0; count-- {
			out = append(out, v)
		}
	}
	return out
}

func readCorpusFiles() []fileCase {
	root := os.Getenv("VERIF_ROOT")
	if root == "" {
		return nil
	}
	files, _ := filepath.Glob(filepath.Join(root, "corpus", "C06", "*.txt"))
	sort.Strings(files)
	var out []fileCase
	for _, fn := range files {
		data, err := os.ReadFile(fn)
		if err != nil {
			continue
		}
		for _, line := range strings.Split(string(data), "\n") {
			line = strings.TrimRight(line, "\r")
			if line == "" || strings.HasPrefix(line, "#") {
				continue
			}
			fs := strings.Split(line, "|")
			if len(fs) < 5 {
				fmt.Fprintf(os.Stderr, "corpus: bad line %q\n", line)
				os.Exit(3)
			}
			rs := &resSpec{name: fs[2]}
			if fs[3] != "" {
				for _, kv := range strings.Split(fs[3], ",") {
					file := true
					if strings.HasPrefix(kv, "!") {
						file, kv = false, kv[1:]
					}
					i := strings.IndexByte(kv, '=')
					rs.cfg = append(rs.cfg, benchfmt.Config{Key: kv[:i], Value: []byte(kv[i+1:]), File: file})
				}
			}
			rs.vals = parseValues(fs[4])
			fc := fileCase{group: fs[0], expr: fs[1], rs: rs}
			if len(fs) > 5 && fs[5] != "" {
				fc.projs = strings.Split(fs[5], ";")
			}
			out = append(out, fc)
		}
	}
	return out
}

// variant returns rs with other written units (same base units) and possibly another count:
// results that share base units but differ in the unit as written.
func variant(r *hx.Rand, rs *resSpec) *resSpec {
	out := &resSpec{name: rs.name, cfg: rs.cfg}
	written := map[string][]string{
		"sec/op": {"ns/op", "us/op", "ms/op", ""}, "B/s": {"MB/s", "KB/s", ""}, "B/op": {"KB/op", ""},
	}
	for _, v := range rs.vals {
		if alts, ok := written[v.unit]; ok && r.Chance(2, 3) {
			v.orig = hx.Pick(r, alts)
		}
		out.vals = append(out.vals, v)
	}
	switch r.Intn(4) {
	case 0:
		if len(out.vals) > 0 {
			out.vals = out.vals[:r.Intn(len(out.vals)+1)]
		}
	case 1:
		for k := r.Intn(40); k > 0 && len(rs.vals) > 0; k-- {
			out.vals = append(out.vals, hx.Pick(r, rs.vals))
		}
	}
	if r.Chance(1, 4) {
		out.name = hx.Pick(r, []string{"Foo", "Bar", rs.name + "/k=v"})
	}
	return out
}

func resize(rs *resSpec, n int) *resSpec {
	out := &resSpec{name: rs.name, cfg: rs.cfg}
	for i := 0; i < n; i++ {
		if len(rs.vals) > 0 {
			out.vals = append(out.vals, rs.vals[i%len(rs.vals)])
		} else {
			out.vals = append(out.vals, valSpec{"ns/op", ""})
		}
	}
	return out
}

// runStream: two Filters built from the SAME text are used alternately over a stream of DIFFERENT
// results; every Match value is kept and read only after the last result went through.
func runStream(id *int, expr string, stream []*resSpec, tags []string) {
	fa, err := benchproc.NewFilter(expr)
	if err != nil {
		return
	}
	fb, _ := benchproc.NewFilter(expr)
	var later []func()
	deferred = &later
	for k, rs := range stream {
		sharedFilter = fa
		if k%3 == 1 {
			sharedFilter = fb
		}
		if runCase(*id, "f", expr, rs, nil, tags) {
			*id++
		}
	}
	deferred, sharedFilter = nil, nil
	for _, fn := range later {
		fn()
	}
}

var streamSizes = []int{1, 33, 65, 70, 2, 0, 32, 64, 96, 100, 5, 31, 97, 3}

// readerStream: the expression is applied IN PLACE to the Reader's reused Result, line after line,
// without Clone; the kept measurements must equal what a fresh copy of each line gives.
// unitStreamText: consecutive lines of equal length whose units differ
func unitStreamText() string {
	var text strings.Builder
	text.WriteString("goos: linux\n")
	shapes := [][]string{{"ns/op", "B/op", "MB/s"}, {"ns/op"}, {"widgets", "ns/op", "us/op", "B/op", "allocs/op"}, {"MB/s", "KB/s"}, {"ns/op", "ns/op2", "B/op"}}
	for li := 0; li < 12; li++ {
		fmt.Fprintf(&text, "BenchmarkS%d/size=%d-8 1", li%3, li%4)
		sh := shapes[(li*2+li/2)%len(shapes)]
		cnt := []int{3, 3, 33, 33, 65, 65, 2, 2, 70, 70, 1, 1}[li%12]
		for k := 0; k < cnt; k++ {
			fmt.Fprintf(&text, " %d %s", k, sh[k%len(sh)])
		}
		text.WriteString("\n")
	}
	return text.String()
}

// keyStreamText: the Reader rewrites config values and the name IN PLACE; here a value changes to
// another value of the SAME LENGTH with the opposite verdict for the expressions of keyStreamExprs
// (goarch amd64/arm64, goos linux/plan9, names Copy/Move, /size=4k/8k, -8/-4), and back.
const keyStreamText = `goos: linux
goarch: amd64
BenchmarkCopy/size=4k-8 1 0 ns/op 1 B/op
BenchmarkCopy/size=4k-8 1 0 ns/op 1 B/op
goarch: arm64
BenchmarkCopy/size=4k-8 1 0 ns/op 1 B/op
BenchmarkMove/size=4k-8 1 0 ns/op 1 B/op
BenchmarkMove/size=8k-8 1 0 ns/op 1 B/op
goos: plan9
BenchmarkCopy/size=8k-4 1 0 ns/op 1 B/op
goarch: amd64
BenchmarkCopy/size=4k-4 1 0 ns/op 1 B/op
goos: linux
BenchmarkMove/size=4k-8 1 0 ns/op 1 B/op
BenchmarkCopy/size=4k-8 1 0 ns/op 1 B/op
goarch: arm64
goos: plan9
BenchmarkCopy/size=4k-8 1 0 ns/op 1 B/op
`

var keyStreamExprs = []string{"goarch:/^amd/", "-goarch:/^amd/", "goarch:(/^amd/ OR x)", "goarch:(x OR /^arm64$/)", "goos:/^lin/", "-goos:/ux$/",
	"goos:/^lin/ -goarch:/^arm/", ".name:/^Copy$/", "-.name:/^Co/", ".name:(/^Move$/ OR Copy)", ".fullname:/size=4k/", "-.fullname:/^Copy/",
	`.fullname:/^Copy\/size=4k-8$/`, "/size:/^4/", "-/size:/^4k$/", "/size:(/^8/ OR x)", "/gomaxprocs:/^8$/", "-/gomaxprocs:/8/",
	"goarch:/^amd/ OR .name:/^Move$/", "-(goarch:/64$/ .name:/^Copy$/ /size:/4/)", ".unit:ns/op goarch:/^amd/", "goarch:amd64", "-.name:Copy"}

func readerStream(id *int, expr string, text string, tag string) {
	f, err := benchproc.NewFilter(expr)
	if err != nil {
		return
	}
	idx := func(v benchfmt.Value) int {
		if v.OrigUnit != "" {
			return int(v.OrigValue)
		}
		return int(v.Value)
	}
	// pass 1: independent copies of every line
	var specs []*resSpec
	rd := benchfmt.NewReader(strings.NewReader(text), "c06stream")
	for rd.Scan() {
		res, ok := rd.Result().(*benchfmt.Result)
		if !ok {
			continue
		}
		rs := &resSpec{name: string(res.Name)}
		for _, c := range res.Config {
			rs.cfg = append(rs.cfg, benchfmt.Config{Key: c.Key, Value: append([]byte(nil), c.Value...), File: c.File})
		}
		for _, v := range res.Values {
			rs.vals = append(rs.vals, valSpec{v.Unit, v.OrigUnit})
		}
		specs = append(specs, rs)
	}
	// pass 2: streaming, filtering the Reader's own Result in place
	var kept []string
	rd = benchfmt.NewReader(strings.NewReader(text), "c06stream")
	for rd.Scan() {
		res, ok := rd.Result().(*benchfmt.Result)
		if !ok {
			continue
		}
		f.Apply(res)
		ps := make([]string, len(res.Values))
		for i, v := range res.Values {
			ps[i] = strconv.Itoa(idx(v))
		}
		k := "-"
		if len(ps) > 0 {
			k = strings.Join(ps, ",")
		}
		kept = append(kept, k)
	}
	for j, rs := range specs {
		if j < len(kept) {
			expectKept = &kept[j]
		}
		if runCase(*id, "f", expr, rs, nil, []string{"corpus", "readerstream", tag}) {
			*id++
		}
		expectKept = nil
	}
}

// manyValues: ONE long-lived Filter with a regexp term is asked about `count` results with
// DISTINCT values of the key; the expected verdict of each is computed from the value with Go's
// regexp directly (the denotation of the expression for that result), so nothing large goes
// through the driver: the sobs clause is the number of misjudged results and the first few.
func manyValues(id int, shape int, count int) {
	type exp struct{ t0, t1 bool }
	var expr string
	var mk func(i int, res *benchfmt.Result) exp
	mix := func(i int) uint32 { return uint32(i)*2654435761 + 12345 }
	switch shape {
	case 0:
		expr = ".name:/^Copy/"
		re := regexp.MustCompile("^Copy")
		mk = func(i int, res *benchfmt.Result) exp {
			var name string
			if mix(i)&1 == 0 {
				name = "Copy" + strconv.Itoa(i)
			} else {
				name = "MoveN" + strconv.FormatUint(uint64(mix(i)), 16)
			}
			res.Name = append(res.Name[:0], name...)
			v := re.Match(res.Name.Base())
			return exp{v, v}
		}
	case 1:
		expr = "-/size:/k$/ .unit:ns/op"
		re := regexp.MustCompile("k$")
		mk = func(i int, res *benchfmt.Result) exp {
			size := strconv.Itoa(i) + []string{"k", "M"}[mix(i)>>7&1]
			res.Name = append(res.Name[:0], ("Copy/size=" + size + "-8")...)
			return exp{!re.MatchString(size), false}
		}
	default:
		expr = "commit:(deadbeef OR /^0/ OR /^f/)"
		re0, ref := regexp.MustCompile("^0"), regexp.MustCompile("^f")
		mk = func(i int, res *benchfmt.Result) exp {
			c := fmt.Sprintf("%08x", mix(i))
			res.Config[0].Value = append(res.Config[0].Value[:0], c...)
			v := c == "deadbeef" || re0.MatchString(c) || ref.MatchString(c)
			return exp{v, v}
		}
	}
	hx.Printf("case %d kind=m expr=%s shape=%d count=%d tag=manyvalues\n", id, hx.HexS(expr), shape, count)
	f, err := benchproc.NewFilter(expr)
	if err != nil {
		hx.Printf("crash %d NewFilter: %v\n", id, err)
		return
	}
	res := &benchfmt.Result{Name: benchfmt.Name("Copy"), Iters: 1,
		Config: []benchfmt.Config{{Key: "commit", Value: []byte("00000000"), File: true}},
		Values: []benchfmt.Value{{Value: 0, Unit: "ns/op"}, {Value: 1, Unit: "B/op"}}}
	bad := 0
	var first []string
	func() {
		defer func() {
			if r := recover(); r != nil {
				hx.Printf("crash %d %s\n", id, strings.ReplaceAll(fmt.Sprint(r), "\n", " "))
			}
		}()
		for i := 0; i < count; i++ {
			want := mk(i, res)
			m, _ := f.Match(res)
			if m.Test(0) != want.t0 || m.Test(1) != want.t1 {
				bad++
				if len(first) < 3 {
					first = append(first, hx.HexS(string(res.Name)+"|"+string(res.Config[0].Value)))
				}
			}
		}
	}()
	fs := "-"
	if len(first) > 0 {
		fs = strings.Join(first, ",")
	}
	hx.Printf("sobs %d many=%d first=%s\n", id, bad, fs)
}

func replayCase(id int, l string) {
	get := func(k string) string { v, _ := hx.Field(l, k); return v }
	rs := &resSpec{name: string(hx.UnHex(get("name")))}
	if c := get("cfg"); c != "-" && c != "" {
		ff := get("cfgf")
		for i, kv := range strings.Split(c, ",") {
			p := strings.Split(kv, ":")
			rs.cfg = append(rs.cfg, benchfmt.Config{Key: string(hx.UnHex(p[0])), Value: hx.UnHex(p[1]), File: i < len(ff) && ff[i] == '1'})
		}
	}
	units := hx.UnHexList(get("units"))
	if v := get("vals"); v != "-" && v != "" {
		for _, it := range strings.Split(v, ",") {
			p := strings.Split(it, ".")
			u, _ := strconv.Atoi(p[0])
			vs := valSpec{unit: string(units[u])}
			if len(p) > 1 {
				o, _ := strconv.Atoi(p[1])
				vs.orig = string(units[o])
			}
			rs.vals = append(rs.vals, vs)
		}
	}
	var pts []string
	if p := get("ptext"); p != "-" && p != "" {
		for _, b := range hx.UnHexList(p) {
			pts = append(pts, string(b))
		}
	}
	runCase(id, get("kind"), string(hx.UnHex(get("expr"))), rs, pts, nil)
}

func main() {
	defer hx.Flush()
	if lines := hx.ReplayLines(); lines != nil {
		for i, l := range lines {
			replayCase(i, l)
		}
		return
	}
	id := 0
	for _, c := range corpus {
		kind := "f"
		if len(c.projs) > 0 {
			kind = "p"
		}
		if runCase(id, kind, c.expr, corpusRes(c), c.projs, []string{"corpus"}) {
			id++
		}
	}
	// permanent corpus files; lines of one group share one Filter object
	groups := map[string]*benchproc.Filter{}
	for _, fc := range readCorpusFiles() {
		kind := "f"
		if len(fc.projs) > 0 {
			kind = "p"
		}
		tags := []string{"corpus", "file"}
		sharedFilter = nil
		if fc.group != "-" && fc.group != "" && kind == "f" {
			tags = append(tags, "reuse")
			if g, ok := groups[fc.group]; ok {
				sharedFilter = g
			} else if g, err := benchproc.NewFilter(fc.expr); err == nil {
				groups[fc.group] = g
				sharedFilter = g
			}
		}
		if runCase(id, kind, fc.expr, fc.rs, fc.projs, tags) {
			id++
		}
		sharedFilter = nil
	}
	for _, rs := range readerResults() {
		for _, e := range readerExprs {
			if runCase(id, "f", e, rs, nil, []string{"corpus", "reader"}) {
				id++
			}
		}
	}
	// permanent streams: sizes 1, 33, 65, 70, 2, … through two Filters of the same text
	for _, e := range []string{".unit:ns/op", "-.unit:ns/op", ".unit:(ns/op OR B/op) -.name:Bar", "-(.unit:/^B/ OR -goos:linux)", ".name:Foo .unit:sec/op OR .unit:x"} {
		base := corpusRes(corpusCase{name: "Foo", n: 7})
		var stream []*resSpec
		for k, n := range streamSizes {
			rs := resize(base, n)
			if k%2 == 1 {
				rs.vals = append([]valSpec(nil), rs.vals...)
				for i := range rs.vals {
					if i%4 == k%4 {
						rs.vals[i] = valSpec{"x", ""}
					}
				}
				rs.name = "Bar"
			}
			stream = append(stream, rs)
		}
		runStream(&id, e, stream, []string{"corpus", "stream"})
	}
	// many distinct values through one long-lived Filter (quick 3 x 600 000, thorough 3 x 1 000 000)
	for shape := 0; shape < 3; shape++ {
		manyValues(id, shape, hx.N(600000, 1000000))
		id++
	}
	ut := unitStreamText()
	for _, e := range readerExprs {
		readerStream(&id, e, ut, "units")
	}
	for _, e := range keyStreamExprs {
		readerStream(&id, e, keyStreamText, "keys")
	}
	// hx.NewRand(salt) starts at seed*G+salt+1 and steps by G, so the streams of seeds s and s+1
	// are the same stream shifted by one draw and the generated cases re-align after the first
	// case. Derive the salt from the seed through the generator's output function instead.
	r := hx.NewRand(hx.NewRand(6).U64() | 1<<40)
	n := hx.N(25000, 300000)
	for i := 0; i < n; i++ {
		rs := genRes(r)
		d := r.Intn(7)
		expr := genExpr(r, rs, d)
		if len(expr) > 600 {
			continue
		}
		kind := "f"
		var pts []string
		if r.Chance(1, 4) {
			kind = "p"
			if r.Chance(1, 2) {
				expr = hx.Pick(r, []string{"*", "*", ".unit:ns/op", "-.unit:B/op", ".name:Foo"})
			}
			for k := count3(r, 40, 40); k > 0; k-- {
				pts = append(pts, genProj(r, rs))
			}
		}
		if runCase(id, kind, expr, rs, pts, nil) {
			id++
		}
		// a stream: two Filters of the same text alternately over 5-9 DIFFERENT results of very
		// different sizes, every Match kept and read only at the end
		if kind == "f" && r.Chance(1, 20) {
			var stream []*resSpec
			for k := 5 + r.Intn(5); k > 0; k-- {
				other := genRes(r)
				stream = append(stream, resize(other, hx.Pick(r, streamSizes)))
			}
			runStream(&id, expr, stream, []string{"stream"})
		}
		// one Filter object reused on variants of the result (same base units, other written units)
		if kind == "f" && r.Chance(1, 6) {
			if g, err := benchproc.NewFilter(expr); err == nil {
				for k := 2 + r.Intn(2); k > 0; k-- {
					sharedFilter = g
					if runCase(id, "f", expr, variant(r, rs), nil, []string{"reuse"}) {
						id++
					}
				}
				sharedFilter = nil
			}
		}
	}
}
