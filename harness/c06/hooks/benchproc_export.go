//go:build verif

package benchproc

import (
	"fmt"

	"golang.org/x/perf/benchfmt"
)

// VerifC06Extract exposes newExtractor to the C06 harness; it is used only to decide on
// which values the regular-expression oracle is asked.
func VerifC06Extract(key string, res *benchfmt.Result) (val []byte, err error) {
	defer func() {
		if r := recover(); r != nil {
			err = fmt.Errorf("panic: %v", r)
		}
	}()
	ext, err := newExtractor(key)
	if err != nil {
		return nil, err
	}
	return ext(res), nil
}
