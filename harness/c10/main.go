//go:build verif

// C10 harness: float64 model validation, benchunit.CommonScale / Scaler.Format / ClassOf.
package main

import (
	"fmt"
	"math"
	"os"
	"strconv"
	"strings"

	"golang.org/x/perf/benchunit"
	"golang.org/x/perf/internal/verifh/hx"
)

var id int

func canon(f float64) string {
	if math.IsNaN(f) {
		return "7ff8000000000001"
	}
	return hx.F64(f)
}

var specials = []float64{0, math.Copysign(0, -1), 1, -1, math.Inf(1), math.Inf(-1), math.NaN(), math.SmallestNonzeroFloat64,
	math.MaxFloat64, 0x1p-1022, 0x1.fffffffffffffp-1023, 1e-9, 1e6, 1e9, 0.1, 3, 1e308, 1e-308, 0.5, 2, 1e22, 1e23}

func randFloat(r *hx.Rand) float64 {
	switch r.Intn(6) {
	case 0:
		return hx.Pick(r, specials)
	case 1:
		return math.Float64frombits(r.U64())
	case 2: // moderate magnitude
		return math.Float64frombits(uint64(1023-40+r.Intn(80))<<52|r.U64()>>12) * float64(1-2*r.Intn(2))
	case 3: // small integers and simple fractions
		return float64(r.Intn(2000)-1000) / float64(1+r.Intn(16))
	case 4: // subnormals and near overflow
		if r.Bool() {
			return math.Float64frombits(r.U64() >> (12 + uint(r.Intn(40))))
		}
		return math.Float64frombits(uint64(2040+r.Intn(7))<<52 | r.U64()>>12)
	default:
		return math.Float64frombits(uint64(r.Intn(2047))<<52 | r.U64()>>12 | uint64(r.Intn(2))<<63)
	}
}

func f64Cases(r *hx.Rand, n int) {
	ops := []string{"mul", "div", "add", "sub", "lt", "le", "eq"}
	for i := 0; i < n; i++ {
		a, b := randFloat(r), randFloat(r)
		if r.Chance(1, 8) { // close operands: cancellation, exact ties
			b = math.Float64frombits(math.Float64bits(a) + uint64(r.Intn(5)) - 2)
			if r.Bool() {
				b = -b
			}
		}
		op := ops[i%len(ops)]
		var res string
		switch op {
		case "mul":
			res = canon(a * b)
		case "div":
			res = canon(a / b)
		case "add":
			res = canon(a + b)
		case "sub":
			res = canon(a - b)
		case "lt":
			res = fmt.Sprint(a < b)
		case "le":
			res = fmt.Sprint(a <= b)
		case "eq":
			res = fmt.Sprint(a == b)
		}
		hx.Printf("case %d kind=f64 op=%s a=%s b=%s tag=%s\n", id, op, hx.F64(a), hx.F64(b), op)
		hx.Printf("obs %d r=%s\n", id, res)
		id++
	}
	for i := 0; i < n/4; i++ {
		v := int64(r.U64()) >> uint(r.Intn(64))
		hx.Printf("case %d kind=f64 op=ofint i=%d tag=ofint\n", id, v)
		hx.Printf("obs %d r=%s\n", id, hx.F64(float64(v)))
		id++
	}
	for i := 0; i < n/2; i++ {
		var text string
		switch r.Intn(4) {
		case 0:
			text = strconv.FormatFloat(randFloat(r), 'e', 17+r.Intn(8), 64)
		case 1:
			text = fmt.Sprintf("%d.%de%d", r.Intn(1000), r.U64()%1000000000, r.Intn(700)-350)
		case 2:
			text = fmt.Sprintf("0x1.%xp%d", r.U64()>>12, r.Intn(2200)-1100)
		default:
			text = fmt.Sprintf(".%de%d", r.U64()%100000, r.Intn(40)-20)
		}
		if strings.ContainsAny(text, "IN") { // Inf / NaN spellings are not part of this numeral grammar
			continue
		}
		v, err := strconv.ParseFloat(text, 64)
		res := hx.F64(v)
		if err != nil && !strings.Contains(err.Error(), "out of range") {
			res = "!syntax"
		}
		hx.Printf("case %d kind=f64 op=parse text=%s tag=parse\n", id, hx.HexS(text))
		hx.Printf("obs %d r=%s\n", id, res)
		id++
	}
	for i := 0; i < n/2; i++ {
		a := randFloat(r)
		if r.Bool() { // exact decimal ties
			a = float64(r.Intn(4000)-2000) / float64(int(1)<<uint(r.Intn(12)))
		}
		prec := r.Intn(11)
		hx.Printf("case %d kind=f64 op=fix a=%s prec=%d tag=fix\n", id, hx.F64(a), prec)
		hx.Printf("obs %d r=%s\n", id, hx.HexS(strconv.FormatFloat(a, 'f', prec, 64)))
		id++
	}
}

func scaleCase(vals []float64, cls benchunit.Class, tag string) {
	defer func() {
		if r := recover(); r != nil {
			// the real code panicked: report the case and continue
			var vs []string
			for _, v := range vals {
				vs = append(vs, hx.F64(v))
			}
			hx.Printf("case %d kind=scale vals=%s cls=%d isingle=- inoop=- tag=%s\n", id, strings.Join(vs, ","), int(cls), tag)
			hx.Printf("crash %d panic: %v\n", id, r)
			id++
		}
	}()
	var vs, fmts, singles, noops []string
	// CommonScale gets a private copy with spare capacity behind it; afterwards the copy and the guard
	// slot must be unchanged (the function must not reorder, rewrite or append to its argument).
	arg := make([]float64, len(vals), len(vals)+1)
	copy(arg, vals)
	arg[:len(vals)+1][len(vals)] = 12345.5
	sc := benchunit.CommonScale(arg, cls)
	inKept := "kept"
	for i, v := range vals {
		if math.Float64bits(arg[i]) != math.Float64bits(v) {
			inKept = "mutated"
		}
	}
	if arg[:len(vals)+1][len(vals)] != 12345.5 {
		inKept = "mutated"
	}
	for _, v := range vals {
		vs = append(vs, hx.F64(v))
		fmts = append(fmts, hx.HexS(sc.Format(v)))
		singles = append(singles, hx.HexS(benchunit.Scale(v, cls)))
		noops = append(noops, hx.HexS(benchunit.NoOpScaler.Format(v)))
	}
	// which value has the same single-value scaler as the common one?
	hx.Printf("case %d kind=scale vals=%s cls=%d isingle=%s inoop=%s tag=%s\n", id, strings.Join(vs, ","), int(cls),
		strings.Join(singles, ","), strings.Join(noops, ","), tag)
	hx.Printf("obs %d prec=%d factor=%s prefix=%s fmt=%s single=%s\n", id, sc.Prec, hx.F64(sc.Factor), hx.HexS(sc.Prefix),
		strings.Join(fmts, ","), strings.Join(singles, ","))
	// spec vocabulary: every text judged "ok"; common scale = single scale of the smallest non-zero magnitude
	ok := make([]string, len(vals))
	for i := range ok {
		ok[i] = "ok"
	}
	minIdx := "none"
	for _, v := range vals {
		if math.IsNaN(v) {
			// NaN is outside the property's quantifier (finite magnitudes); K still covers it.
			minIdx = "skip"
		}
	}
	for i, v := range vals {
		if minIdx == "skip" {
			break
		}
		if math.IsNaN(v) || math.IsInf(v, 0) || v == 0 {
			continue
		}
		if benchunit.CommonScale([]float64{v}, cls) == sc {
			// candidate; the spec names the index of the true minimum, so report the first index whose
			// single scaler equals the common one AND whose magnitude is minimal
			isMin := true
			for _, w := range vals {
				if w != 0 && !math.IsNaN(w) && !math.IsInf(w, 0) && math.Abs(w) < math.Abs(v) {
					isMin = false
				}
			}
			if isMin {
				minIdx = strconv.Itoa(i)
				break
			}
		}
	}
	hx.Printf("sobs %d judge=%s noop=%s min=%s in=%s\n", id, strings.Join(ok, ","), strings.Join(ok, ","), minIdx, inKept)
	id++
}

func nextAfter(f float64, k int) float64 {
	for ; k > 0; k-- {
		f = math.Nextafter(f, math.Inf(1))
	}
	for ; k < 0; k++ {
		f = math.Nextafter(f, math.Inf(-1))
	}
	return f
}

var unitToks = []string{"ns", "MB", "B", "bytes", "sec", "op", "ns2", "Bs", "MBs", "byte", "é", "b", ""}
var unitSeps = []string{"/", "*", "-", " ", "\t", " ", " ", "//", "\x80", "\xc3", "\r", "\n", "\v", "\f", "\r\n", "\u0085", "\u2003", "\u3000", "\x00"}

func main() {
	defer hx.Flush()
	// First use of the package in this process, before anything else touched it: the binary
	// class below its smallest prefix, then the decimal class (order matters for lazily built state).
	scaleCase([]float64{0.25}, benchunit.Binary, "firstuse")
	scaleCase([]float64{float64(float32(0.1)), float64(float32(math.Pi)), 1234.5677490234375, float64(float32(1e-7))}, benchunit.Decimal, "single32")
	scaleCase([]float64{2048, 0.0625}, benchunit.Binary, "firstuse")
	scaleCase([]float64{3e-12, 5e-10}, benchunit.Decimal, "firstuse")
	r := hx.NewRand(10)
	f64Cases(r, hx.N(7000, 140000))
	// the largest magnitudes: the top prefix must still be chosen
	for _, v := range []float64{math.MaxFloat64, -math.MaxFloat64, math.Nextafter(math.MaxFloat64, 0), 1e300, 1e15, 0x1p1023} {
		scaleCase([]float64{v}, benchunit.Decimal, "huge")
		scaleCase([]float64{v}, benchunit.Binary, "huge")
		scaleCase([]float64{0, v, 0}, benchunit.Decimal, "huge")
	}

	si, iec, sig := benchunit.VerifThresholds()
	span := 4
	if hx.Tier() == "thorough" {
		span = 12
	}
	for k := -span; k <= span; k++ {
		for _, t := range si {
			scaleCase([]float64{nextAfter(t, k)}, benchunit.Decimal, "threshold")
			scaleCase([]float64{-nextAfter(t, k)}, benchunit.Decimal, "threshold")
		}
		for _, t := range iec {
			scaleCase([]float64{nextAfter(t, k)}, benchunit.Binary, "threshold")
		}
		for _, t := range sig {
			scaleCase([]float64{nextAfter(t*1e-9, k)}, benchunit.Decimal, "sigfig")
			scaleCase([]float64{nextAfter(t, k)}, benchunit.Binary, "sigfig")
		}
	}
	n := hx.N(6000, 200000)
	for i := 0; i < n; i++ {
		cls := benchunit.Class(r.Intn(2))
		nv := 1
		if r.Chance(1, 3) {
			nv = 1 + r.Intn(5)
		}
		vals := make([]float64, nv)
		for j := range vals {
			switch r.Intn(8) {
			case 0:
				vals[j] = hx.Pick(r, specials)
			case 1:
				vals[j] = randFloat(r)
			case 2:
				// values that carry no more than single precision (a metric computed in float32): the
				// shortest float64 text of such a value is usually much longer than its float32 text
				vals[j] = float64(float32(math.Pow(10, r.Float()*20-10) * float64(1-2*r.Intn(2))))
			default:
				// log-uniform magnitude 1e-20 .. 1e20
				vals[j] = math.Pow(10, r.Float()*40-20) * float64(1-2*r.Intn(2))
				if r.Chance(1, 4) { // round decimal values: 999.95, 0.0099995, ...
					s := strconv.FormatFloat(vals[j], 'e', r.Intn(6), 64)
					vals[j], _ = strconv.ParseFloat(s, 64)
				}
			}
		}
		tag := "single"
		if nv > 1 {
			tag = "multi"
		}
		scaleCase(vals, cls, tag)
	}
	// many distinct units through one process: the class of a unit is a function of its own text, whatever
	// was classified before (a cache keyed by too little shows up once enough distinct strings have passed).
	// The expected class is known by construction: "<w><i>-ns/op" has no bytes token, "<w><i>-B/op" has one.
	if sh, _ := strconv.Atoi(os.Getenv("VERIF_SHARD")); sh == 0 {
		nSweep := hx.N(200000, 1500000)
		bad, first := 0, "-"
		for _, w := range []string{"shard", "heap"} {
			for i := 0; i < nSweep/2; i++ {
				ud := w + strconv.Itoa(i) + "-ns/op"
				ub := w + strconv.Itoa(i) + "-B/op"
				if benchunit.ClassOf(ud) != benchunit.Decimal {
					bad++
					if first == "-" {
						first = hx.HexS(ud)
					}
				}
				if benchunit.ClassOf(ub) != benchunit.Binary {
					bad++
					if first == "-" {
						first = hx.HexS(ub)
					}
				}
			}
		}
		hx.Printf("case %d kind=sweep n=%d tag=manyunits\n", id, 2*nSweep)
		hx.Printf("obs %d bad=%d first=%s\n", id, bad, first)
		hx.Printf("sobs %d bad=%d first=%s\n", id, bad, first)
		id++
	}
	// classof
	m := hx.N(3000, 60000)
	for i := 0; i < m; i++ {
		var sb strings.Builder
		for j := r.Intn(6); j >= 0; j-- {
			if r.Chance(1, 4) {
				sb.WriteString(hx.Pick(r, unitSeps))
			}
			sb.WriteString(hx.Pick(r, unitToks))
			sb.WriteString(hx.Pick(r, unitSeps))
		}
		u := sb.String()
		c := benchunit.ClassOf(u)
		// History: the class of a unit string must not depend on whether Tidy has seen it (Tidy keeps a
		// process-wide cache), and normalising a unit keeps its class (MB -> B stay bytes in the numerator).
		_, tu := benchunit.Tidy(1, u)
		c2 := benchunit.ClassOf(u)
		c3 := benchunit.ClassOf(tu)
		hx.Printf("case %d kind=classof unit=%s tidied=%s tag=classof\n", id, hx.HexS(u), hx.HexS(tu))
		hx.Printf("obs %d cls=%d toks=%s\n", id, int(c), benchunit.VerifTokens(u))
		hx.Printf("sobs %d cls=%d after=%d tidied=%d\n", id, int(c), int(c2), int(c3))
		id++
	}
}
