//go:build verif

package benchunit

import (
	"encoding/hex"
	"fmt"
	"strings"
)

// VerifThresholds exposes every rounding threshold of the scale tables.
func VerifThresholds() (si, iec, sig []float64) {
	for _, f := range siFactors {
		si = append(si, f.t100, f.t10, f.t1)
	}
	for _, f := range iecFactors {
		iec = append(iec, f.t100, f.t10, f.t1)
	}
	sig = append(sig, sigfigs...)
	return
}

// VerifTokens dumps the unit tokenizer's output: hex(token):pos:denom, comma separated.
func VerifTokens(unit string) string {
	p := newParser(unit)
	var out []string
	for p.next() {
		d := 0
		if p.denom {
			d = 1
		}
		out = append(out, fmt.Sprintf("%s:%d:%d", hex.EncodeToString([]byte(p.tok)), p.pos, d))
	}
	if len(out) == 0 {
		return "-"
	}
	return strings.Join(out, ",")
}
