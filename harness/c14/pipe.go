//go:build verif

package main

import (
	"bytes"
	"context"
	"flag"
	"fmt"
	"io"
	"os"
	"os/exec"
	"path/filepath"
	"regexp"
	"sort"
	"strings"
	"time"

	"golang.org/x/perf/benchfmt"
	"golang.org/x/perf/benchmath"
	"golang.org/x/perf/benchproc"
	"golang.org/x/perf/cmd/benchstat/internal/benchtab"
	"golang.org/x/perf/internal/verifh/hx"
)

// Defaults are the flag defaults of the real cmd/benchstat, read from `benchstat -h`.
type Defaults struct {
	Table, Row, Col, Ignore, Filter, Alpha, Confidence, Format string
	Src                                                        string // help = all read from `benchstat -h`
}

var defRe = regexp.MustCompile(`(?s)  -(\w+)[^\n]*\n(.*?)(?:\n  -|\z)`)

// readDefaults runs the real binary with -h and parses flag.PrintDefaults output.
func readDefaults(bin string) (Defaults, error) {
	var d Defaults
	cmd := exec.Command(bin, "-h")
	out, _ := cmd.CombinedOutput()
	s := "\n" + string(out)
	get := func(name string) (string, bool) {
		i := strings.Index(s, "\n  -"+name)
		if i < 0 {
			return "", false
		}
		rest := s[i+1:]
		if j := strings.Index(rest[1:], "\n  -"); j >= 0 {
			rest = rest[:j+1]
		}
		k := strings.LastIndex(rest, "(default ")
		if k < 0 {
			return "", true // empty default is not printed
		}
		v := strings.TrimSuffix(strings.TrimSpace(rest[k+len("(default "):]), ")")
		if strings.HasPrefix(v, `"`) {
			var u string
			if _, err := fmt.Sscanf(v, "%q", &u); err == nil {
				v = u
			}
		}
		return v, true
	}
	// A flag the usage text does not list (or a usage text without defaults) is not a reason to
	// stop: the built-in value is used for it and `src` says so (K then differs on case 0, the
	// remaining cases still run and judge the command with that flag).
	builtin := Defaults{Table: ".config", Row: ".fullname", Col: ".file", Filter: "*", Alpha: "0.05", Confidence: "0.95", Format: "text"}
	d.Src = "help"
	set := func(dst *string, name, def string) {
		v, ok := get(name)
		if !ok {
			d.Src = "builtin:" + name
			v = def
		}
		*dst = v
	}
	set(&d.Table, "table", builtin.Table)
	set(&d.Row, "row", builtin.Row)
	set(&d.Col, "col", builtin.Col)
	set(&d.Ignore, "ignore", builtin.Ignore)
	set(&d.Filter, "filter", builtin.Filter)
	set(&d.Alpha, "alpha", builtin.Alpha)
	set(&d.Confidence, "confidence", builtin.Confidence)
	set(&d.Format, "format", builtin.Format)
	return d, nil
}

// resRec is one filtered result as Builder.Add sees it.
type resRec struct {
	row, col, residue benchproc.Key
	tables            []benchproc.Key
	values            []float64
}

// Run is everything observed from one in-process run of the real pipeline.
type Run struct {
	Err                           string
	tableBy, rowBy, colBy, residu *benchproc.Projection
	stream                        []resRec
	raws                          []rawRes
	fixedBad                      string // a kept result whose value of a fixed-order key is not in the key's list
	midSame                       bool // Tables made mid-stream rendered the same after the Builder was extended
	umAll                         map[[2]string]string // unit metadata of the whole run, parsed by the harness
	builder                       *benchtab.Builder // kept for the in-process perturbation runs (C15)
	opts                          benchtab.TableOpts
	exprs                         []string // -table, -row, -col, -ignore as given
	tables                        *benchtab.Tables
	units                         benchfmt.UnitMetadataMap
	conf                          float64
	thr                           benchmath.Thresholds
	text, csv, errText, errCSV    []byte // stdout / stderr of the two formats
}

// runPipeline mirrors benchstat() of cmd/benchstat/main.go statement by statement (flag
// set, filter, one shared ProjectionParser, Files, Builder) and records the projected
// measurement stream through the public benchproc API. The byte-for-byte agreement of
// its output with the real binary is checked per case (bin=).
func runPipeline(d Defaults, flagArgs []string) *Run {
	run := &Run{}
	flags := flag.NewFlagSet("", flag.ContinueOnError)
	flags.SetOutput(io.Discard)
	thresholds := benchmath.DefaultThresholds
	flagTable := flags.String("table", d.Table, "")
	flagRow := flags.String("row", d.Row, "")
	flagCol := flags.String("col", d.Col, "")
	flagIgnore := flags.String("ignore", d.Ignore, "")
	flagFilter := flags.String("filter", d.Filter, "")
	var defAlpha, defConf float64
	fmt.Sscan(d.Alpha, &defAlpha)
	fmt.Sscan(d.Confidence, &defConf)
	thresholds.CompareAlpha = defAlpha
	flags.Float64Var(&thresholds.CompareAlpha, "alpha", thresholds.CompareAlpha, "")
	flagConfidence := flags.Float64("confidence", defConf, "")
	flags.String("format", d.Format, "")
	if err := flags.Parse(flagArgs); err != nil {
		run.Err = "flag: " + err.Error()
		return run
	}
	var wErr bytes.Buffer
	fail := func(err error) *Run {
		run.Err = err.Error()
		return run
	}
	filter, err := benchproc.NewFilter(*flagFilter)
	if err != nil {
		return fail(fmt.Errorf("parsing -filter: %s", err))
	}
	var parser benchproc.ProjectionParser
	var parseErr error
	mustParse := func(name, val string, unit bool) *benchproc.Projection {
		var proj *benchproc.Projection
		var err error
		if unit {
			proj, _, err = parser.ParseWithUnit(val, filter)
		} else {
			proj, err = parser.Parse(val, filter)
		}
		if err != nil && parseErr == nil {
			parseErr = fmt.Errorf("parsing %s: %s", name, err)
		}
		return proj
	}
	tableBy := mustParse("-table", *flagTable, true)
	rowBy := mustParse("-row", *flagRow, false)
	colBy := mustParse("-col", *flagCol, false)
	mustParse("-ignore", *flagIgnore, false)
	residue := parser.Residue()
	if parseErr != nil {
		return fail(parseErr)
	}
	if thresholds.CompareAlpha < 0 || thresholds.CompareAlpha > 1 {
		return fail(fmt.Errorf("-alpha must be in range [0, 1]"))
	}
	if *flagConfidence < 0 || *flagConfidence > 1 {
		return fail(fmt.Errorf("-confidence must be in range [0, 1]"))
	}
	switch f := flags.Lookup("format").Value.String(); f {
	case "text", "csv":
	default:
		return fail(fmt.Errorf("-format must be text or csv"))
	}
	run.tableBy, run.rowBy, run.colBy, run.residu = tableBy, rowBy, colBy, residue
	run.exprs = []string{*flagTable, *flagRow, *flagCol, *flagIgnore}
	run.conf, run.thr = *flagConfidence, thresholds

	fixed := fixedFields([]string{*flagTable, *flagRow, *flagCol, *flagIgnore})
	stat := benchtab.NewBuilder(tableBy, rowBy, colBy, residue)
	files := benchfmt.Files{Paths: flags.Args(), AllowStdin: true, AllowLabels: true}
	for files.Scan() {
		switch rec := files.Result(); rec := rec.(type) {
		case *benchfmt.SyntaxError:
			fmt.Fprintln(&wErr, rec)
		case *benchfmt.Result:
			if ok, err := filter.Apply(rec); !ok {
				if err != nil {
					fmt.Fprintln(&wErr, err)
				}
				continue
			}
			for _, ff := range fixed {
				if v := ff.proj.Project(rec).Get(ff.field); !ff.in[v] && run.fixedBad == "" {
					run.fixedBad = fmt.Sprintf("%s=%q-kept-but-not-in-%q", ff.key, v, ff.list)
				}
			}
			run.raws = append(run.raws, snapshotRaw(rec))
			stat.Add(rec)
			// Record what Add saw, through the public API. Projecting again is
			// idempotent: the keys are already interned.
			rr := resRec{row: rowBy.Project(rec), col: colBy.Project(rec), residue: residue.Project(rec),
				tables: tableBy.ProjectValues(rec)}
			for _, v := range rec.Values {
				rr.values = append(rr.values, v.Value)
			}
			run.stream = append(run.stream, rr)
			if midAt >= 0 && len(run.stream) == midAt {
				// history of the Builder API: ToTables in the middle of the stream, rendered,
				// then the Builder is extended (its cells' slices are shared with these Tables)
				midThr := thresholds
				midTables = stat.ToTables(benchtab.TableOpts{Confidence: *flagConfidence, Thresholds: &midThr, Units: files.Units()})
				var t, c, e bytes.Buffer
				midTables.ToText(&t, false)
				midTables.ToCSV(&c, &e)
				midText, midCSV = t.Bytes(), append(c.Bytes(), e.Bytes()...)
				midFields = len(tableBy.FlattenedFields()) + len(rowBy.FlattenedFields()) + len(colBy.FlattenedFields())
			}
		}
	}
	if err := files.Err(); err != nil {
		return fail(err)
	}
	run.units = files.Units()
	run.builder = stat
	run.opts = benchtab.TableOpts{
		Confidence: *flagConfidence,
		Thresholds: &run.thr,
		Units:      files.Units(),
	}
	run.tables = stat.ToTables(run.opts)
	var text, csv, csvErr bytes.Buffer
	if err := run.tables.ToText(&text, false); err != nil {
		return fail(err)
	}
	if err := run.tables.ToCSV(&csv, &csvErr); err != nil {
		return fail(err)
	}
	run.text, run.csv = text.Bytes(), csv.Bytes()
	if midTables != nil {
		// the Tables made in the middle must render as they did then
		var t, c, e bytes.Buffer
		midTables.ToText(&t, false)
		midTables.ToCSV(&c, &e)
		run.midSame = bytes.Equal(t.Bytes(), midText) && bytes.Equal(append(c.Bytes(), e.Bytes()...), midCSV)
		if midFields != len(tableBy.FlattenedFields())+len(rowBy.FlattenedFields())+len(colBy.FlattenedFields()) {
			// Keys are views on the live Projection: file-configuration keys that appeared later are
			// new (empty) fields of the earlier keys too — documented growth, not judged
			run.midSame = true
		}
		if !run.midSame && os.Getenv("VERIF_DEBUG_MID") != "" {
			fmt.Fprintf(os.Stderr, "MID BEFORE:\n%s\nMID AFTER:\n%s\n", midText, t.Bytes())
		}
		midTables = nil
	}
	run.errText = append([]byte(nil), wErr.Bytes()...)
	run.errCSV = append(append([]byte(nil), wErr.Bytes()...), csvErr.Bytes()...)
	return run
}

// runBinary runs a real benchstat binary in dir and returns stdout, stderr, exit code.
func runBinary(bin, dir string, env []string, args ...string) (stdout, stderr []byte, code int) {
	// a binary that cannot be started (code -1: e.g. a concurrent check run is rebuilding it)
	// says nothing about benchstat: retry a few times before reporting it
	for try := 0; try < 8; try++ {
		stdout, stderr, code = runBinaryOnce(bin, dir, env, args...)
		if code != -1 {
			return
		}
		time.Sleep(500 * time.Millisecond)
	}
	return
}

// midAt >= 0 makes runPipeline call ToTables (and render) after that many added results and go on
// adding to the same Builder (incremental family of C15).
var (
	midAt            = -1
	midTables        *benchtab.Tables
	midText, midCSV  []byte
	midFields        int
)

// binStdin, when set, names the file (relative to the run directory) fed to the standard input of
// the real binaries, and to os.Stdin of the in-process pipeline.
var binStdin string

// runPipelineStdin runs the in-process pipeline with os.Stdin reading the case's stdin file.
func runPipelineStdin(d Defaults, flagArgs []string) *Run {
	if binStdin == "" {
		return runPipeline(d, flagArgs)
	}
	f, err := os.Open(binStdin)
	if err != nil {
		panic(err)
	}
	defer f.Close()
	old := os.Stdin
	os.Stdin = f
	defer func() { os.Stdin = old }()
	return runPipeline(d, flagArgs)
}

// binTimeout bounds one run of a real binary; a binary that does not exit is reported with
// code -2 (the property promises an answer under every GOMAXPROCS).
var binTimeout = 15 * time.Second

// binHangs counts timeouts; once a hang is established the remaining runs get a short leash.
var binHangs int

func runBinaryOnce(bin, dir string, env []string, args ...string) (stdout, stderr []byte, code int) {
	limit := binTimeout
	if binHangs >= 2 {
		limit = 3 * time.Second
	}
	ctx, cancel := context.WithTimeout(context.Background(), limit)
	defer cancel()
	cmd := exec.CommandContext(ctx, bin, args...)
	cmd.Dir = dir
	cmd.Env = append(os.Environ(), env...)
	var o, e bytes.Buffer
	cmd.Stdout, cmd.Stderr = &o, &e
	if binStdin != "" {
		if f, err := os.Open(filepath.Join(dir, binStdin)); err == nil {
			defer f.Close()
			cmd.Stdin = f
		}
	}
	err := cmd.Run()
	if ctx.Err() != nil {
		binHangs++
		return o.Bytes(), e.Bytes(), -2
	}
	if err != nil {
		if ee, ok := err.(*exec.ExitError); ok {
			code = ee.ExitCode()
		} else {
			code = -1
		}
	}
	return o.Bytes(), e.Bytes(), code
}

// writeCase writes the input files of c into a fresh directory and returns it.
func writeCase(id int, c *Case) string {
	base := os.Getenv("VERIF_RUNDIR")
	if base == "" {
		base = os.TempDir()
	}
	dir := filepath.Join(base, "w"+os.Getenv("VERIF_SHARD"), fmt.Sprintf("c%d", id))
	os.RemoveAll(dir)
	if err := os.MkdirAll(dir, 0o755); err != nil {
		panic(err)
	}
	for _, f := range c.Files {
		if err := os.WriteFile(filepath.Join(dir, f.Name), []byte(f.Content), 0o644); err != nil {
			panic(err)
		}
	}
	return dir
}

// ---------------------------------------------------------------- projected stream

// dict interns string tuples (never Go Keys): ids are first-appearance order.
type dict struct {
	ids    map[string]int
	tuples [][]string
	keys   []benchproc.Key // a Go key with that tuple (to detect Key== vs tuple disagreement)
	bad    bool
}

func newDict() *dict { return &dict{ids: map[string]int{}} }

func tupleOf(k benchproc.Key, fields []*benchproc.Field) []string {
	out := make([]string, len(fields))
	for i, f := range fields {
		out[i] = k.Get(f)
	}
	return out
}

func (d *dict) id(k benchproc.Key, fields []*benchproc.Field) int {
	t := tupleOf(k, fields)
	s := encTuple(t)
	if i, ok := d.ids[s]; ok {
		if d.keys[i] != k {
			d.bad = true // two distinct Go keys with equal tuples
		}
		return i
	}
	for _, o := range d.keys {
		if o == k {
			d.bad = true // one Go key with two tuples
		}
	}
	i := len(d.tuples)
	d.ids[s] = i
	d.tuples = append(d.tuples, t)
	d.keys = append(d.keys, k)
	return i
}

// encTuple: "." then each value hex-encoded and followed by ":".
func encTuple(t []string) string {
	var sb strings.Builder
	sb.WriteByte('.')
	for _, v := range t {
		sb.WriteString(hx.HexS(v))
		sb.WriteByte(':')
	}
	return sb.String()
}

func (d *dict) enc() string {
	if len(d.tuples) == 0 {
		return "-"
	}
	parts := make([]string, len(d.tuples))
	for i, t := range d.tuples {
		parts[i] = encTuple(t)
	}
	return strings.Join(parts, ",")
}

// ranks returns, for every dictionary id, its position in the order benchproc.SortKeys
// gives the distinct keys; lessok reports whether Key.Less agrees pairwise with it.
func (d *dict) ranks() (string, bool) {
	if len(d.keys) == 0 {
		return "-", true
	}
	ks := append([]benchproc.Key(nil), d.keys...)
	// feed SortKeys a scrambled but deterministic start order
	for i := range ks {
		j := (i*7 + 3) % len(ks)
		ks[i], ks[j] = ks[j], ks[i]
	}
	benchproc.SortKeys(ks)
	pos := map[benchproc.Key]int{}
	for i, k := range ks {
		pos[k] = i
	}
	ok := true
	for _, a := range d.keys {
		for _, b := range d.keys {
			if a.Less(b) != (pos[a] < pos[b]) {
				ok = false
			}
		}
	}
	parts := make([]string, len(d.keys))
	for i, k := range d.keys {
		parts[i] = fmt.Sprint(pos[k])
	}
	return strings.Join(parts, ","), ok
}

func fieldNames(fs []*benchproc.Field) []string {
	out := make([]string, len(fs))
	for i, f := range fs {
		out[i] = f.Name
	}
	return out
}

// Stream is the projected measurement stream in case-line vocabulary.
type Stream struct {
	T, R, C, Z     *dict
	TF, RF, CF, ZF []*benchproc.Field
	res            []sres
	unitIdx        int // index of .unit among the table fields
}

type sres struct {
	r, c, z int
	t       []int
	v       []float64
}

func buildStream(run *Run) *Stream {
	s := &Stream{T: newDict(), R: newDict(), C: newDict(), Z: newDict()}
	s.TF, s.RF, s.CF, s.ZF = run.tableBy.FlattenedFields(), run.rowBy.FlattenedFields(), run.colBy.FlattenedFields(), run.residu.FlattenedFields()
	s.unitIdx = -1
	for i, f := range s.TF {
		if f.Name == ".unit" {
			s.unitIdx = i
		}
	}
	for _, rr := range run.stream {
		sr := sres{r: s.R.id(rr.row, s.RF), c: s.C.id(rr.col, s.CF), z: s.Z.id(rr.residue, s.ZF), v: rr.values}
		for _, tk := range rr.tables {
			sr.t = append(sr.t, s.T.id(tk, s.TF))
		}
		s.res = append(s.res, sr)
	}
	return s
}

func (s *Stream) encRes() string {
	if len(s.res) == 0 {
		return "-"
	}
	parts := make([]string, len(s.res))
	for i, r := range s.res {
		var sb strings.Builder
		fmt.Fprintf(&sb, "%d;%d;%d", r.r, r.c, r.z)
		for j := range r.t {
			fmt.Fprintf(&sb, ";%d~%s", r.t[j], hx.F64(r.v[j]))
		}
		parts[i] = sb.String()
	}
	return strings.Join(parts, ",")
}

// unit metadata in case-line vocabulary: the final map (sorted) and the tidied form of
// every unit that occurs in a table key.
func encUnits(run *Run, s *Stream) (um, tidy string) {
	var ums []string
	for k, v := range run.units {
		ums = append(ums, hx.HexS(k.Unit)+":"+hx.HexS(k.Key)+":"+hx.HexS(v.Value))
	}
	sort.Strings(ums)
	um = "-"
	if len(ums) > 0 {
		um = strings.Join(ums, ",")
	}
	seen := map[string]bool{}
	var ts []string
	for _, t := range s.T.tuples {
		u := t[s.unitIdx]
		if seen[u] {
			continue
		}
		seen[u] = true
		// the tidied unit is what UnitMetadataMap.Get looks up; asked from the map's own
		// behaviour: find the tidied spelling by probing with a sentinel key
		ts = append(ts, hx.HexS(u)+":"+hx.HexS(tidyOf(u)))
	}
	tidy = "-"
	if len(ts) > 0 {
		tidy = strings.Join(ts, ",")
	}
	return
}

// fixedField: a projection key with a fixed value order `key@(v1 v2 ...)`. The documentation of
// the projection syntax says such a list is also a filter: results whose value is not listed
// are dropped. The value is extracted with a private one-key projection (public API).
type fixedField struct {
	key   string
	list  []string
	in    map[string]bool
	proj  *benchproc.Projection
	field *benchproc.Field
}

func fixedFields(exprs []string) []fixedField {
	var out []fixedField
	for _, e := range exprs {
		fs, err := benchproc.VerifParseProjectionC14(e)
		if err != nil {
			continue
		}
		for _, f := range fs {
			if f.Order != "fixed" || f.Key == ".fullname" || f.Key == ".config" {
				continue
			}
			var pp benchproc.ProjectionParser
			p, err := pp.Parse(f.Key, nil)
			if err != nil || len(p.Fields()) != 1 {
				continue
			}
			ff := fixedField{key: f.Key, list: f.Fixed, in: map[string]bool{}, proj: p, field: p.Fields()[0]}
			for _, v := range f.Fixed {
				ff.in[v] = true
			}
			out = append(out, ff)
		}
	}
	return out
}
