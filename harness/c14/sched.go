//go:build verif

package main

const (
	quickCases    = 150
	thoroughCases = 3000
)

func schedCase(id int, dir string, c *Case, args []string, run *Run) {}
