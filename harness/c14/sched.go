//go:build verif

package main

import (
	"bytes"
	"encoding/json"
	"fmt"
	"os"
	"runtime"
	"runtime/debug"
	"sort"
	"strings"
	"sync"
	"sync/atomic"
	"time"

	"golang.org/x/perf/benchunit"
	"golang.org/x/perf/cmd/benchstat/internal/benchtab"

	"golang.org/x/perf/internal/verifh/hx"
)

// C15 runtime part (NOT a theorem): the real binaries, fresh processes, many schedules.

var raceBin = os.Getenv("VERIF_BENCHSTAT_RACE")

var procsList = []string{"1", "2", "4", "16"}

// schedCase runs the case under every GOMAXPROCS setting, repeated, in both formats, with the
// race-detector build and the plain build, and compares all bytes with the in-process run.
// It then permutes the result lines inside every configuration block and compares per-cell
// content via the CSV parsed back.
func schedCase(id int, dir string, c *Case, args []string, run *Run) {
	same, race, runs := 1, 0, 0
	detail, crashed := "", ""
	repsPlain, repsRace := hx.N(2, 6), hx.N(1, 3)
	if os.Getenv("VERIF_TIER") != "thorough" {
		repsPlain, repsRace = 2, 1
	} else {
		repsPlain, repsRace = 6, 3
	}
	check := func(bin string, reps int, isRace bool) {
		if bin == "" {
			same = 0
			detail = "binary missing"
			return
		}
		for _, p := range procsList {
			for rep := 0; rep < reps; rep++ {
				for _, format := range []string{"text", "csv"} {
					setting := fmt.Sprintf("%v/%s", isRace, p)
					if hungSettings[setting] >= 2 {
						continue // established in earlier cases (each with its own crash line); keep the budget
					}
					env := []string{"GOMAXPROCS=" + p, "GORACE=halt_on_error=0 exitcode=66 atexit_sleep_ms=0"}
					out, errb, code := runBinary(bin, dir, env, append([]string{"-format", format}, args...)...)
					runs++
					if isRace && (code == 66 || bytes.Contains(errb, []byte("DATA RACE"))) {
						race = 1
						detail = fmt.Sprintf("race procs=%s format=%s", p, format)
						continue
					}
					wantOut, wantErr := run.text, run.errText
					if format == "csv" {
						wantOut, wantErr = run.csv, run.errCSV
					}
					if !bytes.Equal(out, wantOut) || !bytes.Equal(errb, wantErr) || code != 0 {
						same = 0
						detail = fmt.Sprintf("bytes differ procs=%s rep=%d format=%s race=%v code=%d", p, rep, format, isRace, code)
						if code == -2 {
							hungSettings[setting]++
							crashed = fmt.Sprintf("hang: benchstat did not exit at GOMAXPROCS=%s format=%s race=%v (limit %v)", p, format, isRace, binTimeout)
						} else if bytes.Contains(errb, []byte("panic:")) || bytes.Contains(errb, []byte("fatal error:")) {
							crashed = fmt.Sprintf("benchstat procs=%s format=%s race=%v: %s", p, format, isRace, firstPanicLine(errb))
						}
					}
				}
			}
		}
	}
	check(plainBin, repsPlain, false)
	check(raceBin, repsRace, true)

	// in-process repetitions: new maps, new goroutine interleavings, warmed caches
	inproc := 1
	for i := 0; i < 3; i++ {
		again := runPipelineStdin(defaultsUsed, args)
		if again.Err != "" || !bytes.Equal(again.text, run.text) || !bytes.Equal(again.csv, run.csv) || !bytes.Equal(again.errCSV, run.errCSV) {
			inproc = 0
		}
	}
	// in-process schedule perturbation: ToTables on the SAME Builder, sequentially, under varying
	// GOMAXPROCS (which also changes the fan-out limit 2*GOMAXPROCS), GC pressure and competing
	// busy goroutines that yield in a tight loop
	if pr := perturb(run); pr.runs > 0 {
		if pr.distinct != 1 {
			inproc = 0
		}
		if pr.hang != "" {
			crashed = "hang: " + pr.hang
		}
		hx.Printf("info %d perturb runs=%d settings=%d distinct_outputs=%d max_goroutines=%d cells=%d\n", id, pr.runs, pr.settings, pr.distinct, pr.maxG, pr.cells)
	}
	hx.Printf("obs %d sched same=%d\n", id, inproc)

	// history: the same call before and after calls with other -alpha values, in ONE process of
	// the real entry point (hook hooks/benchstat_history.go); its output must not depend on them
	hist := 1
	if plainBin != "" && c.Stdin == "" { // standard input cannot be read twice in one process
		if d := historyCheck(dir, c, args, run); d != "" {
			hist = 0
			detail = "history: " + d
		}
		runs++
	}

	// Builder history: ToTables -> Add more -> ToTables must equal a fresh Builder fed everything
	// (cells' slices are sorted in place by NewSample and shared with the earlier Tables), and the
	// earlier Tables must still render as before
	incr := 1
	if n := len(run.stream); n >= 2 {
		for _, at := range []int{n / 2, 1, n - 1} {
			midAt = at
			r2 := runPipelineStdin(defaultsUsed, args)
			midAt = -1
			if r2.Err != "" || !bytes.Equal(r2.text, run.text) || !bytes.Equal(r2.csv, run.csv) || !bytes.Equal(r2.errCSV, run.errCSV) {
				incr = 0
				detail = fmt.Sprintf("incremental: ToTables after %d of %d results, then the rest: final output differs from the fresh run", at, n)
			} else if !r2.midSame {
				incr = 0
				detail = fmt.Sprintf("incremental: the Tables made after %d of %d results render differently after the Builder was extended", at, n)
			}
		}
	}

	// line permutation inside configuration blocks
	perm := 1
	if plainBin != "" {
		r := hx.NewRand(uint64(id) * 7919)
		pdir := dir + "-perm"
		os.RemoveAll(pdir)
		os.MkdirAll(pdir, 0o755)
		o1, e1, _ := runBinary(plainBin, dir, nil, append([]string{"-format", "csv"}, args...)...)
		runs++
		// two permutations: a random shuffle of every block, and every block reversed
		for _, mode := range []string{"shuffle", "reverse"} {
			for _, f := range c.Files {
				content := permuteBlocks(r, f.Content)
				if mode == "reverse" {
					content = reverseBlocks(f.Content)
				}
				os.WriteFile(pdir+"/"+f.Name, []byte(content), 0o644)
			}
			o2, e2, _ := runBinary(plainBin, pdir, nil, append([]string{"-format", "csv"}, args...)...)
			runs++
			if d := compareCells(parseCSVCells(o1), parseCSVCells(o2)); d != "" {
				perm = 0
				detail = "perm(" + mode + "): " + d
			} else if w1, w2 := warningBag(e1), warningBag(e2); w1 != w2 {
				// the warnings (cell references aside: rows may move) are part of a cell's content
				perm = 0
				detail = fmt.Sprintf("perm(%s): warnings %q vs %q", mode, w1, w2)
			}
		}
		if os.Getenv("VERIF_KEEP") == "" {
			os.RemoveAll(pdir)
		}
	}
	bin := "ok"
	if plainBin == "" {
		bin = "skip"
	}
	if detail != "" {
		hx.Printf("sobs %d same=%d race=%d perm=%d hist=%d incr=%d bin=%s detail=%s\n", id, same, race, perm, hist, incr, bin, strings.ReplaceAll(detail, " ", "_"))
	} else {
		hx.Printf("sobs %d same=%d race=%d perm=%d hist=%d incr=%d bin=%s\n", id, same, race, perm, hist, incr, bin)
	}
	if crashed != "" {
		hx.Printf("crash %d %s\n", id, crashed)
	}
	_ = runs
}

// permuteBlocks shuffles the result lines inside every maximal run of result lines.
func permuteBlocks(r *hx.Rand, content string) string {
	lines := strings.Split(strings.TrimSuffix(content, "\n"), "\n")
	i := 0
	for i < len(lines) {
		if !strings.HasPrefix(lines[i], "Benchmark") {
			i++
			continue
		}
		j := i
		for j < len(lines) && strings.HasPrefix(lines[j], "Benchmark") {
			j++
		}
		blk := lines[i:j]
		for a := len(blk) - 1; a > 0; a-- {
			b := r.Intn(a + 1)
			blk[a], blk[b] = blk[b], blk[a]
		}
		i = j
	}
	return strings.Join(lines, "\n") + "\n"
}

// reverseBlocks reverses the result lines inside every maximal run of result lines.
func reverseBlocks(content string) string {
	lines := strings.Split(strings.TrimSuffix(content, "\n"), "\n")
	i := 0
	for i < len(lines) {
		if !strings.HasPrefix(lines[i], "Benchmark") {
			i++
			continue
		}
		j := i
		for j < len(lines) && strings.HasPrefix(lines[j], "Benchmark") {
			j++
		}
		for a, b := i, j-1; a < b; a, b = a+1, b-1 {
			lines[a], lines[b] = lines[b], lines[a]
		}
		i = j
	}
	return strings.Join(lines, "\n") + "\n"
}

// csvCell is the content of one cell as CSV shows it.
type csvCell struct {
	centre, ci, delta, p string
	base               string // column tuple of the table's first column
}

// parseCSVCells maps (table context, unit, row label, column tuple) to the cell content.
func parseCSVCells(out []byte) map[string][]csvCell {
	cells := map[string][]csvCell{}
	recs := splitCSVLines(out)
	ctx := map[string]string{}
	startCol := func(exp int) int {
		if exp == 0 {
			return 1
		}
		return 3 + (exp-1)*4
	}
	i := 0
	for i < len(recs) {
		// a table block ends at a blank record or at the end
		j := i
		for j < len(recs) && !(len(recs[j]) == 1 && recs[j][0] == "") {
			j++
		}
		blk := recs[i:j]
		i = j + 1
		// header lines "key: value"
		k := 0
		for k < len(blk) && len(blk[k]) == 1 {
			if kv := strings.SplitN(blk[k][0], ": ", 2); len(kv) == 2 {
				ctx[kv[0]] = kv[1]
			}
			k++
		}
		var ctxParts []string
		for key, v := range ctx {
			ctxParts = append(ctxParts, key+"="+v)
		}
		sort.Strings(ctxParts)
		// column header rows up to the unit row (the one with "CI" in field 2)
		u := k
		for u < len(blk) && !(len(blk[u]) > 2 && blk[u][2] == "CI") {
			u++
		}
		if u >= len(blk) {
			continue
		}
		unit := blk[u][1]
		ncols := 0
		for startCol(ncols) < len(blk[u]) {
			ncols++
		}
		colTuple := func(exp int) string {
			var parts []string
			for h := k; h < u; h++ {
				v := ""
				if startCol(exp) < len(blk[h]) {
					v = blk[h][startCol(exp)]
				}
				parts = append(parts, v)
			}
			return strings.Join(parts, "\x1f")
		}
		for _, rec := range blk[u+1 : len(blk)-1] { // last record is the geomean row
			for exp := 0; exp < ncols; exp++ {
				sc := startCol(exp)
				if sc >= len(rec) || rec[sc] == "" {
					continue
				}
				cell := csvCell{centre: rec[sc], base: colTuple(0)}
				if sc+1 < len(rec) {
					cell.ci = rec[sc+1]
				}
				if exp > 0 && sc+3 < len(rec) {
					cell.delta, cell.p = rec[sc+2], rec[sc+3]
				}
				key := strings.Join(ctxParts, ";") + "|" + unit + "|" + rec[0] + "|" + colTuple(exp)
				cells[key] = append(cells[key], cell) // distinct keys may print alike ("x","" and "","x")
			}
		}
	}
	return cells
}

// compareCells: the same set of cells; every cell's centre and interval unchanged; delta and
// p unchanged whenever the table's baseline column is the same one.
func compareCells(a, b map[string][]csvCell) string {
	if len(a) != len(b) {
		return fmt.Sprintf("cell count %d vs %d", len(a), len(b))
	}
	norm := func(l []csvCell) []csvCell {
		l = append([]csvCell(nil), l...)
		sort.Slice(l, func(i, j int) bool {
			if l[i].centre != l[j].centre {
				return l[i].centre < l[j].centre
			}
			return l[i].ci < l[j].ci
		})
		return l
	}
	for k, xs := range a {
		ys, ok := b[k]
		if !ok || len(xs) != len(ys) {
			return "cell missing: " + k
		}
		xs, ys = norm(xs), norm(ys)
		for i := range xs {
			x, y := xs[i], ys[i]
			if x.centre != y.centre || x.ci != y.ci {
				return fmt.Sprintf("cell %s: %s %s vs %s %s", k, x.centre, x.ci, y.centre, y.ci)
			}
			if len(xs) == 1 && x.base == y.base && (x.delta != y.delta || x.p != y.p) {
				return fmt.Sprintf("cell %s: delta %s %s vs %s %s", k, x.delta, x.p, y.delta, y.p)
			}
		}
	}
	return ""
}

type perturbResult struct {
	runs, settings, distinct, maxG, cells int
	hang                                 string
}

var (
	hangLimit    = 8 * time.Second
	hangsSeen    int
	hungSettings = map[string]int{} // binary kind/GOMAXPROCS -> hangs seen; in-process: "in/<procs>"
)

// perturb re-runs the real ToTables on the Builder of this case. Completion orders of the
// per-cell goroutines cannot be logged without replacing builder.go (the code under test) —
// no callback, interface or variable of ours is reached from inside the goroutines — so the
// diversity of schedules is recorded indirectly: settings tried, peak number of live
// goroutines seen by a sampler, and the number of distinct outputs (must be 1).
func perturb(run *Run) perturbResult {
	var pr perturbResult
	if run.builder == nil {
		return pr
	}
	procs := []int{1, 2, 3}
	gcs := []int{100}
	reps := 1
	if os.Getenv("VERIF_TIER") == "thorough" {
		procs = []int{1, 2, 3, 4, 8, 16, 32}
		gcs = []int{1, 100, -1}
		reps = 3
	}
	for _, t := range run.tables.Tables {
		pr.cells += len(t.Cells)
	}
	outputs := map[string]bool{}
	oldProcs := runtime.GOMAXPROCS(0)
	oldGC := debug.SetGCPercent(100)
	defer runtime.GOMAXPROCS(oldProcs)
	defer debug.SetGCPercent(oldGC)
	for _, p := range procs {
		if hungSettings[fmt.Sprintf("in/%d", p)] >= 2 {
			continue
		}
		for _, g := range gcs {
			pr.settings++
			for rep := 0; rep < reps; rep++ {
				runtime.GOMAXPROCS(p)
				debug.SetGCPercent(g)
				var stop atomic.Bool
				var wg sync.WaitGroup
				// competing goroutines: rep 0 none, rep 1 a few yielders, rep 2 many
				noise := []int{0, 2, 4 * p}[rep%3]
				for i := 0; i < noise; i++ {
					wg.Add(1)
					go func() {
						defer wg.Done()
						x := 0
						for !stop.Load() {
							x++
							if x%64 == 0 {
								runtime.Gosched()
							}
						}
					}()
				}
				var maxG atomic.Int64
				wg.Add(1)
				go func() {
					defer wg.Done()
					for !stop.Load() {
						if n := int64(runtime.NumGoroutine()); n > maxG.Load() {
							maxG.Store(n)
						}
						runtime.Gosched()
					}
				}()
				// a ToTables that does not return is a hang (the leaked goroutine stays blocked)
				done := make(chan *benchtab.Tables, 1)
				go func() { done <- run.builder.ToTables(run.opts) }()
				var tables *benchtab.Tables
				limit := hangLimit
				if hangsSeen >= 2 {
					limit = time.Second // the violation is established; do not spend the budget on it
				}
				select {
				case tables = <-done:
				case <-time.After(limit):
					pr.hang = fmt.Sprintf("ToTables did not return within %v at GOMAXPROCS=%d GOGC=%d with %d competing goroutines (in-process, Builder of this case)", limit, p, g, noise)
					hangsSeen++
					hungSettings[fmt.Sprintf("in/%d", p)]++
				}
				stop.Store(true)
				wg.Wait()
				if pr.hang != "" {
					pr.runs++
					pr.distinct = 0
					return pr
				}
				if int(maxG.Load()) > pr.maxG {
					pr.maxG = int(maxG.Load())
				}
				var text, csv, csvErr bytes.Buffer
				tables.ToText(&text, false)
				tables.ToCSV(&csv, &csvErr)
				outputs[text.String()+"\x00"+csv.String()+"\x00"+csvErr.String()] = true
				pr.runs++
			}
		}
	}
	// the reference output counts too
	outputs[string(run.text)+"\x00"+string(run.csv)+"\x00"+string(run.errCSV[len(run.errText):])] = true
	pr.distinct = len(outputs)
	return pr
}

// historyCheck runs [A, A+alpha 0.5, A, A+alpha 0.0001, A] in one process and text and csv
// format; runs 0, 2, 4 must equal the in-process (fresh state) output of A.
func historyCheck(dir string, c *Case, args []string, run *Run) string {
	with := func(alpha string) []string {
		a := append([]string(nil), c.Flags...)
		a = append(a, "-alpha", alpha)
		return append(a, c.Args...)
	}
	for _, format := range []string{"text", "csv"} {
		pre := []string{"-format", format}
		script := [][]string{append(pre, args...), append(pre, with("0.5")...), append(pre, args...), append(pre, with("0.0001")...), append(pre, args...)}
		spec, _ := json.Marshal(script)
		hdir := dir + "-hist"
		os.RemoveAll(hdir)
		os.MkdirAll(hdir, 0o755)
		_, errb, code := runBinary(plainBin, dir, []string{"VERIF_BENCHSTAT_HISTORY=" + string(spec), "VERIF_BENCHSTAT_HISTORY_DIR=" + hdir})
		wantOut, wantErr := run.text, run.errText
		if format == "csv" {
			wantOut, wantErr = run.csv, run.errCSV
		}
		res := ""
		if code != 0 {
			res = fmt.Sprintf("history process exited %d: %s", code, firstPanicLine(errb))
		}
		for _, i := range []int{0, 2, 4} {
			o, err1 := os.ReadFile(fmt.Sprintf("%s/run%d.out", hdir, i))
			e, err2 := os.ReadFile(fmt.Sprintf("%s/run%d.err", hdir, i))
			if res == "" && (err1 != nil || err2 != nil || !bytes.Equal(o, wantOut) || !bytes.Equal(e, wantErr)) {
				res = fmt.Sprintf("call %d of [A, A -alpha 0.5, A, A -alpha 0.0001, A] format=%s differs from A in a fresh process", i, format)
			}
		}
		if os.Getenv("VERIF_KEEP") == "" {
			os.RemoveAll(hdir)
		}
		if res != "" {
			return res
		}
	}
	return ""
}

// ---------------------------------------------------------------- concurrent API family (tidy cache)

var (
	tidyRaceBin  = os.Getenv("VERIF_C15_TIDY_RACE")
	tidyPlainBin = os.Getenv("VERIF_C15_TIDY")
)

// tidyFamily: G goroutines, released together, tidy the same FRESH slow-path units (they contain
// "ns"/"MB" but are none of the fast-path units, and are unique to this case) through
// benchunit.Tidy and through separate benchfmt.Readers, in a fresh process (empty cache), with
// the race-detector build and the plain build. Every result must equal the value a single
// goroutine gets (computed here, sequentially); a race report, a wrong value or a crash is an S
// hit with the units as replay.
func tidyFamily(id, idx int) {
	r := hx.NewRand(uint64(id)*104729 + 7)
	g := 8
	var units []string
	for j := 0; j < 6; j++ {
		switch r.Intn(4) {
		case 0:
			units = append(units, fmt.Sprintf("x%d-%d-ns/frame", id, j))
		case 1:
			units = append(units, fmt.Sprintf("MB%d_%d/frob", id, j))
		case 2:
			units = append(units, fmt.Sprintf("ns/op%d_%d", id, j))
		default:
			units = append(units, fmt.Sprintf("w%d-%d-MB/ns", id, j))
		}
	}
	hx.Printf("pre %d idx=%d kind=tidy g=%d units=%s crashed=1 tag=tidyconc\n", id, idx, g, hx.HexListS(units))
	hx.Flush()
	hx.Printf("case %d kind=tidy g=%d units=%s tag=tidyconc\n", id, g, hx.HexListS(units))
	want := map[string]string{}
	for _, u := range units {
		v, tu := benchunit.Tidy(3, u)
		want[hx.HexS(u)] = hx.F64(v) + " " + hx.HexS(tu)
	}
	same, race, detail, crashed := 1, 0, "", ""
	args := append([]string{fmt.Sprint(g)}, units...)
	for _, b := range []struct {
		bin    string
		isRace bool
		reps   int
	}{{tidyRaceBin, true, 2}, {tidyPlainBin, false, 4}} {
		if b.bin == "" {
			same, detail = 0, "binary missing"
			continue
		}
		for rep := 0; rep < b.reps; rep++ {
			out, errb, code := runBinary(b.bin, ".", []string{"GORACE=halt_on_error=0 exitcode=66 atexit_sleep_ms=0"}, args...)
			if b.isRace && (code == 66 || bytes.Contains(errb, []byte("DATA RACE"))) {
				race = 1
				detail = "race report"
			} else if code != 0 {
				same = 0
				crashed = fmt.Sprintf("c15tidy race=%v exited %d: %s", b.isRace, code, firstPanicLine(errb))
			}
			n := 0
			for _, l := range linesOf(out) {
				f := strings.Fields(l)
				if len(f) != 5 {
					continue
				}
				n++
				if want[f[2]] != f[3]+" "+f[4] {
					same = 0
					detail = fmt.Sprintf("goroutine %s api %s unit %s got %s %s want %s", f[1], f[0], f[2], f[3], f[4], want[f[2]])
				}
			}
			if n != g*len(units) && code == 0 {
				same = 0
				detail = fmt.Sprintf("%d result lines, want %d", n, g*len(units))
			}
		}
	}
	if detail != "" {
		hx.Printf("sobs %d tidy same=%d race=%d detail=%s\n", id, same, race, strings.ReplaceAll(detail, " ", "_"))
	} else {
		hx.Printf("sobs %d tidy same=%d race=%d\n", id, same, race)
	}
	if crashed != "" {
		hx.Printf("crash %d %s\n", id, crashed)
	}
	hx.Flush()
}

// warningBag: the multiset of warning messages on stderr of a csv run, without the spreadsheet
// cell references in front (rows may legitimately change places) and without reader diagnostics
// that carry line numbers.
func warningBag(stderr []byte) string {
	var ws []string
	for _, l := range linesOf(stderr) {
		i := strings.Index(l, ": ")
		if i < 0 || i > 6 || l[0] < 'A' || l[0] > 'Z' {
			continue // not a `<cell>: message` line (syntax errors name file:line)
		}
		msg := l[i+2:]
		// only the warnings of a cell's own sample and summary: comparison and geomean warnings
		// depend on which column is the baseline, which a by-first-observation column order lets
		// the permutation change (see baseline_depends_on_first_observation)
		if strings.HasPrefix(msg, "benchmarks vary in ") || strings.Contains(msg, "samples for confidence interval") || strings.HasPrefix(msg, "exact distribution expected") {
			ws = append(ws, msg)
		}
	}
	sort.Strings(ws)
	return strings.Join(ws, "|")
}
