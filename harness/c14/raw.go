//go:build verif

package main

import (
	"fmt"
	"math"
	"sort"
	"strings"

	"golang.org/x/perf/benchfmt"
	"golang.org/x/perf/benchproc"
	"golang.org/x/perf/internal/verifh/hx"
)

// Raw results for the second driver pass: the C08/C09 model of projection and key order
// (lean/Model/Proc/Projection.lean, Sort.lean) computes the keys from name, file
// configuration and units instead of taking them from the harness.

type rawRes struct {
	name   string
	config []benchfmt.Config
	units  []string
}

func snapshotRaw(rec *benchfmt.Result) rawRes {
	r := rawRes{name: string(rec.Name)}
	for _, c := range rec.Config {
		c.Value = append([]byte(nil), c.Value...) // the Reader reuses value buffers
		r.config = append(r.config, c)
	}
	for _, v := range rec.Values {
		r.units = append(r.units, v.Unit)
	}
	return r
}

// encRaw: hexname|hexkey/hexval/file,...|hexunit_hexunit (the C08 protocol's result syntax).
func encRaw(rs []rawRes) string {
	if len(rs) == 0 {
		return "-"
	}
	parts := make([]string, len(rs))
	for i, r := range rs {
		var cfg []string
		for _, c := range r.config {
			f := "0"
			if c.File {
				f = "1"
			}
			cfg = append(cfg, hx.HexS(c.Key)+"/"+hx.Hex(c.Value)+"/"+f)
		}
		cs := "-"
		if len(cfg) > 0 {
			cs = strings.Join(cfg, ",")
		}
		var us []string
		for _, u := range r.units {
			us = append(us, hx.HexS(u))
		}
		ustr := "-"
		if len(us) > 0 {
			ustr = strings.Join(us, "_")
		}
		parts[i] = hx.HexS(r.name) + "|" + cs + "|" + ustr
	}
	return strings.Join(parts, ";")
}

// encSpecs renders the parsed projection expressions of -table, -row, -col, -ignore:
// expressions separated by ';', fields by '+', field = hexkey~order with order
// f (first) | a (alpha) | n (num) | x<hex.hex...> (fixed; x- for the empty list).
// ok=false when an expression does not parse or names an unknown order.
func encSpecs(exprs []string) (string, bool, bool) {
	var out []string
	hasNum := false
	for _, e := range exprs {
		fs, err := benchproc.VerifParseProjectionC14(e)
		if err != nil {
			return "", false, false
		}
		var parts []string
		for _, f := range fs {
			o := ""
			switch f.Order {
			case "first":
				o = "f"
			case "alpha":
				o = "a"
			case "num":
				o = "n"
				hasNum = true
			case "fixed":
				if len(f.Fixed) == 0 {
					o = "x-"
				} else {
					hs := make([]string, len(f.Fixed))
					for i, v := range f.Fixed {
						hs[i] = hx.HexS(v)
					}
					o = "x" + strings.Join(hs, ".")
				}
			default:
				return "", false, false
			}
			parts = append(parts, hx.HexS(f.Key)+"~"+o)
		}
		out = append(out, strings.Join(parts, "+"))
	}
	return strings.Join(out, ";"), true, hasNum
}

// encPn: the real parseNum on every value that occurs in a key tuple.
func encPn(s *Stream) string {
	seen := map[string]bool{}
	var parts []string
	for _, d := range []*dict{s.T, s.R, s.C} {
		for _, t := range d.tuples {
			for _, v := range t {
				if seen[v] {
					continue
				}
				seen[v] = true
				f, ok := benchproc.VerifParseNumC14(v)
				c := "e"
				if ok {
					if math.IsNaN(f) {
						c = "n"
					} else {
						c = fmt.Sprintf("%016x", math.Float64bits(f))
					}
				}
				parts = append(parts, hx.HexS(v)+":"+c)
			}
		}
	}
	if len(parts) == 0 {
		return "-"
	}
	return strings.Join(parts, ",")
}

// rawCellsDigest: the cells of the real Tables keyed by the VALUES of their table, row and
// column keys (not by key identity): count and FNV-1a of the sorted list of
// "<table tuple>|<row tuple>|<col tuple>=<canonical multiset>". The specification side computes
// the same from groupBy over the keys the C08 model projects from the RAW results, so keys that
// the implementation merged or split show up even though the recorded stream is consistent
// with the implementation's own keys.
func rawCellsDigest(run *Run, s *Stream, specsOK bool) string {
	if !specsOK {
		return "-"
	}
	var items []string
	for ti, tab := range run.tables.Tables {
		tt := encTuple(tupleOf(run.tables.Keys[ti], s.TF))
		for k, cell := range tab.Cells {
			items = append(items, tt+"|"+encTuple(tupleOf(k.Row, s.RF))+"|"+encTuple(tupleOf(k.Col, s.CF))+"="+canon(cell.Sample.Values))
		}
	}
	sort.Strings(items)
	h := uint64(14695981039346656037)
	for _, it := range items {
		for i := 0; i < len(it); i++ {
			h ^= uint64(it[i])
			h *= 1099511628211
		}
		h ^= 10
		h *= 1099511628211
	}
	return fmt.Sprintf("%d:%016x", len(items), h)
}
