//go:build verif

package main

// prop selects what this harness prints on top of the shared case/obs lines:
// C14 judges cells and statistics, C15 additionally runs the real binaries under
// many schedules. harness/c15 holds copies of gen.go, pipe.go, asm.go, main.go, sched.go
// (harness/c15/sync.sh copies them) and its own mode.go.
const prop = "C14"

const (
	quickCases    = 400
	thoroughCases = 3000
)
