//go:build verif

package main

import (
	"fmt"
	"strconv"
	"strings"

	"golang.org/x/perf/benchunit"
	"golang.org/x/perf/cmd/benchstat/internal/benchtab"
)

// colPosCheck judges the real CSV and text output against the real Tables value: every data
// field sits under the header of ITS column (CSV: the fields of the cell of column number exp
// start at startCol(exp) = 1, 3, 7, 11, …; a missing cell leaves exactly its own fields blank),
// and text and CSV agree on which column holds which measurement (text: the cell's text lies
// between the rules `│` of its column in the unit header line, and is blank iff the cell is
// missing).
func colPosCheck(run *Run) string {
	startCol := func(exp int) int {
		if exp == 0 {
			return 1
		}
		return 3 + (exp-1)*4
	}
	// ---- CSV
	recs := splitCSVLines(run.csv)
	var blocks [][][]string
	var cur [][]string
	for _, r := range recs {
		if len(r) == 1 && r[0] == "" {
			blocks = append(blocks, cur)
			cur = nil
			continue
		}
		cur = append(cur, r)
	}
	if cur != nil {
		blocks = append(blocks, cur)
	}
	if len(blocks) != len(run.tables.Tables) {
		return fmt.Sprintf("csv:%d-blocks-for-%d-tables", len(blocks), len(run.tables.Tables))
	}
	for ti, tab := range run.tables.Tables {
		blk := blocks[ti]
		k := 0
		for k < len(blk) && len(blk[k]) == 1 {
			k++
		}
		ncf := len(tab.Cols[0].Projection().FlattenedFields())
		start := k + ncf + 1
		if start+len(tab.Rows)+1 != len(blk) {
			return fmt.Sprintf("csv:table%d-has-%d-records-want-%d", ti, len(blk), start+len(tab.Rows)+1)
		}
		for ri, row := range tab.Rows {
			rec := blk[start+ri]
			get := func(i int) string {
				if i < len(rec) {
					return rec[i]
				}
				return ""
			}
			if get(0) != row.StringValues() {
				return fmt.Sprintf("csv:table%d-row%d-label", ti, ri)
			}
			if len(rec) > startCol(len(tab.Cols)) {
				return fmt.Sprintf("csv:table%d-row%d-too-wide", ti, ri)
			}
			for exp, col := range tab.Cols {
				sc := startCol(exp)
				cell, ok := tab.Cells[benchtab.TableKey{Row: row, Col: col}]
				want := []string{"", "", "", ""}
				if ok {
					want[0], want[1] = fmt.Sprint(cell.Summary.Center), cell.Summary.PctRangeString()
					if exp > 0 && cell.Baseline != nil {
						want[2] = cell.Comparison.FormatDelta(cell.Baseline.Summary.Center, cell.Summary.Center)
						want[3] = cell.Comparison.String()
					}
				}
				n := 4
				if exp == 0 {
					n = 2
				}
				for j := 0; j < n; j++ {
					if get(sc+j) != want[j] {
						return fmt.Sprintf("csv:table%d-row%d-col%d-field%d-%q-want-%q", ti, ri, exp, j, get(sc+j), want[j])
					}
				}
			}
		}
	}
	// ---- text
	var tblocks [][]string
	var tcur []string
	for _, l := range linesOf(run.text) {
		if l == "" {
			tblocks = append(tblocks, tcur)
			tcur = nil
			continue
		}
		tcur = append(tcur, l)
	}
	if tcur != nil {
		tblocks = append(tblocks, tcur)
	}
	if len(tblocks) != len(run.tables.Tables) {
		return fmt.Sprintf("text:%d-blocks-for-%d-tables", len(tblocks), len(run.tables.Tables))
	}
	for ti, tab := range run.tables.Tables {
		blk := tblocks[ti]
		last := -1
		for i, l := range blk {
			if strings.Contains(l, "│") {
				last = i
			}
		}
		if last < 0 {
			return fmt.Sprintf("text:table%d-no-header", ti)
		}
		var pos []int
		for i, r := range []rune(blk[last]) {
			if r == '│' {
				pos = append(pos, i)
			}
		}
		if len(pos) != len(tab.Cols)+1 {
			return fmt.Sprintf("text:table%d-%d-rules-for-%d-columns", ti, len(pos), len(tab.Cols))
		}
		if last+len(tab.Rows) >= len(blk) {
			return fmt.Sprintf("text:table%d-rows-missing", ti)
		}
		class := benchunit.ClassOf(tab.Unit)
		for ri, row := range tab.Rows {
			line := []rune(blk[last+1+ri])
			// the row's common scale is that of ALL its centres (C10's clause, observed end to end:
			// real benchunit.CommonScale/Format as the oracle for how a number prints)
			var centres []float64
			for _, col := range tab.Cols {
				if cell, ok := tab.Cells[benchtab.TableKey{Row: row, Col: col}]; ok {
					centres = append(centres, cell.Summary.Center)
				}
			}
			scaler := benchunit.CommonScale(centres, class)
			for exp, col := range tab.Cols {
				cell, ok := tab.Cells[benchtab.TableKey{Row: row, Col: col}]
				lo, hi := pos[exp]+1, pos[exp+1]
				if exp == len(tab.Cols)-1 && hi < len(line) {
					hi = len(line)
				}
				seg := ""
				if lo < len(line) {
					if hi > len(line) {
						hi = len(line)
					}
					seg = strings.TrimSpace(string(line[lo:hi]))
				}
				if ok != (seg != "") {
					return fmt.Sprintf("text:table%d-row%d-col%d-present=%v-text=%q", ti, ri, exp, ok, seg)
				}
				if ok {
					if want := scaler.Format(cell.Summary.Center); strings.Fields(seg)[0] != want {
						return fmt.Sprintf("text:table%d-row%d-col%d-prints-%q-want-%q-(row-scale-of-all-centres)", ti, ri, exp, strings.Fields(seg)[0], want)
					}
				}
			}
		}
	}
	return "ok"
}

// hdrCfgCheck: reconstructing each table's configuration from the incremental `key: value`
// header lines of the text and of the CSV output must give exactly the table key of its cells
// (every table field except .unit, an empty value included).
func hdrCfgCheck(run *Run, s *Stream) string {
	var csvHdr, textHdr [][]string
	var cur []string
	inHdr := true
	flush := func(dst *[][]string) {
		*dst = append(*dst, cur)
		cur, inHdr = nil, true
	}
	for _, r := range splitCSVLines(run.csv) {
		switch {
		case len(r) == 1 && r[0] == "":
			flush(&csvHdr)
		case inHdr && len(r) == 1:
			cur = append(cur, r[0])
		default:
			inHdr = false
		}
	}
	if len(run.csv) > 0 {
		flush(&csvHdr)
	}
	for _, l := range linesOf(run.text) {
		switch {
		case l == "":
			flush(&textHdr)
		case inHdr && !strings.Contains(l, "│"):
			cur = append(cur, l)
		default:
			inHdr = false
		}
	}
	if len(run.text) > 0 {
		flush(&textHdr)
	}
	for _, out := range []struct {
		name string
		hdr  [][]string
	}{{"csv", csvHdr}, {"text", textHdr}} {
		if len(out.hdr) != len(run.tables.Tables) {
			return fmt.Sprintf("%s:%d-header-blocks-for-%d-tables", out.name, len(out.hdr), len(run.tables.Tables))
		}
		state := map[string]string{}
		seen := map[string]bool{}
		for ti := range run.tables.Tables {
			for _, l := range out.hdr[ti] {
				i := strings.Index(l, ": ")
				if i < 0 {
					return fmt.Sprintf("%s:table%d-bad-header-line-%q", out.name, ti, l)
				}
				state[l[:i]], seen[l[:i]] = l[i+2:], true
			}
			for _, f := range s.TF {
				if f.Name == ".unit" {
					continue
				}
				want := run.tables.Keys[ti].Get(f)
				if !seen[f.Name] || state[f.Name] != want {
					return fmt.Sprintf("%s:table%d-%s-reads-%q-is-%q", out.name, ti, f.Name, state[f.Name], want)
				}
			}
		}
	}
	return "ok"
}

// labelsCheck: the .file value of the results of every input is what the documentation of
// benchfmt.Files promises for the argument list — label for label=path, path#N for an unlabelled
// path given more than once (N counts its occurrences from 0), the path otherwise ("-" for
// standard input). Computed here from the arguments alone; observed: the run-length compressed
// sequence of .file values of the filtered results must be a subsequence of it.
func labelsCheck(c *Case, run *Run) string {
	count := map[string]int{}
	for _, a := range c.Args {
		if !strings.Contains(a, "=") {
			count[a]++
		}
	}
	seen := map[string]int{}
	var want []string
	for _, a := range c.Args {
		switch {
		case strings.Contains(a, "="):
			want = append(want, a[:strings.Index(a, "=")])
		case count[a] > 1:
			want = append(want, fmt.Sprintf("%s#%d", a, seen[a]))
			seen[a]++
		default:
			want = append(want, a)
		}
	}
	var got []string
	for _, r := range run.raws {
		v := ""
		for _, cfg := range r.config {
			if cfg.Key == ".file" {
				v = string(cfg.Value)
			}
		}
		if len(got) == 0 || got[len(got)-1] != v {
			got = append(got, v)
		}
	}
	// without any filtering (no -filter, no fixed-order list) every input that contains result
	// lines must show up, in argument order: a record-less input before it must not end the run
	filtering := false
	for _, a := range c.Flags {
		if a == "-filter" || strings.Contains(a, "@(") {
			filtering = true
		}
	}
	if !filtering {
		content := map[string]string{}
		for _, f := range c.Files {
			content[f.Name] = f.Content
		}
		var must []string
		for k, a := range c.Args {
			path := a
			if i := strings.Index(a, "="); i >= 0 {
				path = a[i+1:]
			}
			if path == "-" {
				path = c.Stdin
			}
			has := false
			for _, l := range strings.Split(content[path], "\n") {
				// a line that certainly yields at least one measurement: name, iteration count, value, unit
				// (a benchmark line with an iteration count only is a result without measurements: it adds
				// nothing to any cell and need not show up)
				f := strings.Fields(l)
				if strings.HasPrefix(l, "Benchmark") && !strings.HasPrefix(l, "BenchmarkBroken") && len(f) >= 4 {
					if _, err := strconv.Atoi(f[1]); err == nil {
						if _, err := strconv.ParseFloat(f[2], 64); err == nil {
							has = true
						}
					}
				}
			}
			if has && (len(must) == 0 || must[len(must)-1] != want[k]) {
				must = append(must, want[k])
			}
		}
		if strings.Join(must, "\x00") != strings.Join(got, "\x00") {
			return fmt.Sprintf("results-labelled-%q-but-the-inputs-with-results-are-%q", got, must)
		}
	}
	i := 0
	for _, g := range got {
		for i < len(want) && want[i] != g {
			i++
		}
		if i == len(want) {
			return fmt.Sprintf("results-labelled-%q-but-the-inputs-are-%q", got, want)
		}
		i++
	}
	return "ok"
}
