//go:build verif

package main

import (
	"bytes"
	"fmt"
	"math"
	"os"
	"os/exec"
	"sort"
	"strings"

	"golang.org/x/perf/benchfmt"
	"golang.org/x/perf/benchproc"
	"golang.org/x/perf/benchunit"
	"golang.org/x/perf/internal/verifh/hx"
)

// ---------------------------------------------------------------- pools

var fileKeys = []string{"a", "b", "hit%", "c", "goos", "pkg", "é", "k-1", "µ", "a.b", "x/y", "a%d", "x%%y"}
var internalOnlyKeys = []string{".file", ".label", ".x"}

// groups of values of equal length (in-place edits stay in place)
var valueGroups = [][]string{
	{"1", "2", "3", "x", ":", "%"},
	{"v1", "v2", "v3", "xy", "é", "%d", "%s", "%v", "%%"},
	{"linux", "amd64", "arm64", "x y z", "a:b:c", "a%20b", "100%!", "%!d()"},
	{"/usr/local/go", "golang.org/x/", "Benchmark 1 2", "Unit ns/op a=", "100% coverage", "%[1]d %+v %x%"},
	{"x\ry", "a\tb", "v: ", "k:v"},
	{"a-rather-long-value-that-needs-a-new-buffer", "another-long-value-of-the-very-same-length!!"},
}
var crValues = []string{"x\r", "\r", "v \r"}
var badValues = []string{"", " lead", "\tlead", "x\ny", "\n"}
var badFileKeys = []string{"Key", "aB", "a b", "É", "1", "", "a:b", ".file", "a b", "a\nb"}
var badInternalKeys = []string{"Unit ns/op a=b", "a\nBenchmarkX 1 1 ns/op", "BenchmarkX 1 1 ns/op"}

var names = []string{"X", "Foo/a=1-8", "", "é", "\xff\xfe", "Unit", "X:", "a=b", "X\u200b", "Sub/x:y/z=1", "-",
	// names that themselves start with (something like) the line prefix: the writer adds exactly one
	// "Benchmark", the reader strips exactly one
	"BenchmarkDecode-8", "Benchmark", "BenchmarkBenchmark", "benchmark", "Bench", "BenchmarkSuite/sub=1-4", "Benchmarks"}
var badNames = []string{"X Y", "X ", "\tX", "X\n"}
var units = []string{"ns/op", "MB/s", "B/op", "allocs/op", "widgets", "x/ns", "ns/ns", "sec/op", "é/op", "MB", "ns", "x-ns/op", "B/s", "="}
var badUnits = []string{"", "a b", "x "}
var iterPool = []int{1, 1, 1, 100, 2000000000, 0, -3, math.MaxInt64, math.MinInt64, 12345}

var floatPool = []float64{
	0, math.Copysign(0, -1), math.Inf(1), math.Inf(-1), math.NaN(), math.Float64frombits(0x7ff8000000000123),
	math.Float64frombits(0xfff0000000000001), // signalling/negative NaN
	5e-324, 2.2250738585072014e-308, 2.225073858507201e-308, 0.1 + 0.2, 1.7976931348623157e308,
	1, 5, 100, 2000000000, 9007199254740993, 1e21, 1e20, 123456789012345678, 922337203685477580, 922337203685477581,
	9223372036854775807, 1e-5, 0.0001, 0.00001234, -1e300, -1.7976931348623157e308, -5, -0.5, 1.5, 3.14159, 123456.789,
	1e6, 1e7, 12345678, 0.30000000000000004, 4.9406564584124654e-324, 1e100, 1.0000000000000002,
}

func genFloat(r *hx.Rand) float64 {
	switch r.Intn(10) {
	case 0:
		return math.Float64frombits(r.U64()) // any bit pattern (NaNs with payload included)
	case 1:
		return float64(r.Intn(1000000))
	case 2:
		return r.Float() * 1000
	}
	return hx.Pick(r, floatPool)
}

// genValue builds a measurement the way the reader would (tidied), raw, or with arbitrary Orig fields.
func genValue(r *hx.Rand, c *caseB) benchfmt.Value {
	v, u := genFloat(r), hx.Pick(r, units)
	switch x := r.Intn(10); {
	case x < 5:
		tv, tu := benchunit.Tidy(v, u)
		if tu == u {
			return benchfmt.Value{Value: v, Unit: u}
		}
		c.tag("rescaled")
		return benchfmt.Value{Value: tv, Unit: tu, OrigValue: v, OrigUnit: u}
	case x < 8:
		return benchfmt.Value{Value: v, Unit: u}
	}
	c.tag("origfree")
	return benchfmt.Value{Value: genFloat(r), Unit: hx.Pick(r, units), OrigValue: v, OrigUnit: u}
}

func genValues(r *hx.Rand, c *caseB) []benchfmt.Value {
	n := 1 + r.Intn(4)
	vs := make([]benchfmt.Value, n)
	for i := range vs {
		vs[i] = genValue(r, c)
		f := vs[i].Value
		if vs[i].OrigUnit != "" {
			f = vs[i].OrigValue
		}
		switch {
		case math.IsNaN(f):
			c.tag("nan")
		case math.IsInf(f, 0):
			c.tag("inf")
		case f == 0:
			c.tag("zero")
		}
	}
	return vs
}

// ---------------------------------------------------------------- API histories

func setFile(res *benchfmt.Result, k, v string) {
	res.SetConfig(k, v)
	if i, ok := res.ConfigIndex(k); ok {
		res.Config[i].File = true
	}
}

// fresh builds a new literal Result (no index, fresh buffers) with the configuration of res.
func fresh(r *hx.Rand, res *benchfmt.Result, shuffle bool) *benchfmt.Result {
	out := &benchfmt.Result{Name: append(benchfmt.Name(nil), res.Name...), Iters: res.Iters,
		Values: append([]benchfmt.Value(nil), res.Values...)}
	for _, c := range res.Config {
		out.Config = append(out.Config, benchfmt.Config{Key: c.Key, Value: append([]byte(nil), c.Value...), File: c.File})
	}
	if shuffle {
		for i := len(out.Config) - 1; i > 0; i-- {
			j := r.Intn(i + 1)
			out.Config[i], out.Config[j] = out.Config[j], out.Config[i]
		}
	}
	return out
}

func sameLenOther(r *hx.Rand, cur string) (string, bool) {
	for _, g := range valueGroups {
		for _, v := range g {
			if v == cur {
				o := hx.Pick(r, g)
				return o, o != cur
			}
		}
	}
	return "", false
}

func pickValue(r *hx.Rand) string { return hx.Pick(r, hx.Pick(r, valueGroups)) }

// genAPI builds a history by editing one live Result and writing it, a clone or a fresh literal.
func genAPI(r *hx.Rand, nRecs int, mode int, nonWF bool) {
	run("api", func(c *caseB) {
		nk := 1 + r.Intn(6)
		var ks []string
		for len(ks) < nk {
			k := hx.Pick(r, fileKeys)
			if r.Chance(1, 6) {
				k = hx.Pick(r, internalOnlyKeys)
			}
			dup := false
			for _, x := range ks {
				dup = dup || x == k
			}
			if !dup {
				ks = append(ks, k)
			}
		}
		isDot := func(k string) bool { return strings.HasPrefix(k, ".") }
		live := &benchfmt.Result{}
		unitSeen := map[benchfmt.UnitMetadataKey]bool{}
		wasFile, wasInternal, deleted := map[string]bool{}, map[string]bool{}, map[string]bool{}
		// what the API contract says each key is: SetConfig => internal, setFile / File=true => file
		intentInternal := map[string]bool{}
		c.tag(fmt.Sprintf("mode%d", mode))
		twoWriters := !nonWF && r.Chance(1, 4)
		badAt := -1
		if nonWF {
			badAt = r.Intn(nRecs)
		}
		for rec := 0; rec < nRecs; rec++ {
			// 0-3 configuration edits
			for e := r.Intn(4); e > 0; e-- {
				k := hx.Pick(r, ks)
				idx, has := live.ConfigIndex(k)
				switch op := r.Intn(12); {
				case op == 0 && !isDot(k): // setFile
					if deleted[k] {
						c.tag("readd")
					}
					if has && !live.Config[idx].File {
						c.tag("flip-i2f")
					}
					setFile(live, k, pickValue(r))
					wasFile[k] = true
					intentInternal[k] = false
				case op == 1: // setInternal
					if has && live.Config[idx].File {
						c.tag("flip-f2i")
					}
					if deleted[k] {
						c.tag("readd")
					}
					live.SetConfig(k, pickValue(r))
					wasInternal[k] = true
					intentInternal[k] = true
				case op == 2 && has: // delete
					live.SetConfig(k, "")
					deleted[k] = true
					delete(intentInternal, k)
					c.tag("delete")
				case op == 3 && has && !isDot(k): // flip file <-> internal, value untouched
					live.Config[idx].File = !live.Config[idx].File
					intentInternal[k] = !live.Config[idx].File
					if live.Config[idx].File {
						c.tag("flip-i2f")
					} else {
						c.tag("flip-f2i")
					}
				case (op == 4 || op == 5) && has: // same-length change, bytes overwritten in place
					if o, ok := sameLenOther(r, string(live.Config[idx].Value)); ok {
						copy(live.Config[idx].Value, o)
						c.tag("inplace")
					}
				case op == 6 && has: // change through SetConfig-like append (any length), File kept
					live.Config[idx].Value = append(live.Config[idx].Value[:0], pickValue(r)...)
					c.tag("change")
				case (op == 9 || op == 10) && has:
					// SetConfig with the value the key ALREADY has: the key becomes (stays) internal
					if live.Config[idx].File {
						c.tag("setsame-file")
					} else {
						c.tag("setsame-int")
					}
					if deleted[k] {
						c.tag("setsame-readd")
					}
					live.SetConfig(k, string(live.Config[idx].Value))
					intentInternal[k] = true
				case op == 11 && has && live.Config[idx].File && !isDot(k):
					// a tool relabelling every record: SetConfig(k, same value) on a file key
					c.tag("setsame-file")
					live.SetConfig(k, live.GetConfig(k))
					intentInternal[k] = true
				case op == 7 && !has && !isDot(k):
					setFile(live, k, pickValue(r))
					intentInternal[k] = false
					if deleted[k] {
						c.tag("readd")
					}
				case op == 8 && has && live.Config[idx].File && r.Chance(1, 6): // N1 class
					live.Config[idx].Value = append(live.Config[idx].Value[:0], hx.Pick(r, crValues)...)
				}
			}
			live.Name = append(live.Name[:0], hx.Pick(r, names)...)
			live.Iters = hx.Pick(r, iterPool)
			live.Values = append(live.Values[:0], genValues(r, c)...)

			// occasionally unit metadata and syntax errors in between
			if r.Chance(1, 8) {
				u := hx.Pick(r, units)
				_, tu := benchunit.Tidy(1, u)
				key := benchfmt.UnitMetadataKey{Unit: tu, Key: hx.Pick(r, []string{"better", "assume", "k", "é"})}
				if !unitSeen[key] {
					unitSeen[key] = true
					c.tag("unitmeta")
					c.write(&benchfmt.UnitMetadata{UnitMetadataKey: key, OrigUnit: u,
						Value: hx.Pick(r, []string{"higher", "lower", "exact", "", "a=b", "é"})})
				}
			}
			if r.Chance(1, 20) {
				c.tag("syntaxerr")
				c.write(&benchfmt.SyntaxError{FileName: "f", Line: 3, Msg: "boom"})
			}

			target := live
			m := mode
			if mode == 3 {
				m = r.Intn(3)
			}
			switch m {
			case 1:
				target = fresh(r, live, r.Bool())
			case 2:
				target = live.Clone()
			}
			if rec == badAt {
				c.wf = false
				target = fresh(r, live, false)
				breakWF(r, c, target, unitSeen)
			}
			for k, in := range intentInternal {
				if in {
					c.intent = append(c.intent, k)
				}
			}
			sort.Strings(c.intent)
			// one run in four: a second Writer gets some of the records too, before or after
			if twoWriters && r.Chance(1, 3) {
				c.write2(target)
			}
			c.write(target)
			if twoWriters && r.Chance(1, 3) {
				c.write2(target)
			}
			// a record the caller built for this Write only is overwritten right after it
			if target != live {
				scribble(target)
				c.tag("scribble")
			}
		}
	})
}

// breakWF makes the record (or the history) violate one clause of Spec.RoundTrip.WFnoCR.
func breakWF(r *hx.Rand, c *caseB, t *benchfmt.Result, unitSeen map[benchfmt.UnitMetadataKey]bool) {
	switch r.Intn(9) {
	case 0: // duplicate key in a literal
		c.tag("bad-dupkey")
		t.Config = append(t.Config, benchfmt.Config{Key: "dup", Value: []byte("1"), File: true},
			benchfmt.Config{Key: "dup", Value: []byte("2"), File: r.Bool()})
	case 1:
		c.tag("bad-value")
		t.Config = append(t.Config, benchfmt.Config{Key: "bv", Value: []byte(hx.Pick(r, badValues)), File: true})
	case 2:
		c.tag("bad-filekey")
		t.Config = append(t.Config, benchfmt.Config{Key: hx.Pick(r, badFileKeys), Value: []byte("1"), File: true})
	case 3:
		c.tag("bad-name")
		t.Name = benchfmt.Name(hx.Pick(r, badNames))
	case 4:
		c.tag("bad-unit")
		t.Values = append(t.Values, benchfmt.Value{Value: 1, Unit: hx.Pick(r, badUnits)})
	case 5:
		c.tag("bad-novalues")
		t.Values = nil
	case 6: // the same unit metadata setting twice
		c.tag("bad-unitdup")
		k := benchfmt.UnitMetadataKey{Unit: "sec/op", Key: "twice"}
		c.write(&benchfmt.UnitMetadata{UnitMetadataKey: k, OrigUnit: "ns/op", Value: "1"})
		c.write(&benchfmt.UnitMetadata{UnitMetadataKey: k, OrigUnit: "ns/op", Value: hx.Pick(r, []string{"1", "2"})})
	case 7: // unit metadata whose fields are not fields, or whose tidied unit is not the tidied unit
		c.tag("bad-unitmeta")
		switch r.Intn(4) {
		case 0:
			c.write(&benchfmt.UnitMetadata{UnitMetadataKey: benchfmt.UnitMetadataKey{Unit: "sec/op", Key: "k=x"}, OrigUnit: "ns/op", Value: "1"})
		case 1:
			c.write(&benchfmt.UnitMetadata{UnitMetadataKey: benchfmt.UnitMetadataKey{Unit: "sec/op", Key: "kk"}, OrigUnit: "ns/op", Value: "a b"})
		case 2:
			c.write(&benchfmt.UnitMetadata{UnitMetadataKey: benchfmt.UnitMetadataKey{Unit: "ns/op", Key: "kk"}, OrigUnit: "ns/op", Value: "1"})
		case 3:
			c.write(&benchfmt.UnitMetadata{UnitMetadataKey: benchfmt.UnitMetadataKey{Unit: "", Key: ""}, OrigUnit: "", Value: "1"})
		}
	case 8:
		c.tag("bad-internalkey")
		t.Config = append(t.Config, benchfmt.Config{Key: hx.Pick(r, badInternalKeys), Value: []byte("1"), File: false})
	}
}

// apiCorpus: the witnesses of F1 and the aliasing shapes, always run first.
func apiCorpus() {
	val := []benchfmt.Value{{Value: 1, Unit: "ns/op"}}
	// F1: file -> internal with the value unchanged
	run("api", func(c *caseB) {
		c.tag("corpus")
		c.tag("flip-f2i")
		c.write(&benchfmt.Result{Config: []benchfmt.Config{{Key: "a", Value: []byte("1"), File: true}}, Name: benchfmt.Name("X"), Iters: 1, Values: val})
		c.write(&benchfmt.Result{Config: []benchfmt.Config{{Key: "a", Value: []byte("1"), File: false}}, Name: benchfmt.Name("X"), Iters: 1, Values: val})
		c.write(&benchfmt.Result{Config: []benchfmt.Config{{Key: "a", Value: []byte("1"), File: true}}, Name: benchfmt.Name("X"), Iters: 1, Values: val})
	})
	// v1 -> v2 -> v3, same length, edited in place in one object
	run("api", func(c *caseB) {
		c.tag("corpus")
		c.tag("inplace")
		res := &benchfmt.Result{Config: []benchfmt.Config{{Key: "a", Value: []byte("v1"), File: true}, {Key: "b", Value: []byte("w1"), File: true}},
			Name: benchfmt.Name("X"), Iters: 1, Values: val}
		c.write(res)
		copy(res.Config[0].Value, "v2")
		c.write(res)
		copy(res.Config[0].Value, "v3")
		c.write(res)
		copy(res.Config[1].Value, "w2")
		c.write(res)
		copy(res.Config[1].Value, "w3")
		copy(res.Config[0].Value, "v1")
		c.write(res)
	})
	// delete, re-add, delete the middle of three keys, config after results and unit metadata
	run("api", func(c *caseB) {
		c.tag("corpus")
		c.tag("delete")
		c.tag("readd")
		res := &benchfmt.Result{Name: benchfmt.Name("X"), Iters: 1, Values: val}
		setFile(res, "a", "1")
		setFile(res, "b", "2")
		setFile(res, "c", "3")
		res.SetConfig(".file", "f1")
		c.write(res)
		res.SetConfig("b", "")
		c.write(res)
		c.write(&benchfmt.UnitMetadata{UnitMetadataKey: benchfmt.UnitMetadataKey{Unit: "sec/op", Key: "better"}, OrigUnit: "ns/op", Value: "lower"})
		setFile(res, "b", "4")
		res.SetConfig(".file", "f2")
		c.write(res)
		res.SetConfig(".file", "")
		res.SetConfig("a", "")
		res.SetConfig("c", "")
		c.write(res)
		c.write(&benchfmt.Result{Name: benchfmt.Name("Y"), Iters: 1, Values: val})
	})
	// a tool overrides a FILE key with the value it already has: from then on the key is internal
	run("api", func(c *caseB) {
		c.tag("corpus")
		c.tag("setsame-file")
		res := &benchfmt.Result{Name: benchfmt.Name("X"), Iters: 1, Values: val}
		setFile(res, "branch", "main")
		setFile(res, "goos", "linux")
		c.write(res)
		res.SetConfig("branch", "main")
		c.intent = []string{"branch"}
		c.write(res)
		res.SetConfig("branch", "")
		setFile(res, "branch", "main")
		res.SetConfig("branch", "main")
		res.SetConfig("goos", "linux")
		c.intent = []string{"branch", "goos"}
		c.write(res)
	})
	// names that start with "Benchmark" themselves
	run("api", func(c *caseB) {
		c.tag("corpus")
		c.tag("prefixname")
		for _, n := range []string{"BenchmarkSuite/sub=1-4", "Benchmark", "BenchmarkBenchmark", "benchmark", "Bench", "BenchmarkDecode-8"} {
			c.write(&benchfmt.Result{Name: benchfmt.Name(n), Iters: 1, Values: val})
		}
	})
	// '%' in file-configuration values and keys (the writer must print them verbatim)
	run("api", func(c *caseB) {
		c.tag("corpus")
		c.tag("percent")
		res := &benchfmt.Result{Name: benchfmt.Name("X"), Iters: 1, Values: val}
		setFile(res, "cpu-load", "85%")
		setFile(res, "note", "100% coverage run")
		setFile(res, "hit%", "%v %20 %% %d %s")
		c.write(res)
		setFile(res, "note", "%")
		res.SetConfig("hit%", "")
		c.write(res)
	})
	// N1
	run("api", func(c *caseB) {
		c.tag("corpus")
		c.write(&benchfmt.Result{Config: []benchfmt.Config{{Key: "k", Value: []byte("v\r"), File: true}}, Name: benchfmt.Name("X"), Iters: 1, Values: val})
	})
	// special values, rescaled and not
	run("api", func(c *caseB) {
		c.tag("corpus")
		var vs []benchfmt.Value
		for _, f := range floatPool {
			tv, tu := benchunit.Tidy(f, "ns/op")
			vs = append(vs, benchfmt.Value{Value: tv, Unit: tu, OrigValue: f, OrigUnit: "ns/op"}, benchfmt.Value{Value: f, Unit: "widgets"})
		}
		c.write(&benchfmt.Result{Name: benchfmt.Name("Special"), Iters: 1, Values: vs})
	})
}

// fmtCorpus: values at the edges of the %v rules (powers of ten and their float neighbours,
// powers of two, the %e/%f thresholds), so that Spec.FmtFloat is compared with Go's fmt there.
func fmtCorpus() {
	var all []float64
	for k := -323; k <= 308; k += 3 {
		f := math.Pow(10, float64(k))
		all = append(all, f, math.Nextafter(f, 0), math.Nextafter(f, math.Inf(1)))
	}
	for k := -1074; k <= 1023; k += 13 {
		f := math.Ldexp(1, k)
		all = append(all, f, -math.Nextafter(f, 0), math.Nextafter(f, math.Inf(1)))
	}
	all = append(all, 99999.5, 999999.5, 999999.9999999999, 1000000, 0.0001, 0.00009999999999999999, 0.000099999999999999991,
		1e21, 1e22, 1e23, 8.41e21, 5e-324, 1e-323, 2.2250738585072014e-308, 9007199254740992, 9007199254740993, 0.5, 0.25, 1.0/3, 2.0/3,
		4.35, 0.285, 1.005, 1e15+0.5, 123456.7, 1234567.8, 12345678.9)
	for i := 0; i < len(all); i += 40 {
		j := i + 40
		if j > len(all) {
			j = len(all)
		}
		chunk := all[i:j]
		run("api", func(c *caseB) {
			c.tag("corpus")
			c.tag("fmtedge")
			var vs []benchfmt.Value
			for _, f := range chunk {
				vs = append(vs, benchfmt.Value{Value: f, Unit: "widgets"})
			}
			c.write(&benchfmt.Result{Name: benchfmt.Name("Fmt"), Iters: 1, Values: vs})
		})
	}
}

// ---------------------------------------------------------------- long lines

// line lengths (without LF) around the buffer sizes a scanner could have; bufio's default limit
// delivers a line iff it is at most 65535 bytes long
var longTargets = []int{1024, 3900, 4000, 4090, 4095, 4096, 4097, 4200, 8191, 8192, 8193, 16384, 32767, 32768, 50000, 60000, 65000, 65534, 65535}
var tooLongTargets = []int{65536, 65537, 70000}

func fill(n int, r *hx.Rand) []byte {
	alpha := []byte("abcdefghijklmnopqrstuvwxyz0123456789-_/.=:, ")
	b := make([]byte, n)
	for i := range b {
		b[i] = alpha[r.Intn(len(alpha))]
	}
	if n > 0 {
		b[0], b[n-1] = 'x', 'y' // no leading blank, no trailing CR
	}
	return b
}

// genLongAPI: results whose configuration block or benchmark line reaches a target length.
func genLongAPI(r *hx.Rand, target int, kind int, tag string) {
	run("api", func(c *caseB) {
		c.tag("longline")
		c.tag(tag)
		val := []benchfmt.Value{{Value: 1, Unit: "ns/op"}}
		before := &benchfmt.Result{Name: benchfmt.Name("Before"), Iters: 1, Values: val}
		setFile(before, "a", "1")
		c.write(before)
		res := before.Clone()
		res.Name = benchfmt.Name("Long")
		switch kind {
		case 0: // file-config value: line is `note: <value>`
			c.tag("longvalue")
			setFile(res, "note", string(fill(target-len("note: "), r)))
		case 1: // many measurements: `BenchmarkLong 1` + n × ` 1234567 widgets` (reprinted as 1.234567e+06)
			c.tag("manyvalues")
			res.Values = res.Values[:0]
			n := 0
			for l := len("BenchmarkLong 1"); l+len(" 1.234567e+06 widgets") <= target; l += len(" 1.234567e+06 widgets") {
				res.Values = append(res.Values, benchfmt.Value{Value: 1234567, Unit: "widgets"})
				n++
			}
			// top up with the name
			rest := target - len("BenchmarkLong 1") - n*len(" 1.234567e+06 widgets")
			res.Name = benchfmt.Name("Long" + strings.Repeat("g", rest))
		case 2: // long name (kept below 9000 bytes: the rest is a long internal value, which is not printed)
			c.tag("longname")
			nl := target
			if nl > 9000 {
				nl = 9000
			}
			res.Name = benchfmt.Name(strings.Repeat("N", nl-len("Benchmark 1 1 ns/op")))
			res.SetConfig(".internal", string(fill(target, r)))
		}
		c.write(res)
		// what follows a long line must survive too
		c.write(&benchfmt.UnitMetadata{UnitMetadataKey: benchfmt.UnitMetadataKey{Unit: "widgets", Key: "better"}, OrigUnit: "widgets", Value: "higher"})
		after := res.Clone()
		after.Name = benchfmt.Name("After")
		after.Values = val
		after.SetConfig("note", "")
		setFile(after, "b", "2")
		c.write(after)
	})
}

// genLongText: a text whose benchmark line GROWS when written (1234567 -> 1.234567e+06): the
// input line has length `in`, the written one about in*15/10.
func genLongText(in int, tag string) {
	var b strings.Builder
	b.WriteString("a: 1\nBenchmarkBefore 1 1 ns/op\nBenchmarkGrow 1")
	for l := len("BenchmarkGrow 1"); l+len(" 1234567 u") <= in; l += len(" 1234567 u") {
		b.WriteString(" 1234567 u")
	}
	b.WriteString("\nb: 2\nBenchmarkAfter 1 1 ns/op\n")
	runText([]byte(b.String()), "longline", "grows", tag)
}

func longCorpus(r *hx.Rand) {
	for _, t := range longTargets {
		genLongAPI(r, t, 0, "fits")
		genLongAPI(r, t, 1, "fits")
		if t <= 9000 {
			genLongAPI(r, t, 2, "fits")
		}
	}
	for _, t := range tooLongTargets {
		genLongAPI(r, t, 0, "over64k")
		genLongAPI(r, t, 1, "over64k")
	}
	// input < 4096, output > 4096; input < 8192 < output; input < 64 KiB, output beyond
	genLongText(2800, "fits")
	genLongText(4000, "fits")
	genLongText(6000, "fits")
	genLongText(40000, "fits")
	genLongText(45000, "over64k")
	genLongText(65000, "over64k")
}

// ---------------------------------------------------------------- texts through the real reader

var textValues = []string{"1", "x", "x y", "linux", "v:1", "é", "\xff", "Benchmark", ":", "x\ry", "a  ", "v1", "v2",
	"85%", "100% coverage run", "%v", "%20", "%%", "%", "%d %s", "50%%"}

func genLine(r *hx.Rand, ks []string) string {
	switch x := r.Intn(20); {
	case x < 6:
		k := hx.Pick(r, ks)
		switch r.Intn(8) {
		case 0:
			return k + ":"
		case 1:
			return k + ": "
		case 2:
			return k + ":\t " + hx.Pick(r, textValues)
		}
		return k + ": " + hx.Pick(r, textValues)
	case x < 15:
		var b strings.Builder
		b.WriteString("Benchmark" + hx.Pick(r, names) + hx.Pick(r, []string{" ", " ", "\t", "  ", " "}))
		b.WriteString(hx.Pick(r, []string{"1", "1", "100", "2000000000", "0", "-3", "x", ""}))
		for n := r.Intn(4); n > 0; n-- {
			b.WriteString(" " + hx.Pick(r, []string{"1", "0", "-0", "5", "100", "1.5", "1e3", "-1e-3", "+Inf", "-Inf", "NaN", "inf", "0x1p-2", "1_000", "x",
				"9223372036854775807", "123456789012345678", "0.30000000000000004", "5e-324", "1e21", "1e-5", "00012", "1.50", "+5"}))
			b.WriteString(" " + hx.Pick(r, units))
		}
		return b.String()
	case x < 17:
		return "Unit " + hx.Pick(r, units) + " " + hx.Pick(r, []string{"better=higher", "better=lower", "assume=exact", "k=", "k=v=w", "é=é", "novalue", "a=1 b=2"})
	}
	return hx.Pick(r, []string{"", "PASS", "ok  \tgolang.org/x/perf\t0.1s", "Key: v", "key :v", "BenchmarkFoo", "goos linux", "--- FAIL: x"})
}

func genText(r *hx.Rand, nLines int, crChance int) []byte {
	ks := fileKeys[:2+r.Intn(5)]
	var b strings.Builder
	for i := 0; i < nLines; i++ {
		b.WriteString(genLine(r, ks))
		switch {
		case crChance > 0 && r.Chance(1, crChance):
			b.WriteString("\r\r\n")
		case r.Chance(1, 10):
			b.WriteString("\r\n")
		default:
			b.WriteString("\n")
		}
	}
	return []byte(b.String())
}

func textTags(c *caseB, text []byte) {
	if bytes.Contains(text, []byte(":\n")) || bytes.Contains(text, []byte(": \n")) {
		c.tag("delete")
	}
	if bytes.Contains(text, []byte("Unit ")) {
		c.tag("unitmeta")
	}
	if bytes.Contains(text, []byte("NaN")) {
		c.tag("nan")
	}
	if bytes.Contains(text, []byte("Inf")) {
		c.tag("inf")
	}
	c.tag("text")
}

// runRelabel: results streamed from the real reader and relabelled by a tool before they are
// written (no clone): SetConfig(k, v) with the value the input already gives k, SetConfig of
// a fixed label on every record, SetConfig of a different value.
func runRelabel(r *hx.Rand, text []byte) {
	run("text", func(c *caseB) {
		textTags(c, text)
		c.tag("relabel")
		rd := benchfmt.NewReader(bytes.NewReader(text), "in")
		for rd.Scan() {
			rec := rd.Result()
			if res, ok := rec.(*benchfmt.Result); ok {
				mode := r.Intn(3)
				for _, cf := range append([]benchfmt.Config(nil), res.Config...) {
					if !r.Chance(1, 2) {
						continue
					}
					switch mode {
					case 0, 1:
						res.SetConfig(cf.Key, string(cf.Value)) // same value
						c.tag("setsame-file")
					case 2:
						res.SetConfig(cf.Key, "relabelled")
					}
					c.intent = append(c.intent, cf.Key)
				}
				if r.Chance(1, 2) {
					res.SetConfig("a", "1") // the corpus texts say `a: 1`
					res.SetConfig("branch", "main")
					c.intent = append(c.intent, "a", "branch")
				}
			}
			c.write(rec)
		}
	})
}

// runText: parse with the real reader, write every record as delivered (no clone: the
// reader's Result and buffers are reused between Write calls).
func runText(text []byte, extra ...string) {
	run("text", func(c *caseB) {
		textTags(c, text)
		for _, e := range extra {
			c.tag(e)
		}
		rd := benchfmt.NewReader(bytes.NewReader(text), "in")
		for rd.Scan() {
			c.write(rd.Result())
		}
	})
}

var textCorpus = []string{
	"",
	"a: 1\nBenchmarkX 1 1 ns/op\n",
	"a: 1\nb: 2\nBenchmarkX 1 1 ns/op\na:\nBenchmarkX 1 1 ns/op\nc: 3\nBenchmarkX 1 1 ns/op\nb:\nb: 4\nBenchmarkX 1 1 ns/op\n",
	"k: v\r\r\nBenchmarkX 1 5 ns/op\n",
	"k: \r\r\nBenchmarkX 1 5 ns/op\n",
	"BenchmarkA 1 0 ns/op 5 ns/op -0 MB/s +Inf ns/op NaN B/op -Inf x/ns\n",
	"Benchmark 1 1 ns/op\n",
	"Unit ns/op better=lower\nUnit ns/op better=lower assume=exact\nUnit sec/op better=higher\nBenchmarkX 1 1 ns/op\n",
	"a: 1\nBenchmarkX 1 1 ns/op\nBenchmarkX 1\nBenchmarkY x 1 ns/op\na: 2\nBenchmarkX 1 1 ns/op\n",
	"a:  \t x  \nBenchmarkX\t1\t1\tns/op\v2\fMB/s\r\n",
	"cpu-load: 85%\nnote: 100% coverage run\nhit%: %v %20 %%\nBenchmarkX 1 1 ns/op\nhit%:\nnote: %d\nBenchmarkX 1 1 ns/op\n",
	"BenchmarkBenchmarkDecode-8 200 7 ns/op\nBenchmarkBenchmark 1 1 ns/op\nBenchmarkBenchmarkBenchmark 1 1 ns/op\nBenchmarkbenchmark 1 1 ns/op\nBenchmarkBench 1 1 ns/op\n",
}

// ---------------------------------------------------------------- the benchfilter path

// runFilter replays cmd/benchfilter/main.go: Files → Filter.Apply → Writer.
func runFilter(query string, names []string, contents [][]byte, paths []string, stdin []byte) {
	run("filter", func(c *caseB) {
		c.tag("filter")
		for i, n := range names {
			if err := os.WriteFile(n, contents[i], 0o644); err != nil {
				panic(err)
			}
			textTags(c, contents[i])
		}
		if len(paths) > 1 {
			c.tag("multifile")
		}
		filter, err := benchproc.NewFilter(query)
		if err != nil {
			panic(err)
		}
		// standard input: a file of the case directory, for this process and for the binary
		if err := os.WriteFile(".stdin", stdin, 0o644); err != nil {
			panic(err)
		}
		in, err := os.Open(".stdin")
		if err != nil {
			panic(err)
		}
		defer in.Close()
		oldIn := os.Stdin
		os.Stdin = in
		defer func() { os.Stdin = oldIn }()
		usesStdin := len(paths) == 0
		for _, p := range paths {
			if p == "-" || strings.HasSuffix(p, "=-") {
				usesStdin = true
			}
		}
		if usesStdin {
			c.tag("stdin")
			textTags(c, stdin)
		}
		files := benchfmt.Files{Paths: paths, AllowStdin: true, AllowLabels: true}
		for files.Scan() {
			rec := files.Result()
			switch rec := rec.(type) {
			case *benchfmt.SyntaxError:
				continue
			case *benchfmt.Result:
				if ok, _ := filter.Apply(rec); !ok {
					continue
				}
			}
			c.write(rec)
		}
		if err := files.Err(); err != nil {
			panic(err)
		}
		// the same run through the BUILT cmd/benchfilter binary: its stdout must be these bytes
		if bin := os.Getenv("VERIF_BENCHFILTER"); bin != "" {
			c.tag("binary")
			cmd := exec.Command(bin, append([]string{"--", query}, paths...)...) // "--": a query may start with '-'
			cmd.Stderr = nil
			in2, err := os.Open(".stdin")
			if err != nil {
				panic(err)
			}
			defer in2.Close()
			cmd.Stdin = in2
			out, err := cmd.Output()
			if err != nil || !bytes.Equal(out, c.buf.Bytes()) {
				c.binDiff = true
			}
		}
	})
}

var queries = []string{"*", "*", ".unit:ns/op", ".unit:(ns/op OR B/op)", "-.name:X", "a:1 OR b:v2", "-.unit:MB/s", ".file:fa"}

func genFilter(r *hx.Rand) {
	nf := 1 + r.Intn(3)
	fnames := []string{"fa", "fb", "fc"}[:nf]
	var contents [][]byte
	for range fnames {
		t := genText(r, 2+r.Intn(10), 0)
		if r.Chance(1, 6) {
			// long enough to make the scanner shift its buffer while results are written
			t = bytes.Repeat(t, 4096/(len(t)+1)+2)
		}
		contents = append(contents, t)
	}
	var paths []string
	for n := 1 + r.Intn(4); n > 0; n-- {
		p := hx.Pick(r, fnames)
		if r.Chance(1, 4) {
			p = hx.Pick(r, []string{"l", "m"}) + "=" + p
		}
		paths = append(paths, p)
	}
	stdin := genText(r, 2+r.Intn(8), 0)
	switch r.Intn(6) {
	case 0: // no inputs: benchfilter reads standard input
		paths = nil
	case 1: // "-" among the files (read once)
		paths = append(paths, "-")
	case 2:
		paths = append([]string{"in=-"}, paths...)
	}
	runFilter(hx.Pick(r, queries), fnames, contents, paths, stdin)
}

// ---------------------------------------------------------------- all

func generate() {
	r := hx.NewRand(1)
	apiCorpus()
	fmtCorpus()
	longCorpus(r)
	for _, t := range textCorpus {
		runText([]byte(t), "corpus")
	}
	t1 := []byte("k1: v1\nUnit ns/op better=lower\nBenchmarkOne 1 1 ns/op 3 B/op\nk1: v2\nBenchmarkOne 1 2 ns/op\n")
	t2 := []byte("k2: v2\nBenchmarkTwo 1 2 ns/op\n")
	runFilter("*", []string{"fa", "fb"}, [][]byte{t1, t2}, []string{"fa", "fb", "fa"}, nil)
	runFilter("*", []string{"fa", "fb"}, [][]byte{t1, t2}, nil, t1)
	runFilter("*", []string{"fa", "fb"}, [][]byte{t1, t2}, []string{"fb", "-", "fa"}, t1)
	runFilter(".unit:B/op", []string{"fa", "fb"}, [][]byte{t1, t2}, []string{"x=fa", "fb"}, nil)

	n := hx.N(5000, 60000)
	for i := 0; i < n; i++ {
		nRecs := 1 + r.Intn(8)
		if i%10 == 0 {
			nRecs = 1 + r.Intn(40)
		}
		genAPI(r, nRecs, i%4, i%16 == 15)
	}
	n = hx.N(2000, 25000)
	for i := 0; i < n; i++ {
		cr := 0
		if i%25 == 24 {
			cr = 6
		}
		text := genText(r, 1+r.Intn(16), cr)
		if i%40 == 39 {
			text = bytes.Repeat(text, 5000/(len(text)+1)+2)
			runText(text, "bufshift")
		} else {
			runText(text)
		}
	}
	n = hx.N(800, 12000)
	for i := 0; i < n; i++ {
		genFilter(r)
	}
	// relabelled streams
	runRelabel(r, []byte("branch: main\na: 1\nBenchmarkX 1 1 ns/op\nBenchmarkY 1 2 ns/op\nbranch: dev\nBenchmarkX 1 3 ns/op\n"))
	n = hx.N(400, 8000)
	for i := 0; i < n; i++ {
		runRelabel(r, genText(r, 2+r.Intn(14), 0))
	}
}
