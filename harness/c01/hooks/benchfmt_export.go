//go:build verif

package benchfmt

import (
	"encoding/hex"

	"golang.org/x/perf/benchfmt/internal/bytesconv"
)

// verifErrKind maps a number-parsing error to the C01/C02 protocol: "s" syntax, "r" range,
// "o<hex of message>" anything else (the default arm of the reader's type switches).
func verifErrKind(err error) string {
	if ne, ok := err.(*bytesconv.NumError); ok {
		switch ne.Err {
		case bytesconv.ErrSyntax:
			return "s"
		case bytesconv.ErrRange:
			return "r"
		}
		// The reader prints "…: " + ne.Err.Error() for any *NumError; only the two
		// kinds above exist for base-10 Atoi and ParseFloat.
		return "o" + hex.EncodeToString([]byte(ne.Err.Error()))
	}
	return "o" + hex.EncodeToString([]byte(err.Error()))
}

// VerifAtoi exposes the integer parser the reader uses for the iteration count.
func VerifAtoi(x []byte) (int, string) {
	v, err := bytesconv.Atoi(x)
	if err != nil {
		return 0, verifErrKind(err)
	}
	return v, ""
}

// VerifAtof exposes the reader's atof.
func VerifAtof(x []byte) (float64, string) {
	v, err := atof(x)
	if err != nil {
		return 0, verifErrKind(err)
	}
	return v, ""
}
