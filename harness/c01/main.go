//go:build verif

// C01 harness: benchmark records survive a write/read round trip.
//
// A case is a *history*: the sequence of records handed to benchfmt.Writer.Write, each
// serialised at the moment of the call (the objects may be edited in place afterwards, or be
// the reader's reused Result). Histories come from API edits, from texts parsed by the real
// reader (written without cloning) and from the benchfilter pipeline (Files → Filter.Apply →
// Writer). The export hook is used solely to fill the number oracle tables of the C02 reader
// model (numbers are the subject of C03).
package main

import (
	"bufio"
	"bytes"
	"fmt"
	"math"
	"os"
	"os/exec"
	"path/filepath"
	"sort"
	"strings"
	"time"
	"unicode"
	"unicode/utf8"

	"golang.org/x/perf/benchfmt"
	"golang.org/x/perf/benchunit"
	"golang.org/x/perf/internal/verifh/hx"
)

// ---------------------------------------------------------------- oracle tables (as in c02)

type tables struct {
	nums, tidy, uni, fmtv map[string]string
}

func newTables() *tables {
	return &tables{map[string]string{}, map[string]string{}, map[string]string{}, map[string]string{}}
}

func (t *tables) addTidy(v float64, unit string) {
	k := hx.F64(v) + ":" + hx.HexS(unit)
	if _, ok := t.tidy[k]; ok {
		return
	}
	tv, tu := benchunit.Tidy(v, unit)
	t.tidy[k] = hx.F64(tv) + ":" + hx.HexS(tu)
}

func (t *tables) addRunes(text []byte) {
	for i := 0; i < len(text); i++ {
		if text[i] >= utf8.RuneSelf {
			r, _ := utf8.DecodeRune(text[i:])
			if r >= utf8.RuneSelf {
				k := fmt.Sprintf("%x", r)
				if _, ok := t.uni[k]; !ok {
					fl := 0
					if unicode.IsSpace(r) {
						fl |= 1
					}
					if unicode.IsUpper(r) {
						fl |= 2
					}
					if unicode.IsLower(r) {
						fl |= 4
					}
					t.uni[k] = fmt.Sprint(fl)
				}
			}
		}
	}
}

// add records the answers for every field the reader could look at in text.
func (t *tables) add(text []byte) {
	for _, line := range bytes.Split(text, []byte("\n")) {
		if bytes.HasPrefix(line, []byte("Benchmark")) {
			fs := bytes.FieldsFunc(line[len("Benchmark"):], unicode.IsSpace)
			for i, f := range fs {
				k := hx.Hex(f)
				var fv float64
				var ferr string
				if _, ok := t.nums[k]; !ok {
					iv, ierr := benchfmt.VerifAtoi(f)
					is := ierr
					if ierr == "" {
						is = fmt.Sprintf("i%d", iv)
					}
					fv, ferr = benchfmt.VerifAtof(f)
					fstr := ferr
					if ferr == "" {
						fstr = "f" + hx.F64(fv)
					}
					t.nums[k] = is + ":" + fstr
				} else {
					fv, ferr = benchfmt.VerifAtof(f)
				}
				if ferr == "" && i+1 < len(fs) {
					t.addTidy(fv, string(fs[i+1]))
				}
			}
		} else if len(line) > 0 && line[0] == 'U' {
			fs := bytes.FieldsFunc(line, unicode.IsSpace)
			if len(fs) >= 2 {
				t.addTidy(1, string(fs[1]))
			}
		}
	}
	t.addRunes(text)
}

func tbl(m map[string]string) string {
	if len(m) == 0 {
		return "-"
	}
	ks := make([]string, 0, len(m))
	for k := range m {
		ks = append(ks, k)
	}
	sort.Strings(ks)
	var b strings.Builder
	for i, k := range ks {
		if i > 0 {
			b.WriteByte(',')
		}
		b.WriteString(k)
		b.WriteByte(':')
		b.WriteString(m[k])
	}
	return b.String()
}

// ---------------------------------------------------------------- observation (spec vocabulary)

func normBits(f float64) string {
	if math.IsNaN(f) {
		return "7ff8000000000001"
	}
	return hx.F64(f)
}

func joinOr(sep string, l []string) string {
	if len(l) == 0 {
		return "-"
	}
	return strings.Join(l, sep)
}

// observe renders one record as the Lean `Spec.RoundTrip.showObs` does; "" for a syntax error
// when skipErr is set (errors are not written).
func observe(rec benchfmt.Record) string {
	switch rec := rec.(type) {
	case *benchfmt.Result:
		var vs, ms []string
		for _, v := range rec.Values {
			if v.OrigUnit == "" {
				vs = append(vs, normBits(v.Value)+"."+hx.HexS(v.Unit))
			} else {
				vs = append(vs, normBits(v.OrigValue)+"."+hx.HexS(v.OrigUnit))
			}
		}
		for _, c := range rec.Config {
			if c.File {
				ms = append(ms, hx.HexS(c.Key)+"."+hx.Hex(c.Value))
			}
		}
		sort.Strings(ms)
		return fmt.Sprintf("R/%s/%d/%s/%s", hx.Hex(rec.Name), rec.Iters, joinOr("+", vs), joinOr("+", ms))
	case *benchfmt.UnitMetadata:
		return fmt.Sprintf("U/%s/%s/%s/%s", hx.HexS(rec.OrigUnit), hx.HexS(rec.Key), hx.HexS(rec.Value), hx.HexS(rec.Unit))
	case *benchfmt.SyntaxError:
		return "E/" + hx.HexS(rec.Msg)
	}
	return fmt.Sprintf("X/%T", rec)
}

// serialise renders a record for the h= field of the case line.
func serialise(rec benchfmt.Record) string {
	switch rec := rec.(type) {
	case *benchfmt.Result:
		var vs, cs []string
		for _, v := range rec.Values {
			vs = append(vs, hx.F64(v.Value)+":"+hx.HexS(v.Unit)+":"+hx.F64(v.OrigValue)+":"+hx.HexS(v.OrigUnit))
		}
		for _, c := range rec.Config {
			fl := "I"
			if c.File {
				fl = "F"
			}
			cs = append(cs, hx.HexS(c.Key)+":"+hx.Hex(c.Value)+":"+fl)
		}
		return fmt.Sprintf("R;%s;%d;%s;%s", hx.Hex(rec.Name), rec.Iters, joinOr(",", vs), joinOr(",", cs))
	case *benchfmt.UnitMetadata:
		return fmt.Sprintf("U;%s;%s;%s;%s", hx.HexS(rec.Unit), hx.HexS(rec.Key), hx.HexS(rec.OrigUnit), hx.HexS(rec.Value))
	case *benchfmt.SyntaxError:
		return "E"
	}
	panic(fmt.Sprintf("unknown record %T", rec))
}

// ---------------------------------------------------------------- the model writer, served by the Lean driver

type modelWriter struct {
	cmd *exec.Cmd
	in  *bufio.Writer
	out *bufio.Reader
	bad string
}

var mw *modelWriter

func startModelWriter() {
	mw = &modelWriter{}
	root := os.Getenv("VERIF_ROOT")
	if root == "" {
		root = "/verif"
	}
	bin := filepath.Join(root, "lean", ".lake", "build", "bin", "driver_c01")
	cmd := exec.Command(bin, "serve")
	stdin, err1 := cmd.StdinPipe()
	stdout, err2 := cmd.StdoutPipe()
	cmd.Stderr = os.Stderr
	if err1 != nil || err2 != nil {
		mw.bad = "nopipe"
		return
	}
	if err := cmd.Start(); err != nil {
		mw.bad = "nodriver"
		return
	}
	mw.cmd = cmd
	mw.in = bufio.NewWriterSize(stdin, 1<<20)
	mw.out = bufio.NewReaderSize(stdout, 1<<20)
}

// modelBytes asks the Lean model writer for its output on history h.
func (m *modelWriter) modelBytes(id int, h, fmtTbl string) ([]byte, string) {
	if m.bad != "" {
		return nil, m.bad
	}
	fmt.Fprintf(m.in, "wreq %d h=%s fmt=%s\n", id, h, fmtTbl)
	if err := m.in.Flush(); err != nil {
		m.bad = "driver-write-failed"
		return nil, m.bad
	}
	line, err := m.out.ReadString('\n')
	if err != nil {
		m.bad = "driver-read-failed"
		return nil, m.bad
	}
	f := strings.Fields(line)
	if len(f) < 2 || f[0] != "wbytes" || f[1] != fmt.Sprint(id) {
		return nil, "driver-protocol"
	}
	if len(f) == 2 {
		return nil, ""
	}
	if f[2] == "BAD-HISTORY" {
		return nil, "bad-history"
	}
	return hx.UnHex(f[2]), ""
}

// ---------------------------------------------------------------- a case

type snap struct {
	obs      string   // observe() at write time ("" for syntax errors)
	internal []string // internal keys of a result at write time
	isResult bool
}

type caseB struct {
	kind    string
	wf      bool
	tags    map[string]bool
	hs      []string
	snaps   []snap
	fmtv    map[string]string
	strs    [][]byte // every string of h (for the unicode table)
	buf     bytes.Buffer
	w       *benchfmt.Writer
	mutated bool
	cr      bool
	// intent: keys the tool assigned through Result.SetConfig since they were last made file
	// configuration — internal by the API contract, whatever the File flag of the object says;
	// consumed by the next write
	intent []string
	// a second, independent Writer fed with a subset of the same (live) records
	w2      *benchfmt.Writer
	buf2    bytes.Buffer
	want2   []string
	binDiff bool // stdout of the built benchfilter binary differs from the in-process replay
}

func newCase(kind string) *caseB {
	c := &caseB{kind: kind, wf: true, tags: map[string]bool{}, fmtv: map[string]string{}}
	c.w = benchfmt.NewWriter(&c.buf)
	return c
}

func (c *caseB) tag(t string) { c.tags[t] = true }

// write snapshots rec, hands it to the real writer and checks the writer left it alone.
func (c *caseB) write(rec benchfmt.Record) {
	ser := serialise(rec)
	c.hs = append(c.hs, ser)
	s := snap{}
	switch rec := rec.(type) {
	case *benchfmt.Result:
		s.obs = observe(rec)
		s.isResult = true
		c.strs = append(c.strs, append([]byte(nil), rec.Name...))
		for _, k := range c.intent {
			if _, ok := rec.ConfigIndex(k); ok {
				s.internal = append(s.internal, k)
			}
		}
		c.intent = nil
		for _, cf := range rec.Config {
			if !cf.File {
				dup := false
				for _, k := range s.internal {
					dup = dup || k == cf.Key
				}
				if !dup {
					s.internal = append(s.internal, cf.Key)
				}
			} else if bytes.HasSuffix(cf.Value, []byte("\r")) {
				c.cr = true
			}
			c.strs = append(c.strs, []byte(cf.Key), append([]byte(nil), cf.Value...))
		}
		for _, v := range rec.Values {
			f, u := v.Value, v.Unit
			if v.OrigUnit != "" {
				f, u = v.OrigValue, v.OrigUnit
			}
			c.fmtv[hx.F64(f)] = hx.HexS(fmt.Sprintf("%v", f))
			c.strs = append(c.strs, []byte(u))
		}
	case *benchfmt.UnitMetadata:
		s.obs = observe(rec)
		c.strs = append(c.strs, []byte(rec.OrigUnit), []byte(rec.Key), []byte(rec.Value))
	}
	c.snaps = append(c.snaps, s)
	if err := c.w.Write(rec); err != nil {
		panic("Writer.Write: " + err.Error())
	}
	if serialise(rec) != ser {
		c.mutated = true
	}
}

// write2 hands rec to the second writer as well (its own stream, its own running model).
func (c *caseB) write2(rec benchfmt.Record) {
	if c.w2 == nil {
		c.w2 = benchfmt.NewWriter(&c.buf2)
		c.tag("twowriters")
	}
	ser := serialise(rec)
	if _, isErr := rec.(*benchfmt.SyntaxError); !isErr {
		c.want2 = append(c.want2, observe(rec))
	}
	if err := c.w2.Write(rec); err != nil {
		panic("Writer.Write: " + err.Error())
	}
	if serialise(rec) != ser {
		c.mutated = true
	}
}

// scribble overwrites every buffer of a record the caller owns (after Write returned the writer
// must not depend on them): configuration values, name, measurements.
func scribble(res *benchfmt.Result) {
	for i := range res.Config {
		for j := range res.Config[i].Value {
			res.Config[i].Value[j] = 'Z'
		}
		res.Config[i].File = !res.Config[i].File
	}
	for j := range res.Name {
		res.Name[j] = 'Q'
	}
	for i := range res.Values {
		res.Values[i] = benchfmt.Value{Value: -1, Unit: "scribbled"}
	}
	res.Iters = -77
}

// reusedReader is ONE Reader for the whole process, Reset onto every case's output: whatever an
// earlier input left behind (configuration, queue, Result buffers) must not show.
var reusedReader = new(benchfmt.Reader)

func rereadReused(data []byte) []string {
	reusedReader.Reset(bytes.NewReader(data), "rt")
	var stream []string
	for reusedReader.Scan() {
		o := observe(reusedReader.Result())
		// unit metadata deliberately survives Reset (C02 units_carry): a setting made by an earlier
		// case is silent or a conflict error here — only results are compared
		if strings.HasPrefix(o, "R/") {
			stream = append(stream, o)
		}
	}
	if reusedReader.Err() != nil {
		stream = append(stream, "IOERR")
	}
	return stream
}

// implRead parses data with the real reader: the observation stream and, per record, the keys
// that came back as file configuration.
func implRead(data []byte) (stream []string, fileKeys []map[string]bool) {
	r := benchfmt.NewReader(bytes.NewReader(data), "rt")
	for r.Scan() {
		rec := r.Result()
		stream = append(stream, observe(rec))
		fk := map[string]bool{}
		if res, ok := rec.(*benchfmt.Result); ok {
			for _, cf := range res.Config {
				if cf.File {
					fk[cf.Key] = true
				}
			}
		}
		fileKeys = append(fileKeys, fk)
	}
	if err := r.Err(); err != nil {
		stream = append(stream, "IOERR")
	}
	return
}

var nextID int
var shard, nshards = 0, 1

// finish prints the case, obs and sobs lines.
func (c *caseB) finish(id int, out *strings.Builder) {
	impl := append([]byte(nil), c.buf.Bytes()...)
	t := newTables()
	t.add(impl)
	for _, s := range c.strs {
		t.addRunes(s)
	}
	// unit metadata of h: the reader's tidy of the unit as written
	h := joinOr("|", c.hs)
	fmtTbl := tbl(c.fmtv)
	b2i := func(b bool) int {
		if b {
			return 1
		}
		return 0
	}
	if c.cr {
		c.tag("crvalue")
	}
	// a written line of 64 KiB or more: beyond the reader's (bufio.Scanner) limit, class N1L
	long := false
	for _, l := range bytes.Split(impl, []byte("\n")) {
		if len(l) >= 65536 {
			long = true
		}
	}
	if long {
		c.tag("line64k")
	}
	if !c.wf {
		c.tag("nonwf")
	}
	fmt.Fprintf(out, "case %d kind=%s wf=%d cr=%d long=%d h=%s fmt=%s wbytes=%s nums=%s tidy=%s uni=%s tag=%s\n",
		id, c.kind, b2i(c.wf), b2i(c.cr), b2i(long), h, fmtTbl, hx.Hex(impl), tbl(t.nums), tbl(t.tidy), tbl(t.uni), tagStr(c.tags))
	fmt.Fprintf(out, "obs %d fmt=%s\n", id, fmtTbl)
	fmt.Fprintf(out, "obs %d bytes=%s\n", id, hx.Hex(impl))

	var want []string
	for _, s := range c.snaps {
		if s.obs != "" {
			want = append(want, s.obs)
		}
	}
	if c.wf && !c.cr && !long {
		fmt.Fprintf(out, "obs %d ir=%s\n", id, joinOr(",", want))
		mb, bad := mw.modelBytes(id, h, fmtTbl)
		if bad != "" {
			fmt.Fprintf(out, "obs %d mr=!%s\n", id, bad)
		} else {
			st, _ := implRead(mb)
			fmt.Fprintf(out, "obs %d mr=%s\n", id, joinOr(",", st))
		}
	} else {
		fmt.Fprintf(out, "obs %d ir=skip\n", id)
		fmt.Fprintf(out, "obs %d mr=skip\n", id)
	}
	if c.wf {
		st, fks := implRead(impl)
		// internal keys that reappear as file configuration, record by record
		var leak []string
		j := 0
		for _, s := range c.snaps {
			if s.obs == "" {
				continue
			}
			if j < len(fks) && s.isResult {
				for _, k := range s.internal {
					if fks[j][k] {
						leak = append(leak, fmt.Sprintf("%d.%s", j, hx.HexS(k)))
					}
				}
			}
			j++
		}
		extra := ""
		if c.mutated {
			extra = " writer-mutated-record"
		}
		if c.binDiff {
			extra += " benchfilter-binary-differs"
		}
		// the same bytes through a Reader that has read all earlier cases and was Reset
		var noU []string
		for _, o := range st {
			if strings.HasPrefix(o, "R/") || o == "IOERR" {
				noU = append(noU, o)
			}
		}
		if strings.Join(rereadReused(impl), ",") != strings.Join(noU, ",") {
			extra += " reused-reader-differs"
		}
		// the second writer's stream must read back as what IT was given
		if c.w2 != nil && !c.cr && !long {
			st2, _ := implRead(c.buf2.Bytes())
			if strings.Join(st2, ",") != strings.Join(c.want2, ",") {
				extra += " second-writer-differs"
			}
		}
		fmt.Fprintf(out, "sobs %d rt=%s leak=%s%s\n", id, joinOr(",", st), joinOr(",", leak), extra)
	}
}

func tagStr(tags map[string]bool) string {
	if len(tags) == 0 {
		return "trivial"
	}
	var l []string
	for t := range tags {
		l = append(l, t)
	}
	sort.Strings(l)
	return strings.Join(l, "+")
}

// run builds one case with f (which calls c.write …) under panic recovery and a wall limit.
func run(kind string, f func(c *caseB)) {
	id := nextID
	nextID++
	if id%nshards != shard {
		return
	}
	done := make(chan string, 1)
	var out strings.Builder
	c := newCase(kind)
	go func() {
		defer func() {
			if r := recover(); r != nil {
				done <- fmt.Sprintf("panic: %v", r)
			}
		}()
		f(c)
		c.finish(id, &out)
		done <- ""
	}()
	select {
	case msg := <-done:
		if msg != "" {
			hx.Printf("case %d kind=%s wf=1 cr=0 h=%s tag=crash\n", id, kind, joinOr("|", c.hs))
			hx.Printf("crash %d %s\n", id, strings.ReplaceAll(msg, "\n", " "))
			return
		}
		hx.Printf("%s", out.String())
	case <-time.After(30 * time.Second):
		hx.Printf("case %d kind=%s wf=1 cr=0 h=- tag=crash\n", id, kind)
		hx.Printf("crash %d timeout: write/read did not terminate within 30s\n", id)
	}
}

func main() {
	defer hx.Flush()
	fmt.Sscan(os.Getenv("VERIF_SHARD"), &shard)
	fmt.Sscan(os.Getenv("VERIF_NSHARDS"), &nshards)
	if nshards < 1 {
		nshards = 1
	}
	// a private directory for the files of the benchfilter path (relative names => stable .file labels)
	dir := filepath.Join(os.TempDir(), fmt.Sprintf("c01fs-%d-%d", os.Getpid(), shard))
	if err := os.MkdirAll(dir, 0o755); err == nil {
		if os.Chdir(dir) == nil {
			defer os.RemoveAll(dir)
		}
	}
	startModelWriter()
	generate()
	if mw.cmd != nil {
		mw.in.Flush()
		mw.cmd.Process.Kill()
	}
}
