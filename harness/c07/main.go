//go:build verif

// C07 harness: any string expressible in expression syntax; bad expressions fail cleanly.
//
// crash <id> timeout: …  a parse did not return within the per-case limits (see guarded)
// case <id> kind=expr  text=<hex> reok=<hexlist> rebad=<hexlist> sp=<runes> tag=…
// case <id> kind=quote s=<hex> pr=<runes> tag=quote
// case <id> kind=unq   text=<hex> tag=unquote
package main

import (
	"errors"
	"fmt"
	"os"
	"regexp"
	"runtime"
	"sort"
	"strconv"
	"strings"
	"syscall"
	"time"
	"unicode"
	"unicode/utf8"

	"golang.org/x/perf/benchfmt"
	"golang.org/x/perf/benchproc"
	"golang.org/x/perf/benchproc/internal/parse"
	"golang.org/x/perf/internal/verifh/hx"
)

var alphabet = []byte{'"', '\\', '(', ')', ':', '@', ',', '-', '*', '/', '[', ']', ' ', '\t', '\v', '\f', 'A', 'N', 'D', 'O', 'R', 'a', 0x80, 0xC3, 0xA9}

// ---------------------------------------------------------------- canonical observables

func msgTag(s string) string {
	switch {
	case strings.Contains(s, "missing end quote"):
		return "endquote"
	case strings.Contains(s, "bad escape sequence"):
		return "escape"
	case strings.Contains(s, `missing close "/"`):
		return "closeslash"
	case strings.Contains(s, "regexp must be followed by"):
		return "refollow"
	case strings.Contains(s, "error parsing regexp"):
		return "recompile"
	case strings.Contains(s, "unexpected "):
		return "unexpected"
	case strings.Contains(s, `missing ")"`):
		return "paren"
	case strings.Contains(s, "expected key:value or subexpression"):
		return "kvorsub"
	case strings.Contains(s, "expected key:value"):
		return "kv"
	case strings.Contains(s, "expected value"):
		return "value"
	case strings.Contains(s, "value list must be separated by OR"):
		return "listsep"
	case strings.Contains(s, "nothing to match"):
		return "nothing"
	case strings.Contains(s, "missing )"):
		return "parenproj"
	case strings.Contains(s, "expected named sort order"):
		return "order"
	case strings.Contains(s, ".config is only allowed in projections"):
		return "config"
	case strings.Contains(s, "key must not be empty"):
		return "emptykey"
	case strings.Contains(s, "unknown order"):
		return "unknownorder"
	case strings.Contains(s, "fixed order not allowed for .config"):
		return "fixedconfig"
	case strings.Contains(s, ".unit is only allowed in filters"):
		return "unit"
	case strings.Contains(s, "expected key"):
		return "key"
	}
	return "other:" + hx.HexS(s)
}

func errObs(err error) string {
	var se *parse.SyntaxError
	if errors.As(err, &se) {
		// msgTag looks at the message only: a regexp error text may contain anything
		m := se.Msg
		return fmt.Sprintf("err:%d:%s", se.Off, msgTag(m))
	}
	return "err:?:" + hx.HexS(err.Error())
}

func dumpFilter(f parse.Filter, b *strings.Builder) {
	switch f := f.(type) {
	case *parse.FilterOp:
		switch f.Op {
		case parse.OpAnd:
			b.WriteString("A(")
		case parse.OpOr:
			b.WriteString("O(")
		case parse.OpNot:
			b.WriteString("N(")
		default:
			b.WriteString("?(")
		}
		for i, e := range f.Exprs {
			if i > 0 {
				b.WriteByte(',')
			}
			dumpFilter(e, b)
		}
		b.WriteByte(')')
	case *parse.FilterMatch:
		if f.Regexp != nil {
			fmt.Fprintf(b, "R%s:%s@%d", hx.HexS(f.Key), hx.HexS(f.Regexp.String()), f.Off)
		} else {
			fmt.Fprintf(b, "L%s:%s@%d", hx.HexS(f.Key), hx.HexS(f.Lit), f.Off)
		}
	default:
		b.WriteString("nil")
	}
}

func dumpFields(fs []parse.Field) string {
	if len(fs) == 0 {
		return "-"
	}
	var parts []string
	for _, f := range fs {
		parts = append(parts, fmt.Sprintf("K%s/O%s/F%s/%d/%d", hx.HexS(f.Key), hx.HexS(f.Order),
			strings.ReplaceAll(hx.HexListS(f.Fixed), ",", "+"), f.KeyOff, f.OrderOff))
	}
	return strings.Join(parts, ";")
}

type outcome struct {
	pf, nf, pp, np string
	nfErr, npErr   error
}

func runExpr(text string) outcome {
	var o outcome
	if f, err := parse.ParseFilter(text); err != nil {
		o.pf = errObs(err)
	} else {
		var b strings.Builder
		dumpFilter(f, &b)
		o.pf = "ok:" + b.String()
	}
	if _, err := benchproc.NewFilter(text); err != nil {
		o.nf, o.nfErr = errObs(err), err
	} else {
		o.nf = "ok"
	}
	if fs, err := parse.ParseProjection(text); err != nil {
		o.pp = errObs(err)
	} else {
		o.pp = "ok:" + dumpFields(fs)
	}
	star, _ := benchproc.NewFilter("*")
	var parser benchproc.ProjectionParser
	if _, err := parser.Parse(text, star); err != nil {
		o.np, o.npErr = errObs(err), err
	} else {
		o.np = "ok"
	}
	return o
}

// sOutcome renders an error in the vocabulary of the property: ok, or err with its offset.
func sOutcome(err error) string {
	if err == nil {
		return "ok"
	}
	var se *parse.SyntaxError
	if errors.As(err, &se) {
		// also render the message: Error() must not panic either
		_ = se.Error()
		return fmt.Sprintf("err:%d", se.Off)
	}
	return "err:nooffset"
}

// ---------------------------------------------------------------- oracles

func oracle(text string) (reok, rebad []string, sp string) {
	var slashes []int
	for i := 0; i < len(text); i++ {
		if text[i] == '/' {
			slashes = append(slashes, i)
		}
	}
	seen := map[string]bool{}
	pairs := 0
	for a := 0; a < len(slashes) && pairs < 600; a++ {
		for b := a + 1; b < len(slashes) && pairs < 600; b++ {
			e := text[slashes[a]+1 : slashes[b]]
			pairs++
			if seen[e] {
				continue
			}
			seen[e] = true
			if _, err := regexp.Compile(e); err == nil {
				reok = append(reok, e)
			} else {
				rebad = append(rebad, e)
			}
		}
	}
	spm := map[rune]bool{}
	for i := 0; i < len(text); i++ {
		if text[i] < 0x80 {
			continue
		}
		if r := rune(text[i]); unicode.IsSpace(r) {
			spm[r] = true
		}
		if r, _ := utf8.DecodeRuneInString(text[i:]); r >= 0x80 && unicode.IsSpace(r) {
			spm[r] = true
		}
	}
	sp = runeList(spm)
	return
}

// uspaces lists the white-space runes >= 0x80 among the runes of s decoded as UTF-8 (what the
// property means by "contains a space"); unlike oracle's sp it does not read bytes as Latin-1.
func uspaces(s string) string {
	m := map[rune]bool{}
	for _, r := range s {
		if r >= 0x80 && unicode.IsSpace(r) {
			m[r] = true
		}
	}
	return runeList(m)
}

// bareUnits: characters whose UTF-8 encoding contains the bytes 0x85 / 0xA0 (the Latin-1 spaces
// NEL and NBSP when a byte is misread as a rune), raw such bytes, and ordinary word characters.
var bareUnits = []string{"à", "Р", "х", "ą", "慠", "\x85", "\xa0", "é", "Ā", "…", "a", "b", "z", "0", "/", "_", ".", "=", "-", "*", "x",
	// runes whose LOW BYTE (r & 0xFF) is an operator or start character — ( ) , : @ and space " * - —
	// from the 2-, 3- and 4-byte ranges: they are ordinary word characters unless a code point is
	// truncated to a byte somewhere
	"\u0128", "\u0129", "\u012c", "\u013a", "\u0140", "\u0120", "\u0122", "\u012a", "\u012d",
	"\u7528", "\u5728", "\u4e3a", "\u6237", "\u4e2c", "\u4e40", "\u4e20", "\u4e22", "\u4e2a", "\u4e2d", "\u4e29",
	"\U0001f528", "\U0001f529", "\U0001f52c", "\U0001f53a", "\U0001f540", "\U0001f520", "\U0001f522", "\U0001f52a", "\U0001f52d"}

// uniSeps: what separates words: ASCII blanks and genuine Unicode spaces.
var uniSeps = []string{" ", "\t", "\u0085", "\u00a0", "\u2003", "\u3000", "\u2003 ", " \u00a0", "\n\u3000"}

func unitWord(r *hx.Rand, n int) string {
	var b strings.Builder
	for i := 0; i < n; i++ {
		b.WriteString(hx.Pick(r, bareUnits))
	}
	return b.String()
}

func runeList(m map[rune]bool) string {
	if len(m) == 0 {
		return "-"
	}
	var rs []int
	for r := range m {
		rs = append(rs, int(r))
	}
	sort.Ints(rs)
	var parts []string
	for _, r := range rs {
		parts = append(parts, strconv.FormatInt(int64(r), 16))
	}
	return strings.Join(parts, ",")
}

// ---------------------------------------------------------------- cases

var (
	id      int
	shard   int
	nshards = 1
)

func mine() bool {
	id++
	return (id-1)%nshards == shard && id-1 >= resume
}

// Per-case limits: a parse that neither returns nor fails is a violation of the property
// ("never a panic or a hang").  The case body runs in its own goroutine and writes its lines into
// a private buffer; the main goroutine waits until the process has burnt caseLimit of CPU time on the
// case (wall-clock time alone would misfire on a loaded machine; wallLimit is only a cap) and also gives up
// when the heap runs away (a hanging parse typically allocates without bound).  A stuck goroutine
// cannot be killed, so after printing the crash line the harness re-executes itself and resumes at
// the next case id (generation is deterministic, earlier ids are skipped without running).
const (
	caseLimit   = 2 * time.Second  // CPU time the process may burn on one case (a hanging parse spins)
	wallLimit   = 45 * time.Second // wall-clock cap, generous: a loaded machine must not look like a hang
	heapLimit   = 1536 << 20       // bytes
	maxTimeouts = 20               // re-executions per shard; then the shard stops
)

// cpuTime is the user+system CPU time consumed by this process so far.
func cpuTime() time.Duration {
	var ru syscall.Rusage
	if err := syscall.Getrusage(syscall.RUSAGE_SELF, &ru); err != nil {
		return 0
	}
	return time.Duration(ru.Utime.Nano() + ru.Stime.Nano())
}

var resume int // first case id to run (VERIF_C07_RESUME)

func guarded(cid int, f func(w *strings.Builder)) {
	done := make(chan [2]string, 1)
	go func() {
		var w strings.Builder
		defer func() {
			if r := recover(); r != nil {
				done <- [2]string{"", fmt.Sprintf("panic:%s", hx.HexS(fmt.Sprint(r)))}
				return
			}
			done <- [2]string{w.String(), ""}
		}()
		f(&w)
	}()
	start := time.Now()
	cpu0 := cpuTime()
	tick := time.NewTicker(20 * time.Millisecond)
	defer tick.Stop()
	why := ""
wait:
	for {
		select {
		case out := <-done:
			if out[1] != "" {
				hx.Printf("crash %d %s\n", cid, out[1])
			} else {
				hx.Out.WriteString(out[0])
			}
			return
		case <-tick.C:
			if used := cpuTime() - cpu0; used >= caseLimit {
				why = fmt.Sprintf("timeout: no result after %s of CPU time (hang)", caseLimit)
				break wait
			}
			if time.Since(start) >= wallLimit {
				why = fmt.Sprintf("timeout: no result within %s of wall-clock time (hang)", wallLimit)
				break wait
			}
			var ms runtime.MemStats
			runtime.ReadMemStats(&ms)
			if ms.HeapAlloc > heapLimit {
				why = fmt.Sprintf("timeout: heap grew beyond %d MiB after %s without a result (runaway allocation, hang)", heapLimit>>20, time.Since(start).Round(time.Millisecond))
				break wait
			}
		}
	}
	hx.Printf("crash %d %s\n", cid, why)
	hx.Flush()
	nt, _ := strconv.Atoi(os.Getenv("VERIF_C07_TIMEOUTS"))
	nt++
	if nt >= maxTimeouts {
		fmt.Fprintf(os.Stderr, "c07: %d cases hung in this shard; stopping the shard at case %d\n", nt, cid)
		os.Exit(0)
	}
	os.Setenv("VERIF_C07_TIMEOUTS", strconv.Itoa(nt))
	os.Setenv("VERIF_C07_RESUME", strconv.Itoa(cid+1))
	exe, err := os.Executable()
	if err == nil {
		err = syscall.Exec(exe, os.Args, os.Environ())
	}
	fmt.Fprintf(os.Stderr, "c07: cannot re-execute after a hang: %v\n", err)
	os.Exit(0)
}

func exprCase(text string, tag string) {
	if !mine() {
		return
	}
	cid := id - 1
	reok, rebad, sp := oracle(text)
	hx.Printf("case %d kind=expr text=%s reok=%s rebad=%s sp=%s tag=%s\n", cid, hx.HexS(text),
		hx.HexListS(reok), hx.HexListS(rebad), sp, tag)
	guarded(cid, func(out *strings.Builder) {
		o := runExpr(text)
		fmt.Fprintf(out, "obs %d pf=%s nf=%s pp=%s np=%s\n", cid, o.pf, o.nf, o.pp, o.np)
		fmt.Fprintf(out, "sobs %d n=%d f=%s p=%s\n", cid, len(text), sOutcome(o.nfErr), sOutcome(o.npErr))
	})
}

func mkRes(name string, cfg ...string) *benchfmt.Result {
	r := &benchfmt.Result{Name: benchfmt.Name(name), Values: []benchfmt.Value{{Value: 1, Unit: "ns/op"}}}
	for i := 0; i+1 < len(cfg); i += 2 {
		r.SetConfig(cfg[i], cfg[i+1])
	}
	return r
}

func matchAll(f *benchproc.Filter, r *benchfmt.Result) string {
	m, _ := f.Match(r)
	if m.All() {
		return "1"
	}
	return "0"
}

// usableKey: s can be the name of a file configuration key (the spec has the same rule).
func usableKey(s string) bool {
	return len(s) > 0 && s[0] != '.' && s[0] != '/'
}

// differ returns a string different from s (spec: any other string must not match).
func differ(s string, r *hx.Rand) string {
	switch r.Intn(4) {
	case 0:
		return s + "x"
	case 1:
		if len(s) > 0 {
			return s[:len(s)-1]
		}
		return "\\"
	case 2:
		if len(s) > 0 {
			b := []byte(s)
			b[r.Intn(len(b))] ^= 1 << uint(r.Intn(8))
			return string(b)
		}
		return "\""
	}
	return s + "\\"
}

// quoteCase: the property itself on the implementation: for every byte string s the
// expression k:Quote(s) parses and denotes exactly s (as value, as key, as projection key,
// as member of a fixed list).
func quoteCase(s string, r *hx.Rand) {
	q := strconv.Quote(s)
	other := differ(s, r)
	if mine() {
		cid := id - 1
		prm := map[rune]bool{}
		for _, c := range s {
			if strconv.IsPrint(c) {
				prm[c] = true
			}
		}
		hx.Printf("case %d kind=quote s=%s other=%s pr=%s tag=quote\n", cid, hx.HexS(s), hx.HexS(other), runeList(prm))
		guarded(cid, func(out *strings.Builder) {
			u, uerr := strconv.Unquote(q)
			uq := "err"
			if uerr == nil {
				uq = "ok:" + hx.HexS(u)
			}
			fmt.Fprintf(out, "obs %d gq=%s uq=%s\n", cid, hx.HexS(q), uq)
			// value position
			val := "err"
			if f, err := benchproc.NewFilter("k:" + q); err == nil {
				val = "ok:" + matchAll(f, mkRes("X", "k", s)) + matchAll(f, mkRes("X", "k", other))
			}
			// .fullname (no detour through configuration)
			full := "err"
			if f, err := benchproc.NewFilter(".fullname:" + q); err == nil {
				full = "ok:" + matchAll(f, mkRes(s)) + matchAll(f, mkRes(other))
			}
			// key position
			key, pk, fx := "skip", "skip", "err"
			if usableKey(s) {
				key = "err"
				if f, err := benchproc.NewFilter(q + ":v"); err == nil {
					key = "ok:" + matchAll(f, mkRes("X", s, "v")) + matchAll(f, mkRes("X", s, "w"))
					if usableKey(other) {
						key += matchAll(f, mkRes("X", other, "v"))
					} else {
						key += "0"
					}
				}
				pk = "err"
				var pp benchproc.ProjectionParser
				if p, err := pp.Parse(q, nil); err == nil && len(p.Fields()) == 1 {
					fld := p.Fields()[0]
					k := p.Project(mkRes("X", s, "v"))
					pk = "ok:" + hx.HexS(fld.Name) + ":" + hx.HexS(k.Get(fld))
				}
			}
			// fixed list member
			star, _ := benchproc.NewFilter("*")
			var pp benchproc.ProjectionParser
			if _, err := pp.Parse("k@("+q+")", star); err == nil {
				fx = "ok:" + matchAll(star, mkRes("X", "k", s)) + matchAll(star, mkRes("X", "k", other))
			}
			fmt.Fprintf(out, "sobs %d val=%s full=%s key=%s pk=%s fx=%s\n", cid, val, full, key, pk, fx)
		})
	}
	exprCase("k:"+q, "quoted")
	exprCase(q+":v", "quoted")
	exprCase(q+"@alpha "+q, "quoted")
	exprCase("k@("+q+" "+q+")", "quoted")
	exprCase("k:("+q+" OR "+q+")", "quoted")
}

// bareCase: an unquoted word without special characters denotes itself.
func bareCase(w string) {
	if mine() {
		cid := id - 1
		_, _, sp := oracle(w)
		hx.Printf("case %d kind=bare w=%s sp=%s usp=%s tag=bare\n", cid, hx.HexS(w), sp, uspaces(w))
		guarded(cid, func(out *strings.Builder) {
			val, key, pk := "err", "skip", "skip"
			if f, err := benchproc.NewFilter("k:" + w); err == nil {
				val = "ok:" + matchAll(f, mkRes("X", "k", w)) + matchAll(f, mkRes("X", "k", w+"x"))
			}
			if usableKey(w) {
				key = "err"
				if f, err := benchproc.NewFilter(w + ":v"); err == nil {
					key = "ok:" + matchAll(f, mkRes("X", w, "v")) + matchAll(f, mkRes("X", w, "w"))
				}
				pk = "err"
				var pp benchproc.ProjectionParser
				if p, err := pp.Parse(w, nil); err == nil && len(p.Fields()) == 1 {
					fld := p.Fields()[0]
					pk = "ok:" + hx.HexS(fld.Name) + ":" + hx.HexS(p.Project(mkRes("X", w, "v")).Get(fld))
				}
			}
			fmt.Fprintf(out, "sobs %d val=%s key=%s pk=%s\n", cid, val, key, pk)
		})
	}
	exprCase("k:"+w, "bare")
	exprCase(w+":v "+w, "bare")
}

// ---- denotation probe: one key, the same word spelled as bare / quoted literal / regexp in ONE
// expression.  A literal — however spelled, even one that looks like /regexp/ — must match exactly
// its own text; a regexp must match what Go's regexp package says.  The spec side gets the term
// structure and the regexp oracle on the case line and evaluates the boolean combination itself.

type dterm struct {
	neg  bool
	form byte // 'L' literal (bare if possible), 'Q' quoted literal, 'R' regexp /word/
	word string
}

func bareOK(w string) bool {
	if w == "" || w == "AND" || w == "OR" || strings.ContainsAny(w, " \t\n\v\f\r():@,\"") {
		return false
	}
	return w[0] != '-' && w[0] != '*' && w[0] != '/'
}

func (t dterm) render() string {
	switch t.form {
	case 'R':
		return "/" + t.word + "/"
	case 'L':
		if bareOK(t.word) {
			return t.word
		}
	}
	return strconv.Quote(t.word)
}

var denoteProbes = []string{"/^v$/", "/./", "/v/", "/a|b/", "v", "^v$", ".", "a|b", "a", "x", "vv", "", "/", "//", "a/b", "[/]", "a]", "]"}

func denoteCase(conn string, terms []dterm) {
	var parts, tdesc, rms []string
	for _, t := range terms {
		neg := ""
		if t.neg {
			neg = "-"
		}
		if conn == "list" {
			parts = append(parts, t.render())
		} else {
			parts = append(parts, neg+"k:"+t.render())
		}
		n := "-"
		if t.neg {
			n = "n"
		}
		tdesc = append(tdesc, n+string(t.form)+hx.HexS(t.word))
		bits := make([]byte, len(denoteProbes))
		for i, p := range denoteProbes {
			bits[i] = '0'
			if t.form == 'R' {
				if ok, _ := regexp.MatchString(t.word, p); ok {
					bits[i] = '1'
				}
			}
		}
		rms = append(rms, string(bits))
	}
	var text string
	switch conn {
	case "list":
		text = "k:(" + strings.Join(parts, " OR ") + ")"
	case "and":
		text = strings.Join(parts, " ")
	default:
		text = strings.Join(parts, " OR ")
	}
	if mine() {
		cid := id - 1
		hx.Printf("case %d kind=denote text=%s conn=%s terms=%s probes=%s rm=%s tag=denote\n", cid, hx.HexS(text), conn,
			strings.Join(tdesc, ","), hx.HexListS(denoteProbes), strings.Join(rms, ","))
		guarded(cid, func(out *strings.Builder) {
			f, err := benchproc.NewFilter(text)
			if err != nil {
				fmt.Fprintf(out, "sobs %d den=err\n", cid)
				return
			}
			bits := make([]byte, len(denoteProbes))
			for i, p := range denoteProbes {
				bits[i] = '0'
				if matchAll(f, mkRes("X", "k", p)) == "1" {
					bits[i] = '1'
				}
			}
			fmt.Fprintf(out, "sobs %d den=ok:%s\n", cid, bits)
		})
	}
	exprCase(text, "denote")
}

var denoteWords = []string{"v", "^v$", ".", "a|b", "/^v$/", "/./", "/v/", "/a|b/", "vv", "x"}

// regexps whose first byte matters to the delimiter scan (bracket, group, escape) or that are empty
var denoteRegexps = []string{"[/]", "(a/b)", "\\/", "", "[/]v", "(/)|x", "[^/]", "\\/\\/", "a]", "]", "a]b|x", "]]"}

func genDenote(r *hx.Rand) {
	n := 2 + r.Intn(2)
	conn := hx.Pick(r, []string{"or", "and", "list", "or"})
	var terms []dterm
	base := hx.Pick(r, []string{"v", "^v$", ".", "a|b"})
	for i := 0; i < n; i++ {
		var t dterm
		switch r.Intn(6) {
		case 5: // a regexp with '/' inside brackets / a group / escaped, or the empty regexp
			t = dterm{form: 'R', word: hx.Pick(r, denoteRegexps)}
		case 0: // the regexp
			t = dterm{form: 'R', word: base}
		case 1: // the quoted literal that looks like it
			t = dterm{form: 'Q', word: "/" + base + "/"}
		case 2: // the same word as a literal
			t = dterm{form: hx.Pick(r, []byte{'L', 'Q'}), word: base}
		default:
			t = dterm{form: hx.Pick(r, []byte{'L', 'Q', 'R'}), word: hx.Pick(r, denoteWords)}
			if t.form == 'R' && strings.Contains(t.word, "/") {
				t.form = 'Q'
			}
		}
		if conn != "list" && r.Chance(1, 4) {
			t.neg = true
		}
		terms = append(terms, t)
	}
	denoteCase(conn, terms)
}

// fixedCase: bare words in a fixed value list (and as its key); '/' is not special in projections.
func fixedCase(key string, vals []string) {
	text := key + "@(" + strings.Join(vals, " ") + ")"
	other := strings.Join(vals, "") + "~"
	if mine() {
		cid := id - 1
		_, _, sp := oracle(text)
		hx.Printf("case %d kind=fixed key=%s vals=%s other=%s sp=%s usp=%s tag=fixed\n", cid, hx.HexS(key), hx.HexListS(vals), hx.HexS(other), sp, uspaces(text))
		guarded(cid, func(out *strings.Builder) {
			star, _ := benchproc.NewFilter("*")
			var pp benchproc.ProjectionParser
			p, err := pp.Parse(text, star)
			if err != nil || len(p.Fields()) != 1 {
				fmt.Fprintf(out, "sobs %d fx=err\n", cid)
				return
			}
			bits := ""
			for _, v := range vals {
				bits += matchAll(star, mkRes("X", key, v))
			}
			got := p.Project(mkRes("X", key, vals[0])).Get(p.Fields()[0])
			fmt.Fprintf(out, "sobs %d fx=ok:%s:%s:%s\n", cid, bits, matchAll(star, mkRes("X", key, other)), hx.HexS(got))
		})
	}
	exprCase(text, "fixed")
}

var fixedAlphabet = []byte("ab0/._-*=/\xc3\xa9/")

func genFixed(r *hx.Rand) {
	word := func(lead bool) string {
		l := 1 + r.Intn(5)
		b := make([]byte, l)
		for j := range b {
			if r.Chance(1, 15) {
				b[j] = hx.Pick(r, alphabet)
			} else {
				b[j] = hx.Pick(r, fixedAlphabet)
			}
		}
		if lead && r.Chance(1, 2) {
			b[0] = '/'
		}
		return string(b)
	}
	key := hx.Pick(r, []string{"a", "dir", "a/b", "k.x", "goos", "à", "kР", "х慠"})
	if r.Chance(1, 3) {
		key = "k" + word(false)
	}
	n := 1 + r.Intn(3)
	var vals []string
	for i := 0; i < n; i++ {
		if r.Chance(1, 2) {
			vals = append(vals, unitWord(r, 1+r.Intn(3)))
		} else {
			vals = append(vals, word(true))
		}
	}
	fixedCase(key, vals)
}

// sepCase: two bare words separated by white space (ASCII or a genuine Unicode space rune) are
// two words: two filter terms, two projection fields, two members of a fixed list.
func sepCase(w1, w2, sep string) {
	ftext := "a:" + w1 + sep + "b:" + w2
	ptext := w1 + sep + w2
	xtext := "k@(" + w1 + sep + w2 + ")"
	if mine() {
		cid := id - 1
		hx.Printf("case %d kind=sep w1=%s w2=%s sep=%s usp=%s tag=sep\n", cid, hx.HexS(w1), hx.HexS(w2), hx.HexS(sep), uspaces(w1+w2))
		guarded(cid, func(out *strings.Builder) {
			f, p, fx := "err", "err", "err"
			if flt, err := benchproc.NewFilter(ftext); err == nil {
				f = "ok:" + matchAll(flt, mkRes("X", "a", w1, "b", w2)) + matchAll(flt, mkRes("X", "a", w1))
			}
			var pp benchproc.ProjectionParser
			if pr, err := pp.Parse(ptext, nil); err == nil {
				var names []string
				for _, fld := range pr.Fields() {
					names = append(names, fld.Name)
				}
				p = "ok:" + hx.HexListS(names)
			}
			star, _ := benchproc.NewFilter("*")
			var pp2 benchproc.ProjectionParser
			if _, err := pp2.Parse(xtext, star); err == nil {
				fx = "ok:" + matchAll(star, mkRes("X", "k", w1)) + matchAll(star, mkRes("X", "k", w2)) + matchAll(star, mkRes("X", "k", w1+sep+w2))
			}
			fmt.Fprintf(out, "sobs %d f=%s p=%s fx=%s\n", cid, f, p, fx)
		})
	}
	exprCase(ftext, "sep")
	exprCase(ptext, "sep")
	exprCase(xtext, "sep")
}

// fieldsCase: projections given by structure — each field is key, key@order (bare or quoted) or
// key@(list) — so that the spec knows, without parsing, which ones name an order that does not exist.
// Targets state leaking from one field into the next (an `@fixed` after a fixed-list field).
type pfield struct {
	key   string
	kind  byte // 'N' no order, 'O' named order, 'F' fixed list
	order string
	quote bool
	list  []string
}

func fieldsCase(fs []pfield, seps []string) {
	var parts, desc []string
	for _, f := range fs {
		p := f.key
		switch f.kind {
		case 'O':
			o := f.order
			if f.quote || o == "" {
				o = strconv.Quote(o)
			}
			p += "@" + o
			desc = append(desc, "K"+hx.HexS(f.key)+":O"+hx.HexS(f.order))
		case 'F':
			p += "@(" + strings.Join(f.list, " ") + ")"
			desc = append(desc, "K"+hx.HexS(f.key)+":F"+strconv.Itoa(len(f.list)))
		default:
			desc = append(desc, "K"+hx.HexS(f.key)+":N")
		}
		parts = append(parts, p)
	}
	text := ""
	for i, p := range parts {
		if i > 0 {
			text += seps[(i-1)%len(seps)]
		}
		text += p
	}
	if mine() {
		cid := id - 1
		hx.Printf("case %d kind=fields text=%s fields=%s tag=fields\n", cid, hx.HexS(text), strings.Join(desc, ","))
		guarded(cid, func(out *strings.Builder) {
			star, _ := benchproc.NewFilter("*")
			var pp benchproc.ProjectionParser
			_, err := pp.Parse(text, star)
			fmt.Fprintf(out, "sobs %d n=%d p=%s\n", cid, len(text), sOutcome(err))
		})
	}
	exprCase(text, "fields")
}

var fieldKeys = []string{"a", "b", "goos", "goarch", "pkg", ".name", ".fullname", "/size", "k1"}
var fieldOrders = []string{"alpha", "num", "first", "fixed", "fixed", "bogus", "", "Fixed", "alph", "fixed ", "nums"}

func genFields(r *hx.Rand) {
	n := 2 + r.Intn(3)
	var fs []pfield
	for i := 0; i < n; i++ {
		f := pfield{key: fieldKeys[(i*2+r.Intn(2))%len(fieldKeys)], kind: 'N'}
		switch r.Intn(4) {
		case 0, 1:
			f.kind = 'O'
			f.order = hx.Pick(r, fieldOrders)
			f.quote = r.Chance(1, 3) || strings.ContainsAny(f.order, " ")
		case 2:
			f.kind = 'F'
			for j := 1 + r.Intn(3); j > 0; j-- {
				f.list = append(f.list, hx.Pick(r, []string{"1", "2", "linux", "x/y", "alpha", "fixed"}))
			}
		}
		fs = append(fs, f)
	}
	if r.Chance(1, 2) { // a fixed-list field first, a named order later
		fs[0] = pfield{key: "a", kind: 'F', list: []string{"1", "2"}}
	}
	fieldsCase(fs, []string{hx.Pick(r, []string{",", " ", ", ", " ,"}), hx.Pick(r, []string{",", " "})})
}

// sessionCase: ONE ProjectionParser receives a sequence of accepted and rejected expressions; every
// call's outcome (verdict, error offset and class, field names, values of plain fields, what an
// implied fixed-order filter keeps) must equal the outcome of the same expression on a fresh parser.
// (.config / .fullname VALUES are left out: their cross-projection exclusions belong to C08.)
func projOutcome(pp *benchproc.ProjectionParser, e string) string {
	star, _ := benchproc.NewFilter("*")
	p, err := pp.Parse(e, star)
	if err != nil {
		return errObs(err)
	}
	res := mkRes("Foo/size=4k-8", "a", "1", "b", "2", "goos", "linux", "k", "x/y")
	key := p.Project(res)
	var parts []string
	for _, f := range p.Fields() {
		v := "-"
		if !f.IsTuple && f.Name != ".fullname" {
			v = hx.HexS(key.Get(f))
		}
		parts = append(parts, hx.HexS(f.Name)+"="+v)
	}
	return "ok:" + strings.Join(parts, "+") + ":" + matchAll(star, res) + matchAll(star, mkRes("Bar", "a", "9", "goos", "plan9"))
}

func sessionCase(exprs []string) {
	if mine() {
		cid := id - 1
		hx.Printf("case %d kind=session exprs=%s tag=session\n", cid, hx.HexListS(exprs))
		guarded(cid, func(out *strings.Builder) {
			var shared benchproc.ProjectionParser
			var sh, fr []string
			for _, e := range exprs {
				sh = append(sh, projOutcome(&shared, e))
				var fresh benchproc.ProjectionParser
				fr = append(fr, projOutcome(&fresh, e))
			}
			fmt.Fprintf(out, "sobs %d shared=%s fresh=%s\n", cid, strings.Join(sh, ";"), strings.Join(fr, ";"))
		})
	}
}

var sessionPool = []string{"a", "b@alpha", "goos@(linux)", "a@(1 2)", "a@(9)", "b@fixed", "b@\"fixed\"", "a@bogus", "k@\"\"", ".unit", ".unit@alpha",
	".config", ".config@(x)", ".config@alpha", ".fullname", ".fullname@(Foo)", ".name,/size", "/size@num", "a@(", "a@()", "\"x", "\"\"", ",a", "a,,b",
	"a b", "k@(x/y z)", "goos@num,b", "b@first", "a@(1 2),b@fixed", "pkg", "a@alpha@num", "(a)"}

// crlfCase: a text and the same text followed by 1-3 CR/LF bytes.  Trailing white space changes
// nothing: an accepted text stays accepted, an error positioned before the end of the text stays where
// it is, an error positioned at the end of the text stays at the (new) end.
func crlfCase(base, suffix string) {
	if mine() {
		cid := id - 1
		hx.Printf("case %d kind=crlf base=%s suffix=%s tag=crlf\n", cid, hx.HexS(base), hx.HexS(suffix))
		guarded(cid, func(out *strings.Builder) {
			o := func(text string) (string, string) {
				_, ferr := benchproc.NewFilter(text)
				star, _ := benchproc.NewFilter("*")
				var pp benchproc.ProjectionParser
				_, perr := pp.Parse(text, star)
				return sOutcome(ferr), sOutcome(perr)
			}
			bf, bp := o(base)
			ef, ep := o(base + suffix)
			fmt.Fprintf(out, "sobs %d n=%d k=%d bf=%s ef=%s bp=%s ep=%s\n", cid, len(base), len(suffix), bf, ef, bp, ep)
		})
	}
	exprCase(base+suffix, "crlf")
}

var crlfSuffixes = []string{"\n", "\r\n", "\n\n", "\r", "\n\n\n", "\r\n\r", "\n\r\n"}

var crlfBases = []string{")", "a", "a:", "a:b c", "(a:b", "a:b)", ".config:a", "\"\":x", "a@nope", "a@()", "a@(", ".unit", "a:\"x", "a:/x", "a:/x/y", "a:(b c)",
	"a:(b OR", "-", "AND", "a:b OR", ",a", "a,,b", "a@", "a@\"\"", ".config@(x)", "x y@bogus", "a:b", "*", "a b", "a@(1 2)", "k:/^v$/", "a:\"x\\", "a:b -", "(", "\"", "/"}

// cfgCase: filters by structure in which a term NewFilter must reject (.config key, empty key) stands
// somewhere below OR / AND / NOT / parentheses, next to the constants * and -*.  The walk of NewFilter
// is depth first, left to right, so the reported offset is that of the first such term in the text.
type fnode struct {
	op   byte // 'L' leaf, '|' or, '&' and, '-' not
	text string
	bad  bool
	kids []*fnode
}

func (n *fnode) render(b *strings.Builder, badOff *int) {
	switch n.op {
	case 'L':
		if n.bad && *badOff < 0 {
			*badOff = b.Len()
		}
		b.WriteString(n.text)
	case '-':
		b.WriteByte('-')
		k := n.kids[0]
		if k.op == '|' || k.op == '&' {
			b.WriteByte('(')
			k.render(b, badOff)
			b.WriteByte(')')
		} else {
			k.render(b, badOff)
		}
	default:
		for i, k := range n.kids {
			if i > 0 {
				if n.op == '|' {
					b.WriteString(" OR ")
				} else {
					b.WriteString(" ")
				}
			}
			if k.op == '|' || k.op == '&' {
				b.WriteByte('(')
				k.render(b, badOff)
				b.WriteByte(')')
			} else {
				k.render(b, badOff)
			}
		}
	}
}

var goodLeaves = []string{"*", "-*", "*", "-*", "goos:linux", "a:b", ".name:/x/", ".unit:ns/op", "k:(a OR b)"}
var badLeaves = []string{".config:a", ".config:/x/", "\"\":v", ".config:(a OR b)", "\"\":/x/", ".config:\"*\""}

func genFNode(r *hx.Rand, depth int, wantBad bool) *fnode {
	if depth <= 0 || (!wantBad && r.Chance(1, 2)) {
		if wantBad {
			return &fnode{op: 'L', text: hx.Pick(r, badLeaves), bad: true}
		}
		return &fnode{op: 'L', text: hx.Pick(r, goodLeaves)}
	}
	switch r.Intn(4) {
	case 0:
		return &fnode{op: '-', kids: []*fnode{genFNode(r, depth-1, wantBad)}}
	default:
		op := byte('|')
		if r.Chance(1, 2) {
			op = '&'
		}
		n := 2 + r.Intn(2)
		where := r.Intn(n)
		nd := &fnode{op: op}
		for i := 0; i < n; i++ {
			nd.kids = append(nd.kids, genFNode(r, depth-1, wantBad && i == where))
		}
		return nd
	}
}

func cfgCase(n *fnode) {
	var b strings.Builder
	badOff := -1
	n.render(&b, &badOff)
	text := b.String()
	if mine() {
		cid := id - 1
		hx.Printf("case %d kind=cfgterm text=%s badoff=%d tag=cfgterm\n", cid, hx.HexS(text), badOff)
		guarded(cid, func(out *strings.Builder) {
			_, err := benchproc.NewFilter(text)
			fmt.Fprintf(out, "sobs %d f=%s\n", cid, sOutcome(err))
		})
	}
	exprCase(text, "cfgterm")
}

func leaf(t string, bad bool) *fnode { return &fnode{op: 'L', text: t, bad: bad} }

func unqCase(text string) {
	if !mine() {
		return
	}
	cid := id - 1
	hx.Printf("case %d kind=unq text=%s tag=unquote\n", cid, hx.HexS(text))
	u, err := strconv.Unquote(text)
	if err != nil {
		hx.Printf("obs %d uq=err\n", cid)
	} else {
		hx.Printf("obs %d uq=ok:%s\n", cid, hx.HexS(u))
	}
}

// ---------------------------------------------------------------- generators

func randBytes(r *hx.Rand, n int) string {
	b := make([]byte, n)
	for i := range b {
		switch r.Intn(6) {
		case 0:
			b[i] = byte(r.Intn(256))
		case 1:
			b[i] = hx.Pick(r, alphabet)
		case 2:
			b[i] = hx.Pick(r, []byte{'"', '\\', '\n', '\'', 0, 0x7f, 0xff, '\a', ' '})
		default:
			b[i] = byte(0x20 + r.Intn(0x5f))
		}
	}
	s := string(b)
	if r.Chance(1, 4) {
		s += hx.Pick(r, []string{"é", "\u2003", "\u00a0", "\U0001F600", "\ufffd", "\u202e", "\u0085", "\xed\xa0\x80", "\xf4\x90\x80\x80", "\\", "\\\\", "\""})
	}
	return s
}

var words = []string{"a", "b", ".name", ".fullname", "/size", ".unit", ".config", "goos", "AND", "OR", "x-y", "a*b", "é", "ANDa", "\"q r\"", "\"\\\\\"", "\"\"", "\"\\\"\"", "-", "*"}
var orders = []string{"alpha", "num", "first", "fixed", "bogus", "\"alpha\"", "ALPHA", "", "\"\"", "\"num\"", "\"bogus\"", "\"first\""}
var regexps = []string{"/a/", "/a|b/", "/[/]/", "/(a/b)/", "/\\//", "/a)/", "/[a/", "/(/", "/a/b", "/*/", "/\\/", "//", "/[]/]/", "/[[]/]/", "/(?i)x/"}

func genValue(r *hx.Rand) string {
	switch r.Intn(5) {
	case 0:
		return hx.Pick(r, regexps)
	case 1:
		return strconv.Quote(randBytes(r, r.Intn(4)))
	}
	return hx.Pick(r, words)
}

func genFilter(r *hx.Rand, depth int) string {
	if depth <= 0 || r.Chance(2, 5) {
		switch r.Intn(8) {
		case 0:
			return "*"
		case 1:
			n := 1 + r.Intn(3)
			var vs []string
			for i := 0; i < n; i++ {
				vs = append(vs, genValue(r))
			}
			return hx.Pick(r, words) + ":(" + strings.Join(vs, " OR ") + ")"
		}
		return hx.Pick(r, words) + ":" + genValue(r)
	}
	switch r.Intn(5) {
	case 0:
		return "-" + genFilter(r, depth-1)
	case 1:
		return "(" + genFilter(r, depth-1) + ")"
	case 2:
		return genFilter(r, depth-1) + " OR " + genFilter(r, depth-1)
	case 3:
		return genFilter(r, depth-1) + " AND " + genFilter(r, depth-1)
	}
	return genFilter(r, depth-1) + hx.Pick(r, []string{" ", "  ", "\t", " \u00a0"}) + genFilter(r, depth-1)
}

func genProj(r *hx.Rand) string {
	n := 1 + r.Intn(3)
	var parts []string
	for i := 0; i < n; i++ {
		p := hx.Pick(r, words)
		switch r.Intn(4) {
		case 0:
			p += "@" + hx.Pick(r, orders)
		case 1:
			m := r.Intn(3)
			var vs []string
			for j := 0; j < m; j++ {
				vs = append(vs, hx.Pick(r, words))
			}
			p += "@(" + strings.Join(vs, " ") + ")"
		}
		parts = append(parts, p)
	}
	return strings.Join(parts, hx.Pick(r, []string{",", " ", ", ", " ,"}))
}

func mutate(r *hx.Rand, s string) string {
	b := []byte(s)
	switch r.Intn(4) {
	case 0: // delete
		if len(b) > 0 {
			i := r.Intn(len(b))
			b = append(b[:i:i], b[i+1:]...)
		}
	case 1: // insert
		i := r.Intn(len(b) + 1)
		b = append(b[:i:i], append([]byte{hx.Pick(r, alphabet)}, b[i:]...)...)
	case 2: // replace
		if len(b) > 0 {
			b[r.Intn(len(b))] = hx.Pick(r, alphabet)
		}
	case 3: // truncate
		if len(b) > 0 {
			b = b[:r.Intn(len(b))]
		}
	}
	return string(b)
}

var bareAlphabet = []byte("abzAZ09_.=+-*/\\'[]{}<>!#$%&;?^`|~\x00\x7f\x80\xc3\xa9\xff")

func main() {
	defer hx.Flush()
	shard, _ = strconv.Atoi(getenv("VERIF_SHARD", "0"))
	nshards, _ = strconv.Atoi(getenv("VERIF_NSHARDS", "1"))
	resume, _ = strconv.Atoi(getenv("VERIF_C07_RESUME", "0"))
	if nshards < 1 {
		nshards = 1
	}
	if lines := hx.ReplayLines(); lines != nil {
		r := hx.NewRand(77)
		for _, l := range lines {
			kind, _ := hx.Field(l, "kind")
			switch kind {
			case "expr":
				t, _ := hx.Field(l, "text")
				exprCase(string(hx.UnHex(t)), "replay")
			case "quote":
				t, _ := hx.Field(l, "s")
				quoteCase(string(hx.UnHex(t)), r)
			case "bare":
				t, _ := hx.Field(l, "w")
				bareCase(string(hx.UnHex(t)))
			case "crlf":
				b, _ := hx.Field(l, "base")
				x, _ := hx.Field(l, "suffix")
				crlfCase(string(hx.UnHex(b)), string(hx.UnHex(x)))
			case "cfgterm":
				t, _ := hx.Field(l, "text")
				exprCase(string(hx.UnHex(t)), "replay")
			case "session":
				t, _ := hx.Field(l, "exprs")
				var es []string
				for _, b := range hx.UnHexList(t) {
					es = append(es, string(b))
				}
				sessionCase(es)
			case "fields":
				t, _ := hx.Field(l, "text")
				exprCase(string(hx.UnHex(t)), "replay")
			case "sep":
				a, _ := hx.Field(l, "w1")
				b, _ := hx.Field(l, "w2")
				c, _ := hx.Field(l, "sep")
				sepCase(string(hx.UnHex(a)), string(hx.UnHex(b)), string(hx.UnHex(c)))
			case "fixed":
				k, _ := hx.Field(l, "key")
				v, _ := hx.Field(l, "vals")
				var vals []string
				for _, b := range hx.UnHexList(v) {
					vals = append(vals, string(b))
				}
				fixedCase(string(hx.UnHex(k)), vals)
			case "denote":
				t, _ := hx.Field(l, "text")
				exprCase(string(hx.UnHex(t)), "replay")
			case "unq":
				t, _ := hx.Field(l, "text")
				unqCase(string(hx.UnHex(t)))
			}
		}
		return
	}
	// hx.NewRand(salt) streams of neighbouring seeds are shifts of each other by one draw; derive the
	// salt from a fully mixed draw so that different VERIF_SEED values give unrelated streams.
	r := hx.NewRand(hx.NewRand(7).U64())

	// 0. witnesses of recorded defects and hand-picked corner cases
	for _, t := range []string{`a:"x\\"`, `a:"x\\\\"`, `a:"x\"`, `a:"\\" b:"\\"`, `"\\":"\\"`, `a@("\\")`, `a:"\\\"" `,
		"a\vb", "a@(1\f2)", "\f", "a:b\vc:d", "\v*", "\u7528\u6237", "owner:\u7528\u6237", "\u7528\u6237:v", "k@(\u5728 \u4e3a)", "\U0001f528:\u0129", `a@fixed`, `a@first`, `.config@(a)`, `.unit`, `.config:a`, `a@()`, `a@( )`, `a@bogus`, `"":x`, `""`, `a:/x/y`, "a:/x/\u00a0", "a:/x/\xa0",
		`a:(b OR /c/)`, `a:(b c)`, `a:()`, `(a:b`, `a:b)`, `-`, `- -*`, `a:b AND`, `OR`, `a:OR`, `a:AND`, `AND:a`, `a : b`, `a:"b"c`, `a:-b`, `a:*`, `a:/`, `a:/(/)/`, `a:/[/]/`,
		"a:b\u2003c:d", "a:\"\n\"", `a:"\'"`, `a:"'"`, `a:"\400"`, `a:"\377"`, `a:"\ud800"`, `a:"\U00110000"`, `a:"\Uffffffff"`, "a:\"\x80\"", "\"\x80\x80\"@x", "\"\x80\x80\"@(y)", "\"\x80\x80\"", `,a`, `a,,b`, `a,`, `a@alpha@num`, `a @ alpha`} {
		exprCase(t, "witness")
	}
	for _, s := range []string{"", "\\", "x\\", "\\\\", "\"", "\\\"", "a b", "-x", "*", "AND", "(", "\n", "\x00", "\xff", "é", "\u2003", "'", "\x7f", "\ufffd", "\U0010ffff", "\xed\xa0\x80", "/x/", ".config", ".unit", ".name"} {
		quoteCase(s, r)
	}

	// 0b. denotation: the same word as literal and as regexp under one key in one expression
	for _, c := range []struct {
		conn  string
		terms []dterm
	}{
		{"or", []dterm{{false, 'R', "^v$"}, {false, 'Q', "/^v$/"}}},
		{"or", []dterm{{false, 'Q', "/^v$/"}, {false, 'R', "^v$"}}},
		{"list", []dterm{{false, 'R', "^v$"}, {false, 'Q', "/^v$/"}}},
		{"list", []dterm{{false, 'Q', "/^v$/"}, {false, 'R', "^v$"}}},
		{"and", []dterm{{true, 'Q', "/./"}, {false, 'R', "."}}},
		{"and", []dterm{{true, 'R', "."}, {false, 'Q', "/./"}}},
		{"or", []dterm{{false, 'L', "v"}, {false, 'Q', "v"}, {false, 'R', "v"}}},
		{"and", []dterm{{false, 'R', "v"}, {true, 'Q', "/v/"}, {true, 'L', "vv"}}},
		{"or", []dterm{{false, 'R', "[/]"}, {false, 'Q', "x"}}},
		{"or", []dterm{{false, 'R', ""}, {false, 'Q', "x"}}},
		{"or", []dterm{{false, 'R', "a]"}, {false, 'Q', "x"}}},
		{"and", []dterm{{false, 'R', "]"}, {true, 'R', "a]b|x"}}},
		{"and", []dterm{{false, 'R', "(a/b)"}, {true, 'R', "\\/\\/"}}},
		{"list", []dterm{{false, 'R', "\\/"}, {false, 'L', "v"}}},
	} {
		denoteCase(c.conn, c.terms)
	}
	for _, t := range []string{`,a`, ` , a`, `a,,b`, `a, ,b`, `a,`, `a ,b`, `a, b`, `x b@bogus`, `a .unit c`, `a,b@num,.unit@alpha`, `a ""`, `a@""`, `.name,/size@"",goos@alpha`, `.fullname@""`, `a@"alpha"`, `"a"@"num" b`, `a@"bogus"`, `a@"first"`, `"":x`, `""@alpha`, `a b,c@num`} {
		exprCase(t, "witness")
	}
	for i, n := 0, hx.N(1500, 30000); i < n; i++ {
		genDenote(r)
	}

	// 0c. bare words (with '/') in fixed value lists
	for _, c := range [][]string{{"dir", "/tmp", "/var/tmp"}, {"a", "/x/", "y"}, {"a", "x", "/y"}, {"a", "/"}, {"a/b", "//", "/a/"}, {"k", "x/y", "*a"}} {
		fixedCase(c[0], c[1:])
	}
	for i, n := 0, hx.N(1500, 30000); i < n; i++ {
		genFixed(r)
	}

	// 0d. characters containing the bytes 0x85 / 0xA0, and Unicode spaces as separators
	for _, w := range []string{"à", "Р", "х", "ą", "慠", "\x85", "\xa0", "aàb", "kР", "xх", "a\xa0b", "à/Р", "\u7528\u6237", "\u5728", "\u4e3a", "k\u0129", "\u0140x", "\U0001f528", "a\u4e2c", "\u0120", "\u4e2d\u6587", "x\u012a", "\u0122q"} {
		bareCase(w)
		fixedCase("k", []string{w, "y" + w})
	}
	for _, sp := range uniSeps {
		sepCase("kà", "jР", sp)
		sepCase("\u7528\u6237", "\u5728\u4e3a", sp)
		sepCase("x", "y", sp)
	}
	for i, n := 0, hx.N(1200, 25000); i < n; i++ {
		sepCase("k"+unitWord(r, r.Intn(3)), "j"+unitWord(r, r.Intn(3)), hx.Pick(r, uniSeps))
	}

	// 0e. projections by structure: order names after fixed-list fields (stale parser state)
	for _, fs := range [][]pfield{
		{{key: "a", kind: 'F', list: []string{"1", "2"}}, {key: "b", kind: 'O', order: "fixed"}},
		{{key: "a", kind: 'F', list: []string{"1", "2"}}, {key: "b", kind: 'O', order: "fixed", quote: true}},
		{{key: "goos", kind: 'F', list: []string{"linux"}}, {key: ".name", kind: 'N'}, {key: "goarch", kind: 'O', order: "fixed"}, {key: "pkg", kind: 'N'}},
		{{key: "b", kind: 'O', order: "fixed"}},
		{{key: "a", kind: 'N'}, {key: "b", kind: 'O', order: "fixed"}},
		{{key: "b", kind: 'O', order: "fixed"}, {key: "a", kind: 'F', list: []string{"1", "2"}}},
		{{key: "a", kind: 'F', list: []string{"1", "2"}}, {key: "b", kind: 'O', order: "alpha"}, {key: "c", kind: 'O', order: "num", quote: true}},
		{{key: "a", kind: 'F', list: []string{"1"}}, {key: "b", kind: 'N'}, {key: "c", kind: 'F', list: []string{"x"}}},
		{{key: "a", kind: 'F', list: []string{"1"}}, {key: "b", kind: 'O', order: "bogus"}},
		{{key: "a", kind: 'F', list: []string{"1"}}, {key: "b", kind: 'O', order: ""}},
	} {
		fieldsCase(fs, []string{","})
		fieldsCase(fs, []string{" "})
	}
	for i, n := 0, hx.N(1500, 30000); i < n; i++ {
		genFields(r)
	}

	// 0f. one ProjectionParser across accepted and rejected expressions vs a fresh parser per call
	sessionCase([]string{"a@(1 2)", "b@fixed", "b@fixed"})
	sessionCase([]string{".unit", "a", ".config@(x)", ".config", "a@bogus", "a@alpha"})
	sessionCase([]string{"a@(", "a@(1 2)", "\"x", "goos@(linux)", "b@\"fixed\""})
	for i, n := 0, hx.N(800, 15000); i < n; i++ {
		var es []string
		for j := 3 + r.Intn(8); j > 0; j-- {
			es = append(es, hx.Pick(r, sessionPool))
		}
		sessionCase(es)
	}

	// 0g. trailing CR/LF, and semantically bad terms next to the constants * and -*
	for _, base := range crlfBases {
		for _, suf := range crlfSuffixes[:3] {
			crlfCase(base, suf)
		}
	}
	for i, n := 0, hx.N(1200, 25000); i < n; i++ {
		base := hx.Pick(r, crlfBases)
		switch r.Intn(3) {
		case 0:
			base = mutate(r, genFilter(r, 2))
		case 1:
			base = mutate(r, genProj(r))
		}
		crlfCase(base, hx.Pick(r, crlfSuffixes))
	}
	for _, n := range []*fnode{
		{op: '|', kids: []*fnode{leaf("*", false), leaf(".config:a", true)}},
		{op: '|', kids: []*fnode{leaf(".config:a", true), leaf("*", false)}},
		{op: '&', kids: []*fnode{leaf("goos:linux", false), {op: '|', kids: []*fnode{leaf(".config:/x/", true), leaf("*", false)}}}},
		{op: '&', kids: []*fnode{leaf("-*", false), leaf(".config:a", true)}},
		{op: '-', kids: []*fnode{{op: '|', kids: []*fnode{leaf("*", false), leaf(".config:a", true)}}}},
		{op: '&', kids: []*fnode{leaf("\"\":v", true), leaf("-*", false)}},
		{op: '|', kids: []*fnode{leaf("*", false), leaf("\"\":v", true), leaf(".config:a", true)}},
	} {
		cfgCase(n)
	}
	for i, n := 0, hx.N(1200, 25000); i < n; i++ {
		cfgCase(genFNode(r, 1+r.Intn(3), true))
	}

	// 1. exhaustive over the special alphabet
	maxLen := 3
	if hx.Tier() == "thorough" {
		maxLen = 4
	}
	var rec func(cur []byte)
	rec = func(cur []byte) {
		exprCase(string(cur), "exhaustive")
		if len(cur) == maxLen {
			return
		}
		for _, c := range alphabet {
			rec(append(cur[:len(cur):len(cur)], c))
		}
	}
	rec(nil)

	// 2. strconv.Quote of random byte strings as keys and values
	for i, n := 0, hx.N(1500, 40000); i < n; i++ {
		quoteCase(randBytes(r, r.Intn(9)), r)
	}
	// 3. bare words
	for i, n := 0, hx.N(1500, 40000); i < n; i++ {
		if r.Chance(1, 2) {
			bareCase(unitWord(r, 1+r.Intn(4)))
			continue
		}
		l := 1 + r.Intn(6)
		b := make([]byte, l)
		for j := range b {
			if r.Chance(1, 12) {
				b[j] = hx.Pick(r, alphabet)
			} else {
				b[j] = hx.Pick(r, bareAlphabet)
			}
		}
		bareCase(string(b))
	}
	// 4. unquote correspondence
	esc := []string{`\a`, `\b`, `\f`, `\n`, `\r`, `\t`, `\v`, `\\`, `\"`, `\'`, `\x4`, `\x41`, `\xfF`, `\xg0`, `\u00e9`, `\u12`, `\ud800`, `\udfff`, `\ue000`, `\U0001F600`, `\U00110000`, `\UFFFFFFFF`, `\U0010ffff`,
		`\0`, `\00`, `\000`, `\101`, `\377`, `\400`, `\08`, `\8`, `\z`, `\`, "\n", "'", "\"", "a", " ", "é", "\x80", "\xc3", "\xed\xa0\x80", "\xf4\x8f\xbf\xbf", "\xf4\x90\x80\x80", "\xe2\x80", "\ufffd", "\x00"}
	for i, n := 0, hx.N(3000, 100000); i < n; i++ {
		var b strings.Builder
		b.WriteByte('"')
		for j := r.Intn(5); j > 0; j-- {
			b.WriteString(hx.Pick(r, esc))
		}
		if !r.Chance(1, 10) {
			b.WriteByte('"')
		}
		unqCase(b.String())
	}
	// 5. grammar-generated expressions, as they are and with one mutation
	for i, n := 0, hx.N(2500, 80000); i < n; i++ {
		var e string
		if r.Chance(2, 3) {
			e = genFilter(r, 3)
		} else {
			e = genProj(r)
		}
		exprCase(e, "grammar")
		exprCase(mutate(r, e), "mutated")
	}
	// 6. long random soup
	for i, n := 0, hx.N(600, 20000); i < n; i++ {
		l := 5 + r.Intn(120)
		b := make([]byte, l)
		for j := range b {
			if r.Chance(1, 30) {
				b[j] = byte(r.Intn(256))
			} else {
				b[j] = hx.Pick(r, alphabet)
			}
		}
		exprCase(string(b), "soup")
	}
	// deep nesting: recursion depth must not be a problem
	exprCase(strings.Repeat("(", 5000)+"a:b"+strings.Repeat(")", 5000), "deep")
	exprCase(strings.Repeat("-", 8000)+"a:b", "deep")
	exprCase(strings.Repeat("(", 3000), "deep")
}

func getenv(k, d string) string {
	if v := os.Getenv(k); v != "" {
		return v
	}
	return d
}
