//go:build verif

// C18 harness: comparison series (Builder.Add / AllComparisonSeries), bootstrap summaries
// (AddSummaries, percentile, median, seed hash) and NormalizeDateString, all on the real code.
package main

import (
	"encoding/json"
	"fmt"
	"math"
	"math/rand"
	"os"
	"sort"
	"strconv"
	"strings"
	"time"

	"golang.org/x/perf/benchfmt"
	"golang.org/x/perf/benchseries"
	"golang.org/x/perf/internal/verifh/hx"
)

func newR(salt uint64) *hx.Rand { return hx.NewRand(salt) }

var devnull *os.File

// quiet runs f with os.Stderr pointing at /dev/null (the hash-pair mismatch warning is printed there).
func quiet(f func()) {
	old := os.Stderr
	os.Stderr = devnull
	defer func() { os.Stderr = old }()
	f()
}

// ---------------------------------------------------------------- results

// res is one benchmark result in the harness's own vocabulary.
type res struct {
	table              []string // values of goarch, goos (only the first len(tableKeys) are used)
	bench, exp, ser    string
	role, nh, dh, xtra string
	units              []string
	vals               []float64
}

var tableKeys = []string{"goarch", "goos"}

func (r res) toResult() *benchfmt.Result {
	out := &benchfmt.Result{Name: benchfmt.Name(r.bench), Iters: 1}
	for i, k := range tableKeys {
		if i < len(r.table) && r.table[i] != "" {
			out.SetConfig(k, r.table[i])
		}
	}
	set := func(k, v string) {
		if v != "" {
			out.SetConfig(k, v)
		}
	}
	set("exp", r.exp)
	set("ser", r.ser)
	set("role", r.role)
	set("nh", r.nh)
	set("dh", r.dh)
	set("xtra", r.xtra)
	for i, u := range r.units {
		out.Values = append(out.Values, benchfmt.Value{Value: r.vals[i], Unit: u})
	}
	return out
}

// viaReader: feed the Builder through ONE benchfmt.Reader over a single log (one file name for all blocks) in which
// the configuration lines change between results, instead of hand-made Results (whose Pos() is empty).
var viaReader = false

var fileKeys = []string{"goarch", "goos", "exp", "ser", "role", "nh", "dh", "xtra"}

func (r res) cfg() map[string]string {
	m := map[string]string{"exp": r.exp, "ser": r.ser, "role": r.role, "nh": r.nh, "dh": r.dh, "xtra": r.xtra}
	for i, k := range tableKeys {
		if i < len(r.table) {
			m[k] = r.table[i]
		}
	}
	return m
}

// logText renders the results, in the given order, as one benchmark log: before every benchmark line only the
// configuration keys that CHANGED are written (an empty value deletes the key), as in a concatenated log.
func logText(rs []res, order []int) string {
	var sb strings.Builder
	cur := map[string]string{}
	for _, i := range order {
		want := rs[i].cfg()
		for _, k := range fileKeys {
			if want[k] != cur[k] {
				fmt.Fprintf(&sb, "%s: %s\n", k, want[k])
				cur[k] = want[k]
			}
		}
		fmt.Fprintf(&sb, "Benchmark%s 1", rs[i].bench)
		for j, u := range rs[i].units {
			fmt.Fprintf(&sb, " %s %s", spellFloat(rs[i].vals[j], i+j), u)
		}
		sb.WriteByte('\n')
	}
	return sb.String()
}

// spellFloat writes a measurement as a log would: NaN and the infinities in varying spellings.
func spellFloat(v float64, k int) string {
	switch {
	case math.IsNaN(v):
		return []string{"NaN", "nan", "NAN"}[k%3]
	case math.IsInf(v, 1):
		return []string{"+Inf", "inf", "Inf", "+inf", "INF"}[k%5]
	case math.IsInf(v, -1):
		return []string{"-Inf", "-inf", "-INF"}[k%3]
	}
	return strconv.FormatFloat(v, 'g', -1, 64)
}

func addAll(b *benchseries.Builder, rs []res, order []int) {
	if !viaReader {
		for _, i := range order {
			b.Add(rs[i].toResult())
		}
		return
	}
	rd := benchfmt.NewReader(strings.NewReader(logText(rs, order)), "bench.log")
	n := 0
	for rd.Scan() {
		switch rec := rd.Result().(type) {
		case *benchfmt.Result:
			b.Add(rec)
			n++
		case *benchfmt.SyntaxError:
			panic("log does not parse: " + rec.Error())
		}
	}
	if err := rd.Err(); err != nil || n != len(order) {
		panic(fmt.Sprint("log reading failed: ", err, " results ", n, " of ", len(order)))
	}
}

// curFilter is the BuilderOptions.Filter of every Builder made while a case runs (default: keep every unit).
var curFilter = ".unit:/.*/"

func newBuilder(ntable int) *benchseries.Builder {
	opts := &benchseries.BuilderOptions{Filter: curFilter, Series: "ser", Table: strings.Join(tableKeys[:ntable], ","), Experiment: "exp",
		Compare: "role", Numerator: "num", Denominator: "den", NumeratorHash: "nh", DenominatorHash: "dh",
		Warn: func(string, ...interface{}) {}}
	b, err := benchseries.NewBuilder(opts)
	if err != nil {
		panic(err)
	}
	return b
}

func bitsList(v []float64) string {
	if len(v) == 0 {
		return "-"
	}
	p := make([]string, len(v))
	for i, x := range v {
		p[i] = hx.F64(x)
	}
	return strings.Join(p, ".")
}

// canonBits renders a sample as a multiset: sorted by bit pattern.
func canonBits(v []float64) string {
	b := make([]uint64, len(v))
	for i, x := range v {
		b[i] = math.Float64bits(x)
	}
	sort.Slice(b, func(i, j int) bool { return b[i] < b[j] })
	if len(b) == 0 {
		return "-"
	}
	p := make([]string, len(b))
	for i, x := range b {
		p[i] = fmt.Sprintf("%016x", x)
	}
	return strings.Join(p, ".")
}

// encode the projected view of the results (what the model's Add consumes).
func encodeResults(rs []res, ntable int) string {
	pb := newBuilder(ntable) // projection-only builder
	var parts []string
	// the Results the Builder will be given: hand-made, or what the Reader makes of the log (units tidied)
	var results []*benchfmt.Result
	if viaReader {
		ident := make([]int, len(rs))
		for i := range ident {
			ident[i] = i
		}
		rd := benchfmt.NewReader(strings.NewReader(logText(rs, ident)), "bench.log")
		for rd.Scan() {
			if rec, ok := rd.Result().(*benchfmt.Result); ok {
				results = append(results, rec.Clone())
			}
		}
	} else {
		for _, r := range rs {
			results = append(results, r.toResult())
		}
	}
	for _, res := range results {
		p := pb.VerifProject(res)
		if !p.Kept {
			continue
		}
		var ms []string
		for i, u := range p.Units {
			ms = append(ms, hx.HexS(u)+":"+hx.F64(p.Values[i]))
		}
		var tv []string
		// the table tuple: the result's own values of the table keys (a plain config-key projection yields exactly
		// these), NOT read back from the interned Key, so that a key-identity defect cannot hide in the case line
		for i := range p.Table {
			tv = append(tv, hx.HexS(res.GetConfig(tableKeys[i])))
		}
		parts = append(parts, strings.Join([]string{strings.Join(tv, "+"), hx.HexS(p.Bench), hx.HexS(p.Exp), hx.HexS(p.Ser), hx.HexS(p.Cmp),
			hx.HexS(p.NumHash), hx.HexS(p.DenHash), strings.Join(ms, ",")}, "|"))
	}
	if len(parts) == 0 {
		return "-"
	}
	return strings.Join(parts, "/")
}

// dumpSeries renders AllComparisonSeries output canonically.
func dumpSeries(css []*benchseries.ComparisonSeries) string {
	var tabs []string
	for _, cs := range css {
		var hp []string
		var sers []string
		for s := range cs.HashPairs {
			sers = append(sers, s)
		}
		sort.Strings(sers)
		for _, s := range sers {
			hp = append(hp, hx.HexS(s)+"="+hx.HexS(cs.HashPairs[s].NumHash)+"~"+hx.HexS(cs.HashPairs[s].DenHash))
		}
		var pts []string
		for _, b := range cs.Benchmarks {
			for _, s := range cs.Series {
				c, ok := cs.ComparisonAt(b, s)
				if !ok {
					continue
				}
				num, den := "~", "~"
				if c.Numerator != nil {
					num = canonBits(c.Numerator.Values)
				}
				if c.Denominator != nil {
					den = canonBits(c.Denominator.Values)
				}
				// the ORDER in which the samples are delivered: both cells of a complete point are documented
				// (and needed by the bootstrap seed) to be ascending
				ord := "n"
				if c.Numerator != nil && c.Denominator != nil {
					ord = "0"
					if sort.Float64sAreSorted(c.Numerator.Values) && sort.Float64sAreSorted(c.Denominator.Values) {
						ord = "1"
					}
				}
				pts = append(pts, hx.HexS(b)+"#"+hx.HexS(s)+"#"+hx.HexS(c.Date)+"#"+num+"#"+den+"#"+ord)
			}
		}
		j := func(l []string) string {
			if len(l) == 0 {
				return "-"
			}
			return strings.Join(l, ",")
		}
		tabs = append(tabs, hx.HexS(cs.Unit)+"|B:"+hx.HexListS(cs.Benchmarks)+"|S:"+hx.HexListS(cs.Series)+"|H:"+j(hp)+"|P:"+j(pts))
	}
	if len(tabs) == 0 {
		return "-"
	}
	return strings.Join(tabs, ";")
}

// runSeries adds rs in the given order to a fresh Builder and dumps the series.
func runSeries(rs []res, order []int, ntable, policy int) (dump string, b *benchseries.Builder) {
	dump, _, b = runSeriesSums(rs, order, ntable, policy)
	return
}

// summariesOf bootstraps every complete point (confidence 0.9, 5 resamples) and renders Low:Center:High bits.
func summariesOf(css []*benchseries.ComparisonSeries) string {
	var out []string
	for _, cs := range css {
		cs.AddSummaries(0.9, 5)
		for _, b := range cs.Benchmarks {
			for _, s := range cs.Series {
				if sum, ok := cs.SummaryAt(b, s); ok && sum != nil && sum.Present {
					out = append(out, hx.HexS(cs.Unit)+"/"+hx.HexS(b)+"/"+hx.HexS(s)+"="+sumBits(sum))
				}
			}
		}
	}
	return strings.Join(out, ",")
}

func runSeriesSums(rs []res, order []int, ntable, policy int) (dump, sums string, b *benchseries.Builder) {
	b = newBuilder(ntable)
	addAll(b, rs, order)
	var css []*benchseries.ComparisonSeries
	var err error
	quiet(func() { css, err = b.AllComparisonSeries(nil, policy) })
	if err != nil {
		return "!err", "", b
	}
	dump = dumpSeries(css)
	sums = summariesOf(css)
	return
}

// deterministic reports, from the real tables, whether the output can depend on map iteration order.
func deterministic(b *benchseries.Builder, policy int) bool {
	tables, cs := b.VerifContribs()
	seenT := map[string]bool{}
	for _, t := range tables {
		if seenT[t] {
			return false
		}
		seenT[t] = true
	}
	type key struct{ t, a, b string }
	type contrib struct{ bench, hash, base string }
	groups := map[key][]contrib{} // (table, series) -> contributions
	dates := map[key]map[string]bool{}
	for _, c := range cs {
		d, err1 := benchseries.NormalizeDateString(c.Exp)
		s, err2 := benchseries.NormalizeDateString(c.Ser)
		if err1 != nil || err2 != nil {
			continue
		}
		k := key{c.Table, s, ""}
		groups[k] = append(groups[k], contrib{c.Bench, c.Hash, c.BaseHash})
		if policy == benchseries.DUPE_REPLACE {
			k2 := key{c.Table, c.Bench, s}
			if dates[k2] == nil {
				dates[k2] = map[string]bool{}
			}
			if dates[k2][d] {
				return false
			}
			dates[k2][d] = true
		}
	}
	// hash pair of a series point (after 83c6e29): one numerator hash; the non-empty baseline
	// hashes agree; under combine only the first-visited contribution of each cell speaks, so a
	// non-empty baseline hash must be certain to be heard (some cell has only such contributions).
	for _, g := range groups {
		nonEmpty := ""
		for _, c := range g {
			if c.hash != g[0].hash {
				return false
			}
			if c.base != "" {
				if nonEmpty != "" && nonEmpty != c.base {
					return false
				}
				nonEmpty = c.base
			}
		}
		if policy != benchseries.DUPE_REPLACE && nonEmpty != "" {
			sure := false
			for _, c := range g {
				all := true
				for _, d := range g {
					if d.bench == c.bench && d.base == "" {
						all = false
					}
				}
				if all {
					sure = true
				}
			}
			if !sure {
				return false
			}
		}
	}
	return true
}

// statefulChecks exercises one Builder and the series it hands out the way a long-lived caller would:
//   twice    AllComparisonSeries called twice gives the same series (the first call sorts cell storage in place)
//   sumtwice AddSummaries called twice on the same series gives the same summaries
//   keep     AddSummaries with other (confidence, N) afterwards keeps the existing summaries ("adds the missing ones")
//   rebuild  the caller reverses every sample slice of the returned series (they alias the Builder's cells), builds
//            again from the same Builder: same series and same summaries as before
func statefulChecks(rs []res, order []int, ntable, policy int) string {
	b := newBuilder(ntable)
	addAll(b, rs, order)
	build := func() ([]*benchseries.ComparisonSeries, string) {
		var css []*benchseries.ComparisonSeries
		var err error
		quiet(func() { css, err = b.AllComparisonSeries(nil, policy) })
		if err != nil {
			return nil, "!err"
		}
		return css, dumpSeries(css)
	}
	bit := func(x bool) int {
		if x {
			return 1
		}
		return 0
	}
	_, d1 := build()
	css2, d2 := build()
	s1 := summariesOf(css2)
	s2 := summariesOf(css2)
	keep := ""
	for _, cs := range css2 {
		cs.AddSummaries(0.5, 3)
		for _, bn := range cs.Benchmarks {
			for _, sr := range cs.Series {
				if sum, ok := cs.SummaryAt(bn, sr); ok && sum != nil && sum.Present {
					keep += hx.HexS(cs.Unit) + "/" + hx.HexS(bn) + "/" + hx.HexS(sr) + "=" + sumBits(sum) + ","
				}
			}
		}
	}
	keep = strings.TrimSuffix(keep, ",")
	for _, cs := range css2 {
		for _, bn := range cs.Benchmarks {
			for _, sr := range cs.Series {
				if c, ok := cs.ComparisonAt(bn, sr); ok {
					for _, cell := range []*benchseries.Cell{c.Numerator, c.Denominator} {
						if cell != nil {
							v := cell.Values
							for i, j := 0, len(v)-1; i < j; i, j = i+1, j-1 {
								v[i], v[j] = v[j], v[i]
							}
						}
					}
				}
			}
		}
	}
	css3, d3 := build()
	s3 := summariesOf(css3)
	return fmt.Sprintf("twice=%d sumtwice=%d keep=%d rebuild=%d", bit(d1 == d2), bit(s1 == s2), bit(keep == s1), bit(d3 == d1 && s3 == s1))
}

func tableNames(b *benchseries.Builder) string {
	t, _ := b.VerifContribs()
	sort.Strings(t)
	return hx.HexListS(t)
}

func permutations(n int) [][]int {
	var out [][]int
	p := make([]int, n)
	for i := range p {
		p[i] = i
	}
	var rec func(k int)
	rec = func(k int) {
		if k == n {
			out = append(out, append([]int(nil), p...))
			return
		}
		for i := k; i < n; i++ {
			p[k], p[i] = p[i], p[k]
			rec(k + 1)
			p[k], p[i] = p[i], p[k]
		}
	}
	rec(0)
	return out
}

var id int

func seriesCase(rs []res, ntable, policy int, r *hx.Rand, tags []string) {
	seriesCaseN(rs, ntable, policy, r, tags, 3)
}

// seriesCaseN repeats every insertion order reps times in-process (map iteration order is random per run).
func seriesCaseN(rs []res, ntable, policy int, r *hx.Rand, tags []string, reps int) {
	cid := id
	id++
	if len(tags) == 0 {
		tags = []string{"trivial"}
	}
	hx.Printf("case %d kind=series pol=%d res=%s tag=%s\n", cid, policy, encodeResults(rs, ntable), strings.Join(tags, "+"))
	defer func() {
		if e := recover(); e != nil {
			hx.Printf("crash %d %s\n", cid, strings.ReplaceAll(fmt.Sprint(e), "\n", " "))
		}
	}()
	ident := make([]int, len(rs))
	for i := range ident {
		ident[i] = i
	}
	first, firstSums, b := runSeriesSums(rs, ident, ntable, policy)
	det := first == "!err" || deterministic(b, policy)
	if det {
		hx.Printf("obs %d det=1 dump=%s\n", cid, first)
	} else {
		hx.Printf("obs %d det=0 tables=%s\n", cid, tableNames(b))
	}
	// S: the dump must not depend on insertion order nor on map iteration order
	var orders [][]int
	if len(rs) <= 5 {
		orders = permutations(len(rs))
	} else {
		for k := 0; k < 24; k++ {
			p := append([]int(nil), ident...)
			for i := len(p) - 1; i > 0; i-- {
				j := r.Intn(i + 1)
				p[i], p[j] = p[j], p[i]
			}
			orders = append(orders, p)
		}
	}
	inv, rep := 1, 1
	for _, o := range orders {
		for k := 0; k < reps; k++ {
			d, sm, _ := runSeriesSums(rs, o, ntable, policy)
			if d != first {
				inv = 0
			}
			// reproducibility across builds: the same result set gives the same Low/Center/High bits
			if sm != firstSums {
				rep = 0
			}
		}
	}
	hx.Printf("sobs %d inv=%d rep=%d %s dump=%s\n", cid, inv, rep, statefulChecks(rs, ident, ntable, policy), first)
}

// ---------------------------------------------------------------- series generators

var (
	stampsA = []string{"2020-02-02T00:00:00Z", "2020-02-03T10:00:00Z", "20200204T120000", "2020-02-05T00:00:00.5Z", "2020-02-01T23:00:00-01:00"}
	expsA   = []string{"2021-01-01T00:00:00Z", "20210102T030405", "2021-01-03T00:00:00+02:00", "2021-01-02T03:04:05.25Z", "2021-01-04T00:00:00Z", "2020-12-31T23:59:59Z"}
	benches = []string{"Foo", "Bar", "Foo/x=1"}
	archs   = []string{"amd64", "arm64"}
	unitsA  = []string{"ns/op", "B/op", "allocs/op"}
)

func someVal(r *hx.Rand) float64 {
	switch r.Intn(12) {
	case 0:
		return 0
	case 1:
		return -float64(1 + r.Intn(5))
	case 2:
		return 100
	}
	return float64(1+r.Intn(40)) / 4
}

// genWellFormed builds complete trials: every (bench, exp) with numerators also has a baseline, hashes are
// functions of the series stamp.
func genSeries(r *hx.Rand, maxRes int) (rs []res, ntable int, tags []string) {
	ntable = []int{0, 2, 2}[r.Intn(3)]
	nser := 1 + r.Intn(3)
	nexp := 1 + r.Intn(3)
	nb := 1 + r.Intn(2)
	nu := 1 + r.Intn(2)
	tag := map[string]bool{}
	for len(rs) < maxRes {
		// one trial = (table, bench, exp) comparing series stamp s against its baseline
		s := r.Intn(nser)
		e := r.Intn(nexp)
		tb := []string{archs[r.Intn(2)], "linux"}
		if ntable == 0 || r.Chance(2, 3) {
			tb = []string{archs[0], "linux"}
		}
		bn := benches[r.Intn(nb)]
		mk := func(role string) res {
			x := res{table: tb, bench: bn, exp: expsA[e], ser: stampsA[s], role: role, nh: "n" + strconv.Itoa(s), dh: "d" + strconv.Itoa(s)}
			if r.Chance(1, 4) {
				x.xtra = "r" + strconv.Itoa(r.Intn(2))
			}
			for u := 0; u < nu; u++ {
				x.units = append(x.units, unitsA[u])
				x.vals = append(x.vals, someVal(r))
			}
			return x
		}
		k := 1 + r.Intn(2)
		for i := 0; i < k && len(rs) < maxRes; i++ {
			rs = append(rs, mk("num"))
		}
		if len(rs) < maxRes {
			rs = append(rs, mk("den"))
			if r.Chance(1, 3) && len(rs) < maxRes {
				rs = append(rs, mk("den"))
			}
		} else {
			// no room for the baseline: turn the last numerator into it when that leaves a numerator
			rs[len(rs)-1].role = "den"
		}
		if r.Chance(1, 3) {
			break
		}
	}
	// mutations towards the excluded shapes
	if len(rs) > 0 && r.Chance(1, 4) {
		i := r.Intn(len(rs))
		switch r.Intn(9) {
		case 0: // a baseline goes missing
			rs[i].role = "num"
			tag["nobase"] = true
		case 1: // a hash disagrees with its stamp
			rs[i].nh = "nX"
			tag["hashclash"] = true
		case 2:
			rs[i].dh = "dX"
			tag["denclash"] = true
		case 3: // same instant, other spelling
			if rs[i].exp == expsA[1] {
				rs[i].exp = expsA[3][:19] + "Z"
			} else {
				rs[i].exp = expsA[1]
			}
			tag["respelt"] = true
		case 4:
			rs[i].role = []string{"", "other"}[r.Intn(2)]
			tag["norole"] = true
		case 5:
			rs[i].exp = "yesterday"
			tag["baddate"] = true
		case 6:
			if ntable > 0 {
				rs[i].table = [][]string{{"a b", "c"}, {"a", "b c"}, {"", "amd64"}, {"amd64", ""}}[r.Intn(4)]
				tag["blank"] = true
			}
		case 7:
			rs[i].ser = []string{"2020-02-02T01:00:00+01:00", "20200202T000000"}[r.Intn(2)]
			tag["serspelt"] = true
		case 8:
			rs[i].nh = "n" + strconv.Itoa(r.Intn(3))
			tag["hashmove"] = true
		}
	}
	exps := map[string]bool{}
	sers := map[string]bool{}
	tabs := map[string]bool{}
	for _, x := range rs {
		exps[x.exp] = true
		sers[x.ser] = true
		tabs[strings.Join(x.table, " ")] = true
	}
	if len(exps) > 1 {
		tag["multiexp"] = true
	}
	if len(sers) > 1 {
		tag["multiser"] = true
	}
	if len(tabs) > 1 {
		tag["multitable"] = true
	}
	if nu > 1 {
		tag["multiunit"] = true
	}
	for t := range tag {
		tags = append(tags, t)
	}
	sort.Strings(tags)
	return
}

// corpus shapes: the design-time witnesses and every excluded shape, replayed on every run.
func corpusSeries(r *hx.Rand) {
	mk := func(bench, role, exp string, v float64) res {
		return res{table: []string{"amd64", "linux"}, bench: bench, exp: exp, ser: "2020-02-02T00:00:00Z", role: role, nh: "abc", dh: "def", units: []string{"sec"}, vals: []float64{v}}
	}
	// F10: experiment 1 has numerator only; experiment 2 has both (same point) -- combine used to panic
	f10 := []res{mk("Foo", "num", "2020-01-01T00:00:00Z", 1), mk("Foo", "num", "2020-01-02T00:00:00Z", 2), mk("Foo", "den", "2020-01-02T00:00:00Z", 10)}
	for pol := 0; pol < 2; pol++ {
		seriesCase(f10, 0, pol, r, []string{"corpus", "F10", "nobase"})
	}
	// hash pair of a series point depends on map order when one benchmark lacks its baseline
	hp := []res{mk("Foo", "num", "2020-01-01T00:00:00Z", 1), mk("Bar", "num", "2020-01-01T00:00:00Z", 2), mk("Bar", "den", "2020-01-01T00:00:00Z", 10)}
	for pol := 0; pol < 2; pol++ {
		seriesCase(hp, 0, pol, r, []string{"corpus", "nobase"})
	}
	// two spellings of one experiment instant, replace: first visited wins
	eq := []res{mk("Foo", "num", "2020-01-01T00:00:00Z", 1), mk("Foo", "den", "2020-01-01T00:00:00Z", 3), mk("Foo", "num", "20200101T000000", 2), mk("Foo", "den", "20200101T000000", 4)}
	for pol := 0; pol < 2; pol++ {
		seriesCase(eq, 0, pol, r, []string{"corpus", "respelt"})
	}
	// one hash, two series stamps: the last cell-creating result names the point
	mv := []res{mk("Foo", "num", "2020-01-01T00:00:00Z", 1), mk("Foo", "den", "2020-01-01T00:00:00Z", 3), mk("Bar", "num", "2020-01-01T00:00:00Z", 2), mk("Bar", "den", "2020-01-01T00:00:00Z", 4)}
	mv[2].ser = "2020-02-09T00:00:00Z"
	seriesCase(mv, 0, 0, r, []string{"corpus", "hashmove"})
	// baseline hash of a trial is the first denominator's
	bh := []res{mk("Foo", "num", "2020-01-01T00:00:00Z", 1), mk("Foo", "den", "2020-01-01T00:00:00Z", 3), mk("Foo", "den", "2020-01-01T00:00:00Z", 4)}
	bh[2].dh = "xyz"
	seriesCase(bh, 0, 0, r, []string{"corpus", "denclash"})
	// table names collide
	tn := []res{mk("Foo", "num", "2020-01-01T00:00:00Z", 1), mk("Foo", "den", "2020-01-01T00:00:00Z", 3), mk("Foo", "num", "2020-01-01T00:00:00Z", 2), mk("Foo", "den", "2020-01-01T00:00:00Z", 4)}
	tn[0].table, tn[1].table = []string{"a b", "c"}, []string{"a b", "c"}
	tn[2].table, tn[3].table = []string{"a", "b c"}, []string{"a", "b c"}
	seriesCase(tn, 2, 0, r, []string{"corpus", "blank"})
	// shared baseline cell (see aliasShape)
	seriesCaseN(aliasShape(r, 5, 2), 0, 1, r, []string{"corpus", "alias", "multiexp", "multiser"}, 8)
	seriesCaseN(aliasShape(r, 5, 2), 0, 0, r, []string{"corpus", "alias", "multiexp", "multiser"}, 3)
	// cells with more than 32 measurements, Tip file first / Base file first, both policies
	seriesCaseN(bigShape(r, 2, false, false), 0, 0, r, []string{"corpus", "bigcell", "large"}, 2)
	seriesCaseN(bigShape(r, 2, true, true), 2, 1, r, []string{"corpus", "bigcell", "multiexp", "large"}, 2)
	// interleaving experiments of one point
	seriesCaseN(interleaveShape(r, 3, 2, false), 2, 1, r, []string{"corpus", "interleave", "multiexp"}, 3)
	seriesCaseN(interleaveShape(r, 3, 2, false), 2, 0, r, []string{"corpus", "interleave", "multiexp"}, 3)
	seriesCaseN(interleaveShape(r, 4, 1, true), 0, 1, r, []string{"corpus", "interleave", "multiexp"}, 3)
	// well-formed multi-experiment replace / combine
	wf := []res{mk("Foo", "num", "2020-01-01T00:00:00Z", 1), mk("Foo", "den", "2020-01-01T00:00:00Z", 3), mk("Foo", "num", "20200102T000000", 2), mk("Foo", "den", "20200102T000000", 4), mk("Foo", "num", "2020-01-01T00:00:00Z", 7)}
	for pol := 0; pol < 2; pol++ {
		seriesCase(wf, 2, pol, r, []string{"corpus", "multiexp"})
	}
}

// aliasShape: one experiment measures several numerator hashes (= several series points) against ONE
// baseline cell of nden samples (5 samples sit in a backing array of capacity 8), and every hash is
// measured again, with its own baseline, in a later experiment.  Under DUPE_COMBINE the points share the
// first baseline cell; a combine step that appends in place would let them overwrite each other.
func aliasShape(r *hx.Rand, nden, nhash int) []res {
	var rs []res
	mk := func(role, exp string, h int, v float64) res {
		return res{table: []string{"amd64", "linux"}, bench: "Foo", exp: exp, ser: stampsA[h], role: role, nh: "n" + strconv.Itoa(h), dh: "d", units: []string{"sec"}, vals: []float64{v}}
	}
	for i := 0; i < nden; i++ {
		rs = append(rs, mk("den", expsA[5], 0, float64(10+i)))
	}
	for h := 0; h < nhash; h++ {
		rs = append(rs, mk("num", expsA[5], h, float64(1+h)))
	}
	for h := 0; h < nhash; h++ {
		e := expsA[h%5]
		rs = append(rs, mk("num", e, h, float64(5+h)))
		rs = append(rs, mk("den", e, h, float64(20+10*h)+float64(r.Intn(4))))
	}
	return rs
}

// bigShape: cells with MORE than 32 measurements (33..80), several benchmarks x both roles in one Builder, added
// role by role (all numerator results first — "the Tip file" — then all baselines, or the other way round) so that
// cells are created next to each other and then keep growing; values identify their benchmark and role.
func bigShape(r *hx.Rand, nbench int, baseFirst bool, twoExp bool) []res {
	var nums, dens []res
	for bi := 0; bi < nbench; bi++ {
		nexp := 1
		if twoExp {
			nexp = 2
		}
		for e := 0; e < nexp; e++ {
			mk := func(role string, x float64) res {
				return res{table: []string{"amd64", "linux"}, bench: benches[bi], exp: expsA[e], ser: stampsA[0], role: role, nh: "n0", dh: "d0", units: []string{"ns/op"}, vals: []float64{x}}
			}
			na, nd := 33+r.Intn(48), 33+r.Intn(48)
			for j := 0; j < na; j++ {
				nums = append(nums, mk("num", float64(1000*(bi+1)+100*e)+float64(r.Intn(90))+float64(j)/128))
			}
			for j := 0; j < nd; j++ {
				dens = append(dens, mk("den", float64(10000*(bi+1)+100*e)+float64(r.Intn(90))+float64(j)/128))
			}
		}
	}
	if baseFirst {
		return append(dens, nums...)
	}
	return append(nums, dens...)
}

// interleaveShape: one point (benchmark, numerator hash) measured in nexp >= 3 experiments whose values
// interleave (experiment j holds j, j+nexp, j+2·nexp, …), numerators and baselines alike: under DUPE_COMBINE
// the combined samples are a concatenation of runs and must still be delivered ascending.
func interleaveShape(r *hx.Rand, nexp, per int, twoBench bool) []res {
	var rs []res
	benchN := 1
	if twoBench {
		benchN = 2
	}
	for bi := 0; bi < benchN; bi++ {
		for j := 0; j < nexp; j++ {
			for i := 0; i < per; i++ {
				v := float64(1 + j + i*nexp)
				mk := func(role string, x float64) res {
					return res{table: []string{"amd64", "linux"}, bench: benches[bi], exp: expsA[j], ser: stampsA[0], role: role, nh: "n0", dh: "d0", units: []string{"ns/op"}, vals: []float64{x}}
				}
				rs = append(rs, mk("num", v+float64(r.Intn(2))/4))
				rs = append(rs, mk("den", 2*v+1))
			}
		}
	}
	return rs
}

var unitPool = []string{"ns/op", "B/op", "allocs/op", "MB/s"}

var unitFilters = []string{".unit:B/op", ".unit:allocs/op", ".unit:(B/op OR allocs/op)", ".unit:ns/op", ".unit:(allocs/op OR MB/s)", ".unit:MB/s", "-.unit:ns/op"}

// reunit gives every result 2-4 units of unitPool in a random order (fixed leading ns/op half of the time, as
// go test prints it) with values that identify the unit.
func reunit(r *hx.Rand, rs []res) {
	for i := range rs {
		perm := []int{0, 1, 2, 3}
		for a := 3; a > 0; a-- {
			b := r.Intn(a + 1)
			perm[a], perm[b] = perm[b], perm[a]
		}
		if r.Bool() {
			for a, u := range perm {
				if u == 0 {
					perm[0], perm[a] = perm[a], perm[0]
				}
			}
		}
		k := 2 + r.Intn(3)
		rs[i].units, rs[i].vals = nil, nil
		for _, u := range perm[:k] {
			rs[i].units = append(rs[i].units, unitPool[u])
			rs[i].vals = append(rs[i].vals, float64(1000*(u+1)+r.Intn(40))+0.5)
		}
	}
}

// addDupUnits makes some results carry one unit two or three times with different values (every pair of a line
// is one measurement of its unit's cell); with tidy, the repeat may use another spelling that the Reader tidies to
// the same unit (MB/s ~ B/s, ns/op ~ sec/op).
func addDupUnits(r *hx.Rand, rs []res, tidy bool) {
	for i := range rs {
		if len(rs[i].units) == 0 || r.Chance(1, 3) {
			continue
		}
		reps := 1 + r.Intn(2)
		for k := 0; k < reps; k++ {
			j := r.Intn(len(rs[i].units))
			u, v := rs[i].units[j], rs[i].vals[j]+float64(100*(k+1))+float64(r.Intn(8))
			if tidy && r.Bool() {
				switch u {
				case "MB/s":
					u, v = "B/s", v*1e6+3
				case "B/s":
					u, v = "MB/s", float64(1+r.Intn(50))
				case "ns/op":
					u, v = "sec/op", float64(1+r.Intn(9))/8
				case "sec/op":
					u, v = "ns/op", float64(1000+r.Intn(50))
				}
			}
			// insert at a random position so that the repeats are not always last
			at := r.Intn(len(rs[i].units) + 1)
			rs[i].units = append(rs[i].units[:at], append([]string{u}, rs[i].units[at:]...)...)
			rs[i].vals = append(rs[i].vals[:at], append([]float64{v}, rs[i].vals[at:]...)...)
		}
	}
}

func dupUnitCases(r *hx.Rand) {
	mk := func(role string, units []string, vals []float64) res {
		return res{table: []string{"amd64", "linux"}, bench: "Foo", exp: expsA[0], ser: stampsA[0], role: role, nh: "n0", dh: "d0", units: units, vals: vals}
	}
	w := []res{mk("num", []string{"widgets/op", "widgets/op"}, []float64{100, 200}), mk("num", []string{"widgets/op", "widgets/op"}, []float64{300, 400}),
		mk("den", []string{"widgets/op", "widgets/op"}, []float64{150, 250})}
	m := []res{mk("num", []string{"ns/op", "B/op", "allocs/op", "B/op"}, []float64{10, 64, 2, 96}), mk("den", []string{"ns/op", "B/op", "allocs/op", "B/op"}, []float64{11, 65, 3, 97})}
	t := []res{mk("num", []string{"MB/s", "B/s"}, []float64{5, 7000000}), mk("den", []string{"B/s", "MB/s"}, []float64{6000000, 8})}
	for pol := 0; pol < 2; pol++ {
		seriesCase(w, 0, pol, r, []string{"corpus", "dupunit"})
		seriesCase(m, 2, pol, r, []string{"corpus", "dupunit", "multiunit"})
	}
	viaReader = true
	seriesCase(w, 0, 0, r, []string{"corpus", "dupunit", "reader"})
	seriesCase(m, 0, 1, r, []string{"corpus", "dupunit", "reader", "multiunit"})
	seriesCase(t, 0, 0, r, []string{"corpus", "dupunit", "reader", "tidy"})
	viaReader = false
	n := hx.N(40, 600)
	for i := 0; i < n; i++ {
		rs, nt, tags := genSeries(r, 2+r.Intn(6))
		rd := r.Chance(1, 2)
		if rd {
			for a := range rs {
				for b := range rs[a].units {
					rs[a].units[b] = []string{"MB/s", "ns/op", "allocs/op"}[b%3]
					rs[a].vals[b] = float64(1 + r.Intn(60))
				}
			}
			tags = append(tags, "reader")
		}
		addDupUnits(r, rs, rd)
		viaReader = rd
		seriesCase(rs, nt, r.Intn(2), r, append(tags, "dupunit"))
		viaReader = false
	}
}

// collideCases: a two-key table projection whose value tuples concatenate alike (arm/64hf vs arm64/hf, 1/16 vs
// 11/6, 1/12 vs 11/2): they are different tables and must stay apart (tables are keyed by the tuple).
func collideCases(r *hx.Rand) {
	pairs := [][2][]string{{{"arm", "64hf"}, {"arm64", "hf"}}, {{"1", "16"}, {"11", "6"}}, {{"1", "12"}, {"11", "2"}}, {{"a", "bc"}, {"ab", "c"}}}
	mk := func(tb []string, role string, v float64) res {
		return res{table: tb, bench: "Foo", exp: expsA[0], ser: stampsA[0], role: role, nh: "n0", dh: "d0", units: []string{"B/op"}, vals: []float64{v}}
	}
	for pi, p := range pairs[:3] {
		rs := []res{mk(p[0], "num", 1), mk(p[0], "den", 2), mk(p[1], "num", 30), mk(p[1], "den", 40), mk(p[0], "num", 3)}
		viaReader = pi == 1
		for pol := 0; pol < 2; pol++ {
			seriesCase(rs, 2, pol, r, []string{"corpus", "collide", "multitable"})
		}
	}
	viaReader = false
	n := hx.N(30, 450)
	for i := 0; i < n; i++ {
		rs, _, tags := genSeries(r, 3+r.Intn(6))
		p := pairs[r.Intn(len(pairs))]
		for a := range rs {
			rs[a].table = p[r.Intn(2)]
			for b := range rs[a].units {
				rs[a].units[b] = []string{"B/op", "allocs/op", "widgets/op"}[b%3]
			}
		}
		viaReader = r.Bool()
		if viaReader {
			tags = append(tags, "reader")
		}
		seriesCase(rs, 2, r.Intn(2), r, append(tags, "collide", "multitable"))
		viaReader = false
	}
}

// subsecCases: one point measured in experiments whose run stamps lie within ONE second (fractions; offsets that
// normalise into the same second): under replace the later INSTANT wins, whatever the adding and visiting order;
// under combine the Date is the later instant.
func subsecCases(r *hx.Rand) {
	groups := [][]string{
		{"2022-03-01T10:00:00.25Z", "2022-03-01T10:00:00.75Z"},
		{"2022-03-01T10:00:00Z", "2022-03-01T10:00:00.999999999Z"},
		{"2022-03-01T10:00:00.5Z", "2022-03-01T11:00:00.25+01:00", "2022-03-01T05:00:00.75-05:00"},
		{"20220301T100000", "2022-03-01T10:00:00.000000001Z"},
		{"2022-03-01T10:00:00.1Z", "2022-03-01T10:00:00.10000001Z", "2022-03-01T10:00:00.09Z"},
	}
	mk := func(bench, role, exp string, v float64) res {
		return res{table: []string{"amd64", "linux"}, bench: bench, exp: exp, ser: stampsA[0], role: role, nh: "n0", dh: "d0", units: []string{"B/op"}, vals: []float64{v}}
	}
	run := func(g []string, two bool, tags []string) {
		var rs []res
		for j, e := range g {
			rs = append(rs, mk("Foo", "num", e, float64(10*(j+1))), mk("Foo", "den", e, float64(100*(j+1))))
			if two && j < 2 {
				rs = append(rs, mk("Bar", "num", e, float64(7*(j+1))), mk("Bar", "den", e, float64(70*(j+1))))
			}
		}
		// keep the case small enough for all permutations when possible
		for pol := 0; pol < 2; pol++ {
			seriesCaseN(rs, 0, pol, r, tags, 4)
		}
	}
	for _, g := range groups {
		run(g[:2], false, []string{"corpus", "subsec", "multiexp"})
	}
	n := hx.N(12, 150)
	for i := 0; i < n; i++ {
		g := append([]string(nil), groups[r.Intn(len(groups))]...)
		for a := len(g) - 1; a > 0; a-- {
			b := r.Intn(a + 1)
			g[a], g[b] = g[b], g[a]
		}
		viaReader = r.Chance(1, 3)
		tags := []string{"subsec", "multiexp"}
		if viaReader {
			tags = append(tags, "reader")
		}
		run(g, r.Bool(), tags)
		viaReader = false
	}
}

// nanCases: cells containing NaN (one or several) and infinite measurements: the delivered series — values, their
// order (sort.Float64s puts NaN first), hash, summaries — must not depend on the adding order.
func nanCases(r *hx.Rand) {
	nan := math.NaN()
	mk := func(role string, v float64) res {
		return res{table: []string{"amd64", "linux"}, bench: "Foo", exp: expsA[0], ser: stampsA[0], role: role, nh: "n0", dh: "d0", units: []string{"B/op"}, vals: []float64{v}}
	}
	one := []res{mk("num", 30), mk("num", nan), mk("num", 20), mk("num", 25), mk("den", 10)}
	two := []res{mk("num", 3), mk("num", nan), mk("den", nan), mk("den", 2), mk("den", nan)}
	inf := []res{mk("num", math.Inf(1)), mk("num", 5), mk("den", math.Inf(-1)), mk("den", 7), mk("num", nan)}
	for pol := 0; pol < 2; pol++ {
		seriesCase(one, 0, pol, r, []string{"corpus", "nan"})
		seriesCase(two, 2, pol, r, []string{"corpus", "nan"})
	}
	viaReader = true
	seriesCase(one, 0, 0, r, []string{"corpus", "nan", "reader"})
	seriesCase(inf, 0, 1, r, []string{"corpus", "nan", "inf", "reader"})
	viaReader = false
	seriesCase(inf, 2, 0, r, []string{"corpus", "nan", "inf"})
	n := hx.N(40, 600)
	for i := 0; i < n; i++ {
		rs, nt, tags := genSeries(r, 3+r.Intn(6))
		viaReader = r.Chance(1, 2)
		for a := range rs {
			for b := range rs[a].vals {
				if viaReader {
					rs[a].units[b] = []string{"B/op", "allocs/op", "widgets/op"}[b%3]
				}
				switch r.Intn(6) {
				case 0, 1:
					rs[a].vals[b] = nan
				case 2:
					rs[a].vals[b] = math.Inf(1 - 2*r.Intn(2))
				}
			}
		}
		if viaReader {
			tags = append(tags, "reader")
		}
		seriesCase(rs, nt, r.Intn(2), r, append(tags, "nan"))
		viaReader = false
	}
}

// readerCases: the same result sets, but fed through one Reader over one log whose configuration lines change
// between blocks (role, experiment, series stamp, hashes, table keys); units that the Reader does not rescale.
func readerCases(r *hx.Rand) {
	defer func() { viaReader = false }()
	viaReader = true
	plain := []string{"B/op", "allocs/op", "widgets/op"}
	fix := func(rs []res) {
		for i := range rs {
			for j := range rs[i].units {
				rs[i].units[j] = plain[j%3]
			}
		}
	}
	mk := func(bench, role, exp string, v float64) res {
		return res{table: []string{"amd64", "linux"}, bench: bench, exp: exp, ser: "2020-02-02T00:00:00Z", role: role, nh: "abc", dh: "def", units: []string{"B/op"}, vals: []float64{v}}
	}
	// a log with the Tip block first and the Base block second, then a second experiment appended
	two := []res{mk("Foo", "num", expsA[0], 1), mk("Bar", "num", expsA[0], 2), mk("Foo", "den", expsA[0], 3), mk("Bar", "den", expsA[0], 4),
		mk("Foo", "num", expsA[4], 5), mk("Foo", "den", expsA[4], 6)}
	two[4].table = []string{"arm64", "linux"}
	two[5].table = []string{"arm64", "linux"}
	for pol := 0; pol < 2; pol++ {
		seriesCase(two, 2, pol, r, []string{"corpus", "reader", "multiexp", "multitable"})
	}
	n := hx.N(40, 600)
	for i := 0; i < n; i++ {
		rs, nt, tags := genSeries(r, 2+r.Intn(6))
		fix(rs)
		seriesCase(rs, nt, r.Intn(2), r, append(tags, "reader"))
	}
	nl := hx.N(10, 150)
	for i := 0; i < nl; i++ {
		rs, nt, tags := genSeries(r, 6+r.Intn(20))
		fix(rs)
		seriesCase(rs, nt, r.Intn(2), r, append(tags, "reader", "large"))
	}
}

func filteredCases(r *hx.Rand) {
	defer func() { curFilter = ".unit:/.*/" }()
	mk := func(role string, units []string, vals []float64) res {
		return res{table: []string{"amd64", "linux"}, bench: "Foo", exp: expsA[0], ser: stampsA[0], role: role, nh: "n0", dh: "d0", units: units, vals: vals}
	}
	benchmem := []res{mk("num", []string{"ns/op", "B/op", "allocs/op"}, []float64{100, 2000, 30}), mk("den", []string{"ns/op", "B/op", "allocs/op"}, []float64{110, 2100, 31}),
		mk("num", []string{"ns/op", "B/op", "allocs/op"}, []float64{101, 2001, 32})}
	for _, f := range unitFilters[:3] {
		curFilter = f
		seriesCase(benchmem, 0, 0, r, []string{"corpus", "filter"})
	}
	n := hx.N(40, 600)
	for i := 0; i < n; i++ {
		rs, nt, tags := genSeries(r, 2+r.Intn(5))
		reunit(r, rs)
		curFilter = hx.Pick(r, unitFilters)
		seriesCase(rs, nt, r.Intn(2), r, append(tags, "filter", "multiunit"))
	}
}

// heavyCase: a bootstrap too large for the model to replay (resamples x samples per resample in the millions).
// Judged from the samples alone: low <= centre <= high and all three within the attainable ratios.
func heavyCase(nu, de []float64, conf float64, n int, tag string) {
	cid := id
	id++
	hx.Printf("case %d kind=heavy nnu=%d nde=%d conf=%s n=%d tag=%s\n", cid, len(nu), len(de), hx.F64(conf), n, tag)
	defer func() {
		if e := recover(); e != nil {
			hx.Printf("crash %d %s\n", cid, strings.ReplaceAll(fmt.Sprint(e), "\n", " "))
		}
	}()
	cs, bn, sr := buildPoints([]point{{nu, de}})
	cs.AddSummaries(conf, n)
	sum, ok := cs.SummaryAt(bn[0], sr[0])
	if !ok || sum == nil || !sum.Present {
		panic("no summary")
	}
	mn := func(a []float64) (lo, hi float64) {
		lo, hi = a[0], a[0]
		for _, v := range a {
			lo, hi = math.Min(lo, v), math.Max(hi, v)
		}
		return
	}
	nl, nh := mn(nu)
	dl, dh := mn(de)
	lo, hi := nl/dh, nh/dl
	ord, in := 0, 0
	if sum.Low <= sum.Center && sum.Center <= sum.High {
		ord = 1
	}
	if lo <= sum.Low && sum.Low <= hi && lo <= sum.Center && sum.Center <= hi && lo <= sum.High && sum.High <= hi {
		in = 1
	}
	hx.Printf("sobs %d ord=%d in=%d\n", cid, ord, in)
}

func heavyCases(r *hx.Rand) {
	noisy := func(n int, base float64) []float64 {
		out := make([]float64, n)
		for i := range out {
			out[i] = base * (1 + r.Float()/10)
		}
		return out
	}
	heavyCase(noisy(20, 100), noisy(20, 90), 0.95, 150000, "heavy+resamples")
	if hx.Tier() == "thorough" {
		heavyCase(noisy(2500, 100), noisy(2500, 90), 0.95, 1000, "heavy+samples")
		heavyCase(noisy(25, 100), noisy(25, 90), 0.9, 100000, "heavy+resamples")
	}
}

// ---------------------------------------------------------------- bootstrap

func parseBits(s string) []float64 {
	if s == "-" || s == "" {
		return nil
	}
	var out []float64
	for _, p := range strings.Split(s, ".") {
		u, err := strconv.ParseUint(p, 16, 64)
		if err != nil {
			panic(err)
		}
		out = append(out, math.Float64frombits(u))
	}
	return out
}

func pctCase(a []float64, p float64, tag string) {
	cid := id
	id++
	hx.Printf("case %d kind=pct a=%s p=%s tag=%s\n", cid, bitsList(a), hx.F64(p), tag)
	defer func() {
		if e := recover(); e != nil {
			hx.Printf("crash %d %s\n", cid, strings.ReplaceAll(fmt.Sprint(e), "\n", " "))
		}
	}()
	med := "-"
	if len(a) > 0 {
		med = hx.F64(benchseries.VerifMedian(a))
	}
	hx.Printf("obs %d r=%s med=%s\n", cid, nanCanon(benchseries.VerifPercentile(a, p)), med)
}

func nanCanon(x float64) string {
	if math.IsNaN(x) {
		return "7ff8000000000001"
	}
	return hx.F64(x)
}

func bootCase(nu, de []float64, conf float64, n int, tag string) {
	cid := id
	id++
	defer func() {
		if e := recover(); e != nil {
			hx.Printf("crash %d %s\n", cid, strings.ReplaceAll(fmt.Sprint(e), "\n", " "))
		}
	}()
	// through the public path: Builder -> AllComparisonSeries -> AddSummaries
	b := newBuilder(0)
	add := func(role string, v float64) {
		b.Add(res{bench: "Foo", exp: "2021-01-01T00:00:00Z", ser: "2020-02-02T00:00:00Z", role: role, nh: "n", dh: "d", units: []string{"ns/op"}, vals: []float64{v}}.toResult())
	}
	for _, v := range nu {
		add("num", v)
	}
	for _, v := range de {
		add("den", v)
	}
	css, err := b.AllComparisonSeries(nil, benchseries.DUPE_REPLACE)
	if err != nil || len(css) != 1 {
		panic(fmt.Sprint("bootstrap set-up failed: ", err))
	}
	cs := css[0]
	c, ok := cs.ComparisonAt("Foo", cs.Series[0])
	if !ok {
		panic("no comparison")
	}
	seed := benchseries.VerifSeed(c)
	// the math/rand outputs ratio() consumes: per resample len(nu) draws of Intn(len(nu)), then len(de) of Intn(len(de))
	rng := rand.New(rand.NewSource(seed))
	var stream []string
	for i := 0; i < n; i++ {
		for range nu {
			stream = append(stream, strconv.Itoa(rng.Intn(len(nu))))
		}
		for range de {
			stream = append(stream, strconv.Itoa(rng.Intn(len(de))))
		}
	}
	st := "-"
	if len(stream) > 0 {
		st = strings.Join(stream, ",")
	}
	hx.Printf("case %d kind=boot nu=%s de=%s conf=%s n=%d stream=%s tag=%s\n", cid, bitsList(nu), bitsList(de), hx.F64(conf), n, st, tag)
	cs.AddSummaries(conf, n)
	sum := cs.Summaries[0][0]
	hx.Printf("obs %d seed=%016x hn=%016x l=%s c=%s h=%s\n", cid, uint64(seed), uint64(benchseries.VerifHash(nu)), nanCanon(sum.Low), nanCanon(sum.Center), nanCanon(sum.High))
	// reproducibility: a second, independently built series gives the same bits
	ord := 0
	if sum.Low <= sum.Center && sum.Center <= sum.High {
		ord = 1
	}
	in := "na"
	pos := true
	for _, v := range append(append([]float64{}, nu...), de...) {
		if !(v > 0) || math.IsInf(v, 0) {
			pos = false
		}
	}
	if pos {
		mn := func(a []float64) (lo, hi float64) {
			lo, hi = a[0], a[0]
			for _, v := range a {
				lo, hi = math.Min(lo, v), math.Max(hi, v)
			}
			return
		}
		nl, nh := mn(nu)
		dl, dh := mn(de)
		lo, hi := nl/dh, nh/dl
		in = "0"
		if lo <= sum.Low && sum.Low <= hi && lo <= sum.Center && sum.Center <= hi && lo <= sum.High && sum.High <= hi {
			in = "1"
		}
	}
	hx.Printf("sobs %d ord=%d in=%s\n", cid, ord, in)
}

// ---------------------------------------------------------------- several points in one AddSummaries call

type point struct{ nu, de []float64 }

// buildPoints puts every point at its own benchmark (and alternating series stamps) of one table.
func buildPoints(pts []point) (*benchseries.ComparisonSeries, []string, []string) {
	b := newBuilder(0)
	var benchNames, serNames []string
	for i, p := range pts {
		bn := "B" + strconv.Itoa(i)
		s := i % 2
		add := func(role string, v float64) {
			b.Add(res{bench: bn, exp: "2021-01-01T00:00:00Z", ser: stampsA[s], role: role, nh: "n" + strconv.Itoa(s), dh: "d", units: []string{"ns/op"}, vals: []float64{v}}.toResult())
		}
		for _, v := range p.nu {
			add("num", v)
		}
		for _, v := range p.de {
			add("den", v)
		}
		ser, _ := benchseries.NormalizeDateString(stampsA[s])
		benchNames = append(benchNames, bn)
		serNames = append(serNames, ser)
	}
	css, err := b.AllComparisonSeries(nil, benchseries.DUPE_REPLACE)
	if err != nil || len(css) != 1 {
		panic(fmt.Sprint("multi-point set-up failed: ", err))
	}
	return css[0], benchNames, serNames
}

// definedGrid renders Summaries[series][benchmark].Defined() row by row: a grid position is defined exactly
// when that point has numerator and baseline measurements.
func definedGrid(cs *benchseries.ComparisonSeries) string {
	var sb strings.Builder
	for i := range cs.Series {
		for j := range cs.Benchmarks {
			if cs.Summaries[i][j].Defined() {
				sb.WriteByte('1')
			} else {
				sb.WriteByte('0')
			}
		}
	}
	return sb.String()
}

func sumBits(s *benchseries.ComparisonSummary) string {
	return nanCanon(s.Low) + ":" + nanCanon(s.Center) + ":" + nanCanon(s.High)
}

// multiCase: one AddSummaries call over several points; every point's summary must be the summary its own
// samples produce alone (a fresh one-point series), and lie within the ratios attainable from its own samples.
func multiCase(pts []point, conf float64, n int, tag string) {
	cid := id
	id++
	defer func() {
		if e := recover(); e != nil {
			hx.Printf("crash %d %s\n", cid, strings.ReplaceAll(fmt.Sprint(e), "\n", " "))
		}
	}()
	cs, benchNames, serNames := buildPoints(pts)
	var enc []string
	for i, p := range pts {
		c, ok := cs.ComparisonAt(benchNames[i], serNames[i])
		if !ok {
			panic("no comparison")
		}
		var stream []string
		if len(p.de) > 0 { // a point without baseline is never bootstrapped
			rng := rand.New(rand.NewSource(benchseries.VerifSeed(c)))
			for k := 0; k < n; k++ {
				for range p.nu {
					stream = append(stream, strconv.Itoa(rng.Intn(len(p.nu))))
				}
				for range p.de {
					stream = append(stream, strconv.Itoa(rng.Intn(len(p.de))))
				}
			}
		}
		enc = append(enc, bitsList(p.nu)+";"+bitsList(p.de)+";"+strings.Join(stream, ","))
	}
	hx.Printf("case %d kind=multi conf=%s n=%d pts=%s tag=%s\n", cid, hx.F64(conf), n, strings.Join(enc, "|"), tag)
	cs.AddSummaries(conf, n)
	var sums, same, in []string
	for i, p := range pts {
		sum, ok := cs.SummaryAt(benchNames[i], serNames[i])
		if !ok || sum == nil {
			panic("no summary")
		}
		if len(p.de) == 0 {
			// incomplete point: no summary values; it must say so
			sums = append(sums, "-")
			in = append(in, "n")
			if sum.Present {
				same = append(same, "0")
			} else {
				same = append(same, "1")
			}
			continue
		}
		sums = append(sums, sumBits(sum))
		// the same samples alone
		one, b1, s1 := buildPoints([]point{p})
		one.AddSummaries(conf, n)
		ref, _ := one.SummaryAt(b1[0], s1[0])
		if sumBits(ref) == sumBits(sum) {
			same = append(same, "1")
		} else {
			same = append(same, "0")
		}
		pos := true
		for _, v := range append(append([]float64{}, p.nu...), p.de...) {
			if !(v > 0) || math.IsInf(v, 0) {
				pos = false
			}
		}
		if !pos {
			in = append(in, "n")
			continue
		}
		mn := func(a []float64) (lo, hi float64) {
			lo, hi = a[0], a[0]
			for _, v := range a {
				lo, hi = math.Min(lo, v), math.Max(hi, v)
			}
			return
		}
		nl, nh := mn(p.nu)
		dl, dh := mn(p.de)
		lo, hi := nl/dh, nh/dl
		if lo <= sum.Low && sum.Low <= hi && lo <= sum.Center && sum.Center <= hi && lo <= sum.High && sum.High <= hi {
			in = append(in, "1")
		} else {
			in = append(in, "0")
		}
	}
	def := definedGrid(cs)
	hx.Printf("obs %d sums=%s def=%s\n", cid, strings.Join(sums, ","), def)
	hx.Printf("sobs %d same=%s in=%s def=%s\n", cid, strings.Join(same, ""), strings.Join(in, ""), def)
}

func multiCases(r *hx.Rand) {
	// corpus: mirrored pair (benchmarks "Slower" / "Faster"), equal seeds through a zero hash
	a, b := []float64{10, 11, 12, 13}, []float64{20, 21, 23}
	multiCase([]point{{a, b}, {b, a}}, 0.95, 10, "corpus+mirror")
	multiCase([]point{{b, a}, {a, b}, {a, b}}, 0.9, 5, "corpus+mirror+identical")
	multiCase([]point{{[]float64{1, 2, 3}, []float64{0}}, {[]float64{7, 8}, []float64{0}}}, 0.9, 5, "corpus+seedzero")
	multiCase([]point{{[]float64{0}, []float64{1, 2}}, {[]float64{0}, []float64{4, 5, 6}}, {[]float64{3}, []float64{0}}}, 0.8, 4, "corpus+seedzero")
	multiCase([]point{{[]float64{100}, []float64{200}}, {[]float64{200}, []float64{100}}}, 0.95, 10, "corpus+mirror+exact")
	multiCase([]point{{a, b}, {b, nil}, {a, nil}, {b, a}}, 0.9, 5, "corpus+incomplete")
	big := func(n int, base float64) []float64 {
		out := make([]float64, n)
		for i := range out {
			out[i] = base + float64((i*37)%n) + 0.5
		}
		return out
	}
	multiCase([]point{{big(40, 100), big(35, 1000)}, {big(33, 5000), big(64, 300)}, {big(34, 7000), big(33, 9000)}}, 0.9, 5, "corpus+bigcell")
	nm := hx.N(120, 2000)
	confs := []float64{0.95, 0.9, 0.99, 0.8, 0.5}
	for i := 0; i < nm; i++ {
		npool := 2 + r.Intn(2)
		kind := r.Intn(4)
		pool := make([][]float64, npool)
		for j := range pool {
			pool[j] = genSample(r, 1+r.Intn(5), kind)
		}
		if r.Chance(1, 5) {
			pool[0] = []float64{0}
		}
		k := 2 + r.Intn(5)
		var pts []point
		tags := map[string]bool{}
		for len(pts) < k {
			x, y := r.Intn(npool), r.Intn(npool)
			pts = append(pts, point{pool[x], pool[y]})
			if x != y && len(pts) < k && r.Chance(1, 2) {
				pts = append(pts, point{pool[y], pool[x]})
				tags["mirror"] = true
			}
		}
		if r.Chance(1, 3) { // a point whose baseline is missing
			pts[r.Intn(len(pts))].de = nil
			tags["incomplete"] = true
		}
		for i := range pts {
			for j := 0; j < i; j++ {
				if len(pts[i].de) == 0 || len(pts[j].de) == 0 {
					continue
				}
				if &pts[i].nu[0] == &pts[j].nu[0] && &pts[i].de[0] == &pts[j].de[0] {
					tags["identical"] = true
				}
				if &pts[i].nu[0] == &pts[j].de[0] && &pts[i].de[0] == &pts[j].nu[0] && &pts[i].nu[0] != &pts[i].de[0] {
					tags["mirror"] = true
				}
			}
		}
		if len(pool[0]) == 1 && pool[0][0] == 0 {
			tags["seedzero"] = true
		}
		tl := []string{"multi"}
		for t := range tags {
			tl = append(tl, t)
		}
		sort.Strings(tl)
		multiCase(pts, hx.Pick(r, confs), []int{2, 3, 5, 10}[r.Intn(4)], strings.Join(tl, "+"))
	}
}

// ---------------------------------------------------------------- incremental history on ONE Builder

// addPart adds values [from,to) of every point's numerator and denominator samples.
func addPart(b *benchseries.Builder, pts []point, cut []([2]int), second bool) {
	for i, p := range pts {
		bn := "B" + strconv.Itoa(i)
		s := i % 2
		add := func(role string, v float64) {
			b.Add(res{bench: bn, exp: "2021-01-01T00:00:00Z", ser: stampsA[s], role: role, nh: "n" + strconv.Itoa(s), dh: "d", units: []string{"ns/op"}, vals: []float64{v}}.toResult())
		}
		nu, de := p.nu[:cut[i][0]], p.de[:cut[i][1]]
		if second {
			nu, de = p.nu[cut[i][0]:], p.de[cut[i][1]:]
		}
		for _, v := range nu {
			add("num", v)
		}
		for _, v := range de {
			add("den", v)
		}
	}
}

// incrCase: add part 1, build + summarise, add part 2 (landing in cells that were already built, sorted and
// hashed), build + summarise again.  The final summaries must be those of a fresh Builder given all results
// (a summary is a function of the point's final samples), and equal the model's, seeded from the final samples.
func incrCase(pts []point, cut []([2]int), conf float64, n int, tag string) {
	cid := id
	id++
	defer func() {
		if e := recover(); e != nil {
			hx.Printf("crash %d %s\n", cid, strings.ReplaceAll(fmt.Sprint(e), "\n", " "))
		}
	}()
	// the reference: everything added to a fresh Builder
	fresh, benchNames, serNames := buildPoints(pts)
	var enc []string
	for i, p := range pts {
		c, ok := fresh.ComparisonAt(benchNames[i], serNames[i])
		if !ok {
			panic("no comparison")
		}
		rng := rand.New(rand.NewSource(benchseries.VerifSeed(c)))
		var stream []string
		for k := 0; k < n; k++ {
			for range p.nu {
				stream = append(stream, strconv.Itoa(rng.Intn(len(p.nu))))
			}
			for range p.de {
				stream = append(stream, strconv.Itoa(rng.Intn(len(p.de))))
			}
		}
		enc = append(enc, bitsList(p.nu)+";"+bitsList(p.de)+";"+strings.Join(stream, ","))
	}
	hx.Printf("case %d kind=multi conf=%s n=%d pts=%s tag=%s\n", cid, hx.F64(conf), n, strings.Join(enc, "|"), tag)
	fresh.AddSummaries(conf, n)
	// the history on one Builder
	b := newBuilder(0)
	addPart(b, pts, cut, false)
	css, err := b.AllComparisonSeries(nil, benchseries.DUPE_REPLACE)
	if err != nil {
		panic(err)
	}
	for _, cs := range css {
		cs.AddSummaries(conf, n)
	}
	addPart(b, pts, cut, true)
	css, err = b.AllComparisonSeries(nil, benchseries.DUPE_REPLACE)
	if err != nil || len(css) != 1 {
		panic(fmt.Sprint("incremental rebuild failed: ", err))
	}
	cs := css[0]
	cs.AddSummaries(conf, n)
	var sums, same, in []string
	for i, p := range pts {
		sum, ok := cs.SummaryAt(benchNames[i], serNames[i])
		ref, ok2 := fresh.SummaryAt(benchNames[i], serNames[i])
		if !ok || !ok2 || sum == nil || ref == nil {
			panic("no summary")
		}
		sums = append(sums, sumBits(sum))
		if sumBits(ref) == sumBits(sum) {
			same = append(same, "1")
		} else {
			same = append(same, "0")
		}
		pos := true
		for _, v := range append(append([]float64{}, p.nu...), p.de...) {
			if !(v > 0) || math.IsInf(v, 0) {
				pos = false
			}
		}
		if !pos {
			in = append(in, "n")
			continue
		}
		mn := func(a []float64) (lo, hi float64) {
			lo, hi = a[0], a[0]
			for _, v := range a {
				lo, hi = math.Min(lo, v), math.Max(hi, v)
			}
			return
		}
		nl, nh := mn(p.nu)
		dl, dh := mn(p.de)
		lo, hi := nl/dh, nh/dl
		if lo <= sum.Low && sum.Low <= hi && lo <= sum.Center && sum.Center <= hi && lo <= sum.High && sum.High <= hi {
			in = append(in, "1")
		} else {
			in = append(in, "0")
		}
	}
	def := definedGrid(cs)
	hx.Printf("obs %d sums=%s def=%s\n", cid, strings.Join(sums, ","), def)
	hx.Printf("sobs %d same=%s in=%s def=%s\n", cid, strings.Join(same, ""), strings.Join(in, ""), def)
}

func incrCases(r *hx.Rand) {
	incrCase([]point{{[]float64{10, 11, 12, 13}, []float64{20, 21, 23}}}, [][2]int{{2, 2}}, 0.95, 10, "corpus+incr")
	incrCase([]point{{[]float64{10, 14, 12}, []float64{20, 21, 23, 19}}, {[]float64{5, 6}, []float64{7, 9, 8}}}, [][2]int{{1, 3}, {2, 1}}, 0.9, 5, "corpus+incr")
	{
		bigv := func(n int, base float64) []float64 {
			out := make([]float64, n)
			for i := range out {
				out[i] = base + float64((i*29)%n) + 0.25
			}
			return out
		}
		incrCase([]point{{bigv(50, 100), bigv(45, 1000)}, {bigv(40, 5000), bigv(36, 300)}}, [][2]int{{20, 30}, {35, 10}}, 0.9, 5, "corpus+incr+bigcell")
	}
	ni := hx.N(100, 1500)
	confs := []float64{0.95, 0.9, 0.99, 0.8, 0.5}
	for i := 0; i < ni; i++ {
		k := 1 + r.Intn(4)
		kind := r.Intn(4)
		var pts []point
		var cut [][2]int
		tag := "incr"
		for j := 0; j < k; j++ {
			p := point{genSample(r, 2+r.Intn(5), kind), genSample(r, 2+r.Intn(5), kind)}
			pts = append(pts, p)
			// part 1 holds at least one value of each role for most points (so the cells are built and hashed),
			// sometimes a whole role or the whole point arrives only in part 2
			c := [2]int{1 + r.Intn(len(p.nu)-1), 1 + r.Intn(len(p.de)-1)}
			switch r.Intn(8) {
			case 0:
				c[0] = 0
			case 1:
				c[1] = 0
			case 2:
				c = [2]int{0, 0}
			case 3:
				c = [2]int{len(p.nu), len(p.de)}
			}
			cut = append(cut, c)
		}
		incrCase(pts, cut, hx.Pick(r, confs), []int{2, 3, 5, 10}[r.Intn(4)], tag)
	}
}

// ---------------------------------------------------------------- JSON round trip of a summarised series + more results

// jsonCase: summarise the old points, write the series as JSON, read it back, hand it to AllComparisonSeries as
// `existing` together with a Builder that holds only NEW points (other benchmarks of the same table), summarise.
// The restored summaries must survive bit for bit, the new points must get the summaries their samples produce
// alone, the axes are the sorted unions.  (Overlapping old/new points are a TODO in the code and are not generated.)
func jsonCase(old, fresh []point, conf float64, n int, tag string) {
	cid := id
	id++
	hx.Printf("case %d kind=json nold=%d nnew=%d conf=%s n=%d tag=%s\n", cid, len(old), len(fresh), hx.F64(conf), n, tag)
	defer func() {
		if e := recover(); e != nil {
			hx.Printf("crash %d %s\n", cid, strings.ReplaceAll(fmt.Sprint(e), "\n", " "))
		}
	}()
	cs0, bn0, sr0 := buildPoints(old)
	cs0.AddSummaries(conf, n)
	var want []string
	for i := range old {
		sum, _ := cs0.SummaryAt(bn0[i], sr0[i])
		want = append(want, sumBits(sum)+"@"+sum.Date)
	}
	data, err := json.Marshal([]*benchseries.ComparisonSeries{cs0})
	if err != nil {
		panic(err)
	}
	var restored []*benchseries.ComparisonSeries
	if err := json.Unmarshal(data, &restored); err != nil {
		panic(err)
	}
	// the new points sit at benchmarks after the old ones
	b := newBuilder(0)
	var bn1, sr1 []string
	for i, p := range fresh {
		bn := "B" + strconv.Itoa(len(old)+i)
		s := i % 2
		add := func(role string, v float64) {
			b.Add(res{bench: bn, exp: "2021-01-01T00:00:00Z", ser: stampsA[s], role: role, nh: "n" + strconv.Itoa(s), dh: "d", units: []string{"ns/op"}, vals: []float64{v}}.toResult())
		}
		for _, v := range p.nu {
			add("num", v)
		}
		for _, v := range p.de {
			add("den", v)
		}
		ser, _ := benchseries.NormalizeDateString(stampsA[s])
		bn1, sr1 = append(bn1, bn), append(sr1, ser)
	}
	css, err := b.AllComparisonSeries(restored, benchseries.DUPE_REPLACE)
	if err != nil || len(css) != 1 {
		panic(fmt.Sprint("merge failed: ", err, len(css)))
	}
	cs := css[0]
	kept, newsame := 1, 1
	if len(fresh) == 0 {
		// No new result for this unit: AllComparisonSeries hands the restored series back untouched (its cells are
		// not rebuilt).  Judged here: the summaries grid is intact.  NOT judged (recorded finding, notes/C18.md,
		// corpus/C18/N9_json_wipe_test.go.txt): a following AddSummaries call replaces every restored summary by an
		// empty one, because it looks points up in the cell map that was never rebuilt.
		for i := range old {
			var sum *benchseries.ComparisonSummary
			for si, sr := range cs.Series {
				for bi, bn := range cs.Benchmarks {
					if sr == sr0[i] && bn == bn0[i] {
						sum = cs.Summaries[si][bi]
					}
				}
			}
			if sum == nil || !sum.Defined() || sumBits(sum)+"@"+sum.Date != want[i] {
				kept = 0
			}
		}
	} else {
		cs.AddSummaries(conf, n)
		for i := range old {
			sum, ok := cs.SummaryAt(bn0[i], sr0[i])
			if !ok || sum == nil || !sum.Defined() || sumBits(sum)+"@"+sum.Date != want[i] {
				kept = 0
			}
		}
	}
	for i, p := range fresh {
		one, b1, s1 := buildPoints([]point{p})
		one.AddSummaries(conf, n)
		ref, _ := one.SummaryAt(b1[0], s1[0])
		sum, ok := cs.SummaryAt(bn1[i], sr1[i])
		if !ok || sum == nil || !sum.Defined() || sumBits(sum) != sumBits(ref) {
			newsame = 0
		}
	}
	union := func(a, b []string) []string {
		m := map[string]bool{}
		for _, x := range append(append([]string{}, a...), b...) {
			m[x] = true
		}
		var out []string
		for x := range m {
			out = append(out, x)
		}
		sort.Strings(out)
		return out
	}
	axes := 0
	if strings.Join(cs.Benchmarks, ",") == strings.Join(union(bn0, bn1), ",") && strings.Join(cs.Series, ",") == strings.Join(union(sr0, sr1), ",") {
		axes = 1
	}
	hx.Printf("sobs %d kept=%d newsame=%d axes=%d\n", cid, kept, newsame, axes)
}

func jsonCases(r *hx.Rand) {
	a, b := []float64{10, 11, 12, 13}, []float64{20, 21, 23}
	jsonCase([]point{{a, b}, {b, a}}, []point{{a, a}, {b, b}}, 0.95, 10, "corpus+json")
	jsonCase([]point{{a, b}}, nil, 0.9, 5, "corpus+json+nonew")
	nj := hx.N(40, 600)
	for i := 0; i < nj; i++ {
		kind := r.Intn(4)
		mk := func(k int) []point {
			var out []point
			for j := 0; j < k; j++ {
				out = append(out, point{genSample(r, 1+r.Intn(5), kind), genSample(r, 1+r.Intn(5), kind)})
			}
			return out
		}
		jsonCase(mk(1+r.Intn(3)), mk(r.Intn(4)), hx.Pick(r, []float64{0.95, 0.9, 0.8}), []int{2, 3, 5, 10}[r.Intn(4)], "json")
	}
}

func genSample(r *hx.Rand, n int, kind int) []float64 {
	out := make([]float64, n)
	base := float64(1 + r.Intn(1000))
	for i := range out {
		switch kind {
		case 0: // noisy positive
			out[i] = base * (1 + r.Float()/10)
		case 1: // exact metric: all equal
			out[i] = base
		case 2: // few distinct
			out[i] = base + float64(r.Intn(3))
		case 3: // awkward mantissas
			out[i] = (0.5 + r.Float()*3)
		case 6: // subnormal positives: small multiples of the smallest float
			out[i] = float64(1+r.Intn(8)) * math.SmallestNonzeroFloat64
		case 5: // magnitudes whose ratios overflow to +Inf / underflow to 0
			out[i] = []float64{1e300, 1e-300, 1, 2, 1e300}[r.Intn(5)]
		default: // zeros and negatives
			out[i] = float64(r.Intn(5) - 2)
		}
	}
	return out
}

func bootstrapCases(r *hx.Rand) {
	confs := []float64{0.95, 0.9, 0.99, 0.8, 0.5, 0.3, 0.1, 0.05, 0.45, 0.6, 0, 1, 0.999}
	// corpus: N3 witness
	bootCase([]float64{1, 2, 3, 5}, []float64{1, 2, 7}, 0.1, 2, "corpus+N3")
	bootCase([]float64{1, 2, 3, 5}, []float64{1, 2, 7}, 0.95, 2, "corpus")
	bootCase([]float64{0.8867946308404681}, []float64{1}, 0.8, 3, "corpus+equal")
	nsmall := hx.N(700, 8000)
	for i := 0; i < nsmall; i++ {
		n := []int{2, 3, 10, 4, 5, 1}[r.Intn(6)]
		kind := r.Intn(5)
		if r.Chance(1, 2) {
			kind = r.Intn(4)
		}
		nu := genSample(r, 1+r.Intn(6), kind)
		de := genSample(r, 1+r.Intn(6), kind)
		bootCase(nu, de, hx.Pick(r, confs), n, "n"+strconv.Itoa(n)+"+k"+strconv.Itoa(kind))
	}
	// overflowing ratios: the percentile must not multiply an infinite neighbour by a zero weight
	bootCase([]float64{1e300, 1, 1e300}, []float64{1e-300, 1}, 0.5, 4, "corpus+huge")
	bootCase([]float64{1e300, 1}, []float64{1e-300, 1}, 0, 2, "corpus+huge")
	nh := hx.N(120, 1500)
	for i := 0; i < nh; i++ {
		n := []int{2, 4, 10, 3, 5}[r.Intn(5)]
		bootCase(genSample(r, 1+r.Intn(4), 5), genSample(r, 1+r.Intn(4), 5), []float64{0.5, 0, 0.8, 0.6, 0.9}[r.Intn(5)], n, "n"+strconv.Itoa(n)+"+huge")
	}
	// subnormal samples in cells of even length (the median averages two of them)
	sub := func(ks ...int) []float64 {
		out := make([]float64, len(ks))
		for i, k := range ks {
			out[i] = float64(k) * math.SmallestNonzeroFloat64
		}
		return out
	}
	bootCase(sub(4, 4, 4, 4), sub(1, 1, 1, 1), 0.9, 5, "corpus+subnormal")
	bootCase(sub(6, 6, 8, 8), sub(1, 1, 2, 2), 0.9, 5, "corpus+subnormal")
	bootCase([]float64{1e-300, 1e-300}, sub(1, 1), 0.9, 5, "corpus+subnormal")
	bootCase(sub(3, 5), sub(1, 3, 5, 7), 0.8, 10, "corpus+subnormal")
	nsub := hx.N(150, 2000)
	for i := 0; i < nsub; i++ {
		n := []int{2, 3, 5, 10, 4}[r.Intn(5)]
		nu := genSample(r, 2*(1+r.Intn(3)), 6)
		if r.Chance(1, 4) {
			nu = genSample(r, 2*(1+r.Intn(3)), 3)
			for j := range nu {
				nu[j] *= 1e-300
			}
		}
		de := genSample(r, 2*(1+r.Intn(3)), 6)
		bootCase(nu, de, []float64{0.9, 0.8, 0.95, 0.99, 0.6}[r.Intn(5)], n, "n"+strconv.Itoa(n)+"+subnormal")
	}
	nbig := hx.N(6, 60)
	for i := 0; i < nbig; i++ {
		kind := r.Intn(4)
		nu := genSample(r, 1+r.Intn(10), kind)
		de := genSample(r, 1+r.Intn(10), kind)
		bootCase(nu, de, hx.Pick(r, confs[:6]), 500, "n500+k"+strconv.Itoa(kind))
	}
	// percentile / median alone, on sorted arrays
	npct := hx.N(1500, 20000)
	for i := 0; i < npct; i++ {
		n := 1 + r.Intn(12)
		a := genSample(r, n, r.Intn(5))
		if r.Chance(1, 8) {
			a[r.Intn(n)] = math.Inf(1)
		}
		sort.Float64s(a)
		var p float64
		switch r.Intn(6) {
		case 0:
			p = 0
		case 1:
			p = 1
		case 2:
			p = float64(r.Intn(n+1)) / float64(n)
		case 3:
			p = (1 - hx.Pick(r, confs)) / 2
		case 4:
			p = 1 - (1-hx.Pick(r, confs))/2
		default:
			p = r.Float()
		}
		if p >= 1 {
			p = 1
		}
		pctCase(a, p, "pct")
	}
	pctCase(nil, 0.5, "pct+empty")
}

// ---------------------------------------------------------------- dates

func dateCase(in string, tag string) {
	cid := id
	id++
	hx.Printf("case %d kind=date in=%s tag=%s\n", cid, hx.HexS(in), tag)
	defer func() {
		if e := recover(); e != nil {
			hx.Printf("crash %d %s\n", cid, strings.ReplaceAll(fmt.Sprint(e), "\n", " "))
		}
	}()
	out, err := benchseries.NormalizeDateString(in)
	if err != nil {
		hx.Printf("obs %d out=!err\n", cid)
		return
	}
	hx.Printf("obs %d out=%s\n", cid, hx.HexS(out))
}

func datePair(a, b string, tag string) {
	cid := id
	id++
	hx.Printf("case %d kind=dpair a=%s b=%s tag=%s\n", cid, hx.HexS(a), hx.HexS(b), tag)
	defer func() {
		if e := recover(); e != nil {
			hx.Printf("crash %d %s\n", cid, strings.ReplaceAll(fmt.Sprint(e), "\n", " "))
		}
	}()
	na, err1 := benchseries.NormalizeDateString(a)
	nb, err2 := benchseries.NormalizeDateString(b)
	if err1 != nil || err2 != nil {
		hx.Printf("sobs %d same=na lt=na\n", cid)
		return
	}
	bi := func(x bool) int {
		if x {
			return 1
		}
		return 0
	}
	hx.Printf("sobs %d same=%d lt=%d\n", cid, bi(na == nb), bi(na < nb))
}

type inst struct {
	y, mo, d, h, mi, s int
	frac               string // digits, may be empty
}

var mdays = []int{31, 28, 31, 30, 31, 30, 31, 31, 30, 31, 30, 31}

func leap(y int) bool { return y%4 == 0 && (y%100 != 0 || y%400 == 0) }

func genInst(r *hx.Rand) inst {
	var t inst
	switch r.Intn(6) {
	case 0:
		t.y = []int{1, 2, 1969, 1970, 1999, 2000, 2100, 9998, 2024, 1900}[r.Intn(10)]
	default:
		t.y = 2019 + r.Intn(4)
	}
	t.mo = 1 + r.Intn(12)
	if r.Chance(1, 4) {
		t.mo = []int{1, 2, 3, 12}[r.Intn(4)]
	}
	md := mdays[t.mo-1]
	if t.mo == 2 && leap(t.y) {
		md = 29
	}
	t.d = 1 + r.Intn(md)
	if r.Chance(1, 3) {
		t.d = []int{1, md}[r.Intn(2)]
	}
	t.h, t.mi, t.s = r.Intn(24), r.Intn(60), r.Intn(60)
	if r.Chance(1, 4) {
		t.h, t.mi, t.s = []int{0, 23}[r.Intn(2)], []int{0, 59}[r.Intn(2)], []int{0, 59}[r.Intn(2)]
	}
	switch r.Intn(5) {
	case 0, 1:
	case 2:
		t.frac = []string{"5", "25", "50", "000", "000000001", "999999999", "1234567891", "120", "0"}[r.Intn(9)]
	default:
		n := 1 + r.Intn(9)
		for i := 0; i < n; i++ {
			t.frac += strconv.Itoa(r.Intn(10))
		}
	}
	return t
}

// spell writes the instant (given as UTC fields) in one of the accepted spellings.
func (t inst) spell(r *hx.Rand, style int) string {
	if style == 0 && t.frac == "" { // compact form, UTC, whole seconds
		return fmt.Sprintf("%04d%02d%02dT%02d%02d%02d", t.y, t.mo, t.d, t.h, t.mi, t.s)
	}
	frac := ""
	if t.frac != "" {
		frac = "." + t.frac
		if style == 3 {
			frac = "," + t.frac
		}
	}
	if style <= 1 {
		return fmt.Sprintf("%04d-%02d-%02dT%02d:%02d:%02d%sZ", t.y, t.mo, t.d, t.h, t.mi, t.s, frac)
	}
	// local time at an offset: shift the fields with Go's own calendar (only to *spell* the input)
	offMin := []int{60, -60, 330, -480, 845, -1, 1439, 0, -720}[r.Intn(9)]
	secs := t.s
	loc := timeFields(t.y, t.mo, t.d, t.h, t.mi, secs, offMin)
	sign := '+'
	o := offMin
	if o < 0 {
		sign = '-'
		o = -o
	}
	return fmt.Sprintf("%s%s%c%02d:%02d", loc, frac, sign, o/60, o%60)
}

// timeFields spells the UTC instant as local date-time fields at the given offset.
func timeFields(y, mo, d, h, mi, s, offMin int) string {
	return time.Date(y, time.Month(mo), d, h, mi, s, 0, time.UTC).Add(time.Duration(offMin) * time.Minute).Format("2006-01-02T15:04:05")
}

func dateCases(r *hx.Rand) {
	fixed := []string{"2020-01-01T00:00:00Z", "20200101T000000", "2020-01-01T01:00:00+01:00", "2020-01-01T00:00:00.5Z", "2020-01-01T00:00:00,5Z", "2020-01-01t00:00:00z",
		"2020-01-01T00:00:00.1234567891Z", "2020-01-01T00:00:00.120Z", "2020-02-30T00:00:00Z", "2020-01-01T24:00:00Z", "2020-01-01T00:00:60Z", "2020-01-01T00:00:00+23:59", "2020-01-01T00:00:00-00:00",
		"2020-01-01T00:00:00", "2020-1-01T00:00:00Z", "20201301T000000", "2020-01-01 00:00:00Z", "2020-01-01T00:00:00+0100", "2020-01-01T00:00:00.Z",
		" 2020-01-01T00:00:00Z", "2020-01-01T00:00:00Z\n", "20200101T000000\n", "2021-02-29T00:00:00Z", "2020-02-29T00:00:00Z", "1900-02-29T00:00:00Z", "2000-02-29T00:00:00Z",
		"2020-00-10T00:00:00Z", "2020-01-00T00:00:00Z", "2020-01-01T00:00:00+1:00", "2020-04-31T00:00:00Z", "", "yesterday", "20200101T0000", "20200101T0000000", "2020-12-31T23:59:59.999999999-00:01",
		"20200229T235959", "20210229T000000", "20200101T240000", "20200101T006000", "20200101T000060", "2020-01-01T00:00:00.000000000Z", "2020-01-01T00:00:00.000Z", "2020-06-15T12:00:00+05:30", "2020-03-01T00:30:00+01:00", "2021-03-01T00:30:00+01:00", "2021-01-01T00:00:00+14:00",
		"2022-03-04T10:00:51.500000+00:00", "2022-03-04T10:00:51.5Z", "2022-03-04T10:00:51.000+00:00", "2022-03-04T9:00:51+00:00", "2022-03-04T10:00:51,25+00:00", "2022-03-04T10:00:51.1234567890+00:00", "2022-03-04T10:00:51+00:00"}
	for _, s := range fixed {
		dateCase(s, "fixed")
	}
	n := hx.N(2500, 40000)
	for i := 0; i < n; i++ {
		t := genInst(r)
		st := r.Intn(4)
		s := t.spell(r, st)
		tag := "style" + strconv.Itoa(st)
		if t.frac != "" {
			tag += "+frac"
		}
		if r.Chance(1, 12) { // damage one character
			b := []byte(s)
			j := r.Intn(len(b))
			b[j] = "0159-:TZ+. "[r.Intn(11)]
			s = string(b)
			tag += "+damaged"
		}
		dateCase(s, tag)
	}
	// spellings that already end in "+00:00" must still be canonicalised
	datePair("2022-03-04T10:00:51.500000+00:00", "2022-03-04T10:00:51.5Z", "fixed+same+zero")
	datePair("2022-03-04T10:00:51.000+00:00", "20220304T100051", "fixed+same+zero")
	datePair("2022-03-04T9:00:51+00:00", "2022-03-04T09:00:51Z", "fixed+same+zero")
	datePair("2022-03-04T10:00:51,5+00:00", "2022-03-04T11:00:51.50+01:00", "fixed+same+zero")
	datePair("2022-03-04T10:00:51.50+00:00", "2022-03-04T10:00:51.6+00:00", "fixed+frac+zero")
	m := hx.N(2500, 40000)
	for i := 0; i < m; i++ {
		t := genInst(r)
		u := t
		tag := "same"
		switch r.Intn(4) {
		case 0: // same instant, two spellings (fractions: trailing zeros do not matter)
			if u.frac != "" && r.Bool() {
				u.frac += "0"
			}
		case 1: // differ in the fraction only
			u.frac = genInst(r).frac
			tag = "frac"
		case 2: // neighbouring second / minute / day
			u = genInst(r)
			u.y, u.mo, u.d = t.y, t.mo, t.d
			tag = "sameday"
		default:
			u = genInst(r)
			tag = "far"
		}
		datePair(t.spell(r, r.Intn(4)), u.spell(r, r.Intn(4)), tag)
	}
}

func main() {
	defer hx.Flush()
	devnull, _ = os.OpenFile(os.DevNull, os.O_WRONLY, 0)
	r := newR(18)
	corpusSeries(r)
	n := hx.N(260, 4000)
	for i := 0; i < n; i++ {
		rs, nt, tags := genSeries(r, 2+r.Intn(4))
		pol := r.Intn(2)
		seriesCase(rs, nt, pol, r, tags)
	}
	// Builder filters selecting a proper subset of the units of a line, not necessarily the leading ones; lines carry
	// 2-4 units in varying order; every selected unit gets its own table holding exactly ITS measurements
	filteredCases(r)
	readerCases(r)
	dupUnitCases(r)
	collideCases(r)
	subsecCases(r)
	nanCases(r)
	nl := hx.N(60, 1000)
	for i := 0; i < nl; i++ {
		rs, nt, tags := genSeries(r, 6+r.Intn(20))
		seriesCase(rs, nt, r.Intn(2), r, append(tags, "large"))
	}
	na := hx.N(8, 150)
	for i := 0; i < na; i++ {
		seriesCaseN(aliasShape(r, []int{5, 3, 6, 2}[r.Intn(4)], 2+r.Intn(2)), 0, 1, r, []string{"alias", "multiexp", "multiser", "large"}, 4)
	}
	nbc := hx.N(4, 40)
	for i := 0; i < nbc; i++ {
		two := r.Bool()
		tg := []string{"bigcell", "large"}
		if two {
			tg = append(tg, "multiexp")
		}
		seriesCaseN(bigShape(r, 2+r.Intn(2), r.Bool(), two), []int{0, 2}[r.Intn(2)], r.Intn(2), r, tg, 2)
	}
	ni := hx.N(8, 150)
	for i := 0; i < ni; i++ {
		seriesCaseN(interleaveShape(r, 3+r.Intn(3), 1+r.Intn(3), r.Bool()), []int{0, 2}[r.Intn(2)], 1, r, []string{"interleave", "multiexp", "large"}, 3)
	}
	bootstrapCases(r)
	heavyCases(r)
	multiCases(r)
	incrCases(r)
	jsonCases(r)
	dateCases(r)
}
