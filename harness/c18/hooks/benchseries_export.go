//go:build verif

package benchseries

import (
	"math/rand"

	"golang.org/x/perf/benchfmt"
)

// VerifProj holds the string values of every projection Builder.Add applies to one result.
type VerifProj struct {
	Kept                                     bool
	Units                                    []string
	Values                                   []float64
	Table                                    []string
	Bench, Exp, Ser, Cmp, NumHash, DenHash   string
	Residue                                  string
	TableString                              string
	NumCompareVal, DenCompareVal             string
}

// VerifProject applies the Builder's own filter and projections to result (which is modified
// by the filter exactly as Add would) without adding it to any table.
func (b *Builder) VerifProject(result *benchfmt.Result) VerifProj {
	var p VerifProj
	p.NumCompareVal, p.DenCompareVal = b.numCompareVal, b.denCompareVal
	if ok, _ := b.filter.Apply(result); !ok {
		return p
	}
	p.Kept = true
	for i, u := range b.unitBy.ProjectValues(result) {
		p.Units = append(p.Units, u.StringValues())
		p.Values = append(p.Values, result.Values[i].Value)
	}
	tk := b.tableBy.Project(result)
	for _, f := range b.tableBy.FlattenedFields() {
		p.Table = append(p.Table, tk.Get(f))
	}
	p.TableString = tk.StringValues()
	p.Exp = b.experimentBy.Project(result).StringValues()
	p.Bench = b.benchBy.Project(result).StringValues()
	p.Ser = b.seriesBy.Project(result).StringValues()
	p.Cmp = b.compareBy.Project(result).StringValues()
	p.NumHash = b.numHashBy.Project(result).StringValues()
	p.DenHash = b.denHashBy.Project(result).StringValues()
	p.Residue = b.residue.Project(result).String()
	return p
}

// VerifContrib is one (trial, test) pair of a table as AllComparisonSeries sees it.
type VerifContrib struct {
	Table                            string // unit string + " " + table string, as AllComparisonSeries names it
	Bench, Exp, Hash, Ser, BaseHash  string
	HasBase                          bool
}

// VerifContribs lists every (trial, test hash) pair of the real tables (in map order: callers
// must treat it as a set), together with the raw strings AllComparisonSeries derives from it.
func (b *Builder) VerifContribs() (tables []string, out []VerifContrib) {
	for _, u := range sortTableKeys(b.tables) {
		t := b.tables[u]
		uString := u.unit.StringValues()
		if ts := u.table.StringValues(); ts != "" {
			uString += " " + u.table.StringValues()
		}
		tables = append(tables, uString)
		for tk, tr := range t.cells {
			for hash := range tr.tests {
				out = append(out, VerifContrib{
					Table: uString, Bench: tk.Benchmark.StringValues(), Exp: tk.Experiment.StringValues(),
					Hash: hash.StringValues(), Ser: b.hashToOrder[hash].StringValues(),
					BaseHash: tr.baselineHashString, HasBase: tr.baseline != nil,
				})
			}
		}
	}
	return
}

// VerifSeed is the seed withBootstrap derives from the two cells of a comparison.
func VerifSeed(c *Comparison) int64 { return c.Numerator.hash() * c.Denominator.hash() }

func VerifHash(vals []float64) int64 { return (&Cell{Values: vals}).hash() }

func VerifPercentile(a []float64, p float64) float64 { return percentile(a, p) }
func VerifMedian(a []float64) float64               { return median(a) }

// VerifRatio runs the bootstrap on explicit samples with the given source.
func VerifRatio(nu, de []float64, confidence float64, seed int64, n int) (center, low, high float64, ratios []float64) {
	ratios = make([]float64, n)
	r := rand.New(rand.NewSource(seed))
	center, low, high = ratio(&Cell{Values: nu}, &Cell{Values: de}, confidence, r, ratios)
	return
}
