//go:build verif

package main

import (
	"fmt"
	"math"
	"os"
	"sort"

	"golang.org/x/perf/benchfmt"
	"golang.org/x/perf/benchseries"
)

func mkRes(name string, cfg [][2]string, vals ...benchfmt.Value) *benchfmt.Result {
	r := &benchfmt.Result{Name: benchfmt.Name(name), Iters: 1, Values: vals}
	for _, kv := range cfg {
		r.SetConfig(kv[0], kv[1])
	}
	return r
}

func explore() {
	// N3
	for _, n := range []int{2, 3, 4, 5, 10} {
		for _, conf := range []float64{0.05, 0.1, 0.3, 0.45, 0.5, 0.6, 0.95} {
			c, l, h, rs := benchseries.VerifRatio([]float64{1, 2, 3, 5}, []float64{1, 2, 7}, conf, 12345, n)
			p := (1 - conf) / 2
			fmt.Fprintf(os.Stderr, "N=%d conf=%v Np=%v (N-1)/2=%v low=%v c=%v high=%v ord=%v ratios=%v\n", n, conf, float64(n)*p, float64(n-1)/2, l, c, h, l <= c && c <= h, rs)
		}
	}
	// interpolation between equal neighbours
	bad := 0
	r := newR(99)
	for i := 0; i < 2000000 && bad < 5; i++ {
		c := 0.5 + r.Float()*3
		n := []int{2, 3, 10, 500, 1000}[r.Intn(5)]
		conf := []float64{0.95, 0.9, 0.99, 0.8, 0.5}[r.Intn(5)]
		a := make([]float64, n)
		for j := range a {
			a[j] = c
		}
		p := (1 - conf) / 2
		lo := benchseries.VerifPercentile(a, p)
		hi := benchseries.VerifPercentile(a, 1-p)
		if lo != c || hi != c {
			bad++
			fmt.Fprintf(os.Stderr, "equal-neighbour interpolation: c=%v (%x) n=%d conf=%v lo=%x hi=%x\n", c, math.Float64bits(c), n, conf, math.Float64bits(lo), math.Float64bits(hi))
		}
	}
	fmt.Fprintf(os.Stderr, "equal-neighbour bad=%d\n", bad)
	for _, n := range []int{1000, 500} {
		for _, conf := range []float64{0.95, 0.9, 0.99} {
			badLo, badHi, tot := 0, 0, 20000
			var ex float64
			for i := 0; i < tot; i++ {
				c := 0.5 + r.Float()*3
				a := make([]float64, n)
				for j := range a {
					a[j] = c
				}
				p := (1 - conf) / 2
				if benchseries.VerifPercentile(a, p) != c {
					badLo++
					ex = c
				}
				if benchseries.VerifPercentile(a, 1-p) != c {
					badHi++
				}
			}
			fmt.Fprintf(os.Stderr, "prod n=%d conf=%v: lo!=c %d/%d hi!=c %d/%d e.g. c=%v f=%v\n", n, conf, badLo, tot, badHi, tot, ex, float64(n)*((1-conf)/2))
		}
	}
	// hash pair nondeterminism (replace)
	counts := map[string]int{}
	for i := 0; i < 200; i++ {
		opts := &benchseries.BuilderOptions{Filter: ".unit:/.*/", Series: "ser", Experiment: "exp", Compare: "role", Numerator: "num", Denominator: "den",
			NumeratorHash: "nh", DenominatorHash: "dh", Warn: func(string, ...interface{}) {}}
		b, err := benchseries.NewBuilder(opts)
		if err != nil {
			panic(err)
		}
		mk := func(bench, role, exp string, v float64) *benchfmt.Result {
			return mkRes(bench, [][2]string{{"role", role}, {"exp", exp}, {"nh", "abc"}, {"dh", "def"}, {"ser", "2020-02-02T00:00:00Z"}}, benchfmt.Value{Value: v, Unit: "sec"})
		}
		b.Add(mk("Foo", "num", "2020-01-01T00:00:00Z", 1))
		b.Add(mk("Bar", "num", "2020-01-01T00:00:00Z", 2))
		b.Add(mk("Bar", "den", "2020-01-01T00:00:00Z", 10))
		cs, err := b.AllComparisonSeries(nil, benchseries.DUPE_REPLACE)
		if err != nil {
			panic(err)
		}
		var ks []string
		for k, v := range cs[0].HashPairs {
			ks = append(ks, k+"->"+v.NumHash+"/"+v.DenHash)
		}
		sort.Strings(ks)
		counts[fmt.Sprint(ks)]++
	}
	fmt.Fprintf(os.Stderr, "hashpairs outcomes: %v\n", counts)
	for _, in := range []string{"2020-01-01T00:00:00Z", "20200101T000000", "2020-01-01T01:00:00+01:00", "2020-01-01T00:00:00.5Z", "2020-01-01T00:00:00,5Z", "2020-01-01t00:00:00z",
		"2020-01-01T00:00:00.1234567891Z", "2020-01-01T00:00:00.120Z", "2020-02-30T00:00:00Z", "2020-01-01T24:00:00Z", "2020-01-01T00:00:60Z", "2020-01-01T00:00:00+24:00", "2020-01-01T00:00:00+23:59", "2020-01-01T00:00:00-00:00",
		"0000-01-01T00:00:00+01:00", "9999-12-31T23:59:59-01:00", "2020-01-01T00:00:00", "2020-1-01T00:00:00Z", "20201301T000000", "2020-01-01 00:00:00Z", "2020-01-01T00:00:00+0100", "2020-01-01T00:00:00.Z", "2020-01-01T0:00:00Z", "2020-01-01T00:00:00+01:60", " 2020-01-01T00:00:00Z", "2020-01-01T00:00:00Z\n", "20200101T000000\n", "2021-02-29T00:00:00Z", "2020-02-29T00:00:00Z", "1900-02-29T00:00:00Z", "2000-02-29T00:00:00Z", "2020-00-10T00:00:00Z", "2020-01-00T00:00:00Z", "2020-01-01T00:00:00+1:00", "2020-04-31T00:00:00Z"} {
		out, err := benchseries.NormalizeDateString(in)
		fmt.Fprintf(os.Stderr, "date %q -> %q %v\n", in, out, err)
	}
}
