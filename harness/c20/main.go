//go:build verif

// C20 harness: uploads are all-or-nothing under faults; upload ids are never reused.
//
// Every scenario runs on a fresh in-process server (sqlite + file store + app.App on a ServeMux):
// a history of requests, the faulted request, a following successful request. After every request
// the public observables are printed (obs: compared with the model; sobs: judged by the spec).
package main

import (
	"bufio"
	"bytes"
	"context"
	"encoding/json"
	"errors"
	"fmt"
	"io"
	"log"
	"mime"
	"mime/multipart"
	"net"
	"net/http"
	"net/http/httptest"
	"os"
	"path/filepath"
	"regexp"
	"sort"
	"strconv"
	"strings"
	"sync"
	"time"

	"golang.org/x/perf/internal/verifh/hx"
	"golang.org/x/perf/storage"
	"golang.org/x/perf/storage/app"
	"golang.org/x/perf/storage/benchfmt"
	"golang.org/x/perf/storage/db"
	_ "golang.org/x/perf/storage/db/sqlite3"
	"golang.org/x/perf/storage/fs"
	"golang.org/x/perf/storage/fs/local"
)

const boundary = "VerifBoundary7d1"

// ---------------------------------------------------------------- failing file store

type faultSpec struct {
	k      int
	sticky bool
	leaves bool
}

func (f *faultSpec) String() string {
	if f == nil {
		return "-"
	}
	m, l := "o", "d"
	if f.sticky {
		m = "s"
	}
	if f.leaves {
		l = "l"
	}
	return fmt.Sprintf("%d.%s.%s", f.k, m, l)
}

var errInjected = errors.New("verif-injected fault")

// faultFS wraps a real fs.FS and makes the k-th NewWriter/Write/Close call fail.
type faultFS struct {
	inner fs.FS
	mu    sync.Mutex
	fault *faultSpec
	opc   int
	trace []string
	// bookkeeping for the judge
	ids      []string // upload ids seen in NewWriter metadata, in order of first appearance
	openPath string   // writer open (NewWriter ok, Close not yet ok)
	injected bool
	injPath  string   // writer open at the moment a fault was injected
	newPaths []string // names of the writers created during the request, in order
}

func (f *faultFS) reset(fault *faultSpec) {
	f.mu.Lock()
	defer f.mu.Unlock()
	f.fault, f.opc, f.trace, f.openPath, f.injected, f.injPath, f.newPaths = fault, 0, nil, "", false, "", nil
}

func (f *faultFS) fails() bool {
	i := f.opc
	f.opc++
	if f.fault == nil {
		return false
	}
	hit := i == f.fault.k || (f.fault.sticky && i >= f.fault.k)
	if hit && !f.injected {
		f.injected = true
		f.injPath = f.openPath
	}
	return hit
}

func (f *faultFS) NewWriter(ctx context.Context, name string, metadata map[string]string) (fs.Writer, error) {
	f.mu.Lock()
	defer f.mu.Unlock()
	if id := metadata["upload"]; id != "" && (len(f.ids) == 0 || f.ids[len(f.ids)-1] != id) {
		f.ids = append(f.ids, id)
	}
	if f.fails() {
		f.trace = append(f.trace, "N!")
		return nil, errInjected
	}
	w, err := f.inner.NewWriter(ctx, name, metadata)
	if err != nil {
		f.trace = append(f.trace, "N?")
		return nil, err
	}
	f.trace = append(f.trace, "N")
	f.openPath = name
	f.newPaths = append(f.newPaths, name)
	return &faultWriter{fs: f, w: w, name: name}, nil
}

type faultWriter struct {
	fs   *faultFS
	w    fs.Writer
	name string
}

func (w *faultWriter) Write(p []byte) (int, error) {
	w.fs.mu.Lock()
	defer w.fs.mu.Unlock()
	if w.fs.fails() {
		w.fs.trace = append(w.fs.trace, "W!")
		return 0, errInjected
	}
	n, err := w.w.Write(p)
	w.fs.trace = append(w.fs.trace, "W"+strconv.Itoa(n))
	return n, err
}

func (w *faultWriter) Close() error {
	w.fs.mu.Lock()
	defer w.fs.mu.Unlock()
	if w.fs.fails() {
		w.fs.trace = append(w.fs.trace, "C!")
		if w.fs.fault.leaves {
			// a Close that reports an error after the data reached the store (local disk)
			w.w.Close()
		} else {
			w.w.CloseWithError(errInjected)
		}
		return errInjected
	}
	err := w.w.Close()
	w.fs.trace = append(w.fs.trace, "C")
	if err == nil && w.fs.openPath == w.name {
		w.fs.openPath = ""
	}
	return err
}

func (w *faultWriter) CloseWithError(e error) error {
	w.fs.mu.Lock()
	defer w.fs.mu.Unlock()
	w.fs.trace = append(w.fs.trace, "E")
	return w.w.CloseWithError(e)
}

// coalesced trace: consecutive successful writes are summed
func (f *faultFS) traceString() string {
	var out []string
	sum, have := 0, false
	flush := func() {
		if have {
			out = append(out, "W"+strconv.Itoa(sum))
			sum, have = 0, false
		}
	}
	for _, t := range f.trace {
		if len(t) > 1 && t[0] == 'W' && t[1] != '!' {
			n, _ := strconv.Atoi(t[1:])
			sum += n
			have = true
			continue
		}
		flush()
		out = append(out, t)
	}
	flush()
	if len(out) == 0 {
		return "-"
	}
	return strings.Join(out, ",")
}

// ---------------------------------------------------------------- scenario description

type partSpec struct {
	form    string // form name: "file", "commit", "abort", ...
	fname   string // filename parameter (may contain directories)
	content string
	// filename parameter: 0 = the usual (present for "file" parts, absent for fields),
	// 1 = present whatever the field name, 2 = absent whatever the field name
	fnMode int
}

func (p partSpec) hasFilename() bool {
	return p.fnMode == 1 || (p.fnMode == 0 && p.form == "file")
}

type reqSpec struct {
	parts    []partSpec
	preamble string
	cutAt    int // -1: whole body
	fault    *faultSpec
	uid      string
	client   string // "", "commit", "abort": go through storage.Client over real HTTP
	net      bool   // send the (cut) body over a real connection announcing the full length, then close
	dayOff   int    // day of the request, as an offset from the base date of the scripted clock
	// the request is refused by the handler before any part is read: "ctype" (Content-Type is not
	// multipart), "boundary" (multipart without boundary parameter), "method" (PUT), "auth" (Auth fails)
	pre string
}

type scenario struct {
	user  string
	store string // "local" or "mem"
	reqs  []reqSpec
	tags  []string
}

type region struct {
	start, end int
	tag        string
}

func buildBody(parts []partSpec, preamble string) ([]byte, []region) {
	var b bytes.Buffer
	var regs []region
	mark := func(tag string, f func()) {
		s := b.Len()
		f()
		regs = append(regs, region{s, b.Len(), tag})
	}
	if preamble != "" {
		mark("pre", func() { b.WriteString(preamble + "\r\n") })
	}
	for i, p := range parts {
		mark("delim", func() {
			if i > 0 {
				b.WriteString("\r\n")
			}
			b.WriteString("--" + boundary + "\r\n")
		})
		mark("phdr", func() {
			if p.hasFilename() {
				fmt.Fprintf(&b, "Content-Disposition: form-data; name=\"%s\"; filename=\"%s\"\r\n", p.form, p.fname)
				b.WriteString("Content-Type: application/octet-stream\r\n\r\n")
			} else {
				fmt.Fprintf(&b, "Content-Disposition: form-data; name=\"%s\"\r\n\r\n", p.form)
			}
		})
		mark("data", func() { b.WriteString(p.content) })
	}
	mark("final", func() {
		if len(parts) > 0 {
			b.WriteString("\r\n")
		}
		b.WriteString("--" + boundary + "--\r\n")
	})
	return b.Bytes(), regs
}

func regionOf(regs []region, off int) string {
	for _, r := range regs {
		if off >= r.start && off < r.end {
			if off == r.start {
				return r.tag + "0"
			}
			return r.tag
		}
	}
	return "end"
}

// event stream as the multipart layer delivers it to processUpload
type evPart struct {
	field   string // non-file part: its form name
	fieldFn string // non-file part: "" or "+" followed by its filename parameter
	isFile  bool
	fname   string
	content []byte
	cut     bool
	chunks  []int
}

type chunkWriter struct {
	data  []byte
	sizes []int
}

func (c *chunkWriter) Write(p []byte) (int, error) {
	c.data = append(c.data, p...)
	c.sizes = append(c.sizes, len(p))
	return len(p), nil
}

// ueofReader ends with io.ErrUnexpectedEOF, as net/http does for a body shorter than announced
type ueofReader struct{ r io.Reader }

func (u ueofReader) Read(p []byte) (int, error) {
	n, err := u.r.Read(p)
	if err == io.EOF {
		err = io.ErrUnexpectedEOF
	}
	return n, err
}

func deriveEvents(body []byte, transportErr bool) (parts []evPart, endErr bool) {
	var rd io.Reader = bytes.NewReader(body)
	if transportErr {
		rd = ueofReader{rd}
	}
	mr := multipart.NewReader(rd, boundary)
	for {
		p, err := mr.NextPart()
		if err == io.EOF {
			return parts, false
		}
		if err != nil {
			return parts, true
		}
		name := p.FormName()
		if name != "file" {
			ev := evPart{field: name}
			if _, ok := dispositionFilename(p); ok {
				ev.fieldFn = "+" + p.FileName()
			}
			parts = append(parts, ev)
			if name != "commit" {
				return parts, false
			}
			continue
		}
		fname := p.FileName()
		if slash := strings.LastIndexAny(fname, `/\`); slash >= 0 {
			fname = fname[slash+1:]
		}
		cw := &chunkWriter{}
		sc := bufio.NewScanner(io.TeeReader(p, cw))
		for sc.Scan() {
		}
		ev := evPart{isFile: true, fname: fname, content: cw.data, cut: sc.Err() != nil, chunks: cw.sizes}
		parts = append(parts, ev)
		if ev.cut {
			return parts, false
		}
	}
}

// dispositionFilename reports whether the part's Content-Disposition has a filename parameter
func dispositionFilename(p *multipart.Part) (string, bool) {
	_, params, err := mime.ParseMediaType(p.Header.Get("Content-Disposition"))
	if err != nil {
		return "", false
	}
	v, ok := params["filename"]
	return v, ok
}

func encodeEvents(parts []evPart, endErr bool, fault *faultSpec, cutFlag int) string {
	var ps []string
	for _, p := range parts {
		if !p.isFile {
			if p.fieldFn != "" {
				ps = append(ps, "X:"+hx.HexS(p.field)+":"+hx.HexS(p.fieldFn[1:]))
			} else {
				ps = append(ps, "X:"+hx.HexS(p.field))
			}
			continue
		}
		cut := "0"
		if p.cut {
			cut = "1"
		}
		ch := "-"
		if len(p.chunks) > 0 {
			var cs []string
			for _, c := range p.chunks {
				cs = append(cs, strconv.Itoa(c))
			}
			ch = strings.Join(cs, ".")
		}
		ps = append(ps, "F:"+hx.HexS(p.fname)+":"+hx.Hex(p.content)+":"+cut+":"+ch)
	}
	s := "-"
	if len(ps) > 0 {
		s = strings.Join(ps, "+")
	}
	e := "0"
	if endErr {
		e = "1"
	}
	return s + "|" + e + "|" + fault.String() + "|" + strconv.Itoa(cutFlag)
}

// ---------------------------------------------------------------- server

type server struct {
	db    *db.DB
	ffs   *faultFS
	mem   *fs.MemFS
	root  string
	mux   *http.ServeMux
	user  string
	srv   *httptest.Server
	store string
	// authFail makes App.Auth report an error for the next requests
	authFail bool
	client   *storage.Client
}

var dbCounter int

func newServer(store, user string) *server {
	dbCounter++
	return newServerDSN(store, user, fmt.Sprintf("file:c20_%d_%d?mode=memory&cache=shared", os.Getpid(), dbCounter))
}

func newServerDSN(store, user, dsn string) *server {
	d, err := db.OpenSQL("sqlite3", dsn)
	if err != nil {
		panic(err)
	}
	s := &server{db: d, user: user, store: store}
	var inner fs.FS
	if store == "mem" {
		s.mem = fs.NewMemFS()
		inner = s.mem
	} else {
		s.root = filepath.Join(os.Getenv("VERIF_RUNDIR"), fmt.Sprintf("fs-%d-%d", os.Getpid(), dbCounter))
		os.RemoveAll(s.root)
		if err := os.MkdirAll(s.root, 0777); err != nil {
			panic(err)
		}
		inner = local.NewFS(s.root)
	}
	s.ffs = &faultFS{inner: inner}
	a := &app.App{DB: d, FS: s.ffs, Auth: func(http.ResponseWriter, *http.Request) (string, error) {
		if s.authFail {
			return "", errors.New("verif auth failure")
		}
		return user, nil
	}}
	s.mux = http.NewServeMux()
	a.RegisterOnMux(s.mux)
	return s
}

func (s *server) close() {
	if s.srv != nil {
		s.srv.Close()
	}
	s.db.Close()
	if s.root != "" {
		os.RemoveAll(s.root)
	}
}

func (s *server) get(url string) (int, []byte) {
	rec := httptest.NewRecorder()
	s.mux.ServeHTTP(rec, httptest.NewRequest("GET", url, nil))
	return rec.Code, rec.Body.Bytes()
}

type result struct {
	part, uid string
	upload    string
	line      string
}

func (s *server) search(q string) ([]result, string) {
	code, body := s.get("/search?q=" + urlEscape(q))
	if code != 200 {
		return nil, fmt.Sprintf("!%d", code)
	}
	br := benchfmt.NewReader(bytes.NewReader(body))
	var out []result
	for br.Next() {
		r := br.Result()
		out = append(out, result{part: r.Labels["upload-part"], uid: r.Labels["uid"], upload: r.Labels["upload"], line: r.Content})
	}
	if err := br.Err(); err != nil {
		return out, "!read"
	}
	return out, ""
}

func urlEscape(s string) string {
	var b strings.Builder
	for i := 0; i < len(s); i++ {
		fmt.Fprintf(&b, "%%%02X", s[i])
	}
	return b.String()
}

func (s *server) listing(q string) ([]storage.UploadInfo, string) { return s.listingLimit(q, -1) }

// listingLimit asks /uploads with an explicit limit parameter (limit < 0: none, the server's default)
func (s *server) listingLimit(q string, limit int) ([]storage.UploadInfo, string) {
	u := "/uploads"
	sep := "?"
	if q != "" {
		u += "?q=" + urlEscape(q)
		sep = "&"
	}
	if limit >= 0 {
		u += fmt.Sprintf("%slimit=%d", sep, limit)
	}
	code, body := s.get(u)
	if code != 200 {
		return nil, fmt.Sprintf("!%d", code)
	}
	dec := json.NewDecoder(bytes.NewReader(body))
	var out []storage.UploadInfo
	for {
		var ui storage.UploadInfo
		if err := dec.Decode(&ui); err != nil {
			break
		}
		out = append(out, ui)
	}
	return out, ""
}

var timeRe = regexp.MustCompile(`(?m)^upload-time: \d{4}-\d{2}-\d{2}T\d{2}:\d{2}:\d{2}Z$`)

// files of the store: sorted names; contents (upload-time canonicalised) when the store can be read
func (s *server) files() (names []string, data map[string][]byte) {
	data = map[string][]byte{}
	if s.mem != nil {
		return s.mem.Files(), nil
	}
	filepath.Walk(s.root, func(p string, info os.FileInfo, err error) error {
		if err != nil || info.IsDir() {
			return nil
		}
		rel, _ := filepath.Rel(s.root, p)
		rel = filepath.ToSlash(rel)
		b, _ := os.ReadFile(p)
		names = append(names, rel)
		data[rel] = timeRe.ReplaceAll(b, []byte("upload-time: 2006-01-02T15:04:05Z"))
		return nil
	})
	sort.Strings(names)
	return names, data
}

// ---------------------------------------------------------------- running one request

type response struct {
	status int
	errTag string
	id     string
	fids   []string
}

func errTag(text string) string {
	switch {
	case strings.Contains(text, "isn't multipart/form-data"), strings.Contains(text, "no multipart boundary"),
		strings.Contains(text, "must be called as a POST"), strings.Contains(text, "verif auth failure"):
		return "refused"
	case strings.Contains(text, "unexpected field"):
		return "field"
	case strings.Contains(text, "no valid benchmark lines"):
		return "nobench"
	case strings.Contains(text, "no files processed"):
		return "nofiles"
	case strings.Contains(text, "verif-injected"):
		return "fs"
	case strings.Contains(text, "constraint"):
		return "db"
	case strings.Contains(text, "EOF"), strings.Contains(text, "NextPart"), strings.Contains(text, "malformed MIME header"):
		return "body"
	}
	return "other:" + hx.HexS(text)
}

func (s *server) post(body []byte) response { return s.postPre(body, "") }

// postPre sends the body; `pre` makes the request one the handler must refuse before reading parts
func (s *server) postPre(body []byte, pre string) response {
	method, ctype := "POST", "multipart/form-data; boundary="+boundary
	switch pre {
	case "ctype":
		ctype = "text/plain"
	case "boundary":
		ctype = "multipart/form-data"
	case "method":
		method = "PUT"
	case "auth":
		s.authFail = true
		defer func() { s.authFail = false }()
	}
	req := httptest.NewRequest(method, "/upload", bytes.NewReader(body))
	req.Header.Set("Content-Type", ctype)
	rec := httptest.NewRecorder()
	if p := serveRecover(s.mux, rec, req); p != "" {
		// net/http would recover the panic and drop the connection: the client sees a failed upload.
		// The scenario goes on, so that what the panic left behind is judged with the case.
		return response{status: 500, errTag: "panic:" + hx.HexS(p), id: "-"}
	}
	return decodeResponse(rec.Code, rec.Body.Bytes())
}

func serveRecover(h http.Handler, w http.ResponseWriter, r *http.Request) (panicked string) {
	defer func() {
		if e := recover(); e != nil {
			panicked = fmt.Sprint(e)
		}
	}()
	h.ServeHTTP(w, r)
	return ""
}

// postCut sends the cut body over a real connection: the request announces the full length, the
// client stops after the cut and closes its sending side.
func (s *server) postCut(body []byte, fullLen int) response {
	if s.srv == nil {
		s.srv = httptest.NewServer(s.mux)
	}
	conn, err := net.Dial("tcp", s.srv.Listener.Addr().String())
	if err != nil {
		panic(err)
	}
	defer conn.Close()
	conn.SetDeadline(time.Now().Add(10 * time.Second))
	fmt.Fprintf(conn, "POST /upload HTTP/1.1\r\nHost: verif\r\nContent-Type: multipart/form-data; boundary=%s\r\nContent-Length: %d\r\nConnection: close\r\n\r\n", boundary, fullLen)
	conn.Write(body)
	conn.(*net.TCPConn).CloseWrite()
	resp, err := http.ReadResponse(bufio.NewReader(conn), nil)
	if err != nil {
		// the server gave up on the connection without a response
		return response{status: 500, errTag: "body", id: "-"}
	}
	defer resp.Body.Close()
	b, _ := io.ReadAll(resp.Body)
	return decodeResponse(resp.StatusCode, b)
}

func decodeResponse(code int, body []byte) response {
	r := response{status: code, errTag: "-", id: "-"}
	if code != 200 {
		r.errTag = errTag(string(body))
		return r
	}
	var st struct {
		UploadID string   `json:"uploadid"`
		FileIDs  []string `json:"fileids"`
	}
	if err := json.Unmarshal(body, &st); err != nil {
		r.errTag = "badjson"
		return r
	}
	r.id, r.fids = st.UploadID, st.FileIDs
	return r
}

// viaClient drives the request through storage.Client over a real HTTP connection.
func (s *server) viaClient(rq *reqSpec) response {
	if s.srv == nil {
		s.srv = httptest.NewServer(s.mux)
	}
	if s.client == nil {
		// ONE storage.Client serves all uploads of a scenario
		s.client = &storage.Client{BaseURL: s.srv.URL}
	}
	u := s.client.NewUpload(context.Background())
	for _, p := range rq.parts {
		w, err := u.CreateFile(p.fname)
		if err != nil {
			u.Abort()
			return response{status: 0, errTag: "client", id: "-"}
		}
		io.WriteString(w, p.content)
	}
	if rq.client == "abort" {
		err := u.Abort()
		if err == nil {
			return response{status: 200, errTag: "-", id: "?"}
		}
		return response{status: 500, errTag: errTag(err.Error()), id: "-"}
	}
	st, err := u.Commit()
	if err != nil {
		return response{status: 500, errTag: errTag(err.Error()), id: "-"}
	}
	return response{status: 200, errTag: "-", id: st.UploadID, fids: st.FileIDs}
}

var idRe = regexp.MustCompile(`^(\d{8})\.([1-9]\d*)$`)

func idsOK(ids []string) bool {
	seen := map[string]bool{}
	lastSeq := map[string]int{}
	for _, id := range ids {
		m := idRe.FindStringSubmatch(id)
		if m == nil || seen[id] {
			return false
		}
		seen[id] = true
		n, _ := strconv.Atoi(m[2])
		if n <= lastSeq[m[1]] {
			return false
		}
		lastSeq[m[1]] = n
	}
	return true
}

func b01(b bool) string {
	if b {
		return "1"
	}
	return "0"
}

type snapshot struct {
	all   []result
	lims  map[int][]storage.UploadInfo // /uploads?limit=k for k = 0 (no limit), 1, 2, 3
	list  []storage.UploadInfo
	names []string
	data  map[string][]byte
}

func (s *server) snap() snapshot {
	all, _ := s.search("upload>")
	list, _ := s.listing("")
	names, data := s.files()
	lims := map[int][]storage.UploadInfo{}
	for _, k := range []int{0, 1, 2, 3} {
		lims[k], _ = s.listingLimit("", k)
	}
	return snapshot{all, lims, list, names, data}
}

// view of a snapshot without anything that belongs to upload id / uid
func (sn snapshot) without(id, uid string) string {
	var b strings.Builder
	for _, r := range sn.all {
		if r.uid == uid || (id != "-" && r.upload == id) {
			continue
		}
		fmt.Fprintf(&b, "r %s %s %s\n", r.part, r.uid, r.line)
	}
	for _, u := range sn.list {
		if id != "-" && u.UploadID == id {
			continue
		}
		fmt.Fprintf(&b, "u %s %d\n", u.UploadID, u.Count)
	}
	for _, n := range sn.names {
		if id != "-" && strings.HasPrefix(n, "uploads/"+id+"/") {
			continue
		}
		fmt.Fprintf(&b, "f %s %x\n", n, sn.data[n])
	}
	return b.String()
}

func runScenario(id int, sc *scenario) {
	defer func() {
		if e := recover(); e != nil {
			hx.Printf("crash %d %s\n", id, strings.ReplaceAll(fmt.Sprint(e), "\n", " "))
		}
	}()
	// a request that straddles UTC midnight has no well-defined day: run the scenario again
	for try := 0; try < 3; try++ {
		if runScenarioOnce(id, sc) {
			return
		}
	}
}

// the scripted clock db.NewUpload reads (export hook VerifSetNow); days are offsets from a fixed date
// two days before a month end, so that offsets cross 20260930 -> 20261001
var clock = time.Date(2026, 9, 28, 12, 0, 0, 0, time.UTC)

func setDayOffset(off int) {
	clock = time.Date(2026, 9, 28+off, 12, 0, 0, 0, time.UTC)
}

func utcDay() string { return clock.Format("20060102") }

func runScenarioOnce(id int, sc *scenario) bool {
	day := utcDay()
	s := newServer(sc.store, sc.user)
	defer s.close()

	var reqEnc []string
	var obs, sobs []string
	tags := map[string]bool{}
	for _, t := range sc.tags {
		tags[t] = true
	}
	for step := range sc.reqs {
		rq := &sc.reqs[step]
		body, regs := buildBody(rq.parts, rq.preamble)
		fullLen := len(body)
		cutFlag := 0
		if rq.cutAt >= 0 && rq.cutAt < len(body) {
			tags["cut-"+regionOf(regs, rq.cutAt)] = true
			if rq.net {
				tags["cut-net"] = true
				cutFlag = 2
			} else if rq.cutAt < len(body)-2 {
				// without the last CRLF the message is still complete
				cutFlag = 1
			}
			body = body[:rq.cutAt]
		}
		var evs []evPart
		var endErr bool
		if rq.pre != "" {
			tags["refused-"+rq.pre] = true
		} else if rq.client != "" {
			for _, p := range rq.parts {
				evs = append(evs, evPart{isFile: true, fname: serverName(p.fname), content: []byte(p.content), chunks: []int{len(p.content)}})
				if p.content == "" {
					evs[len(evs)-1].chunks = nil
				}
			}
			evs = append(evs, evPart{field: rq.client})
			tags["client-"+rq.client] = true
		} else {
			evs, endErr = deriveEvents(body, cutFlag == 2)
		}
		for _, e := range evs {
			if !e.isFile && e.field != "commit" {
				if e.fieldFn != "" {
					tags["field-with-filename"] = true
				} else {
					tags["field-plain"] = true
				}
			}
			if !e.isFile && e.field == "commit" && e.fieldFn != "" {
				tags["commit-with-filename"] = true
			}
		}
		for _, p := range rq.parts {
			if p.form == "file" && !p.hasFilename() {
				tags["file-without-filename"] = true
			}
		}
		reqEnc = append(reqEnc, encodeEvents(evs, endErr, rq.fault, cutFlag))
		if rq.pre != "" {
			reqEnc[len(reqEnc)-1] += "|" + rq.pre
		} else {
			reqEnc[len(reqEnc)-1] += "|-"
		}

		before := s.snap()
		nidsBefore := len(s.ffs.ids)
		setDayOffset(rq.dayOff)
		reqDay := utcDay()
		s.ffs.reset(rq.fault)
		var resp response
		if rq.pre != "" {
			resp = s.postPre(body, rq.pre)
		} else if rq.client != "" {
			resp = s.viaClient(rq)
		} else if cutFlag == 2 {
			resp = s.postCut(body, fullLen)
		} else {
			resp = s.post(body)
		}
		if utcDay() != reqDay {
			return false
		}
		reqEnc[len(reqEnc)-1] += "|" + reqDay
		injected := s.ffs.injected
		// the file being written when the failure happened, decided from the fault, not from how the
		// code closed the writer: the writer open at the injected fault; else the file whose part
		// reader failed; else the first file without a benchmark line
		inprogPath := ""
		if injected {
			inprogPath = s.ffs.injPath
		} else {
			fi := 0
			for _, e := range evs {
				if !e.isFile {
					continue
				}
				if e.cut || !hasBench(string(e.content)) {
					if fi < len(s.ffs.newPaths) {
						inprogPath = s.ffs.newPaths[fi]
					}
					break
				}
				fi++
			}
		}
		trace := s.ffs.traceString()
		s.ffs.reset(nil)
		if injected {
			tags["fsfault"] = true
		}
		for _, t := range strings.Split(trace, ",") {
			switch t {
			case "N!":
				tags["fail-create"] = true
			case "W!":
				tags["fail-write"] = true
			case "C!":
				tags["fail-close"] = true
			}
		}
		if resp.errTag != "-" {
			tags["err-"+strings.SplitN(resp.errTag, ":", 2)[0]] = true
		}

		// id of this request's upload: from the response, else from what the file store saw
		rid := resp.id
		if rid == "-" && len(s.ffs.ids) > nidsBefore {
			rid = s.ffs.ids[len(s.ffs.ids)-1]
		}
		if resp.status == 200 && (len(s.ffs.ids) == nidsBefore || s.ffs.ids[len(s.ffs.ids)-1] != resp.id) {
			rid = "mismatch:" + resp.id
		}

		after := s.snap()
		nup, _ := s.db.CountUploads()
		own := 0
		if rid != "-" {
			rs, e := s.search("upload:" + rid)
			own = len(rs)
			if e != "" {
				own = -1
			}
		}
		// ---- obs
		var sr []string
		for _, r := range after.all {
			sr = append(sr, r.part+"#"+hx.HexS(r.line))
		}
		sort.Strings(sr)
		var ls []string
		for _, u := range after.list {
			ls = append(ls, fmt.Sprintf("%s:%d", u.UploadID, u.Count))
		}
		var fd []string
		for _, n := range after.names {
			if s.mem != nil {
				fd = append(fd, hx.HexS(n)+"=")
			} else {
				fd = append(fd, hx.HexS(n)+"="+hx.Hex(after.data[n]))
			}
		}
		var l2 []string
		for _, u := range after.lims[2] {
			l2 = append(l2, fmt.Sprintf("%s:%d", u.UploadID, u.Count))
		}
		obs = append(obs, fmt.Sprintf("step=%d status=%d err=%s id=%s fids=%s trace=%s nup=%d own=%d search=%s list=%s l2=%s files=%s",
			step, resp.status, resp.errTag, rid, joinOr(resp.fids), trace, nup, own, joinOr(sr), joinOr(ls), joinOr(l2), joinOr(fd)))

		// ---- sobs: the property's vocabulary
		byUID, _ := s.search("uid:" + rq.uid)
		inAll := 0
		for _, r := range after.all {
			if r.uid == rq.uid {
				inAll++
			}
		}
		// every record must be reachable through each of its labels (RecordLabels rows), not only
		// through the Records table: count this request's results of the queries name> , upload-part> ,
		// upload-time>
		var lab []string
		for _, key := range []string{"name", "upload-part", "upload-time"} {
			rs, _ := s.search(key + ">")
			n := 0
			for _, r := range rs {
				if r.uid == rq.uid {
					n++
				}
			}
			lab = append(lab, strconv.Itoa(n))
		}
		// all records of the request are filed under ITS upload id and ITS file ids and nowhere else:
		// a = this uid's results whose labels name the request's own upload and one of its parts,
		// b = results of the queries upload-part:<file id> over the file ids of the answer
		ownA, ownB := 0, 0
		for _, r := range after.all {
			if r.uid == rq.uid && rid != "-" && r.upload == rid && strings.HasPrefix(r.part, rid+"/") {
				ownA++
			}
		}
		for _, fid := range resp.fids {
			rs, _ := s.search("upload-part:" + fid)
			for _, r := range rs {
				if r.uid == rq.uid {
					ownB++
				}
			}
		}
		listed := false
		for _, u := range after.list {
			if rid != "-" && u.UploadID == rid {
				listed = true
			}
		}
		if l, _ := s.listing("uid:" + rq.uid); len(l) > 0 {
			listed = true
		}
		inprog := false
		if resp.status != 200 && inprogPath != "" {
			for _, n := range after.names {
				if n == inprogPath {
					inprog = true
				}
			}
		}
		earlier := before.without(rid, rq.uid) == after.without(rid, rq.uid) && before.without("-", "\x00") == after.without(rid, rq.uid)
		// limited listings: /uploads?limit=k must be the first k entries of the full listing, and after a
		// failed request exactly what it was before (a failed upload must not use up a slot)
		limOK := sameList(after.list, after.lims[0])
		for _, k := range []int{1, 2, 3} {
			want := after.lims[0]
			if len(want) > k {
				want = want[:k]
			}
			if !sameList(after.lims[k], want) {
				limOK = false
			}
			if resp.status != 200 && !sameList(after.lims[k], before.lims[k]) {
				limOK = false
			}
		}
		stored := "-"
		if resp.status == 200 {
			var st []string
			// in the order of the part numbers (names sort 10.txt before 2.txt)
			var mine []string
			for _, n := range after.names {
				if strings.HasPrefix(n, "uploads/"+rid+"/") {
					mine = append(mine, n)
				}
			}
			partNo := func(n string) int {
				k, _ := strconv.Atoi(strings.TrimSuffix(strings.TrimPrefix(n, "uploads/"+rid+"/"), ".txt"))
				return k
			}
			sort.SliceStable(mine, func(i, j int) bool { return partNo(mine[i]) < partNo(mine[j]) })
			for _, n := range mine {
				// the upload id is written ID so that the specification need not know it
				nm := strings.ReplaceAll(n, rid, "ID")
				if s.mem != nil {
					st = append(st, hx.HexS(nm)+"=")
				} else {
					st = append(st, hx.HexS(nm)+"="+hx.Hex(bytes.ReplaceAll(after.data[n], []byte(rid), []byte("ID"))))
				}
			}
			stored = joinOr(st)
		}
		sobs = append(sobs, fmt.Sprintf("step=%d ok=%s vis=%d,%d,%d lab=%s own=%d,%d listed=%s lim=%s inprog=%s earlier=%s idsok=%s stored=%s",
			step, b01(resp.status == 200), len(byUID), inAll, max(own, 0), strings.Join(lab, ","), ownA, ownB, b01(listed), b01(limOK), b01(inprog), b01(earlier), b01(idsOK(s.ffs.ids)), stored))
	}
	var tl []string
	for t := range tags {
		tl = append(tl, t)
	}
	sort.Strings(tl)
	if len(tl) == 0 {
		tl = []string{"trivial"}
	}
	hx.Printf("case %d kind=up day=%s user=%s store=%s reqs=%s tag=%s\n", id, day, hx.HexS(sc.user), sc.store, strings.Join(reqEnc, ";"), strings.Join(tl, "+"))
	for _, o := range obs {
		hx.Printf("obs %d %s\n", id, o)
	}
	for _, o := range sobs {
		hx.Printf("sobs %d %s\n", id, o)
	}
	return true
}

func hasBench(content string) bool {
	for _, line := range strings.Split(content, "\n") {
		line = strings.TrimSuffix(line, "\r")
		if i := strings.IndexAny(line, " \t\v\f\r"); i >= 0 && strings.HasPrefix(line[:i], "Benchmark") {
			return true
		}
	}
	return false
}

func sameList(a, b []storage.UploadInfo) bool {
	if len(a) != len(b) {
		return false
	}
	for i := range a {
		if a[i].UploadID != b[i].UploadID || a[i].Count != b[i].Count {
			return false
		}
	}
	return true
}

func joinOr(l []string) string {
	if len(l) == 0 {
		return "-"
	}
	return strings.Join(l, ",")
}

// ---------------------------------------------------------------- generators

var benchNames = []string{"BenchmarkA", "BenchmarkEncode", "BenchmarkZ9", "BenchmarkA"}

// file content with n benchmark lines; every file carries the request's uid label
func goodFile(r *hx.Rand, uid string, n int) string {
	var b strings.Builder
	fmt.Fprintf(&b, "uid: %s\n", uid)
	if r.Chance(1, 3) {
		b.WriteString("goos: linux\n")
	}
	for i := 0; i < n; i++ {
		switch r.Intn(8) {
		case 0:
			b.WriteString("\n")
		case 1:
			fmt.Fprintf(&b, "pkg: p%d\n", r.Intn(3))
		case 2:
			b.WriteString("PASS\n")
		}
		fmt.Fprintf(&b, "%s %d %d ns/op\n", hx.Pick(r, benchNames), 1+r.Intn(9), r.Intn(1000))
	}
	if r.Chance(1, 4) {
		b.WriteString("ok  \tpkg\t0.1s")
	}
	return b.String()
}

var badFiles = []string{"", "uid: %s\n", "uid: %s\nPASS\nhello world\n", "Benchmark\n", "uid: %s\nbenchmarkA 1 2 ns/op\n", "BenchmarkNoSpace"}

// field names that are not "file" (a part with any of them must fail the upload, with or without a
// filename parameter)
var fieldNames = []string{"abort", "foo", "File", "", "attachment", "files", "file[]", "file2", "FILE", "commit2"}

func fileNames(r *hx.Rand) string {
	return hx.Pick(r, []string{"a.txt", "", "dir/b.txt", `c:\x\y.txt`, "r.out", `\lead.txt`})
}

func goodReq(r *hx.Rand, uid string, nfiles int) reqSpec {
	rq := reqSpec{cutAt: -1, uid: uid}
	for i := 0; i < nfiles; i++ {
		rq.parts = append(rq.parts, partSpec{form: "file", fname: fileNames(r), content: goodFile(r, uid, 1+r.Intn(3))})
	}
	switch r.Intn(4) {
	case 0:
		rq.parts = append(rq.parts, partSpec{form: "commit", content: "1"})
	case 1:
		// a commit field between files shifts the part numbering
		if nfiles > 1 {
			ps := append([]partSpec{}, rq.parts[:1]...)
			ps = append(ps, partSpec{form: "commit", content: "1"})
			rq.parts = append(ps, rq.parts[1:]...)
		}
	}
	if r.Chance(1, 8) {
		// a file part need not name a file
		rq.parts[0].fnMode, rq.parts[0].fname = 2, ""
	}
	if r.Chance(1, 3) {
		rq.preamble = "this is a preamble"
	}
	return rq
}

// number of file-store calls of a fault-free run of the request (events decide the chunking)
func totalOps(rq *reqSpec, user string) int {
	body, _ := buildBody(rq.parts, rq.preamble)
	evs, _ := deriveEvents(body, false)
	n := 0
	for _, e := range evs {
		if !e.isFile {
			continue
		}
		keys := 3
		if e.fname != "" {
			keys++
		}
		if user != "" {
			keys++
		}
		n += 1 + keys + 1 + len(e.chunks) + 1
	}
	return n
}

type gen struct {
	r    *hx.Rand
	id   int
	uidN int
	skip func(int) bool
}

func (g *gen) uid() string {
	g.uidN++
	return fmt.Sprintf("u%d", g.uidN)
}

func (g *gen) emit(sc *scenario) {
	id := g.id
	g.id++
	if g.skip(id) {
		return
	}
	runScenario(id, sc)
}

// history of 0..2 earlier requests (mostly successful, sometimes a failed one)
func (g *gen) history() []reqSpec {
	var h []reqSpec
	for n := g.r.Intn(3); n > 0; n-- {
		rq := goodReq(g.r, g.uid(), 1+g.r.Intn(2))
		if g.r.Chance(1, 4) {
			rq.parts = append(rq.parts, partSpec{form: "abort", content: "1"})
		}
		h = append(h, rq)
	}
	return h
}

func (g *gen) wrap(faulted reqSpec, tags ...string) *scenario {
	sc := &scenario{user: hx.Pick(g.r, []string{"user", "", "gopher@example.com"}), store: "local", tags: tags}
	if g.r.Chance(1, 5) {
		sc.store = "mem"
	}
	if sc.store == "mem" && faulted.fault != nil && faulted.fault.leaves {
		// MemFS has no Close that fails after publishing the file
		sc.store = "local"
	}
	sc.reqs = append(sc.reqs, g.history()...)
	sc.reqs = append(sc.reqs, faulted)
	// one or two following successful uploads (state left behind may only show on the second one)
	for n := 1 + g.r.Intn(2); n > 0; n-- {
		f := goodReq(g.r, g.uid(), 1+g.r.Intn(2))
		if faulted.client != "" && g.r.Bool() {
			// the same storage.Client carries on after its aborted / committed upload
			f.parts = fileOnly(f.parts)
			f.preamble = ""
			f.client = "commit"
		}
		sc.reqs = append(sc.reqs, f)
	}
	return sc
}

func main() {
	defer hx.Flush()
	log.SetOutput(io.Discard)
	db.VerifSetNow(func() time.Time { return clock })
	if os.Getenv("VERIF_C20_MISUSE") != "" {
		runMisuse()
		return
	}
	shard, _ := strconv.Atoi(os.Getenv("VERIF_SHARD"))
	nshards, _ := strconv.Atoi(os.Getenv("VERIF_NSHARDS"))
	if nshards <= 0 {
		nshards = 1
	}
	g := &gen{r: hx.NewRand(20)}
	g.skip = func(id int) bool { return id%nshards != shard }
	thorough := hx.Tier() == "thorough"

	runCorpus(g)

	// 0. plain successes
	for i := 0; i < hx.N(6, 40); i++ {
		sc := g.wrap(goodReq(g.r, g.uid(), 1+g.r.Intn(3)), "success")
		g.emit(sc)
	}

	// 1. file-store faults: every position of every base request, both modes
	nbase := hx.N(3, 12)
	for b := 0; b < nbase; b++ {
		base := goodReq(g.r, "x", 1+b%3)
		user := ""
		_ = user
		for _, mode := range []faultSpec{{0, false, false}, {0, true, false}, {0, false, true}} {
			// the number of calls depends on the user (one more header line); enumerate generously
			maxOps := totalOps(&base, "user") + 1
			for k := 0; k <= maxOps; k++ {
				rq := base
				rq.uid = g.uid()
				rq.parts = append([]partSpec{}, base.parts...)
				for i := range rq.parts {
					rq.parts[i].content = strings.ReplaceAll(rq.parts[i].content, "uid: x\n", "uid: "+rq.uid+"\n")
				}
				f := mode
				f.k = k
				rq.fault = &f
				g.emit(g.wrap(rq, "fs"))
			}
		}
	}

	// 2. truncated bodies: every byte offset of base bodies
	ncut := hx.N(2, 10)
	for b := 0; b < ncut; b++ {
		base := goodReq(g.r, "x", 1+b%3)
		body, _ := buildBody(base.parts, base.preamble)
		stride := 1
		if !thorough && b > 1 {
			stride = 3
		}
		for off := 0; off <= len(body); off += stride {
			rq := base
			rq.uid = g.uid()
			rq.parts = append([]partSpec{}, base.parts...)
			for i := range rq.parts {
				rq.parts[i].content = strings.ReplaceAll(rq.parts[i].content, "uid: x\n", "uid: "+rq.uid+"\n")
			}
			rq.cutAt = off
			g.emit(g.wrap(rq, "cut"))
			if off < len(body) && (off%4 == b%4 || thorough) {
				rq2 := rq
				rq2.uid = g.uid()
				rq2.parts = append([]partSpec{}, base.parts...)
				for i := range rq2.parts {
					rq2.parts[i].content = strings.ReplaceAll(rq2.parts[i].content, "uid: x\n", "uid: "+rq2.uid+"\n")
				}
				rq2.net = true
				g.emit(g.wrap(rq2, "cut"))
			}
		}
	}

	// 3. protocol violations and invalid content
	for i := 0; i < hx.N(40, 400); i++ {
		uid := g.uid()
		rq := goodReq(g.r, uid, 1+g.r.Intn(3))
		var tag string
		switch g.r.Intn(6) {
		case 0: // unknown field at a random position
			pos := g.r.Intn(len(rq.parts) + 1)
			ps := append([]partSpec{}, rq.parts[:pos]...)
			tail := append([]partSpec{}, rq.parts[pos:]...)
			bad := partSpec{form: hx.Pick(g.r, fieldNames), content: "1"}
			if g.r.Bool() {
				// the field carries a filename parameter and a perfectly good benchmark file
				bad.fnMode, bad.fname, bad.content = 1, fileNames(g.r), goodFile(g.r, uid, 1+g.r.Intn(2))
			}
			rq.parts = append(ps, bad)
			rq.parts = append(rq.parts, tail...)
			tag = "badfield"
		case 1: // one file without benchmark lines
			j := g.r.Intn(len(rq.parts))
			if rq.parts[j].form == "file" {
				rq.parts[j].content = strings.ReplaceAll(hx.Pick(g.r, badFiles), "%s", uid)
			}
			tag = "nobench"
		case 2: // no file part at all
			rq.parts = nil
			if g.r.Bool() {
				rq.parts = []partSpec{{form: "commit", content: "1"}}
			}
			tag = "nofiles"
		case 3: // client abort over real HTTP
			rq.parts = fileOnly(rq.parts)
			if g.r.Chance(1, 5) {
				rq.parts = nil // NewUpload, then Abort at once
			}
			rq.preamble = ""
			rq.client = "abort"
			tag = "clientabort"
		case 4: // client commit over real HTTP
			rq.parts = fileOnly(rq.parts)
			if g.r.Chance(1, 6) {
				rq.parts = nil // Commit without any file: "no files processed"
				tag = "clientempty"
			}
			rq.preamble = ""
			rq.client = "commit"
			if tag != "clientempty" {
				tag = "clientcommit"
			}
		case 5: // label clash: the label insert violates the primary key when the rows are flushed
			j := g.r.Intn(len(rq.parts))
			if rq.parts[j].form == "file" {
				rq.parts[j].content = "uid: " + uid + "\nname: clash\nBenchmarkA 1 2 ns/op\n"
			}
			tag = "dbclash"
		}
		g.emit(g.wrap(rq, tag))
	}

	// 3a. requests the handler refuses before it reads a part (not multipart, no boundary, wrong method,
	// authentication failure): an error must be reported and nothing may change
	for i, pre := range []string{"ctype", "boundary", "method", "auth"} {
		for j := 0; j < hx.N(1, 6); j++ {
			rq := goodReq(g.r, g.uid(), 1+(i+j)%2)
			rq.pre = pre
			g.emit(g.wrap(rq, "refused"))
		}
	}

	// 3c. files that re-declare or remove the server's keys (upload, upload-part, upload-file, upload-time,
	// by) — before the first result line, after it, with and without a blank-line header: the server's
	// labels are permanent, every record stays filed under the upload's own ids
	tamper := []string{"upload-part: 20200101.1/0", "upload: 20200101.9", "upload-part:", "upload:", "upload-file: evil.txt",
		"upload-file:", "upload-time: yesterday", "by: mallory", "by:", "upload-part: ID/0"}
	for i := 0; i < hx.N(12, 120); i++ {
		uid := g.uid()
		var b strings.Builder
		fmt.Fprintf(&b, "uid: %s\n", uid)
		if i%3 == 1 {
			b.WriteString(hx.Pick(g.r, tamper) + "\n")
		}
		if i%4 == 2 {
			b.WriteString("\n") // a blank-line header
		}
		b.WriteString("BenchmarkA 1 2 ns/op\n")
		for n := 1 + g.r.Intn(3); n > 0; n-- {
			b.WriteString(hx.Pick(g.r, tamper) + "\n")
		}
		b.WriteString("BenchmarkB 3 4 ns/op\n")
		if g.r.Bool() {
			b.WriteString(hx.Pick(g.r, tamper) + "\nBenchmarkB 5 6 ns/op\n")
		}
		rq := goodReq(g.r, uid, 1+g.r.Intn(2))
		j := g.r.Intn(len(rq.parts))
		if rq.parts[j].form == "file" {
			rq.parts[j].content = b.String()
		}
		g.emit(g.wrap(rq, "serverkeys"))
	}

	// 3b. every field name x {no filename, filename} x {before, between, after the files}: a part whose
	// field name is not "file" fails the whole upload, whatever else it carries
	for _, name := range fieldNames {
		for fn := 0; fn < 2; fn++ {
			for pos := 0; pos < 3; pos++ {
				if !thorough && (len(name)+fn+pos)%3 != 0 {
					continue
				}
				uid := g.uid()
				rq := reqSpec{cutAt: -1, uid: uid}
				files := []partSpec{{form: "file", fname: "a.txt", content: goodFile(g.r, uid, 2)}, {form: "file", fname: "b.txt", content: goodFile(g.r, uid, 1)}}
				bad := partSpec{form: name, content: "1"}
				if fn == 1 {
					bad.fnMode, bad.fname, bad.content = 1, hx.Pick(g.r, []string{"b.txt", "x", ""}), goodFile(g.r, uid, 2)
				}
				rq.parts = append(rq.parts, files[:pos]...)
				rq.parts = append(rq.parts, bad)
				rq.parts = append(rq.parts, files[pos:]...)
				g.emit(g.wrap(rq, "fieldnames"))
			}
		}
	}
	// a commit field that carries a filename is still only skipped
	for i := 0; i < hx.N(2, 10); i++ {
		uid := g.uid()
		rq := goodReq(g.r, uid, 1+g.r.Intn(2))
		rq.parts = append(rq.parts, partSpec{form: "commit", fnMode: 1, fname: "c.txt", content: goodFile(g.r, uid, 1)})
		g.emit(g.wrap(rq, "commitfile"))
	}

	// 4. uploads large enough for a flush in the middle (990 pending label arguments), then a fault
	for i := 0; i < hx.N(4, 30); i++ {
		uid := g.uid()
		rq := reqSpec{cutAt: -1, uid: uid}
		var b strings.Builder
		fmt.Fprintf(&b, "uid: %s\n", uid)
		for j := 0; j < 60+g.r.Intn(40); j++ {
			fmt.Fprintf(&b, "BenchmarkN%d 1 %d ns/op\n", j, j)
		}
		rq.parts = []partSpec{{form: "file", fname: "big.txt", content: b.String()}, {form: "file", fname: "small.txt", content: goodFile(g.r, uid, 2)}}
		switch i % 4 {
		case 0:
			rq.parts = append(rq.parts, partSpec{form: "abort", content: "1"})
		case 1:
			rq.parts[1].content = "PASS\n"
		case 2:
			body, _ := buildBody(rq.parts, "")
			rq.cutAt = len(body) - 5 - g.r.Intn(60)
		}
		g.emit(g.wrap(rq, "midflush"))
	}

	// 4b. the 990-argument flush (248 pending label rows) falling inside or right before the LAST
	// record of the upload: its remaining label rows are sent by Commit's final flush with no record row
	// pending. L = labels per record (metadata + uid + extra labels + name) moves the boundary.
	type flushCfg struct {
		user, fname string
		extra       int
	}
	cfgs := []flushCfg{{"user", "a.txt", 0}, {"", "a.txt", 0}, {"", "", 0}, {"user", "", 2}, {"user", "a.txt", 4}, {"", "a.txt", 9}}
	flushCase := func(c flushCfg, n int) {
		uid := g.uid()
		var b strings.Builder
		fmt.Fprintf(&b, "uid: %s\n", uid)
		for e := 0; e < c.extra; e++ {
			fmt.Fprintf(&b, "extra%d: v%d\n", e, e)
		}
		for j := 0; j < n; j++ {
			fmt.Fprintf(&b, "BenchmarkR%d 1 %d ns/op\n", j, j) // distinct names: one record each
		}
		rq := reqSpec{cutAt: -1, uid: uid, parts: []partSpec{{form: "file", fname: c.fname, content: b.String()}}}
		if c.fname == "" {
			rq.parts[0].fnMode = 2
		}
		sc := &scenario{user: c.user, store: "local", tags: []string{"flush-boundary"}}
		sc.reqs = append(sc.reqs, rq, goodReq(g.r, g.uid(), 1))
		g.emit(sc)
	}
	for ci, c := range cfgs {
		L := 3 + 1 + c.extra + 1 // upload, upload-part, upload-time, uid, extras, name
		if c.user != "" {
			L++
		}
		if c.fname != "" {
			L++
		}
		if thorough {
			for n := 35; n <= 130; n++ {
				flushCase(c, n)
			}
			continue
		}
		if ci >= 4 {
			continue
		}
		for j := 1; j <= 2+ci%2; j++ {
			hit := 248*j/L + 1 // the flush boundary 248*j lies in the labels of record number `hit`
			for n := hit - 1; n <= hit+1; n++ {
				flushCase(c, n)
			}
		}
	}

	// 4c. `go test -count=2` output right after a mid-record flush: n distinct one-line benchmarks, then
	// one benchmark on 2-3 consecutive lines (identical labels, coalesced into one record), where the
	// 248-label flush falls inside the first of the repeated lines' record. A valid upload: it must succeed
	// with every line retrievable.
	repeatCase := func(c flushCfg, n, reps int) {
		uid := g.uid()
		var b strings.Builder
		fmt.Fprintf(&b, "uid: %s\n", uid)
		for e := 0; e < c.extra; e++ {
			fmt.Fprintf(&b, "extra%d: v%d\n", e, e)
		}
		for j := 0; j < n; j++ {
			fmt.Fprintf(&b, "BenchmarkR%d 1 %d ns/op\n", j, j)
		}
		for j := 0; j < reps; j++ {
			fmt.Fprintf(&b, "BenchmarkTwice 1 %d ns/op\n", 100+j)
		}
		if g.r.Bool() {
			b.WriteString("BenchmarkTail 1 1 ns/op\n")
		}
		rq := reqSpec{cutAt: -1, uid: uid, parts: []partSpec{{form: "file", fname: c.fname, content: b.String()}}}
		if c.fname == "" {
			rq.parts[0].fnMode = 2
		}
		sc := &scenario{user: c.user, store: "local", tags: []string{"repeat"}}
		sc.reqs = append(sc.reqs, goodReq(g.r, g.uid(), 1), rq, goodReq(g.r, g.uid(), 1))
		g.emit(sc)
	}
	for ci, c := range []flushCfg{{"user", "a.txt", 0}, {"", "a.txt", 0}, {"user", "", 1}, {"", "", 0}, {"user", "a.txt", 2}, {"", "a.txt", 3}} {
		L := 3 + 1 + c.extra + 1
		if c.user != "" {
			L++
		}
		if c.fname != "" {
			L++
		}
		if thorough {
			for _, rng := range [][2]int{{35, 50}, {80, 90}, {120, 128}} {
				for n := rng[0]; n <= rng[1]; n++ {
					repeatCase(c, n, 2+(n+ci)%2)
				}
			}
			continue
		}
		if ci >= 4 {
			continue
		}
		for j := 1; j <= 3; j++ {
			hit := 248 * j / L // record number `hit` (0-based) is the one the flush boundary 248*j falls into
			for n := hit - 1; n <= hit+1; n++ {
				repeatCase(c, n, 2+(n+j)%2)
			}
		}
	}

	// 5. the clock: day changes between requests, also backwards (NewUpload then collides with an
	// existing row of the earlier day and refuses; a day without rows starts again at 1)
	patterns := [][]int{{0, 0, 1, 1}, {0, 1, 0}, {1, 0, 0, 1}, {0, 2, 1, 2, 0, 3}, {2, 3, 4, 3, 2}, {3, 3, 0, 3}, {0, 5, 5, 0, 1, 5}}
	for i := 0; i < hx.N(14, 140); i++ {
		pat := patterns[i%len(patterns)]
		sc := &scenario{user: hx.Pick(g.r, []string{"user", ""}), store: "local", tags: []string{"clock"}}
		for j, off := range pat {
			rq := goodReq(g.r, g.uid(), 1+g.r.Intn(2))
			rq.dayOff = off
			if i >= len(patterns) && g.r.Chance(1, 4) {
				rq.parts = append(rq.parts, partSpec{form: "abort", content: "1"})
			}
			if j > 0 && off < pat[j-1] {
				sc.tags = append(sc.tags, "clock-back")
			}
			if j > 0 && off > pat[j-1] {
				sc.tags = append(sc.tags, "clock-forward")
			}
			sc.reqs = append(sc.reqs, rq)
		}
		g.emit(sc)
	}

	runHeavyFaults(g)
	runManyParts(g)
	runIDs(g)
	runHTTPConcFamily(g)
	runLongLineFamily(g)
	runBigFamily(g)
}

// runHeavyFaults: an upload of thousands of results with distinct names (one record and 7 label rows
// each, i.e. tens of thousands of rows sent in hundreds of flushes) that fails near its end: nothing of it
// may be left, however many rows had been sent before the fault.
func runHeavyFaults(g *gen) {
	heavy := func(n, kind int) {
		uid := g.uid()
		var b strings.Builder
		fmt.Fprintf(&b, "uid: %s\n", uid)
		for j := 0; j < n; j++ {
			fmt.Fprintf(&b, "BenchmarkH%d 1 %d ns/op\n", j, j)
		}
		rq := reqSpec{cutAt: -1, uid: uid, parts: []partSpec{{form: "file", fname: "heavy.txt", content: b.String()}}}
		tag := ""
		switch kind {
		case 0: // a later file without benchmark lines
			rq.parts = append(rq.parts, partSpec{form: "file", fname: "bad.txt", content: "PASS\n"})
			tag = "heavy-nobench"
		case 1: // the client aborts at the end
			rq.parts = append(rq.parts, partSpec{form: "abort", content: "1"})
			tag = "heavy-abort"
		case 2: // the body is cut shortly before its end
			rq.parts = append(rq.parts, partSpec{form: "file", fname: "tail.txt", content: goodFile(g.r, uid, 2)})
			body, _ := buildBody(rq.parts, "")
			rq.cutAt = len(body) - 40
			tag = "heavy-cut"
		case 3: // a write error on the last file
			rq.parts = append(rq.parts, partSpec{form: "file", fname: "tail.txt", content: goodFile(g.r, uid, 2)})
			rq.fault = &faultSpec{k: totalOps(&rq, "user") - 2}
			tag = "heavy-fswrite"
		}
		sc := &scenario{user: "user", store: "local", tags: []string{"heavy", tag}}
		sc.reqs = append(sc.reqs, goodReq(g.r, g.uid(), 1), rq, goodReq(g.r, g.uid(), 1))
		g.emit(sc)
	}
	seed := g.r.Intn(1 << 16)
	if hx.Tier() != "thorough" {
		heavy(5000+seed%500, seed%4)
		return
	}
	for _, n := range []int{3000, 5000, 12000} {
		for kind := 0; kind < 4; kind++ {
			heavy(n+seed%100, kind)
		}
	}
}

// runManyParts: uploads of about a thousand tiny files (limits on the number of form parts usually sit
// at round numbers): every file of a successful upload is stored and retrievable, and a fault in a late
// part (after the 1000th) fails the whole upload.
func runManyParts(g *gen) {
	many := func(n, kind int) {
		uid := g.uid()
		rq := reqSpec{cutAt: -1, uid: uid}
		for j := 0; j < n; j++ {
			rq.parts = append(rq.parts, partSpec{form: "file", fname: fmt.Sprintf("f%d.txt", j),
				content: fmt.Sprintf("uid: %s\nBenchmarkP%d 1 %d ns/op\n", uid, j%7, j)})
		}
		tag := "manyparts-valid"
		switch kind {
		case 1:
			rq.parts = append(rq.parts, partSpec{form: "file", fname: "bad.txt", content: "PASS\n"})
			tag = "manyparts-nobench"
		case 2:
			rq.parts = append(rq.parts, partSpec{form: "abort", content: "1"})
			tag = "manyparts-abort"
		case 3:
			rq.parts = append(rq.parts, partSpec{form: "surprise", content: "1"})
			tag = "manyparts-field"
		case 4:
			rq.parts = append(rq.parts, partSpec{form: "file", fname: "tail.txt", content: goodFile(g.r, uid, 2)})
			body, _ := buildBody(rq.parts, "")
			rq.cutAt = len(body) - 30
			tag = "manyparts-cut"
		}
		sc := &scenario{user: hx.Pick(g.r, []string{"user", ""}), store: "local", tags: []string{"manyparts", tag}}
		sc.reqs = append(sc.reqs, goodReq(g.r, g.uid(), 1), rq, goodReq(g.r, g.uid(), 1))
		g.emit(sc)
	}
	if hx.Tier() != "thorough" {
		many(1001, 0)
		return
	}
	for _, n := range []int{999, 1000, 1001, 2000} {
		many(n, 0)
	}
	for kind := 1; kind <= 4; kind++ {
		many(1000, kind)
	}
}

func fileOnly(ps []partSpec) []partSpec {
	var out []partSpec
	for _, p := range ps {
		if p.form == "file" {
			out = append(out, p)
		}
	}
	return out
}

// the name processUpload derives from a filename parameter (Part.FileName, then the last path element)
func serverName(fname string) string {
	if fname != "" {
		fname = filepath.Base(fname)
	}
	if slash := strings.LastIndexAny(fname, `/\`); slash >= 0 {
		fname = fname[slash+1:]
	}
	return fname
}
