//go:build verif

package main

import (
	"bytes"
	"fmt"
	"io"
	"net/http"
	"net/http/httptest"
	"os"
	"path/filepath"
	"strings"
	"sync"
	"time"

	"golang.org/x/perf/internal/verifh/hx"
)

// G clients post uploads at the same time to ONE server (one App, one DB handle with its prepared
// statements, one file store, database file on disk). SQLite may refuse some of them ("database is
// locked"); whatever the outcome of each request, it must be all-or-nothing:
// answered 200  => all its benchmark lines are found by its uid label under the returned id, every
//                  file is stored with exactly the uploaded bytes after the header naming that id;
// answered error => no record with its uid, nothing listed for it;
// and no two successful uploads share an id.
func runHTTPConc(id, g int, r *hx.Rand) {
	defer func() {
		if e := recover(); e != nil {
			hx.Printf("crash %d %s\n", id, strings.ReplaceAll(fmt.Sprint(e), "\n", " "))
		}
	}()
	setDayOffset(0)
	dbCounter++
	path := filepath.Join(os.Getenv("VERIF_RUNDIR"), fmt.Sprintf("httpconc-%d-%d.db", os.Getpid(), dbCounter))
	os.Remove(path)
	s := newServerDSN("local", "user", path)
	defer func() {
		s.close()
		os.Remove(path)
		os.Remove(path + "-journal")
	}()
	s.srv = httptest.NewServer(s.mux)
	type job struct {
		uid    string
		parts  []partSpec
		abort  bool
		lines  int
		resp   response
		netErr bool
	}
	jobs := make([]*job, g)
	for i := range jobs {
		j := &job{uid: fmt.Sprintf("hc%d_%d", id, i)}
		for f := 0; f < 1+r.Intn(2); f++ {
			c := goodFile(r, j.uid, 1+r.Intn(3))
			j.parts = append(j.parts, partSpec{form: "file", fname: fmt.Sprintf("f%d.txt", f), content: c})
			for _, l := range strings.Split(c, "\n") {
				if strings.HasPrefix(l, "Benchmark") {
					j.lines++
				}
			}
		}
		if r.Chance(1, 4) {
			j.abort = true
			j.parts = append(j.parts, partSpec{form: "abort", content: "1"})
		}
		jobs[i] = j
	}
	var wg sync.WaitGroup
	start := make(chan struct{})
	for _, j := range jobs {
		wg.Add(1)
		pause := time.Duration(r.Intn(300)) * time.Microsecond
		go func(j *job) {
			defer wg.Done()
			body, _ := buildBody(j.parts, "")
			<-start
			time.Sleep(pause)
			resp, err := http.Post(s.srv.URL+"/upload", "multipart/form-data; boundary="+boundary, bytes.NewReader(body))
			if err != nil {
				j.netErr = true
				return
			}
			b, _ := io.ReadAll(resp.Body)
			resp.Body.Close()
			j.resp = decodeResponse(resp.StatusCode, b)
		}(j)
	}
	close(start)
	wg.Wait()

	okAll, failClean, distinct, filesOK, abortsFail := true, true, true, true, true
	seen := map[string]bool{}
	nok := 0
	_, data := s.files()
	for _, j := range jobs {
		rs, _ := s.search("uid:" + j.uid)
		if j.resp.status == 200 && !j.netErr {
			nok++
			if j.abort {
				abortsFail = false
			}
			if seen[j.resp.id] {
				distinct = false
			}
			seen[j.resp.id] = true
			if len(rs) != j.lines {
				okAll = false
			}
			for _, x := range rs {
				if x.upload != j.resp.id {
					okAll = false
				}
			}
			fi := 0
			for _, p := range j.parts {
				if p.form != "file" {
					continue
				}
				b := data[fmt.Sprintf("uploads/%s/%d.txt", j.resp.id, fi)]
				k := bytes.Index(b, []byte("\n\n"))
				if k < 0 || string(b[k+2:]) != p.content || !bytes.Contains(b[:k], []byte("upload-part: "+j.resp.id+"/"+fmt.Sprint(fi))) {
					filesOK = false
				}
				fi++
			}
		} else {
			if len(rs) != 0 {
				failClean = false
			}
			if l, _ := s.listing("uid:" + j.uid); len(l) != 0 {
				failClean = false
			}
		}
	}
	tag := "httpconc"
	if nok < g {
		tag += "+httpconc-refused"
	}
	fmt.Fprintf(os.Stderr, "httpconc case %d: %d/%d uploads answered 200\n", id, nok, g)
	hx.Printf("case %d kind=httpconc g=%d tag=%s\n", id, g, tag)
	hx.Printf("sobs %d okall=%s failclean=%s distinct=%s files=%s abortsfail=%s\n", id, b01(okAll), b01(failClean), b01(distinct), b01(filesOK), b01(abortsFail))
}

func runHTTPConcFamily(g *gen) {
	for i := 0; i < hx.N(3, 24); i++ {
		id := g.id
		g.id++
		if !g.skip(id) {
			runHTTPConc(id, 2+g.r.Intn(hx.N(4, 7)), g.r)
		}
	}
}
