//go:build verif

package db

import "time"

// VerifSetNow replaces the clock NewUpload reads the day from (the package's own test hook).
func VerifSetNow(f func() time.Time) { now = f }
