//go:build verif

package main

import (
	"context"
	"fmt"
	"os"
	"path/filepath"
	"strconv"
	"time"
	"strings"
	"sync"

	"golang.org/x/perf/internal/verifh/hx"
	"golang.org/x/perf/storage/benchfmt"
	"golang.org/x/perf/storage/db"
)

// record j of an upload at the db API: every third one has its own label value
func idsRecord(id string, j int) *benchfmt.Result {
	v := "v0"
	if j%3 == 0 {
		v = fmt.Sprintf("v%d", j)
	}
	return &benchfmt.Result{
		Labels:     benchfmt.Labels{"upload": id, "key": v},
		NameLabels: benchfmt.Labels{"name": "X"},
		Content:    fmt.Sprintf("BenchmarkX %d", j),
	}
}

func countQuery(d *db.DB, q string) int {
	qu := d.Query(q)
	defer qu.Close()
	n := 0
	for qu.Next() {
		n++
	}
	if qu.Err() != nil {
		return -1
	}
	return n
}

// sequential use of the db API: NewUpload, m InsertRecord, then Commit or Abort
func runIDsSeq(id int, ops []string) {
	for try := 0; try < 3; try++ {
		if runIDsSeqOnce(id, ops) {
			return
		}
	}
}

func runIDsSeqOnce(id int, ops []string) bool {
	defer func() {
		if e := recover(); e != nil {
			hx.Printf("crash %d %s\n", id, strings.ReplaceAll(fmt.Sprint(e), "\n", " "))
		}
	}()
	setDayOffset(0)
	day := utcDay()
	dbCounter++
	d, err := db.OpenSQL("sqlite3", fmt.Sprintf("file:c20ids_%d_%d?mode=memory&cache=shared", os.Getpid(), dbCounter))
	if err != nil {
		panic(err)
	}
	defer d.Close()
	var ids, opsOut, rids []string
	for _, op := range ops {
		// op = R<k>:<m><c|a>  ReplaceUpload of the k-th id given out so far (k < 0: a foreign id)
		if op[0] == 'R' {
			var k, m int
			var fin byte
			fmt.Sscanf(op, "R%d:%d%c", &k, &m, &fin)
			target := ""
			switch {
			case k == -1:
				target = "20200101.7" // never created, past day
			case k == -2:
				target = "20270101.2" // never created, future day
			case k == -3:
				target = utcDay() + ".9" // never created, current day, leaves a gap
			default:
				var given []string
				for _, i := range ids {
					if i != "!" {
						given = append(given, i)
					}
				}
				if len(given) == 0 {
					continue
				}
				target = given[k%len(given)]
			}
			u, err := d.ReplaceUpload(target)
			if err != nil {
				panic(err)
			}
			for j := 0; j < m; j++ {
				if err := u.InsertRecord(idsRecord(target, j)); err != nil {
					panic(err)
				}
			}
			if fin == 'c' {
				if err := u.Commit(); err != nil {
					panic(err)
				}
			} else {
				u.Abort()
			}
			opsOut = append(opsOut, fmt.Sprintf("R%s:%d%c", target, m, fin))
			seen := false
			for _, r := range rids {
				seen = seen || r == target
			}
			if !seen {
				rids = append(rids, target)
			}
			continue
		}
		// op = <m><c|a>@<day offset>
		var m, off int
		var fin byte
		fmt.Sscanf(op, "%d%c@%d", &m, &fin, &off)
		setDayOffset(off)
		opsOut = append(opsOut, fmt.Sprintf("%d%c@%s", m, fin, utcDay()))
		u, err := d.NewUpload(context.Background())
		if err != nil {
			ids = append(ids, "!")
			continue
		}
		ids = append(ids, u.ID)
		for j := 0; j < m; j++ {
			if err := u.InsertRecord(idsRecord(u.ID, j)); err != nil {
				panic(err)
			}
		}
		if fin == 'c' {
			if err := u.Commit(); err != nil {
				panic(err)
			}
		} else {
			u.Abort()
		}
	}
	var counts []string
	for _, i := range ids {
		counts = append(counts, fmt.Sprint(countQuery(d, "upload:"+i)))
	}
	var list []string
	ul := d.ListUploads("", nil, 0)
	for ul.Next() {
		list = append(list, fmt.Sprintf("%s:%d", ul.Info().UploadID, ul.Info().Count))
	}
	ul.Close()
	nup, _ := d.CountUploads()
	hx.Printf("case %d kind=ids day=%s ops=%s tag=ids\n", id, day, strings.Join(opsOut, ","))
	var rcounts []string
	for _, r := range rids {
		rcounts = append(rcounts, fmt.Sprintf("%s:%d", r, countQuery(d, "upload:"+r)))
	}
	hx.Printf("obs %d ids=%s counts=%s rcounts=%s list=%s nup=%d all=%d\n", id, joinOr(ids), joinOr(counts), joinOr(rcounts), joinOr(list), nup, countQuery(d, "upload>"))
	var given []string // a refused NewUpload hands out no id
	for _, i := range ids {
		if i != "!" {
			given = append(given, i)
		}
	}
	hx.Printf("sobs %d idsok=%s\n", id, b01(idsOK(given)))
	return true
}

// statistics over the concurrent cases of this run
var concOrders = map[string]bool{}
var concCases, concSucc, concTried int

// G goroutines x M NewUpload on one database file; committed and aborted uploads mixed.
// Judged: ids pairwise distinct, well formed, strictly increasing per goroutine (each goroutine
// creates its uploads one after the other), one Uploads row per id, committed uploads have exactly
// their record and aborted ones none.
func runIDsConc(id, g, m int) {
	defer func() {
		if e := recover(); e != nil {
			hx.Printf("crash %d %s\n", id, strings.ReplaceAll(fmt.Sprint(e), "\n", " "))
		}
	}()
	setDayOffset(0)
	dbCounter++
	path := filepath.Join(os.Getenv("VERIF_RUNDIR"), fmt.Sprintf("conc-%d-%d.db", os.Getpid(), dbCounter))
	os.Remove(path)
	d, err := db.OpenSQL("sqlite3", path)
	if err != nil {
		panic(err)
	}
	defer func() {
		d.Close()
		os.Remove(path)
		os.Remove(path + "-journal")
	}()
	type got struct {
		id        string
		gi        int
		committed bool
	}
	var mu sync.Mutex
	var all []got
	var order []byte // goroutine index of every successful NewUpload, in completion order
	var wg sync.WaitGroup
	start := make(chan struct{})
	for gi := 0; gi < g; gi++ {
		wg.Add(1)
		pause := hx.NewRand(uint64(1000*id + gi))
		go func(gi int) {
			defer wg.Done()
			<-start
			for j := 0; j < m; j++ {
				// short pauses let the other goroutines in between (finer interleavings)
				time.Sleep(time.Duration(pause.Intn(400)) * time.Microsecond)
				u, err := d.NewUpload(context.Background())
				if err != nil {
					continue
				}
				mu.Lock()
				order = append(order, byte('a'+gi))
				mu.Unlock()
				time.Sleep(time.Duration(pause.Intn(200)) * time.Microsecond)
				commit := (gi+j)%2 == 0
				ok := false
				if commit {
					if u.InsertRecord(idsRecord(u.ID, 0)) == nil && u.Commit() == nil {
						ok = true
					} else {
						u.Abort()
					}
				} else {
					u.Abort()
				}
				mu.Lock()
				all = append(all, got{u.ID, gi, ok})
				mu.Unlock()
			}
		}(gi)
	}
	close(start)
	wg.Wait()
	distinct, format, mono := true, true, true
	seen := map[string]bool{}
	lastSeq := map[int]int{}
	for _, x := range all {
		if seen[x.id] {
			distinct = false
		}
		seen[x.id] = true
		mm := idRe.FindStringSubmatch(x.id)
		if mm == nil {
			format = false
			continue
		}
		// `all` holds each goroutine's uploads in its own creation order
		n, _ := strconv.Atoi(mm[2])
		if n <= lastSeq[x.gi] {
			mono = false
		}
		lastSeq[x.gi] = n
	}
	nup, _ := d.CountUploads()
	rows := nup >= len(all) && nup <= g*m
	atomic := true
	for _, x := range all {
		n := countQuery(d, "upload:"+x.id)
		if (x.committed && n != 1) || (!x.committed && n != 0) {
			atomic = false
		}
	}
	// was the completion order a real interleaving (not goroutine after goroutine)?
	switches := 0
	for i := 1; i < len(order); i++ {
		if order[i] != order[i-1] {
			switches++
		}
	}
	tag := "conc"
	if switches >= g {
		tag += "+conc-interleaved"
	}
	if len(all) < g*m {
		tag += "+conc-refused"
	}
	fmt.Fprintf(os.Stderr, "conc case %d g=%d m=%d order=%s ok=%d/%d\n", id, g, m, order, len(all), g*m)
	concOrders[fmt.Sprintf("%d/%d/%s", g, m, order)] = true
	concCases++
	concSucc += len(all)
	concTried += g * m
	hx.Printf("case %d kind=conc g=%d m=%d tag=%s\n", id, g, m, tag)
	hx.Printf("sobs %d distinct=%s fmt=%s mono=%s rows=%s atomic=%s\n", id, b01(distinct), b01(format), b01(mono), b01(rows), b01(atomic))
}

func runIDs(g *gen) {
	// fixed sequences: reindex of a never-created id of the current day (leaves a gap), then several
	// uploads (the newest-row lookup must keep counting past the foreign row); the same with a future day
	for _, ops := range [][]string{
		{"1c@0", "R-3:1c", "1c@0", "2c@0", "1a@0", "0c@0"},
		{"1c@0", "1c@0", "R-3:0a", "1c@0", "1c@0", "R0:2c", "1c@0"},
		{"1c@0", "R-2:1c", "1c@0", "1c@1", "1c@1"},
		{"R-1:2c", "1c@0", "1c@0", "R-1:0a", "1c@2"},
	} {
		id := g.id
		g.id++
		if !g.skip(id) {
			runIDsSeq(id, ops)
		}
	}
	for i := 0; i < hx.N(18, 180); i++ {
		var ops []string
		for n := 1 + g.r.Intn(8); n > 0; n-- {
			off := 0
			if i%2 == 1 {
				off = g.r.Intn(4)
			}
			ops = append(ops, fmt.Sprintf("%d%c@%d", g.r.Intn(5), hx.Pick(g.r, []byte{'c', 'a'}), off))
			if i%3 == 2 && g.r.Chance(1, 2) {
				// reindex: mostly an existing upload, sometimes an id that was never created
				k := g.r.Intn(6)
				if g.r.Chance(1, 4) {
					k = -1 - g.r.Intn(3)
				}
				ops = append(ops, fmt.Sprintf("R%d:%d%c", k, g.r.Intn(4), hx.Pick(g.r, []byte{'c', 'a'})))
			}
		}
		id := g.id
		g.id++
		if !g.skip(id) {
			runIDsSeq(id, ops)
		}
	}
	for i := 0; i < hx.N(4, 40); i++ {
		id := g.id
		g.id++
		if !g.skip(id) {
			runIDsConc(id, 2+g.r.Intn(hx.N(4, 7)), 3+g.r.Intn(hx.N(5, 10)))
		}
	}
	// how many different completion orders (interleavings) the concurrent cases showed
	hx.Printf("info conc cases=%d distinct_orders=%d newupload_ok=%d/%d\n", concCases, len(concOrders), concSucc, concTried)
	id := g.id
	g.id++
	if !g.skip(id) {
		hx.Printf("case %d kind=concsum cases=%d tag=conc-distinct-orders-%d\n", id, concCases, len(concOrders))
	}
}
