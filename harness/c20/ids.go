//go:build verif

package main

import (
	"context"
	"fmt"
	"os"
	"path/filepath"
	"sort"
	"strings"
	"sync"
	"time"

	"golang.org/x/perf/internal/verifh/hx"
	"golang.org/x/perf/storage/benchfmt"
	"golang.org/x/perf/storage/db"
)

// record j of an upload at the db API: every third one has its own label value
func idsRecord(id string, j int) *benchfmt.Result {
	v := "v0"
	if j%3 == 0 {
		v = fmt.Sprintf("v%d", j)
	}
	return &benchfmt.Result{
		Labels:     benchfmt.Labels{"upload": id, "key": v},
		NameLabels: benchfmt.Labels{"name": "X"},
		Content:    fmt.Sprintf("BenchmarkX %d", j),
	}
}

func countQuery(d *db.DB, q string) int {
	qu := d.Query(q)
	defer qu.Close()
	n := 0
	for qu.Next() {
		n++
	}
	if qu.Err() != nil {
		return -1
	}
	return n
}

// sequential use of the db API: NewUpload, m InsertRecord, then Commit or Abort
func runIDsSeq(id int, ops []string) {
	for try := 0; try < 3; try++ {
		if runIDsSeqOnce(id, ops) {
			return
		}
	}
}

func runIDsSeqOnce(id int, ops []string) bool {
	defer func() {
		if e := recover(); e != nil {
			hx.Printf("crash %d %s\n", id, strings.ReplaceAll(fmt.Sprint(e), "\n", " "))
		}
	}()
	day := time.Now().UTC().Format("20060102")
	dbCounter++
	d, err := db.OpenSQL("sqlite3", fmt.Sprintf("file:c20ids_%d_%d?mode=memory&cache=shared", os.Getpid(), dbCounter))
	if err != nil {
		panic(err)
	}
	defer d.Close()
	var ids []string
	for _, op := range ops {
		// op = <m><c|a>
		var m int
		var fin byte
		fmt.Sscanf(op, "%d%c", &m, &fin)
		u, err := d.NewUpload(context.Background())
		if err != nil {
			ids = append(ids, "!")
			continue
		}
		ids = append(ids, u.ID)
		for j := 0; j < m; j++ {
			if err := u.InsertRecord(idsRecord(u.ID, j)); err != nil {
				panic(err)
			}
		}
		if fin == 'c' {
			if err := u.Commit(); err != nil {
				panic(err)
			}
		} else {
			u.Abort()
		}
	}
	var counts []string
	for _, i := range ids {
		counts = append(counts, fmt.Sprint(countQuery(d, "upload:"+i)))
	}
	var list []string
	ul := d.ListUploads("", nil, 0)
	for ul.Next() {
		list = append(list, fmt.Sprintf("%s:%d", ul.Info().UploadID, ul.Info().Count))
	}
	ul.Close()
	nup, _ := d.CountUploads()
	if utcDay() != day {
		return false
	}
	hx.Printf("case %d kind=ids day=%s ops=%s tag=ids\n", id, day, strings.Join(ops, ","))
	hx.Printf("obs %d ids=%s counts=%s list=%s nup=%d all=%d\n", id, joinOr(ids), joinOr(counts), joinOr(list), nup, countQuery(d, "upload>"))
	hx.Printf("sobs %d idsok=%s\n", id, b01(idsOK(ids)))
	return true
}

// G goroutines x M NewUpload on one database file; committed and aborted uploads mixed
func runIDsConc(id, g, m int) {
	defer func() {
		if e := recover(); e != nil {
			hx.Printf("crash %d %s\n", id, strings.ReplaceAll(fmt.Sprint(e), "\n", " "))
		}
	}()
	dbCounter++
	path := filepath.Join(os.Getenv("VERIF_RUNDIR"), fmt.Sprintf("conc-%d-%d.db", os.Getpid(), dbCounter))
	os.Remove(path)
	d, err := db.OpenSQL("sqlite3", path)
	if err != nil {
		panic(err)
	}
	defer func() {
		d.Close()
		os.Remove(path)
		os.Remove(path + "-journal")
	}()
	hx.Printf("case %d kind=conc g=%d m=%d tag=conc\n", id, g, m)
	type got struct {
		id        string
		committed bool
	}
	var mu sync.Mutex
	var all []got
	var wg sync.WaitGroup
	for gi := 0; gi < g; gi++ {
		wg.Add(1)
		go func(gi int) {
			defer wg.Done()
			for j := 0; j < m; j++ {
				u, err := d.NewUpload(context.Background())
				if err != nil {
					continue
				}
				commit := (gi+j)%2 == 0
				ok := false
				if commit {
					if u.InsertRecord(idsRecord(u.ID, 0)) == nil && u.Commit() == nil {
						ok = true
					} else {
						u.Abort()
					}
				} else {
					u.Abort()
				}
				mu.Lock()
				all = append(all, got{u.ID, ok})
				mu.Unlock()
			}
		}(gi)
	}
	wg.Wait()
	distinct, format := true, true
	seen := map[string]bool{}
	var ids []string
	for _, x := range all {
		if seen[x.id] {
			distinct = false
		}
		seen[x.id] = true
		if !idRe.MatchString(x.id) {
			format = false
		}
		ids = append(ids, x.id)
	}
	sort.Strings(ids)
	nup, _ := d.CountUploads()
	rows := nup >= len(all) && nup <= g*m
	atomic := true
	for _, x := range all {
		n := countQuery(d, "upload:"+x.id)
		if (x.committed && n != 1) || (!x.committed && n != 0) {
			atomic = false
		}
	}
	fmt.Fprintf(os.Stderr, "conc case %d: %d/%d NewUpload succeeded\n", id, len(all), g*m)
	hx.Printf("sobs %d distinct=%s fmt=%s rows=%s atomic=%s\n", id, b01(distinct), b01(format), b01(rows), b01(atomic))
}

func runIDs(g *gen) {
	for i := 0; i < hx.N(6, 60); i++ {
		var ops []string
		for n := 1 + g.r.Intn(8); n > 0; n-- {
			ops = append(ops, fmt.Sprintf("%d%c", g.r.Intn(5), hx.Pick(g.r, []byte{'c', 'a'})))
		}
		id := g.id
		g.id++
		if !g.skip(id) {
			runIDsSeq(id, ops)
		}
	}
	for i := 0; i < hx.N(2, 12); i++ {
		id := g.id
		g.id++
		if !g.skip(id) {
			runIDsConc(id, 2+g.r.Intn(4), 3+g.r.Intn(5))
		}
	}
}
