//go:build verif

package main

import (
	"context"
	"fmt"
	"io"
	"net/http/httptest"
	"os"
	"time"

	"golang.org/x/perf/storage"
)

// Client API misuse (Commit twice, Abort after Commit, Abort twice, CreateFile after Commit): outside the
// property's statement — the documentation asks for exactly one Commit or Abort. Run by hand with
// VERIF_C20_MISUSE=1 to see what happens; the findings are recorded in notes/C20.md, nothing is judged.
func runMisuse() {
	s := newServer("local", "user")
	defer s.close()
	s.srv = httptest.NewServer(s.mux)
	c := &storage.Client{BaseURL: s.srv.URL}
	try := func(name string, f func(u *storage.Upload) string) {
		u := c.NewUpload(context.Background())
		w, _ := u.CreateFile("a.txt")
		io.WriteString(w, "uid: m\nBenchmarkA 1 2 ns/op\n")
		done := make(chan string, 1)
		go func() {
			defer func() {
				if e := recover(); e != nil {
					done <- fmt.Sprint("panic: ", e)
				}
			}()
			done <- f(u)
		}()
		select {
		case r := <-done:
			fmt.Fprintf(os.Stderr, "misuse %-28s %s\n", name, r)
		case <-time.After(2 * time.Second):
			fmt.Fprintf(os.Stderr, "misuse %-28s HANGS (no return within 2s)\n", name)
		}
		n, _ := s.db.CountUploads()
		all, _ := s.search("upload>")
		fmt.Fprintf(os.Stderr, "       server: %d upload rows, %d records\n", n, len(all))
	}
	try("Commit, Commit", func(u *storage.Upload) string { u.Commit(); _, err := u.Commit(); return fmt.Sprint("second Commit: ", err) })
	try("Commit, Abort", func(u *storage.Upload) string { u.Commit(); return fmt.Sprint("Abort: ", u.Abort()) })
	try("Abort, Abort", func(u *storage.Upload) string { u.Abort(); return fmt.Sprint("second Abort: ", u.Abort()) })
	try("Abort, Commit", func(u *storage.Upload) string { u.Abort(); _, err := u.Commit(); return fmt.Sprint("Commit: ", err) })
	try("Commit, CreateFile", func(u *storage.Upload) string { u.Commit(); _, err := u.CreateFile("b"); return fmt.Sprint("CreateFile: ", err) })
	try("Abort, CreateFile", func(u *storage.Upload) string { u.Abort(); _, err := u.CreateFile("b"); return fmt.Sprint("CreateFile: ", err) })
}
