//go:build verif

package main

import (
	"fmt"
	"strings"

	"golang.org/x/perf/internal/verifh/hx"
)

// Long lines: an upload containing a configuration line, a result line or a sub-benchmark name of
// about 64 KiB (the line scanners' token limit), between two ordinary uploads. The server may refuse
// it (then nothing of it may be left) or accept it (then EVERY query — by upload id, by:user, the
// full search, the listing — must return all its records and all records of its neighbours without
// an error). Which of the two happened is recorded on the case line (`accepted=`).
func runLongLine(id int, kind string, n int, first bool, r *hx.Rand) {
	defer func() {
		if e := recover(); e != nil {
			hx.Printf("crash %d %s\n", id, strings.ReplaceAll(fmt.Sprint(e), "\n", " "))
		}
	}()
	setDayOffset(0)
	s := newServer("local", "user")
	defer s.close()
	post := func(rq reqSpec) response {
		body, _ := buildBody(rq.parts, "")
		s.ffs.reset(nil)
		return s.post(body)
	}
	count := func(content string) int {
		c := 0
		for _, l := range strings.Split(content, "\n") {
			if strings.HasPrefix(l, "Benchmark") && strings.ContainsAny(l, " \t") {
				c++
			}
		}
		return c
	}
	total := func(rq reqSpec) int {
		c := 0
		for _, p := range rq.parts {
			if p.form == "file" {
				c += count(p.content)
			}
		}
		return c
	}
	a := goodReq(r, fmt.Sprintf("lla%d", id), 1+r.Intn(2))
	a.preamble, a.parts = "", fileOnly(a.parts)
	c := goodReq(r, fmt.Sprintf("llc%d", id), 1+r.Intn(2))
	c.preamble, c.parts = "", fileOnly(c.parts)

	uid := fmt.Sprintf("ll%d", id)
	var long string
	switch kind {
	case "cfg": // a configuration line of n bytes
		long = "note: " + strings.Repeat("v", n-6)
	case "result": // a result line of n bytes
		p := "BenchmarkLong 1 2 ns/op "
		long = p + strings.Repeat("9", n-len(p)-6) + " ns/op"
	case "subname": // a sub-benchmark name that makes the line n bytes long
		suf := " 1 2 ns/op"
		long = "BenchmarkLong/arg=" + strings.Repeat("a", n-len("BenchmarkLong/arg=")-len(suf)) + suf
	}
	if len(long) != n {
		panic(fmt.Sprintf("long line has %d bytes, wanted %d", len(long), n))
	}
	content := "uid: " + uid + "\nBenchmarkBefore 1 2 ns/op\n" + long + "\nBenchmarkAfter 3 4 ns/op\n"
	other := partSpec{form: "file", fname: "o.txt", content: goodFile(r, uid, 2)}
	l := reqSpec{cutAt: -1, uid: uid, parts: []partSpec{{form: "file", fname: "long.txt", content: content}, other}}
	if !first {
		l.parts[0], l.parts[1] = l.parts[1], l.parts[0]
	}

	ra := post(a)
	rl := post(l)
	rc := post(c)
	accepted := rl.status == 200
	hx.Printf("case %d kind=longline what=%s len=%d first=%s accepted=%s a=%d l=%d c=%d tag=longline+long-%s+len%d\n",
		id, kind, n, b01(first), b01(accepted), total(a), total(l), total(c), kind, n)
	errs := 0
	q := func(query string) []result {
		rs, e := s.search(query)
		if e != "" {
			errs++
		}
		return rs
	}
	byUID := func(rs []result, uid string) int {
		k := 0
		for _, x := range rs {
			if x.uid == uid {
				k++
			}
		}
		return k
	}
	upA, upC, upL := -1, -1, 0
	if ra.status == 200 {
		upA = len(q("upload:" + ra.id))
	}
	if rc.status == 200 {
		upC = len(q("upload:" + rc.id))
	}
	if accepted {
		upL = len(q("upload:" + rl.id))
	}
	by := q("by:user")
	all := q("upload>")
	lab := q("uid:" + uid)
	list, le := s.listing("")
	if le != "" {
		errs++
	}
	names, _ := s.files()
	nfilesL := 0
	for _, nm := range names {
		if accepted && strings.HasPrefix(nm, "uploads/"+rl.id+"/") {
			nfilesL++
		}
	}
	// files of an upload the server refused may only be those of its completed earlier parts
	hx.Printf("sobs %d ok=%s errs=%d upA=%d upL=%d upC=%d by=%d,%d,%d all=%d,%d,%d lab=%d listed=%d filesL=%d\n", id, b01(accepted), errs,
		upA, upL, upC, byUID(by, a.uid), byUID(by, uid), byUID(by, c.uid), byUID(all, a.uid), byUID(all, uid), byUID(all, c.uid),
		len(lab), len(list), nfilesL)
}

func runLongLineFamily(g *gen) {
	for rep := 0; rep < hx.N(1, 3); rep++ {
		for _, kind := range []string{"cfg", "result", "subname"} {
			for _, n := range []int{65535, 65536, 70000} {
				id := g.id
				g.id++
				if !g.skip(id) {
					runLongLine(id, kind, n, (rep+n)%2 == 0, g.r)
				}
			}
		}
	}
}
