//go:build verif

package main

import (
	"os"
	"path/filepath"
	"strconv"
	"strings"

	"golang.org/x/perf/internal/verifh/hx"
)

// runCorpus runs the recorded witnesses of corpus/C20/witnesses.txt before anything else.
func runCorpus(g *gen) {
	data, err := os.ReadFile(filepath.Join(os.Getenv("VERIF_ROOT"), "corpus", "C20", "witnesses.txt"))
	if err != nil {
		return
	}
	for _, line := range strings.Split(string(data), "\n") {
		f := strings.Fields(line)
		if len(f) != 8 || strings.HasPrefix(line, "#") {
			continue
		}
		rq := reqSpec{cutAt: -1, uid: f[1], net: f[6] == "1"}
		user := ""
		if f[2] != "-" {
			user = string(hx.UnHex(f[2]))
		}
		for _, p := range strings.Split(f[7], ",") {
			x := strings.Split(p, ":")
			ps := partSpec{form: x[0], fname: string(hx.UnHex(x[1])), content: string(hx.UnHex(x[2]))}
			if len(x) > 3 && x[3] == "fn" {
				ps.fnMode = 1 // the part carries a filename parameter whatever its field name
			}
			rq.parts = append(rq.parts, ps)
		}
		if f[4] != "-" {
			x := strings.Split(f[4], ".")
			k, _ := strconv.Atoi(x[0])
			rq.fault = &faultSpec{k: k, sticky: x[1] == "s", leaves: x[2] == "l"}
		}
		if f[5] != "-" {
			x := strings.Split(f[5], ":")
			n, _ := strconv.Atoi(x[1])
			d, _ := strconv.Atoi(x[2])
			_, regs := buildBody(rq.parts, "")
			for _, r := range regs {
				if r.tag == x[0] {
					if n == 0 {
						rq.cutAt = r.start + d
						break
					}
					n--
				}
			}
		}
		follow := reqSpec{cutAt: -1, uid: f[1] + "f", parts: []partSpec{{form: "file", fname: "next.txt", content: "uid: " + f[1] + "f\nBenchmarkNext 1 1 ns/op\n"}}}
		g.emit(&scenario{user: user, store: f[3], reqs: []reqSpec{rq, follow}, tags: []string{"corpus-" + f[0]}})
	}
}
