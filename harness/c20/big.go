//go:build verif

package main

import (
	"bytes"
	"fmt"
	"strings"

	"golang.org/x/perf/internal/verifh/hx"
)

// Large files: a successful upload must store every byte and index every line also when a file has
// many MiB (sizes around powers of two, where caps usually sit). The file is described by generator
// parameters on the case line (blocks of identical lines, one last line with its own name); the
// specification computes the expected numbers arithmetically and never materialises the file.

type bigBlock struct {
	line  string // one benchmark line, newline included
	count int
}

type bigFile struct {
	fname   string
	small   string // a small literal file, or
	uidLine string // "uid: …\n" followed by
	blocks  []bigBlock
	last    string // the last line (own benchmark name; may lack the final newline)
}

func (f *bigFile) content() string {
	if f.blocks == nil {
		return f.small
	}
	var b strings.Builder
	b.WriteString(f.uidLine)
	for _, bl := range f.blocks {
		b.WriteString(strings.Repeat(bl.line, bl.count))
	}
	b.WriteString(f.last)
	return b.String()
}

func (f *bigFile) encode() string {
	if f.blocks == nil {
		return "S:" + hx.HexS(f.fname) + ":" + hx.HexS(f.small)
	}
	var bs []string
	for _, bl := range f.blocks {
		bs = append(bs, fmt.Sprintf("%d.%s", bl.count, hx.HexS(bl.line)))
	}
	return "B:" + hx.HexS(f.fname) + ":" + hx.HexS(f.uidLine) + ":" + strings.Join(bs, ",") + ":" + hx.HexS(f.last)
}

// a file of about `target` bytes (+ delta lines): three blocks of identical lines and a last line
func makeBig(uid string, target, delta int, finalNewline bool) bigFile {
	f := bigFile{fname: "big.txt", uidLine: "uid: " + uid + "\n", last: "BenchmarkLast 7 7 ns/op\n"}
	if !finalNewline {
		f.last = strings.TrimSuffix(f.last, "\n")
	}
	lines := []string{"BenchmarkAlpha 1 100 ns/op\n", "BenchmarkBeta 20 2000 ns/op\n", "BenchmarkGamma 3 3 ns/op\n"}
	per := len(lines[0]) + len(lines[1]) + len(lines[2])
	rounds := (target - len(f.uidLine) - len(f.last)) / per
	rest := (target - len(f.uidLine) - len(f.last) - rounds*per) / len(lines[2])
	f.blocks = []bigBlock{{lines[0], rounds}, {lines[1], rounds}, {lines[2], rounds + rest + delta}}
	return f
}

func runBig(id int, user string, files []bigFile, tag string) {
	defer func() {
		if e := recover(); e != nil {
			hx.Printf("crash %d %s\n", id, strings.ReplaceAll(fmt.Sprint(e), "\n", " "))
		}
	}()
	setDayOffset(0)
	s := newServer("local", user)
	defer s.close()
	var parts []partSpec
	var enc []string
	for _, f := range files {
		parts = append(parts, partSpec{form: "file", fname: f.fname, content: f.content()})
		enc = append(enc, f.encode())
	}
	body, _ := buildBody(parts, "")
	s.ffs.reset(nil)
	resp := s.post(body)
	body = nil
	accepted := resp.status == 200
	hx.Printf("case %d kind=big user=%s accepted=%s files=%s tag=big+%s\n", id, hx.HexS(user), b01(accepted), strings.Join(enc, ";"), tag)
	if !accepted {
		// a refusal is allowed, but then nothing may be left behind
		all, _ := s.search("upload>")
		list, _ := s.listing("")
		names, _ := s.files()
		hx.Printf("sobs %d ok=0 left=%d\n", id, len(all)+len(list)+len(names))
		return
	}
	rs, e := s.search("upload:" + resp.id)
	per := make([]int, len(files))
	for _, r := range rs {
		var i int
		if _, err := fmt.Sscanf(strings.TrimPrefix(r.part, resp.id+"/"), "%d", &i); err == nil && i < len(per) {
			per[i]++
		}
	}
	last, _ := s.search("name:Last")
	list, _ := s.listing("")
	_, data := s.files()
	var lens, sums, hdrs, perS []string
	for i := range files {
		b := data[fmt.Sprintf("uploads/%s/%d.txt", resp.id, i)]
		h, rest := b, []byte(nil)
		if j := bytes.Index(b, []byte("\n\n")); j >= 0 {
			h, rest = b[:j+1], b[j+2:]
		}
		var sum uint32
		for _, c := range rest {
			sum += uint32(c)
		}
		lens = append(lens, fmt.Sprint(len(rest)))
		sums = append(sums, fmt.Sprint(sum))
		hdrs = append(hdrs, hx.Hex(bytes.ReplaceAll(h, []byte(resp.id), []byte("ID"))))
		perS = append(perS, fmt.Sprint(per[i]))
	}
	hx.Printf("sobs %d ok=1 nrec=%d%s perfile=%s last=%d listed=%d nfiles=%d lens=%s sums=%s hdrs=%s\n", id, len(rs), e,
		strings.Join(perS, ","), len(last), len(list), len(data), strings.Join(lens, ","), strings.Join(sums, ","), strings.Join(hdrs, ","))
}

func runBigFamily(g *gen) {
	const MiB = 1 << 20
	small := func(uid string, i int) bigFile {
		return bigFile{fname: fmt.Sprintf("s%d.txt", i), small: fmt.Sprintf("uid: %s\nBenchmarkSmall%d 1 2 ns/op\n", uid, i)}
	}
	emit := func(target, delta, pos int, nl bool, user, tag string) {
		id := g.id
		g.id++
		if g.skip(id) {
			return
		}
		uid := fmt.Sprintf("big%d", id)
		files := []bigFile{small(uid, 0), small(uid, 1)}
		big := makeBig(uid, target, delta, nl)
		files = append(files[:pos], append([]bigFile{big}, files[pos:]...)...)
		runBig(id, user, files, tag)
	}
	seed := g.r.Intn(1 << 20)
	if hx.Tier() != "thorough" {
		// one case per quick run: 9-12 MiB, position and size vary with the seed
		emit((9+seed%4)*MiB+seed%977, 0, seed%3, seed%2 == 0, "user", "large")
		return
	}
	for _, k := range []int{1, 4, 8} {
		for d := -1; d <= 1; d++ {
			// just below 2^k (d = -1, 0: the last whole line that fits) and one line over it
			emit(k*MiB, d, (k+d+3)%3, d != 0, hx.Pick(g.r, []string{"user", ""}), fmt.Sprintf("pow2-%dMiB", k))
		}
	}
	for pos := 0; pos < 3; pos++ {
		emit((10+pos)*MiB+seed%977, 0, pos, pos != 1, "user", "large")
	}
}
