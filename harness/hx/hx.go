//go:build verif

// Package hx holds helpers shared by the correspondence harnesses:
// one PRNG seeded from VERIF_SEED, hex encoding, buffered line output.
package hx

import (
	"bufio"
	"encoding/hex"
	"fmt"
	"math"
	"os"
	"strconv"
	"strings"
)

// Rand is splitmix64; every random choice of a harness derives from it.
type Rand struct{ s uint64 }

func NewRand(salt uint64) *Rand {
	seed, _ := strconv.ParseUint(os.Getenv("VERIF_SEED"), 10, 64)
	shard, _ := strconv.ParseUint(os.Getenv("VERIF_SHARD"), 10, 64)
	// Scramble seed, salt and shard separately so that neighbouring seeds give unrelated
	// streams (the state advances by a fixed increment, so a linear start would only shift it).
	return &Rand{s: mix(seed+0x1234567) ^ mix(salt*0xD6E8FEB86659FD93+1) ^ mix(shard*0xA0761D6478BD642F+7)}
}

func mix(z uint64) uint64 {
	z = (z ^ (z >> 30)) * 0xBF58476D1CE4E5B9
	z = (z ^ (z >> 27)) * 0x94D049BB133111EB
	return z ^ (z >> 31)
}

func (r *Rand) U64() uint64 {
	r.s += 0x9E3779B97F4A7C15
	z := r.s
	z = (z ^ (z >> 30)) * 0xBF58476D1CE4E5B9
	z = (z ^ (z >> 27)) * 0x94D049BB133111EB
	return z ^ (z >> 31)
}

func (r *Rand) Intn(n int) int {
	if n <= 0 {
		return 0
	}
	return int(r.U64() % uint64(n))
}

func (r *Rand) Bool() bool { return r.U64()&1 == 1 }

// Chance returns true with probability num/den.
func (r *Rand) Chance(num, den int) bool { return r.Intn(den) < num }

func Pick[T any](r *Rand, xs []T) T { return xs[r.Intn(len(xs))] }

func (r *Rand) Float() float64 { return float64(r.U64()>>11) / (1 << 53) }

func Tier() string {
	t := os.Getenv("VERIF_TIER")
	if t == "" {
		t = "quick"
	}
	return t
}

// N picks the case budget by tier; VERIF_CASES overrides.
func N(quick, thorough int) int {
	if s := os.Getenv("VERIF_CASES"); s != "" {
		if n, err := strconv.Atoi(s); err == nil {
			return n
		}
	}
	if Tier() == "thorough" {
		return thorough
	}
	return quick
}

func Hex(b []byte) string { return hex.EncodeToString(b) }
func HexS(s string) string { return hex.EncodeToString([]byte(s)) }

func HexList(l [][]byte) string {
	if len(l) == 0 {
		return "-"
	}
	parts := make([]string, len(l))
	for i, b := range l {
		parts[i] = Hex(b)
	}
	return strings.Join(parts, ",")
}

func HexListS(l []string) string {
	if len(l) == 0 {
		return "-"
	}
	parts := make([]string, len(l))
	for i, b := range l {
		parts[i] = HexS(b)
	}
	return strings.Join(parts, ",")
}

// F64 renders a float as the 16 hex digits of its bit pattern.
func F64(f float64) string { return fmt.Sprintf("%016x", math.Float64bits(f)) }

var Out = bufio.NewWriterSize(os.Stdout, 1<<20)

func Printf(format string, a ...any) { fmt.Fprintf(Out, format, a...) }
func Flush()                         { Out.Flush() }

// ReplayLines returns the case lines of a replay file given by VERIF_REPLAY_CASES, if any.
func ReplayLines() []string {
	p := os.Getenv("VERIF_REPLAY_CASES")
	if p == "" {
		return nil
	}
	data, err := os.ReadFile(p)
	if err != nil {
		fmt.Fprintln(os.Stderr, "replay:", err)
		os.Exit(3)
	}
	var out []string
	for _, l := range strings.Split(string(data), "\n") {
		if strings.HasPrefix(l, "case ") {
			out = append(out, l)
		}
	}
	return out
}

// Field returns the value of k= in a case line.
func Field(line, k string) (string, bool) {
	for _, w := range strings.Fields(line) {
		if strings.HasPrefix(w, k+"=") {
			return w[len(k)+1:], true
		}
	}
	return "", false
}

func UnHex(s string) []byte {
	b, err := hex.DecodeString(s)
	if err != nil {
		panic(err)
	}
	return b
}

func UnHexList(s string) [][]byte {
	if s == "-" {
		return nil
	}
	var out [][]byte
	for _, p := range strings.Split(s, ",") {
		out = append(out, UnHex(p))
	}
	return out
}
