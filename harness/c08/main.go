//go:build verif

// C08 harness: key identity, Get, exclusion of specific keys from the group fields under every
// parse order, residue, per-measurement projection; streams over growing sets of keys.
package main

import (
	"strconv"
	"strings"

	"golang.org/x/perf/benchfmt"
	"golang.org/x/perf/benchproc"
	"golang.org/x/perf/internal/verifh/hx"
)

var atoms = []string{".config", ".fullname", ".name", "/p", "/q", "/gomaxprocs", "k0", "k1", "k2", "i", ".file", ".config", ".fullname",
	// file-configuration keys with an inner '/' (a sub-name key STARTS with '/'), mixed-case keys, keys differing only in case
	"toolchain/go", "a/b/c", "/N", "/n", "/bufSize", "K1", "k0", ".config"}

// values incl. leading/trailing blanks and tabs, inner blanks, whitespace-only values: a value is
// kept byte for byte ("Xeon " is not "Xeon")
var cvals = []string{"v1", "v2", "x y", "", "v1", "v1 ", " v1", "v1\t", "v2 ", " ", "\t", "x  y", "  ", "v1  "}

func genExpr(r *hx.Rand) []SpecT {
	n := 1 + r.Intn(3)
	if r.Chance(1, 12) {
		n = 0
	}
	var specs []SpecT
	for j := 0; j < n; j++ {
		s := SpecT{Key: hx.Pick(r, atoms), Order: "first"}
		switch r.Intn(8) {
		case 0:
			s.Order = "alpha"
		case 1:
			s.Order = "num"
		}
		specs = append(specs, s)
	}
	return specs
}

func genName(r *hx.Rand) string {
	name := hx.Pick(r, []string{"B", "B", "C", "B2", "B-x", "C-1"})
	for j := r.Intn(4); j > 0; j-- {
		name += "/" + hx.Pick(r, []string{"p=1", "p=2", "q=1", "q=x", "gomaxprocs=4", "z", "p=", "r=7",
			// dashes inside values and non-numeric dash tails (only a trailing -digits is GOMAXPROCS)
			"p=en-US", "p=en-GB", "q=1-2", "q=a-b-c", "p=-", "r=7-x", "z-9",
			// mixed-case sub-name keys; /n and /N are different keys
			"N=1000", "n=5", "N=off", "bufSize=4k", "bufsize=1", "GOGC=off",
			// keys that have a projected key (/p, /q) as a proper prefix, and positional parts beginning
			// like one: excluding /p must not touch /pq, /p2 or /px
			"pq=5", "pq=6", "p2=1", "p2=2", "px", "qq=x", "qq=y", "q2", "pp=1",
			// '=' inside values: the key of a part ends at its FIRST '='
			"p=v=w", "p=a==b", "q=QUJDRA==", "p=-l=4", "q==", "p==x", "gomaxprocs=a=b",
			// blanks in name values (API-built results)
			"p=1 ", "p= 1", "q=x\t", "q= ", "p=1  2"})
	}
	switch r.Intn(8) {
	case 0:
		name += "-4"
	case 1:
		name += "-16"
	case 2:
		name += hx.Pick(r, []string{"-US", "-4x", "-", "-4-", "--8"})
	}
	return name
}

// genResult: the set of file keys grows with i; later results often lack late keys again.
func genResult(r *hx.Rand, i int) ResT {
	res := ResT{Name: genName(r)}
	nk := 1 + i/2
	if nk > 6 {
		nk = 6
	}
	if r.Chance(1, 3) {
		nk = 1 + r.Intn(nk)
	}
	order := r.Intn(3)
	for j := 0; j < nk; j++ {
		jj := j
		if order == 1 {
			jj = nk - 1 - j
		}
		if r.Chance(1, 4) {
			continue
		}
		v := hx.Pick(r, cvals)
		if v == "" && !r.Chance(1, 4) {
			continue
		}
		// the same key occurs as FILE configuration in most results and as INTERNAL configuration
		// (Result.SetConfig) in some: `.config` and the residue cover File entries only
		res.Cfg = append(res.Cfg, CfgT{"k" + strconv.Itoa(jj), v, !r.Chance(1, 6)})
	}
	if r.Chance(1, 3) {
		// file keys with an inner '/', upper-case keys, keys differing only in case from k1
		res.Cfg = append(res.Cfg, CfgT{hx.Pick(r, []string{"toolchain/go", "a/b/c", "K1", "ci/runner"}), hx.Pick(r, []string{"v1", "v2", "go1.21"}), !r.Chance(1, 8)})
	}
	if r.Chance(1, 3) {
		// … and vice versa: mostly internal, sometimes a file key
		res.Cfg = append(res.Cfg, CfgT{"i", hx.Pick(r, []string{"v1", "v2", "x y", "v1 ", " v2"}), r.Chance(1, 4)})
	}
	if r.Chance(1, 3) {
		res.Cfg = append(res.Cfg, CfgT{".file", hx.Pick(r, []string{"a.txt", "b.txt"}), false})
	}
	if r.Chance(1, 6) {
		// no measurements: on a .unit projection the closures run (fields may appear) but no key is made
		return res
	}
	res.Units = []string{hx.Pick(r, []string{"ns/op", "ns/op", "B/op"})}
	for j := r.Intn(3); j > 0; j-- {
		res.Units = append(res.Units, hx.Pick(r, []string{"ns/op", "B/op", "allocs/op", "ns/op ", " B/op"}))
	}
	return res
}

type base struct {
	exprs    [][]SpecT
	withUnit []bool
	results  []ResT
	failAt   int // >= 0: insert a rejected Parse call (see scenarioOf)
	failExpr []SpecT
	resEarly int // >= 0: position of Residue() among the Parse calls
}

func genBase(r *hx.Rand) base {
	var b base
	n := 1 + r.Intn(4)
	for i := 0; i < n; i++ {
		b.exprs = append(b.exprs, genExpr(r))
		b.withUnit = append(b.withUnit, r.Chance(1, 5))
	}
	b.failAt = -1
	b.resEarly = -1
	if r.Chance(1, 3) {
		b.resEarly = r.Intn(100)
	}
	if r.Chance(1, 3) {
		b.failAt = r.Intn(1000)
		b.failExpr = genExpr(r)
	}
	nres := 3 + r.Intn(8)
	for i := 0; i < nres; i++ {
		if i > 0 && r.Chance(1, 5) {
			b.results = append(b.results, b.results[r.Intn(i)])
		} else {
			b.results = append(b.results, genResult(r, i))
		}
	}
	return b
}

// scenarioOf builds the scenario that parses the expressions in the order `perm`, takes the
// residue, and projects every result on every projection.
func scenarioOf(b base, perm []int, residue bool, tags ...string) Scenario {
	sc := Scenario{S: true, Tags: tags}
	for n, i := range perm {
		k := byte('P')
		if b.withUnit[i] {
			k = 'U'
			sc.Tags = append(sc.Tags, "unit")
		}
		// A REJECTED call (a copy of an accepted expression, or an unrelated one, with a part
		// Parse refuses at the end or in the middle), before or after an accepted call: it must
		// change nothing.
		if b.failAt >= 0 && (b.failAt%len(perm)) == n {
			src := b.exprs[perm[(n+b.failAt/7)%len(perm)]]
			if b.failAt%5 < 3 {
				// …or an unrelated expression naming NEW keys or groups: since /repo 91c9aa7 a
				// rejected call leaves no trace, so these stay in .config/.fullname/Residue
				src = b.failExpr
			}
			bad := append([]SpecT(nil), src...)
			badPart := []SpecT{{Key: ".unit", Order: "first"}, {Key: ".config", Order: "fixed", Fixed: []string{"a"}}, {Key: "", Order: "first"}, {Key: "k0", Order: "fixed"}}[b.failAt%4]
			if b.failAt%3 == 0 && len(bad) > 0 {
				bad = append(append(append([]SpecT(nil), bad[:len(bad)/2]...), badPart), bad[len(bad)/2:]...)
			} else {
				bad = append(bad, badPart)
			}
			after := b.failAt%2 == 1
			if !after {
				sc.Ops = append(sc.Ops, Op{Kind: 'P', Specs: bad})
			}
			sc.Tags = append(sc.Tags, "rejected")
			sc.Ops = append(sc.Ops, Op{Kind: k, Specs: b.exprs[i]})
			if after {
				sc.Ops = append(sc.Ops, Op{Kind: 'P', Specs: bad})
			}
			for _, s := range b.exprs[i] {
				if s.Key == ".config" || s.Key == ".fullname" {
					sc.Tags = append(sc.Tags, "group")
				} else {
					sc.Tags = append(sc.Tags, "specific")
				}
			}
			continue
		}
		sc.Ops = append(sc.Ops, Op{Kind: k, Specs: b.exprs[i]})
		for _, s := range b.exprs[i] {
			if s.Key == ".config" || s.Key == ".fullname" {
				sc.Tags = append(sc.Tags, "group")
			} else {
				sc.Tags = append(sc.Tags, "specific")
			}
		}
	}
	if residue {
		// Residue() is mostly requested after all Parse calls, but in a third of the bases BEFORE some of
		// them (the keys parsed later are excluded from its groups all the same: the closures read the
		// parser when results are projected)
		pos := len(sc.Ops)
		if b.resEarly >= 0 {
			pos = b.resEarly % (len(sc.Ops) + 1)
			sc.Tags = append(sc.Tags, "residue-early")
		}
		ops := append([]Op(nil), sc.Ops[:pos]...)
		ops = append(ops, Op{Kind: 'R'})
		sc.Ops = append(ops, sc.Ops[pos:]...)
		sc.Tags = append(sc.Tags, "residue")
	}
	nq := 0
	for i, res := range b.results {
		sc.Ops = append(sc.Ops, Op{Kind: 'A', Res: res})
		// a query in the middle of the stream (all observables of all projections as they are now)
		if nq < 2 && (i*7+len(b.results)+len(perm))%5 == 0 && i+1 < len(b.results) {
			sc.Ops = append(sc.Ops, Op{Kind: 'Q'})
			sc.Tags = append(sc.Tags, "query")
			nq++
		}
	}
	return sc
}

// konly derives scenarios outside the specification's precondition (model correspondence only).
func konly(r *hx.Rand, b base) Scenario {
	sc := Scenario{S: false, Tags: []string{"konly"}}
	n := len(b.exprs)
	np := 0
	ri := 0
	for i := 0; i < n; i++ {
		switch r.Intn(6) {
		case 0:
			// a failing expression: its side effects on the parser stay
			bad := append([]SpecT(nil), b.exprs[i]...)
			bad = append(bad, hx.Pick(r, []SpecT{{Key: ".config", Order: "fixed", Fixed: []string{"a"}}, {Key: ".unit", Order: "first"}, {Key: "", Order: "first"}, {Key: "k0", Order: "fixed"}}))
			sc.Ops = append(sc.Ops, Op{Kind: 'P', Specs: bad})
			sc.Tags = append(sc.Tags, "parseerr")
			continue
		case 1:
			sc.Ops = append(sc.Ops, Op{Kind: 'R'})
			np++
			sc.Tags = append(sc.Tags, "residue")
		}
		k := byte('P')
		if b.withUnit[i] {
			k = 'U'
		}
		sc.Ops = append(sc.Ops, Op{Kind: k, Specs: b.exprs[i]})
		np++
		// interleave: project some results before the next expression is parsed
		for ri < len(b.results) && r.Chance(1, 3) {
			kind := hx.Pick(r, []byte{'J', 'V', 'A'})
			sc.Ops = append(sc.Ops, Op{Kind: kind, Proj: r.Intn(np), Res: b.results[ri]})
			ri++
			sc.Tags = append(sc.Tags, "interleave")
		}
	}
	if r.Chance(1, 2) {
		sc.Ops = append(sc.Ops, Op{Kind: 'R'})
		np++
		if r.Chance(1, 3) {
			sc.Ops = append(sc.Ops, Op{Kind: 'R'}) // a second residue is empty
			np++
		}
	}
	for ; ri < len(b.results); ri++ {
		kind := hx.Pick(r, []byte{'J', 'V', 'A', 'A'})
		p := 0
		if np > 0 {
			p = r.Intn(np)
		}
		sc.Ops = append(sc.Ops, Op{Kind: kind, Proj: p, Res: b.results[ri]})
	}
	return sc
}

// genCollide: tuples whose CONCATENATIONS coincide although the tuples differ — ("1","10") vs
// ("11","0"), ("x","") vs ("","x") — over two or three fields (specific keys and/or a .config group):
// the row hash runs the values together, so these meet in one hash bucket and only the row
// comparison keeps them apart.
func genCollide(r *hx.Rand) Scenario {
	word := hx.Pick(r, []string{"110", "xx", "abab", "1 1", "v1v1"})
	var tuples [][]string
	nf := 2 + r.Intn(2)
	var rec func(rest string, left int, cur []string)
	rec = func(rest string, left int, cur []string) {
		if left == 1 {
			tuples = append(tuples, append(append([]string(nil), cur...), rest))
			return
		}
		for i := 0; i <= len(rest); i++ {
			rec(rest[i:], left-1, append(cur, rest[:i]))
		}
	}
	rec(word, nf, nil)
	keys := []string{"k0", "k1", "k2"}[:nf]
	sc := Scenario{S: true, Tags: []string{"collide"}}
	var specs []SpecT
	specific := r.Intn(3) // 0: all in .config, 1: k0 specific, 2: all specific
	for i, k := range keys {
		if specific == 2 || (specific == 1 && i == 0) {
			specs = append(specs, SpecT{Key: k, Order: "first"})
		}
	}
	if specific != 2 {
		specs = append(specs, SpecT{Key: ".config", Order: "first"})
	}
	sc.Ops = append(sc.Ops, Op{Kind: 'P', Specs: specs}, Op{Kind: 'R'})
	for i := len(tuples) - 1; i > 0; i-- {
		j := r.Intn(i + 1)
		tuples[i], tuples[j] = tuples[j], tuples[i]
	}
	if len(tuples) > 9 {
		tuples = tuples[:9]
	}
	for _, t := range tuples {
		res := ResT{Name: "B", Units: []string{"ns/op"}}
		for i, k := range keys {
			if t[i] != "" {
				res.Cfg = append(res.Cfg, CfgT{k, t[i], true})
			}
		}
		sc.Ops = append(sc.Ops, Op{Kind: 'A', Res: res})
	}
	return sc
}

// genResidueOrders: every order of the four calls Parse(".fullname"), Residue(), Parse("/p"),
// Parse("k0") on one parser, then one stream of results: whatever the order, /p and k0 are projected
// individually and therefore missing from `.fullname` and from the residue's groups.
func genResidueOrders(r *hx.Rand, emit func(Scenario)) {
	calls := []Op{
		{Kind: 'P', Specs: []SpecT{{Key: ".fullname", Order: "first"}}},
		{Kind: 'R'},
		{Kind: 'P', Specs: []SpecT{{Key: hx.Pick(r, []string{"/p", "/q", "/gomaxprocs"}), Order: "first"}}},
		{Kind: 'P', Specs: []SpecT{{Key: "k0", Order: "first"}}},
	}
	var results []ResT
	for i := 0; i < 5; i++ {
		results = append(results, genResult(r, i+2))
	}
	permutations(len(calls), func(perm []int) {
		sc := Scenario{S: true, Tags: []string{"residue-orders", "residue", "specific", "group"}}
		for _, i := range perm {
			sc.Ops = append(sc.Ops, calls[i])
		}
		for _, res := range results {
			sc.Ops = append(sc.Ops, Op{Kind: 'A', Res: res})
		}
		emit(sc)
	})
}

// genSepCollide: values that CONTAIN a likely row separator ('\n', '\x00'): the parts a, b, c joined by the
// separator and grouped into fields in every way — ("a\nb","c") vs ("a","b\nc") — as sub-name keys
// of one name or as file keys.
func genSepCollide(r *hx.Rand) Scenario {
	sep := hx.Pick(r, []string{"\n", "\x00", "\n", "\x00\n"})
	parts := hx.Pick(r, [][]string{{"a", "b", "c"}, {"a", "", "b"}, {"x", "x", "x", "x"}, {"1", "10", "0"}})
	nf := 2
	if len(parts) > 3 && r.Bool() {
		nf = 3
	}
	var tuples [][]string
	var rec func(from, left int, cur []string)
	rec = func(from, left int, cur []string) {
		if left == 1 {
			tuples = append(tuples, append(append([]string(nil), cur...), strings.Join(parts[from:], sep)))
			return
		}
		for to := from + 1; to <= len(parts)-left+1; to++ {
			rec(to, left-1, append(cur, strings.Join(parts[from:to], sep)))
		}
	}
	rec(0, nf, nil)
	sc := Scenario{S: true, Tags: []string{"collide", "separator"}}
	inName := r.Bool()
	names := []string{"/tmpl", "/out", "/z"}[:nf]
	keys := []string{"k0", "k1", "k2"}[:nf]
	var specs []SpecT
	for i := 0; i < nf; i++ {
		if inName {
			specs = append(specs, SpecT{Key: names[i], Order: "first"})
		} else {
			specs = append(specs, SpecT{Key: keys[i], Order: "first"})
		}
	}
	sc.Ops = append(sc.Ops, Op{Kind: 'P', Specs: specs})
	if !inName && r.Bool() {
		sc.Ops = append(sc.Ops, Op{Kind: 'P', Specs: []SpecT{{Key: ".config", Order: "first"}}})
	}
	sc.Ops = append(sc.Ops, Op{Kind: 'R'})
	for _, t := range append(tuples, tuples[0]) {
		res := ResT{Name: "Render", Units: []string{"ns/op"}}
		for i := 0; i < nf; i++ {
			if inName {
				res.Name += names[i] + "=" + t[i]
			} else if t[i] != "" {
				res.Cfg = append(res.Cfg, CfgT{keys[i], t[i], true})
			}
		}
		if inName {
			res.Name += "-8"
		}
		sc.Ops = append(sc.Ops, Op{Kind: 'A', Res: res})
	}
	return sc
}

// bigIdentity: ONE case with many distinct keys: project n distinct tuples (name × file key
// `commit`), keep the Keys, project all of them again. Every second Key must BE the first one
// (key_eq_iff), so grouping by Key gives exactly n groups. Only probes are printed, in the
// vocabulary of the driver's `big` case: every probe pair is "0-1" (expected bit 1 = "the two Keys
// of this tuple are equal"), first = number of tuples whose Keys differ (expected 0), second = 1
// iff a map keyed by Key has n entries, last = number of groups − 1 (expected n − 1).
func bigIdentity(id, n int, r *hx.Rand) {
	var pp benchproc.ProjectionParser
	p, err := pp.Parse(".fullname,commit", nil)
	if err != nil {
		panic(err)
	}
	mk := func(i int) *benchfmt.Result {
		return &benchfmt.Result{Name: benchfmt.Name("B/i=" + strconv.Itoa(i%97) + "-8"),
			Config: []benchfmt.Config{{Key: "commit", Value: []byte("c" + strconv.Itoa(i)), File: true}}}
	}
	first := make([]benchproc.Key, n)
	groups := map[benchproc.Key]int{}
	for i := 0; i < n; i++ {
		first[i] = p.Project(mk(i))
		groups[first[i]]++
	}
	bad := 0
	same := make([]bool, n)
	for i := 0; i < n; i++ {
		k := p.Project(mk(i))
		groups[k]++
		same[i] = k == first[i]
		if !same[i] {
			bad++
		}
	}
	probes := []int{0, 1, 511, 512, 513, n / 2, n - 2, n - 1}
	for i := 0; i < 12; i++ {
		probes = append(probes, r.Intn(n))
	}
	bits := make([]byte, len(probes))
	ps := make([]string, len(probes))
	for i, t := range probes {
		ps[i] = "0-1"
		bits[i] = '0'
		if same[t] {
			bits[i] = '1'
		}
	}
	second := 0
	if len(groups) == n {
		second = 1
	}
	hx.Printf("case %d big=%d pairs=%s s=1 tag=bigid\n", id, n, strings.Join(ps, ","))
	hx.Printf("sobs %d probe=%s first=%d second=%d last=%d\n", id, string(bits), bad, second, len(groups)-1)
}

func main() {
	defer hx.Flush()
	r := hx.NewRand(8)
	shuf := hx.NewRand(80)
	id := 0
	shard, nshards := shardOf()
	emit := func(sc Scenario) {
		if id%nshards == shard {
			runScenario(id, sc, shuf)
		}
		id++
	}
	for _, sc := range corpusScenarios("C08") {
		emit(sc)
	}
	if shard == 0 {
		bigIdentity(id, hx.N(600, 2100), shuf)
	}
	id++
	n := hx.N(150, 4000)
	for i := 0; i < n; i++ {
		b := genBase(r)
		residue := !r.Chance(1, 4)
		// every order of the Parse calls
		permutations(len(b.exprs), func(perm []int) {
			tag := "perm"
			if len(perm) == 1 {
				tag = "single"
			}
			emit(scenarioOf(b, perm, residue, tag))
		})
		emit(konly(r, b))
		if i%10 == 3 {
			emit(genCollide(r))
		}
		if i%10 == 6 {
			emit(genSepCollide(r))
		}
		if i%40 == 9 {
			genResidueOrders(r, emit)
		}
		if i%3 == 0 {
			// the same results streamed through a real benchfmt.Reader and projected without Clone
			perm := make([]int, len(b.exprs))
			for j := range perm {
				perm[j] = j
			}
			b2 := b
			b2.failAt = -1
			sc := scenarioOf(b2, perm, true, "stream")
			sc.Stream = true
			emit(sc)
		}
	}
}
