//go:build verif

// Shared kit of the C08 and C09 harnesses (the file is identical in harness/c08 and harness/c09):
// a scenario is a list of operations on ONE ProjectionParser (Parse / ParseWithUnit / Residue /
// Project / ProjectValues / project-on-all); the kit runs it against the real benchproc API and
// prints the case line, the obs lines (one per projection) and, for S-eligible scenarios, the
// sobs lines.
package main

import (
	"fmt"
	"math"
	"os"
	"path/filepath"
	"reflect"
	"sort"
	"strconv"
	"strings"

	"golang.org/x/perf/benchfmt"
	"golang.org/x/perf/benchproc"
	"golang.org/x/perf/benchproc/internal/parse"
	"golang.org/x/perf/internal/verifh/hx"
)

type SpecT struct {
	Key   string
	Order string // first alpha num fixed
	Fixed []string
}

type CfgT struct {
	K, V string
	File bool
}

type ResT struct {
	Name  string
	Cfg   []CfgT
	Units []string
}

// Op kinds: 'Q' query (every observable of every projection in its present state), 'P' Parse, 'U' ParseWithUnit, 'R' Residue, 'J' Project on Proj, 'V' ProjectValues on
// Proj, 'A' project on every projection parsed so far (ProjectValues where there is a .unit field).
type Op struct {
	Kind  byte
	Specs []SpecT
	Proj  int
	Res   ResT
}

type Scenario struct {
	Ops    []Op
	Stream bool // the 'A' results are fed as benchmark-format text through a real benchfmt.Reader and
	// projected as they are scanned, WITHOUT Clone (the Reader reuses one Result and overwrites
	// config values in place); the case line carries the results the Reader actually delivered
	S    bool // S-eligible: all parsing precedes all projecting, no failing parse, duplicate-free fixed lists, results pass the implied filters
	Tags []string
}

// ---------------------------------------------------------------- encoding

func encSpec(s SpecT) string {
	o := "f"
	switch s.Order {
	case "alpha":
		o = "a"
	case "num":
		o = "n"
	case "fixed":
		if len(s.Fixed) == 0 {
			o = "x-"
		} else {
			h := make([]string, len(s.Fixed))
			for i, f := range s.Fixed {
				h[i] = hx.HexS(f)
			}
			o = "x" + strings.Join(h, ".")
		}
	}
	return hx.HexS(s.Key) + "~" + o
}

func encRes(r ResT) string {
	cfg := "-"
	if len(r.Cfg) > 0 {
		parts := make([]string, len(r.Cfg))
		for i, c := range r.Cfg {
			f := "0"
			if c.File {
				f = "1"
			}
			parts[i] = hx.HexS(c.K) + "/" + hx.HexS(c.V) + "/" + f
		}
		cfg = strings.Join(parts, ",")
	}
	units := "-"
	if len(r.Units) > 0 {
		parts := make([]string, len(r.Units))
		for i, u := range r.Units {
			parts[i] = hx.HexS(u)
		}
		units = strings.Join(parts, "_")
	}
	return hx.HexS(r.Name) + "|" + cfg + "|" + units
}

func encOp(o Op) string {
	switch o.Kind {
	case 'P', 'U':
		parts := make([]string, len(o.Specs))
		for i, s := range o.Specs {
			parts[i] = encSpec(s)
		}
		return string(o.Kind) + ":" + strings.Join(parts, "+")
	case 'R':
		return "R"
	case 'Q':
		return "Q"
	case 'J', 'V':
		return string(o.Kind) + ":" + strconv.Itoa(o.Proj) + ":" + encRes(o.Res)
	case 'A':
		return "A:" + encRes(o.Res)
	}
	panic("bad op")
}

func decSpec(s string) SpecT {
	i := strings.IndexByte(s, '~')
	sp := SpecT{Key: string(hx.UnHex(s[:i])), Order: "first"}
	o := s[i+1:]
	switch {
	case o == "a":
		sp.Order = "alpha"
	case o == "n":
		sp.Order = "num"
	case strings.HasPrefix(o, "x"):
		sp.Order = "fixed"
		if o != "x-" {
			for _, h := range strings.Split(o[1:], ".") {
				sp.Fixed = append(sp.Fixed, string(hx.UnHex(h)))
			}
		}
	}
	return sp
}

func decRes(s string) ResT {
	p := strings.Split(s, "|")
	r := ResT{Name: string(hx.UnHex(p[0]))}
	if p[1] != "-" {
		for _, c := range strings.Split(p[1], ",") {
			q := strings.Split(c, "/")
			r.Cfg = append(r.Cfg, CfgT{string(hx.UnHex(q[0])), string(hx.UnHex(q[1])), q[2] == "1"})
		}
	}
	if p[2] != "-" {
		for _, u := range strings.Split(p[2], "_") {
			r.Units = append(r.Units, string(hx.UnHex(u)))
		}
	}
	return r
}

func decScenario(line string) Scenario {
	var sc Scenario
	ops, _ := hx.Field(line, "ops")
	s, _ := hx.Field(line, "s")
	sc.S = s == "1"
	if st, _ := hx.Field(line, "stream"); st == "1" {
		sc.Stream = true
	}
	if t, ok := hx.Field(line, "tag"); ok {
		sc.Tags = strings.Split(t, "+")
	}
	if ops == "" || ops == "-" {
		return sc
	}
	for _, o := range strings.Split(ops, ";") {
		switch o[0] {
		case 'P', 'U':
			op := Op{Kind: o[0]}
			if len(o) > 2 {
				for _, s := range strings.Split(o[2:], "+") {
					op.Specs = append(op.Specs, decSpec(s))
				}
			}
			sc.Ops = append(sc.Ops, op)
		case 'R':
			sc.Ops = append(sc.Ops, Op{Kind: 'R'})
		case 'Q':
			sc.Ops = append(sc.Ops, Op{Kind: 'Q'})
		case 'J', 'V':
			q := strings.SplitN(o, ":", 3)
			n, _ := strconv.Atoi(q[1])
			sc.Ops = append(sc.Ops, Op{Kind: o[0], Proj: n, Res: decRes(q[2])})
		case 'A':
			sc.Ops = append(sc.Ops, Op{Kind: 'A', Res: decRes(o[2:])})
		}
	}
	return sc
}

// corpusScenarios returns the scenarios of the case lines in /verif/corpus/<prop>/*.txt.
func corpusScenarios(prop string) []Scenario {
	root := os.Getenv("VERIF_ROOT")
	if root == "" {
		root = "/verif"
	}
	files, _ := filepath.Glob(filepath.Join(root, "corpus", prop, "*.txt"))
	sort.Strings(files)
	var out []Scenario
	for _, f := range files {
		data, err := os.ReadFile(f)
		if err != nil {
			continue
		}
		for _, l := range strings.Split(string(data), "\n") {
			if strings.HasPrefix(l, "case ") {
				sc := decScenario(l)
				sc.Tags = append(sc.Tags, "corpus")
				out = append(out, sc)
			}
		}
	}
	return out
}

// ---------------------------------------------------------------- real API

func specText(specs []SpecT) string {
	parts := make([]string, len(specs))
	for i, s := range specs {
		parts[i] = parse.Field{Key: s.Key, Order: s.Order, Fixed: s.Fixed}.String()
		if s.Order == "fixed" && len(s.Fixed) == 0 {
			// the literal order name: key@fixed
			parts[i] = parse.Field{Key: s.Key, Order: "first"}.String() + "@fixed"
		}
	}
	text := strings.Join(parts, ",")
	// The driver receives the parsed form; make sure it is what the real parser sees.
	got, err := parse.ParseProjection(text)
	if err != nil {
		fmt.Fprintf(os.Stderr, "harness: projection text %q does not parse: %v\n", text, err)
		os.Exit(3)
	}
	if len(got) != len(specs) {
		fmt.Fprintf(os.Stderr, "harness: projection text %q parses to %d fields, want %d\n", text, len(got), len(specs))
		os.Exit(3)
	}
	for i, g := range got {
		if g.Key != specs[i].Key || g.Order != specs[i].Order || !reflect.DeepEqual(append([]string(nil), g.Fixed...), append([]string(nil), specs[i].Fixed...)) {
			fmt.Fprintf(os.Stderr, "harness: projection text %q field %d parses to %+v, want %+v\n", text, i, g, specs[i])
			os.Exit(3)
		}
	}
	return text
}

func mkResult(r ResT) *benchfmt.Result {
	res := &benchfmt.Result{Name: benchfmt.Name(r.Name)}
	for _, c := range r.Cfg {
		res.Config = append(res.Config, benchfmt.Config{Key: c.K, Value: []byte(c.V), File: c.File})
	}
	for i, u := range r.Units {
		res.Values = append(res.Values, benchfmt.Value{Value: float64(i + 1), Unit: u})
	}
	return res
}

func parseErrTag(err error) string {
	s := err.Error()
	switch {
	case strings.Contains(s, "fixed order not allowed for .config"):
		return "fixedcfg"
	case strings.Contains(s, ".unit is only allowed in filters"):
		return "unit"
	case strings.Contains(s, "must not be empty"):
		return "empty"
	case strings.Contains(s, "unknown order"):
		return "unknownorder"
	}
	return "other:" + hx.HexS(s)
}

type pstate struct {
	p        *benchproc.Projection
	withUnit bool
	stream   []benchproc.Key
	idx      map[benchproc.Key]int
	distinct []benchproc.Key
	grew     bool
	nflat0   int
	lastVals []benchproc.Key // the slice the previous ProjectValues call returned (not copied)
	lastCopy []benchproc.Key // its contents at that time
}

func (ps *pstate) add(k benchproc.Key) int {
	ps.stream = append(ps.stream, k)
	if i, ok := ps.idx[k]; ok {
		return i
	}
	ps.idx[k] = len(ps.distinct)
	ps.distinct = append(ps.distinct, k)
	return len(ps.distinct) - 1
}

func names(fs []*benchproc.Field) string {
	l := make([]string, len(fs))
	for i, f := range fs {
		l[i] = f.Name
	}
	return hx.HexListS(l)
}

func ints(l []int) string {
	if len(l) == 0 {
		return "-"
	}
	p := make([]string, len(l))
	for i, x := range l {
		p[i] = strconv.Itoa(x)
	}
	return strings.Join(p, ".")
}

// permutations calls f on every permutation of 0..n-1 (Heap's algorithm), identity first.
func permutations(n int, f func([]int)) {
	a := make([]int, n)
	for i := range a {
		a[i] = i
	}
	var rec func(k int)
	rec = func(k int) {
		if k <= 1 {
			f(a)
			return
		}
		for i := 0; i < k; i++ {
			rec(k - 1)
			if k%2 == 0 {
				a[i], a[k-1] = a[k-1], a[i]
			} else {
				a[0], a[k-1] = a[k-1], a[0]
			}
		}
	}
	rec(n)
}

func numClass(v string) string {
	f, ok := benchproc.VerifParseNum(v)
	if !ok {
		return "e"
	}
	if math.IsNaN(f) {
		return "n"
	}
	return hx.F64(f)
}

// streamText renders the file configuration and names of the results as benchmark-format text:
// a config line for every change (an empty value deletes a key), then the benchmark line.
func streamText(results []ResT) string {
	var sb strings.Builder
	cur := map[string]string{}
	for _, r := range results {
		want := map[string]string{}
		var order []string
		for _, c := range r.Cfg {
			if c.File && c.V != "" {
				if _, ok := want[c.K]; !ok {
					order = append(order, c.K)
				}
				want[c.K] = c.V
			}
		}
		var del []string
		for k := range cur {
			if _, ok := want[k]; !ok {
				del = append(del, k)
			}
		}
		sort.Strings(del)
		for _, k := range del {
			fmt.Fprintf(&sb, "%s:\n", k)
			delete(cur, k)
		}
		for _, k := range order {
			if cur[k] != want[k] {
				fmt.Fprintf(&sb, "%s: %s\n", k, want[k])
				cur[k] = want[k]
			}
		}
		units := r.Units
		if len(units) == 0 {
			units = []string{"ns/op"}
		}
		// a benchmark line is split at blanks: names keep none in the streamed form
		name := strings.Map(func(c rune) rune {
			if c == ' ' || c == '\t' {
				return -1
			}
			return c
		}, r.Name)
		sb.WriteString("Benchmark" + name + " 1")
		for i, u := range units {
			fmt.Fprintf(&sb, " %d %s", i+1, strings.TrimSpace(u))
		}
		sb.WriteString("\n")
	}
	return sb.String()
}

// resOf copies what the projections see of a Result delivered by the Reader.
func resOf(rec *benchfmt.Result) ResT {
	r := ResT{Name: string(rec.Name.Full())}
	for _, c := range rec.Config {
		r.Cfg = append(r.Cfg, CfgT{c.Key, string(c.Value), c.File})
	}
	for _, v := range rec.Values {
		r.Units = append(r.Units, v.Unit)
	}
	return r
}

// runScenario runs sc against the real code and prints its lines.
func runScenario(id int, sc Scenario, r *hx.Rand) {
	var lines, stoLines []string
	values := map[string]bool{}
	crash := ""
	tags := map[string]bool{}
	for _, t := range sc.Tags {
		tags[t] = true
	}
	func() {
		defer func() {
			if e := recover(); e != nil {
				crash = fmt.Sprint(e)
			}
		}()
		var pp benchproc.ProjectionParser
		filter, err := benchproc.NewFilter("*")
		if err != nil {
			panic(err)
		}
		var projs []*pstate
		var perr []string
		// all[i] = for the i-th 'A' operation, the key index per projection (lossless oracle)
		var all [][]int
		aliased := ""
		defer func() {
			if aliased != "" && crash == "" {
				crash = aliased
			}
		}()
		var live *benchfmt.Result // stream mode: the Reader's own Result, not a copy
		project := func(ps *pstate, op byte, res ResT) []int {
			rr := live
			if rr == nil {
				rr = mkResult(res)
			}
			var ks []benchproc.Key
			if op == 'V' {
				ks = ps.p.ProjectValues(rr)
			} else {
				ks = []benchproc.Key{ps.p.Project(rr)}
			}
			var out []int
			for _, k := range ks {
				out = append(out, ps.add(k))
			}
			if op == 'V' {
				// The slice ProjectValues returned LAST time is still the caller's: the library must
				// not have overwritten it, and the caller clobbering it now must not affect anything.
				for i := range ps.lastVals {
					if ps.lastVals[i] != ps.lastCopy[i] {
						aliased = "ProjectValues: a slice returned earlier was overwritten by a later call"
					}
					ps.lastVals[i] = benchproc.Key{}
				}
				ps.lastVals = ks
				ps.lastCopy = append([]benchproc.Key(nil), ks...)
			}
			if n := len(ps.p.FlattenedFields()); len(ps.stream) > len(ks) && n > ps.nflat0 {
				ps.grew = true
			} else if len(ps.stream) == len(ks) {
				ps.nflat0 = n
			}
			return out
		}
		// render prints every observable of every projection in its PRESENT state (tag "" at the end,
		// "q=<op index> " for a query in the middle of the stream): FlattenedFields, Key.Get/String,
		// Key.Less, SortKeys on all arrangements of the keys made so far, NonSingularFields.
		render := func(tag string) {
			pe := "-"
			if len(perr) > 0 {
				pe = strings.Join(perr, ".")
			}
			lines = append(lines, fmt.Sprintf("obs %d %sparse=%s np=%d", id, tag, pe, len(projs)))
			for pi, ps := range projs {
				flat := ps.p.FlattenedFields()
				fidx := map[*benchproc.Field]int{}
				for i, f := range flat {
					fidx[f] = i
				}
				n := len(ps.distinct)
				if ps.grew {
					tags["grow"] = true
				}
				var ids []int
				for _, k := range ps.stream {
					ids = append(ids, ps.idx[k])
				}
				get, str, strv := "-", "-", "-"
				if n > 0 {
					gs := make([]string, n)
					ss := make([]string, n)
					sv := make([]string, n)
					for i, k := range ps.distinct {
						vs := make([]string, len(flat))
						for j, f := range flat {
							v := k.Get(f)
							values[v] = true
							vs[j] = hx.HexS(v)
						}
						gs[i] = strings.Join(vs, ".")
						ss[i] = hx.HexS(k.String())
						sv[i] = hx.HexS(k.StringValues())
					}
					get = strings.Join(gs, ",")
					str = strings.Join(ss, ",")
					strv = strings.Join(sv, ",")
				}
				less := "-"
				if n > 0 {
					rows := make([]string, n)
					for i, a := range ps.distinct {
						b := make([]byte, n)
						for j, o := range ps.distinct {
							if a.Less(o) {
								b[j] = '1'
							} else {
								b[j] = '0'
							}
						}
						rows[i] = string(b)
					}
					less = strings.Join(rows, ".")
				}
				// SortKeys on shuffles: the set of distinct outcomes.
				outcomes := map[string]bool{}
				sortOne := func(perm []int) {
					ks := make([]benchproc.Key, len(perm))
					for i, x := range perm {
						ks[i] = ps.distinct[x]
					}
					benchproc.SortKeys(ks)
					o := make([]int, len(ks))
					for i, k := range ks {
						o[i] = ps.idx[k]
					}
					outcomes[ints(o)] = true
				}
				if n > 0 && n <= 6 {
					permutations(n, sortOne)
				} else if n > 6 {
					perm := make([]int, n)
					for i := range perm {
						perm[i] = i
					}
					sortOne(perm)
					for i, j := 0, n-1; i < j; i, j = i+1, j-1 {
						perm[i], perm[j] = perm[j], perm[i]
					}
					sortOne(perm)
					for s := 0; s < 40; s++ {
						for i := n - 1; i > 0; i-- {
							j := r.Intn(i + 1)
							perm[i], perm[j] = perm[j], perm[i]
						}
						sortOne(perm)
					}
				}
				var ol []string
				for o := range outcomes {
					ol = append(ol, o)
				}
				sort.Strings(ol)
				sorts := "-"
				if len(ol) > 0 {
					sorts = strings.Join(ol, "/")
				}
				// NonSingularFields: all keys, all keys reversed, every pair.
				nsOf := func(ks []benchproc.Key) string {
					fs := benchproc.NonSingularFields(ks)
					b := make([]byte, len(flat))
					for i := range b {
						b[i] = '0'
					}
					for i, f := range fs {
						b[fidx[f]] = '1'
						fs[i] = nil // the returned slice is the caller's: clobbering it must not affect later calls
					}
					if len(b) == 0 {
						return "e"
					}
					return string(b)
				}
				ns := nsOf(ps.distinct)
				rev := make([]benchproc.Key, n)
				for i, k := range ps.distinct {
					rev[n-1-i] = k
				}
				nsr := nsOf(rev)
				var pairs []string
				for a := 0; a < n && a < 7; a++ {
					for b := a + 1; b < n && b < 7; b++ {
						pairs = append(pairs, nsOf([]benchproc.Key{ps.distinct[a], ps.distinct[b]}))
					}
				}
				nsp := "-"
				if len(pairs) > 0 {
					nsp = strings.Join(pairs, ".")
				}
				// equalRow between the stored rows of the first keys (the bucket-scan comparison)
				eq := "-"
				if n > 0 {
					m := n
					if m > 6 {
						m = 6
					}
					rows := make([]string, m)
					for a := 0; a < m; a++ {
						b := make([]byte, m)
						for c := 0; c < m; c++ {
							b[c] = '0'
							if benchproc.VerifEqualRow(benchproc.VerifKeyVals(ps.distinct[a]), benchproc.VerifKeyVals(ps.distinct[c])) {
								b[c] = '1'
							}
						}
						rows[a] = string(b)
					}
					eq = strings.Join(rows, ".")
				}
				lines = append(lines, fmt.Sprintf("obs %d %sp=%d fields=%s flat=%s n=%d ids=%s get=%s str=%s less=%s sorts=%s ns=%s nsr=%s nsp=%s eq=%s strv=%s",
					id, tag, pi, names(ps.p.Fields()), names(flat), n, ints(ids), get, str, less, sorts, ns, nsr, nsp, eq, strv))
				if sc.S {
					lines = append(lines, fmt.Sprintf("sobs %d %sp=%d flat=%s n=%d ids=%s get=%s less=%s sorts=%s nsp=%s str=%s strv=%s",
						id, tag, pi, names(flat), n, ints(ids), get, less, sorts, nsp, str, strv))
				}
				// Judged in EVERY scenario (also those outside the specification's precondition):
				// Key.Less must be a strict total order on the distinct keys (C09.less_strict_total).
				stoLines = append(stoLines, fmt.Sprintf("sobs %d %sp=%d sto=%s", id, tag, pi, less))
			}
		}
		var reader *benchfmt.Reader
		if sc.Stream {
			var rs []ResT
			for _, op := range sc.Ops {
				if op.Kind == 'A' {
					rs = append(rs, op.Res)
				}
			}
			reader = benchfmt.NewReader(strings.NewReader(streamText(rs)), "stream.txt")
		}
		for oi := range sc.Ops {
			op := sc.Ops[oi]
			if sc.Stream && op.Kind == 'A' {
				live = nil
				for live == nil {
					if !reader.Scan() {
						fmt.Fprintf(os.Stderr, "harness: stream ended early (%v)\n", reader.Err())
						os.Exit(3)
					}
					if rec, ok := reader.Result().(*benchfmt.Result); ok {
						live = rec
					} else if e, ok := reader.Result().(*benchfmt.SyntaxError); ok {
						fmt.Fprintf(os.Stderr, "harness: stream text: %v\n", e)
						os.Exit(3)
					}
				}
				op.Res = resOf(live)
				sc.Ops[oi].Res = op.Res
			}
			switch op.Kind {
			case 'P', 'U':
				text := specText(op.Specs)
				var p *benchproc.Projection
				var err error
				if op.Kind == 'U' {
					p, _, err = pp.ParseWithUnit(text, filter)
				} else {
					p, err = pp.Parse(text, filter)
				}
				if err != nil {
					perr = append(perr, parseErrTag(err))
					continue
				}
				perr = append(perr, "ok")
				projs = append(projs, &pstate{p: p, withUnit: op.Kind == 'U', idx: map[benchproc.Key]int{}})
				for _, s := range op.Specs {
					for _, f := range s.Fixed {
						values[f] = true
					}
				}
			case 'Q':
				render(fmt.Sprintf("q=%d ", oi))
			case 'R':
				projs = append(projs, &pstate{p: pp.Residue(), idx: map[benchproc.Key]int{}})
			case 'J', 'V':
				if op.Proj < len(projs) {
					project(projs[op.Proj], op.Kind, op.Res)
				}
			case 'A':
				var row []int
				for _, ps := range projs {
					k := byte('J')
					if ps.withUnit {
						k = 'V'
					}
					got := project(ps, k, op.Res)
					if len(got) > 0 {
						row = append(row, got[0])
					} else {
						row = append(row, -1)
					}
				}
				if len(op.Res.Units) > 0 { // results without measurements yield no key on .unit projections
					all = append(all, row)
				}
			}
		}
		render("")
		hasResidue := false
		for _, op := range sc.Ops {
			hasResidue = hasResidue || op.Kind == 'R'
		}
		if sc.S && hasResidue && len(all) > 0 {
			// lossless: for each 'A' result the index of the first 'A' result with the same keys in every projection
			first := make([]int, len(all))
			for i := range all {
				first[i] = i
				for j := 0; j < i; j++ {
					if reflect.DeepEqual(all[i], all[j]) {
						first[i] = j
						break
					}
				}
			}
			lines = append(lines, fmt.Sprintf("sobs %d ll=%s", id, ints(first)))
		}
	}()
	// case line (after the run: it lists parseNum of every value that occurred)
	ops := make([]string, len(sc.Ops))
	for i, o := range sc.Ops {
		ops[i] = encOp(o)
		if o.Kind != 'P' && o.Kind != 'U' && o.Kind != 'R' {
			for _, c := range o.Res.Cfg {
				values[c.V] = true
			}
		}
	}
	opsS := "-"
	if len(ops) > 0 {
		opsS = strings.Join(ops, ";")
	}
	var vl []string
	for v := range values {
		vl = append(vl, v)
	}
	sort.Strings(vl)
	pn := make([]string, len(vl))
	for i, v := range vl {
		pn[i] = hx.HexS(v) + ":" + numClass(v)
	}
	pnS := "-"
	if len(pn) > 0 {
		pnS = strings.Join(pn, ",")
	}
	var tl []string
	for t := range tags {
		tl = append(tl, t)
	}
	sort.Strings(tl)
	if len(tl) == 0 {
		tl = []string{"trivial"}
	}
	s := "0"
	if sc.S {
		s = "1"
	}
	if sc.Stream {
		s += " stream=1"
	}
	hx.Printf("case %d ops=%s pn=%s s=%s tag=%s\n", id, opsS, pnS, s, strings.Join(tl, "+"))
	if crash != "" {
		hx.Printf("crash %d %s\n", id, strings.ReplaceAll(crash, "\n", " "))
		return
	}
	// the reported parseNum results again as observables: the driver answers with what the
	// specification of "num" demands for each value
	hx.Printf("obs %d pn=%s\n", id, pnS)
	if sc.S {
		hx.Printf("sobs %d pn=%s\n", id, pnS)
	}
	for _, l := range lines {
		hx.Printf("%s\n", l)
	}
	for _, l := range stoLines {
		hx.Printf("%s\n", l)
	}
}

// passesFilters reports which results the filters implied by the fixed orders of the scenario's
// expressions keep (a separate parser instance; all expressions parsed first).
func passesFilters(parses [][]SpecT, withUnit []bool, results []ResT) []bool {
	var pp benchproc.ProjectionParser
	filter, _ := benchproc.NewFilter("*")
	for i, specs := range parses {
		var err error
		if withUnit[i] {
			_, _, err = pp.ParseWithUnit(specText(specs), filter)
		} else {
			_, err = pp.Parse(specText(specs), filter)
		}
		_ = err
	}
	out := make([]bool, len(results))
	for i, r := range results {
		m, _ := filter.Match(mkResult(r))
		out[i] = m.All()
	}
	return out
}

func shardOf() (int, int) {
	s, _ := strconv.Atoi(os.Getenv("VERIF_SHARD"))
	n, _ := strconv.Atoi(os.Getenv("VERIF_NSHARDS"))
	if n <= 0 {
		n = 1
	}
	return s, n
}
