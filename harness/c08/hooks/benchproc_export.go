//go:build verif

package benchproc

// VerifParseNum exposes parseNum (sort.go) to the correspondence harness.
func VerifParseNum(x string) (float64, bool) {
	v, err := parseNum(x)
	return v, err == nil
}
