//go:build verif

package benchproc

// VerifParseNum exposes parseNum (sort.go) to the correspondence harness.
func VerifParseNum(x string) (float64, bool) {
	v, err := parseNum(x)
	return v, err == nil
}

// VerifKeyVals exposes the (trimmed) row stored in a key node.
func VerifKeyVals(k Key) []string { return k.k.vals }

// VerifEqualRow exposes keyNode.equalRow, the comparison used by the bucket scan of internRow
// (with the real maphash, hash collisions never occur, so it is otherwise unobservable).
func VerifEqualRow(vals, row []string) (eq bool) {
	defer func() {
		if recover() != nil {
			eq = false
		}
	}()
	return (&keyNode{nil, vals}).equalRow(row)
}
