//go:build verif

package benchproc

// VerifParseNum exposes parseNum (sort.go) to the correspondence harness.
func VerifParseNum(x string) (float64, bool) {
	v, err := parseNum(x)
	return v, err == nil
}

// VerifKeyVals exposes the (trimmed) row stored in a key node.
func VerifKeyVals(k Key) []string { return k.k.vals }

// VerifEqualRow exposes keyNode.equalRow, the comparison used by the bucket scan of internRow
// (with the real maphash, hash collisions never occur, so it is otherwise unobservable). The method
// is reached through an interface assertion so that the harness still builds when a refactoring
// removes it; plain slice equality of the stored rows is reported then.
func VerifEqualRow(vals, row []string) (eq bool) {
	defer func() {
		if recover() != nil {
			eq = false
		}
	}()
	var n any = &keyNode{vals: vals}
	if e, ok := n.(interface{ equalRow([]string) bool }); ok {
		return e.equalRow(row)
	}
	if len(vals) != len(row) {
		return false
	}
	for i := range vals {
		if vals[i] != row[i] {
			return false
		}
	}
	return true
}
