//go:build verif

package main

import (
	"math"
	"math/rand"

	"golang.org/x/perf/internal/stats"
	"golang.org/x/perf/internal/verifh/hx"
)

// hideInv exposes only CDF/PDF/Bounds of a distribution, so that stats.InvCDF and stats.Rand take
// the generic path (bracketing + bisectBool) even for NormalDist, which has its own methods.
type hideInv struct{ stats.Dist }

type cdfOnly interface {
	CDF(float64) float64
}

// reuseCase: ONE closure f := stats.InvCDF(d) is queried nq times; every answer is compared with
// the answer of a FRESH closure for the same p (the closure must not carry state from one call to
// the next) and CDF(f(p)) with p. A sample of the queries (the first ones, every 97th, and the
// last 40) goes on the case line for the driver: K (arithmetic-only distributions: call k of the
// reused closure against the stateless model) and S (reused = fresh, round trip).
func reuseCase(r *hx.Rand, d stats.DistCommon, params string, arithmetic bool, tag string) {
	nq := 1500 + r.Intn(1501)
	f := stats.InvCDF(d)
	var ps, xr, xf, cs []float64
	nmis, nnonfin, nround := 0, 0, 0
	ok := guard("invcdf-reuse", func() {
		for k := 0; k < nq; k++ {
			var p float64
			switch r.Intn(6) {
			case 0:
				p = math.Pow(10, -r.Float()*12) // lower tail
			case 1:
				p = 1 - math.Pow(10, -r.Float()*12) // upper tail
			default:
				p = r.Float()
			}
			if p <= 0 || p >= 1 {
				p = 0.5
			}
			a := f(p)
			b := stats.InvCDF(d)(p)
			c := d.CDF(a)
			if math.Float64bits(a) != math.Float64bits(b) {
				nmis++
			}
			if math.IsInf(a, 0) || math.IsNaN(a) {
				nnonfin++
			}
			if !arithmetic && !(math.Abs(c-p) <= 1e-9) {
				nround++
			}
			if k < 10 || k%97 == 0 || k >= nq-40 {
				ps, xr, xf, cs = append(ps, p), append(xr, a), append(xf, b), append(cs, c)
			}
		}
	})
	arith := 0
	if arithmetic {
		arith = 1
	}
	hx.Printf("case %d kind=reuse %s nq=%d arith=%d ps=%s xr=%s xf=%s cs=%s nmis=%d nnonfin=%d nround=%d tag=reuse+%s\n",
		id, params, nq, arith, fbList(ps), fbList(xr), fbList(xf), fbList(cs), nmis, nnonfin, nround, tag)
	if ok {
		if arithmetic {
			hx.Printf("obs %d x=%s\n", id, fbList(xr))
		}
		hx.Printf("sobs %d fresh=ok allfresh=ok finite=ok roundtrip=ok\n", id)
	}
	id++
}

// randCase: stats.Rand(d) through the generic inverse, n variates, all must be finite numbers.
func randCase(r *hx.Rand, d stats.DistCommon, params, tag string) {
	n := 2000 + r.Intn(1001)
	src := rand.New(rand.NewSource(int64(r.U64() >> 1)))
	gen := stats.Rand(d)
	bad, firstBad := 0, -1
	var sum float64
	ok := guard("rand", func() {
		for k := 0; k < n; k++ {
			v := gen(src)
			if math.IsInf(v, 0) || math.IsNaN(v) {
				if bad == 0 {
					firstBad = k
				}
				bad++
			} else {
				sum += v
			}
		}
	})
	// the documented nil source (global generator): values are not reproducible, only their
	// finiteness is observed
	if ok {
		ok = guard("rand-nil", func() {
			for k := 0; k < 50; k++ {
				v := gen(nil)
				if math.IsInf(v, 0) || math.IsNaN(v) {
					if bad == 0 {
						firstBad = n + k
					}
					bad++
				}
			}
		})
	}
	hx.Printf("case %d kind=rand %s n=%d nonfinite=%d firstbad=%d tag=rand+%s\n", id, params, n, bad, firstBad, tag)
	if ok {
		hx.Printf("sobs %d finite=ok\n", id)
	}
	id++
}

// nrandCase: NormalDist.Rand with a seeded source against the same stream of standard normal
// variates drawn from an identically seeded source: v = z*Sigma + Mu, bit for bit.
func nrandCase(r *hx.Rand, mu, sigma float64) {
	seed := int64(r.U64() >> 1)
	a, b := rand.New(rand.NewSource(seed)), rand.New(rand.NewSource(seed))
	d := stats.NormalDist{Mu: mu, Sigma: sigma}
	n := 40
	zs, vs := make([]float64, n), make([]float64, n)
	nilbad := 0
	ok := guard("nrand", func() {
		for k := 0; k < n; k++ {
			zs[k] = b.NormFloat64()
			vs[k] = d.Rand(a)
		}
		for k := 0; k < 20; k++ { // documented nil source: finiteness only
			if v := d.Rand(nil); math.IsNaN(v) || math.IsInf(v, 0) {
				nilbad++
			}
		}
	})
	hx.Printf("case %d kind=nrand mu=%s sigma=%s zs=%s vs=%s nilbad=%d tag=nrand\n", id, fb(mu), fb(sigma), fbList(zs), fbList(vs), nilbad)
	if ok {
		hx.Printf("obs %d v=%s\n", id, fbList(vs))
		hx.Printf("sobs %d rand=ok\n", id)
	}
	id++
}

func reuseCases(r *hx.Rand) {
	for i := 0; i < 6; i++ {
		if i%nshards == shard {
			mu, sigma := 0.0, 1.0
			if i > 0 {
				mu = (r.Float() - 0.5) * math.Pow(10, r.Float()*6-3)
				sigma = math.Pow(10, r.Float()*8-4)
			}
			nrandCase(r, mu, sigma)
		}
	}
	type entry struct {
		d      stats.DistCommon
		params string
		arith  bool
		tag    string
	}
	var all []entry
	for _, nu := range []float64{1, 2.5, 9, 30, 1000, 12345.6} {
		all = append(all, entry{stats.TDist{V: nu}, "dist=t nu=" + fb(nu), false, "tdist"})
	}
	all = append(all,
		entry{hideInv{stats.NormalDist{Mu: 0, Sigma: 1}}, "dist=normal mu=" + fb(0) + " sigma=" + fb(1), false, "normal-generic"},
		entry{hideInv{stats.NormalDist{Mu: -3.5, Sigma: 0.25}}, "dist=normal mu=" + fb(-3.5) + " sigma=" + fb(0.25), false, "normal-generic"},
		entry{uniDist{-2, 5.5}, "dist=uni a=" + fb(-2) + " b=" + fb(5.5), true, "uniform"},
		entry{sigDist{0.75}, "dist=sig s=" + fb(0.75), true, "sigmoid"},
		entry{sigDist{1e-3}, "dist=sig s=" + fb(1e-3), true, "sigmoid"},
		entry{stepDist{[]float64{-2.5, -1, 0, 0.25, 3}}, "dist=step pts=" + fbList([]float64{-2.5, -1, 0, 0.25, 3}), true, "step"},
	)
	for i, e := range all {
		if i%nshards != shard {
			continue
		}
		reuseCase(r, e.d, e.params, e.arith, e.tag)
		if !e.arith || e.tag == "sigmoid" {
			randCase(r, e.d, e.params, e.tag)
		}
	}
}
