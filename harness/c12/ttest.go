//go:build verif

package main

import (
	"fmt"
	"math"
	"strings"

	"golang.org/x/perf/internal/stats"
	"golang.org/x/perf/internal/verifh/hx"
)

type tri struct{ n, m, v float64 }

func (t tri) Weight() float64   { return t.n }
func (t tri) Mean() float64     { return t.m }
func (t tri) Variance() float64 { return t.v }

func errKind(err error) string {
	switch err {
	case stats.ErrSampleSize:
		return "size"
	case stats.ErrZeroVariance:
		return "zerovar"
	case stats.ErrMismatchedSamples:
		return "mismatch"
	}
	return "other"
}

// resField renders a t-test outcome for the case line: err:<kind> or N1:N2:T:DoF:P:F(|t|):F(t)
// where F is the implementation's own TDist{DoF}.CDF.
// pRef is the p-value from an INDEPENDENT t distribution function (quadrature of a density written
// without the package); NaN when |t| is too large for the quadrature.
func pRef(t, dof float64, alt stats.LocationHypothesis) float64 {
	if !(math.Abs(t) <= 60) || !(dof > 0) {
		return math.NaN()
	}
	if glX == nil {
		initGL(24)
	}
	switch alt {
	case stats.LocationLess:
		return tCDFRef(dof, t)
	case stats.LocationGreater:
		return 1 - tCDFRef(dof, t)
	}
	return 2 * (1 - tCDFRef(dof, math.Abs(t)))
}

var curAlt stats.LocationHypothesis

func resField(res *stats.TTestResult, err error) (field, obs string) {
	if err != nil {
		return "err:" + errKind(err), errKind(err)
	}
	if !(res.DoF > 0) || math.IsNaN(res.T) || math.IsInf(res.T, 0) || math.IsInf(res.DoF, 0) {
		return "degen", "degen"
	}
	d := stats.TDist{V: res.DoF}
	var fa, ft float64
	guard("tdist", func() {
		fa = d.CDF(math.Abs(res.T))
		ft = d.CDF(res.T)
	})
	return fmt.Sprintf("%d:%d:%s:%s:%s:%s:%s:%s", res.N1, res.N2, fb(res.T), fb(res.DoF), fb(res.P), fb(fa), fb(ft), fb(pRef(res.T, res.DoF, curAlt))),
		fmt.Sprintf("ok:%d:%d", res.N1, res.N2)
}

var weights = []float64{0, 1, 2, 2, 3, 4, 5, 7, 10, 20, 30, 100, 1000, 1e5, 2.5, 7.25, 1.5}

func benchSample(r *hx.Rand, n int, base, noise float64) []float64 {
	xs := make([]float64, n)
	for i := range xs {
		xs[i] = base * (1 + noise*(r.Float()-0.5))
		if r.Chance(1, 40) {
			xs[i] = base
		}
	}
	return xs
}

func ttestCases(r *hx.Rand, n int) {
	alts := []stats.LocationHypothesis{stats.LocationLess, stats.LocationDiffers, stats.LocationGreater}
	for i := 0; i < n; i++ {
		alt := alts[r.Intn(3)]
		curAlt = alt
		mu := 0.0
		if r.Chance(1, 3) {
			mu = float64(r.Intn(21)-10) / 4
		}
		var a, b tri
		var xs, ys []float64
		tag := "triple"
		if r.Chance(1, 2) {
			scale := math.Pow(10, r.Float()*12-6)
			gv := func() float64 {
				if r.Chance(1, 6) {
					return 0
				}
				return scale * scale * math.Pow(10, r.Float()*8-6)
			}
			a = tri{hx.Pick(r, weights), scale * (r.Float()*4 - 2), gv()}
			b = tri{hx.Pick(r, weights), scale * (r.Float()*4 - 2), gv()}
			if a.n <= 1 { // a sample of at most one value has no spread
				a.v = 0
			}
			if b.n <= 1 {
				b.v = 0
			}
			if r.Chance(1, 4) { // nearly equal means
				b.m = a.m * (1 + (r.Float()-0.5)*1e-9)
			}
			if a.v == 0 && b.v == 0 {
				tag += "+zerovar"
			}
			if a.n <= 1 || b.n <= 1 {
				tag += "+undersized"
			}
			if a.n != math.Trunc(a.n) || b.n != math.Trunc(b.n) {
				tag += "+fractional"
			}
		} else {
			tag = "sample"
			base := math.Pow(10, r.Float()*9-3)
			noise := math.Pow(10, -r.Float()*4)
			n1, n2 := r.Intn(12), r.Intn(12)
			if r.Chance(1, 4) {
				n1, n2 = 5+r.Intn(200), 5+r.Intn(200)
			}
			if r.Chance(1, 6) { // large samples: Welch / pooled degrees of freedom around and above 1000
				n1, n2 = 450+r.Intn(500), 450+r.Intn(500)
				tag += "+large"
			}
			if r.Chance(1, 2) {
				n2 = n1
				tag += "+paired"
			}
			shift := 1 + (r.Float()-0.5)*noise*float64(r.Intn(4))
			xs = benchSample(r, n1, base, noise)
			ys = benchSample(r, n2, base*shift, noise)
			if r.Chance(1, 10) {
				for j := range xs {
					xs[j] = base
				}
				if r.Bool() {
					for j := range ys {
						ys[j] = base * shift
					}
					tag += "+zerovar"
				}
			}
			if r.Chance(1, 12) && n1 == n2 { // constant difference: paired zero variance
				for j := range ys {
					ys[j] = xs[j] + base
				}
				tag += "+constdiff"
			}
			if r.Chance(1, 7) {
				// huge common offset + small exactly representable deviations (counters, epoch
				// nanoseconds): the paired differences are exact and a few ulps of the inputs wide, the
				// statistic is ordinary; an error is due iff all differences are equal
				off := hx.Pick(r, []float64{math.Ldexp(1, 53+r.Intn(10)), 1e9, 1.7e18, -math.Ldexp(1, 56), 3e15})
				q := math.Nextafter(math.Abs(off), math.Inf(1)) - math.Abs(off) // ulp of the offset
				// deviations of 0..1, 0..2, 0..3 ulps of the offset (standard deviation of the differences
				// at or below one ulp of the inputs) as well as wider ones
				span := hx.Pick(r, []int{2, 2, 3, 3, 4, 8, 64})
				if span > 4 {
					q *= float64(int(1) << uint(r.Intn(6)))
				}
				n1 = 2 + r.Intn(9)
				n2 = n1
				xs, ys = make([]float64, n1), make([]float64, n2)
				for j := range xs {
					xs[j] = off + float64(r.Intn(span))*q
					ys[j] = off + float64(r.Intn(span))*q
				}
				if r.Chance(1, 6) { // all differences equal: the error IS due
					d := float64(r.Intn(5)) * q
					for j := range ys {
						ys[j] = xs[j] + d
					}
					tag += "+constdiff"
				}
				tag = "sample+paired+hugeoffset" + strings.TrimPrefix(tag, "sample+paired")
				base, noise = q, 1
			}
			if n1 <= 1 || n2 <= 1 {
				tag += "+undersized"
			}
			mu *= base * noise
			sa, sb := stats.Sample{Xs: xs}, stats.Sample{Xs: ys}
			a = tri{sa.Weight(), sa.Mean(), sa.Variance()}
			b = tri{sb.Weight(), sb.Mean(), sb.Variance()}
		}
		var fW, fP, fR, fO, oW, oP, oR, oO string
		fR, oR = "-", "-"
		// the tests see WINDOWS of larger arrays (spare capacity, sentinels around): afterwards the
		// callers' data must be bit-identical and in the original order
		var winX, winY *window
		xv, yv := xs, ys
		if xs != nil {
			winX, xv = newWindow(xs)
			winY, yv = newWindow(ys)
		}
		again := true
		ok := guard("ttest", func() {
			var sa, sb stats.TTestSample = a, b
			if xs != nil {
				sa, sb = stats.Sample{Xs: xv}, stats.Sample{Xs: yv}
			}
			fW, oW = resField(stats.TwoSampleWelchTTest(sa, sb, alt))
			fP, oP = resField(stats.TwoSampleTTest(sa, sb, alt))
			fO, oO = resField(stats.OneSampleTTest(sa, mu, alt))
			if xs != nil {
				fR, oR = resField(stats.PairedTTest(xv, yv, mu, alt))
			}
			// the same samples asked again, in another order, must give the same results
			gO, _ := resField(stats.OneSampleTTest(sa, mu, alt))
			gR := "-"
			if xs != nil {
				gR, _ = resField(stats.PairedTTest(xv, yv, mu, alt))
			}
			gP, _ := resField(stats.TwoSampleTTest(sa, sb, alt))
			gW, _ := resField(stats.TwoSampleWelchTTest(sa, sb, alt))
			again = gO == fO && gR == fR && gP == fP && gW == fW
		})
		kept := winX == nil || (winX.kept() && winY.kept())
		hx.Printf("case %d kind=ttest n1=%s m1=%s v1=%s n2=%s m2=%s v2=%s mu=%s alt=%d xs=%s ys=%s W=%s P=%s R=%s O=%s kept=%s again=%s tag=%s\n",
			id, fb(a.n), fb(a.m), fb(a.v), fb(b.n), fb(b.m), fb(b.v), fb(mu), int(alt), fbList(xs), fbList(ys), fW, fP, fR, fO, b2s(kept, "1", "0"), b2s(again, "1", "0"), tag)
		if ok {
			hx.Printf("obs %d welch=%s pooled=%s paired=%s one=%s\n", id, oW, oP, oR, oO)
			if xs != nil {
				hx.Printf("sobs %d welch=ok pooled=ok paired=ok one=ok ptail=ok pref=ok in=kept again=same\n", id)
			} else {
				hx.Printf("sobs %d ptail=ok pref=ok in=kept again=same\n", id)
			}
		}
		id++
	}
}
