//go:build verif

package main

import (
	"math"
	"sort"

	"golang.org/x/perf/internal/stats"
	"golang.org/x/perf/internal/verifh/hx"
)

// ---------------------------------------------------------------- continued fraction / beta

func tryCF(x, a, b float64) (v float64, panicked bool) {
	defer func() {
		if recover() != nil {
			panicked = true
		}
	}()
	return stats.VerifC12Betacf(x, a, b), false
}

func cfField(x, a, b float64) string {
	v, p := tryCF(x, a, b)
	if p {
		return "panic"
	}
	return fb(v)
}

// btReplica is the prefactor expression of mathBetaInc (the model takes its VALUE as a
// parameter; a wrong replica shows up as a correspondence failure on the unchanged tree).
func btReplica(x, a, b float64) float64 {
	if 0 < x && x < 1 {
		lg := stats.VerifC12Lgamma
		return math.Exp(lg(a+b) - lg(a) - lg(b) + a*math.Log(x) + b*math.Log(1-x))
	}
	return 0
}

func randNu(r *hx.Rand) float64 {
	switch r.Intn(5) {
	case 0:
		return float64(1 + r.Intn(60))
	case 1:
		return float64(1+r.Intn(400)) / 4
	default:
		return math.Pow(10, r.Float()*5) // log-uniform in [1, 1e5], non-integer
	}
}

func betaCases(r *hx.Rand, n int) {
	for i := 0; i < n; i++ {
		var x, a, b float64
		tag := ""
		q := 0
		switch r.Intn(4) {
		case 0, 1: // the arguments TDist.CDF produces
			nu := randNu(r)
			t := math.Pow(10, r.Float()*3.2-1.5)
			if r.Chance(1, 3) { // near the symmetry switch
				t = math.Sqrt(3*nu/(nu+2)) * (1 + (r.Float()-0.5)*0.02)
			}
			x, a, b = nu/(nu+t*t), nu/2, 0.5
			tag = "tdist"
		case 2: // general parameters
			a = math.Pow(10, r.Float()*4-1)
			b = math.Pow(10, r.Float()*4-1)
			x = r.Float()
			tag = "general"
		default: // short operands: the exact-arithmetic instance is run too
			a = float64(1+r.Intn(24)) / 2
			b = float64(1+r.Intn(8)) / 2
			x = float64(1+r.Intn(63)) / 64
			tag = "short"
			q = 1
		}
		if r.Chance(1, 40) {
			x = hx.Pick(r, []float64{0, 1, -0.25, 1.5})
			tag += "+edge"
		}
		if x < (a+1)/(a+b+2) {
			tag += "+direct"
		} else {
			tag += "+switched"
		}
		var I, J float64
		panI := !guard("betainc", func() { I = stats.VerifC12BetaInc(x, a, b) })
		panJ := !guard("betainc", func() { J = stats.VerifC12BetaInc(1-x, b, a) })
		fI, fJ := fb(I), fb(J)
		if panI {
			fI = "panic"
		}
		if panJ {
			fJ = "panic"
		}
		cf1, cf2 := cfField(x, a, b), cfField(1-x, b, a)
		hx.Printf("case %d kind=beta x=%s a=%s b=%s bt=%s cf1=%s cf2=%s I=%s J=%s q=%d tag=%s\n",
			id, fb(x), fb(a), fb(b), fb(btReplica(x, a, b)), cf1, cf2, fI, fJ, q, tag)
		hx.Printf("obs %d cf1=%s cf2=%s I=%s\n", id, cf1, cf2, fI)
		if q == 1 {
			hx.Printf("obs %d q cf=ok\n", id)
		}
		hx.Printf("sobs %d sym=ok range=ok\n", id)
		id++
	}
}

// ---------------------------------------------------------------- distribution grids (numeric)

var glX, glW []float64 // Gauss-Legendre nodes and weights on [-1,1]

func initGL(n int) {
	glX, glW = make([]float64, n), make([]float64, n)
	for i := 0; i < n; i++ {
		z := math.Cos(math.Pi * (float64(i) + 0.75) / (float64(n) + 0.5))
		var pp float64
		for it := 0; it < 100; it++ {
			p1, p2 := 1.0, 0.0
			for j := 0; j < n; j++ {
				p3 := p2
				p2 = p1
				p1 = ((2*float64(j)+1)*z*p2 - float64(j)*p3) / float64(j+1)
			}
			pp = float64(n) * (z*p1 - p2) / (z*z - 1)
			z1 := z
			z = z1 - p1/pp
			if math.Abs(z-z1) < 1e-16 {
				break
			}
		}
		glX[i], glW[i] = z, 2/((1-z*z)*pp*pp)
	}
}

// integrate f over [a,b] with panels of width <= h
func quad(f func(float64) float64, a, b, h float64) float64 {
	if a == b {
		return 0
	}
	np := int(math.Ceil(math.Abs(b-a) / h))
	w := (b - a) / float64(np)
	s := 0.0
	for p := 0; p < np; p++ {
		lo := a + float64(p)*w
		mid, half := lo+w/2, w/2
		ps := 0.0
		for i := range glX {
			ps += glW[i] * f(mid+half*glX[i])
		}
		s += ps * half
	}
	return s
}

// normTail is an evaluation of the standard normal tail probability Q(z) = P[Z > z], z > 0, that is
// independent of math.Erf/Erfc: Q(z) = φ(z) / (z + 1/(z + 2/(z + 3/(z + …)))) (Laplace's continued
// fraction for the Mills ratio; its convergents bracket the value alternately), evaluated bottom-up
// with enough terms for z >= 2.5; φ through math.Exp split as exp(-h²/2)·exp(-(z²-h²)/2) is not
// needed: exp(-z²/2) of a float64 z carries a relative error ~ z²·2^-53 <= 2e-13 at z = 38.
// Numerical reference (not a proof); NaN where it does not apply.
func normTail(z float64) float64 {
	if !(z >= 2.5) || z > 40 {
		return math.NaN()
	}
	n := 40 + int(4000/(z*z)) // more terms near the centre
	lo, hi := 0.0, 0.0
	for pass := 0; pass < 2; pass++ {
		t := 0.0
		for k := n + pass; k >= 1; k-- {
			t = float64(k) / (z + t)
		}
		v := math.Exp(-z*z/2) * invSqrt2PiRef / (z + t)
		if pass == 0 {
			lo = v
		} else {
			hi = v
		}
	}
	if math.Abs(lo-hi) > 1e-13*math.Abs(hi) { // successive convergents must agree
		return math.NaN()
	}
	return (lo + hi) / 2
}

const invSqrt2PiRef = 0.398942280401432677939946059934381868475858631164934657665925

// tDensityRef is the Student t density written independently of the package under test:
// c(nu)·exp(-(nu+1)/2·log1p(x²/nu)), c(nu) = Γ((nu+1)/2)/(√(nu·π)·Γ(nu/2)) through math.Lgamma for
// nu < 200 and through its asymptotic series (1 - 1/(4nu) + 1/(32nu²) + 5/(128nu³) - 21/(2048nu⁴))/√(2π)
// above (error < 1e-13 there). Numerical reference, not a proof.
func tDensityRef(nu, x float64) float64 {
	var c float64
	if nu < 200 {
		a, _ := math.Lgamma((nu + 1) / 2)
		b, _ := math.Lgamma(nu / 2)
		c = math.Exp(a-b) / math.Sqrt(nu*math.Pi)
	} else {
		i := 1 / nu
		c = invSqrt2PiRef * (1 - i/4 + i*i/32 + 5*i*i*i/128 - 21*i*i*i*i/2048)
	}
	return c * math.Exp(-(nu+1)/2*math.Log1p(x*x/nu))
}

// tCDFRef: 1/2 + ∫_0^x of the independent density (Gauss-Legendre panels of width <= 1/4)
func tCDFRef(nu, x float64) float64 {
	v := quad(func(t float64) float64 { return tDensityRef(nu, t) }, 0, math.Abs(x), 0.25)
	if x < 0 {
		return 0.5 - v
	}
	return 0.5 + v
}

func xGrid(r *hx.Rand) []float64 {
	xs := []float64{0}
	for _, v := range []float64{1e-9, 1e-8, 1e-7, 1e-6, 1e-5, 1e-4, 1e-3, 0.01, 0.1, 0.25, 0.5, 0.75, 1, 1.25, 1.5, 1.7, 1.75, 2, 2.5, 3, 4, 5, 6.5, 7, 8, 8.3, 9, 10, 12, 15, 20, 25, 30, 35, 37, 37.5, 40, 50} {
		xs = append(xs, v, -v)
	}
	for i := 0; i < 6; i++ { // random points and close pairs
		v := math.Pow(10, r.Float()*3.2-1.5)
		xs = append(xs, v, -v, v*(1+1e-9))
	}
	sort.Float64s(xs)
	return xs
}

type cdfDist interface {
	CDF(float64) float64
	PDF(float64) float64
}

// gridCase evaluates F on the grid, the quadrature reference Q(x) = 1/2 + ∫_c^x pdf and the
// inverse at F(x); the driver judges range, order, symmetry, |F-Q| and inverse∘CDF.
// tbl(x) returns the argument at which the code evaluates its transcendental parameter for x and
// the value there (t: the incomplete beta argument and I; normal: the erfc argument and erfc);
// the float64 instance of the model recomputes the argument itself and looks the value up.
func gridCase(kind, params string, d cdfDist, inv func(float64) float64, centre, scale float64, xs []float64, tag string, tbl func(float64) (float64, float64, float64), tail func(float64) float64, refPDF func(float64) float64) {
	F := make([]float64, len(xs))
	Q := make([]float64, len(xs))
	P := make([]float64, len(xs))
	V := make([]float64, len(xs))
	ok := guard(kind, func() {
		for i, x := range xs {
			F[i] = d.CDF(x)
			P[i] = d.PDF(x)
			V[i] = inv(F[i])
		}
		// cumulative quadrature outward from the centre
		ci := sort.SearchFloat64s(xs, centre)
		acc, prev := 0.0, centre
		for i := ci; i < len(xs); i++ {
			acc += quad(d.PDF, prev, xs[i], 0.25*scale)
			prev = xs[i]
			Q[i] = 0.5 + acc
		}
		acc, prev = 0.0, centre
		for i := ci - 1; i >= 0; i-- {
			acc += quad(d.PDF, xs[i], prev, 0.25*scale)
			prev = xs[i]
			Q[i] = 0.5 - acc
		}
	})
	T := make([]float64, len(xs))
	for i, x := range xs {
		T[i] = tail(x)
	}
	// the same cumulative quadrature over a density written independently of the package (a
	// self-consistent but wrong PDF/CDF pair is invisible to Q)
	Pi := make([]float64, len(xs))
	Qi := make([]float64, len(xs))
	{
		for i, x := range xs {
			Pi[i] = refPDF(x)
		}
		ci := sort.SearchFloat64s(xs, centre)
		acc, prev := 0.0, centre
		for i := ci; i < len(xs); i++ {
			acc += quad(refPDF, prev, xs[i], 0.25*scale)
			prev = xs[i]
			Qi[i] = 0.5 + acc
		}
		acc, prev = 0.0, centre
		for i := ci - 1; i >= 0; i-- {
			acc += quad(refPDF, xs[i], prev, 0.25*scale)
			prev = xs[i]
			Qi[i] = 0.5 - acc
		}
	}
	A := make([]float64, len(xs))
	A2 := make([]float64, len(xs))
	B := make([]float64, len(xs))
	guard(kind, func() {
		for i, x := range xs {
			A[i], A2[i], B[i] = tbl(x)
		}
	})
	hx.Printf("case %d kind=%s %s c=%s xs=%s F=%s Q=%s P=%s V=%s A=%s A2=%s B=%s T=%s Pi=%s Qi=%s tag=%s\n", id, kind, params, fb(centre), fbList(xs), fbList(F), fbList(Q), fbList(P), fbList(V), fbList(A), fbList(A2), fbList(B), fbList(T), fbList(Pi), fbList(Qi), tag)
	if ok {
		hx.Printf("obs %d F=%s\n", id, fbList(F))
		hx.Printf("sobs %d range=ok mono=ok sym=ok quad=ok inv=ok tail=ok ipdf=ok iquad=ok\n", id)
	}
	id++
}

func nuTag(nu float64) string {
	t := "int"
	if nu != math.Trunc(nu) {
		t = "fractional"
	}
	switch {
	case nu < 10:
		return t + "+nu<10"
	case nu < 1000:
		return t + "+nu<1e3"
	}
	return t + "+nu>=1e3"
}

func distCases(r *hx.Rand) {
	initGL(24)
	var nus []float64
	if shard == 0 {
		// includes the witnesses of F22 (nu = 100, 1e4, 1e5 at |x| = 1e-9 .. 1e-3, and the inverse at 1/2)
		nus = append(nus, 1, 1.5, 2, 2.5, 3, 4, 5, 7.3, 10, 30, 100, 199.5, 200, 999.5, 1000, 1000.5, 1001, 1003.7, 1500, 5000, 1e4, 2e4, 99999.5, 1e5)
	}
	for i := per(hx.N(48, 1600)); i > 0; i-- {
		nus = append(nus, randNu(r))
	}
	for _, nu := range nus {
		d := stats.TDist{V: nu}
		gridCase("tcdf", "nu="+fb(nu), d, stats.InvCDF(d), 0, 1, xGrid(r), "t+"+nuTag(nu), func(x float64) (float64, float64, float64) {
			x2 := x * x
			if x2 < nu {
				arg := x2 / (nu + x2)
				return arg, 0.5, stats.VerifC12BetaInc(arg, 0.5, nu/2)
			}
			arg := nu / (nu + x2)
			return arg, nu / 2, stats.VerifC12BetaInc(arg, nu/2, 0.5)
		}, func(float64) float64 { return math.NaN() }, func(x float64) float64 { return tDensityRef(nu, x) })
	}
	for i := per(hx.N(40, 800)); i > 0; i-- {
		mu, sigma := 0.0, 1.0
		if i%3 != 0 {
			mu = (r.Float() - 0.5) * math.Pow(10, r.Float()*6-3)
			sigma = math.Pow(10, r.Float()*8-4)
		}
		d := stats.NormalDist{Mu: mu, Sigma: sigma}
		g := xGrid(r)
		var xs []float64
		for _, x := range g {
			if math.Abs(x) <= 40 {
				// mu + sigma*x is formed in float64; the symmetric partner is mu - sigma*x
				xs = append(xs, mu+sigma*x)
			}
		}
		sort.Float64s(xs)
		tag := "normal+std"
		if mu != 0 || sigma != 1 {
			tag = "normal+scaled"
		}
		gridCase("ncdf", "mu="+fb(mu)+" sigma="+fb(sigma), d, d.InvCDF, mu, sigma, xs, tag, func(x float64) (float64, float64, float64) {
			z := -(x - mu) / (sigma * math.Sqrt2)
			return z, 0, math.Erfc(z)
		}, func(x float64) float64 {
			// lower tail: F(x) = Q(-(x-mu)/sigma), relative accuracy demanded down to -37.5 sigma
			return normTail(-(x - mu) / sigma)
		}, func(x float64) float64 {
			z := (x - mu) / sigma
			return math.Exp(-z*z/2) * invSqrt2PiRef / sigma
		})
	}
}

// ---------------------------------------------------------------- convergence sweep

// sweepCases: every panic of betacf inside TDist.CDF is a crash line. nu runs densely through
// [1, 1e5] (log-spaced, so non-integers throughout) plus every integer up to 2000.
func sweepCases() {
	total := hx.N(20000, 200000)
	chunk := 1000
	ts := []float64{1e-9, 1e-6, 1e-3, 0.05, 0.3, 0.9, 1.5, 1.7, 1.7320508, 1.75, 1.9, 2.5, 4, 9, 50}
	nchunks := (total + chunk - 1) / chunk
	for c := 0; c < nchunks; c++ {
		if c%nshards != shard {
			continue
		}
		lo, hi := c*chunk, (c+1)*chunk
		if hi > total {
			hi = total
		}
		nuLo := math.Pow(10, 5*float64(lo)/float64(total))
		nuHi := math.Pow(10, 5*float64(hi-1)/float64(total-1))
		hx.Printf("case %d kind=sweep nulo=%s nuhi=%s n=%d tag=sweep\n", id, fb(nuLo), fb(nuHi), hi-lo)
		calls := 0
		for k := lo; k < hi; k++ {
			nus := []float64{math.Pow(10, 5*float64(k)/float64(total-1))}
			if k < 2000 {
				nus = append(nus, float64(k+1))
			}
			for _, nu := range nus {
				d := stats.TDist{V: nu}
				sw := math.Sqrt(3 * nu / (nu + 2)) // where the symmetry switch happens
				for _, t := range append(ts, sw, sw*(1-1e-6), sw*(1+1e-6)) {
					func() {
						defer func() {
							if e := recover(); e != nil {
								hx.Printf("crash %d TDist{%v}.CDF(%v): %v\n", id, nu, t, e)
							}
						}()
						v := d.CDF(t)
						calls++
						if !(v >= 0.5 && v <= 1) {
							hx.Printf("crash %d TDist{%v}.CDF(%v) = %v outside [1/2,1]\n", id, nu, t, v)
						}
					}()
				}
			}
		}
		hx.Printf("sobs %d conv=ok\n", id)
		hx.Printf("note %d calls=%d\n", id, calls)
		id++
	}
}

// sweepExtreme: degrees of freedom of the pooled / paired / one-sample tests (integers n-1,
// n1+n2-2 for samples of up to ~1000 values) and Welch-type non-integers, at tiny and huge |t|
// (t*t underflowing to 0, overflowing to +Inf, and everything between), both through TDist.CDF and
// through the public tests with all three alternatives. Panics, NaN and p-values outside [0,1]
// are crash lines.
func sweepExtreme() {
	maxNu := hx.N(300, 2400)
	ts := []float64{5e-324, 1e-300, 1e-200, 1.5e-162, 1e-160, 1e-100, 1e-30, 1e-12, 1e-9, 1e-5,
		30, 1e3, 1e6, 1e10, 1e50, 1e100, 1.3e154, 1.4e154, 1e155, 1e200, 1e308, math.Inf(1)}
	alts := []stats.LocationHypothesis{stats.LocationLess, stats.LocationDiffers, stats.LocationGreater}
	chunk := 100
	for c := 0; c*chunk < maxNu; c++ {
		if c%nshards != shard {
			continue
		}
		hx.Printf("case %d kind=sweep nulo=%s nuhi=%s n=%d tag=sweep+extreme\n", id, fb(float64(c*chunk+1)), fb(float64((c+1)*chunk)), chunk)
		calls := 0
		for k := c*chunk + 1; k <= (c+1)*chunk && k <= maxNu; k++ {
			for _, nu := range []float64{float64(k), float64(k) + 0.37, float64(k) * 1.0001} {
				d := stats.TDist{V: nu}
				for _, t := range ts {
					for _, sg := range []float64{1, -1} {
						x := sg * t
						func() {
							defer func() {
								if e := recover(); e != nil {
									hx.Printf("crash %d TDist{%v}.CDF(%v): %v\n", id, nu, x, e)
								}
							}()
							v := d.CDF(x)
							calls++
							if !(v >= 0 && v <= 1) || (x > 0 && v < 0.5) || (x < 0 && v > 0.5) {
								hx.Printf("crash %d TDist{%v}.CDF(%v) = %v on the wrong side / outside [0,1]\n", id, nu, x, v)
							}
						}()
					}
				}
			}
			// through the public API: one-sample test with n = k+1 values, |t| = |m|*sqrt(n)/sqrt(v)
			n := float64(k + 1)
			for _, m := range []float64{1e-300, 1e-150, 1e-9, 1, 1e9, 1e150, 1e300} {
				for _, v := range []float64{1e-300, 1, 1e300} {
					for _, alt := range alts {
						func() {
							defer func() {
								if e := recover(); e != nil {
									hx.Printf("crash %d OneSampleTTest(n=%v,m=%v,v=%v): %v\n", id, n, m, v, e)
								}
							}()
							res, err := stats.OneSampleTTest(tri{n, m, v}, 0, alt)
							calls++
							if err != nil || !(res.P >= 0 && res.P <= 1) {
								hx.Printf("crash %d OneSampleTTest(n=%v,m=%v,v=%v,alt=%d): P=%v err=%v\n", id, n, m, v, int(alt), res, err)
							}
						}()
					}
				}
			}
		}
		hx.Printf("sobs %d conv=ok\n", id)
		hx.Printf("note %d calls=%d\n", id, calls)
		id++
	}
}
