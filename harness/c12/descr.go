//go:build verif

package main

import (
	"math"
	"os"
	"sort"
	"strings"

	"golang.org/x/perf/internal/stats"
	"golang.org/x/perf/internal/verifh/hx"
)

// mant53 returns a random float in [1,2) with a random number of significant bits.
func mant53(r *hx.Rand) float64 {
	bits := r.U64() >> 12
	if r.Chance(1, 3) { // few significant bits: exact sums, ties
		bits &^= (uint64(1) << uint(20+r.Intn(32))) - 1
	}
	return math.Float64frombits(uint64(1023)<<52 | bits)
}

func genSample(r *hx.Rand) ([]float64, string) {
	var n int
	switch r.Intn(6) {
	case 0:
		n = 1 + r.Intn(3)
	case 1, 2:
		n = 2 + r.Intn(12)
	case 3, 4:
		n = 10 + r.Intn(90)
	default:
		n = 100 + r.Intn(500)
	}
	xs := make([]float64, n)
	style := ""
	switch r.Intn(9) {
	case 0: // small integers with multiplicities
		style = "ints"
		m := 1 + r.Intn(6)
		for i := range xs {
			xs[i] = float64(r.Intn(m+1) - r.Intn(2)*r.Intn(m+1))
		}
	case 1, 2: // benchmark-like: base * (1 + noise)
		style = "bench"
		base := math.Pow(10, r.Float()*12-3)
		noise := math.Pow(10, -r.Float()*6)
		for i := range xs {
			xs[i] = base * (1 + noise*(r.Float()-0.5))
		}
	case 3: // widely varying magnitudes, both signs
		style = "wide"
		span := 1 + r.Intn(400)
		for i := range xs {
			xs[i] = math.Ldexp(mant53(r), r.Intn(2*span+1)-span)
			if r.Bool() {
				xs[i] = -xs[i]
			}
		}
	case 4: // widely varying magnitudes, positive (geometric mean applies)
		style = "widepos"
		span := 1 + r.Intn(400)
		for i := range xs {
			xs[i] = math.Ldexp(mant53(r), r.Intn(2*span+1)-span)
		}
	case 5: // large offset + small noise: cancellation
		style = "offset"
		off := math.Ldexp(mant53(r), 10+r.Intn(50))
		if r.Bool() {
			off = -off
		}
		sc := math.Ldexp(1, r.Intn(30)-20)
		for i := range xs {
			xs[i] = off + sc*(r.Float()-0.5)
		}
	case 6: // few distinct values, high multiplicity
		style = "multi"
		k := 1 + r.Intn(4)
		vals := make([]float64, k)
		for i := range vals {
			vals[i] = math.Ldexp(mant53(r), r.Intn(40)-20)
			if r.Chance(1, 4) {
				vals[i] = -vals[i]
			}
		}
		for i := range xs {
			xs[i] = vals[r.Intn(k)]
		}
	case 7: // one huge outlier among small values
		style = "outlier"
		for i := range xs {
			xs[i] = mant53(r) * (1 + r.Float())
		}
		xs[r.Intn(n)] = math.Ldexp(mant53(r), 30+r.Intn(300))
	default: // adjacent floats: interpolation and rounding at the last bit
		style = "adjacent"
		b := math.Ldexp(mant53(r), r.Intn(20)-10)
		for i := range xs {
			xs[i] = math.Float64frombits(math.Float64bits(b) + uint64(r.Intn(4)))
		}
	}
	for i, x := range xs { // no negative zero (sort order of ±0 is unspecified)
		if x == 0 {
			xs[i] = 0
		}
	}
	return xs, style
}

func genPs(r *hx.Rand, n int) []float64 {
	ps := []float64{-0.5, 0, 0.25, 0.5, 0.75, 1, 1.5}
	for i := 0; i < 3; i++ {
		ps = append(ps, r.Float())
	}
	// p just below / at / above the point where n = 1/3 + p(N+1/3) crosses an integer
	N := float64(n)
	for i := 0; i < 4; i++ {
		k := float64(r.Intn(n + 2))
		p := (k - 1/3.0) / (N + 1/3.0)
		for j := r.Intn(5) - 2; j != 0; {
			if j > 0 {
				p = math.Nextafter(p, 2)
				j--
			} else {
				p = math.Nextafter(p, -1)
				j++
			}
		}
		ps = append(ps, p)
	}
	sort.Float64s(ps)
	return ps
}

func sizeClass(n int) string {
	switch {
	case n <= 1:
		return "n1"
	case n <= 15:
		return "small"
	case n < 100:
		return "mid"
	}
	return "big"
}

func descrOne(xs []float64, sorted bool, ps []float64, tag string) {
	if sorted {
		sort.Float64s(xs)
	}
	win, xv := newWindow(xs)
	s := stats.Sample{Xs: xv, Sorted: sorted}
	var mean, vr, sd, geo, mn, mx, iqr, bmn, bmx float64
	again := true
	pct := make([]float64, len(ps))
	lx := make([]float64, len(xs))
	for i, x := range xs {
		lx[i] = math.Log(x)
	}
	mlog := stats.Mean(lx)
	sflag := 0
	if sorted {
		sflag = 1
	}
	ok := guard("descr", func() {
		mean = s.Mean()
		vr = s.Variance()
		sd = s.StdDev()
		geo = s.GeoMean()
		mn, mx = s.Bounds()
		bmn, bmx = stats.Bounds(xv)
		for i, p := range ps {
			pct[i] = s.Percentile(p)
		}
		iqr = s.IQR()
		// the same Sample queried again in another order must answer identically (no state is
		// left behind by Percentile/IQR/Bounds, nothing was sorted in place)
		first := append([]float64{mean, vr, sd, geo, mn, mx, iqr}, pct...)
		var second []float64
		iqr2 := s.IQR()
		pct2 := make([]float64, len(ps))
		for i := len(ps) - 1; i >= 0; i-- {
			pct2[i] = s.Percentile(ps[i])
		}
		mn2, mx2 := s.Bounds()
		geo2, sd2, vr2, mean2 := s.GeoMean(), s.StdDev(), s.Variance(), s.Mean()
		second = append([]float64{mean2, vr2, sd2, geo2, mn2, mx2, iqr2}, pct2...)
		again = sameBits(first, second)
	})
	kept := win.kept()
	hx.Printf("case %d kind=descr xs=%s sorted=%d ps=%s lx=%s mlog=%s emlog=%s gmean=%s gvar=%s gsd=%s ggeo=%s gmin=%s gmax=%s gpct=%s giqr=%s kept=%s again=%s tag=%s\n",
		id, fbList(xs), sflag, fbList(ps), fbList(lx), fb(mlog), fb(math.Exp(mlog)),
		fb(mean), fb(vr), fb(sd), fb(geo), fb(mn), fb(mx), fbList(pct), fb(iqr), b2s(kept, "1", "0"), b2s(again, "1", "0"), tag)
	if ok {
		// K (i): the float64 instance of the model must reproduce these bits
		hx.Printf("obs %d f64 mean=%s var=%s geo=%s min=%s max=%s bmin=%s bmax=%s pct=%s iqr=%s\n",
			id, fb(mean), fb(vr), fb(geo), fb(mn), fb(mx), fb(bmn), fb(bmx), fbList(pct), fb(iqr))
		// K (ii): the exact instance of the model within k ulps of the data's scale
		hx.Printf("obs %d q mean=ok var=ok pct=ok iqr=ok\n", id)
		// S: textbook definitions, percentile order and range, judged by the driver
		hx.Printf("sobs %d mean=ok var=ok sd=ok geo=ok bounds=ok pct=ok pmono=ok pbound=ok iqr=ok in=kept again=same\n", id)
	}
	id++
}

func descrCases(r *hx.Rand, n int) {
	for i := 0; i < n; i++ {
		xs, style := genSample(r)
		sorted := r.Chance(1, 3)
		ps := genPs(r, len(xs))
		tag := style + "+" + sizeClass(len(xs))
		if sorted {
			tag += "+sorted"
		}
		descrOne(xs, sorted, ps, tag)
	}
}

func narrowRamp(n int) []float64 {
	xs := make([]float64, n)
	for i := range xs {
		xs[i] = 1e15 + math.Round(0.4*float64(i))*0.125
	}
	return xs
}

// descrCorpus: fixed cases (the package's own test vectors and classic hard inputs).
func descrCorpus() {
	if shard != 0 {
		return
	}
	ps := []float64{-1, 0, 0.1, 0.25, 1 / 3.0, 0.5, 2 / 3.0, 0.75, 0.9, 1, 2}
	ramp := 600
	if os.Getenv("VERIF_C12_NO_N12B") != "" { // mutation self-tests: keep the known finding out of the way
		ramp = 3
	}
	if os.Getenv("VERIF_C12_NO_N12B") == "" { // N12c witness: spread beyond MaxFloat64 (registered known finding)
		descrOne([]float64{-1e308, 1e308}, true, ps, "corpus+overflow")
	}
	for _, xs := range [][]float64{
		{1}, {1, 2}, {2, 1}, {1, 2, 3, 4, 5}, {5, 4, 3, 2, 1},
		{15, 20, 35, 40, 50},
		{1e9 + 4, 1e9 + 7, 1e9 + 13, 1e9 + 16}, // textbook cancellation example
		{0.1, 0.2, 0.3, 0.4, 0.5, 0.6, 0.7, 0.8, 0.9, 1.0},
		{3, 3, 3, 3}, {-1, 1}, {0, 0, 1},
		narrowRamp(ramp), // N12b witness: 240 ulps wide, ascending; Mean returns the minimum
	} {
		descrOne(append([]float64(nil), xs...), false, ps, "corpus+"+strings.ToLower(sizeClass(len(xs))))
	}
}
