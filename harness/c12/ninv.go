//go:build verif

package main

import (
	"math"
	"sort"

	"golang.org/x/perf/internal/stats"
	"golang.org/x/perf/internal/verifh/hx"
)

// acklamKeys locates the arguments at which NormalDist.InvCDF(p) calls math.Log, math.Sqrt,
// math.Erfc and math.Exp (a transcription of the rational approximation of normaldist.go, used
// ONLY to know where to tabulate those functions: the float64 instance of the model recomputes
// every argument itself, and an argument missing from the table makes the model return NaN,
// i.e. a correspondence failure, never a silent pass).
func acklamKeys(p float64) (logK, sqrtK, erfcK, expK float64) {
	const (
		a1 = -3.969683028665376e+01
		a2 = 2.209460984245205e+02
		a3 = -2.759285104469687e+02
		a4 = 1.383577518672690e+02
		a5 = -3.066479806614716e+01
		a6 = 2.506628277459239e+00

		b1 = -5.447609879822406e+01
		b2 = 1.615858368580409e+02
		b3 = -1.556989798598866e+02
		b4 = 6.680131188771972e+01
		b5 = -1.328068155288572e+01

		c1 = -7.784894002430293e-03
		c2 = -3.223964580411365e-01
		c3 = -2.400758277161838e+00
		c4 = -2.549732539343734e+00
		c5 = 4.374664141464968e+00
		c6 = 2.938163982698783e+00

		d1 = 7.784695709041462e-03
		d2 = 3.224671290700398e-01
		d3 = 2.445134137142996e+00
		d4 = 3.754408661907416e+00

		plow  = 0.02425
		phigh = 1 - plow
	)
	logK, sqrtK = math.NaN(), math.NaN()
	var x float64
	if p < plow {
		logK = p
		sqrtK = -2 * math.Log(p)
		q := math.Sqrt(sqrtK)
		x = (((((c1*q+c2)*q+c3)*q+c4)*q+c5)*q + c6) /
			((((d1*q+d2)*q+d3)*q+d4)*q + 1)
	} else if phigh < p {
		logK = 1 - p
		sqrtK = -2 * math.Log(1-p)
		q := math.Sqrt(sqrtK)
		x = -(((((c1*q+c2)*q+c3)*q+c4)*q+c5)*q + c6) /
			((((d1*q+d2)*q+d3)*q+d4)*q + 1)
	} else {
		q := p - 0.5
		r := q * q
		x = (((((a1*r+a2)*r+a3)*r+a4)*r+a5)*r + a6) * q /
			(((((b1*r+b2)*r+b3)*r+b4)*r+b5)*r + 1)
	}
	return logK, sqrtK, -x / math.Sqrt2, x * x / 2
}

func ninvCases(r *hx.Rand, n int) {
	const plow = 0.02425
	for i := 0; i < n; i++ {
		mu, sigma := 0.0, 1.0
		tag := "std"
		if r.Chance(2, 3) {
			mu = (r.Float() - 0.5) * math.Pow(10, r.Float()*6-3)
			sigma = math.Pow(10, r.Float()*8-4)
			tag = "scaled"
		}
		d := stats.NormalDist{Mu: mu, Sigma: sigma}
		ps := []float64{0, 1, -0.5, 1.5, 0.5, plow, 1 - plow, math.Nextafter(plow, 0), math.Nextafter(1-plow, 1),
			math.Nextafter(plow, 1), math.Nextafter(1-plow, 0), 1e-300, math.SmallestNonzeroFloat64, 1 - 1e-16, math.Nextafter(1, 0)}
		for j := 0; j < 12; j++ {
			switch r.Intn(4) {
			case 0:
				ps = append(ps, r.Float()*plow)
			case 1:
				ps = append(ps, 1-r.Float()*plow)
			case 2:
				ps = append(ps, math.Pow(10, -r.Float()*300))
			default:
				ps = append(ps, r.Float())
			}
		}
		X := make([]float64, len(ps))
		LK, LV := make([]float64, len(ps)), make([]float64, len(ps))
		SK, SV := make([]float64, len(ps)), make([]float64, len(ps))
		EK, EV := make([]float64, len(ps)), make([]float64, len(ps))
		XK, XV := make([]float64, len(ps)), make([]float64, len(ps))
		ok := guard("ninv", func() {
			for j, p := range ps {
				X[j] = d.InvCDF(p)
				LK[j], SK[j], EK[j], XK[j] = acklamKeys(p)
				LV[j], SV[j], EV[j], XV[j] = math.Log(LK[j]), math.Sqrt(SK[j]), math.Erfc(EK[j]), math.Exp(XK[j])
			}
		})
		hx.Printf("case %d kind=ninv mu=%s sigma=%s s2=%s s2pi=%s ps=%s LK=%s LV=%s SK=%s SV=%s EK=%s EV=%s XK=%s XV=%s tag=ninv+%s\n",
			id, fb(mu), fb(sigma), fb(math.Sqrt2), fb(math.Sqrt(2*math.Pi)), fbList(ps),
			fbList(LK), fbList(LV), fbList(SK), fbList(SV), fbList(EK), fbList(EV), fbList(XK), fbList(XV), tag)
		if ok {
			hx.Printf("obs %d X=%s\n", id, fbList(X))
		}
		id++
	}
}

// ninvTailCases: NormalDist.InvCDF over the whole open interval (0,1), including arguments next to
// the subnormal range and next to 1: every answer must be finite, the answers must not decrease
// when p grows, and CDF(InvCDF(p)) must return p to RELATIVE accuracy in the lower tail (p a normal
// float) resp. relative in 1-p in the upper tail.
func ninvTailCases(r *hx.Rand, n int) {
	for i := 0; i < n; i++ {
		mu, sigma := 0.0, 1.0
		tag := "std"
		if i%2 == 1 {
			mu = (r.Float() - 0.5) * math.Pow(10, r.Float()*6-3)
			sigma = math.Pow(10, r.Float()*8-4)
			tag = "scaled"
		}
		d := stats.NormalDist{Mu: mu, Sigma: sigma}
		ps := []float64{5e-324, 1e-323, 1e-320, 1e-310, 2.2250738585072014e-308, 1e-305, 1e-300, 1e-250, 1e-200,
			1e-150, 1e-100, 1e-50, 1e-20, 1e-10, 1e-5, 1e-3, 0.02, 0.1, 0.3, 0.5, 0.7, 0.9, 0.98, 1 - 1e-3, 1 - 1e-5,
			1 - 1e-10, 1 - 1e-13, 1 - 1e-15, math.Nextafter(1, 0)}
		for j := 0; j < 12; j++ {
			ps = append(ps, math.Pow(10, -r.Float()*307))
		}
		sort.Float64s(ps)
		X, C := make([]float64, len(ps)), make([]float64, len(ps))
		ok := guard("ninvtail", func() {
			for j, p := range ps {
				X[j] = d.InvCDF(p)
				C[j] = d.CDF(X[j])
			}
		})
		hx.Printf("case %d kind=ninvtail mu=%s sigma=%s ps=%s X=%s C=%s tag=ninvtail+%s\n", id, fb(mu), fb(sigma), fbList(ps), fbList(X), fbList(C), tag)
		if ok {
			hx.Printf("sobs %d finite=ok mono=ok roundtrip=ok\n", id)
		}
		id++
	}
}
