//go:build verif

// C12 harness: internal/stats descriptive statistics, t-tests, distributions.
//
//	kind=descr   Mean/Variance/StdDev/GeoMean/Bounds/Percentile/IQR on generated samples
//	kind=ttest   the four t-tests on (n, mean, variance) triples and on real samples
//	kind=betacf  continued fraction / incomplete beta (bit-exact model) and symmetry
//	kind=tcdf / ncdf / inv / sweep   distribution grids (numerical search layer)
package main

import (
	"fmt"
	"math"
	"os"
	"strconv"
	"strings"
	"time"

	"golang.org/x/perf/internal/verifh/hx"
)

var (
	id      int
	shard   int
	nshards = 1
)

func fb(f float64) string {
	if math.IsNaN(f) {
		return "nan"
	}
	return hx.F64(f)
}

func fbList(xs []float64) string {
	if len(xs) == 0 {
		return "-"
	}
	p := make([]string, len(xs))
	for i, x := range xs {
		p[i] = fb(x)
	}
	return strings.Join(p, ",")
}

// guard runs f under a watchdog and turns a panic OR a hang of the real code into a crash line
// for the current case ("never panics / never hangs"). f runs in its own goroutine; after
// guardLimit the case is abandoned (the goroutine cannot be killed; after three hangs of the same
// kind further cases of that kind are skipped and reported as crashes as well).
const guardLimit = 10 * time.Second

var hung = map[string]int{}

func guard(what string, f func()) (ok bool) {
	if hung[what] >= 3 {
		hx.Printf("crash %d %s: skipped after repeated hangs\n", id, what)
		return false
	}
	done := make(chan string, 1)
	go func() {
		defer func() {
			if e := recover(); e != nil {
				done <- strings.ReplaceAll(fmt.Sprint(e), "\n", " ")
				return
			}
			done <- ""
		}()
		f()
	}()
	select {
	case msg := <-done:
		if msg != "" {
			hx.Printf("crash %d %s: %s\n", id, what, msg)
			return false
		}
		return true
	case <-time.After(guardLimit):
		hung[what]++
		hx.Printf("crash %d %s: no answer within %v (hang)\n", id, what, guardLimit)
		return false
	}
}

// per divides a budget between the shards.
func per(n int) int {
	m := n / nshards
	if m < 1 {
		m = 1
	}
	return m
}

func main() {
	defer hx.Flush()
	shard, _ = strconv.Atoi(os.Getenv("VERIF_SHARD"))
	if n, err := strconv.Atoi(os.Getenv("VERIF_NSHARDS")); err == nil && n > 0 {
		nshards = n
	}
	r := hx.NewRand(uint64(1200 + 7919*shard))
	only := os.Getenv("VERIF_C12_ONLY")
	want := func(k string) bool { return only == "" || strings.Contains(only, k) }
	if want("descr") {
		descrCorpus()
		descrCases(r, per(hx.N(700, 12000)))
	}
	if want("wdescr") {
		wdescrCases(r, per(hx.N(400, 6000)))
	}
	if want("ttest") {
		ttestCases(r, per(hx.N(700, 12000)))
	}
	if want("beta") {
		betaCases(r, per(hx.N(500, 6000)))
	}
	if want("dist") {
		distCases(r)
	}
	if want("inv") {
		invCases(r, per(hx.N(300, 4000)))
	}
	if want("reuse") {
		reuseCases(r)
	}
	if want("ninv") {
		ninvCases(r, per(hx.N(200, 4000)))
		ninvTailCases(r, per(hx.N(40, 800)))
	}
	if want("sweep") {
		sweepCases()
		sweepExtreme()
	}
}
