//go:build verif

package main

import (
	"math"
	"sort"

	"golang.org/x/perf/internal/stats"
	"golang.org/x/perf/internal/verifh/hx"
)

// Distributions whose CDF uses only + - * / and comparisons, so that the float64 instance of the
// model evaluates them bit for bit; the generic stats.InvCDF (bracketing + bisectBool) runs on them.

type uniDist struct{ a, b float64 }

func (u uniDist) CDF(x float64) float64 {
	if x < u.a {
		return 0
	} else if x > u.b {
		return 1
	}
	return (x - u.a) / (u.b - u.a)
}
func (u uniDist) Bounds() (float64, float64) { return u.a, u.b }

// sigDist: F(x) = 1/2 + x/(2(1+|x|)), infinite support, heavy tails
type sigDist struct{ s float64 }

func (d sigDist) CDF(x float64) float64 {
	z := x / d.s
	return 0.5 + z/(2*(1+math.Abs(z)))
}
func (d sigDist) Bounds() (float64, float64) { return -4 * d.s, 4 * d.s }

// stepDist: discrete, mass 1/n at each point
type stepDist struct{ pts []float64 }

func (d stepDist) CDF(x float64) float64 {
	c := 0
	for _, p := range d.pts {
		if p <= x {
			c++
		}
	}
	return float64(c) / float64(len(d.pts))
}
func (d stepDist) Bounds() (float64, float64) { return d.pts[0], d.pts[len(d.pts)-1] }

func invCases(r *hx.Rand, n int) {
	for i := 0; i < n; i++ {
		var d stats.DistCommon
		var params, tag string
		switch r.Intn(3) {
		case 0:
			a := (r.Float() - 0.5) * math.Pow(10, r.Float()*6-2)
			w := math.Pow(10, r.Float()*6-3)
			d = uniDist{a, a + w}
			params = "dist=uni a=" + fb(a) + " b=" + fb(a+w)
			tag = "uniform"
		case 1:
			s := math.Pow(10, r.Float()*6-3)
			d = sigDist{s}
			params = "dist=sig s=" + fb(s)
			tag = "sigmoid"
		default:
			k := 1 + r.Intn(6)
			pts := make([]float64, k)
			for j := range pts {
				pts[j] = float64(r.Intn(41)-20) / 4
			}
			sort.Float64s(pts)
			d = stepDist{pts}
			params = "dist=step pts=" + fbList(pts)
			tag = "step"
		}
		var y float64
		switch r.Intn(8) {
		case 0:
			y = 0
			tag += "+y0"
		case 1:
			y = 1
			tag += "+y1"
		case 2:
			y = float64(r.Intn(7)) / 6
			tag += "+atstep"
		case 3:
			y = hx.Pick(r, []float64{-0.5, 1.5, 1e-300, 1 - 1e-16, 1e-17})
			tag += "+extreme"
		default:
			y = r.Float()
		}
		var x float64
		ok := guard("invcdf", func() { x = stats.InvCDF(d)(y) })
		gx := fb(x)
		if !ok {
			gx = "crash"
		}
		hx.Printf("case %d kind=inv %s y=%s gx=%s tag=%s\n", id, params, fb(y), gx, tag)
		if ok {
			hx.Printf("obs %d x=%s\n", id, fb(x))
			hx.Printf("sobs %d inverts=ok\n", id)
		}
		id++
	}
}
