//go:build verif

package main

import "math"

// window hands the real code a slice that is a WINDOW of a larger backing array with spare
// capacity on both sides (sentinel NaN payloads around it), and afterwards tells whether the
// window (values AND order) and the sentinels are bit-identical to what went in: no function of
// the package may sort, overwrite or append to its caller's data.
type window struct {
	backing []float64
	snap    []uint64
}

const winPad = 3

func newWindow(vals []float64) (*window, []float64) {
	b := make([]float64, len(vals)+2*winPad)
	for i := range b {
		b[i] = math.Float64frombits(0x7ff8dead00000000 + uint64(i))
	}
	copy(b[winPad:], vals)
	w := &window{backing: b, snap: make([]uint64, len(b))}
	for i, v := range b {
		w.snap[i] = math.Float64bits(v)
	}
	// len = len(vals), cap reaches over the trailing sentinels (an append would overwrite them)
	return w, b[winPad : winPad+len(vals)]
}

func (w *window) kept() bool {
	for i, v := range w.backing {
		if math.Float64bits(v) != w.snap[i] {
			return false
		}
	}
	return true
}

func sameBits(a, b []float64) bool {
	if len(a) != len(b) {
		return false
	}
	for i := range a {
		if math.Float64bits(a[i]) != math.Float64bits(b[i]) && !(math.IsNaN(a[i]) && math.IsNaN(b[i])) {
			return false
		}
	}
	return true
}

func b2s(ok bool, yes, no string) string {
	if ok {
		return yes
	}
	return no
}
