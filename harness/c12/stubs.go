//go:build verif

package main

import "golang.org/x/perf/internal/verifh/hx"

func ttestCases(r *hx.Rand, n int) {}
func betaCases(r *hx.Rand, n int)  {}
func distCases(r *hx.Rand)         {}
func invCases(r *hx.Rand, n int)   {}
func sweepCases()                  {}
