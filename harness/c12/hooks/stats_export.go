//go:build verif

package stats

// Export hooks for the C12 correspondence harness (injected with -overlay; never committed).

func VerifC12Betacf(x, a, b float64) float64  { return betacf(x, a, b) }
func VerifC12BetaInc(x, a, b float64) float64 { return mathBetaInc(x, a, b) }
func VerifC12Lgamma(x float64) float64        { return lgamma(x) }
func VerifC12BisectBool(f func(float64) bool, low, high, xtol float64) (float64, float64) {
	return bisectBool(f, low, high, xtol)
}
