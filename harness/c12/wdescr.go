//go:build verif

package main

import (
	"math"
	"sort"

	"golang.org/x/perf/internal/stats"
	"golang.org/x/perf/internal/verifh/hx"
)

// Weighted samples (Sample.Weights != nil): Mean, GeoMean, Bounds and the (non-interpolating)
// weighted Percentile. Weights are small dyadic numbers and the percentile arguments multiples of
// 1/64, so that W = Σw, W·p and every partial subtraction are exact in float64 and the weighted
// percentile must agree EXACTLY with its definition (smallest x whose cumulative weight exceeds W·p).
var wChoices = []float64{0, 0, 1, 1, 1, 2, 3, 0.5, 0.25, 1.5}

type byX struct{ xs, ws []float64 }

func (p byX) Len() int           { return len(p.xs) }
func (p byX) Less(i, j int) bool { return p.xs[i] < p.xs[j] }
func (p byX) Swap(i, j int) {
	p.xs[i], p.xs[j] = p.xs[j], p.xs[i]
	p.ws[i], p.ws[j] = p.ws[j], p.ws[i]
}

func wdescrOne(xs, ws []float64, sorted bool, tag string) {
	wdescrOneF(xs, ws, sorted, false, tag)
}

// fuzzy: decimal (inexact) weights and percentile arguments next to 1, where total*p and the running
// subtraction round; the spec then accepts any value the definition gives for p -+ 1e-9.
func wdescrOneF(xs, ws []float64, sorted, fuzzy bool, tag string) {
	if sorted {
		sort.Stable(byX{xs, ws})
	}
	ps := []float64{-0.25, 0, 1.0 / 64, 0.125, 0.25, 0.375, 0.5, 0.625, 0.75, 0.875, 63.0 / 64, 1, 1.5}
	if fuzzy {
		ps = []float64{0, 0.1, 0.3, 0.5, 0.7, 0.9, 1 - 1e-14, 1 - 1e-15, math.Nextafter(1, 0), 1}
	}
	winX, xv := newWindow(xs)
	winW, wv := newWindow(ws)
	s := stats.Sample{Xs: xv, Weights: wv, Sorted: sorted}
	again := true
	var mean, geo, mn, mx float64
	pct := make([]float64, len(ps))
	ok := guard("wdescr", func() {
		mean = s.Mean()
		geo = s.GeoMean()
		mn, mx = s.Bounds()
		for i, p := range ps {
			pct[i] = s.Percentile(p)
		}
		pct2 := make([]float64, len(ps))
		for i := len(ps) - 1; i >= 0; i-- {
			pct2[i] = s.Percentile(ps[i])
		}
		mn2, mx2 := s.Bounds()
		again = sameBits(append([]float64{mean, geo, mn, mx}, pct...), append([]float64{s.Mean(), s.GeoMean(), mn2, mx2}, pct2...))
	})
	// weighted Variance / StdDev are documented as not implemented: they must refuse (panic), never
	// silently answer with the unweighted value
	unimpl := func(f func() float64) string {
		res := "unimpl"
		func() {
			defer func() { recover() }()
			res = fb(f())
		}()
		return res
	}
	wvar, wsd := unimpl(s.Variance), unimpl(s.StdDev)
	sf, fz := 0, 0
	if sorted {
		sf = 1
	}
	if fuzzy {
		fz = 1
	}
	// tables for the float64 model of the weighted GeoMean: log of every x, exp of the weighted
	// log-mean (computed by the real weighted Mean over the logs)
	lx := make([]float64, len(xs))
	for i, x := range xs {
		lx[i] = math.Log(x)
	}
	var mlog float64
	guard("wdescr", func() { mlog = stats.Sample{Xs: lx, Weights: ws}.Mean() })
	hx.Printf("case %d kind=wdescr xs=%s ws=%s sorted=%d fuzzy=%d lx=%s mlog=%s emlog=%s wvar=%s wsd=%s ps=%s gmean=%s ggeo=%s gmin=%s gmax=%s gpct=%s kept=%s again=%s tag=%s\n",
		id, fbList(xs), fbList(ws), sf, fz, fbList(lx), fb(mlog), fb(math.Exp(mlog)), wvar, wsd, fbList(ps), fb(mean), fb(geo), fb(mn), fb(mx), fbList(pct), b2s(winX.kept() && winW.kept(), "1", "0"), b2s(again, "1", "0"), tag)
	if ok {
		// K: the float64 instance of the weighted model (Model/Stats/Weighted.lean), bit for bit
		hx.Printf("obs %d mean=%s geo=%s min=%s max=%s pct=%s\n", id, fb(mean), fb(geo), fb(mn), fb(mx), fbList(pct))
		hx.Printf("sobs %d mean=ok geo=ok bounds=ok pct=ok unimpl=ok in=kept again=same\n", id)
	}
	id++
}

func wdescrCases(r *hx.Rand, n int) {
	if shard == 0 {
		// fixed: zero weights at the ends and inside; the witnesses of F26 (leading zero weight; all weights zero)
		wdescrOne([]float64{1, 2, 3}, []float64{1, 0, 1}, true, "weighted+corpus")
		wdescrOne([]float64{1, 2, 3, 4}, []float64{1, 2, 0, 0}, true, "weighted+corpus+trailingzero")
		wdescrOne([]float64{3, 1, 2}, []float64{1, 0.5, 2}, false, "weighted+corpus")
		wdescrOne([]float64{1, 2, 3}, []float64{0, 1, 1}, true, "weighted+corpus+leadingzero")
		wdescrOne([]float64{1, 2, 3}, []float64{0, 0, 0}, true, "weighted+corpus+allzero")
		wdescrOne([]float64{-1, 2, 3}, []float64{0, 1, 1}, false, "weighted+corpus+leadingzero")
		wdescrOneF([]float64{1, 2, 3}, []float64{1.8, 0.8, 2.2}, true, true, "weighted+corpus+fallthrough")
	}
	for i := 0; i < n; i++ {
		k := 1 + r.Intn(12)
		xs := make([]float64, k)
		ws := make([]float64, k)
		tag := "weighted"
		pos := r.Chance(2, 3)
		for j := range xs {
			xs[j] = float64(r.Intn(4001)-2000) / 16
			if pos {
				xs[j] = float64(1+r.Intn(4000)) / 16
			}
			ws[j] = hx.Pick(r, wChoices)
		}
		if r.Chance(1, 8) {
			for j := range ws {
				ws[j] = 0
			}
			tag += "+allzero"
		}
		sorted := r.Bool()
		if sorted {
			tag += "+sorted"
		}
		if ws[0] == 0 && !sorted {
			tag += "+leadingzero"
		}
		if r.Chance(1, 4) {
			// decimal weights: the fall-through of the weighted percentile loop is reachable
			// (e.g. weights 1.8, 0.8, 2.2 at p = 1 - 2^-53)
			for j := range ws {
				ws[j] = float64(1+r.Intn(30)) / 10
			}
			wdescrOneF(xs, ws, sorted, true, tag+"+decimalweights")
			continue
		}
		wdescrOne(xs, ws, sorted, tag)
	}
}
