//go:build verif

package main

import (
	"sort"

	"golang.org/x/perf/internal/stats"
	"golang.org/x/perf/internal/verifh/hx"
)

// Weighted samples (Sample.Weights != nil): Mean, GeoMean, Bounds and the (non-interpolating)
// weighted Percentile. Weights are small dyadic numbers and the percentile arguments multiples of
// 1/64, so that W = Σw, W·p and every partial subtraction are exact in float64 and the weighted
// percentile must agree EXACTLY with its definition (smallest x whose cumulative weight exceeds W·p).
var wChoices = []float64{0, 0, 1, 1, 1, 2, 3, 0.5, 0.25, 1.5}

type byX struct{ xs, ws []float64 }

func (p byX) Len() int           { return len(p.xs) }
func (p byX) Less(i, j int) bool { return p.xs[i] < p.xs[j] }
func (p byX) Swap(i, j int) {
	p.xs[i], p.xs[j] = p.xs[j], p.xs[i]
	p.ws[i], p.ws[j] = p.ws[j], p.ws[i]
}

func wdescrOne(xs, ws []float64, sorted bool, tag string) {
	if sorted {
		sort.Stable(byX{xs, ws})
	}

	ps := []float64{-0.25, 0, 1.0 / 64, 0.125, 0.25, 0.375, 0.5, 0.625, 0.75, 0.875, 63.0 / 64, 1, 1.5}
	s := stats.Sample{Xs: xs, Weights: ws, Sorted: sorted}
	var mean, geo, mn, mx float64
	pct := make([]float64, len(ps))
	ok := guard("wdescr", func() {
		mean = s.Mean()
		geo = s.GeoMean()
		mn, mx = s.Bounds()
		for i, p := range ps {
			pct[i] = s.Percentile(p)
		}
	})
	sf := 0
	if sorted {
		sf = 1
	}
	hx.Printf("case %d kind=wdescr xs=%s ws=%s sorted=%d ps=%s gmean=%s ggeo=%s gmin=%s gmax=%s gpct=%s tag=%s\n",
		id, fbList(xs), fbList(ws), sf, fbList(ps), fb(mean), fb(geo), fb(mn), fb(mx), fbList(pct), tag)
	if ok {
		hx.Printf("sobs %d mean=ok geo=ok bounds=ok pct=ok\n", id)
	}
	id++
}

func wdescrCases(r *hx.Rand, n int) {
	if shard == 0 {
		// fixed: zero weights at the ends and inside; the witnesses of F26 (leading zero weight; all weights zero)
		wdescrOne([]float64{1, 2, 3}, []float64{1, 0, 1}, true, "weighted+corpus")
		wdescrOne([]float64{1, 2, 3, 4}, []float64{1, 2, 0, 0}, true, "weighted+corpus+trailingzero")
		wdescrOne([]float64{3, 1, 2}, []float64{1, 0.5, 2}, false, "weighted+corpus")
		wdescrOne([]float64{1, 2, 3}, []float64{0, 1, 1}, true, "weighted+corpus+leadingzero")
		wdescrOne([]float64{1, 2, 3}, []float64{0, 0, 0}, true, "weighted+corpus+allzero")
		wdescrOne([]float64{-1, 2, 3}, []float64{0, 1, 1}, false, "weighted+corpus+leadingzero")
	}
	for i := 0; i < n; i++ {
		k := 1 + r.Intn(12)
		xs := make([]float64, k)
		ws := make([]float64, k)
		tag := "weighted"
		pos := r.Chance(2, 3)
		for j := range xs {
			xs[j] = float64(r.Intn(4001)-2000) / 16
			if pos {
				xs[j] = float64(1+r.Intn(4000)) / 16
			}
			ws[j] = hx.Pick(r, wChoices)
		}
		if r.Chance(1, 8) {
			for j := range ws {
				ws[j] = 0
			}
			tag += "+allzero"
		}
		sorted := r.Bool()
		if sorted {
			tag += "+sorted"
		}
		if ws[0] == 0 && !sorted {
			tag += "+leadingzero"
		}
		wdescrOne(xs, ws, sorted, tag)
	}
}
