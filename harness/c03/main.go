//go:build verif

// C03 harness: numeric text → float64 / int.
//
// Every `line` case is a pair (iteration-count text, measurement text) that is run
//   - through the public API: benchfmt.NewReader on the one-line input "BenchmarkX <iters> <num> u"
//   - through the internal stages directly: bytesconv.ParseFloat/Atoi/ParseInt/ParseUint, the reader's
//     atof, underscoreOK, special, readFloat, atof64exact, atofHex (export hooks)
//   - through strconv.ParseFloat / strconv.Atoi, the property's own oracle.
//
// obs lines are compared with the Lean model, sobs lines with the Lean specification.
package main

import (
	"bytes"
	"fmt"
	"math"
	"math/big"
	"os"
	"strconv"
	"strings"
	"sync"
	"time"

	"golang.org/x/perf/benchfmt"
	"golang.org/x/perf/benchfmt/internal/bytesconv"
	"golang.org/x/perf/internal/verifh/hx"
)

var id int

// sharding: every shard generates the same case stream and runs the cases with id % nshards == shard
var shard, nshards = func() (int, int) {
	a, _ := strconv.Atoi(os.Getenv("VERIF_SHARD"))
	b, _ := strconv.Atoi(os.Getenv("VERIF_NSHARDS"))
	if b < 1 {
		b = 1
	}
	return a, b
}()

func mine(i int) bool { return i%nshards == shard }

func canon(f float64) string {
	if math.IsNaN(f) {
		return "7ff8000000000001"
	}
	return hx.F64(f)
}

func errKind(err error) string {
	if err == nil {
		return "ok"
	}
	var e error = err
	switch ne := err.(type) {
	case *bytesconv.NumError:
		e = ne.Err
		if e == bytesconv.ErrSyntax {
			return "syntax"
		}
		if e == bytesconv.ErrRange {
			return "range"
		}
	case *strconv.NumError:
		e = ne.Err
		if e == strconv.ErrSyntax {
			return "syntax"
		}
		if e == strconv.ErrRange {
			return "range"
		}
	}
	return "other" + hx.HexS(e.Error())
}

func b01(b bool) int {
	if b {
		return 1
	}
	return 0
}

// specVal renders (value, error) in the vocabulary of the specification.
func specVal(f float64, err error) string {
	if k := errKind(err); k != "ok" {
		return "!" + k
	}
	return canon(f)
}

// specInt: an integer parser reports the FIRST problem it meets scanning left to right, so whether a
// text that is both too long and malformed is "range" or "syntax" is an artefact of the scan order
// (and differs between this copy and today's strconv: "3096996195981140757120_"). The property only
// says "rejected", so the specification vocabulary has one rejection class for integers.
func specInt(n int, err error) string {
	if k := errKind(err); k != "ok" {
		return "!reject"
	}
	return strconv.Itoa(n)
}

// renderRec renders one record the reader delivered.
func renderRec(recAny benchfmt.Record) string {
	switch rec := recAny.(type) {
	case *benchfmt.Result:
		if len(rec.Values) != 1 {
			return fmt.Sprintf("result:nvalues=%d", len(rec.Values))
		}
		v := rec.Values[0]
		s := fmt.Sprintf("ok:iters=%d:val=%s", rec.Iters, canon(v.Value))
		if v.Unit != "u" || v.OrigUnit != "" {
			s += ":unit=" + hx.HexS(v.Unit) + ":orig=" + hx.HexS(v.OrigUnit)
		}
		if string(rec.Name) != "X" {
			s += ":name=" + hx.Hex(rec.Name)
		}
		return s
	case *benchfmt.SyntaxError:
		var m string
		switch rec.Msg {
		case "parsing iteration count: invalid syntax":
			m = "iters-syntax"
		case "parsing iteration count: value out of range":
			m = "iters-range"
		case "parsing measurement: invalid syntax":
			m = "val-syntax"
		case "parsing measurement: value out of range":
			m = "val-range"
		default:
			m = "msg" + hx.HexS(rec.Msg)
		}
		return fmt.Sprintf("err:%s:file=%s:line=%d", m, rec.FileName, rec.Line)
	default:
		return fmt.Sprintf("other:%T", rec)
	}

	return "?"
}

// readLine runs the public reader on the one-line file and renders what it delivers.
func readLine(iters, num []byte) string {
	var buf bytes.Buffer
	buf.WriteString("BenchmarkX ")
	buf.Write(iters)
	buf.WriteByte(' ')
	buf.Write(num)
	buf.WriteString(" u\n")
	r := benchfmt.NewReader(bytes.NewReader(buf.Bytes()), "f")
	var out []string
	for r.Scan() {
		out = append(out, renderRec(r.Result()))
	}
	if err := r.Err(); err != nil {
		out = append(out, "ioerr")
	}
	if len(out) == 0 {
		return "none"
	}
	return strings.Join(out, ",")
}

func lineCase(iters, num string, tag string, withSpec bool) {
	lineCaseRd(iters, num, tag, withSpec, "")
}

// lineCaseRd: as lineCase, but `rdStream` (if not empty) is what ONE long-lived Reader delivered for
// this line inside a larger file (family `stream`), instead of a fresh Reader on the one-line file.
func lineCaseRd(iters, num string, tag string, withSpec bool, rdStream string) {
	myid := id
	id++
	if !mine(myid) {
		return
	}
	ib, nb := []byte(iters), []byte(num)
	run(myid, func() string {
		return fmt.Sprintf("case %d kind=line iters=%s num=%s spec=%d tag=%s+hang\n", myid, hx.HexS(iters), hx.HexS(num), b01(withSpec), tag)
	}, func(p func(string, ...any)) {
		ib0, nb0 := append([]byte(nil), ib...), append([]byte(nil), nb...)
		// mechanisms reached
		mant, exp, neg, trunc, hex, ok := bytesconv.VerifReadFloat(nb)
		pf, pferr := bytesconv.ParseFloat(nb, 64)
		cls := errKind(pferr)
		if cls == "ok" {
			_, sp := bytesconv.VerifSpecial(nb)
			_, ex := bytesconv.VerifAtof64Exact(mant, exp, neg)
			switch {
			case sp:
				cls = "special"
			case hex:
				cls = "hex"
			case allDigits(nb):
				cls = "int"
			case ok && !trunc && ex:
				cls = "exact"
			default:
				cls = "slow"
			}
		}
		if strings.HasPrefix(cls, "other") {
			cls = "other"
		}
		p("case %d kind=line iters=%s num=%s spec=%d tag=%s+%s\n", myid, hx.HexS(iters), hx.HexS(num), b01(withSpec), tag, cls)

		rd := rdStream
		if rd == "" {
			rd = readLine(ib, nb)
		}
		p("obs %d rd=%s\n", myid, rd)

		ra, raerr := benchfmt.VerifAtofC03(nb)
		ai, aierr := bytesconv.Atoi(ib)
		pi, pierr := bytesconv.ParseInt(ib, 10, 0)
		pu, puerr := bytesconv.ParseUint(ib, 10, 64)
		p("obs %d pf=%s:%s ra=%s:%s ai=%d:%s pi=%d:%s pu=%d:%s uok=%d\n", myid,
			canon(pf), errKind(pferr), canon(ra), errKind(raerr), ai, errKind(aierr), pi, errKind(pierr), pu, errKind(puerr),
			b01(bytesconv.VerifUnderscoreOK(nb)))
		spv, spok := bytesconv.VerifSpecial(nb)
		sps := "-"
		if spok {
			sps = canon(spv)
		}
		rf := fmt.Sprintf("fail:%d", b01(hex))
		exs, hxs := "-", "-"
		if ok {
			rf = fmt.Sprintf("ok:%d:%d:%d:%d:%d", mant, exp, b01(neg), b01(trunc), b01(hex))
			if hex {
				v, err := bytesconv.VerifAtofHex(nb, mant, exp, neg, trunc)
				hxs = canon(v) + ":" + errKind(err)
			} else if v, ok := bytesconv.VerifAtof64Exact(mant, exp, neg); ok {
				exs = canon(v)
			}
		}
		p("obs %d sp=%s rf=%s ex=%s hx=%s\n", myid, sps, rf, exs, hxs)
		// the multiprecision slow path alone (d.set + floatBits), whatever path atof64 took; chk=ok is the
		// driver's self-check "mirrored slow path = specified slow path" (a model error shows as a K diff)
		sb, sovf, sok, strunc := bytesconv.VerifSlowPath(nb)
		sl := "syntax"
		if sok {
			sl = canon(math.Float64frombits(sb)) + ":" + map[bool]string{false: "ok", true: "range"}[sovf] + ":" + strconv.Itoa(b01(strunc))
		}
		p("obs %d sl=%s chk=ok pfm=%s:%s ram=%s:%s\n", myid, sl, canon(pf), errKind(pferr), canon(ra), errKind(raerr))

		if withSpec {
			srd := strings.Replace(strings.Replace(rd, "err:iters-syntax", "err:iters", 1), "err:iters-range", "err:iters", 1)
			p("sobs %d impl rd=%s\n", myid, srd)
			sf, sferr := strconv.ParseFloat(num, 64)
			si, sierr := strconv.Atoi(iters)
			p("sobs %d strconv val=%s iters=%s\n", myid, specVal(sf, sferr), specInt(si, sierr))
			p("sobs %d direct val=%s ratof=%s iters=%s\n", myid, specVal(pf, pferr), specVal(ra, raerr), specInt(ai, aierr))
		}
		// aliasing: no call may have written into its input, and nothing that was returned (the
		// errors quote the text) may depend on the caller's buffer afterwards
		in := "kept"
		if !bytes.Equal(ib, ib0) || !bytes.Equal(nb, nb0) {
			in = "CHANGED"
		}
		errText := func() string {
			t := ""
			for _, e := range []error{pferr, raerr, aierr, pierr, puerr} {
				if e != nil {
					t += e.Error()
				}
				t += "|"
			}
			return t
		}
		before := errText()
		for i := range nb {
			nb[i] ^= 0xA5
		}
		for i := range ib {
			ib[i] ^= 0xA5
		}
		if errText() == before {
			in += ":stable"
		} else {
			in += ":UNSTABLE"
		}
		p("obs %d in=%s\n", myid, in)
		if withSpec {
			p("sobs %d in=%s\n", myid, in)
		}
	})
}

// run executes one case's calls into the real code under a watchdog ("never panics, never hangs").
// The body writes its lines through p into a private buffer that is printed when the body returns.
// A panic becomes a `crash` line; so does a hang: after guardLimit the case is abandoned (its
// goroutine cannot be killed), the case line is printed with the tag `hang` and a `crash` line
// follows, so that check.py has a failing input to replay. After three hangs the remaining cases
// are not run any more (each would leave another spinning goroutine).
const guardLimit = 5 * time.Second

var hangs int

func run(myid int, fallbackCase func() string, body func(p func(string, ...any))) {
	if hangs >= 3 {
		// not run: only the case line (the missing observations show up as K differences; the
		// failing inputs are the three cases that hung)
		hx.Printf("%s", strings.Replace(fallbackCase(), "+hang\n", "+notrun\n", 1))
		return
	}
	type result struct {
		out   []byte
		panic string
	}
	done := make(chan result, 1)
	go func() {
		var b bytes.Buffer
		p := func(format string, a ...any) { fmt.Fprintf(&b, format, a...) }
		defer func() {
			if r := recover(); r != nil {
				done <- result{b.Bytes(), strings.ReplaceAll(fmt.Sprint(r), "\n", " ")}
				return
			}
			done <- result{b.Bytes(), ""}
		}()
		body(p)
	}()
	select {
	case res := <-done:
		if res.panic != "" && !bytes.HasPrefix(res.out, []byte("case ")) {
			hx.Printf("%s", fallbackCase())
		}
		hx.Out.Write(res.out)
		if res.panic != "" {
			hx.Printf("crash %d panic: %s\n", myid, res.panic)
		}
	case <-time.After(guardLimit):
		hangs++
		hx.Printf("%s", fallbackCase())
		hx.Printf("crash %d hang: no answer from the real code within %v\n", myid, guardLimit)
		hx.Flush()
	}
}

func allDigits(b []byte) bool {
	if len(b) == 0 {
		return false
	}
	for _, c := range b {
		if c < '0' || c > '9' {
			return false
		}
	}
	return true
}

// ---------------------------------------------------------------- direct stage cases

func exactCase(mant uint64, exp int, neg bool) {
	myid := id
	id++
	if !mine(myid) {
		return
	}
	run(myid, func() string {
		return fmt.Sprintf("case %d kind=exact mant=%d exp=%d neg=%d tag=exactd\n", myid, mant, exp, b01(neg))
	}, func(p func(string, ...any)) {
		p("case %d kind=exact mant=%d exp=%d neg=%d tag=exactd\n", myid, mant, exp, b01(neg))
		v, ok := bytesconv.VerifAtof64Exact(mant, exp, neg)
		if ok {
			p("obs %d ex=%s\n", myid, canon(v))
			p("sobs %d ex=%s\n", myid, canon(v))
		} else {
			p("obs %d ex=-\n", myid)
		}
	})
}

func hexCase(mant uint64, exp int, neg, trunc bool) {
	myid := id
	id++
	if !mine(myid) {
		return
	}
	run(myid, func() string {
		return fmt.Sprintf("case %d kind=hexd mant=%d exp=%d neg=%d trunc=%d tag=hexd\n", myid, mant, exp, b01(neg), b01(trunc))
	}, func(p func(string, ...any)) {
		p("case %d kind=hexd mant=%d exp=%d neg=%d trunc=%d tag=hexd\n", myid, mant, exp, b01(neg), b01(trunc))
		v, err := bytesconv.VerifAtofHex(nil, mant, exp, neg, trunc)
		p("obs %d hx=%s:%s\n", myid, canon(v), errKind(err))
		if !trunc {
			p("sobs %d hx=%s\n", myid, specVal(v, err))
		}
	})
}

// rintCase: the rounding step of the decimal slow path (decimal.RoundedInteger / shouldRoundUp).
func rintCase(digits string, dp int, trunc bool) {
	myid := id
	id++
	if !mine(myid) {
		return
	}
	run(myid, func() string {
		return fmt.Sprintf("case %d kind=rint d=%s dp=%d trunc=%d tag=rint\n", myid, hexOrDash([]byte(digits)), dp, b01(trunc))
	}, func(p func(string, ...any)) {
		ds := "-"
		if digits != "" {
			ds = hx.HexS(digits)
		}
		p("case %d kind=rint d=%s dp=%d trunc=%d tag=rint\n", myid, ds, dp, b01(trunc))
		n, up := bytesconv.VerifRoundedInteger([]byte(digits), dp, trunc)
		p("obs %d n=%d up=%d\n", myid, n, b01(up))
		// S: a trimmed, untruncated decimal whose integer part fits is rounded half-even
		if !trunc && dp >= 0 && dp <= 19 && (digits == "" || digits[len(digits)-1] != '0') {
			p("sobs %d n=%d\n", myid, n)
		}
	})
}

// hexRoundingFamily enumerates the rounding situations of a hex float systematically:
// kept-significand width K (53 = normal, 1..52 = subnormal result) and parity × guard bit ×
// sticky pattern (none / only the lowest bit / only a middle bit / only the highest bit /
// several) × number of sticky bits S (total significant bits K+1+S up to 64) × exponent class
// (normal, the subnormal/min-normal boundary, the overflow boundary). Every combination is run
// as a direct atofHex call and as text through the reader; mantissas with more than 64 bits are
// written with digits beyond the 16th hex digit (trunc path).
func hexRoundingFamily(r *hx.Rand, reps int) {
	type shape struct{ K, S int }
	var shapes []shape
	for total := 54; total <= 64; total++ { // normal: 53 kept bits
		shapes = append(shapes, shape{53, total - 54})
	}
	for _, K := range []int{1, 2, 3, 26, 51, 52} { // subnormal results: fewer kept bits
		for _, S := range []int{0, 1, 2, 5, 10} {
			if K+1+S <= 64 {
				shapes = append(shapes, shape{K, S})
			}
		}
	}
	for rep := 0; rep < reps; rep++ {
		for _, sh := range shapes {
			for parity := 0; parity < 2; parity++ {
				for guard := 0; guard < 2; guard++ {
					for pat := 0; pat < 5; pat++ {
						var sticky uint64
						S := uint(sh.S)
						switch {
						case pat == 0 || S == 0:
							sticky = 0
						case pat == 1:
							sticky = 1
						case pat == 2:
							sticky = 1 << (S / 2)
						case pat == 3:
							sticky = 1 << (S - 1)
						default:
							sticky = r.U64() & (1<<S - 1)
						}
						if pat > 0 && S == 0 {
							continue
						}
						kept := uint64(1) << uint(sh.K-1)
						if sh.K > 1 {
							kept |= r.U64() & (1<<uint(sh.K-1) - 1)
						}
						if rep%2 == 1 && sh.K == 53 { // all ones: carry into the exponent
							kept = 1<<53 - 1
						}
						kept = kept&^1 | uint64(parity)
						if sh.K == 1 {
							kept = 1
						}
						m := kept<<(1+S) | uint64(guard)<<S | sticky
						low := 1 + int(S) // weight of the kept LSB is 2^(exp+low)
						var exps []int
						if sh.K == 53 {
							exps = []int{r.Intn(1800) - 900 - low, -1074 - low, -1075 - low, 971 - low, 970 - low}
						} else {
							exps = []int{-1074 - low}
						}
						for _, e := range exps {
							neg := r.Chance(1, 4)
							hexCase(m, e, neg, false)
							sign := ""
							if neg {
								sign = "-"
							}
							text := fmt.Sprintf("%s0x%xp%d", sign, m, e)
							if r.Chance(1, 3) { // move the point
								h := fmt.Sprintf("%x", m)
								k := r.Intn(len(h) + 1)
								text = fmt.Sprintf("%s0x%s.%sp%d", sign, h[:k], h[k:], e+4*(len(h)-k))
							}
							lineCase("1", text, "hexfam", true)
							if sh.K+1+int(S) == 64 && m>>60 != 0 { // more than 64 bits: digits beyond the 16th
								extra := hx.Pick(r, []string{"0", "1", "8", "0001", "80", "00"})
								lineCase("1", fmt.Sprintf("%s0x%x%sp%d", sign, m, extra, e-4*len(extra)), "hexfam", true)
							}
						}
					}
				}
			}
		}
	}
	// random 16-hex-digit mantissas
	for i := 0; i < 400*reps; i++ {
		m := r.U64() | 1<<63
		e := r.Intn(2200) - 1100
		hexCase(m, e, false, false)
		lineCase("1", fmt.Sprintf("0x%xp%d", m, e), "hexfam", true)
	}
}

func hexOrDash(b []byte) string {
	if len(b) == 0 {
		return "-"
	}
	return hx.Hex(b)
}

// dshiftCase: the real decimal.Shift on a decimal given by digits / dp / trunc.
func dshiftCase(digits string, dp int, trunc bool, k int) {
	myid := id
	id++
	if !mine(myid) {
		return
	}
	run(myid, func() string {
		return fmt.Sprintf("case %d kind=dshift d=%s dp=%d trunc=%d k=%d tag=dshift\n", myid, hexOrDash([]byte(digits)), dp, b01(trunc), k)
	}, func(p func(string, ...any)) {
		p("case %d kind=dshift d=%s dp=%d trunc=%d k=%d tag=dshift\n", myid, hexOrDash([]byte(digits)), dp, b01(trunc), k)
		d2, dp2, tr2 := bytesconv.VerifDecShift([]byte(digits), dp, trunc, k)
		p("obs %d d=%s dp=%d trunc=%d\n", myid, hexOrDash(d2), dp2, b01(tr2))
	})
}

// dfbCase: the real decimal.floatBits.
func dfbCase(digits string, dp int, neg, trunc bool) {
	myid := id
	id++
	if !mine(myid) {
		return
	}
	run(myid, func() string {
		return fmt.Sprintf("case %d kind=dfb d=%s dp=%d neg=%d trunc=%d tag=dfb\n", myid, hexOrDash([]byte(digits)), dp, b01(neg), b01(trunc))
	}, func(p func(string, ...any)) {
		p("case %d kind=dfb d=%s dp=%d neg=%d trunc=%d tag=dfb\n", myid, hexOrDash([]byte(digits)), dp, b01(neg), b01(trunc))
		b, ovf, tr := bytesconv.VerifDecFloatBits([]byte(digits), dp, neg, trunc)
		p("obs %d bits=%016x ovf=%d trunc=%d\n", myid, b, b01(ovf), b01(tr))
	})
}

// stateCase: the package-level state that outlives a call (run at the start AND at the end of the
// run, like the two tables: nothing may have been written to it in between)
func stateCase(all bool) {
	if all || mine(id) {
		hx.Printf("case %d kind=state tag=table\n", id)
		st := bytesconv.VerifState()
		hx.Printf("obs %d %s\n", id, st)
		hx.Printf("sobs %d %s\n", id, st)
	}
	id++
}

func cheatsCase(all bool) {
	t := bytesconv.VerifLeftCheats()
	var parts []string
	for _, e := range t {
		i := strings.IndexByte(e, ':')
		parts = append(parts, e[:i]+":"+hexOrDash([]byte(e[i+1:])))
	}
	if all || mine(id) {
		hx.Printf("case %d kind=cheats tag=table\n", id)
		hx.Printf("obs %d n=%d tab=%s\n", id, len(t), strings.Join(parts, ","))
	}
	id++
}

func randDecimalDigits(r *hx.Rand) string {
	var nd int
	switch r.Intn(10) {
	case 0:
		nd = 780 + r.Intn(21) // at the buffer's edge
	case 1:
		nd = 100 + r.Intn(600)
	case 2:
		nd = 1
	default:
		nd = 1 + r.Intn(40)
	}
	ds := []byte(randDigits(r, nd))
	if ds[0] == '0' { // a decimal never has a leading zero digit (set skips them, the shifts keep it so);
		// floatBits does not terminate on such a non-normalised zero
		ds[0] = byte('1' + r.Intn(9))
	}
	s := string(ds)
	if r.Chance(4, 5) {
		s = strings.TrimRight(s, "0")
		if s == "" {
			s = "1"
		}
	}
	if r.Chance(1, 6) { // cheat-table boundaries: digits of 5^k, one below, one above
		k := 1 + r.Intn(60)
		p := new(big.Int).Exp(big.NewInt(5), big.NewInt(int64(k)), nil)
		p.Add(p, big.NewInt(int64(r.Intn(3)-1)))
		s = p.String() + hx.Pick(r, []string{"", "", "1", "0001", "999"})
		s = strings.TrimRight(s, "0")
	}
	return s
}

func tableCase(all bool) {
	t := bytesconv.VerifPow10Table()
	var parts []string
	for _, f := range t {
		parts = append(parts, hx.F64(f))
	}
	if all || mine(id) {
		hx.Printf("case %d kind=table tag=table\n", id)
		hx.Printf("obs %d n=%d tab=%s\n", id, len(t), strings.Join(parts, ","))
	}
	id++
}

// ---------------------------------------------------------------- generators

func randDouble(r *hx.Rand) float64 {
	switch r.Intn(8) {
	case 0: // anything finite
		for {
			f := math.Float64frombits(r.U64())
			if !math.IsNaN(f) && !math.IsInf(f, 0) {
				return math.Abs(f)
			}
		}
	case 1: // subnormal
		return math.Float64frombits(r.U64() >> (12 + uint(r.Intn(52))))
	case 2: // near the top
		return math.Float64frombits(uint64(2046-r.Intn(3))<<52 | r.U64()>>12)
	case 3: // near the subnormal/normal boundary
		return math.Float64frombits(uint64(1)<<52 + uint64(r.Intn(9)) - 4)
	case 4: // human-scale
		return math.Float64frombits(uint64(1023-30+r.Intn(70))<<52 | r.U64()>>12)
	case 5: // few significant bits
		return math.Float64frombits(uint64(1023-60+r.Intn(120))<<52 | (r.U64()>>12)&^(1<<uint(r.Intn(52))-1))
	default:
		return math.Float64frombits(uint64(1+r.Intn(2046))<<52 | r.U64()>>12)
	}
}

func neighbour(f float64, k int) float64 {
	b := int64(math.Float64bits(f)) + int64(k)
	if b < 0 {
		b = 0
	}
	if b >= 0x7ff0000000000000 {
		b = 0x7fefffffffffffff
	}
	return math.Float64frombits(uint64(b))
}

// exactDecimal writes the non-negative dyadic rational m·2^e in full.
func exactDecimal(m *big.Int, e int) string {
	if e >= 0 {
		return new(big.Int).Lsh(m, uint(e)).String()
	}
	k := -e
	n := new(big.Int).Mul(m, new(big.Int).Exp(big.NewInt(5), big.NewInt(int64(k)), nil))
	s := n.String()
	if len(s) <= k {
		s = strings.Repeat("0", k-len(s)+1) + s
	}
	return s[:len(s)-k] + "." + s[len(s)-k:]
}

// halfway returns the exact decimal text of the midpoint between f and the next float up.
func halfway(f float64) string {
	b := math.Float64bits(f)
	ex := int(b>>52) & 0x7ff
	fr := b & (1<<52 - 1)
	var m uint64
	var e int
	if ex == 0 {
		m, e = fr, -1074
	} else {
		m, e = fr|1<<52, ex-1075
	}
	mid := new(big.Int).SetUint64(m)
	mid.Lsh(mid, 1).Add(mid, big.NewInt(1))
	return exactDecimal(mid, e-1)
}

func perturb(r *hx.Rand, s string) string {
	bs := []byte(s)
	// last digit
	i := len(bs) - 1
	for i >= 0 && (bs[i] < '0' || bs[i] > '9') {
		i--
	}
	if i < 0 {
		return s
	}
	frac := s
	if !strings.Contains(s, ".") {
		frac = s + "."
	}
	switch r.Intn(7) {
	case 0:
		return s
	case 6:
		// just above the written value, with the extra digit INSIDE the 800 digits decimal.go
		// keeps (places 770..800): set stores it, the multiprecision shifts then push it off the
		// buffer, and only their `trunc` flag remembers that the value is above the tie
		nd := 0
		for _, c := range frac {
			if c >= '0' && c <= '9' {
				nd++
			}
		}
		pad := 769 + r.Intn(31) - nd
		last := "1"
		if r.Bool() {
			// the extra digit on one of the last four places of the buffer, any non-zero digit: one
			// small right shift then drops a tail such as "5", "25", "125", "375" — a dropped tail
			// WITHOUT a zero digit (trunc must be set by a non-zero dropped digit, not by a zero one)
			pad = 796 + r.Intn(4) - nd
			last = string(rune('1' + r.Intn(9)))
		}
		if pad < 1 {
			pad = 1
		}
		return frac + strings.Repeat("0", pad) + last
	case 5:
		// just above the written value, but only beyond the 800 digits decimal.go keeps:
		// the slow path must remember that it truncated non-zero digits
		nd := 0
		for _, c := range frac {
			if c >= '0' && c <= '9' {
				nd++
			}
		}
		pad := 805 + r.Intn(40) - nd
		if pad < 1 {
			pad = 1
		}
		return frac + strings.Repeat("0", pad) + "1"
	case 1:
		if bs[i] < '9' {
			bs[i]++
		} else {
			return s + "1"
		}
	case 2:
		if bs[i] > '0' {
			bs[i]--
		} else {
			return s + "0"
		}
	case 3:
		return frac + "0000000000000000000000001"
	default:
		// drop the last digit and append 49999…/50000…1
		if r.Bool() {
			return string(bs[:i]) + "49999999999999999999999"
		}
		return s + "000"
	}
	return string(bs)
}

// truncTail: a tie that only the `trunc` flag of ONE small right shift can break. The value lies in
// [1, 2^27) (floatBits' first loop then shifts right by 3…27 bits once or twice), the float below
// the tie has an even mantissa (so round-half-even would go DOWN), and the text is the exact tie
// padded with zeros up to one non-zero digit on the last places (797…800) of decimal.go's 800-digit
// buffer. The shift pushes d·5^n beyond the buffer: a short dropped tail such as "5", "125", "375",
// "1875" — with or without zero digits in it — and nothing else remembers that the value is above
// the tie. Correct result: the float ABOVE the tie.
func truncTail(r *hx.Rand) string {
	f := math.Float64frombits((uint64(1023+r.Intn(27))<<52 | r.U64()>>12) &^ 1)
	s := halfway(f)
	if !strings.Contains(s, ".") {
		s += "."
	}
	nd := 0
	for _, c := range s {
		if c >= '0' && c <= '9' {
			nd++
		}
	}
	pad := 796 + r.Intn(4) - nd
	if pad < 0 {
		pad = 0
	}
	s += strings.Repeat("0", pad) + string(rune('1'+r.Intn(9)))
	if r.Chance(1, 4) {
		s = "-" + s
	}
	return s
}

// reshape moves the decimal point into an exponent, adds sign / leading zeros.
func reshape(r *hx.Rand, s string) string {
	switch r.Intn(6) {
	case 0:
		return "-" + s
	case 1:
		return "+" + s
	case 2:
		return "000" + s
	case 3: // digits e-k
		if i := strings.IndexByte(s, '.'); i >= 0 && !strings.ContainsAny(s, "eE") && (len(s) < 780 || n3Registered) {
			frac := len(s) - i - 1
			return s[:i] + s[i+1:] + "e-" + strconv.Itoa(frac)
		}
	case 4:
		if !strings.ContainsAny(s, "eE") {
			k := r.Intn(30)
			return s + "e" + hx.Pick(r, []string{"", "+", "-"}) + strconv.Itoa(k)
		}
	}
	return s
}

// n3Registered: finding N3 (more than 800 significant digits before the decimal point are mis-scaled
// by decimal.set) is generated only once known_findings.json lists it; until then such texts would
// turn every run into an unregistered violation. The model mirrors the defect either way.
// n3eRegistered: finding N3E (exponent literal >= 100000 clamped to its first five digits, visible when
// the mantissa text compensates it); same gating.
var n3eRegistered = func() bool {
	data, err := os.ReadFile(os.Getenv("VERIF_ROOT") + "/known_findings.json")
	return err == nil && bytes.Contains(data, []byte(`"id": "N3E"`))
}()

var n3Registered = func() bool {
	data, err := os.ReadFile(os.Getenv("VERIF_ROOT") + "/known_findings.json")
	return err == nil && bytes.Contains(data, []byte(`"id": "N3"`))
}()

var specialWords = []string{"inf", "infinity", "nan", "+inf", "-inf", "+infinity", "-infinity", "Inf", "NaN", "INF", "+Inf", "-Inf",
	"iNfInItY", "nAn", "+nan", "-nan", "in", "infi", "infinit", "infinityy", "nan0", "na", "++inf", "inf.", "i", "n", "+", "-", "+i", "-infinit", "infinity_", "in_f", "1nf", "nan "[:3], "INFINITY", "-INFINITY", "Infinity", "infe1", "nane1"}

func randCase(r *hx.Rand, s string) string {
	bs := []byte(s)
	for i, c := range bs {
		if r.Bool() {
			if 'a' <= c && c <= 'z' {
				bs[i] = c - 32
			} else if 'A' <= c && c <= 'Z' {
				bs[i] = c + 32
			}
		}
	}
	return string(bs)
}

func randDigits(r *hx.Rand, n int) string {
	bs := make([]byte, n)
	for i := range bs {
		bs[i] = byte('0' + r.Intn(10))
	}
	return string(bs)
}

func randHexDigits(r *hx.Rand, n int) string {
	const hd = "0123456789abcdefABCDEF"
	bs := make([]byte, n)
	for i := range bs {
		bs[i] = hd[r.Intn(len(hd))]
	}
	return string(bs)
}

func insertAt(s string, i int, ins string) string { return s[:i] + ins + s[i:] }

func genHex(r *hx.Rand) string {
	var sb strings.Builder
	sb.WriteString(hx.Pick(r, []string{"", "", "-", "+"}))
	sb.WriteString(hx.Pick(r, []string{"0x", "0X"}))
	nd := 1 + r.Intn(6)
	switch r.Intn(5) {
	case 0:
		nd = 13 + r.Intn(6) // around 16 digits
	case 1:
		nd = 17 + r.Intn(20) // truncated
	}
	ds := randHexDigits(r, nd)
	switch r.Intn(6) {
	case 0: // tie pattern: 14 digits then 8 / 80…0 / 80…01 / 7f…f
		ds = "1" + randHexDigits(r, 13) + hx.Pick(r, []string{"8", "80", "8000000000", "80000000000000000001", "7fffffffffffffffffff", "4", "c", "18", "08"})
	case 1:
		ds = strings.Repeat("0", r.Intn(20)) + ds
	case 2:
		ds = ds + strings.Repeat("0", r.Intn(20))
	}
	dot := r.Intn(len(ds) + 2)
	if dot <= len(ds) && r.Chance(2, 3) {
		ds = insertAt(ds, dot, ".")
	}
	sb.WriteString(ds)
	switch r.Intn(12) {
	case 0: // missing p exponent
	case 1:
		sb.WriteString("p")
	case 2:
		sb.WriteString("e5")
	default:
		sb.WriteString(hx.Pick(r, []string{"p", "P"}))
		sb.WriteString(hx.Pick(r, []string{"", "+", "-"}))
		switch r.Intn(4) {
		case 0:
			sb.WriteString(strconv.Itoa(r.Intn(2300)))
		case 1:
			sb.WriteString(strconv.Itoa(1000 + r.Intn(100)))
		default:
			sb.WriteString(strconv.Itoa(r.Intn(80)))
		}
	}
	return sb.String()
}

var maxNeighbourhood = []string{
	"1.7976931348623157e308", "1.7976931348623158e308", "1.7976931348623159e308", "1.797693134862315807e308",
	"1.797693134862315708145274237317043567981e308", "1.797693134862315808e308", "1.79769313486231580793728971405301e308",
	"1.79769313486231580793728971405302e308", "1.79769313486231580793728971405303e308", "1.8e308", "1e309", "2e308", "-1.7976931348623159e308",
	"17976931348623157e292", "17976931348623158e292", "17976931348623159e292", "0.17976931348623159e309",
	"179769313486231570000000000000000000000000000000000000000000000000000000000000000000000000000000000000000000000000000000000000000000000000000000000000000000000000000000000000000000000000000000000000000000000000000000000000000000000000000000000000000000000000000000000000000000000000000000000000000000000000000",
	"4.9406564584124654e-324", "2.4703282292062327e-324", "2.4703282292062328e-324", "2.4703282292062329e-324", "2.47e-324", "2.48e-324", "1e-324", "1e-323", "5e-324", "3e-324", "2e-324",
	"2.2250738585072011e-308", "2.2250738585072012e-308", "2.2250738585072014e-308", "2.2250738585072009e-308", "2.225073858507201136057409796709131975934819546351645648023426109724822222021076945516529523908135087914149158913039621106870086438694594645527657207407820621743379988141063267329253552286881372149012981122451451889849057222307285255133155755015914397476397983411801999323962548289017107081850690630666655994938275772572015763062690663332647565300009245888316433037779791869612049497390377829704905051080609940730262937128958950003583799967207254304360284078895771796150945516748243471030702609144621572289880258182545180325707018860872113128079512233426288368622321503775666622503982534335974568884423900265498198385487948292206894721689831099698365846814022854243330660339850886445804001034933970427567186443383770486037861622771738545623065874679014086723327636718751234567890123456789012345678901e-308",
}

// fixedTiny: plain fixed notation — digits, one point, digits, no exponent — for tiny values: 20 to 340
// digits after the point, of which only the last 1 to 15 (sometimes up to 25) are significant,
// with or without the leading "0". What `%.30f`, FormatFloat(x, 'f', -1, 64) and the testing package
// print for very small measurements; the region where "integer / power of ten" shortcuts stop
// being exact (10^23 and beyond are not floats; 10^309 is +Inf).
func fixedTiny(r *hx.Rand) string {
	var s string
	switch r.Intn(5) {
	case 0: // shortest fixed form of a random tiny float
		e := -(20 + r.Intn(304))
		x := (1 + 9*r.Float()) * math.Pow(10, float64(e))
		if r.Chance(1, 8) {
			x = math.Float64frombits(1 + r.U64()%(1<<uint(1+r.Intn(52)))) // subnormal
		}
		s = strconv.FormatFloat(x, 'f', -1, 64)
	case 1: // a float with few significant digits, printed in fixed form
		e := -(20 + r.Intn(300))
		nd := 1 + r.Intn(15)
		m, _ := strconv.ParseFloat(randDigits(r, nd)+"e"+strconv.Itoa(e-nd), 64)
		s = strconv.FormatFloat(m, 'f', -1, 64)
	default: // zeros, then 1..15 digits (sometimes more)
		frac := 20 + r.Intn(321)
		nd := 1 + r.Intn(15)
		if r.Chance(1, 6) {
			nd = 16 + r.Intn(10)
		}
		if nd > frac {
			nd = frac
		}
		ds := randDigits(r, nd)
		if ds[0] == '0' {
			ds = string(rune('1'+r.Intn(9))) + ds[1:]
		}
		s = "0." + strings.Repeat("0", frac-nd) + ds
		if r.Chance(1, 5) { // boundaries of the shortcut: 22/23 fraction digits, 308/309
			f := hx.Pick(r, []int{22, 23, 24, 25, 28, 308, 309, 310, 323, 324, 325})
			if nd > f {
				nd = f
				ds = ds[:nd]
			}
			s = "0." + strings.Repeat("0", f-nd) + ds
		}
	}
	if !strings.Contains(s, ".") {
		s += ".0"
	}
	if strings.HasPrefix(s, "0.") && r.Chance(1, 3) {
		s = s[1:] // ".000…"
	} else if r.Chance(1, 10) {
		s = "00" + s
	}
	if r.Chance(1, 8) {
		s = hx.Pick(r, []string{"-", "+"}) + s
	}
	if r.Chance(1, 10) {
		s += strings.Repeat("0", 1+r.Intn(4)) // trailing zeros do not change the value
	}
	return s
}

func genNum(r *hx.Rand) (string, string) {
	if r.Chance(1, 18) {
		return fixedTiny(r), "fixed"
	}
	switch r.Intn(20) {
	case 0, 1, 2: // within ±3 ulp of a random double, 17–40 significant digits
		f := neighbour(randDouble(r), r.Intn(7)-3)
		prec := 16 + r.Intn(24)
		s := strconv.FormatFloat(f, hx.Pick(r, []byte{'e', 'e', 'g', 'E'}), prec, 64)
		if r.Chance(1, 3) {
			s = reshape(r, s)
		}
		return s, "near"
	case 3, 4, 5: // exact halfway case in full, perturbed in the last digit
		if r.Chance(1, 4) {
			return truncTail(r), "tail"
		}
		f := randDouble(r)
		if r.Chance(1, 4) { // moderate magnitude: shorter text
			f = math.Float64frombits(uint64(1023-10+r.Intn(80))<<52 | r.U64()>>12)
			if r.Bool() { // [1, 2^27): floatBits' first loop makes one or two small right shifts
				f = math.Float64frombits(uint64(1023+r.Intn(27))<<52 | r.U64()>>12)
			}
		} else if r.Chance(1, 6) {
			// the float just below a power of two: the tie above it rounds UP to 2^k (even), i.e. the
			// mantissa overflows to 2^53 and floatBits takes its "rounding added a bit" branch with
			// the second overflow test (k = 1024: the tie is the overflow threshold itself)
			k := hx.Pick(r, []int{1023, 1023, 1024, 1022, 1, 0, -1, -1021, -1022, -1073, r.Intn(2098) - 1073})
			f = math.Nextafter(math.Ldexp(1, k), 0)
		}
		s := perturb(r, halfway(f))
		if r.Chance(1, 3) {
			s = reshape(r, s)
		}
		return s, "half"
	case 6: // range and subnormal boundaries
		if r.Chance(1, 3) {
			// the exact overflow threshold 2^1024 - 2^970 written out, perturbed
			t := new(big.Int).Lsh(big.NewInt(1), 1024)
			t.Sub(t, new(big.Int).Lsh(big.NewInt(1), 970))
			return perturb(r, t.String()), "max"
		}
		return hx.Pick(r, maxNeighbourhood), "max"
	case 7, 8: // 17–22 digit mantissas around the 19-digit cap
		nd := 17 + r.Intn(6)
		ds := randDigits(r, nd)
		if ds[0] == '0' && r.Bool() {
			ds = "1" + ds[1:]
		}
		switch r.Intn(4) {
		case 0:
			ds = ds[:len(ds)-2] + "00"
		case 1:
			ds = ds[:min(19, len(ds))] + strings.Repeat("0", r.Intn(8))
		}
		if r.Chance(2, 3) {
			ds = insertAt(ds, r.Intn(len(ds)+1), ".")
		}
		if r.Chance(1, 2) {
			ds += "e" + strconv.Itoa(r.Intn(60)-30)
		}
		return hx.Pick(r, []string{"", "", "-"}) + ds, "trunc"
	case 9, 10: // short mantissa, exponent −400…+400; the exact-path window
		nd := 1 + r.Intn(17)
		ds := randDigits(r, nd)
		if r.Chance(1, 2) {
			ds = insertAt(ds, r.Intn(len(ds)+1), ".")
		}
		var e int
		switch r.Intn(3) {
		case 0:
			e = r.Intn(801) - 400
		case 1:
			e = r.Intn(70) - 30
		default:
			e = hx.Pick(r, []int{-23, -22, -21, 0, 15, 21, 22, 23, 36, 37, 38, 308, 309, -308, -323, -324, -325})
		}
		return hx.Pick(r, []string{"", "", "-", "+"}) + ds + hx.Pick(r, []string{"e", "E"}) + strconv.Itoa(e), "exp"
	case 11, 12:
		return genHex(r), "hex"
	case 13, 14: // underscores in every position of an otherwise valid numeral
		var base string
		switch r.Intn(4) {
		case 0:
			base = genHex(r)
		case 1:
			base = strconv.FormatFloat(randDouble(r), 'e', 3+r.Intn(6), 64)
		case 2:
			base = randDigits(r, 1+r.Intn(6)) + "." + randDigits(r, 1+r.Intn(4))
		default:
			base = hx.Pick(r, []string{"12", "1.5e10", "0x1p4", "0x.8p1", "1e1", "0b11", "0o7", "inf", "0x1.fp-2", "-12.5", "+0x12p1", "0e0"})
		}
		n := 1 + r.Intn(2)
		for i := 0; i < n; i++ {
			base = insertAt(base, r.Intn(len(base)+1), "_")
		}
		return base, "under"
	case 15:
		w := hx.Pick(r, specialWords)
		if r.Bool() {
			w = randCase(r, w)
		}
		return w, "special"
	case 16: // near-miss garbage
		const al = "0123456789..eEpPxX+-_infatyN"
		n := 1 + r.Intn(7)
		bs := make([]byte, n)
		for i := range bs {
			bs[i] = al[r.Intn(len(al))]
		}
		if r.Chance(1, 10) {
			bs[r.Intn(n)] = byte(0x80 + r.Intn(0x40)) // a stray continuation byte is never a space
		}
		return string(bs), "garbage"
	case 17, 18: // plain integers: the reader's own fast path and its guard
		switch r.Intn(4) {
		case 0:
			return randDigits(r, 1+r.Intn(30)), "int"
		case 1:
			b := new(big.Int).Lsh(big.NewInt(1), uint(hx.Pick(r, []int{53, 63, 63, 64})))
			b.Add(b, big.NewInt(int64(r.Intn(41)-20)))
			return b.String(), "int"
		case 2:
			return "92233720368547758" + randDigits(r, r.Intn(4)), "int"
		default:
			return strings.Repeat("0", r.Intn(25)) + randDigits(r, 1+r.Intn(19)), "int"
		}
	default:
		return strconv.FormatFloat(randDouble(r), 'g', -1, 64), "short"
	}
}

func genIters(r *hx.Rand) (string, string) {
	switch r.Intn(10) {
	case 0, 1:
		return hx.Pick(r, []string{"", "", "-", "+"}) + randDigits(r, 1+r.Intn(30)), "digits"
	case 2, 3: // around 2^63, 2^64, 10^18, 10^19
		var b *big.Int
		switch r.Intn(4) {
		case 0, 1:
			b = new(big.Int).Lsh(big.NewInt(1), 63)
		case 2:
			b = new(big.Int).Lsh(big.NewInt(1), 64)
		default:
			b = new(big.Int).Exp(big.NewInt(10), big.NewInt(int64(17+r.Intn(3))), nil)
		}
		b.Add(b, big.NewInt(int64(r.Intn(21)-10)))
		return hx.Pick(r, []string{"", "-", "+"}) + b.String(), "edge"
	case 4: // leading zeros push short values onto the slow path
		return hx.Pick(r, []string{"", "-", "+"}) + strings.Repeat("0", r.Intn(25)) + randDigits(r, 1+r.Intn(20)), "zeros"
	case 5: // 17–20 digits: the length bound of the fast path
		return hx.Pick(r, []string{"", "-", "+"}) + hx.Pick(r, []string{"9", "1", "8", "92"}) + randDigits(r, 15+r.Intn(4)), "len"
	case 6:
		if r.Bool() {
			// 19 bytes or more (so Atoi leaves its fast path for ParseInt/ParseUint) but a small value
			// behind leading zeros, with one byte that is not a decimal digit: must be rejected, and
			// would fit the range if the stray byte were read as a digit
			s := strings.Repeat("0", 17+r.Intn(8)) + randDigits(r, 1+r.Intn(4))
			junk := string(hx.Pick(r, []byte("abcdefxzABCDEFXZ:/g@`{")))
			i := r.Intn(len(s) + 1)
			if r.Bool() {
				s = insertAt(s, i, junk)
			} else if i < len(s) {
				s = s[:i] + junk + s[i+1:]
			}
			return hx.Pick(r, []string{"", "", "-", "+"}) + s, "longjunk"
		}
		s := randDigits(r, 1+r.Intn(22))
		return insertAt(s, r.Intn(len(s)+1), "_"), "under"
	case 7:
		return hx.Pick(r, []string{"+", "-", "+-1", "--1", "1-", "0x10", "0X1F", "0b1", "0o7", "1e3", "1.0", "1.", ".5", "١", "1a", "a", "z", "1:", "1/", "+_1", "0_1", "1_0", "-0", "+0", "00", "-00000000000000000000", "9223372036854775807", "9223372036854775808", "-9223372036854775808", "-9223372036854775809", "18446744073709551615", "18446744073709551616", "99999999999999999999999", "999999999999999999", "1000000000000000000", "-999999999999999999", "+999999999999999999"}), "misc"
	default:
		return strconv.Itoa(1 + r.Intn(1000000)), "plain"
	}
}

// streamFamily: state carried from line to line inside ONE Reader. Files of 8–64 KiB (bufio.Scanner
// refills its 4096-byte buffer many times) made of fixed-width lines `BenchmarkX <iters> <num> u`
// whose number column holds non-integer texts of one length that recur with different neighbours:
// 10.1, 10.2, …; 0.5, 1.0, 1.5; a small pool drawn at random; a constant with rare changes. The
// whole file is read through one Reader; every line is then judged as a `line` case whose `rd=` is
// what that Reader delivered for it: each value must be the correctly rounded value of ITS OWN text.
func streamFamily(r *hx.Rand, files int) {
	for f := 0; f < files; f++ {
		iters := hx.Pick(r, []string{"1", "20", "300", "1000", "50000"})
		var pool []string
		w := 3 + r.Intn(6)
		mk := func(v float64, prec int) string { return strconv.FormatFloat(v, 'f', prec, 64) }
		kind := r.Intn(5)
		switch kind {
		case 0: // x.1, x.2, … same width
			base := float64(int(math.Pow(10, float64(w-3)))) * (1 + float64(r.Intn(8)))
			for i := 0; i < 9; i++ {
				pool = append(pool, mk(base+float64(i+1)/10, 1))
			}
		case 1:
			pool = []string{"0.5", "1.0", "1.5"}
			if r.Bool() {
				pool = []string{"0.25", "1.00", "1.75", "2.50"}
			}
		case 2: // the integers' neighbours: 100.0 / 101.75 / 4096.0 / 4128.0 …
			pool = hx.Pick(r, [][]string{{"100.00", "101.75", "100.25"}, {"4096.0", "4128.0", "4100.5"}, {"10.0", "10.1", "10.9"}, {"1e3", "2e3", "1e4"}, {"0x1p4", "0x1p5", "0x3p3"}})
		default: // random texts of one width
			n := 3 + r.Intn(5)
			for i := 0; i < n; i++ {
				d := randDigits(r, w)
				if d[0] == '0' {
					d = "1" + d[1:]
				}
				k := 1 + r.Intn(w-1)
				pool = append(pool, d[:k]+"."+d[k:])
			}
		}
		lineLen := len("BenchmarkX ") + len(iters) + 1 + len(pool[0]) + len(" u\n")
		lines := (8192 + r.Intn(57344)) / lineLen
		nums := make([]string, lines)
		for i := range nums {
			switch {
			case kind <= 1 || r.Chance(1, 3):
				nums[i] = pool[i%len(pool)] // in order: each text recurs every len(pool) lines
			case kind == 4 && !r.Chance(1, 10):
				nums[i] = pool[0]
			default:
				nums[i] = hx.Pick(r, pool)
			}
		}
		var buf bytes.Buffer
		for _, n := range nums {
			buf.WriteString("BenchmarkX " + iters + " " + n + " u\n")
		}
		// one Reader for the whole file (under the watchdog, like every call into the real code)
		rds := make([]string, 0, lines)
		okRead := false
		if hangs < 3 && mineAny(id, lines) {
			run(id, func() string {
				return fmt.Sprintf("case %d kind=line iters=%s num=%s spec=0 tag=stream+hang\n", id, hx.HexS(iters), hx.HexS(nums[0]))
			},
				func(p func(string, ...any)) {
					rd := benchfmt.NewReader(bytes.NewReader(buf.Bytes()), "f")
					for rd.Scan() {
						rds = append(rds, renderRec(rd.Result()))
					}
					okRead = rd.Err() == nil && len(rds) == lines
				})
		}
		for i, n := range nums {
			got := "none"
			if okRead {
				got = rds[i]
			}
			lineCaseRd(iters, n, "stream", true, got)
		}
	}
}

// concFamily: the conversion must be a pure function of its text also when several Readers work
// at the same time (the storage server parses uploads per request). One batch = 8 files of ~2000
// slow-path numbers each (%.17g / %.16e prints of random doubles, large exponents, subnormals, a few
// long halfway texts). Every file is first read alone through its own Reader, then all 8 are read
// again AT THE SAME TIME, one goroutine and one Reader per file. Each number whose concurrent
// reading differs from its sequential one (or on which a goroutine panicked — recovered, reported
// with the text) becomes a `line` case whose `rd=` is the concurrent result, judged against the
// correctly rounded value of its own text; so does every 16th number regardless. The number of
// cases per batch is fixed (48 slots for differences, filled with ordinary numbers when there are
// fewer), so that the case ids do not depend on the schedule.
func concFamily(r *hx.Rand, batches int) {
	const files, perFile, slots = 8, 2000, 48
	for b := 0; b < batches; b++ {
		nums := make([][]string, files)
		bufs := make([][]byte, files)
		for f := range nums {
			var buf bytes.Buffer
			for i := 0; i < perFile; i++ {
				x := randDouble(r)
				var t string
				switch r.Intn(8) {
				case 0:
					t = strconv.FormatFloat(x, 'g', 17, 64)
				case 1:
					t = strconv.FormatFloat(math.Float64frombits(r.U64()%(1<<52)), 'e', 16, 64) // subnormal
				case 2:
					t = strconv.FormatFloat(x, 'e', 20+r.Intn(20), 64)
				case 3:
					if r.Chance(1, 20) {
						t = halfway(x)
					} else {
						t = strconv.FormatFloat(x, 'e', 17, 64)
					}
				default:
					t = strconv.FormatFloat(x, 'e', 16, 64)
				}
				nums[f] = append(nums[f], t)
				buf.WriteString("BenchmarkX 1 " + t + " u\n")
			}
			bufs[f] = buf.Bytes()
		}
		readAll := func(f int) (out []string) {
			defer func() {
				if e := recover(); e != nil {
					// the record being converted when the real code panicked
					out = append(out, "panic:"+hx.HexS(strings.ReplaceAll(fmt.Sprint(e), "\n", " ")))
				}
			}()
			rd := benchfmt.NewReader(bytes.NewReader(bufs[f]), "f")
			for rd.Scan() {
				out = append(out, renderRec(rd.Result()))
			}
			return out
		}
		seq := make([][]string, files)
		conc := make([][]string, files)
		if hangs < 3 {
			run(id, func() string {
				return fmt.Sprintf("case %d kind=line iters=31 num=%s spec=0 tag=conc+hang\n", id, hx.HexS(nums[0][0]))
			}, func(p func(string, ...any)) {
				for f := 0; f < files; f++ {
					seq[f] = readAll(f)
				}
				var wg sync.WaitGroup
				for f := 0; f < files; f++ {
					wg.Add(1)
					go func(f int) {
						defer wg.Done()
						conc[f] = readAll(f)
					}(f)
				}
				wg.Wait()
			})
		}
		at := func(l []string, i int) string {
			if i < len(l) {
				return l[i]
			}
			return "none"
		}
		type pick struct{ f, i int }
		var diff []pick
		for f := 0; f < files && len(diff) < slots; f++ {
			for i := 0; i < perFile && len(diff) < slots; i++ {
				if at(conc[f], i) != at(seq[f], i) {
					diff = append(diff, pick{f, i})
				}
			}
		}
		for j := 0; j < slots; j++ {
			pk := pick{j % files, (7 * j) % perFile}
			if j < len(diff) {
				pk = diff[j]
			}
			lineCaseRd("1", nums[pk.f][pk.i], "conc", true, at(conc[pk.f], pk.i))
		}
		for f := 0; f < files; f++ {
			for i := f; i < perFile; i += 16 {
				lineCaseRd("1", nums[f][i], "conc", true, at(conc[f], i))
			}
		}
	}
}

// mineAny: does this shard own one of the ids id … id+n-1?
func mineAny(id, n int) bool {
	return n >= nshards || func() bool {
		for i := 0; i < n; i++ {
			if mine(id + i) {
				return true
			}
		}
		return false
	}()
}

// clampCases: the clamp of the exponent digit loop (`if e < 10000 { e = e*10 + digit }` in readFloat
// and decimal.set). A literal below 100000 is read exactly; of a longer one the first five
// significant digits are kept. That only shows when the mantissa text compensates the exponent:
// more than 9691 digits after the point / 9669 before it (hex: 2244 / 2231).
//
// Every case is a K case (the model mirrors the clamp). It is an S case as well exactly when the
// hypothesis of parseFloat_correct holds — literal < 100000, or a mantissa inside those bounds (and
// outside N3) — where code and specification must agree. The compensating texts beyond the
// bounds are known finding N3E (the real code and strconv return a finite wrong value): S cases
// only while N3E is listed in known_findings.json, tagged kf=N3E by the driver where the
// specification really differs; K-only otherwise.
func clampCases(r *hx.Rand) {
	run1 := func(hex bool, ip, fp string, esign string, lit string, tag string) {
		num := ip
		if fp != "" || r.Chance(1, 8) {
			num += "." + fp
		}
		if hex {
			num = "0x" + num + "p" + esign + lit
		} else {
			num += "e" + esign + lit
		}
		if r.Chance(1, 6) {
			num = "-" + num
		}
		sig := len(strings.TrimLeft(ip, "0"))
		small := len(strings.TrimLeft(lit, "0_")) <= 5 && !strings.Contains(lit, "_")
		moderate := sig <= 9669 && len(fp) <= 9691
		if hex {
			moderate = sig <= 2231 && len(fp) <= 2244
		}
		inN3 := !hex && sig > 800
		inN3E := !small && !moderate
		// the specification is only evaluated for literals of at most 7 digits (10^(10^7) is the
		// largest power worth computing); the two classes of known findings only while registered
		// (the driver tags them kf=N3 / kf=N3E)
		withSpec := len(strings.TrimLeft(lit, "0")) <= 7 && (!inN3 || n3Registered) && (!inN3E || n3eRegistered)
		lineCase(strconv.Itoa(1+r.Intn(9)), num, tag, withSpec)
	}
	lits := []string{"9999", "10000", "10001", "99999", "100000", "100001", "123456", "999999", "1000000", "000099999", "0000100000",
		"10000000000000000000", "1" + strings.Repeat("0", 300), "9" + strings.Repeat("9", 59)}
	z := func(n int) string { return strings.Repeat("0", n) }
	// short mantissas: the clamp is harmless
	for _, lit := range lits {
		for _, es := range []string{"", "+", "-"} {
			run1(false, "1", "", es, lit, "clamp")
			run1(false, "0", z(20)+"25", es, lit, "clamp")
			run1(false, "12345678901234567890123", "5", es, lit, "clamp")
			run1(true, "1", "8", es, lit, "clamp")
			run1(true, "0", z(30)+"1ffffffffffffffff", es, lit, "clamp")
		}
	}
	run1(true, "1", "", "", "10_0000", "clamp")
	run1(true, "1", "", "-", "1_00000", "clamp")
	// mantissas around the bounds of `Moderate`, and well beyond (compensating)
	for _, lit := range []string{"99999", "100000", "100001", "1000000", "654321"} {
		for _, zn := range []int{9300, 9689, 9690, 9691, 9692, 9693, 9999, 10000, 10001, 10300} {
			run1(false, "0", z(zn)+"1", "", lit, "clamp-dec")
			run1(false, "", z(zn)+hx.Pick(r, []string{"25", "123456789012345678901", "9999999999999999999999"}), "+", lit, "clamp-dec")
		}
		for _, zn := range []int{700, 799, 9660, 9668, 9669, 9670, 9999, 10000, 10300} {
			run1(false, "1"+z(zn), "", "-", lit, "clamp-dec")
			run1(false, hx.Pick(r, []string{"25", "123456789012345678901"})+z(zn), "5", "-", lit, "clamp-dec")
		}
		for _, zn := range []int{2000, 2242, 2243, 2244, 2245, 2246, 2499, 2500, 2501, 2600} {
			run1(true, "0", z(zn)+"1", "", lit, "clamp-hex")
			run1(true, "", z(zn)+hx.Pick(r, []string{"8", "1fffffffffffff8", "123456789abcdef01"}), "+", lit, "clamp-hex")
		}
		for _, zn := range []int{2000, 2229, 2230, 2231, 2232, 2233, 2499, 2500, 2501, 2600} {
			run1(true, "1"+z(zn), "", "-", lit, "clamp-hex")
			run1(true, hx.Pick(r, []string{"8", "1fffffffffffff8"})+z(zn), "8", "-", lit, "clamp-hex")
		}
	}
	// random ones
	for i := 0; i < hx.N(150, 3000); i++ {
		hex := r.Bool()
		lit := hx.Pick(r, []string{"99999", "100000", "100001", "200000", "999999", "12345678"})
		if r.Chance(1, 4) {
			lit = strconv.Itoa(90000 + r.Intn(30000))
		}
		lim := 9700
		if hex {
			lim = 2240
		}
		zn := lim - 60 + r.Intn(120)
		if r.Chance(1, 3) {
			zn = r.Intn(3 * lim / 2)
		}
		digs := randDigits(r, 1+r.Intn(25))
		if hex {
			digs = randHexDigits(r, 1+r.Intn(20))
		}
		if r.Bool() {
			run1(hex, "", z(zn)+digs, hx.Pick(r, []string{"", "+"}), lit, "clamp-rand")
		} else {
			run1(hex, strings.TrimLeft(digs, "0")+"1"+z(zn), hx.Pick(r, []string{"", "5"}), "-", lit, "clamp-rand")
		}
	}
}

func main() {
	defer hx.Flush()
	r := hx.NewRand(0xC03)

	tableCase(false)
	cheatsCase(false)
	stateCase(false)
	defer func() {
		// once more at the end of EVERY shard's process, after all its other cases
		tableCase(true)
		cheatsCase(true)
		stateCase(true)
		hx.Flush()
	}()

	// fixed corpus: the witnesses and boundary literals run first, every time
	for _, s := range maxNeighbourhood {
		lineCase("1", s, "corpus", true)
	}
	for _, s := range specialWords {
		lineCase("1", s, "corpus", true)
	}
	for _, s := range []string{"0", "-0", "+0", "0.0", "-0.0", ".0", "0.", ".", "e5", ".e5", "1e", "1e+", "1e-", "1.e1", ".1e1", "0x", "0x.", "0xp1", "0x1", "0x1p", "0x1p+", "0x.1p1", "0x1.p1", "0X1P1",
		"1_000", "1__0", "_1", "1_", "1_.0", "1._0", "1_e1", "1e_1", "1e1_", "1e+_1", "1e1_0", "0x_1p0", "0_x1p0", "0x1_p0", "0x1p_0", "0x1p0_0", "0x_.8p0", "0b1", "0b_1", "0o1", "0_1",
		"9223372036854775797", "9223372036854775798", "9223372036854775799", "9223372036854775807", "9223372036854775808", "922337203685477579", "922337203685477580", "922337203685477581",
		"9007199254740993", "9007199254740992", "4503599627370495", "4503599627370496", "4503599627370497e1", "4503599627370495e22", "1e22", "1e23", "1e37", "1e38", "4503599627370495e37", "1e-22", "1e-23", "123456789012345678901234567890",
		"1e10000", "1e-10000", "0e10000", "0e99999", "0x0p99999", "0x1p1024", "0x1p1023", "0x1.fffffffffffff8p1023", "0x1.fffffffffffff7ffp1023", "0x1p-1074", "0x1p-1075", "0x1.00000000000001p-1075", "0x1p-1076", "0x1.8p-1074", "0x0.0000000000001p-1022", "0x1.fffffffffffffp-1023", "0x1.000000000000082p0", "0x1.000000000000080p0", "0x1.000000000000081p0", "0x1.0000000000000c2p0"} {
		lineCase("1", s, "corpus", true)
	}
	for _, s := range []string{"0.0000000000000000000000004", "0.000000000000000000000032", ".0000000000000000000000000002",
		"0." + strings.Repeat("0", 315) + "123456789012345", "0.0000000000000000000001", "0.00000000000000000000001", "0." + strings.Repeat("0", 307) + "1", "0." + strings.Repeat("0", 308) + "1", "0." + strings.Repeat("0", 323) + "5", "0." + strings.Repeat("0", 323) + "2"} {
		lineCase("1", s, "corpus", true)
	}
	for _, s := range []string{"0", "1", "-1", "+1", "9223372036854775807", "9223372036854775808", "-9223372036854775808", "-9223372036854775809", "999999999999999999", "1000000000000000000", "0000000000000000001", "+", "-", "1_0", "0x1"} {
		lineCase(s, "1", "corpus", true)
	}
	if n3Registered {
		for _, s := range []string{"1" + strings.Repeat("0", 800) + "e-800", "1" + strings.Repeat("0", 799) + "e-799", strings.Repeat("9", 801) + "e-801",
			strings.Repeat("1", 820) + ".5e-819", "-" + strings.Repeat("7", 801) + "e-500", "1" + strings.Repeat("0", 800) + ".0"} {
			lineCase("1", s, "n3", true)
		}
	}
	// K-only: exponents so long that exact evaluation is pointless (the clamp e < 10000 is mirrored)
	for _, s := range []string{"1e1000000000000", "1e-1000000000000", "1e99999999999999999999", "0.1e100000", "0x1p99999999999", "0x1p-99999999999", "1e100000_0"} {
		lineCase("1", s, "bigexp", false)
	}

	clampCases(r)
	streamFamily(r, hx.N(8, 100))
	concFamily(r, hx.N(1, 20))
	// all-digit measurements of 18–20 digits around 2^63 and 10^19 (the int64 fast path of the reader's atof)
	for _, c := range []string{"9223372036854775807", "9223372036854775808", "9223372036854775809", "9223372036854775817", "9999999999999999999", "10000000000000000000", "18446744073709551615", "18446744073709551616", "922337203685477580", "999999999999999999", "09223372036854775808", "9300000000000000000"} {
		lineCase("1", c, "corpus", true)
	}
	for i := 0; i < hx.N(300, 6000); i++ {
		b := new(big.Int)
		switch r.Intn(3) {
		case 0:
			b.Lsh(big.NewInt(1), 63)
			b.Add(b, big.NewInt(int64(r.Intn(2001)-1000)))
		case 1:
			b.Exp(big.NewInt(10), big.NewInt(int64(18+r.Intn(2))), nil)
			b.Add(b, big.NewInt(int64(r.Intn(2001)-1000)))
		default:
			b.SetString(string(rune('1'+r.Intn(9)))+randDigits(r, 17+r.Intn(3)), 10)
		}
		lineCase(strconv.Itoa(1+r.Intn(99)), b.String(), "int19", true)
	}

	n := hx.N(60000, 1200000)
	for i := 0; i < n; i++ {
		if i%4 == 0 {
			it, itag := genIters(r)
			lineCase(it, hx.Pick(r, []string{"1", "2.5", "1e3", "100"}), "it-"+itag, true)
		} else {
			num, tag := genNum(r)
			lineCase(strconv.Itoa(1+r.Intn(1000)), num, tag, true)
		}
	}
	hexRoundingFamily(r, hx.N(2, 12))

	// decimal.Shift and floatBits on decimals given directly
	for i := 0; i < hx.N(6000, 120000); i++ {
		ds := randDecimalDigits(r)
		dp := r.Intn(700) - 350
		var k int
		switch r.Intn(6) {
		case 0:
			k = hx.Pick(r, []int{60, -60, 61, -61, 120, -120, 121, -121, 1, -1, 53, 27, -27, 0})
		case 1:
			k = r.Intn(241) - 120
		default:
			k = r.Intn(121) - 60
		}
		if r.Chance(1, 30) {
			ds = ""
		}
		dshiftCase(ds, dp, r.Chance(1, 8), k)
	}
	for i := 0; i < hx.N(3000, 60000); i++ {
		ds := randDecimalDigits(r)
		var dp int
		switch r.Intn(4) {
		case 0:
			dp = hx.Pick(r, []int{-330, -331, -329, -323, -322, -307, -308, 308, 309, 310, 311, 0, 1})
		case 1:
			dp = r.Intn(40) - 20
		default:
			dp = r.Intn(680) - 340
		}
		if r.Chance(1, 40) {
			ds = ""
		}
		dfbCase(ds, dp, r.Chance(1, 4), r.Chance(1, 10))
	}

	// rounding step of the slow path
	for i := 0; i < hx.N(4000, 80000); i++ {
		nd := r.Intn(24)
		ds := randDigits(r, nd)
		if nd > 0 && r.Chance(3, 4) { // trimmed, as decimal.go keeps it
			ds = strings.TrimRight(ds, "0")
		}
		dp := r.Intn(26) - 3
		if len(ds) > 0 && r.Chance(1, 3) { // exact halves: digits, then a single 5 (or 50…, 5x)
			k := r.Intn(len(ds) + 1)
			ds = ds[:k] + hx.Pick(r, []string{"5", "5", "50", "51", "49", "500001"})
			dp = k
		}
		rintCase(ds, dp, r.Chance(1, 4))
	}
	for _, c := range []struct {
		d  string
		dp int
	}{{"5", 0}, {"15", 1}, {"25", 1}, {"35", 1}, {"05", 1}, {"", 0}, {"", 3}, {"1", 3}, {"9", 0}, {"99999999999999999995", 19}, {"18446744073709551615", 20}, {"1", 21}, {"5", -1}, {"5", 1}} {
		rintCase(c.d, c.dp, false)
		rintCase(c.d, c.dp, true)
	}
	// direct stage cases
	m := hx.N(15000, 300000)
	for i := 0; i < m; i++ {
		mant := r.U64() >> uint(10+r.Intn(54))
		if r.Chance(1, 8) {
			mant = uint64(1)<<52 + uint64(r.Intn(5)) - 2
		}
		exp := r.Intn(70) - 28
		exactCase(mant, exp, r.Chance(1, 4))
	}
	for i := 0; i < m; i++ {
		mant := r.U64() >> uint(r.Intn(64))
		switch r.Intn(4) {
		case 0: // ties at bit 53/54
			mant = (r.U64()>>11 | 1<<52) << uint(r.Intn(11))
			mant |= uint64(1) << uint(r.Intn(11))
		}
		var exp int
		switch r.Intn(4) {
		case 0:
			exp = -1074 - 70 + r.Intn(140)
		case 1:
			exp = 1024 - 70 + r.Intn(80)
		default:
			exp = r.Intn(2400) - 1200
		}
		hexCase(mant, exp, r.Chance(1, 4), r.Chance(1, 4))
	}
}
