//go:build verif

package bytesconv

// Export hooks for the C03 correspondence harness: the unexported stages of ParseFloat.

func VerifSpecial(s []byte) (float64, bool) { return special(s) }

func VerifUnderscoreOK(s []byte) bool { return underscoreOK(s) }

func VerifReadFloat(s []byte) (mantissa uint64, exp int, neg, trunc, hex, ok bool) {
	return readFloat(s)
}

func VerifAtof64Exact(mantissa uint64, exp int, neg bool) (float64, bool) {
	return atof64exact(mantissa, exp, neg)
}

func VerifAtofHex(s []byte, mantissa uint64, exp int, neg, trunc bool) (float64, error) {
	return atofHex(s, &float64info, mantissa, exp, neg, trunc)
}

func VerifPow10Table() []float64 { return float64pow10 }

// VerifRoundedInteger builds a decimal from its digits, decimal point and trunc flag and returns
// RoundedInteger() together with shouldRoundUp(a, a.dp).
func VerifRoundedInteger(digits []byte, dp int, trunc bool) (uint64, bool) {
	var a decimal
	a.nd = copy(a.d[:], digits)
	a.dp = dp
	a.trunc = trunc
	up := shouldRoundUp(&a, a.dp)
	return a.RoundedInteger(), up
}
