//go:build verif

package bytesconv

import "strconv"

// Export hooks for the C03 correspondence harness: the unexported stages of ParseFloat.

func VerifSpecial(s []byte) (float64, bool) { return special(s) }

func VerifUnderscoreOK(s []byte) bool { return underscoreOK(s) }

func VerifReadFloat(s []byte) (mantissa uint64, exp int, neg, trunc, hex, ok bool) {
	return readFloat(s)
}

func VerifAtof64Exact(mantissa uint64, exp int, neg bool) (float64, bool) {
	return atof64exact(mantissa, exp, neg)
}

func VerifAtofHex(s []byte, mantissa uint64, exp int, neg, trunc bool) (float64, error) {
	return atofHex(s, &float64info, mantissa, exp, neg, trunc)
}

func VerifPow10Table() []float64 { return float64pow10 }

// VerifRoundedInteger builds a decimal from its digits, decimal point and trunc flag and returns
// RoundedInteger() together with shouldRoundUp(a, a.dp).
func VerifRoundedInteger(digits []byte, dp int, trunc bool) (uint64, bool) {
	var a decimal
	a.nd = copy(a.d[:], digits)
	a.dp = dp
	a.trunc = trunc
	up := shouldRoundUp(&a, a.dp)
	return a.RoundedInteger(), up
}

// ---- the multiprecision slow path (decimal.go, decimal.set, floatBits) ----

func verifMkDecimal(digits []byte, dp int, neg, trunc bool) *decimal {
	var a decimal
	a.nd = copy(a.d[:], digits)
	a.dp = dp
	a.neg = neg
	a.trunc = trunc
	return &a
}

// VerifDecShift runs the real Shift on a decimal given by its digits.
func VerifDecShift(digits []byte, dp int, trunc bool, k int) ([]byte, int, bool) {
	a := verifMkDecimal(digits, dp, false, trunc)
	a.Shift(k)
	return append([]byte(nil), a.d[:a.nd]...), a.dp, a.trunc
}

// VerifDecSet runs decimal.set.
func VerifDecSet(s []byte) (digits []byte, dp int, neg, trunc, ok bool) {
	var d decimal
	ok = d.set(s)
	return append([]byte(nil), d.d[:d.nd]...), d.dp, d.neg, d.trunc, ok
}

// VerifDecFloatBits runs floatBits on a decimal given by its digits; also returns d.trunc afterwards.
func VerifDecFloatBits(digits []byte, dp int, neg, trunc bool) (uint64, bool, bool) {
	a := verifMkDecimal(digits, dp, neg, trunc)
	b, ovf := a.floatBits(&float64info)
	return b, ovf, a.trunc
}

// VerifSlowPath is the slow fallback of atof64 alone: d.set(s), d.floatBits.
func VerifSlowPath(s []byte) (bits uint64, ovf, ok, trunc bool) {
	var d decimal
	if !d.set(s) {
		return 0, false, false, false
	}
	b, o := d.floatBits(&float64info)
	return b, o, true, d.trunc
}

// VerifLeftCheats dumps the cheat table as "delta:cutoff" entries.
func VerifLeftCheats() []string {
	var out []string
	for _, c := range leftcheats {
		out = append(out, strconv.Itoa(c.delta)+":"+c.cutoff)
	}
	return out
}

// VerifState renders the package-level state that outlives a call: the `optimize` switch, the shift
// table of floatBits, the float64 format constants and the two error values.
func VerifState() string {
	pt := ""
	for i, v := range powtab {
		if i > 0 {
			pt += ","
		}
		pt += strconv.Itoa(v)
	}
	o := 0
	if optimize {
		o = 1
	}
	return "opt=" + strconv.Itoa(o) + " powtab=" + pt + " info=" + strconv.Itoa(int(float64info.mantbits)) + ":" +
		strconv.Itoa(int(float64info.expbits)) + ":" + strconv.Itoa(float64info.bias) +
		" errs=" + hexs(ErrRange.Error()) + ":" + hexs(ErrSyntax.Error())
}

func hexs(s string) string {
	const d = "0123456789abcdef"
	b := make([]byte, 0, 2*len(s))
	for i := 0; i < len(s); i++ {
		b = append(b, d[s[i]>>4], d[s[i]&15])
	}
	return string(b)
}

// VerifInf: ±Inf without importing math in the benchfmt hook file.
func VerifInf(neg bool) float64 {
	v, _ := special([]byte("inf"))
	if neg {
		return -v
	}
	return v
}
