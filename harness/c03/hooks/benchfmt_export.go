//go:build verif

package benchfmt

// VerifAtofC03 exposes the reader's atof (integer fast path, else bytesconv.ParseFloat).
func VerifAtofC03(x []byte) (float64, error) { return atof(x) }
