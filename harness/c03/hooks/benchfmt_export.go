//go:build verif

package benchfmt

import (
	"bytes"

	"golang.org/x/perf/benchfmt/internal/bytesconv"
)

// VerifAtofC03 is the reader's number reading (integer fast path, else bytesconv.ParseFloat),
// reached the way the property reaches it: through a Reader on a real benchmark line. (It used to
// call the package-level function `atof` directly; that made the harness stop compiling — and the
// check go blind — as soon as the function changed its shape, e.g. became a method of Reader.)
// A range error comes with ±Inf, a syntax error with 0, as ParseFloat returns them.
func VerifAtofC03(x []byte) (float64, error) {
	line := append(append([]byte("BenchmarkX 1 "), x...), " u\n"...)
	r := NewReader(bytes.NewReader(line), "f")
	syn := &bytesconv.NumError{Func: "ParseFloat", Num: string(x), Err: bytesconv.ErrSyntax}
	if !r.Scan() {
		return 0, syn
	}
	switch rec := r.Result().(type) {
	case *Result:
		if len(rec.Values) == 1 {
			return rec.Values[0].Value, nil
		}
	case *SyntaxError:
		if rec.Msg == "parsing measurement: value out of range" {
			inf := bytesconv.VerifInf(len(x) > 0 && x[0] == '-')
			return inf, &bytesconv.NumError{Func: "ParseFloat", Num: string(x), Err: bytesconv.ErrRange}
		}
	}
	return 0, syn
}
