//go:build verif

package benchproc

import (
	"fmt"

	"golang.org/x/perf/benchfmt"
)

// VerifExtract exposes newExtractor to the correspondence harness.
func VerifExtract(key string, res *benchfmt.Result) (val []byte, err error) {
	defer func() {
		if r := recover(); r != nil {
			err = fmt.Errorf("panic: %v", r)
		}
	}()
	ext, err := newExtractor(key)
	if err != nil {
		return nil, err
	}
	return ext(res), nil
}

// VerifFullNameExcluding exposes newExtractorFullName.
func VerifFullNameExcluding(exclude []string, res *benchfmt.Result) []byte {
	return newExtractorFullName(exclude)(res)
}
