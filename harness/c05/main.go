//go:build verif

// C05 harness: name decomposition and key extraction.
package main

import (
	"strings"

	"golang.org/x/perf/benchfmt"
	"golang.org/x/perf/benchproc"
	"golang.org/x/perf/internal/verifh/hx"
)

var alphabet = []byte{'/', '=', '-', '0', '7', 'a', 0xC3, 0xA9}

var keys = []string{".name", ".fullname", "/gomaxprocs", "/a", "/", "/a=", "/0", "/-7", "k", "missing", "", ".config", ".unit"}

var excludes = [][]string{
	{"/a"}, {".name"}, {"/gomaxprocs"}, {"/a", "/0", ".name"}, {"k", "/"}, {"/a="}, {"/gomaxprocs", "/a"},
}

func errTag(err error) string {
	s := err.Error()
	switch {
	case strings.Contains(s, "must not be empty"):
		return "!empty"
	case strings.Contains(s, "is not an extractor"):
		return "!notextractor"
	}
	return "!other:" + hx.HexS(s)
}

func runCase(id int, name []byte, cfg [][2]string) {
	var cfgParts []string
	res := &benchfmt.Result{Name: benchfmt.Name(name)}
	for _, kv := range cfg {
		res.SetConfig(kv[0], kv[1])
		cfgParts = append(cfgParts, hx.HexS(kv[0])+":"+hx.HexS(kv[1]))
	}
	cfgS := "-"
	if len(cfgParts) > 0 {
		cfgS = strings.Join(cfgParts, ",")
	}
	var exS []string
	for _, e := range excludes {
		exS = append(exS, strings.ReplaceAll(hx.HexListS(e), ",", "+"))
	}
	var tags []string
	if strings.IndexByte(string(name), '/') >= 0 {
		tags = append(tags, "slash")
	}
	if strings.IndexByte(string(name), '=') >= 0 {
		tags = append(tags, "eq")
	}
	if _, ps := benchfmt.Name(name).Parts(); len(ps) > 0 && ps[len(ps)-1][0] == '-' {
		tags = append(tags, "gmp")
	}
	if len(tags) == 0 {
		tags = append(tags, "trivial")
	}
	hx.Printf("case %d name=%s cfg=%s keys=%s excl=%s tag=%s\n", id, hx.Hex(name), cfgS, hx.HexListS(keys), strings.Join(exS, ","), strings.Join(tags, "+"))

	base, parts := res.Name.Parts()
	base2 := res.Name.Base()
	var vals []string
	for _, k := range keys {
		v, err := benchproc.VerifExtract(k, res)
		if err != nil {
			vals = append(vals, errTag(err))
		} else {
			vals = append(vals, hx.Hex(v))
		}
	}
	var fx []string
	for _, e := range excludes {
		fx = append(fx, hx.Hex(benchproc.VerifFullNameExcluding(e, res)))
	}
	// Public path: a one-field projection must return the same values.
	pub := "ok"
	for i, k := range keys {
		if k == "" || k == ".config" || k == ".unit" || k == "/a=" || k == "/-7" || k == "/" {
			continue
		}
		var pp benchproc.ProjectionParser
		p, err := pp.Parse(k, nil)
		if err != nil {
			pub = "parse-error"
			break
		}
		key := p.Project(res)
		if hx.HexS(key.Get(p.Fields()[0])) != vals[i] {
			pub = "DIFF:" + k
		}
	}
	line := "base=" + hx.Hex(base) + " base2=" + hx.Hex(base2) + " parts=" + hx.HexList(parts) + " vals=" + strings.Join(vals, ",")
	hx.Printf("obs %d %s fx=%s pub=%s\n", id, line, strings.Join(fx, ","), pub)
	hx.Printf("sobs %d %s fx=%s\n", id, line, strings.Join(fx, ","))
}

func main() {
	defer hx.Flush()
	if lines := hx.ReplayLines(); lines != nil {
		for i, l := range lines {
			n, _ := hx.Field(l, "name")
			var cfg [][2]string
			if c, _ := hx.Field(l, "cfg"); c != "-" && c != "" {
				for _, kv := range strings.Split(c, ",") {
					p := strings.Split(kv, ":")
					cfg = append(cfg, [2]string{string(hx.UnHex(p[0])), string(hx.UnHex(p[1]))})
				}
			}
			runCase(i, hx.UnHex(n), cfg)
		}
		return
	}
	r := hx.NewRand(5)
	id := 0
	cfgs := [][][2]string{nil, {{"k", "v"}}, {{"a", "1"}, {"k", "x y"}}, {{"missing2", "z"}}}
	// exhaustive short names
	maxLen := 4
	if hx.Tier() == "thorough" {
		maxLen = 6
	}
	var rec func(cur []byte)
	rec = func(cur []byte) {
		runCase(id, cur, cfgs[id%len(cfgs)])
		id++
		if len(cur) == maxLen {
			return
		}
		for _, c := range alphabet {
			rec(append(cur[:len(cur):len(cur)], c))
		}
	}
	rec(nil)
	// random longer names, biased to realistic shapes
	words := []string{"Foo", "a", "a=1", "a=", "=", "gomaxprocs=4", "b=x-2", "0", "-7", "", "é", "a=b=c", "/"}
	n := hx.N(20000, 400000)
	for i := 0; i < n; i++ {
		var name []byte
		if r.Chance(1, 2) {
			l := r.Intn(14)
			for j := 0; j < l; j++ {
				name = append(name, hx.Pick(r, alphabet))
			}
		} else {
			name = append(name, hx.Pick(r, words)...)
			for j := r.Intn(5); j > 0; j-- {
				name = append(name, '/')
				name = append(name, hx.Pick(r, words)...)
			}
			switch r.Intn(4) {
			case 0:
				name = append(name, "-8"...)
			case 1:
				name = append(name, hx.Pick(r, []string{"-", "-x", "-12-", "--3", "-007"})...)
			}
		}
		runCase(id, name, cfgs[r.Intn(len(cfgs))])
		id++
	}
}
