//go:build verif

// C05 harness: name decomposition and key extraction.
package main

import (
	"strconv"
	"strings"

	"golang.org/x/perf/benchfmt"
	"golang.org/x/perf/benchproc"
	"golang.org/x/perf/internal/verifh/hx"
)

var alphabet = []byte{'/', '=', '-', '0', '7', 'a', 0xC3, 0xA9, '+'}

var keys = []string{".name", ".fullname", "/gomaxprocs", "/a", "/", "/a=", "/0", "/-7", "k", "missing", "", ".config", ".unit",
	// near-misses of the reserved spellings: ordinary keys
	"/GOMAXPROCS", "/Gomaxprocs", "/gomaxprocs=", ".Name", ".NAME", ".fullName", "name", "/.name",
	// keys with an inner '/' or '=': no single segment can carry them
	"/a/0", "/a/", "//a", "/a=1/0", "/0/a",
	// keys carrying the metacharacters of other syntaxes the key may pass through (printf, regexp, glob)
	"/a%", "/%a", "/a%%", "/a%d", "/a*", "/a.", "/[a]", "/a\\"}

var excludes = [][]string{
	{"/a"}, {".name"}, {"/gomaxprocs"}, {"/a", "/0", ".name"}, {"k", "/"}, {"/a="}, {"/gomaxprocs", "/a"},
}

func errTag(err error) string {
	s := err.Error()
	switch {
	case strings.Contains(s, "must not be empty"):
		return "!empty"
	case strings.Contains(s, "is not an extractor"):
		return "!notextractor"
	}
	return "!other:" + hx.HexS(s)
}

func runCase(id int, name []byte, cfg [][2]string) {
	var cfgParts []string
	nameCopy := append([]byte(nil), name...)
	name = append(make([]byte, 0, len(name)+8), name...) // private buffer with spare capacity
	res := &benchfmt.Result{Name: benchfmt.Name(name)}
	for _, kv := range cfg {
		res.SetConfig(kv[0], kv[1])
		cfgParts = append(cfgParts, hx.HexS(kv[0])+":"+hx.HexS(kv[1]))
	}
	cfgS := "-"
	if len(cfgParts) > 0 {
		cfgS = strings.Join(cfgParts, ",")
	}
	var exS []string
	for _, e := range excludes {
		exS = append(exS, strings.ReplaceAll(hx.HexListS(e), ",", "+"))
	}
	var tags []string
	if strings.IndexByte(string(name), '/') >= 0 {
		tags = append(tags, "slash")
	}
	if strings.IndexByte(string(name), '=') >= 0 {
		tags = append(tags, "eq")
	}
	if _, ps := benchfmt.Name(name).Parts(); len(ps) > 0 && ps[len(ps)-1][0] == '-' {
		tags = append(tags, "gmp")
	}
	if len(tags) == 0 {
		tags = append(tags, "trivial")
	}
	hx.Printf("case %d name=%s cfg=%s keys=%s excl=%s tag=%s\n", id, hx.Hex(name), cfgS, hx.HexListS(keys), strings.Join(exS, ","), strings.Join(tags, "+"))

	base, parts := res.Name.Parts()
	base2 := res.Name.Base()
	var vals []string
	for _, k := range keys {
		v, err := benchproc.VerifExtract(k, res)
		if err != nil {
			vals = append(vals, errTag(err))
		} else {
			vals = append(vals, hx.Hex(v))
		}
	}
	var fx []string
	for _, e := range excludes {
		fx = append(fx, hx.Hex(benchproc.VerifFullNameExcluding(e, res)))
	}
	// Public path: a one-field projection must return the same values.
	pub := "ok"
	for i, k := range keys {
		if k == "" || k == ".config" || k == ".unit" || k == "/a=" || k == "/-7" || k == "/" {
			continue
		}
		var pp benchproc.ProjectionParser
		p, err := pp.Parse(k, nil)
		if err != nil {
			pub = "parse-error"
			break
		}
		key := p.Project(res)
		if hx.HexS(key.Get(p.Fields()[0])) != vals[i] {
			pub = "DIFF:" + k
		}
	}
	// Filters agree with the extractors: key:"<extracted value>" matches (also when the value is
	// the empty string of an absent key) and key:"<value>\x01" does not.
	flt := "ok"
	for i, k := range keys {
		if k == "" || k == ".config" || k == ".unit" || strings.HasPrefix(vals[i], "!") {
			continue
		}
		v := string(hx.UnHex(vals[i]))
		for j, want := range []bool{true, false} {
			q := strconv.Quote(k) + ":" + strconv.Quote(v+[]string{"", "\x01"}[j])
			f, err := benchproc.NewFilter(q)
			if err != nil {
				flt = "err:" + hx.HexS(k)
				break
			}
			got, _ := f.Apply(res)
			if got != want {
				flt = []string{"nomatch:", "overmatch:"}[j] + hx.HexS(k)
			}
		}
	}
	line := "base=" + hx.Hex(base) + " base2=" + hx.Hex(base2) + " parts=" + hx.HexList(parts) + " vals=" + strings.Join(vals, ",")
	hx.Printf("obs %d %s fx=%s pub=%s\n", id, line, strings.Join(fx, ","), pub)
	// none of the calls above may have written to the name they were given
	in := "kept"
	if string(res.Name) != string(nameCopy) {
		in = "mutated"
	}
	hx.Printf("sobs %d %s fx=%s flt=%s in=%s\n", id, line, strings.Join(fx, ","), flt, in)
}

// cfgCase exercises configuration built through the API (SetConfig incl. deletion, Clone, edits
// of clones and of the original afterwards): a plain key must extract the configured value.
// ops: S<k>=<v> (set on the current result; empty v deletes), C (clone, the clone becomes
// current), B (switch back to the previously current result).
func cfgCase(id int, ops []string) {
	cur := &benchfmt.Result{Name: benchfmt.Name("X")}
	all := []*benchfmt.Result{cur}
	var stack []*benchfmt.Result
	for _, op := range ops {
		switch {
		case op == "C":
			stack = append(stack, cur)
			cur = cur.Clone()
			all = append(all, cur)
		case op == "B":
			if len(stack) > 0 {
				cur = stack[len(stack)-1]
				stack = stack[:len(stack)-1]
			}
		default:
			kv := strings.SplitN(op[1:], "=", 2)
			cur.SetConfig(kv[0], kv[1])
		}
	}
	var enc []string
	for _, op := range ops {
		enc = append(enc, hx.HexS(op))
	}
	hx.Printf("case %d kind=cfg ops=%s tag=cfgops\n", id, strings.Join(enc, ","))
	var outs []string
	for _, r := range all {
		var kvs []string
		for _, k := range []string{"a", "b", "c", "k"} {
			v, err := benchproc.VerifExtract(k, r)
			if err != nil {
				kvs = append(kvs, errTag(err))
			} else if r.GetConfig(k) != string(v) {
				kvs = append(kvs, "!getconfig-differs")
			} else {
				kvs = append(kvs, hx.Hex(v))
			}
		}
		outs = append(outs, strings.Join(kvs, ":"))
	}
	hx.Printf("obs %d maps=%s\n", id, strings.Join(outs, ","))
	hx.Printf("sobs %d maps=%s\n", id, strings.Join(outs, ","))
}

// reuseCase: ONE long-lived projection and ONE long-lived filter on a sub-name key, applied to ONE Result
// whose Name buffer is overwritten in place with names of the same length (the way a streaming reader
// reuses its Result): every step must extract the value of the name at THAT step.
func reuseCase(id int, names [][]byte, key string) {
	var enc []string
	for _, n := range names {
		enc = append(enc, hx.Hex(n))
	}
	hx.Printf("case %d kind=reuse key=%s names=%s tag=reuse\n", id, hx.HexS(key), strings.Join(enc, ","))
	var pp benchproc.ProjectionParser
	p, err := pp.Parse(strconv.Quote(key), nil)
	if err != nil {
		hx.Printf("obs %d rv=!parse\nsobs %d rv=!parse fm=-\n", id, id)
		return
	}
	fld := p.Fields()[0]
	buf := make([]byte, len(names[0]))
	res := &benchfmt.Result{Name: benchfmt.Name(buf)}
	var vals []string
	var flt *benchproc.Filter
	fm := ""
	for i, n := range names {
		copy(buf, n)
		v := p.Project(res).Get(fld)
		vals = append(vals, hx.HexS(v))
		if i == 0 {
			flt, err = benchproc.NewFilter(strconv.Quote(key) + ":" + strconv.Quote(v))
			if err != nil {
				fm = "!filter"
			}
		}
		if flt != nil {
			ok, _ := flt.Apply(res)
			if ok {
				fm += "1"
			} else {
				fm += "0"
			}
		}
	}
	line := "rv=" + strings.Join(vals, ",")
	hx.Printf("obs %d %s\n", id, line)
	hx.Printf("sobs %d %s fm=%s\n", id, line, fm)
}

var cfgVals = []string{"", "x", "xy", "abc", "abcdef", "0123456789abcdef", "v w", "é", " ", " x", "x ", "\t", "\u00a0", " x y "}

func main() {
	defer hx.Flush()
	if lines := hx.ReplayLines(); lines != nil {
		for i, l := range lines {
			n, _ := hx.Field(l, "name")
			var cfg [][2]string
			if c, _ := hx.Field(l, "cfg"); c != "-" && c != "" {
				for _, kv := range strings.Split(c, ",") {
					p := strings.Split(kv, ":")
					cfg = append(cfg, [2]string{string(hx.UnHex(p[0])), string(hx.UnHex(p[1]))})
				}
			}
			runCase(i, hx.UnHex(n), cfg)
		}
		return
	}
	r := hx.NewRand(5)
	id := 0
	cfgs := [][][2]string{nil, {{"k", "v"}}, {{"a", "1"}, {"k", "x y"}}, {{"missing2", "z"}},
		// values with blanks at the ends, blank-only values, non-ASCII blanks: stored verbatim
		{{"k", " v1 "}}, {{"k", " "}}, {{"k", "\t"}, {"a", "x\t"}}, {{"k", "\u00a0x"}}, {{"k", "\u00a0"}}, {{"a", " "}, {"k", "v "}}}
	// exhaustive short names
	maxLen := 4
	if hx.Tier() == "thorough" {
		maxLen = 6
	}
	var rec func(cur []byte)
	rec = func(cur []byte) {
		runCase(id, cur, cfgs[id%len(cfgs)])
		id++
		if len(cur) == maxLen {
			return
		}
		for _, c := range alphabet {
			rec(append(cur[:len(cur):len(cur)], c))
		}
	}
	rec(nil)
	// long-lived extractors over a Result reused in place
	rr := hx.NewRand(77)
	segs := []string{"/n=10", "/n=99", "/alg=q", "/alg=h", "/a=1", "/a=2", "/b=77", "/x", "/gomaxprocs=4", "/n=1", "/n=", "/nn=1"}
	for i := 0; i < hx.N(1500, 30000); i++ {
		base := hx.Pick(rr, []string{"Sort", "S", "", "Sort-8", "Benchmark", "BenchmarkS"})
		pick := func() []byte {
			n := []byte(base)
			for j := 1 + rr.Intn(3); j > 0; j-- {
				n = append(n, hx.Pick(rr, segs)...)
			}
			if rr.Chance(1, 3) {
				n = append(n, hx.Pick(rr, []string{"-8", "-16", "-1"})...)
			}
			return n
		}
		first := pick()
		names := [][]byte{first}
		for tries := 0; len(names) < 2+rr.Intn(4) && tries < 400; tries++ {
			c := pick()
			if len(c) == len(first) {
				names = append(names, c)
			}
		}
		if len(names) < 2 {
			continue
		}
		reuseCase(id, names, hx.Pick(rr, []string{"/n", "/alg", "/a", "/gomaxprocs", "/b", "/x"}))
		id++
	}
	reuseCase(id, [][]byte{[]byte("Sort/n=10/alg=q"), []byte("Sort/alg=q/n=10"), []byte("Sort/n=1024-128"), []byte("Sort/alg=h/b=77")}, "/n")
	id++
	// configuration histories through the API
	rc := hx.NewRand(55)
	for i := 0; i < hx.N(4000, 60000); i++ {
		var ops []string
		for j := 2 + rc.Intn(10); j > 0; j-- {
			switch rc.Intn(6) {
			case 0:
				ops = append(ops, "C")
			case 1:
				ops = append(ops, "B")
			default:
				ops = append(ops, "S"+hx.Pick(rc, []string{"a", "b", "c", "k"})+"="+hx.Pick(rc, cfgVals))
			}
		}
		cfgCase(id, ops)
		id++
	}
	// random longer names, biased to realistic shapes
	words := []string{"Foo", "a", "a=1", "a=", "=", "gomaxprocs=4", "b=x-2", "0", "-7", "", "é", "a=b=c", "/",
		"GOMAXPROCS=2", "Gomaxprocs=3", "gomaxprocs==5", ".name=x", "GOMAXPROCS",
		// names that themselves begin with the format's line prefix (func BenchmarkBenchmarkX, hand-made Results)
		"Benchmark", "BenchmarkSuite", "Benchmarks", "Benchmark-8", "BenchmarkBenchmark", "benchmarkX", "Benchmark=1",
		"a%=50", "%a=1", "a%%=2", "a%d=3", "a*=4", "a.=5", "[a]=6", "a\\=7", "a=%", "ab=1"}
	n := hx.N(20000, 400000)
	for i := 0; i < n; i++ {
		var name []byte
		if r.Chance(1, 2) {
			l := r.Intn(14)
			for j := 0; j < l; j++ {
				name = append(name, hx.Pick(r, alphabet))
			}
		} else {
			name = append(name, hx.Pick(r, words)...)
			for j := r.Intn(5); j > 0; j-- {
				name = append(name, '/')
				name = append(name, hx.Pick(r, words)...)
			}
			switch r.Intn(4) {
			case 0:
				name = append(name, "-8"...)
			case 1:
				name = append(name, hx.Pick(r, []string{"-", "-x", "-12-", "--3", "-007", "-+4", "-+16", "- 4", "-0x10", "-1_0",
					"-9223372036854775807", "-9223372036854775808", "-18446744073709551616", "-４", "-4 ", "-4\n"})...)
			}
		}
		runCase(id, name, cfgs[r.Intn(len(cfgs))])
		id++
	}
}
