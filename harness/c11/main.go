//go:build verif

// C11 harness: Mann-Whitney U statistic, exact/approximate p-values, U distribution.
//
// Lines (see BUILDING.md):
//
//	case <id> kind=mw alt=less|differs|greater x1=<ints|-> x2=<ints|-> scale=<k> lim=<exact>,<ties> tag=…
//	case <id> kind=mw alt=… enc=bits x1=<f64 bits,…> x2=<…> lim=… tag=…   (arbitrary finite floats: near-ties family)
//	info <id> u=<f64 bits> p=<f64 bits> [legacy=<f64 bits>]     raw results (not compared by check.py;
//	                                                              read by the Lean driver for the 1e-12 tolerance test)
//	obs  <id> in=kept|mutated res=ok twoU=<int> p=<12 decimals> [legacy=…] | … res=!size | … res=!equal
//	          (in= : were the argument slices left exactly as passed?)
//	case <id> kind=limits lim=<exact>,<ties>     the package defaults; obs/sobs echo them
//	sobs <id> … (same text; judged against the specification)
//
//	case <id> kind=dist n1= n2= t=<ints|nil> grid=<lo>:<hi>:<step> tag=…
//	info <id> pmf=<bits,…> cdf=<bits,…> sum=<bits>
//	obs  <id> pmf=<12 decimals,…> cdf=<…> sum=<…>
//	sobs <id> …
//
// Sample values are v/scale with integer v and scale a power of two, so the float64 values, the
// ranks and U are exact. The harness computes nothing itself: every number printed comes out of
// stats.MannWhitneyUTest, stats.UDist.PMF/CDF or benchstat.UTest.
package main

import (
	"fmt"
	"math"
	"os"
	"path/filepath"
	"strconv"
	"strings"

	mstats "github.com/aclements/go-moremath/stats"
	"golang.org/x/perf/benchmath"
	"golang.org/x/perf/benchstat"
	"golang.org/x/perf/internal/stats"
	"golang.org/x/perf/internal/verifh/hx"
)

var (
	defLim  = stats.MannWhitneyExactLimit
	defLimT = stats.MannWhitneyTiesExactLimit
	shard   = 0
	nshards = 1
	nextID  = 0
)

// pinShard >= 0 pins all following cases to one shard, so that a SEQUENCE of evaluations (history
// family) happens inside one process.
var pinShard = -1

func mine() (int, bool) {
	id := nextID
	nextID++
	if pinShard >= 0 {
		return id, pinShard%nshards == shard
	}
	return id, id%nshards == shard
}

func ints(xs []int) string {
	if len(xs) == 0 {
		return "-"
	}
	p := make([]string, len(xs))
	for i, x := range xs {
		p[i] = strconv.Itoa(x)
	}
	return strings.Join(p, ",")
}

func parseInts(s string) []int {
	if s == "-" || s == "" || s == "nil" {
		return nil
	}
	var out []int
	for _, p := range strings.Split(s, ",") {
		v, err := strconv.Atoi(p)
		if err != nil {
			panic(err)
		}
		out = append(out, v)
	}
	return out
}

func parseBits(s string) []float64 {
	if s == "-" || s == "" {
		return nil
	}
	var out []float64
	for _, p := range strings.Split(s, ",") {
		b, err := strconv.ParseUint(p, 16, 64)
		if err != nil {
			panic(err)
		}
		out = append(out, math.Float64frombits(b))
	}
	return out
}

func floats(xs []int, scale int) []float64 {
	out := make([]float64, len(xs))
	for i, x := range xs {
		out[i] = float64(x) / float64(scale)
	}
	return out
}

// dec renders a float the way both sides compare it: 12 decimals, correctly rounded.
func dec(p float64) string { return strconv.FormatFloat(p, 'f', 12, 64) }

func twoU(u float64) string {
	d := 2 * u
	if d == math.Trunc(d) && math.Abs(d) < 1<<53 {
		return strconv.FormatInt(int64(d), 10)
	}
	return "f:" + hx.F64(u)
}

var altNames = []string{"less", "differs", "greater"}
var altVals = map[string]stats.LocationHypothesis{
	"less": stats.LocationLess, "differs": stats.LocationDiffers, "greater": stats.LocationGreater}

func errTag(err error) string {
	switch err {
	case stats.ErrSampleSize, benchstat.ErrSampleSize:
		return "!size"
	case stats.ErrSamplesEqual, benchstat.ErrSamplesEqual:
		return "!equal"
	}
	return "!other:" + hx.HexS(err.Error())
}

// runMW runs one alternative of one sample pair under the given limits.
func runMW(x1, x2 []int, scale, lim, limT int, alt string, tags string) {
	runMWf(floats(x1, scale), floats(x2, scale),
		fmt.Sprintf("x1=%s x2=%s scale=%d", ints(x1), ints(x2), scale), lim, limT, alt, tags)
}

func bitsList(xs []float64) string {
	if len(xs) == 0 {
		return "-"
	}
	p := make([]string, len(xs))
	for i, x := range xs {
		p[i] = hx.F64(x)
	}
	return strings.Join(p, ",")
}

// runMWbits runs a pair given as arbitrary finite float64 values; the case line carries the bit
// patterns (enc=bits), which the driver orders exactly.
func runMWbits(f1, f2 []float64, lim, limT int, alt string, tags string) {
	runMWf(f1, f2, fmt.Sprintf("enc=bits x1=%s x2=%s", bitsList(f1), bitsList(f2)), lim, limT, alt, tags)
}

// runBM drives the comparison benchstat (v2) actually prints: benchmath.AssumeNothing.Compare, in both
// orders of the two samples.
//
//	case <id> kind=bm x1=<ints> x2=<ints> scale=<k> lim=<moremath limits> tag=…
//	info <id> p=<bits> pswap=<bits>
//	obs/sobs <id> res=ok|!equal p=<12 decimals> pswap=<12 decimals>
func runBM(x1, x2 []int, scale int, tags string) {
	id, ok := mine()
	if !ok {
		return
	}
	hx.Printf("case %d kind=bm x1=%s x2=%s scale=%d lim=%d,%d tag=%s\n", id, ints(x1), ints(x2), scale,
		mstats.MannWhitneyExactLimit, mstats.MannWhitneyTiesExactLimit, tags)
	defer func() {
		if r := recover(); r != nil {
			hx.Printf("crash %d panic:%s\n", id, hx.HexS(fmt.Sprint(r)))
		}
	}()
	th := benchmath.DefaultThresholds
	cmp := func(a, b []int) (benchmath.Comparison, string) {
		s1 := benchmath.NewSample(floats(a, scale), &th)
		s2 := benchmath.NewSample(floats(b, scale), &th)
		c := benchmath.AssumeNothing.Compare(s1, s2)
		res := "ok"
		for _, w := range c.Warnings {
			if w == mstats.ErrSamplesEqual {
				res = "!equal"
			} else if w == mstats.ErrSampleSize {
				res = "!size"
			}
		}
		return c, res
	}
	c12, r12 := cmp(x1, x2)
	c21, r21 := cmp(x2, x1)
	res := r12
	if r21 != r12 {
		res = r12 + "/" + r21
	}
	hx.Printf("info %d p=%s pswap=%s\n", id, hx.F64(c12.P), hx.F64(c21.P))
	line := fmt.Sprintf("res=%s n=%d,%d p=%s pswap=%s", res, c12.N1, c12.N2, dec(c12.P), dec(c21.P))
	hx.Printf("obs %d %s\n", id, line)
	hx.Printf("sobs %d %s\n", id, line)
}

// layoutHook, when set, supplies the actual argument slices (and the buffer they live in).
var layoutHook func() (f1, f2, whole []float64)

func runMWf(in1, in2 []float64, fields string, lim, limT int, alt string, tags string) {
	id, ok := mine()
	if !ok {
		return
	}
	hx.Printf("case %d kind=mw alt=%s %s lim=%d,%d tag=%s\n", id, alt, fields, lim, limT, tags)
	defer func() {
		stats.MannWhitneyExactLimit, stats.MannWhitneyTiesExactLimit = defLim, defLimT
		if r := recover(); r != nil {
			hx.Printf("crash %d panic:%s\n", id, hx.HexS(fmt.Sprint(r)))
		}
	}()
	stats.MannWhitneyExactLimit, stats.MannWhitneyTiesExactLimit = lim, limT
	f1, f2 := append([]float64(nil), in1...), append([]float64(nil), in2...)
	g1, g2 := in1, in2 // pristine copies: the call must not reorder its arguments
	var whole, wholeCopy []float64
	if layoutHook != nil {
		// aliasing family: the arguments are windows of one caller buffer; the WHOLE buffer
		// (other window, padding, spare capacity) must come back untouched
		f1, f2, whole = layoutHook()
		wholeCopy = append([]float64(nil), whole...)
		if !sameBits(f1, g1) || !sameBits(f2, g2) {
			panic("harness: layout does not reproduce the case's samples")
		}
	}
	res, err := stats.MannWhitneyUTest(f1, f2, altVals[alt])
	info, line := "", ""
	if err != nil {
		info, line = "err="+errTag(err), "res="+errTag(err)
	} else {
		info = "u=" + hx.F64(res.U) + " p=" + hx.F64(res.P)
		line = fmt.Sprintf("res=ok n=%d,%d twoU=%s p=%s", res.N1, res.N2, twoU(res.U), dec(res.P))
	}
	kept := func() string {
		if sameBits(f1, g1) && sameBits(f2, g2) && sameBits(whole, wholeCopy) {
			return "kept"
		}
		return "mutated"
	}
	if alt == "differs" {
		// legacy path: benchstat.UTest is the two-sided test on RValues
		p, err := benchstat.UTest(&benchstat.Metrics{RValues: f1}, &benchstat.Metrics{RValues: f2})
		if err != nil {
			info += " legacy=" + errTag(err)
			line += fmt.Sprintf(" legacy=%s:%s", errTag(err), dec(p))
		} else {
			info += " legacy=" + hx.F64(p)
			line += " legacy=" + dec(p)
		}
	}
	line = "in=" + kept() + " " + line
	hx.Printf("info %d %s\n", id, info)
	hx.Printf("obs %d %s\n", id, line)
	hx.Printf("sobs %d %s\n", id, line)
}

func sameBits(a, b []float64) bool {
	if len(a) != len(b) {
		return false
	}
	for i := range a {
		if math.Float64bits(a[i]) != math.Float64bits(b[i]) {
			return false
		}
	}
	return true
}

// runLimits reports the package's default switch points between the exact and the approximate method.
func runLimits() {
	id, ok := mine()
	if !ok {
		return
	}
	hx.Printf("case %d kind=limits lim=%d,%d tag=limits\n", id, defLim, defLimT)
	hx.Printf("info %d -\n", id)
	hx.Printf("obs %d lim=%d,%d\n", id, defLim, defLimT)
	hx.Printf("sobs %d lim=%d,%d\n", id, defLim, defLimT)
}

func runMW3(x1, x2 []int, scale, lim, limT int, tags string) {
	for _, a := range altNames {
		runMW(x1, x2, scale, lim, limT, a, tags)
	}
}

// runDist evaluates PMF and CDF of UDist{n1,n2,T} on the grid twoU = lo, lo+step, …, hi (U = twoU/2).
func runDist(n1, n2 int, T []int, tags string) {
	id, ok := mine()
	if !ok {
		return
	}
	tied := false
	for _, t := range T {
		if t > 1 {
			tied = true
		}
	}
	lo, hi, step := -2, 2*n1*n2+2, 2
	if tied {
		step = 1 // with ties U moves in half steps; without, PMF requires an integral U
	}
	ts := "nil"
	if T != nil {
		ts = ints(T)
	}
	hx.Printf("case %d kind=dist n1=%d n2=%d t=%s grid=%d:%d:%d tag=%s\n", id, n1, n2, ts, lo, hi, step, tags)
	defer func() {
		if r := recover(); r != nil {
			hx.Printf("crash %d panic:%s\n", id, hx.HexS(fmt.Sprint(r)))
		}
	}()
	d := stats.UDist{N1: n1, N2: n2, T: T}
	var pb, cb, pd, cd []string
	sum := 0.0
	for k := lo; k <= hi; k += step {
		u := float64(k) / 2
		p, c := d.PMF(u), d.CDF(u)
		sum += p
		pb, cb = append(pb, hx.F64(p)), append(cb, hx.F64(c))
		pd, cd = append(pd, dec(p)), append(cd, dec(c))
	}
	hx.Printf("info %d pmf=%s cdf=%s sum=%s\n", id, strings.Join(pb, ","), strings.Join(cb, ","), hx.F64(sum))
	line := fmt.Sprintf("pmf=%s cdf=%s sum=%s", strings.Join(pd, ","), strings.Join(cd, ","), dec(sum))
	hx.Printf("obs %d %s\n", id, line)
	hx.Printf("sobs %d %s\n", id, line)
}

// ---------------------------------------------------------------- generators

func compositions(n int, f func([]int)) {
	var rec func(cur []int, left int)
	rec = func(cur []int, left int) {
		if left == 0 {
			f(cur)
			return
		}
		for c := 1; c <= left; c++ {
			rec(append(cur[:len(cur):len(cur)], c), left-c)
		}
	}
	rec(nil, n)
}

// rvectors enumerates r with 0 ≤ r[k] ≤ T[k], Σ r = n1.
func rvectors(T []int, n1 int, f func([]int)) {
	var rec func(k int, cur []int, left int)
	rec = func(k int, cur []int, left int) {
		if k == len(T) {
			if left == 0 {
				f(cur)
			}
			return
		}
		for r := 0; r <= T[k] && r <= left; r++ {
			rec(k+1, append(cur[:len(cur):len(cur)], r), left-r)
		}
	}
	rec(0, nil, n1)
}

// samplesOf builds the two samples for tie vector T and membership vector r: group k has value
// off+k*stride; returned shuffled (the code sorts a copy).
func samplesOf(rng *hx.Rand, T, r []int, off, stride int) (x1, x2 []int) {
	for k := range T {
		v := off + k*stride
		for i := 0; i < r[k]; i++ {
			x1 = append(x1, v)
		}
		for i := 0; i < T[k]-r[k]; i++ {
			x2 = append(x2, v)
		}
	}
	shuffle(rng, x1)
	shuffle(rng, x2)
	return
}

func shuffle(rng *hx.Rand, xs []int) {
	for i := len(xs) - 1; i > 0; i-- {
		j := rng.Intn(i + 1)
		xs[i], xs[j] = xs[j], xs[i]
	}
}

func randR(rng *hx.Rand, T []int, n1 int) []int {
	// choose n1 of the pooled positions uniformly
	var pool []int
	for k, t := range T {
		for i := 0; i < t; i++ {
			pool = append(pool, k)
		}
	}
	shuffle(rng, pool)
	r := make([]int, len(T))
	for _, k := range pool[:n1] {
		r[k]++
	}
	return r
}

func tagOf(T []int, n1, n2, lim, limT int, extra ...string) string {
	tied := false
	for _, t := range T {
		if t > 1 {
			tied = true
		}
	}
	var tags []string
	exact := !tied && n1 <= lim && n2 <= lim || tied && n1 <= limT && n2 <= limT
	switch {
	case n1 == 0 || n2 == 0:
		tags = append(tags, "empty")
	case len(T) == 1:
		tags = append(tags, "allequal")
	case exact && tied && len(T) == 2:
		tags = append(tags, "exact-tied-K2")
	case exact && tied:
		tags = append(tags, "exact-tied-Kge3")
	case exact:
		tags = append(tags, "exact-untied")
	case tied:
		tags = append(tags, "normal-tied")
	default:
		tags = append(tags, "normal-untied")
	}
	l := lim
	if tied {
		l = limT
	}
	if n1 == l || n2 == l || n1 == l+1 || n2 == l+1 {
		tags = append(tags, "atlimit")
	}
	tags = append(tags, extra...)
	return strings.Join(tags, "+")
}

func tieVec(x1, x2 []int) []int {
	cnt := map[int]int{}
	for _, v := range x1 {
		cnt[v]++
	}
	for _, v := range x2 {
		cnt[v]++
	}
	var T []int
	for _, c := range cnt {
		T = append(T, c) // order irrelevant for tagging
	}
	return T
}

func mwAuto(x1, x2 []int, scale, lim, limT int, extra ...string) {
	runMW3(x1, x2, scale, lim, limT, tagOf(tieVec(x1, x2), len(x1), len(x2), lim, limT, extra...))
}

func corpus() {
	// witnesses of F5, F6, N5 and the tied cases pinned by utest_test.go
	w := [][2][]int{
		{{1, 1}, {1, 2}},             // F5: K=2 base case, greater must be 1
		{{1, 2}, {2}}, {{2}, {1, 2}}, // N5
		{{0, 0, 1, 2}, {0, 1, 2}},    // F6 shape T=[3,2,2], n1=4
		{{2, 1, 3, 5}, {1, 1, 1, 1, 1}}, {{1, 1, 1, 1, 1}, {2, 1, 3, 5}}, // s1 vs s5 (pinned two-sided 0)
		{{2, 1, 3, 5}, {2, 2, 2, 2}}, {{2, 1, 3, 5}, {2, 1, 3, 5}}, {{2, 1, 3, 5}, {0, 4, 6, 7}},
		{{2, 1, 3, 5}, {12, 11, 13, 15}}, {{2, 2, 2, 2}, {2, 2, 2, 2}},
		{{4, 4, 5, 2}, {1, 0}}, {{1, 0}, {4, 4, 5, 2}},
	}
	for _, c := range w {
		mwAuto(c[0], c[1], 1, defLim, defLimT, "corpus")
	}
	// whole U with ties (breaker C11-Q) through benchmath
	for _, c := range [][2][]int{{{1}, {0, 0}}, {{2}, {0, 0, 1}}, {{1}, {0, 1, 1}}, {{5, 5, 7}, {5, 5, 6, 9}}, {{1, 2}, {2}}} {
		runBM(c[0], c[1], 1, tagOf(tieVec(c[0], c[1]), len(c[0]), len(c[1]), defLim, defLimT, "benchmath", "corpus"))
	}
	runDist(2, 2, []int{3, 1}, "corpus+exact-tied-K2")
	runDist(4, 3, []int{3, 2, 2}, "corpus+exact-tied-Kge3")
	// extra cases from corpus/C11/*.txt: lines "x1 | x2" of comma separated integers
	files, _ := filepath.Glob(filepath.Join(os.Getenv("VERIF_ROOT"), "corpus", "C11", "*.txt"))
	for _, f := range files {
		data, err := os.ReadFile(f)
		if err != nil {
			continue
		}
		for _, l := range strings.Split(string(data), "\n") {
			l = strings.TrimSpace(l)
			if l == "" || strings.HasPrefix(l, "#") {
				continue
			}
			parts := strings.Split(l, "|")
			if len(parts) != 2 {
				continue
			}
			mwAuto(parseInts(strings.TrimSpace(parts[0])), parseInts(strings.TrimSpace(parts[1])), 1, defLim, defLimT, "corpus")
		}
	}
}

func main() {
	defer hx.Flush()
	if s := os.Getenv("VERIF_NSHARDS"); s != "" {
		nshards, _ = strconv.Atoi(s)
		shard, _ = strconv.Atoi(os.Getenv("VERIF_SHARD"))
		if nshards < 1 {
			nshards = 1
		}
	}
	if lines := hx.ReplayLines(); lines != nil {
		nshards, shard = 1, 0
		for _, l := range lines {
			kind, _ := hx.Field(l, "kind")
			tag, _ := hx.Field(l, "tag")
			if kind == "dist" {
				n1s, _ := hx.Field(l, "n1")
				n2s, _ := hx.Field(l, "n2")
				ts, _ := hx.Field(l, "t")
				n1, _ := strconv.Atoi(n1s)
				n2, _ := strconv.Atoi(n2s)
				runDist(n1, n2, parseInts(ts), tag)
				continue
			}
			x1s, _ := hx.Field(l, "x1")
			x2s, _ := hx.Field(l, "x2")
			if enc, _ := hx.Field(l, "enc"); enc == "bits" {
				lims, _ := hx.Field(l, "lim")
				alt, _ := hx.Field(l, "alt")
				lm := parseInts(lims)
				runMWbits(parseBits(x1s), parseBits(x2s), lm[0], lm[1], alt, tag)
				continue
			}
			sc, _ := hx.Field(l, "scale")
			lims, _ := hx.Field(l, "lim")
			alt, _ := hx.Field(l, "alt")
			scale, _ := strconv.Atoi(sc)
			lm := parseInts(lims)
			runMW(parseInts(x1s), parseInts(x2s), scale, lm[0], lm[1], alt, tag)
		}
		return
	}
	rng := hx.NewRand(11)
	thorough := hx.Tier() == "thorough"

	// 0. the default limits, then the corpus
	runLimits()
	corpus()

	// 1. errors: empty samples, all-equal samples on both branches
	mwAuto(nil, nil, 1, defLim, defLimT)
	mwAuto(nil, []int{1, 2}, 1, defLim, defLimT)
	mwAuto([]int{3}, nil, 1, defLim, defLimT)
	for _, n := range [][2]int{{1, 1}, {3, 2}, {defLimT, defLimT}, {defLimT + 1, 2}, {2, defLim + 1}, {defLim + 3, defLim + 2}} {
		x1, x2 := make([]int, n[0]), make([]int, n[1])
		for i := range x1 {
			x1[i] = 7
		}
		for i := range x2 {
			x2[i] = 7
		}
		mwAuto(x1, x2, 2, defLim, defLimT)
	}

	// 2. every tie vector with N ≤ maxN and every n1: the distribution at all (half) steps;
	//    MannWhitneyUTest on every membership vector for N ≤ allR, on two random ones above
	maxN, allR := 8, 6
	if thorough {
		maxN, allR = 10, 7
	}
	for N := 2; N <= maxN; N++ {
		compositions(N, func(T []int) {
			T = append([]int(nil), T...)
			for n1 := 1; n1 < N; n1++ {
				if len(T) >= 2 {
					runDist(n1, N-n1, T, tagOf(T, n1, N-n1, defLim, defLimT))
					if len(T) == N && rng.Chance(1, 2) {
						runDist(n1, N-n1, nil, tagOf(T, n1, N-n1, defLim, defLimT, "nilT"))
					}
				}
				off, stride, scale := rng.Intn(7)-3, 1+rng.Intn(3), 1<<uint(rng.Intn(3))
				if N <= allR {
					rvectors(T, n1, func(r []int) {
						x1, x2 := samplesOf(rng, T, r, off, stride)
						mwAuto(x1, x2, scale, defLim, defLimT)
					})
				} else {
					for i := 0; i < 2; i++ {
						x1, x2 := samplesOf(rng, T, randR(rng, T, n1), off, stride)
						mwAuto(x1, x2, scale, defLim, defLimT)
					}
				}
			}
		})
	}

	// 3. every multiset over a 3-letter alphabet, sizes ≤ m × m
	m := 4
	if thorough {
		m = 5
	}
	var multis [][]int
	for n := 1; n <= m; n++ {
		for a := 0; a <= n; a++ {
			for b := 0; a+b <= n; b++ {
				var x []int
				for i := 0; i < a; i++ {
					x = append(x, 0)
				}
				for i := 0; i < b; i++ {
					x = append(x, 1)
				}
				for i := 0; i < n-a-b; i++ {
					x = append(x, 2)
				}
				multis = append(multis, x)
			}
		}
	}
	for _, x1 := range multis {
		for _, x2 := range multis {
			mwAuto(x1, x2, 1, defLim, defLimT, "abc")
		}
	}

	// 3b. benchmath.AssumeNothing.Compare (what cmd/benchstat prints): every pair of multisets over a
	//     3-letter alphabet with sizes up to mb x mb (unequal sizes, ties inside one sample, whole and
	//     half-integral U), plus random pairs over 4 letters, sizes 1..6
	mb := 5
	if thorough {
		mb = 6
	}
	var bmMultis [][]int
	for n := 1; n <= mb; n++ {
		for a := 0; a <= n; a++ {
			for b := 0; a+b <= n; b++ {
				var x []int
				for i := 0; i < a; i++ {
					x = append(x, 0)
				}
				for i := 0; i < b; i++ {
					x = append(x, 1)
				}
				for i := 0; i < n-a-b; i++ {
					x = append(x, 2)
				}
				bmMultis = append(bmMultis, x)
			}
		}
	}
	for _, x1 := range bmMultis {
		for _, x2 := range bmMultis {
			runBM(x1, x2, 1, tagOf(tieVec(x1, x2), len(x1), len(x2), defLim, defLimT, "benchmath"))
		}
	}
	for i, n := 0, hx.N(500, 5000); i < n; i++ {
		n1, n2 := 1+rng.Intn(6), 1+rng.Intn(6)
		x1, x2 := make([]int, n1), make([]int, n2)
		for j := range x1 {
			x1[j] = rng.Intn(4)
		}
		for j := range x2 {
			x2[j] = rng.Intn(4)
		}
		runBM(x1, x2, 1<<uint(rng.Intn(3)), tagOf(tieVec(x1, x2), n1, n2, defLim, defLimT, "benchmath"))
	}

	// 4. lowered limits: both branches and the switch between them at small sizes
	nlow := hx.N(400, 6000)
	for i := 0; i < nlow; i++ {
		lim, limT := 2+rng.Intn(7), 1+rng.Intn(6)
		n1, n2 := 1+rng.Intn(lim+3), 1+rng.Intn(lim+3)
		if rng.Chance(1, 3) {
			n1 = []int{lim, lim + 1, limT, limT + 1}[rng.Intn(4)]
		}
		vals := 1 + rng.Intn(2*(n1+n2))
		if rng.Chance(1, 4) {
			vals = 1000 // (almost surely) no ties
		}
		x1, x2 := make([]int, n1), make([]int, n2)
		for j := range x1 {
			x1[j] = rng.Intn(vals) - vals/2
		}
		for j := range x2 {
			x2[j] = rng.Intn(vals) - vals/2
		}
		if vals == 1000 {
			distinct(x1, x2)
		}
		mwAuto(x1, x2, 1<<uint(rng.Intn(4)), lim, limT, "lowlim")
	}

	// 4b. near-ties: values 1-4 ulps apart (must NOT be grouped), mixed with true ties
	nearTies(rng)

	// 4b'. extremes: ±Inf (anywhere in the slice, several, both signs) and magnitudes near MaxFloat64 of
	//      both signs have perfectly good ranks; exact, approximate and legacy paths
	extremes(rng)

	// 4b''. bigtie: one value repeated 255..520 times (byte-sized counters wrap at 256); approximate branch
	bigTie(rng)

	// 4b3. conc: the same untied exact evaluations sequentially, then from 8 goroutines at once
	for b, nb := 0, hx.N(1, 10); b < nb; b++ {
		concBatch(rng, b)
	}

	// 4c. histories: look-alike tie vectors with large tie groups, evaluated one after the other in
	//     one process; every answer must be the one the stateless specification gives for ITS case
	historyFamily(rng)

	// 4d. state and aliasing: limits flipped between calls; arguments as windows of one buffer
	stateFamily(rng)

	// 5. random samples up to and across the real limits, K ∈ {1,2,3,…}
	nbig := hx.N(8, 60)
	for i := 0; i < nbig; i++ {
		// untied around MannWhitneyExactLimit
		n1, n2 := defLim-4+rng.Intn(8), defLim-4+rng.Intn(8)
		if i%4 == 0 {
			n1, n2 = defLim, defLim-rng.Intn(3)
		} else if i%4 == 1 {
			n1, n2 = defLim+1, 3+rng.Intn(defLim)
		}
		x1, x2 := make([]int, n1), make([]int, n2)
		shift := rng.Intn(n1+n2) - (n1+n2)/2
		for j := range x1 {
			x1[j] = rng.Intn(4*(n1+n2)) + shift
		}
		for j := range x2 {
			x2[j] = rng.Intn(4 * (n1 + n2))
		}
		distinct(x1, x2)
		mwAuto(x1, x2, 1, defLim, defLimT, "big")
	}
	ntied := hx.N(12, 90)
	for i := 0; i < ntied; i++ {
		n1, n2 := defLimT-3+rng.Intn(6), defLimT-3+rng.Intn(6)
		if i%4 == 0 {
			n1, n2 = defLimT, defLimT-rng.Intn(3)
		} else if i%4 == 1 {
			n1, n2 = defLimT+1, 2+rng.Intn(defLimT)
		}
		K := []int{1, 2, 3, 4, 6, 10, 20, 40}[rng.Intn(8)]
		if i < 3 {
			K = i + 1
		}
		x1, x2 := make([]int, n1), make([]int, n2)
		for j := range x1 {
			x1[j] = rng.Intn(K)
			if K > 1 && rng.Chance(1, 3) {
				x1[j] = rng.Intn((K + 1) / 2) // shift the first sample downwards
			}
		}
		for j := range x2 {
			x2[j] = rng.Intn(K)
		}
		mwAuto(x1, x2, 1<<uint(rng.Intn(3)), defLim, defLimT, "big")
	}
	// distributions of moderate size, tied and untied
	nd := hx.N(6, 40)
	for i := 0; i < nd; i++ {
		n1, n2 := 2+rng.Intn(9), 2+rng.Intn(9)
		if i%2 == 0 {
			runDist(n1, n2, nil, "exact-untied+nilT+mid")
			continue
		}
		N := n1 + n2
		var T []int
		for left := N; left > 0; {
			t := 1 + rng.Intn(4)
			if t > left {
				t = left
			}
			T = append(T, t)
			left -= t
		}
		if len(T) < 2 {
			continue
		}
		runDist(n1, n2, T, tagOf(T, n1, n2, defLim, defLimT, "mid"))
	}
}

// stateFamily (one process per block):
//   * limit flips: the same pair under default limits, lowered limits, default again, raised limits,
//     default again - the package variables are changed between calls in both directions;
//   * aliasing: x1 and x2 as windows of ONE caller buffer - adjacent with spare capacity (x2 right
//     behind x1 inside x1's capacity), adjacent with capacity clipped, x2 in front of x1, overlapping
//     windows, the very same slice as both arguments - with padding before/after. The case's samples
//     are the window contents; the result must be the specification's for those values (i.e. what the
//     call on fresh copies gives) and the whole buffer must be left as it was (in=kept).
func stateFamily(rng *hx.Rand) {
	defer func() { pinShard = -1; layoutHook = nil }()
	nb := hx.N(12, 120)
	for b := 0; b < nb; b++ {
		pinShard = 1000 + b
		n1, n2 := 1+rng.Intn(6), 1+rng.Intn(6)
		vals := 2 + rng.Intn(2*(n1+n2))
		x1, x2 := make([]int, n1), make([]int, n2)
		for i := range x1 {
			x1[i] = rng.Intn(vals)
		}
		for i := range x2 {
			x2[i] = rng.Intn(vals)
		}
		small, smallT := 1+rng.Intn(max(n1, n2)), rng.Intn(max(n1, n2))
		for _, lm := range [][2]int{{defLim, defLimT}, {small, smallT}, {defLim, defLimT}, {2 * defLim, 2 * defLim}, {defLim, defLimT}} {
			mwAuto(x1, x2, 1, lm[0], lm[1], "limitflip")
		}
	}
	na := hx.N(60, 600)
	for b := 0; b < na; b++ {
		pinShard = 2000 + b
		// buffer: pad | A | gap | B | pad, windows may be adjacent (gap 0) or overlap (negative gap)
		n1, n2 := 1+rng.Intn(7), 1+rng.Intn(7)
		pre, post := rng.Intn(3), rng.Intn(4)
		kind := b % 6
		gap := 0
		switch kind {
		case 2:
			gap = 1 + rng.Intn(2)
		case 3: // overlap
			gap = -(1 + rng.Intn(min(n1, n2)))
		}
		total := pre + n1 + gap + n2 + post
		vals := 2 + rng.Intn(2*(n1+n2))
		if b%3 == 0 {
			vals = 1000
		}
		buf := make([]int, total)
		for i := range buf {
			buf[i] = rng.Intn(vals) - vals/3
		}
		a0, a1 := pre, pre+n1
		b0, b1 := a1+gap, a1+gap+n2
		if kind == 4 { // x2 in front of x1
			a0, a1, b0, b1 = b0, b1, a0, a1
		}
		if kind == 5 { // the very same slice twice
			b0, b1 = a0, a1
		}
		clip := rng.Bool() // clip the capacity of the windows (no spare capacity) or leave it open
		x1, x2 := append([]int(nil), buf[a0:a1]...), append([]int(nil), buf[b0:b1]...)
		layoutHook = func() ([]float64, []float64, []float64) {
			fb := floats(buf, 4)
			if clip {
				return fb[a0:a1:a1], fb[b0:b1:b1], fb
			}
			if kind == 5 {
				s := fb[a0:a1]
				return s, s, fb
			}
			return fb[a0:a1], fb[b0:b1], fb
		}
		lim, limT := defLim, defLimT
		if b%4 == 1 {
			lim, limT = 2+rng.Intn(5), 1+rng.Intn(4)
		}
		tag := []string{"alias", []string{"adjacent", "adjacent", "gap", "overlap", "swapped", "same"}[kind]}
		if !clip {
			tag = append(tag, "sparecap")
		}
		mwAuto(x1, x2, 4, lim, limT, tag...)
		layoutHook = nil
	}
}

// segmentations lists every way to cut the digit string into numbers 1..25 without leading zeros.
func segmentations(d string) [][]int {
	var out [][]int
	var rec func(pos int, cur []int)
	rec = func(pos int, cur []int) {
		if pos == len(d) {
			if len(cur) >= 2 {
				out = append(out, append([]int(nil), cur...))
			}
			return
		}
		if d[pos] == '0' {
			return
		}
		for l := 1; l <= 2 && pos+l <= len(d); l++ {
			v, _ := strconv.Atoi(d[pos : pos+l])
			if v >= 1 && v <= 25 {
				rec(pos+l, append(cur[:len(cur):len(cur)], v))
			}
		}
	}
	rec(0, nil)
	return out
}

func digits(T []int) string {
	var b strings.Builder
	for _, t := range T {
		b.WriteString(strconv.Itoa(t))
	}
	return b.String()
}

func sumInts(T []int) int {
	n := 0
	for _, t := range T {
		n += t
	}
	return n
}

// twoUofR is 2U of the assignment class r of tie vector T (pair counting per group).
func twoUofR(T, r []int) int {
	below, u := 0, 0
	for k := range T {
		u += 2*r[k]*below + r[k]*(T[k]-r[k])
		below += T[k] - r[k]
	}
	return u
}

// historyFamily: tie vectors with a group of 10-14 values whose decimal digits, written one after
// the other, read the same as another tie vector's ({1,11,1}, {11,1,1}, {1,1,11}; {1,12}, {11,2}; ...):
// permutations and re-splittings. All members of a family are evaluated in ONE process, with equal N1
// and at equal 2U (the distribution cases sweep every 2U; the test cases are chosen to share n1 and U),
// in both orders. MannWhitneyUTest and UDist are functions of their arguments: what was computed
// before must not matter.
func historyFamily(rng *hx.Rand) {
	defer func() { pinShard = -1 }()
	seen := map[string]bool{}
	var fams [][][]int
	var build func(cur []int, bigs int)
	build = func(cur []int, bigs int) {
		if len(cur) >= 2 && bigs >= 1 {
			d := digits(cur)
			if !seen[d] {
				seen[d] = true
				var fam [][]int
				for _, T := range segmentations(d) {
					if sumInts(T) <= 24 {
						fam = append(fam, T)
					}
				}
				if len(fam) >= 2 {
					fams = append(fams, fam)
				}
			}
		}
		if len(cur) == 4 {
			return
		}
		for _, v := range []int{1, 2, 3, 10, 11, 12, 13, 14} {
			nb := bigs
			if v >= 10 {
				nb++
			}
			if nb <= 1 || (nb == 2 && len(cur) <= 1) {
				build(append(cur[:len(cur):len(cur)], v), nb)
			}
		}
	}
	build(nil, 0)
	// a deterministic sample of the families, the coordinator's witnesses first
	first := [][][]int{segFam("1111"), segFam("112"), segFam("1112"), segFam("1211")}
	nf := hx.N(40, 400)
	pick := first
	for i := 0; i < nf && len(fams) > 0; i++ {
		pick = append(pick, fams[rng.Intn(len(fams))])
	}
	for fi, fam := range pick {
		pinShard = fi
		// (a) distributions: every member with the same n1, all 2U; second n1 in reverse order
		for pass, n1 := range []int{2 + fi%4, 5 + fi%2} {
			order := fam
			if pass == 1 {
				order = nil
				for i := len(fam) - 1; i >= 0; i-- {
					order = append(order, fam[i])
				}
			}
			for _, T := range order {
				if N := sumInts(T); n1 < N && N-n1 <= defLimT && hasTie(T) {
					runDist(n1, N-n1, T, tagOf(T, n1, N-n1, defLim, defLimT, "history"))
				}
			}
		}
		// (b) tests: pairs of members with equal N, equal n1 and an attainable common 2U
		for i := 0; i < len(fam); i++ {
			for j := 0; j < len(fam); j++ {
				if i == j || sumInts(fam[i]) != sumInts(fam[j]) || !hasTie(fam[i]) || !hasTie(fam[j]) {
					continue
				}
				N := sumInts(fam[i])
				n1 := 3 + (i+j+fi)%4
				if n1 >= N || N-n1 > defLimT || n1 > defLimT {
					continue
				}
				byU := map[int][]int{}
				rvectors(fam[i], n1, func(r []int) { byU[twoUofR(fam[i], r)] = append([]int(nil), r...) })
				done := 0
				rvectors(fam[j], n1, func(r2 []int) {
					r1, ok := byU[twoUofR(fam[j], r2)]
					if !ok || done >= 2 {
						return
					}
					done++
					a1, a2 := samplesOf(rng, fam[i], r1, 0, 1)
					b1, b2 := samplesOf(rng, fam[j], append([]int(nil), r2...), 0, 1)
					for _, alt := range altNames {
						runMW(a1, a2, 1, defLim, defLimT, alt, tagOf(fam[i], n1, N-n1, defLim, defLimT, "history"))
						runMW(b1, b2, 1, defLim, defLimT, alt, tagOf(fam[j], n1, N-n1, defLim, defLimT, "history"))
					}
				})
			}
		}
	}
}

func segFam(d string) [][]int {
	var fam [][]int
	for _, T := range segmentations(d) {
		if sumInts(T) <= 24 {
			fam = append(fam, T)
		}
	}
	return fam
}

func hasTie(T []int) bool {
	for _, t := range T {
		if t > 1 {
			return true
		}
	}
	return false
}

// bigTie: samples of 260-600 values in which one value occurs 255/256/257/300/520 times in the first
// sample (controls: the long run in the second sample, or split over both). All on the approximate
// branch, three alternatives, legacy benchstat.UTest through alt=differs. U is the pair count as ever.
func bigTie(rng *hx.Rand) {
	build := func(n, rep, v int, spread int) []int {
		x := make([]int, 0, n)
		for i := 0; i < rep; i++ {
			x = append(x, v)
		}
		for len(x) < n {
			w := rng.Intn(spread) - spread/2
			if w == v {
				continue
			}
			x = append(x, w)
		}
		shuffle(rng, x)
		return x
	}
	reps := []int{255, 256, 257, 300, 520}
	for i, r := range reps {
		n1 := r + 5 + rng.Intn(40)
		if n1 < 260 {
			n1 = 260 + rng.Intn(20)
		}
		n2 := 260 + rng.Intn(60)
		v := 5
		// long run in the first sample; the second has a few copies of v and many other values
		mwAuto(build(n1, r, v, 40), build(n2, 3+i, v, 40), 1, defLim, defLimT, "bigtie")
		// control: the long run in the SECOND sample
		mwAuto(build(n2, 3+i, v, 40), build(n1, r, v, 40), 1, defLim, defLimT, "bigtie")
		// long runs in both, wide spread of the other values (few other ties)
		mwAuto(build(n1, r, v, 100000), build(n2, 256+i, v, 100000), 2, defLim, defLimT, "bigtie")
	}
	// completely separated: |z| about 30 (first sample far above / far below the second)
	sepHi, sepLo := build(300, 280, 1, 10), make([]int, 320)
	for j := range sepLo {
		sepLo[j] = -100 - rng.Intn(3)
	}
	mwAuto(sepHi, sepLo, 1, defLim, defLimT, "bigtie", "separated")
	mwAuto(sepLo, sepHi, 1, defLim, defLimT, "bigtie", "separated")
	for i, n := 0, hx.N(4, 30); i < n; i++ {
		r := 250 + rng.Intn(300)
		n1, n2 := r+1+rng.Intn(600-r), 260+rng.Intn(340)
		// even i: the same repeated value and spread on both sides (moderate z); odd i: different
		// repeated values and spreads - the samples may be completely separated (|z| around 30,
		// p = 1 or about 0; beyond |z| = 13 the driver compares with the limit value absolutely)
		v, spread := rng.Intn(7)-3, 30+rng.Intn(500)
		v2, spread2 := v, spread
		if i%2 == 1 {
			v2, spread2 = rng.Intn(7)-3, 30+rng.Intn(500)
		}
		mwAuto(build(n1, r, v, spread), build(n2, rng.Intn(300), v2, spread2), 1, defLim, defLimT, "bigtie")
	}
}

// concBatch: a few hundred untied exact calls (MannWhitneyUTest x 3 alternatives on eight size pairs, and
// UDist PMF/CDF sweeps) are first made one after the other - the test calls are also emitted as ordinary
// mw cases and judged by the specification - and then repeated from 8 goroutines at the same time.
// Every concurrent result must be bit-identical to the sequential one: the functions are pure.
//
//	case <id> kind=conc calls=<n> goroutines=8 rounds=<r> tag=conc
//	obs/sobs <id> conc=<number of concurrent results that differ (a recovered panic counts)> [first=…]
func concBatch(rng *hx.Rand, b int) {
	pinShard = 3000 + b
	defer func() { pinShard = -1 }()
	type call struct {
		f1, f2 []float64
		alt    string
		dist   *stats.UDist // when set: PMF and CDF sweep instead of a test
	}
	sizes := [][2]int{{3, 4}, {5, 5}, {6, 9}, {10, 10}, {12, 7}, {15, 15}, {20, 20}, {8, 30}}
	var calls []call
	for _, sz := range sizes {
		for rep := 0; rep < 4; rep++ {
			x1, x2 := make([]int, sz[0]), make([]int, sz[1])
			for j := range x1 {
				x1[j] = rng.Intn(8 * (sz[0] + sz[1]))
			}
			for j := range x2 {
				x2[j] = rng.Intn(8 * (sz[0] + sz[1]))
			}
			distinct(x1, x2)
			mwAuto(x1, x2, 1, defLim, defLimT, "conc") // the sequential, spec-judged evaluation
			for _, a := range altNames {
				calls = append(calls, call{f1: floats(x1, 1), f2: floats(x2, 1), alt: a})
			}
		}
		calls = append(calls, call{dist: &stats.UDist{N1: sz[0], N2: sz[1]}})
	}
	id, ok := mine()
	if !ok {
		return
	}
	eval := func(c call) (out []uint64) {
		defer func() {
			if r := recover(); r != nil {
				out = []uint64{0xdead}
			}
		}()
		if c.dist != nil {
			for u := 0; u <= c.dist.N1*c.dist.N2; u++ {
				out = append(out, math.Float64bits(c.dist.PMF(float64(u))), math.Float64bits(c.dist.CDF(float64(u))))
			}
			return out
		}
		res, err := stats.MannWhitneyUTest(c.f1, c.f2, altVals[c.alt])
		if err != nil {
			return []uint64{1}
		}
		return []uint64{math.Float64bits(res.U), math.Float64bits(res.P)}
	}
	same := func(a, b []uint64) bool {
		if len(a) != len(b) {
			return false
		}
		for i := range a {
			if a[i] != b[i] {
				return false
			}
		}
		return true
	}
	ref := make([][]uint64, len(calls))
	for i, c := range calls {
		ref[i] = eval(c)
	}
	const G, rounds = 8, 3
	diff := make([]int, G)
	firsts := make([]int, G)
	done := make(chan int, G)
	for g := 0; g < G; g++ {
		firsts[g] = -1
		go func(g int) {
			defer func() { done <- g }()
			for r := 0; r < rounds; r++ {
				for k := range calls {
					i := (k*7 + g*13 + r) % len(calls) // every goroutine walks the calls in its own order
					if !same(eval(calls[i]), ref[i]) {
						diff[g]++
						if firsts[g] < 0 {
							firsts[g] = i
						}
					}
				}
			}
		}(g)
	}
	for g := 0; g < G; g++ {
		<-done
	}
	total, first := 0, -1
	for g := 0; g < G; g++ {
		total += diff[g]
		if first < 0 && firsts[g] >= 0 {
			first = firsts[g]
		}
	}
	line := fmt.Sprintf("conc=%d", total)
	if first >= 0 {
		c := calls[first]
		if c.dist != nil {
			line += fmt.Sprintf(" first=dist:%dx%d", c.dist.N1, c.dist.N2)
		} else {
			line += fmt.Sprintf(" first=%s:%dx%d", c.alt, len(c.f1), len(c.f2))
		}
	}
	hx.Printf("case %d kind=conc calls=%d goroutines=%d rounds=%d tag=conc\n", id, len(calls), G, rounds)
	hx.Printf("info %d -\n", id)
	hx.Printf("obs %d %s\n", id, line)
	hx.Printf("sobs %d %s\n", id, line)
}

func extremes(rng *hx.Rand) {
	inf, ninf, mx := math.Inf(1), math.Inf(-1), math.MaxFloat64
	fixed := [][2][]float64{
		{{1, inf, 3}, {2, 4}},
		{{inf, 5}, {1, 2, 9}},
		{{2, 4, 6}, {ninf, 3, 5, 7}},
		{{-1.5e308, 1.5e308, 0}, {1, 2}},
		{{inf, inf, 1}, {inf, 2}},
		{{ninf, 0, inf}, {ninf, inf, 0}},
		{{mx, -mx, 1}, {mx, 2, -mx, 3}},
		{{inf}, {ninf}},
		{{inf, 1}, {inf, inf}},
	}
	for _, c := range fixed {
		mwBits3(c[0], c[1], defLim, defLimT, "extremes")
		mwBits3(c[1], c[0], defLim, defLimT, "extremes")
	}
	special := []float64{inf, ninf, mx, -mx, 1.5e308, -1.5e308, 1e308, -1e308, 1.7e308}
	n := hx.N(400, 5000)
	for i := 0; i < n; i++ {
		n1, n2 := 1+rng.Intn(6), 1+rng.Intn(6)
		lim, limT := defLim, defLimT
		extra := []string{"extremes"}
		switch {
		case i%20 == 0: // both samples beyond the untied limit: approximate method, distinct values + specials
			n1, n2 = defLim+1+rng.Intn(10), defLim+1+rng.Intn(10)
			extra = append(extra, "big")
		case i%20 == 1: // around the tied limit
			n1, n2 = defLimT-2+rng.Intn(5), defLimT-2+rng.Intn(5)
			extra = append(extra, "big")
		case i%4 == 2:
			lim, limT = 2+rng.Intn(5), 1+rng.Intn(4)
			n1, n2 = 1+rng.Intn(lim+2), 1+rng.Intn(lim+2)
			extra = append(extra, "lowlim")
		}
		vals := 3 + rng.Intn(2*(n1+n2))
		pSpecial := 1 + rng.Intn(4) // 1/2 .. 1/5 of the values are special
		draw := func() float64 {
			if rng.Intn(pSpecial+1) == 0 {
				return special[rng.Intn(len(special))]
			}
			return float64(rng.Intn(vals) - vals/2)
		}
		f1, f2 := make([]float64, n1), make([]float64, n2)
		for j := range f1 {
			f1[j] = draw()
		}
		for j := range f2 {
			f2[j] = draw()
		}
		if i%20 == 0 {
			// untied large samples with a single +Inf / -Inf somewhere in the middle
			for j := range f1 {
				f1[j] = float64(2*j) + 0.5
			}
			for j := range f2 {
				f2[j] = float64(2*j) - 7
			}
			f1[rng.Intn(n1-1)] = inf
			if rng.Bool() {
				f2[rng.Intn(n2-1)] = ninf
			}
			if rng.Bool() {
				f2[rng.Intn(n2-1)+0] = mx
			}
		}
		mwBits3(f1, f2, lim, limT, extra...)
	}
}

// ulps moves x by k representable steps (k may be negative).
func ulps(x float64, k int) float64 {
	for ; k > 0; k-- {
		x = math.Nextafter(x, math.Inf(1))
	}
	for ; k < 0; k++ {
		x = math.Nextafter(x, math.Inf(-1))
	}
	return x
}

func tagF(f1, f2 []float64, lim, limT int, extra ...string) string {
	cnt := map[float64]int{}
	for _, v := range f1 {
		cnt[v+0]++ // -0 and +0 are one value
	}
	for _, v := range f2 {
		cnt[v+0]++
	}
	var T []int
	for _, c := range cnt {
		T = append(T, c)
	}
	return tagOf(T, len(f1), len(f2), lim, limT, extra...)
}

func mwBits3(f1, f2 []float64, lim, limT int, extra ...string) {
	tags := tagF(f1, f2, lim, limT, extra...)
	for _, a := range altNames {
		runMWbits(f1, f2, lim, limT, a, tags)
	}
}

// nearTies: samples drawn from clusters of floats a few ulps apart around several magnitudes.
// Exact float comparison decides what is a tie: 2 and 2+1ulp are different values.
func nearTies(rng *hx.Rand) {
	a, b := 0.1, 0.2
	sum := a + b // 0.30000000000000004 at run time, != 0.3
	one := 1.0
	fixed := [][2][]float64{
		{{ulps(2, 1), 5}, {2, 7}},
		{{ulps(1, 1)}, {1}},
		{{1}, {ulps(1, 1)}},
		{{sum, 1}, {0.3, 0.3}},
		{{0.3}, {sum}},
		{{one * (1 + 1e-13), 2}, {1, 2}},
		{{ulps(1, -1), 1, ulps(1, 1)}, {1, 1}},
		{{0, ulps(0, 1)}, {math.Copysign(0, -1), ulps(0, -1)}}, // ±0 tie, smallest subnormals do not
		{{1e300, ulps(1e300, 2)}, {ulps(1e300, 1), 1e300}},
		{{-2, ulps(-2, 1)}, {ulps(-2, -1), -2, -2}},
	}
	for _, c := range fixed {
		mwBits3(c[0], c[1], defLim, defLimT, "nearties")
		mwBits3(c[1], c[0], defLim, defLimT, "nearties")
	}
	bases := []float64{1, 2, 0.3, sum, 3.5e10, 1e-300, 1e300, -2, -0.7, 5e-324, 0, 1 << 52, 1023.999}
	n := hx.N(500, 6000)
	for i := 0; i < n; i++ {
		// a few clusters; inside a cluster the offsets 0 (true tie), ±1, ±2, ±4 ulps, or a relative 1e-13
		nc := 1 + rng.Intn(3)
		var cl []float64
		for j := 0; j < nc; j++ {
			cl = append(cl, bases[rng.Intn(len(bases))])
		}
		draw := func() float64 {
			v := cl[rng.Intn(len(cl))]
			switch rng.Intn(8) {
			case 0, 1, 2:
				return v
			case 3:
				return ulps(v, 1)
			case 4:
				return ulps(v, -1)
			case 5:
				return ulps(v, 2-4*rng.Intn(2))
			case 6:
				return ulps(v, 4-8*rng.Intn(2))
			}
			return v * (1 + 1e-13)
		}
		n1, n2 := 1+rng.Intn(6), 1+rng.Intn(6)
		lim, limT := defLim, defLimT
		extra := []string{"nearties"}
		switch {
		case i%25 == 0: // large: around the tied limit, both branches
			n1, n2 = defLimT-2+rng.Intn(5), defLimT-2+rng.Intn(5)
			extra = append(extra, "big")
		case i%5 == 0: // lowered limits: the grouping also decides the branch and the tie correction
			lim, limT = 2+rng.Intn(5), 1+rng.Intn(4)
			n1, n2 = 1+rng.Intn(lim+2), 1+rng.Intn(lim+2)
			extra = append(extra, "lowlim")
		}
		f1, f2 := make([]float64, n1), make([]float64, n2)
		for j := range f1 {
			f1[j] = draw()
		}
		for j := range f2 {
			f2[j] = draw()
		}
		mwBits3(f1, f2, lim, limT, extra...)
	}
}

// distinct makes all values of x1 ∪ x2 distinct while keeping their relative order where they differ.
func distinct(x1, x2 []int) {
	seen := map[int]bool{}
	fix := func(xs []int) {
		for i, v := range xs {
			v *= 1024
			for seen[v] {
				v++
			}
			seen[v] = true
			xs[i] = v
		}
	}
	fix(x1)
	fix(x2)
}
