#!/bin/sh
# harness/c15 shares its code with harness/c14 (two main packages cannot share files):
# copy everything except mode.go.
cd "$(dirname "$0")" && for f in gen.go pipe.go asm.go main.go sched.go raw.go child.go colpos.go hooks/benchproc_export.go hooks/benchstat_history.go; do cp ../c14/$f $f; done
