//go:build verif

package main

import (
	"fmt"
	"math"
	"sort"
	"strings"

	"github.com/aclements/go-moremath/stats"
	"golang.org/x/perf/benchmath"
	"golang.org/x/perf/benchunit"
	"golang.org/x/perf/internal/verifh/hx"
)

func tidyOf(u string) string {
	_, t := benchunit.Tidy(1, u)
	return t
}

// ---------------------------------------------------------------- independent grouping
// The "assembler": groups the projected stream by (table,row,col) STRING tuples with its
// own ten lines of code (no benchtab), then asks the real benchmath for the statistics of
// every group, of every same-row pair of groups and the real GeoMean for every column /
// candidate baseline. The Lean model decides WHICH of these answers goes WHERE.

type gkey struct{ t, r, c int }

type group struct {
	k     gkey
	vals  []float64
	zs    []int // distinct residue ids, first appearance order
	first int
}

type grouping struct {
	m     map[gkey]*group
	order []*group
}

func groupStream(s *Stream) *grouping {
	g := &grouping{m: map[gkey]*group{}}
	n := 0
	for _, r := range s.res {
		for j, t := range r.t {
			k := gkey{t, r.r, r.c}
			gr := g.m[k]
			if gr == nil {
				gr = &group{k: k, first: n}
				g.m[k] = gr
				g.order = append(g.order, gr)
			}
			gr.vals = append(gr.vals, r.v[j])
			has := false
			for _, z := range gr.zs {
				has = has || z == r.z
			}
			if !has {
				gr.zs = append(gr.zs, r.z)
			}
			n++
		}
	}
	return g
}

// canon renders a multiset of floats canonically: bit patterns sorted numerically.
func canon(vals []float64) string {
	bs := make([]uint64, len(vals))
	for i, v := range vals {
		bs[i] = math.Float64bits(v)
	}
	sort.Slice(bs, func(i, j int) bool { return bs[i] < bs[j] })
	parts := make([]string, len(bs))
	for i, b := range bs {
		parts[i] = fmt.Sprintf("%016x", b)
	}
	return strings.Join(parts, ".")
}

func bitsList(vals []float64) string {
	if len(vals) == 0 {
		return "-"
	}
	parts := make([]string, len(vals))
	for i, v := range vals {
		parts[i] = hx.F64(v)
	}
	return strings.Join(parts, ".")
}

func errStrings(es []error) []string {
	out := make([]string, len(es))
	for i, e := range es {
		out[i] = e.Error()
	}
	return out
}

// hexWarn encodes a warning list with ';' (the answer entries are ','-separated).
func hexWarn(ws []string) string {
	if len(ws) == 0 {
		return "-"
	}
	parts := make([]string, len(ws))
	for i, w := range ws {
		parts[i] = hx.HexS(w)
	}
	return strings.Join(parts, ";")
}

type answers struct {
	xid      map[string]int
	xs       []string
	sum, cmp map[string]string
	gm       map[string]string
	sumOrd   []string
	cmpOrd   []string
	gmOrd    []string
}

func (a *answers) x(vals []float64) int {
	c := canon(vals)
	if i, ok := a.xid[c]; ok {
		return i
	}
	i := len(a.xs)
	a.xid[c] = i
	a.xs = append(a.xs, c)
	return i
}

// unionMeta is the unit metadata of the whole run, read by this harness from the generated
// files themselves (every `Unit <unit> k=v ...` line of every input, in argument order; the
// first value of a (tidied unit, key) stands, as the format documents). It is independent of
// benchfmt.Files / Reader: "the unit's statistical assumption" of the property is judged by it.
func unionMeta(c *Case) map[[2]string]string {
	content := map[string]string{}
	for _, f := range c.Files {
		content[f.Name] = f.Content
	}
	m := map[[2]string]string{}
	for _, a := range c.Args {
		path := a
		if i := strings.Index(a, "="); i >= 0 {
			path = a[i+1:]
		}
		if path == "-" {
			path = c.Stdin
		}
		for _, line := range strings.Split(content[path], "\n") {
			fs := strings.Fields(line)
			if len(fs) < 2 || fs[0] != "Unit" {
				continue
			}
			unit := tidyOf(fs[1])
			for _, kv := range fs[2:] {
				eq := strings.IndexByte(kv, '=')
				if eq <= 0 {
					continue
				}
				k := [2]string{unit, kv[:eq]}
				if _, ok := m[k]; !ok {
					m[k] = kv[eq+1:]
				}
			}
		}
	}
	return m
}

func encUnionMeta(m map[[2]string]string) string {
	var parts []string
	for k, v := range m {
		parts = append(parts, hx.HexS(k[0])+":"+hx.HexS(k[1])+":"+hx.HexS(v))
	}
	sort.Strings(parts)
	if len(parts) == 0 {
		return "-"
	}
	return strings.Join(parts, ",")
}

// assumeOf: the assumption the property demands for a unit (from the union of all files'
// metadata), not the one the implementation's accumulated map happens to give.
func assumeOf(run *Run, unit string) (benchmath.Assumption, string) {
	if run.umAll[[2]string{tidyOf(unit), "assume"}] == "exact" {
		return benchmath.AssumeExact, "e"
	}
	return benchmath.AssumeNothing, "n"
}

func sampleOf(run *Run, vals []float64) *benchmath.Sample {
	return benchmath.NewSample(append([]float64(nil), vals...), &run.thr)
}

func gmAnswer(xs []float64) string {
	g := stats.GeoMean(xs)
	return fmt.Sprintf("%s:%s:%s", hx.F64(g), hx.HexS(fmt.Sprint(g)), hx.HexS(fmt.Sprintf("%+.2f%%", (g-1)*100)))
}

// assemble computes every answer the model may ask for.
func assemble(run *Run, s *Stream, g *grouping, rankR []int) *answers {
	a := &answers{xid: map[string]int{}, sum: map[string]string{}, cmp: map[string]string{}, gm: map[string]string{}}
	centre := map[gkey]float64{}
	for _, gr := range g.order {
		as, an := assumeOf(run, s.T.tuples[gr.k.t][s.unitIdx])
		key := fmt.Sprintf("%s%d", an, a.x(gr.vals))
		sm := as.Summary(sampleOf(run, gr.vals), run.conf)
		centre[gr.k] = sm.Center
		if _, ok := a.sum[key]; !ok {
			a.sum[key] = fmt.Sprintf("%s:%s:%s:%s", hx.F64(sm.Center), hx.HexS(fmt.Sprint(sm.Center)), hx.HexS(sm.PctRangeString()), hexWarn(errStrings(sm.Warnings)))
			a.sumOrd = append(a.sumOrd, key)
		}
	}
	// pairs within the same table and row
	for _, g1 := range g.order {
		for _, g2 := range g.order {
			if g1.k.t != g2.k.t || g1.k.r != g2.k.r || g1.k.c == g2.k.c {
				continue
			}
			as, an := assumeOf(run, s.T.tuples[g1.k.t][s.unitIdx])
			key := fmt.Sprintf("%s%d.%d", an, a.x(g1.vals), a.x(g2.vals))
			if _, ok := a.cmp[key]; ok {
				continue
			}
			s1, s2 := sampleOf(run, g1.vals), sampleOf(run, g2.vals)
			c := as.Compare(s1, s2)
			a.cmp[key] = fmt.Sprintf("%s:%s:%s", hx.HexS(c.FormatDelta(centre[g1.k], centre[g2.k])), hx.HexS(c.String()), hexWarn(errStrings(c.Warnings)))
			a.cmpOrd = append(a.cmpOrd, key)
		}
	}
	// geomeans: per table, rows in sorted order; centres per column, ratios per ordered column pair
	tabs := map[int]bool{}
	for _, gr := range g.order {
		tabs[gr.k.t] = true
	}
	addGM := func(xs []float64) {
		if len(xs) == 0 {
			return
		}
		k := bitsList(xs)
		if _, ok := a.gm[k]; !ok {
			a.gm[k] = gmAnswer(xs)
			a.gmOrd = append(a.gmOrd, k)
		}
	}
	for t := range tabs {
		rowSet, colSet := map[int]bool{}, map[int]bool{}
		for _, gr := range g.order {
			if gr.k.t == t {
				rowSet[gr.k.r], colSet[gr.k.c] = true, true
			}
		}
		var rows, cols []int
		for r := range rowSet {
			rows = append(rows, r)
		}
		for c := range colSet {
			cols = append(cols, c)
		}
		sort.Slice(rows, func(i, j int) bool { return rankR[rows[i]] < rankR[rows[j]] })
		sort.Ints(cols)
		for _, c := range cols {
			var cs []float64
			for _, r := range rows {
				if _, ok := g.m[gkey{t, r, c}]; ok {
					cs = append(cs, centre[gkey{t, r, c}])
				}
			}
			addGM(cs)
			for _, b := range cols {
				if b == c {
					continue
				}
				var rs []float64
				bad := false
				for _, r := range rows {
					_, ok1 := g.m[gkey{t, r, c}]
					_, ok2 := g.m[gkey{t, r, b}]
					if !ok1 || !ok2 {
						continue
					}
					x, y := centre[gkey{t, r, c}], centre[gkey{t, r, b}]
					switch {
					case x == y:
						rs = append(rs, 1)
					case y == 0:
						bad = true
					default:
						rs = append(rs, x/y)
					}
				}
				if !bad {
					addGM(rs)
				}
			}
		}
	}
	sort.Strings(a.gmOrd)
	return a
}

func (a *answers) enc() (x, sum, cmp, gm string) {
	join := func(ord []string, m map[string]string) string {
		if len(ord) == 0 {
			return "-"
		}
		parts := make([]string, len(ord))
		for i, k := range ord {
			parts[i] = k + "=" + m[k]
		}
		return strings.Join(parts, ",")
	}
	x = "-"
	if len(a.xs) > 0 {
		x = strings.Join(a.xs, ",")
	}
	return x, join(a.sumOrd, a.sum), join(a.cmpOrd, a.cmp), join(a.gmOrd, a.gm)
}
