//go:build verif

package main

import (
	"bufio"
	"bytes"
	"fmt"
	"io"
	"os"
	"os/exec"
	"strconv"
	"strings"
	"sync/atomic"
	"time"

	"golang.org/x/perf/internal/verifh/hx"
)

// The cases run in a CHILD process (this binary re-executed with VERIF_CHILD=1). A panic in a
// goroutine of the real code (e.g. inside the per-cell goroutines of ToTables) cannot be
// recovered and kills the child; the parent then reports `crash <id> <first line>` for the case
// that was running — with a case line carrying the inputs, so that it becomes a replay — and
// restarts a child at the next case.

// preLine announces a case before anything of the real code runs for it.
func preLine(id, idx int, c *Case) {
	args := append(append([]string(nil), c.Flags...), c.Args...)
	var fileParts []string
	for _, f := range c.Files {
		fileParts = append(fileParts, hx.HexS(f.Name)+":"+hx.HexS(f.Content))
	}
	stdin := ""
	if c.Stdin != "" {
		stdin = " stdin=" + hx.HexS(c.Stdin)
	}
	hx.Printf("pre %d idx=%d kind=run args=%s files=%s%s crashed=1 tag=%s\n", id, idx, hx.HexListS(args), strings.Join(fileParts, ","), stdin, sortedTags(c))
	hx.Flush()
}

// caseLimit is the wall limit of one case in the child.
var caseLimit = 150 * time.Second

func firstPanicLine(stderr []byte) string {
	for _, l := range strings.Split(string(stderr), "\n") {
		if strings.HasPrefix(l, "panic:") || strings.HasPrefix(l, "fatal error:") || strings.Contains(l, "DATA RACE") {
			return l
		}
	}
	for _, l := range strings.Split(string(stderr), "\n") {
		if strings.TrimSpace(l) != "" {
			return l
		}
	}
	return "child died without message"
}

func parentLoop() {
	start := 0
	crashes := 0
	for {
		cmd := exec.Command(os.Args[0])
		cmd.Env = append(os.Environ(), "VERIF_CHILD=1", "VERIF_START="+strconv.Itoa(start))
		var stderr bytes.Buffer
		cmd.Stderr = &stderr
		out, err := cmd.StdoutPipe()
		if err != nil {
			fmt.Fprintln(os.Stderr, err)
			os.Exit(3)
		}
		if err := cmd.Start(); err != nil {
			fmt.Fprintln(os.Stderr, err)
			os.Exit(3)
		}
		// watchdog: a case that makes no progress for caseLimit is a hang of the real code
		var lastPre atomic.Int64
		lastPre.Store(time.Now().UnixNano())
		var killed atomic.Bool
		stopDog := make(chan struct{})
		go func() {
			t := time.NewTicker(time.Second)
			defer t.Stop()
			for {
				select {
				case <-stopDog:
					return
				case <-t.C:
					if time.Since(time.Unix(0, lastPre.Load())) > caseLimit {
						killed.Store(true)
						cmd.Process.Kill()
						return
					}
				}
			}
		}()
		rd := bufio.NewReaderSize(out, 1<<20)
		var pre string    // the pre line of the case in progress
		var cur []string  // its lines so far
		curIdx, curID := -1, ""
		flushCase := func() {
			hasCase := false
			for _, l := range cur {
				if strings.HasPrefix(l, "case ") {
					hasCase = true
				}
			}
			if !hasCase && len(cur) > 0 && pre != "" {
				hx.Printf("case %s\n", strings.TrimPrefix(pre, "pre "))
			}
			for _, l := range cur {
				hx.Printf("%s\n", l)
			}
			cur, pre = nil, ""
		}
		for {
			line, rerr := rd.ReadString('\n')
			if strings.HasSuffix(line, "\n") {
				line = strings.TrimSuffix(line, "\n")
				if strings.HasPrefix(line, "pre ") {
					flushCase()
					lastPre.Store(time.Now().UnixNano())
					pre = line
					f := strings.Fields(line)
					curID = f[1]
					if v, ok := hx.Field(line, "idx"); ok {
						curIdx, _ = strconv.Atoi(v)
					}
				} else if pre == "" {
					hx.Printf("%s\n", line) // before the first case (defaults)
				} else {
					cur = append(cur, line)
				}
			}
			if rerr != nil {
				if rerr != io.EOF {
					fmt.Fprintln(os.Stderr, rerr)
				}
				break
			}
		}
		werr := cmd.Wait()
		close(stopDog)
		if werr == nil {
			flushCase()
			return
		}
		// the child died: everything of the case in progress is dropped, the case is reported
		if pre == "" {
			fmt.Fprintf(os.Stderr, "child died before the first case: %v\n%s", werr, stderr.String())
			hx.Flush()
			os.Exit(3)
		}
		hx.Printf("case %s\n", strings.TrimPrefix(pre, "pre "))
		if killed.Load() {
			hx.Printf("crash %s hang: the case made no progress for %v (child killed)\n", curID, caseLimit)
		} else {
			hx.Printf("crash %s in-process: %s\n", curID, firstPanicLine(stderr.Bytes()))
		}
		crashes++
		if crashes > 200 {
			fmt.Fprintln(os.Stderr, "too many crashes")
			hx.Flush()
			os.Exit(3)
		}
		start = curIdx + 1
	}
}
