//go:build verif

// c15tidy: concurrent use of the public benchunit.Tidy and benchfmt.Reader API on FRESH
// slow-path units (the process-wide tidy cache is empty when this process starts). Built with
// and without -race by check.py (extra_builds); driven by harness/c15 (tidyFamily).
//
// usage: c15tidy <goroutines> <unit>...
// output: one line per goroutine, API and unit: "T|R <g> <hexunit> <valuebits> <hextidied>"
package main

import (
	"encoding/hex"
	"fmt"
	"math"
	"os"
	"strconv"
	"strings"
	"sync"

	"golang.org/x/perf/benchfmt"
	"golang.org/x/perf/benchunit"
)

func main() {
	g, _ := strconv.Atoi(os.Args[1])
	units := os.Args[2:]
	out := make([][]string, g)
	start := make(chan struct{})
	var wg sync.WaitGroup
	for i := 0; i < g; i++ {
		wg.Add(1)
		go func(i int) {
			defer wg.Done()
			<-start
			for _, u := range units {
				if i%2 == 0 {
					v, tu := benchunit.Tidy(3, u)
					out[i] = append(out[i], fmt.Sprintf("T %d %s %016x %s", i, hex.EncodeToString([]byte(u)), math.Float64bits(v), hex.EncodeToString([]byte(tu))))
				} else {
					r := benchfmt.NewReader(strings.NewReader("BenchmarkX 1 3 "+u+"\n"), "in")
					for r.Scan() {
						if res, ok := r.Result().(*benchfmt.Result); ok && len(res.Values) == 1 {
							out[i] = append(out[i], fmt.Sprintf("R %d %s %016x %s", i, hex.EncodeToString([]byte(u)), math.Float64bits(res.Values[0].Value), hex.EncodeToString([]byte(res.Values[0].Unit))))
						} else {
							out[i] = append(out[i], fmt.Sprintf("R %d %s !record -", i, hex.EncodeToString([]byte(u))))
						}
					}
				}
			}
		}(i)
	}
	close(start)
	wg.Wait()
	for _, ls := range out {
		for _, l := range ls {
			fmt.Println(l)
		}
	}
}
