//go:build verif

package benchproc

import "golang.org/x/perf/benchproc/internal/parse"

// VerifFieldC14 is parse.Field without offsets.
type VerifFieldC14 struct {
	Key, Order string
	Fixed      []string
}

// VerifParseProjectionC14 exposes parse.ParseProjection (the expression parser is C07's
// subject; C14's raw pass needs the parsed form of the -table/-row/-col/-ignore flags).
func VerifParseProjectionC14(expr string) ([]VerifFieldC14, error) {
	fs, err := parse.ParseProjection(expr)
	if err != nil {
		return nil, err
	}
	out := make([]VerifFieldC14, len(fs))
	for i, f := range fs {
		out[i] = VerifFieldC14{f.Key, f.Order, f.Fixed}
	}
	return out, nil
}

// VerifParseNumC14 exposes parseNum (sort.go), a parameter of the C09 order model.
func VerifParseNumC14(x string) (float64, bool) {
	v, err := parseNum(x)
	return v, err == nil
}
