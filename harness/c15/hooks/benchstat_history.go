//go:build verif

package main

import (
	"bytes"
	"encoding/json"
	"fmt"
	"os"
	"path/filepath"
)

// History hook (inert unless VERIF_BENCHSTAT_HISTORY is set): runs the real benchstat() entry
// point several times IN ONE PROCESS, one argument vector after the other, and writes each
// call's stdout/stderr to VERIF_BENCHSTAT_HISTORY_DIR/run<i>.out|.err. Used by the C15 harness
// to check that a call's output is a function of its arguments and files alone, whatever was
// called before it in the same process.
func init() {
	spec := os.Getenv("VERIF_BENCHSTAT_HISTORY")
	if spec == "" {
		return
	}
	var runs [][]string
	if err := json.Unmarshal([]byte(spec), &runs); err != nil {
		fmt.Fprintln(os.Stderr, "history:", err)
		os.Exit(3)
	}
	dir := os.Getenv("VERIF_BENCHSTAT_HISTORY_DIR")
	for i, args := range runs {
		var o, e bytes.Buffer
		if err := benchstat(&o, &e, args); err != nil {
			fmt.Fprintf(&e, "benchstat: %s\n", err)
		}
		os.WriteFile(filepath.Join(dir, fmt.Sprintf("run%d.out", i)), o.Bytes(), 0o644)
		os.WriteFile(filepath.Join(dir, fmt.Sprintf("run%d.err", i)), e.Bytes(), 0o644)
	}
	os.Exit(0)
}
