//go:build verif

// C14/C15 harness: drives the real benchstat pipeline (in-process mirror of
// cmd/benchstat/main.go + the real binary), records the projected measurement stream,
// and prints what the real Tables / CSV / text report.
package main

import (
	"bytes"
	"encoding/csv"
	"fmt"
	"math"
	"os"
	"sort"
	"strconv"
	"strings"
	"time"
	"unicode/utf8"

	"github.com/aclements/go-moremath/stats"
	"golang.org/x/perf/benchproc"
	"golang.org/x/perf/cmd/benchstat/internal/benchtab"
	"golang.org/x/perf/internal/verifh/hx"
)

var plainBin = os.Getenv("VERIF_BENCHSTAT")

// pipelineLimit is the wall limit of one in-process run of the real pipeline.
var pipelineLimit = 12 * time.Second

// defaultsUsed are the flag defaults the in-process mirror runs with (read from the real binary).
var defaultsUsed Defaults

func sortedTags(c *Case) string {
	var ts []string
	for t := range c.Tags {
		ts = append(ts, t)
	}
	sort.Strings(ts)
	if len(ts) == 0 {
		return "trivial"
	}
	return strings.Join(ts, "+")
}

func intsOf(s string) []int {
	if s == "-" {
		return nil
	}
	var out []int
	for _, p := range strings.Split(s, ",") {
		n, _ := strconv.Atoi(p)
		out = append(out, n)
	}
	return out
}

// splitCSVLines parses CSV output line by line (encoding/csv's reader would drop the
// empty records that separate tables). Generated values never contain newlines.
func splitCSVLines(b []byte) [][]string {
	var out [][]string
	s := string(b)
	if s == "" {
		return nil
	}
	for _, l := range strings.Split(strings.TrimSuffix(s, "\n"), "\n") {
		if l == "" {
			out = append(out, []string{""})
			continue
		}
		rec, err := csv.NewReader(strings.NewReader(l)).Read()
		if err != nil {
			rec = []string{"!csv:" + l}
		}
		out = append(out, rec)
	}
	return out
}

func linesOf(b []byte) []string {
	s := string(b)
	if s == "" {
		return nil
	}
	return strings.Split(strings.TrimSuffix(s, "\n"), "\n")
}

func isSuper(r rune) bool { return strings.ContainsRune("⁰¹²³⁴⁵⁶⁷⁸⁹", r) }

// textBlocks splits text output into per-table (header lines, footnote lines).
func textBlocks(b []byte) (hdrs, foots [][]string) {
	var h, f []string
	inGrid, any := false, false
	flush := func() {
		if any {
			hdrs, foots = append(hdrs, h), append(foots, f)
		}
		h, f, inGrid, any = nil, nil, false, false
	}
	for _, l := range linesOf(b) {
		r, _ := utf8.DecodeRuneInString(l)
		switch {
		case l == "":
			flush()
			continue
		case !inGrid && !strings.Contains(l, "│"):
			h = append(h, l)
		case strings.Contains(l, "│"):
			inGrid = true
		case inGrid && isSuper(r):
			f = append(f, l)
		}
		any = true
	}
	flush()
	return
}

func runCase(id int, d Defaults, c *Case) {
	dir := writeCase(id, c)
	defer func() {
		if e := recover(); e != nil {
			hx.Printf("crash %d %v\n", id, e)
		}
		if os.Getenv("VERIF_KEEP") == "" {
			os.RemoveAll(dir)
		}
	}()
	cwd, _ := os.Getwd()
	os.Chdir(dir)
	defer os.Chdir(cwd)
	args := append(append([]string(nil), c.Flags...), c.Args...)
	// the real pipeline under a wall limit: a ToTables that never returns (and may allocate
	// without bound) cannot be abandoned inside this process, so the child reports and exits;
	// the parent turns that into `crash <id> in-process: fatal error: hang …` and goes on
	var run *Run
	done := make(chan *Run, 1)
	binStdin = c.Stdin
	go func() { done <- runPipelineStdin(d, args) }()
	select {
	case run = <-done:
	case <-time.After(pipelineLimit):
		fmt.Fprintf(os.Stderr, "fatal error: hang: the real pipeline (Files, Builder.Add, ToTables, ToText/ToCSV) did not return within %v\n", pipelineLimit)
		os.Exit(2)
	}
	run.umAll = unionMeta(c)

	var fileParts []string
	for _, f := range c.Files {
		fileParts = append(fileParts, hx.HexS(f.Name)+":"+hx.HexS(f.Content))
	}
	head := fmt.Sprintf("case %d kind=run args=%s files=%s", id, hx.HexListS(args), strings.Join(fileParts, ","))
	if c.Stdin != "" {
		head += " stdin=" + hx.HexS(c.Stdin)
	}

	// the real binary, both formats
	binState := "skip"
	var bText, bTextErr, bCSV, bCSVErr []byte
	if plainBin != "" {
		bText, bTextErr, _ = runBinary(plainBin, dir, nil, append([]string{"-format", "text"}, args...)...)
		bCSV, bCSVErr, _ = runBinary(plainBin, dir, nil, append([]string{"-format", "csv"}, args...)...)
	}

	if run.Err != "" {
		// error path: the binary must report the same error text and print nothing
		if plainBin != "" {
			want := "benchstat: " + run.Err + "\n"
			if strings.HasPrefix(run.Err, "flag: ") {
				binState = "flagerr"
			} else if len(bText) == 0 && strings.HasSuffix(string(bTextErr), want) {
				binState = "ok"
			} else {
				binState = "diff"
			}
		}
		hx.Printf("%s err=%s tag=%s\n", head, hx.HexS(run.Err), sortedTags(c))
		hx.Printf("obs %d err=%s\n", id, hx.HexS(run.Err))
		hx.Printf("sobs %d err bin=%s\n", id, binState)
		return
	}
	if bytes.Contains(bTextErr, []byte("panic:")) || bytes.Contains(bCSVErr, []byte("panic:")) {
		defer hx.Printf("crash %d benchstat: %s\n", id, firstPanicLine(append(append([]byte(nil), bTextErr...), bCSVErr...)))
	}
	if plainBin != "" {
		if bytes.Equal(bText, run.text) && bytes.Equal(bTextErr, run.errText) && bytes.Equal(bCSV, run.csv) && bytes.Equal(bCSVErr, run.errCSV) {
			binState = "ok"
		} else {
			binState = "diff"
		}
	}

	s := buildStream(run)
	tord, tok := s.T.ranks()
	rord, rok := s.R.ranks()
	cord, cok := s.C.ranks()
	g := groupStream(s)
	ans := assemble(run, s, g, intsOf(rord))
	um, tidy := encUnits(run, s)
	ax, asum, acmp, agm := ans.enc()
	if len(s.res) == 0 {
		c.tag("empty")
	}
	streamFields := fmt.Sprintf("TF=%s RF=%s CF=%s ZF=%s T=%s R=%s C=%s Z=%s Tord=%s Rord=%s Cord=%s res=%s",
		hx.HexListS(fieldNames(s.TF)), hx.HexListS(fieldNames(s.RF)), hx.HexListS(fieldNames(s.CF)), hx.HexListS(fieldNames(s.ZF)),
		s.T.enc(), s.R.enc(), s.C.enc(), s.Z.enc(), tord, rord, cord, s.encRes())
	specs, specsOK, hasNum := encSpecs(run.exprs)
	rawFields := "rawok=0"
	if specsOK {
		pn := "-"
		if hasNum {
			pn = encPn(s)
		}
		rawFields = fmt.Sprintf("rawok=1 specs=%s raw=%s pn=%s", specs, encRaw(run.raws), pn)
	}
	hx.Printf("%s %s %s umall=%s um=%s tidy=%s X=%s sum=%s cmp=%s gm=%s tag=%s\n",
		head, streamFields, rawFields, encUnionMeta(run.umAll), um, tidy, ax, asum, acmp, agm, sortedTags(c))

	// ------------------------------------------------------------ obs: what the real code built
	keyok := !(s.T.bad || s.R.bad || s.C.bad || s.Z.bad) && tok && rok && cok
	hx.Printf("obs %d ntab=%d keyok=%v\n", id, len(run.tables.Tables), keyok)
	if specsOK {
		// second driver pass: the stream and the key orders re-derived from the raw results by the
		// C08/C09 model must be the recorded ones, and give the same tables
		hx.Printf("obs %d raw %s\n", id, streamFields)
		hx.Printf("obs %d rawtab same=1\n", id)
	}
	idsOf := func(ks []benchproc.Key, d *dict, fs []*benchproc.Field) string {
		if len(ks) == 0 {
			return "-"
		}
		parts := make([]string, len(ks))
		for i, k := range ks {
			parts[i] = strconv.Itoa(d.id(k, fs))
		}
		return strings.Join(parts, ",")
	}
	type cellRef struct {
		r, c int
		cell *benchtab.TableCell
	}
	for ti, tab := range run.tables.Tables {
		tid := s.T.id(run.tables.Keys[ti], s.TF)
		an := ""
		if tab.Assumption.SummaryLabel() == "exact" {
			an = "e"
		} else if tab.Assumption.SummaryLabel() == "median" {
			an = "n"
		} else {
			an = "?"
		}
		hx.Printf("obs %d tab %d key=%d unit=%s assume=%s rows=%s cols=%s\n", id, ti, tid, hx.HexS(tab.Unit), an,
			idsOf(tab.Rows, s.R, s.RF), idsOf(tab.Cols, s.C, s.CF))
		var cells []cellRef
		for k, cell := range tab.Cells {
			cells = append(cells, cellRef{s.R.id(k.Row, s.RF), s.C.id(k.Col, s.CF), cell})
		}
		sort.Slice(cells, func(i, j int) bool {
			if cells[i].r != cells[j].r {
				return cells[i].r < cells[j].r
			}
			return cells[i].c < cells[j].c
		})
		for _, cr := range cells {
			base, cmp := "-", "-"
			if cr.cell.Baseline != nil {
				for _, o := range cells {
					if o.cell == cr.cell.Baseline {
						base = fmt.Sprintf("%d.%d", o.r, o.c)
					}
				}
				cmp = hx.HexS(cr.cell.Comparison.String())
			}
			hx.Printf("obs %d cell %d %d.%d n=%s base=%s ctr=%s cmp=%s sw=%s\n", id, ti, cr.r, cr.c, bitsList(cr.cell.Sample.Values), base,
				hx.F64(cr.cell.Summary.Center), cmp, hx.HexListS(errStrings(cr.cell.Sample.Warnings)))
		}
		for _, col := range tab.Cols {
			ts := tab.Summary[col]
			hx.Printf("obs %d sum %d %d hs=%v s=%s hr=%v r=%s w=%s\n", id, ti, s.C.id(col, s.CF), ts.HasSummary, hx.F64(ts.Summary), ts.HasRatio, hx.F64(ts.Ratio),
				hx.HexListS(errStrings(ts.Warnings)))
		}
	}
	for _, rec := range splitCSVLines(run.csv) {
		hx.Printf("obs %d csv f=%s\n", id, hx.HexListS(rec))
	}
	for _, l := range linesOf(run.errCSV[len(run.errText):]) {
		hx.Printf("obs %d cw %s\n", id, hx.HexS(l))
	}
	th, tf := textBlocks(run.text)
	for i := range th {
		hx.Printf("obs %d txt %d hdr=%s foot=%s\n", id, i, hx.HexListS(th[i]), hx.HexListS(tf[i]))
	}

	// ------------------------------------------------------------ sobs: the implementation in spec vocabulary
	var cellParts, reswParts, gmParts, asParts, orderParts []string
	statBad := ""
	for ti, tab := range run.tables.Tables {
		tid := s.T.id(run.tables.Keys[ti], s.TF)
		as, _ := assumeOf(run, tab.Unit)
		dots := func(ks []benchproc.Key, d *dict, fs []*benchproc.Field) string {
			parts := make([]string, len(ks))
			for i, k := range ks {
				parts[i] = strconv.Itoa(d.id(k, fs))
			}
			return strings.Join(parts, ".")
		}
		orderParts = append(orderParts, fmt.Sprintf("%d:%s/%s", tid, dots(tab.Rows, s.R, s.RF), dots(tab.Cols, s.C, s.CF)))
		switch tab.Assumption.SummaryLabel() {
		case "exact":
			asParts = append(asParts, fmt.Sprintf("%d=e", tid))
		case "median":
			asParts = append(asParts, fmt.Sprintf("%d=n", tid))
		default:
			asParts = append(asParts, fmt.Sprintf("%d=?", tid))
		}
		baseCol := tab.Cols[0]
		for k, cell := range tab.Cells {
			r, cc := s.R.id(k.Row, s.RF), s.C.id(k.Col, s.CF)
			name := fmt.Sprintf("%d.%d.%d", tid, r, cc)
			cellParts = append(cellParts, name+"="+canon(cell.Sample.Values))
			for _, w := range cell.Sample.Warnings {
				if ws := w.Error(); strings.HasPrefix(ws, "benchmarks vary in ") {
					fs := strings.Split(strings.TrimPrefix(ws, "benchmarks vary in "), ", ")
					for i := range fs {
						fs[i] = hx.HexS(fs[i])
					}
					reswParts = append(reswParts, name+"="+strings.Join(fs, "+"))
				}
			}
			// statistics = a direct benchmath call on this cell's multiset (and the true baseline's)
			want := as.Summary(sampleOf(run, cell.Sample.Values), run.conf)
			if hx.F64(want.Center) != hx.F64(cell.Summary.Center) || hx.F64(want.Lo) != hx.F64(cell.Summary.Lo) || hx.F64(want.Hi) != hx.F64(cell.Summary.Hi) {
				statBad = "summary:" + name
			}
			if k.Col != baseCol {
				if bc, ok := tab.Cells[benchtab.TableKey{Row: k.Row, Col: baseCol}]; ok {
					wc := as.Compare(sampleOf(run, bc.Sample.Values), sampleOf(run, cell.Sample.Values))
					// n= names the baseline's sample size first, then the cell's own
					if cell.Comparison.N1 != len(bc.Sample.Values) || cell.Comparison.N2 != len(cell.Sample.Values) {
						statBad = fmt.Sprintf("n:%s-reports-%d+%d-for-baseline-%d-and-cell-%d", name, cell.Comparison.N1, cell.Comparison.N2, len(bc.Sample.Values), len(cell.Sample.Values))
					}
					if cell.Baseline != bc || hx.F64(wc.P) != hx.F64(cell.Comparison.P) || wc.N1 != cell.Comparison.N1 || wc.N2 != cell.Comparison.N2 || wc.Alpha != cell.Comparison.Alpha {
						statBad = "compare:" + name
					}
				} else if cell.Baseline != nil {
					statBad = "baseline:" + name
				}
			} else if cell.Baseline != nil {
				statBad = "baseline:" + name
			}
		}
		// geomean row against a direct computation over the column
		for ci, col := range tab.Cols {
			ts := tab.Summary[col]
			var cs, rs []float64
			bad := false
			for _, row := range tab.Rows {
				cell, ok := tab.Cells[benchtab.TableKey{Row: row, Col: col}]
				if !ok {
					continue
				}
				cs = append(cs, cell.Summary.Center)
				if bc, ok := tab.Cells[benchtab.TableKey{Row: row, Col: baseCol}]; ok && ci > 0 {
					a, b := cell.Summary.Center, bc.Summary.Center
					if a == b {
						rs = append(rs, 1)
					} else if b == 0 {
						bad = true
					} else {
						rs = append(rs, a/b)
					}
				}
			}
			gm := stats.GeoMean(cs)
			if ts.HasSummary != (gm == gm) || (ts.HasSummary && hx.F64(gm) != hx.F64(ts.Summary)) {
				statBad = fmt.Sprintf("geomean:%d.%d", tid, ci)
			}
			if ci > 0 {
				gr := stats.GeoMean(rs)
				want := !bad && gr == gr
				if ts.HasRatio != want || (want && hx.F64(gr) != hx.F64(ts.Ratio)) {
					statBad = fmt.Sprintf("georatio:%d.%d", tid, ci)
				}
			} else if ts.HasRatio {
				statBad = fmt.Sprintf("georatio:%d.%d", tid, ci)
			}
			flags := ""
			for _, w := range ts.Warnings {
				switch {
				case strings.HasPrefix(w.Error(), "benchmark set differs"):
					flags += "d"
				case strings.HasPrefix(w.Error(), "summaries must be"):
					flags += "s"
				case strings.HasPrefix(w.Error(), "ratios must be"):
					flags += "r"
				default:
					flags += "?"
				}
			}
			// +Inf centres: whether go-moremath's running-mean GeoMean ends in NaN depends on where
			// the infinity stands; S does not judge these columns (K compares them exactly)
			for _, row := range tab.Rows {
				for _, cc := range []benchproc.Key{col, baseCol} {
					if cell, ok := tab.Cells[benchtab.TableKey{Row: row, Col: cc}]; ok && math.IsInf(cell.Summary.Center, 1) {
						flags = "i"
					}
				}
				// ... and a per-row ratio that is +Inf (e.g. -Inf / -200)
				if a, ok := tab.Cells[benchtab.TableKey{Row: row, Col: col}]; ok && ci > 0 {
					if b, ok := tab.Cells[benchtab.TableKey{Row: row, Col: baseCol}]; ok && b.Summary.Center != 0 && math.IsInf(a.Summary.Center/b.Summary.Center, 1) {
						flags = "i"
					}
				}
			}
			if flags != "" {
				gmParts = append(gmParts, fmt.Sprintf("%d.%d=%s", tid, s.C.id(col, s.CF), flags))
			}
		}
	}
	if statBad == "" {
		statBad = "ok"
	}
	sortJoin := func(ps []string) string {
		if len(ps) == 0 {
			return "-"
		}
		sort.Slice(ps, func(i, j int) bool { return lessIDs(ps[i], ps[j]) })
		return strings.Join(ps, "|")
	}
	if prop == "C14" {
		hx.Printf("sobs %d cells=%s resw=%s gmw=%s assume=%s stats=%s fixed=%s units=%s labels=%s colpos=%s hdrcfg=%s order=%s rawcells=%s bin=%s\n", id, sortJoin(cellParts), sortJoin(reswParts), sortJoin(gmParts), sortJoin(asParts), statBad, okOr(run.fixedBad), unitsCheck(c, run), strings.ReplaceAll(labelsCheck(c, run), " ", "_"), strings.ReplaceAll(colPosCheck(run), " ", "_"), strings.ReplaceAll(hdrCfgCheck(run, s), " ", "_"), orderField(orderParts, specsOK), rawCellsDigest(run, s, specsOK), binState)
	} else {
		// the residue warning of every cell against the specification (as in C14): with more than a
		// handful of residues per cell it must still name exactly the varying fields
		hx.Printf("sobs %d resw=%s\n", id, sortJoin(reswParts))
		schedCase(id, dir, c, args, run)
	}
}

func okOr(s string) string {
	if s == "" {
		return "ok"
	}
	return strings.ReplaceAll(s, " ", "_")
}

// unitsCheck: for the generated "wide" cases the set of units that must survive the -filter is
// known by construction (Case.WantUnits); the tables of the output must be exactly those units.
func unitsCheck(c *Case, run *Run) string {
	if c.WantUnits == nil {
		return "ok"
	}
	got := map[string]bool{}
	for _, t := range run.tables.Tables {
		got[t.Unit] = true
	}
	want := map[string]bool{}
	for _, u := range c.WantUnits {
		want[u] = true
		if !got[u] {
			return "missing-" + u
		}
	}
	for u := range got {
		if !want[u] {
			return "unexpected-" + u
		}
	}
	return "ok"
}

// orderField: tables in output order, each with its rows and columns in output order (ids of
// the key dictionaries). Judged against the documented orders (first observation, alpha, num,
// fixed) computed by Spec.Keys from the raw results.
func orderField(parts []string, ok bool) string {
	if !ok {
		return "-"
	}
	if len(parts) == 0 {
		return "none"
	}
	return strings.Join(parts, ";")
}

// lessIDs orders "t.r.c=..." strings numerically by their dotted id prefix.
func lessIDs(a, b string) bool {
	pa := strings.Split(strings.SplitN(a, "=", 2)[0], ".")
	pb := strings.Split(strings.SplitN(b, "=", 2)[0], ".")
	for i := 0; i < len(pa) && i < len(pb); i++ {
		x, _ := strconv.Atoi(pa[i])
		y, _ := strconv.Atoi(pb[i])
		if x != y {
			return x < y
		}
	}
	return len(pa) < len(pb)
}

func main() {
	defer hx.Flush()
	if os.Getenv("VERIF_CHILD") == "" && os.Getenv("VERIF_NOCHILD") == "" {
		parentLoop()
		return
	}
	start, _ := strconv.Atoi(os.Getenv("VERIF_START"))
	d := Defaults{Table: ".config", Row: ".fullname", Col: ".file", Filter: "*", Alpha: "0.05", Confidence: "0.95", Format: "text", Src: "help"}
	if plainBin != "" {
		rd, err := readDefaults(plainBin)
		if err != nil {
			fmt.Fprintln(os.Stderr, err)
			os.Exit(3)
		}
		d = rd
	}
	defaultsUsed = d
	if start == 0 {
		// case 0: the flag defaults of the real command
		hx.Printf("case 0 kind=defaults tag=defaults\n")
		hx.Printf("obs 0 table=%s row=%s col=%s ignore=%s filter=%s alpha=%s confidence=%s format=%s src=%s\n", hx.HexS(d.Table), hx.HexS(d.Row), hx.HexS(d.Col),
			hx.HexS(d.Ignore), hx.HexS(d.Filter), hx.HexS(d.Alpha), hx.HexS(d.Confidence), hx.HexS(d.Format), d.Src)
	}
	shard, _ := strconv.Atoi(os.Getenv("VERIF_SHARD"))
	nsh, _ := strconv.Atoi(os.Getenv("VERIF_NSHARDS"))
	if nsh == 0 {
		nsh = 1
	}
	// idx numbers the cases of this shard in generation order; a child restarted after a crash
	// regenerates (the generator is deterministic) and skips the cases before `start`
	idx := 0
	do := func(id int, c *Case) {
		if idx >= start {
			preLine(id, idx, c)
			runCase(id, d, c)
			hx.Flush()
		}
		idx++
	}
	id := 1
	if shard == 0 {
		for _, c := range corpusCases() {
			do(id, c)
			id++
		}
	}
	id = 100
	r := hx.NewRand(14 + uint64(shard)*1000003)
	n := hx.N(quickCases, thoroughCases) / nsh
	for i := 0; i < n; i++ {
		do(id, genCase(r, hx.Tier() == "thorough" && i%2 == 0))
		id++
		if prop == "C15" && i%10 == 0 {
			// concurrent use of the public Tidy / Reader API on fresh units
			if idx >= start {
				tidyFamily(100000+id, idx)
			}
			idx++
		}
	}
}
